import GoLevel.Proofs.ConcReader
/-!
# The reader invariants are preserved by every step of the real system
-/
namespace GoLevel.Conc

variable {c : UCmp}

/-! ## an unchanged reader, the state moves -/

theorem rinv_rotate {σ σ' : State} {i : Nat} {r : Reader} (hb : Basic σ) (hr : RInv c σ i r)
    (h : doRotate σ = some σ') : RInv c σ' i r := by
  obtain ⟨g1, g2, g3, rfl⟩ := doRotate_some h
  have hfresh : getBuf σ σ.nextId = [] := hb.fresh _ (Nat.le_refl _)
  exact { hr with
    rbuf := fun s mf hs hm => by
      obtain ⟨a, _⟩ := hr.rbuf s mf hs hm
      constructor
      · refine Or.inr (fun e he => ?_)
        have : e ∈ getBuf σ σ.nextId := he
        rw [hfresh] at this; cases this
      · intro g hg
        have : some σ.mem = some g := hg
        cases this
        rcases a with a | a
        · exact Or.inl a
        · exact Or.inr (Or.inr a)
    fOld := fun mf f hm hf => by
      have := hr.fOld mf f hm hf
      have := hb.memLt
      show f < σ.nextId
      omega }

/-- the tables change while the reader has a version pinned: irrelevant -/
theorem rinv_tabs_pinned {σ : State} {i : Nat} {r : Reader} {v : List Entry}
    (hv : r.ver? = some v) (hr : RInv c σ i r) :
    ∀ s mf, r.seq? = some s → r.mems? = some mf → ∀ k,
      view c (rBufs σ mf ++ v) k s = view c σ.hist k s := by
  intro s mf hs hm k
  have := hr.rc s mf hs hm k
  rw [hv] at this
  exact this

theorem rinv_flushInstall {σ σ' : State} {i : Nat} {r : Reader} (hb : Basic σ) (hr : RInv c σ i r)
    (h : doFlushInstall σ = some σ') : RInv c σ' i r := by
  obtain ⟨f, g1, g2, rfl⟩ := doFlushInstall_some h
  exact { hr with
    rc := fun s mf hs hm k => by
      cases hv : r.ver? with
      | some v => exact rinv_tabs_pinned hv hr s mf hs hm k
      | none =>
        have h0 := hr.rc s mf hs hm k
        rw [hv] at h0
        simp only [Option.getD_none] at h0 ⊢
        rw [← h0]
        show view c (rBufs σ mf ++ (σ.tabs ++ getBuf σ f)) k s = _
        obtain ⟨_, b⟩ := hr.rbuf s mf hs hm
        have hsrc : ∀ e ∈ rBufs σ mf ++ σ.tabs, e ∈ univ σ := by
          intro e he
          rcases List.mem_append.1 he with he | he
          · exact List.mem_append_left _ (rBufs_sub hb mf e he)
          · exact hb.tab_univ e he
        have hsrc' : ∀ e ∈ rBufs σ mf ++ (σ.tabs ++ getBuf σ f), e ∈ univ σ := by
          intro e he
          rcases List.mem_append.1 he with he | he
          · exact List.mem_append_left _ (rBufs_sub hb mf e he)
          · rcases List.mem_append.1 he with he | he
            · exact hb.tab_univ e he
            · exact hb.buf_univ f e he
        have hset : ∀ (hin : ∀ e ∈ getBuf σ f, e ∈ rBufs σ mf),
            view c (rBufs σ mf ++ (σ.tabs ++ getBuf σ f)) k s = view c (rBufs σ mf ++ σ.tabs) k s := by
          intro hin
          apply view_congr hb.uniq hsrc' hsrc
          intro e _
          simp only [List.mem_append]
          constructor
          · rintro (h | h | h)
            · exact Or.inl h
            · exact Or.inr h
            · exact Or.inl (hin e h)
          · rintro (h | h)
            · exact Or.inl h
            · exact Or.inr (Or.inl h)
        rcases b f g1 with b | b | b
        · apply hset
          intro e he; rw [b] at he; exact List.mem_append_left _ he
        · apply hset
          intro e he
          apply List.mem_append_right
          rw [← b]; exact he
        · apply view_eq_of_leF
          rw [← List.append_assoc, leF_append_above b] }

theorem rinv_trInstall {σ σ' : State} {i : Nat} {r : Reader} (hb : Basic σ) (hr : RInv c σ i r)
    (h : doTrInstall σ = some σ') : RInv c σ' i r := by
  obtain ⟨t, g1, g2, rfl⟩ := doTrInstall_some h
  exact { hr with
    rc := fun s mf hs hm k => by
      cases hv : r.ver? with
      | some v => exact rinv_tabs_pinned hv hr s mf hs hm k
      | none =>
        have h0 := hr.rc s mf hs hm k
        rw [hv] at h0
        simp only [Option.getD_none] at h0 ⊢
        rw [← h0]
        show view c (rBufs σ mf ++ (σ.tabs ++ t.priv)) k s = _
        apply view_eq_of_leF
        rw [← List.append_assoc]
        apply leF_append_above
        intro e he
        have := hb.privSeq e (by rw [g1]; exact he)
        have := hr.seqLe s hs
        omega }

theorem rinv_compCommit {σ σ' : State} {i : Nat} {r : Reader} {nt : List Entry}
    (hb : Basic σ) (hr : RInv c σ i r)
    (h : doCompCommit σ nt = some σ') (hg : guardP c σ (.compCommit nt)) : RInv c σ' i r := by
  obtain ⟨m, g1, g2, rfl⟩ := doCompCommit_some h
  exact { hr with
    rc := fun s mf hs hm k => by
      cases hv : r.ver? with
      | some v => exact rinv_tabs_pinned hv hr s mf hs hm k
      | none =>
        have h0 := hr.rc s mf hs hm k
        rw [hv] at h0
        simp only [Option.getD_none] at h0 ⊢
        show view c (rBufs σ mf ++ nt) k s = view c σ.hist k s
        have hsp := hr.seqLe s hs
        -- the reader is still registered, hence at or above the compaction's `minSeq`
        have hreg := hr.regNeeded (by rw [hs]; simp) hv
        obtain ⟨s', hs', hsn⟩ := hr.regSnap hreg
        rw [hs] at hs'; cases hs'
        have hms : m ≤ s := Nat.le_trans (hb.compLe m g1) (hb.floorSnap _ hsn)
        have hpriv : ∀ e ∈ privOf σ.tr, s < e.seq := by
          intro e he; have := hb.privSeq e he; omega
        have hUH : view c (univ σ) k s = view c σ.hist k s :=
          view_eq_of_leF (leF_append_above hpriv)
        rw [← hUH]
        apply view_comp_congr hb.uniq
          (fun e he => List.mem_append_left _ (rBufs_sub hb mf e he)) hb.tab_univ
          (fun e he => hb.tab_univ e (g2 e he))
        · intro h hh hle
          rcases List.mem_append.1 hh with hh | hh
          · exact hr.intact s mf hs hm h hh hle
          · have := hpriv h hh; omega
        · rw [hUH]; exact h0
        · exact hg m g1 k s hms }

/-! ## the reader's own steps -/

theorem rinv_rSeq {σ : State} {i : Nat} {r : Reader} {s : Nat} {lv : Bool}
    (hr : RInv c σ i r) (hseq : r.seq? = none) (hs : s ≤ σ.pub) :
    RInv c { σ with readers := σ.readers.set i { r with seq? := some s, live := lv, reg := true },
                    snaps := σ.snaps ++ [(.reader i, s)] } i
      { r with seq? := some s, live := lv, reg := true } := by
  have hm : r.mems? = none := by
    cases h : r.mems? with
    | none => rfl
    | some mf => exact absurd hseq (hr.memsSeq (by rw [h]; simp))
  have hres : r.results = [] := by
    cases h : r.results with
    | nil => rfl
    | cons kv rest =>
      obtain ⟨s', h1, _⟩ := hr.results kv (by rw [h]; exact List.mem_cons_self)
      rw [hseq] at h1; cases h1
  constructor
  · intro s' hs'
    have : some s = some s' := hs'
    cases this; exact hs
  · intro _; exact ⟨s, rfl, List.mem_append_right _ List.mem_cons_self⟩
  · intro _ _; rfl
  · intro h; exact absurd hm h
  · exact hr.verMems
  · intro s' mf _ hm'; rw [hm] at hm'; cases hm'
  · intro s' mf _ hm'; rw [hm] at hm'; cases hm'
  · intro s' mf _ hm'; rw [hm] at hm'; cases hm'
  · intro kv hkv; rw [hres] at hkv; cases hkv
  · intro mf f hm'; rw [hm] at hm'; cases hm'
  · intro mf hm'; rw [hm] at hm'; cases hm'
  · intro s' v _ hv
    have : r.ver? = none := by
      cases h : r.ver? with
      | none => rfl
      | some v' => exact absurd hm (hr.verMems (by rw [h]; simp))
    rw [this] at hv; cases hv

theorem rinv_rMems {σ : State} {i : Nat} {r : Reader} (hb : Basic σ) (hc : Cover c σ)
    (hr : RInv c σ i r) (hseq : r.seq? ≠ none) (hver : r.ver? = none) :
    RInv c (setReader σ i { r with mems? := some (σ.mem, σ.frozen) }) i
      { r with mems? := some (σ.mem, σ.frozen) } := by
  have hRB : rBufs σ (σ.mem, σ.frozen) = memBuf σ ++ frozenBuf σ := rfl
  exact { hr with
    memsSeq := fun _ => hseq
    verMems := fun _ => by simp
    rbuf := fun s mf hs hm => by
      have : some (σ.mem, σ.frozen) = some mf := hm
      cases this
      exact ⟨Or.inl rfl, fun g hg => Or.inr (Or.inl hg.symm)⟩
    intact := fun s mf hs hm => by
      have : some (σ.mem, σ.frozen) = some mf := hm
      cases this
      have hsp := hr.seqLe s hs
      intro h hh hle
      show h ∈ rBufs σ (σ.mem, σ.frozen) ∨ ∀ x ∈ rBufs σ (σ.mem, σ.frozen), h.seq < x.seq
      rw [hRB]
      rcases hc.intact h (List.mem_append_left _ hh) with h1 | h1
      · simp only [bufPart, bufPartL, List.mem_append] at h1
        rcases h1 with (h1 | h1) | h1
        · have := hb.privSeq h (privOut_sub _ h h1); omega
        · exact Or.inl (List.mem_append_left _ h1)
        · exact Or.inl (List.mem_append_right _ h1)
      · refine Or.inr (fun x hx => h1 x ?_)
        simp only [bufPart, bufPartL, List.mem_append] at hx ⊢
        rcases hx with hx | hx
        · exact Or.inl (Or.inr hx)
        · exact Or.inr hx
    rc := fun s mf hs hm k => by
      have : some (σ.mem, σ.frozen) = some mf := hm
      cases this
      have hsp := hr.seqLe s hs
      have hreg := hr.regNeeded hseq hver
      obtain ⟨s', hs', hsn⟩ := hr.regSnap hreg
      rw [hs] at hs'; cases hs'
      have hfl : σ.floor ≤ s := hb.floorSnap _ hsn
      have h0 := hc.cov k s hfl
      show view c (rBufs σ (σ.mem, σ.frozen) ++ r.ver?.getD σ.tabs) k s = view c σ.hist k s
      rw [hver, hRB]
      simp only [Option.getD_none]
      have hpriv : ∀ e ∈ privOf σ.tr, s < e.seq := by
        intro e he; have := hb.privSeq e he; omega
      have hUH : view c (univ σ) k s = view c σ.hist k s :=
        view_eq_of_leF (leF_append_above hpriv)
      rw [← hUH, ← h0]
      apply view_eq_of_leF
      simp only [bufPart, bufPartL, leF_append]
      rw [leF_above (E := privOut σ.tr) (fun e he => hpriv e (privOut_sub _ e he))]
      simp
    fOld := fun mf f hm hf => by
      have : some (σ.mem, σ.frozen) = some mf := hm
      cases this
      exact hb.frozenLt f hf
    rorder := fun mf hm a ha b hb' => by
      have : some (σ.mem, σ.frozen) = some mf := hm
      cases this
      exact hc.order a ha b (List.mem_append_right _ hb') }

theorem rinv_rVer {σ : State} {i : Nat} {r : Reader} (hb : Basic σ)
    (hr : RInv c σ i r) (hmems : r.mems? ≠ none) (hver : r.ver? = none) :
    RInv c (setReader σ i { r with ver? := some σ.tabs }) i { r with ver? := some σ.tabs } :=
  { hr with
    regNeeded := fun _ h => by cases h
    verMems := fun _ => hmems
    rc := fun s mf hs hm k => by
      have := hr.rc s mf hs hm k
      rw [hver] at this
      exact this
    verHist := fun s v hs hv e he hle => by
      have : some σ.tabs = some v := hv
      cases this
      rcases hb.tabSub e he with h | h
      · exact h
      · have := hb.privSeq e (privIn_sub _ e h)
        have := hr.seqLe s hs
        omega }

theorem rinv_rLookup {σ : State} {i : Nat} {r : Reader} {s : Nat} {mf : Nat × Option Nat}
    {v : List Entry} {k : Bytes}
    (hr : RInv c σ i r) (hs : r.seq? = some s) (hm : r.mems? = some mf) (hv : r.ver? = some v) :
    RInv c (setReader σ i { r with results := r.results ++ [(k, view c (readSrc σ mf v) k s)] }) i
      { r with results := r.results ++ [(k, view c (readSrc σ mf v) k s)] } :=
  { hr with
    results := fun kv hkv => by
      rcases List.mem_append.1 hkv with hkv | hkv
      · exact hr.results kv hkv
      · simp only [List.mem_singleton] at hkv
        subst hkv
        refine ⟨s, hs, ?_⟩
        have := hr.rc s mf hs hm k
        rw [hv] at this
        exact this }

theorem rinv_rRelease {σ : State} {i : Nat} {r : Reader}
    (hr : RInv c σ i r) (hver : r.ver? ≠ none) :
    RInv c { σ with readers := σ.readers.set i { r with reg := false },
                    snaps := σ.snaps.filter (fun p => decide (p.1 ≠ .reader i)) } i
      { r with reg := false } :=
  { hr with
    regSnap := fun h => by cases h
    regNeeded := fun _ h => absurd h hver }


/-! ## assembly -/

theorem getElem?_set_cases {l : List Reader} {i j : Nat} {x r : Reader} (h : (l.set i x)[j]? = some r) :
    (i = j ∧ r = x) ∨ (i ≠ j ∧ l[j]? = some r) := by
  by_cases hij : i = j
  · subst hij
    rw [List.getElem?_set] at h
    simp only [if_true] at h
    split at h
    · exact Or.inl ⟨rfl, (Option.some.inj h).symm⟩
    · cases h
  · rw [List.getElem?_set_ne hij] at h
    exact Or.inr ⟨hij, h⟩

theorem readers_step {σ σ' : State} {a : Action} (hb : Basic σ) (hc : Cover c σ) (hR : Readers c σ)
    (h : Step Cfg.real c σ a σ') : Readers c σ' := by
  obtain ⟨h, hg⟩ := h
  cases a with
  | writeInsert es =>
    intro j r hj
    have hcopy := h
    obtain ⟨g1, g2, rfl⟩ := doWriteInsert_some h
    obtain ⟨hc1, _⟩ := consec_spec _ _ g2
    have hnew : ∀ e ∈ es, σ.pub < e.seq := fun e he => by have := (hc1 e he).1; omega
    have hnewer : ∀ e ∈ es, ∀ x ∈ σ.hist, x.seq < e.seq := by
      intro e he x hx
      have h1 := hb.bound x (List.mem_append_left _ hx)
      rw [g1] at h1
      simp only [privOf, List.length_nil] at h1
      have := (hc1 e he).1; omega
    refine rinv_grow (σ := σ) hb ?_ ?_ ?_ ?_ ?_ ?_ ?_ (hR j r hj)
    · exact ⟨es, rfl, hnew⟩
    · intro id
      rw [getBuf_wi σ _ es id rfl]
      by_cases hid : id = σ.mem
      · exact ⟨es, by simp [hid], fun e he => ⟨hnew e he, hnewer e he⟩, fun h => absurd hid h⟩
      · exact ⟨[], by simp [hid], by simp, fun _ => rfl⟩
    · rfl
    · exact Or.inl rfl
    · intro _; rfl
    · exact Nat.le_refl _
    · exact fun _ h => h
  | publish =>
    intro j r hj
    obtain ⟨g1, rfl⟩ := doPublish_some h
    exact rinv_frame (σ := σ) hb rfl rfl rfl (Or.inl rfl) rfl (Nat.le_add_right _ _) (fun _ h => h) (hR j r hj)
  | seqSkip n =>
    intro j r hj
    obtain ⟨g1, g2, rfl⟩ := doSeqSkip_some h
    exact rinv_frame (σ := σ) hb rfl rfl rfl (Or.inl rfl) rfl (Nat.le_add_right _ _) (fun _ h => h) (hR j r hj)
  | rotate =>
    intro j r hj
    have hcopy := h
    obtain ⟨g1, g2, g3, rfl⟩ := doRotate_some h
    exact rinv_rotate hb (hR j r hj) hcopy
  | flushInstall =>
    intro j r hj
    have hcopy := h
    obtain ⟨f, g1, g2, rfl⟩ := doFlushInstall_some h
    exact rinv_flushInstall hb (hR j r hj) hcopy
  | flushDrop =>
    intro j r hj
    obtain ⟨g1, g2, rfl⟩ := doFlushDrop_some h
    exact rinv_frame (σ := σ) hb rfl rfl rfl (Or.inr rfl) rfl (Nat.le_refl _) (fun _ h => h) (hR j r hj)
  | compStart =>
    intro j r hj
    obtain ⟨g1, rfl⟩ := doCompStart_some h
    exact rinv_frame (σ := σ) hb rfl rfl rfl (Or.inl rfl) rfl (Nat.le_refl _) (fun _ h => h) (hR j r hj)
  | compCommit nt =>
    intro j r hj
    have hcopy := h
    obtain ⟨m, g1, g2, rfl⟩ := doCompCommit_some h
    exact rinv_compCommit hb (hR j r hj) hcopy hg
  | snapAcquire =>
    intro j r hj
    have := doSnapAcquire_some h
    subst this
    exact rinv_frame (σ := σ) hb rfl rfl rfl (Or.inl rfl) rfl (Nat.le_refl _)
      (fun _ h => List.mem_append_left _ h) (hR j r hj)
  | snapRelease id =>
    intro j r hj
    have := doSnapRelease_some h
    subst this
    exact rinv_frame (σ := σ) hb rfl rfl rfl (Or.inl rfl) rfl (Nat.le_refl _)
      (fun _ h => List.mem_filter.2 ⟨h, by simp⟩) (hR j r hj)
  | rNew =>
    intro j r hj
    have := doRNew_some h
    subst this
    have hj' : (σ.readers ++ [({} : Reader)])[j]? = some r := hj
    by_cases hlt : j < σ.readers.length
    · rw [List.getElem?_append_left hlt] at hj'
      exact rinv_frame (σ := σ) hb rfl rfl rfl (Or.inl rfl) rfl (Nat.le_refl _) (fun _ h => h) (hR j r hj')
    · rw [List.getElem?_append_right (by omega)] at hj'
      have : r = {} := by
        cases hk : j - σ.readers.length with
        | zero => rw [hk] at hj'; simpa using hj'.symm
        | succ n => rw [hk] at hj'; simp at hj'
      subst this
      exact rinv_fresh _ _
  | rSeq i =>
    intro j r hj
    obtain ⟨r0, g1, g2, rfl⟩ := doRSeq_some h
    rcases getElem?_set_cases hj with ⟨rfl, rfl⟩ | ⟨hne, hj'⟩
    · exact rinv_rSeq (hR _ r0 g1) g2 (Nat.le_refl _)
    · exact rinv_frame (σ := σ) hb rfl rfl rfl (Or.inl rfl) rfl (Nat.le_refl _)
        (fun _ h => List.mem_append_left _ h) (hR j r hj')
  | rSeqSnap i id =>
    intro j r hj
    obtain ⟨r0, s, g1, g2, g3, rfl⟩ := doRSeqSnap_some h
    rcases getElem?_set_cases hj with ⟨rfl, rfl⟩ | ⟨hne, hj'⟩
    · exact rinv_rSeq (hR _ r0 g1) g3 (hb.snapsLe (Owner.user id, s) (mem_of_lookup _ _ _ g2))
    · exact rinv_frame (σ := σ) hb rfl rfl rfl (Or.inl rfl) rfl (Nat.le_refl _)
        (fun _ h => List.mem_append_left _ h) (hR j r hj')
  | rMems i =>
    intro j r hj
    obtain ⟨r0, g1, g2, g3, g4, rfl⟩ := doRMems_some h
    have g4 : r0.ver? = none := by
      rcases g4 with g4 | g4
      · exact g4
      · cases g4
    rcases getElem?_set_cases hj with ⟨rfl, rfl⟩ | ⟨hne, hj'⟩
    · exact rinv_rMems hb hc (hR _ r0 g1) g2 g4
    · exact rinv_frame (σ := σ) hb rfl rfl rfl (Or.inl rfl) rfl (Nat.le_refl _) (fun _ h => h) (hR j r hj')
  | rVer i =>
    intro j r hj
    obtain ⟨r0, g1, g2, g3, g4, rfl⟩ := doRVer_some h
    have g4 : r0.mems? ≠ none := by
      rcases g4 with g4 | g4
      · exact g4
      · cases g4
    rcases getElem?_set_cases hj with ⟨rfl, rfl⟩ | ⟨hne, hj'⟩
    · exact rinv_rVer hb (hR _ r0 g1) g4 g3
    · exact rinv_frame (σ := σ) hb rfl rfl rfl (Or.inl rfl) rfl (Nat.le_refl _) (fun _ h => h) (hR j r hj')
  | rLookup i k =>
    intro j r hj
    obtain ⟨r0, s, mf, v, g1, g2, g3, g4, rfl⟩ := doRLookup_some h
    rcases getElem?_set_cases hj with ⟨rfl, rfl⟩ | ⟨hne, hj'⟩
    · exact rinv_rLookup (hR _ r0 g1) g2 g3 g4
    · exact rinv_frame (σ := σ) hb rfl rfl rfl (Or.inl rfl) rfl (Nat.le_refl _) (fun _ h => h) (hR j r hj')
  | rRelease i =>
    intro j r hj
    obtain ⟨r0, g1, g2, g3, g4, rfl⟩ := doRRelease_some h
    rcases getElem?_set_cases hj with ⟨rfl, rfl⟩ | ⟨hne, hj'⟩
    · exact rinv_rRelease (hR _ r0 g1) g4
    · refine rinv_frame (σ := σ) hb rfl rfl rfl (Or.inl rfl) rfl (Nat.le_refl _) ?_ (hR j r hj')
      intro s hs
      refine List.mem_filter.2 ⟨hs, ?_⟩
      simp only [ne_eq, Owner.reader.injEq, decide_not, Bool.not_eq_eq_eq_not, Bool.not_true,
        decide_eq_false_iff_not]
      exact fun h => hne h.symm
  | trOpen =>
    intro j r hj
    obtain ⟨g1, g2, g3, g4, rfl⟩ := doTrOpen_some h
    exact rinv_frame (σ := σ) hb rfl rfl rfl (Or.inl rfl) rfl (Nat.le_refl _) (fun _ h => h) (hR j r hj)
  | trPut e =>
    intro j r hj
    obtain ⟨t, g1, g2, g3, rfl⟩ := doTrPut_some h
    exact rinv_frame (σ := σ) hb rfl rfl rfl (Or.inl rfl) rfl (Nat.le_refl _) (fun _ h => h) (hR j r hj)
  | trGet k =>
    intro j r hj
    obtain ⟨t, g1, g2, rfl⟩ := doTrGet_some h
    exact rinv_frame (σ := σ) hb rfl rfl rfl (Or.inl rfl) rfl (Nat.le_refl _) (fun _ h => h) (hR j r hj)
  | trInstall =>
    intro j r hj
    have hcopy := h
    obtain ⟨t, g1, g2, rfl⟩ := doTrInstall_some h
    exact rinv_trInstall hb (hR j r hj) hcopy
  | trPublish =>
    intro j r hj
    obtain ⟨t, g1, g2, rfl⟩ := doTrPublish_some h
    obtain ⟨x1, x2, x3, x4⟩ := hb.trExcl t g1
    refine rinv_grow (σ := σ) hb ?_ ?_ ?_ ?_ ?_ ?_ ?_ (hR j r hj)
    · exact ⟨t.priv, rfl, fun e he => hb.privSeq e (by rw [g1]; exact he)⟩
    · intro id; exact ⟨[], by simp [getBuf], by simp, fun _ => rfl⟩
    · rfl
    · exact Or.inl rfl
    · intro _; rfl
    · show σ.pub ≤ t.base + t.priv.length; omega
    · exact fun _ h => h
  | trDiscard =>
    intro j r hj
    obtain ⟨t, g1, g2, rfl⟩ := doTrDiscard_some h
    exact rinv_frame (σ := σ) hb rfl rfl rfl (Or.inl rfl) rfl (Nat.le_max_left _ _) (fun _ h => h) (hR j r hj)

/-- all invariants together -/
structure Inv (c : UCmp) (σ : State) : Prop where
  basic : Basic σ
  cover : Cover c σ
  readers : Readers c σ

theorem inv_init : Inv c init := ⟨basic_init, cover_init c, readers_init⟩

theorem inv_step {σ σ' : State} {a : Action} (hi : Inv c σ) (h : Step Cfg.real c σ a σ') : Inv c σ' :=
  ⟨basic_step hi.basic h, cover_step hi.basic hi.cover h, readers_step hi.basic hi.cover hi.readers h⟩

theorem inv_steps {σ σ' : State} (hi : Inv c σ) (h : Steps Cfg.real c σ σ') : Inv c σ' := by
  induction h with
  | refl => exact hi
  | tail a _ hs ih => exact inv_step ih hs

theorem inv_reachable {σ : State} (h : Reachable Cfg.real c σ) : Inv c σ := inv_steps inv_init h

end GoLevel.Conc
