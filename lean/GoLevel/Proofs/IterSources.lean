import GoLevel.Proofs.IterLevel
/-!
# The raw iterator of `DB.newIterator` with a key range, for the real layout

Sources before range restriction: array-like ones (aux memdb, write buffer, frozen buffer, level-0 / aux
tables) and sorted levels (one indexed iterator each, built by `levelIter`).  Core Lean only.
-/
namespace GoLevel

/-- a source of the raw iterator, before range restriction -/
inductive Source
  | arr (L : List Entry)
  | level (tables : List (List Entry))

namespace Source

/-- all entries of the source, in order -/
def list : Source → List Entry
  | .arr L => L
  | .level ts => ts.flatten

def OK (c : UCmp) : Source → Prop
  | .arr L => SortedEntries c L
  | .level ts => LevelOK c ts

/-- the child iterator `newRawIterator` creates for the source (`memDB.NewIterator(slice)`,
`tOps.newIterator(t, slice)`, `NewIndexedIterator(tables.newIndexIterator(slice))`) -/
def node (c : UCmp) (start limit : Option IKey) : Source → Node
  | .arr L => .arr (ArrIter.new c L start limit)
  | .level ts => .idx (levelIter c ts start limit)

/-- what that child presents -/
def spec (c : UCmp) (start limit : Option IKey) : Source → NodeSpec
  | .arr L => .arr (sliceOf c L start limit)
  | .level ts => .idx (levelIter c ts start limit).children

theorem spec_fresh (c : UCmp) (start limit : Option IKey) (s : Source) :
    (s.spec c start limit).fresh = s.node c start limit := by
  cases s <;> rfl

theorem spec_list {c : UCmp} (hl : LawfulUCmp c) (start limit : Option IKey) (s : Source) (hok : s.OK c) :
    (s.spec c start limit).list = sliceOf c s.list start limit := by
  cases s with
  | arr L => rfl
  | level ts => exact levelIter_flat hl hok start limit

theorem spec_ok {c : UCmp} (hl : LawfulUCmp c) (start limit : Option IKey) (s : Source) (hok : s.OK c) :
    (s.spec c start limit).OK c := by
  cases s with
  | arr L => trivial
  | level ts => exact levelIter_idxOK hl hok start limit

theorem list_sorted {c : UCmp} (s : Source) (hok : s.OK c) : SortedEntries c s.list := by
  cases s with
  | arr L => exact hok
  | level ts => exact hok.sorted

end Source

/-- the sorted union of entries with pairwise distinct keys (insertion sort, `insertSorted` of the LSM model) -/
def sortedUnion (c : UCmp) (es : List Entry) : List Entry :=
  es.foldl (fun acc e => insertSorted c e acc) []

end GoLevel
