import GoLevel.Model.Lifecycle
/-! Helper lemmas for C18: invariants of the ownership machine and of the DB machine. -/
namespace GoLevel.Life

/-! ## ownership -/

/-- the lock holders are exactly the open DBs, and there is at most one -/
def Sys.Inv (s : Sys) : Prop :=
  s.kind = .exclusive ∧ s.owners = s.opened ∧ s.opened.length ≤ 1

theorem Sys.init_inv : (Sys.init .exclusive).Inv := ⟨rfl, rfl, by simp [Sys.init]⟩

theorem Sys.step_inv (s : Sys) (e : SysEv) (h : s.Inv) : (s.step e).1.Inv := by
  obtain ⟨hk, ho, hl⟩ := h
  cases e with
  | «open» id ro j =>
    simp only [Sys.step]
    by_cases hc : s.canLock = true
    · simp only [hc, Bool.not_true, Bool.false_eq_true, if_false]
      by_cases hcl : (openCls ro j != Cls.ok) = true
      · simp only [hcl, if_true]; exact ⟨hk, ho, hl⟩
      · simp only [hcl, Bool.false_eq_true, if_false]
        have he : s.owners = [] := by
          simp only [Sys.canLock, hk] at hc
          exact List.isEmpty_iff.mp hc
        refine ⟨hk, ?_, ?_⟩
        · simp [ho]
        · have : s.opened = [] := by rw [← ho]; exact he
          simp [this]
    · simp only [hc, Bool.not_false, if_true]; exact ⟨hk, ho, hl⟩
  | close id =>
    simp only [Sys.step]
    by_cases hc : s.opened.contains id = true
    · simp only [hc, if_true]
      refine ⟨hk, by simp [ho], ?_⟩
      exact Nat.le_trans (List.length_erase_le) hl
    · simp only [hc, Bool.false_eq_true, if_false]; exact ⟨hk, ho, hl⟩

theorem Sys.run_fst_inv (s : Sys) (es : List SysEv) (h : s.Inv) : (Sys.run s es).1.Inv := by
  induction es generalizing s with
  | nil => exact h
  | cons e es ih =>
    simp only [Sys.run]
    exact ih _ (Sys.step_inv s e h)

/-! ## the DB machine -/

theorem run_append (c : Cfg) (s : St) (es fs : List Ev) :
    run c s (es ++ fs) = ((run c (run c s es).1 fs).1, (run c s es).2 ++ (run c (run c s es).1 fs).2) := by
  induction es generalizing s with
  | nil => simp [run]
  | cons e es ih => simp [run, ih, List.append_assoc]

theorem run_cons (c : Cfg) (s : St) (e : Ev) (es : List Ev) :
    run c s (e :: es) = ((run c (step c s e).st es).1, (step c s e).acts ++ (run c (step c s e).st es).2) := by
  simp only [run]

theorem run_fst_append (c : Cfg) (s : St) (es fs : List Ev) :
    (run c s (es ++ fs)).1 = (run c (run c s es).1 fs).1 := by
  rw [run_append]

/-- lifting a step invariant that also bounds the emitted actions to runs -/
theorem run_inv (c : Cfg) (I : St → Prop) (Q : Ev → Prop) (P : Act → Prop)
    (hstep : ∀ s e, I s → Q e → I (step c s e).st ∧ ∀ a ∈ (step c s e).acts, P a)
    (s : St) (es : List Ev) (hs : I s) (hq : ∀ e ∈ es, Q e) :
    I (run c s es).1 ∧ ∀ a ∈ (run c s es).2, P a := by
  induction es generalizing s with
  | nil => exact ⟨hs, by simp [run]⟩
  | cons e es ih =>
    have h1 := hstep s e hs (hq e (by simp))
    have h2 := ih (step c s e).st h1.1 (fun x hx => hq x (by simp [hx]))
    simp only [run]
    refine ⟨h2.1, ?_⟩
    intro a ha
    rcases List.mem_append.mp ha with ha | ha
    · exact h1.2 a ha
    · exact h2.2 a ha

/-- read-only invariant: opened read-only (or closed since), no background goroutines, nothing pinned,
no live transaction -/
def RoInv (s : St) : Prop :=
  (s.mode = .openRO ∨ s.mode = .closed) ∧ s.bg = false ∧ s.pins = 0 ∧ s.tx ≠ .live

theorem chargeSeek_mode (c : Cfg) (s : St) (b : Bool) : (chargeSeek c s b).mode = s.mode := by
  unfold chargeSeek; split <;> rfl
theorem chargeSeek_bg (c : Cfg) (s : St) (b : Bool) : (chargeSeek c s b).bg = s.bg := by
  unfold chargeSeek; split <;> rfl
theorem chargeSeek_pins (c : Cfg) (s : St) (b : Bool) : (chargeSeek c s b).pins = s.pins := by
  unfold chargeSeek; split <;> rfl
theorem chargeSeek_tx (c : Cfg) (s : St) (b : Bool) : (chargeSeek c s b).tx = s.tx := by
  unfold chargeSeek; split <;> rfl
theorem chargeSeek_frozen (c : Cfg) (s : St) (b : Bool) : (chargeSeek c s b).frozen = s.frozen := by
  unfold chargeSeek; split <;> rfl
theorem chargeSeek_false (c : Cfg) (s : St) : chargeSeek c s false = s := by
  simp [chargeSeek]
theorem chargeSeek_noseeks (c : Cfg) (s : St) (b : Bool) (h : c.seeks = false) : chargeSeek c s b = s := by
  simp [chargeSeek, h]

theorem RoInv_charge (c : Cfg) (s : St) (b : Bool) (h : RoInv s) : RoInv (chargeSeek c s b) := by
  unfold RoInv
  rw [chargeSeek_mode, chargeSeek_bg, chargeSeek_pins, chargeSeek_tx]
  exact h

theorem txLive_beq_false (t : TxSt) (h : t ≠ .live) : (t == .live) = false := by
  cases t <;> simp_all

theorem afterClose_ne_live (t : TxSt) : t.afterClose ≠ .live := by
  cases t <;> simp [TxSt.afterClose]

/-- in `closed` nothing happens -/
theorem step_closed (c : Cfg) (s : St) (e : Ev) (hm : s.mode = .closed) :
    (step c s e).st = s ∧ (step c s e).acts = [] := by
  obtain ⟨mode, bg, frozen, due, pins, tx⟩ := s
  simp only at hm; subst hm
  cases e <;> simp [step, stepDB, stepTx, chargeSeek]

theorem RoInv_stepRO (c : Cfg) (s : St) (m : DBm) (p : Nat) (cls : Cls) (h : RoInv s) :
    RoInv (stepRO c s m p cls).st ∧ ∀ a ∈ (stepRO c s m p cls).acts, a.mutating = false := by
  obtain ⟨hm, hb, hp, ht⟩ := h
  unfold stepRO
  split
  · refine ⟨⟨Or.inr rfl, rfl, hp, afterClose_ne_live _⟩, ?_⟩
    simp [closeRes, txLive_beq_false _ ht, hb, Act.mutating]
  · split
    · exact ⟨⟨hm, hb, hp, ht⟩, by simp [Act.mutating]⟩
    · exact ⟨RoInv_charge c s _ ⟨hm, hb, hp, ht⟩, by simp⟩

/-- one step from a state opened read-only -/
theorem RoInv_step (c : Cfg) (s : St) (e : Ev) (h : RoInv s) :
    RoInv (step c s e).st ∧ ∀ a ∈ (step c s e).acts, a.mutating = false := by
  have h' := h
  obtain ⟨hm, hb, hp, ht⟩ := h
  rcases hm with hm | hm
  · cases e with
    | db m p =>
      simp only [step, stepDB, hm]
      exact RoInv_stepRO c s m p _ h'
    | tx m p =>
      simp only [step, stepTx, hm, ht, reduceCtorEq, if_false]
      exact ⟨h', by simp⟩
    | snap hh m p =>
      simp only [step]
      exact ⟨RoInv_charge c _ _ h', by simp⟩
    | iter hh m p =>
      simp only [step, hp, Nat.lt_irrefl, decide_false, Bool.and_false, Bool.false_and, Bool.false_eq_true, if_false]
      exact ⟨RoInv_charge c _ _ h', by simp⟩
    | bgFlush p =>
      simp only [step, hb, Bool.false_and, Bool.false_eq_true, if_false]
      exact ⟨h', by simp⟩
    | bgCompact p =>
      simp only [step, hb, Bool.false_and, Bool.false_eq_true, if_false]
      exact ⟨h', by simp⟩
  · have hc := step_closed c s e hm
    rw [hc.1, hc.2]
    exact ⟨h', by simp⟩

/-- switched to read-only (or closed since) and drained, no live transaction -/
def SwInv (s : St) : Prop :=
  (s.mode = .switchedRO ∨ s.mode = .closed) ∧ s.drained = true ∧ s.tx ≠ .live

theorem drained_iff (s : St) : s.drained = true ↔ s.frozen = false ∧ s.due = 0 ∧ s.pins = 0 := by
  simp [St.drained, and_assoc]

theorem drained_charge (c : Cfg) (s : St) (b : Bool) (hb : c.seeks = false ∨ b = false) :
    chargeSeek c s b = s := by
  rcases hb with hb | hb
  · exact chargeSeek_noseeks c s b hb
  · subst hb; exact chargeSeek_false c s

theorem SwInv_stepRO (c : Cfg) (s : St) (m : DBm) (p : Nat) (cls : Cls) (h : SwInv s)
    (hq : c.seeks = false ∨ (m.isRead && decide (p > 0)) = false) :
    SwInv (stepRO c s m p cls).st ∧ ∀ a ∈ (stepRO c s m p cls).acts, a.mutating = false := by
  have h' := h
  obtain ⟨hm, hd, ht⟩ := h
  obtain ⟨hf, hdue, hp⟩ := (drained_iff s).mp hd
  unfold stepRO
  split
  · refine ⟨⟨Or.inr rfl, ?_, afterClose_ne_live _⟩, ?_⟩
    · simp [closeRes, St.drained, hf, hdue, hp]
    · simp [closeRes, txLive_beq_false _ ht, hf, hdue, Act.mutating]
  · split
    · exact ⟨h', by simp [Act.mutating]⟩
    · rw [drained_charge c s _ hq]
      exact ⟨h', by simp⟩

/-- one step from a drained read-only state, when the event starts no seek compaction -/
theorem SwInv_step (c : Cfg) (s : St) (e : Ev) (h : SwInv s) (hq : c.seeks = false ∨ e.seekHit = false) :
    SwInv (step c s e).st ∧ ∀ a ∈ (step c s e).acts, a.mutating = false := by
  have h' := h
  obtain ⟨hm, hd, ht⟩ := h
  obtain ⟨hf, hdue, hp⟩ := (drained_iff s).mp hd
  rcases hm with hm | hm
  · cases e with
    | db m p =>
      simp only [step, stepDB, hm]
      exact SwInv_stepRO c s m p _ h' (by simpa [Ev.seekHit] using hq)
    | tx m p =>
      simp only [step, stepTx, hm, ht, reduceCtorEq, if_false]
      exact ⟨h', by simp⟩
    | snap hh m p =>
      simp only [step]
      have hq' : c.seeks = false ∨ (hh == SnapSt.live && m.isRead && decide (p > 0)) = false := by
        cases hh <;> simp_all [Ev.seekHit]
      rw [drained_charge c s _ hq']
      exact ⟨h', by simp⟩
    | iter hh m p =>
      have hq' : c.seeks = false ∨ (hh == IterSt.live && m.isMove && decide (p > 0)) = false := by
        cases hh <;> simp_all [Ev.seekHit]
      simp only [step, hp, Nat.lt_irrefl, decide_false, Bool.and_false, Bool.false_and, Bool.false_eq_true, if_false]
      rw [drained_charge c s _ hq']
      exact ⟨h', by simp⟩
    | bgFlush p =>
      simp only [step, hf, Bool.and_false, Bool.false_and, Bool.false_eq_true, if_false]
      exact ⟨h', by simp⟩
    | bgCompact p =>
      simp only [step, hdue, Nat.lt_irrefl, decide_false, Bool.and_false, Bool.false_and, Bool.false_eq_true, if_false]
      exact ⟨h', by simp⟩
  · have hc := step_closed c s e hm
    rw [hc.1, hc.2]
    exact ⟨h', by simp⟩

/-- `n` due compactions, none of which makes another one due or is deferred -/
theorem run_compacts (c : Cfg) (n pins : Nat) (tx : TxSt) :
    (run c ⟨.switchedRO, true, false, n, pins, tx⟩ (List.replicate n (.bgCompact 0))).1
      = ⟨.switchedRO, true, false, 0, pins, tx⟩ := by
  induction n with
  | zero => simp [run]
  | succ n ih =>
    have hs : (step c ⟨.switchedRO, true, false, n + 1, pins, tx⟩ (.bgCompact 0)).st
        = ⟨.switchedRO, true, false, n, pins, tx⟩ := by
      simp [step, deferred, moreDue]
    rw [List.replicate_succ, run_cons, hs]
    exact ih

/-- the iterators that pin replaced tables are released -/
theorem run_unpins (c : Cfg) (n : Nat) (tx : TxSt) :
    (run c ⟨.switchedRO, true, false, 0, n, tx⟩ (List.replicate n (.iter .live .release 1))).1
      = ⟨.switchedRO, true, false, 0, 0, tx⟩ := by
  induction n with
  | zero => simp [run]
  | succ n ih =>
    have hs : (step c ⟨.switchedRO, true, false, 0, n + 1, tx⟩ (.iter .live .release 1)).st
        = ⟨.switchedRO, true, false, 0, n, tx⟩ := by
      simp [step]
    rw [List.replicate_succ, run_cons, hs]
    exact ih

theorem run_flush (c : Cfg) (frozen : Bool) (due pins : Nat) (tx : TxSt) :
    (run c ⟨.switchedRO, true, frozen, due, pins, tx⟩ [.bgFlush 0]).1 = ⟨.switchedRO, true, false, due, pins, tx⟩ := by
  cases frozen <;> simp [run, step, moreDue]

theorem stepRW_cls (c : Cfg) (s : St) (m : DBm) (p : Nat) (cls : Cls) : (stepRW c s m p cls).cls = cls := by
  unfold stepRW closeRes
  repeat' split
  all_goals rfl

theorem stepRO_cls (c : Cfg) (s : St) (m : DBm) (p : Nat) (cls : Cls) : (stepRO c s m p cls).cls = cls := by
  unfold stepRO closeRes
  repeat' split
  all_goals rfl


end GoLevel.Life
