import GoLevel.Model.Lifecycle
/-! Helper lemmas for C18: invariants of the ownership machine and of the DB machine. -/
namespace GoLevel.Life

/-! ## ownership -/

/-- the lock holders are exactly the open DBs, and there is at most one -/
def Sys.Inv (s : Sys) : Prop :=
  s.kind = .exclusive ∧ s.owners = s.opened ∧ s.opened.length ≤ 1

theorem Sys.init_inv : (Sys.init .exclusive).Inv := ⟨rfl, rfl, by simp [Sys.init]⟩

theorem Sys.step_inv (s : Sys) (e : SysEv) (h : s.Inv) : (s.step e).1.Inv := by
  obtain ⟨hk, ho, hl⟩ := h
  cases e with
  | «open» id ro j =>
    simp only [Sys.step]
    by_cases hc : s.canLock = true
    · simp only [hc, Bool.not_true, Bool.false_eq_true, if_false]
      by_cases hcl : (openCls ro j != Cls.ok) = true
      · simp only [hcl, if_true]; exact ⟨hk, ho, hl⟩
      · simp only [hcl, Bool.false_eq_true, if_false]
        have he : s.owners = [] := by
          simp only [Sys.canLock, hk] at hc
          exact List.isEmpty_iff.mp hc
        refine ⟨hk, ?_, ?_⟩
        · simp [ho]
        · have : s.opened = [] := by rw [← ho]; exact he
          simp [this]
    · simp only [hc, Bool.not_false, if_true]; exact ⟨hk, ho, hl⟩
  | close id =>
    simp only [Sys.step]
    by_cases hc : s.opened.contains id = true
    · simp only [hc, if_true]
      refine ⟨hk, by simp [ho], ?_⟩
      exact Nat.le_trans (List.length_erase_le) hl
    · simp only [hc, Bool.false_eq_true, if_false]; exact ⟨hk, ho, hl⟩

theorem Sys.run_fst_inv (s : Sys) (es : List SysEv) (h : s.Inv) : (Sys.run s es).1.Inv := by
  induction es generalizing s with
  | nil => exact h
  | cons e es ih =>
    simp only [Sys.run]
    exact ih _ (Sys.step_inv s e h)

/-! ## the DB machine -/

theorem run_append (c : Cfg) (s : St) (es fs : List Ev) :
    run c s (es ++ fs) = ((run c (run c s es).1 fs).1, (run c s es).2 ++ (run c (run c s es).1 fs).2) := by
  induction es generalizing s with
  | nil => simp [run]
  | cons e es ih => simp [run, ih, List.append_assoc]

theorem run_cons (c : Cfg) (s : St) (e : Ev) (es : List Ev) :
    run c s (e :: es) = ((run c (step c s e).st es).1, (step c s e).acts ++ (run c (step c s e).st es).2) := by
  simp only [run]

theorem run_fst_append (c : Cfg) (s : St) (es fs : List Ev) :
    (run c s (es ++ fs)).1 = (run c (run c s es).1 fs).1 := by
  rw [run_append]

/-- lifting a step invariant that also bounds the emitted actions to runs -/
theorem run_inv (c : Cfg) (I : St → Prop) (Q : Ev → Prop) (P : Act → Prop)
    (hstep : ∀ s e, I s → Q e → I (step c s e).st ∧ ∀ a ∈ (step c s e).acts, P a)
    (s : St) (es : List Ev) (hs : I s) (hq : ∀ e ∈ es, Q e) :
    I (run c s es).1 ∧ ∀ a ∈ (run c s es).2, P a := by
  induction es generalizing s with
  | nil => exact ⟨hs, by simp [run]⟩
  | cons e es ih =>
    have h1 := hstep s e hs (hq e (by simp))
    have h2 := ih (step c s e).st h1.1 (fun x hx => hq x (by simp [hx]))
    simp only [run]
    refine ⟨h2.1, ?_⟩
    intro a ha
    rcases List.mem_append.mp ha with ha | ha
    · exact h1.2 a ha
    · exact h2.2 a ha

/-- read-only invariant: opened read-only (or closed since), no background goroutines, nothing pinned,
no live transaction -/
def RoInv (s : St) : Prop :=
  (s.mode = .openRO ∨ s.mode = .closed) ∧ s.bg = false ∧ s.pins = 0 ∧ s.tx ≠ .live

theorem chargeSeek_mode (c : Cfg) (s : St) (b : Bool) : (chargeSeek c s b).mode = s.mode := by
  unfold chargeSeek; split <;> rfl
theorem chargeSeek_bg (c : Cfg) (s : St) (b : Bool) : (chargeSeek c s b).bg = s.bg := by
  unfold chargeSeek; split <;> rfl
theorem chargeSeek_pins (c : Cfg) (s : St) (b : Bool) : (chargeSeek c s b).pins = s.pins := by
  unfold chargeSeek; split <;> rfl
theorem chargeSeek_tx (c : Cfg) (s : St) (b : Bool) : (chargeSeek c s b).tx = s.tx := by
  unfold chargeSeek; split <;> rfl
theorem chargeSeek_frozen (c : Cfg) (s : St) (b : Bool) : (chargeSeek c s b).frozen = s.frozen := by
  unfold chargeSeek; split <;> rfl
theorem chargeSeek_running (c : Cfg) (s : St) (b : Bool) : (chargeSeek c s b).running = s.running := by
  unfold chargeSeek; split <;> rfl
theorem chargeSeek_false (c : Cfg) (s : St) : chargeSeek c s false = s := by
  simp [chargeSeek]
theorem chargeSeek_noseeks (c : Cfg) (s : St) (b : Bool) (h : c.seeks = false) : chargeSeek c s b = s := by
  simp [chargeSeek, h]

theorem RoInv_charge (c : Cfg) (s : St) (b : Bool) (h : RoInv s) : RoInv (chargeSeek c s b) := by
  unfold RoInv
  rw [chargeSeek_mode, chargeSeek_bg, chargeSeek_pins, chargeSeek_tx]
  exact h

theorem txLive_beq_false (t : TxSt) (h : t ≠ .live) : (t == .live) = false := by
  cases t <;> simp_all

theorem afterClose_ne_live (t : TxSt) : t.afterClose ≠ .live := by
  cases t <;> simp [TxSt.afterClose]

/-- in `closed` nothing happens -/
theorem step_closed (c : Cfg) (s : St) (e : Ev) (hm : s.mode = .closed) :
    (step c s e).st = s ∧ (step c s e).acts = [] := by
  obtain ⟨mode, bg, frozen, due, pins, tx, running⟩ := s
  simp only at hm; subst hm
  cases e <;> simp [step, stepDB, stepTx, chargeSeek, compactionRuns]

theorem RoInv_stepRO (c : Cfg) (s : St) (m : DBm) (p : Nat) (cls : Cls) (h : RoInv s) :
    RoInv (stepRO c s m p cls).st ∧ ∀ a ∈ (stepRO c s m p cls).acts, a.mutating = false := by
  obtain ⟨hm, hb, hp, ht⟩ := h
  unfold stepRO
  split
  · refine ⟨⟨Or.inr rfl, rfl, hp, afterClose_ne_live _⟩, ?_⟩
    simp [closeRes, txLive_beq_false _ ht, hb, Act.mutating]
  · split
    · exact ⟨⟨hm, hb, hp, ht⟩, by simp [Act.mutating]⟩
    · exact ⟨RoInv_charge c s _ ⟨hm, hb, hp, ht⟩, by simp⟩

/-- one step from a state opened read-only -/
theorem RoInv_step (c : Cfg) (s : St) (e : Ev) (h : RoInv s) :
    RoInv (step c s e).st ∧ ∀ a ∈ (step c s e).acts, a.mutating = false := by
  have h' := h
  obtain ⟨hm, hb, hp, ht⟩ := h
  rcases hm with hm | hm
  · cases e with
    | db m p =>
      simp only [step, stepDB, hm]
      exact RoInv_stepRO c s m p _ h'
    | tx m p =>
      simp only [step, stepTx, hm, ht, reduceCtorEq, if_false]
      exact ⟨h', by simp⟩
    | snap hh m p =>
      simp only [step]
      exact ⟨RoInv_charge c _ _ h', by simp⟩
    | iter hh m p =>
      simp only [step, hp, Nat.lt_irrefl, decide_false, Bool.and_false, Bool.false_and, Bool.false_eq_true, if_false]
      exact ⟨RoInv_charge c _ _ h', by simp⟩
    | bgFlush p =>
      simp only [step, hb, Bool.false_and, Bool.false_eq_true, if_false]
      exact ⟨h', by simp⟩
    | bgCompact p =>
      simp only [step, compactionRuns, hb, Bool.false_and, Bool.false_eq_true, if_false]
      exact ⟨h', by simp⟩
  · have hc := step_closed c s e hm
    rw [hc.1, hc.2]
    exact ⟨h', by simp⟩

/-- switched to read-only (or closed since) and drained, no live transaction -/
def SwInv (s : St) : Prop :=
  (s.mode = .switchedRO ∨ s.mode = .closed) ∧ s.drained = true ∧ s.tx ≠ .live

theorem drained_iff (s : St) : s.drained = true ↔ s.frozen = false ∧ s.due = 0 ∧ s.pins = 0 ∧ s.running = false := by
  simp [St.drained, and_assoc]

theorem pending_drained (c : Cfg) (s : St) (hdue : s.due = 0) (hr : s.running = false) :
    compactionPending c s = false := by
  unfold compactionPending; split <;> simp [hdue, hr]

theorem drained_charge (c : Cfg) (s : St) (b : Bool) (hb : c.seeks = false ∨ b = false) :
    chargeSeek c s b = s := by
  rcases hb with hb | hb
  · exact chargeSeek_noseeks c s b hb
  · subst hb; exact chargeSeek_false c s

theorem SwInv_stepRO (c : Cfg) (s : St) (m : DBm) (p : Nat) (cls : Cls) (h : SwInv s)
    (hq : c.seeks = false ∨ (m.isRead && decide (p > 0)) = false) :
    SwInv (stepRO c s m p cls).st ∧ ∀ a ∈ (stepRO c s m p cls).acts, a.mutating = false := by
  have h' := h
  obtain ⟨hm, hd, ht⟩ := h
  obtain ⟨hf, hdue, hp, hr⟩ := (drained_iff s).mp hd
  unfold stepRO
  split
  · refine ⟨⟨Or.inr rfl, ?_, afterClose_ne_live _⟩, ?_⟩
    · simp [closeRes, St.drained, hf, hdue, hp]
    · simp [closeRes, txLive_beq_false _ ht, hf, pending_drained c s hdue hr, Act.mutating]
  · split
    · exact ⟨h', by simp [Act.mutating]⟩
    · rw [drained_charge c s _ hq]
      exact ⟨h', by simp⟩

/-- one step from a drained read-only state, when the event starts no seek compaction -/
theorem SwInv_step (c : Cfg) (s : St) (e : Ev) (h : SwInv s) (hq : c.seeks = false ∨ e.seekHit = false) :
    SwInv (step c s e).st ∧ ∀ a ∈ (step c s e).acts, a.mutating = false := by
  have h' := h
  obtain ⟨hm, hd, ht⟩ := h
  obtain ⟨hf, hdue, hp, hr⟩ := (drained_iff s).mp hd
  rcases hm with hm | hm
  · cases e with
    | db m p =>
      simp only [step, stepDB, hm]
      exact SwInv_stepRO c s m p _ h' (by simpa [Ev.seekHit] using hq)
    | tx m p =>
      simp only [step, stepTx, hm, ht, reduceCtorEq, if_false]
      exact ⟨h', by simp⟩
    | snap hh m p =>
      simp only [step]
      have hq' : c.seeks = false ∨ (hh == SnapSt.live && m.isRead && decide (p > 0)) = false := by
        cases hh <;> simp_all [Ev.seekHit]
      rw [drained_charge c s _ hq']
      exact ⟨h', by simp⟩
    | iter hh m p =>
      have hq' : c.seeks = false ∨ (hh == IterSt.live && m.isMove && decide (p > 0)) = false := by
        cases hh <;> simp_all [Ev.seekHit]
      simp only [step, hp, Nat.lt_irrefl, decide_false, Bool.and_false, Bool.false_and, Bool.false_eq_true, if_false]
      rw [drained_charge c s _ hq']
      exact ⟨h', by simp⟩
    | bgFlush p =>
      simp only [step, hf, Bool.and_false, Bool.false_and, Bool.false_eq_true, if_false]
      exact ⟨h', by simp⟩
    | bgCompact p =>
      simp only [step, compactionRuns, pending_drained c s hdue hr, Bool.and_false, Bool.false_eq_true, if_false]
      exact ⟨h', by simp⟩
  · have hc := step_closed c s e hm
    rw [hc.1, hc.2]
    exact ⟨h', by simp⟩

/-- `n` due compactions, none of which makes another one due or is deferred (a loop that does not park) -/
theorem run_compacts (c : Cfg) (hc : c.parks = false) (n pins : Nat) (tx : TxSt) (running : Bool)
    (hr : running = true → n > 0) :
    (run c ⟨.switchedRO, true, false, n, pins, tx, running⟩ (List.replicate n (.bgCompact 0))).1
      = ⟨.switchedRO, true, false, 0, pins, tx, false⟩ := by
  induction n generalizing running with
  | zero =>
    cases running
    · simp [run]
    · exact absurd (hr rfl) (by decide)
  | succ n ih =>
    have hs : (step c ⟨.switchedRO, true, false, n + 1, pins, tx, running⟩ (.bgCompact 0)).st
        = ⟨.switchedRO, true, false, n, pins, tx, false⟩ := by
      simp [step, compactionRuns, compactionPending, hc, deferred, moreDue]
    rw [List.replicate_succ, run_cons, hs]
    exact ih false (by simp)

/-- the iterators that pin replaced tables are released -/
theorem run_unpins (c : Cfg) (n due : Nat) (tx : TxSt) :
    (run c ⟨.switchedRO, true, false, due, n, tx, false⟩ (List.replicate n (.iter .live .release 1))).1
      = ⟨.switchedRO, true, false, due, 0, tx, false⟩ := by
  induction n with
  | zero => simp [run]
  | succ n ih =>
    have hs : (step c ⟨.switchedRO, true, false, due, n + 1, tx, false⟩ (.iter .live .release 1)).st
        = ⟨.switchedRO, true, false, due, n, tx, false⟩ := by
      simp [step]
    rw [List.replicate_succ, run_cons, hs]
    exact ih

theorem run_flush (c : Cfg) (frozen : Bool) (due pins : Nat) (tx : TxSt) (running : Bool) :
    (run c ⟨.switchedRO, true, frozen, due, pins, tx, running⟩ [.bgFlush 0]).1
      = ⟨.switchedRO, true, false, due, pins, tx, running⟩ := by
  cases frozen <;> simp [run, step, moreDue]

/-- a parked loop: the compaction that was running when the flag went up completes, nothing else starts -/
theorem run_finish_running (c : Cfg) (hc : c.parks = true) (due pins : Nat) (tx : TxSt) (running : Bool) :
    (run c ⟨.switchedRO, true, false, due, pins, tx, running⟩ [.bgCompact 0]).1
      = ⟨.switchedRO, true, false, if running then due - 1 else due, pins, tx, false⟩ := by
  cases running <;> simp [run, step, compactionRuns, compactionPending, hc, deferred, moreDue]

/-! ### the parked loop: settled stays settled, whatever is called -/

/-- switched to read-only (or closed since), what was in flight has completed, no live transaction -/
def PkInv (s : St) : Prop :=
  (s.mode = .switchedRO ∨ s.mode = .closed) ∧ s.settled = true ∧ s.tx ≠ .live

theorem settled_iff (s : St) : s.settled = true ↔ s.frozen = false ∧ s.running = false ∧ s.pins = 0 := by
  simp [St.settled, and_assoc]

theorem PkInv_charge (c : Cfg) (s : St) (b : Bool) (h : PkInv s) : PkInv (chargeSeek c s b) := by
  obtain ⟨hm, hd, ht⟩ := h
  obtain ⟨hf, hr, hp⟩ := (settled_iff s).mp hd
  refine ⟨by rw [chargeSeek_mode]; exact hm, ?_, by rw [chargeSeek_tx]; exact ht⟩
  rw [settled_iff, chargeSeek_frozen, chargeSeek_running, chargeSeek_pins]
  exact ⟨hf, hr, hp⟩

theorem pending_parked (c : Cfg) (hc : c.parks = true) (s : St) (hm : s.mode = .switchedRO)
    (hr : s.running = false) : compactionPending c s = false := by
  simp [compactionPending, hc, hm, hr]

/-- one step from a settled read-only state under a parking loop: ANY event -/
theorem PkInv_step (c : Cfg) (hc : c.parks = true) (s : St) (e : Ev) (h : PkInv s) :
    PkInv (step c s e).st ∧ ∀ a ∈ (step c s e).acts, a.mutating = false := by
  have h' := h
  obtain ⟨hm, hd, ht⟩ := h
  obtain ⟨hf, hr, hp⟩ := (settled_iff s).mp hd
  rcases hm with hm | hm
  · cases e with
    | db m p =>
      simp only [step, stepDB, hm]
      unfold stepRO
      split
      · refine ⟨⟨Or.inr rfl, ?_, afterClose_ne_live _⟩, ?_⟩
        · simp [closeRes, St.settled, hf, hp]
        · simp [closeRes, txLive_beq_false _ ht, hf, pending_parked c hc s hm hr, Act.mutating]
      · split
        · exact ⟨h', by simp [Act.mutating]⟩
        · exact ⟨PkInv_charge c s _ h', by simp⟩
    | tx m p =>
      simp only [step, stepTx, hm, ht, reduceCtorEq, if_false]
      exact ⟨h', by simp⟩
    | snap hh m p =>
      simp only [step]
      exact ⟨PkInv_charge c s _ h', by simp⟩
    | iter hh m p =>
      simp only [step, hp, Nat.lt_irrefl, decide_false, Bool.and_false, Bool.false_and, Bool.false_eq_true, if_false]
      exact ⟨PkInv_charge c s _ h', by simp⟩
    | bgFlush p =>
      simp only [step, hf, Bool.and_false, Bool.false_and, Bool.false_eq_true, if_false]
      exact ⟨h', by simp⟩
    | bgCompact p =>
      simp only [step, compactionRuns, pending_parked c hc s hm hr, Bool.and_false, Bool.false_eq_true, if_false]
      exact ⟨h', by simp⟩
  · have hcl := step_closed c s e hm
    rw [hcl.1, hcl.2]
    exact ⟨h', by simp⟩

theorem stepRW_cls (c : Cfg) (s : St) (m : DBm) (p : Nat) (cls : Cls) : (stepRW c s m p cls).cls = cls := by
  unfold stepRW closeRes
  repeat' split
  all_goals rfl

theorem stepRO_cls (c : Cfg) (s : St) (m : DBm) (p : Nat) (cls : Cls) : (stepRO c s m p cls).cls = cls := by
  unfold stepRO closeRes
  repeat' split
  all_goals rfl


end GoLevel.Life
