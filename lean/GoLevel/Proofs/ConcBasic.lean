import GoLevel.Proofs.ConcInv
/-!
# Basic invariants of the concurrent system (I1, I2)
-/
namespace GoLevel.Conc

/-! ## small facts -/

theorem getBuf_cons (σ : State) (m : Nat) (x : List Entry) (bufs : List (Nat × List Entry)) (id : Nat)
    (hb : σ.bufs = (m, x) :: bufs) :
    getBuf σ id = if id = m then x else (bufs.lookup id).getD [] := by
  simp only [getBuf, hb, List.lookup_cons]
  by_cases h : id = m
  · simp [h]
  · have : (id == m) = false := by simp [h]
    simp [h, this]

theorem consec_spec : ∀ (b : Nat) (es : List Entry), consec b es = true →
    (∀ e ∈ es, b < e.seq ∧ e.seq ≤ b + es.length) ∧ Uniq es := by
  intro b es
  induction es generalizing b with
  | nil => intro _; exact ⟨by simp, by intro a ha; cases ha⟩
  | cons x xs ih =>
    intro h
    simp only [consec, Bool.and_eq_true, beq_iff_eq] at h
    obtain ⟨h1, h2⟩ := ih (b + 1) h.2
    constructor
    · intro e he
      rcases List.mem_cons.1 he with rfl | he
      · simp only [List.length_cons]; omega
      · have := h1 e he; simp only [List.length_cons]; omega
    · intro a ha b' hb' hab
      rcases List.mem_cons.1 ha with ea | ha <;> rcases List.mem_cons.1 hb' with eb | hb'
      · rw [ea, eb]
      · have := (h1 _ hb').1; rw [ea] at hab; omega
      · have := (h1 _ ha).1; rw [eb] at hab; omega
      · exact h2 a ha b' hb' hab

theorem uniq_append {U E : List Entry} (hU : Uniq U) (hE : Uniq E)
    (h : ∀ u ∈ U, ∀ e ∈ E, u.seq < e.seq) : Uniq (U ++ E) := by
  intro a ha b hb hab
  rcases List.mem_append.1 ha with ha | ha <;> rcases List.mem_append.1 hb with hb | hb
  · exact hU a ha b hb hab
  · have := h a ha b hb; omega
  · have := h b hb a ha; omega
  · exact hE a ha b hb hab

theorem foldl_min_le (l : List Nat) : ∀ (a : Nat), l.foldl min a ≤ a ∧ ∀ x ∈ l, l.foldl min a ≤ x := by
  induction l with
  | nil => intro a; simp
  | cons y ys ih =>
    intro a
    simp only [List.foldl_cons]
    obtain ⟨h1, h2⟩ := ih (min a y)
    refine ⟨Nat.le_trans h1 (Nat.min_le_left _ _), ?_⟩
    intro x hx
    rcases List.mem_cons.1 hx with rfl | hx
    · exact Nat.le_trans h1 (Nat.min_le_right _ _)
    · exact h2 x hx

theorem le_foldl_min (l : List Nat) : ∀ (a b : Nat), b ≤ a → (∀ x ∈ l, b ≤ x) → b ≤ l.foldl min a := by
  induction l with
  | nil => intro a b h _; simpa using h
  | cons y ys ih =>
    intro a b h h'
    simp only [List.foldl_cons]
    apply ih
    · exact Nat.le_min.2 ⟨h, h' y List.mem_cons_self⟩
    · intro x hx; exact h' x (List.mem_cons_of_mem _ hx)

theorem minSeq_le_pub (σ : State) : minSeq σ ≤ σ.pub := (foldl_min_le _ _).1

theorem minSeq_le_snap (σ : State) (p : Owner × Nat) (hp : p ∈ σ.snaps) : minSeq σ ≤ p.2 :=
  (foldl_min_le _ _).2 _ (List.mem_map.2 ⟨p, hp, rfl⟩)

theorem le_minSeq (σ : State) (b : Nat) (h1 : b ≤ σ.pub) (h2 : ∀ p ∈ σ.snaps, b ≤ p.2) : b ≤ minSeq σ := by
  apply le_foldl_min _ _ _ h1
  intro x hx
  obtain ⟨p, hp, rfl⟩ := List.mem_map.1 hx
  exact h2 p hp

/-- the installed part of a transaction's entries -/
def privIn : Option TrState → List Entry
  | some t => if t.installed then t.priv else []
  | none => []

/-! ## the invariant -/

structure Basic (σ : State) : Prop where
  uniq : Uniq (univ σ)
  bound : ∀ e ∈ univ σ, e.seq ≤ σ.pub + σ.pending.length + (privOf σ.tr).length
  bufSub : ∀ id, ∀ e ∈ getBuf σ id, e ∈ σ.hist
  tabSub : ∀ e ∈ σ.tabs, e ∈ σ.hist ∨ e ∈ privIn σ.tr
  fresh : ∀ id, σ.nextId ≤ id → getBuf σ id = []
  memLt : σ.mem < σ.nextId
  trExcl : ∀ t, σ.tr = some t → σ.pending = [] ∧ memBuf σ = [] ∧ σ.frozen = none ∧ t.base = σ.pub
  pendSeq : ∀ e ∈ σ.pending, σ.pub < e.seq ∧ e ∈ σ.hist
  privSeq : ∀ e ∈ privOf σ.tr, σ.pub < e.seq
  histPub : ∀ e ∈ σ.hist, σ.pub < e.seq → e ∈ σ.pending
  snapsLe : ∀ p ∈ σ.snaps, p.2 ≤ σ.pub
  floorSnap : ∀ p ∈ σ.snaps, σ.floor ≤ p.2
  floorPub : σ.floor ≤ σ.pub
  compLe : ∀ m, σ.comp = some m → m ≤ σ.floor
  flushedFrozen : σ.flushed = true → σ.frozen ≠ none
  frozenLt : ∀ f, σ.frozen = some f → f < σ.mem

theorem basic_init : Basic init := by
  constructor <;> simp [init, univ, privOf, Uniq, getBuf, privIn]

theorem Basic.frozenNe {σ : State} (hb : Basic σ) : σ.frozen ≠ some σ.mem := by
  intro h; have := hb.frozenLt _ h; omega

theorem privIn_sub (tr : Option TrState) : ∀ e ∈ privIn tr, e ∈ privOf tr := by
  intro e he
  cases tr with
  | none => simp [privIn] at he
  | some t =>
    simp only [privIn] at he
    split at he
    · exact he
    · cases he

theorem Basic.tab_univ {σ : State} (hb : Basic σ) : ∀ e ∈ σ.tabs, e ∈ univ σ := by
  intro e he
  rcases hb.tabSub e he with h | h
  · exact List.mem_append_left _ h
  · exact List.mem_append_right _ (privIn_sub _ e h)

theorem Basic.buf_univ {σ : State} (hb : Basic σ) (id : Nat) : ∀ e ∈ getBuf σ id, e ∈ univ σ :=
  fun e he => List.mem_append_left _ (hb.bufSub id e he)

theorem Basic.optBuf_hist {σ : State} (hb : Basic σ) (f : Option Nat) : ∀ e ∈ optBuf σ f, e ∈ σ.hist := by
  intro e he
  cases f with
  | none => cases he
  | some f => exact hb.bufSub f e he

/-- every entry of the history at or below `pub` … and those above are the pending ones -/
theorem Basic.hist_le {σ : State} (hb : Basic σ) (hp : σ.pending = []) : ∀ e ∈ σ.hist, e.seq ≤ σ.pub := by
  intro e he
  refine Nat.le_of_not_lt (fun h => ?_)
  have := hb.histPub e he h
  rw [hp] at this; cases this

end GoLevel.Conc
