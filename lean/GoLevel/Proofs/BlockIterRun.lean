import GoLevel.Proofs.BlockIterSeek
/-!
# Every call of `blockIter` simulates the cursor; every call sequence answers like `Cursor.run`
-/
namespace GoLevel.C13
open GoLevel

variable {b : BlockR} {kvs : List KV} {off : Nat → Nat} {R : Nat} {rs : Nat → Nat}
variable {cmp : Bytes → Bytes → Ordering}

/-- the test `Seek(k)` applies to a pair: its key is not below `k` -/
def geK (cmp : Bytes → Bytes → Ordering) (k : Bytes) (e : KV) : Bool := cmp e.1 k != .lt

/-- `xs` is the slice `[lo, hi)` of `kvs` -/
structure IsSlice (kvs xs : List KV) (lo hi : Nat) : Prop where
  len : xs.length = hi - lo
  get : ∀ i, i < hi - lo → xs[i]? = some (kAt kvs (lo + i), vAt kvs (lo + i))

theorem Rel.cache {lo hi q0 q1 : Nat} {it : BIter} {p : Pos} (h : Rel kvs off rs lo hi q0 q1 it p) :
    (it.dir = .backward ∨ it.prevNode = []) ∧ (it.dir = .backward ∨ it.prevKeys = []) ∧
    it.dir ≠ .released := by
  obtain ⟨_, _, hpos⟩ := h
  cases p with
  | soi => exact ⟨Or.inr hpos.2.1, Or.inr hpos.2.2, by rw [hpos.1]; simp⟩
  | eoi => exact ⟨Or.inr hpos.2.1, Or.inr hpos.2.2, by rw [hpos.1]; simp⟩
  | «at» i =>
    rcases hpos.2 with f | f
    · exact ⟨Or.inr f.node, Or.inr f.keys, by rw [f.dir]; simp⟩
    · exact ⟨Or.inl f.dir, Or.inl f.dir, by rw [f.dir]; simp⟩

/-- the scan of `Seek` from restart slot `q` -/
theorem seek_from (L : Layout b kvs off R rs) (hc : LawfulCmp cmp) (hsorted : StrictSorted cmp kvs)
    {lo hi q0 q1 : Nat} (S : SliceCfg kvs R rs lo hi q0 q1) {xs : List KV} (X : IsSlice kvs xs lo hi)
    (key : Bytes) {it : BIter} {q : Nat} (hcfg : HasCfg off rs it lo hi q0 q1) (herr : it.err = none)
    (hdir : it.dir = .forward ∨ it.dir = .backward) (hoff : it.offset = off (rs q))
    (hri : it.restartIndex = q) (hq0 : q0 ≤ q) (hq1 : q < q1)
    (hle : q0 < q → cmp (kAt kvs (rs q)) key ≠ .gt)
    (hn : it.dir = .backward ∨ it.prevNode = []) (hk : it.dir = .backward ∨ it.prevKeys = []) :
    Rel kvs off rs lo hi q0 q1 (BIter.seekLoop cmp b key (b.restartsOffset + 1) it).2
        (Cursor.seek xs (geK cmp key)) ∧
      (BIter.seekLoop cmp b key (b.restartsOffset + 1) it).1 = posOk (Cursor.seek xs (geK cmp key)) ∧
      (BIter.seekLoop cmp b key (b.restartsOffset + 1) it).2.dir ≠ .backward := by
  have hqR : q < R := by have := S.q1R; omega
  have hkey : KeyOK kvs R rs (rs q) it.key := Or.inl ⟨q, hqR, rfl⟩
  have hjhi : rs q ≤ hi := by
    have := L.rs_le (p := q) (q := q1 - 1) (by omega) (by have := S.q1R; omega)
    have := S.q1hi; omega
  -- entries of the slice before the scan start are below the key
  have hpre : ∀ x, lo ≤ x → x < max (rs q) lo → cmp (kAt kvs x) key = .lt := by
    intro x h1 h2
    have hgt : q0 < q := by
      apply Classical.byContradiction
      intro hn'
      have : q = q0 := by omega
      subst this
      have := S.q0lo; omega
    have hlt : rs q < kvs.length := by
      have hne : kvs ≠ [] := by
        intro he; have := L.rE he; have := S.q1R; omega
      exact L.rlt q hqR hne
    exact below_of_le hc (kAt_lt hsorted (by omega) hlt) (hle hgt)
  have hc' := hcfg.dropCache
  have hfuel : hi < b.restartsOffset + 1 := L.fuel_ok S.hin
  unfold Cursor.seek
  cases hf : xs.findIdx? (geK cmp key) with
  | some i =>
    obtain ⟨hi', hgei, hbefore⟩ := List.findIdx?_eq_some_iff_getElem.1 hf
    rw [X.len] at hi'
    have hxi := X.get i hi'
    have hge : cmp (kAt kvs (lo + i)) key ≠ .lt := by
      have e : xs[i] = (kAt kvs (lo + i), vAt kvs (lo + i)) := by
        have := List.getElem?_eq_getElem (l := xs) (i := i) (by rw [X.len]; exact hi')
        rw [this] at hxi; exact Option.some.inj hxi
      rw [e] at hgei
      simpa [geK] using hgei
    have hnot : ∀ x, lo ≤ x → x < lo + i → cmp (kAt kvs x) key = .lt := by
      intro x h1 h2
      have hx : x - lo < i := by omega
      have hb := hbefore (x - lo) hx
      have hxx := X.get (x - lo) (by omega)
      have e : xs[x - lo]'(by rw [X.len]; omega) = (kAt kvs x, vAt kvs x) := by
        have := List.getElem?_eq_getElem (l := xs) (i := x - lo) (by rw [X.len]; omega)
        rw [this] at hxx
        have := Option.some.inj hxx
        rw [this]; congr 2 <;> omega
      rw [e] at hb
      simpa [geK] using hb
    have hcge : max (rs q) lo ≤ lo + i := by
      apply Classical.byContradiction
      intro hlt
      have := hpre (lo + i) (by omega) (by omega)
      exact hge this
    have hres := seekLoop_hit (cmp := cmp) L S key (lo + i - max (rs q) lo) it (rs q) (b.restartsOffset + 1) (lo + i)
      rfl hcfg herr hdir hoff hkey hjhi hcge (by omega) (fun x h1 h2 => hnot x (by omega) h2) hge (by omega)
    rw [hres]
    refine ⟨⟨⟨hc'.riStart, hc'.riLimit, hc'.offsetStart, hc'.real, hc'.limit⟩, by simpa using herr, ?_⟩, rfl,
      by show BDir.forward ≠ BDir.backward; simp⟩
    refine ⟨by omega, Or.inl ⟨rfl, rfl, rfl, rfl, rfl, ?_, ?_, ?_, dc_node it hn, dc_keys it hk⟩⟩
    · show q0 ≤ it.dropCache.restartIndex; simp [hri, hq0]
    · show it.dropCache.restartIndex < q1; simp [hri, hq1]
    · show rs it.dropCache.restartIndex ≤ lo + i; simp only [dc_restartIndex, hri]; omega
  | none =>
    have hall : ∀ x, lo ≤ x → x < hi → cmp (kAt kvs x) key = .lt := by
      intro x h1 h2
      have hxx := X.get (x - lo) (by omega)
      have hmem : (kAt kvs x, vAt kvs x) ∈ xs := by
        have e : lo + (x - lo) = x := by omega
        rw [e] at hxx
        exact List.mem_of_getElem? hxx
      have := (List.findIdx?_eq_none_iff.1 hf) _ hmem
      simpa [geK] using this
    obtain ⟨kb, val, po, hres⟩ := seekLoop_miss (cmp := cmp) L S key (hi - max (rs q) lo) it (rs q)
      (b.restartsOffset + 1) rfl hcfg herr hdir hoff hkey hjhi (fun x h1 h2 => hall x (by omega) h2) (by omega)
    rw [hres]
    exact ⟨⟨⟨hc'.riStart, hc'.riLimit, hc'.offsetStart, hc'.real, hc'.limit⟩, by simpa using herr, rfl,
      dc_node it hn, dc_keys it hk⟩, rfl, by show BDir.eoi ≠ BDir.backward; simp⟩

/-- `Seek` on any error-free iterator with a clean cache lands like `Cursor.seek` (whatever `restartIndex`,
`offset`, key buffer it had: `Seek` sets them) -/
theorem seek_ready (L : Layout b kvs off R rs) (hc : LawfulCmp cmp) (hsorted : StrictSorted cmp kvs)
    {lo hi q0 q1 : Nat} (S : SliceCfg kvs R rs lo hi q0 q1) {xs : List KV} (X : IsSlice kvs xs lo hi)
    (key : Bytes) {it : BIter} (hcfg : HasCfg off rs it lo hi q0 q1) (herr : it.err = none)
    (hdir : it.dir = .soi ∨ it.dir = .eoi ∨ it.dir = .forward ∨ it.dir = .backward)
    (hn : it.dir = .backward ∨ it.prevNode = []) (hk : it.dir = .backward ∨ it.prevKeys = []) :
    Rel kvs off rs lo hi q0 q1 (BIter.seek cmp b key it).2 (Cursor.seek xs (geK cmp key)) ∧
      (BIter.seek cmp b key it).1 = posOk (Cursor.seek xs (geK cmp key)) ∧
      (BIter.seek cmp b key it).2.dir ≠ .backward := by
  have hnr : it.dir ≠ .released := by
    rcases hdir with h | h | h | h <;> rw [h] <;> simp
  obtain ⟨q, hq, hq0, hq1, hle⟩ := seekR_spec (cmp := cmp) L S.q01 S.q1R key
  rw [← hcfg.riStart, ← hcfg.riLimit] at hq
  have hmax : max it.offsetStart (off (rs q)) = off (rs q) := by
    rw [hcfg.offsetStart]
    have := L.off_le (L.rs_le hq0 (by have := S.q1R; omega)) (L.rs_le_len (by have := S.q1R; omega))
    omega
  have hstep : BIter.seek cmp b key it = BIter.seekLoop cmp b key (b.restartsOffset + 1)
      (if it.dir = .soi ∨ it.dir = .eoi then
        { it with restartIndex := q, offset := max it.offsetStart (off (rs q)), dir := .forward }
       else { it with restartIndex := q, offset := max it.offsetStart (off (rs q)) }) := by
    unfold BIter.seek
    rw [if_neg (by rw [herr]; simp), if_neg hnr, hq]
  rw [hstep]
  by_cases hse : it.dir = .soi ∨ it.dir = .eoi
  · rw [if_pos hse]
    have hn' : it.prevNode = [] := by
      rcases hn with h | h
      · rcases hse with h' | h' <;> rw [h'] at h <;> cases h
      · exact h
    have hk' : it.prevKeys = [] := by
      rcases hk with h | h
      · rcases hse with h' | h' <;> rw [h'] at h <;> cases h
      · exact h
    exact seek_from L hc hsorted S X key
      ⟨hcfg.riStart, hcfg.riLimit, hcfg.offsetStart, hcfg.real, hcfg.limit⟩ herr (Or.inl rfl) hmax rfl hq0 hq1 hle
      (Or.inr hn') (Or.inr hk')
  · rw [if_neg hse]
    have hdir' : it.dir = .forward ∨ it.dir = .backward := by
      rcases hdir with h | h | h | h
      · exact absurd (Or.inl h) hse
      · exact absurd (Or.inr h) hse
      · exact Or.inl h
      · exact Or.inr h
    exact seek_from L hc hsorted S X key
      ⟨hcfg.riStart, hcfg.riLimit, hcfg.offsetStart, hcfg.real, hcfg.limit⟩ herr hdir' hmax rfl hq0 hq1 hle hn hk

theorem Rel.dirs {lo hi q0 q1 : Nat} {it : BIter} {p : Pos} (h : Rel kvs off rs lo hi q0 q1 it p) :
    it.dir = .soi ∨ it.dir = .eoi ∨ it.dir = .forward ∨ it.dir = .backward := by
  obtain ⟨_, _, hpos⟩ := h
  cases p with
  | soi => exact Or.inl hpos.1
  | eoi => exact Or.inr (Or.inl hpos.1)
  | «at» i =>
    rcases hpos.2 with f | f
    · exact Or.inr (Or.inr (Or.inl f.dir))
    · exact Or.inr (Or.inr (Or.inr f.dir))

/-- `Seek` simulates `Cursor.seek` -/
theorem rel_seek (L : Layout b kvs off R rs) (hc : LawfulCmp cmp) (hsorted : StrictSorted cmp kvs)
    {lo hi q0 q1 : Nat} (S : SliceCfg kvs R rs lo hi q0 q1) {xs : List KV} (X : IsSlice kvs xs lo hi)
    (key : Bytes) {it : BIter} {p : Pos} (h : Rel kvs off rs lo hi q0 q1 it p) :
    Rel kvs off rs lo hi q0 q1 (BIter.seek cmp b key it).2 (Cursor.seek xs (geK cmp key)) ∧
      (BIter.seek cmp b key it).1 = posOk (Cursor.seek xs (geK cmp key)) :=
  let ⟨h1, h2, _⟩ := seek_ready L hc hsorted S X key h.cfg h.err h.dirs h.cache.1 h.cache.2.1
  ⟨h1, h2⟩

/-- `First` simulates `Cursor.first` -/
theorem rel_first (L : Layout b kvs off R rs) {lo hi q0 q1 : Nat} (S : SliceCfg kvs R rs lo hi q0 q1)
    {α : Type} (xs : List α) (hlen : xs.length = hi - lo) {it : BIter} {p : Pos}
    (h : Rel kvs off rs lo hi q0 q1 it p) :
    Rel kvs off rs lo hi q0 q1 (BIter.first b it).2 (Cursor.first xs) ∧
      (BIter.first b it).1 = posOk (Cursor.first xs) := by
  obtain ⟨hn, hk, hnr⟩ := h.cache
  have hc' := h.cfg.dropCache
  have hstep : BIter.first b it = BIter.next b { it.dropCache with dir := .soi } := by
    unfold BIter.first
    rw [if_neg (by rw [h.err]; simp), if_neg hnr]
  rw [hstep]
  have := rel_next L S xs hlen (p := .soi) (it := { it.dropCache with dir := .soi })
    ⟨⟨hc'.riStart, hc'.riLimit, hc'.offsetStart, hc'.real, hc'.limit⟩, by simpa using h.err,
      rfl, dc_node it hn, dc_keys it hk⟩
  exact ⟨this.1, this.2.1⟩

/-- `Last` simulates `Cursor.last` -/
theorem rel_last (L : Layout b kvs off R rs) {lo hi q0 q1 : Nat} (S : SliceCfg kvs R rs lo hi q0 q1)
    {α : Type} (xs : List α) (hlen : xs.length = hi - lo) {it : BIter} {p : Pos}
    (h : Rel kvs off rs lo hi q0 q1 it p) :
    Rel kvs off rs lo hi q0 q1 (BIter.last b it).2 (Cursor.last xs) ∧
      (BIter.last b it).1 = posOk (Cursor.last xs) := by
  obtain ⟨hn, hk, hnr⟩ := h.cache
  have hc' := h.cfg.dropCache
  have hstep : BIter.last b it = BIter.prev b { it.dropCache with dir := .eoi } := by
    unfold BIter.last
    rw [if_neg (by rw [h.err]; simp), if_neg hnr]
  rw [hstep]
  exact rel_prev L S xs hlen (p := .eoi)
    ⟨⟨hc'.riStart, hc'.riLimit, hc'.offsetStart, hc'.real, hc'.limit⟩, by simpa using h.err,
      rfl, dc_node it hn, dc_keys it hk⟩

/-- what the caller sees at a related position -/
theorem rel_cur {lo hi q0 q1 : Nat} {xs : List KV} (X : IsSlice kvs xs lo hi) {it : BIter} {p : Pos}
    (h : Rel kvs off rs lo hi q0 q1 it p) : it.cur = Cursor.get xs p ∧ posOk p = (Cursor.get xs p).isSome := by
  obtain ⟨_, herr, hpos⟩ := h
  cases p with
  | soi => simp [BIter.cur, BIter.valid, hpos.1, Cursor.get, posOk]
  | eoi => simp [BIter.cur, BIter.valid, hpos.1, Cursor.get, posOk]
  | «at» i =>
    have hx := X.get i (by have := hpos.1; omega)
    rcases hpos.2 with f | f
    · simp [BIter.cur, BIter.valid, herr, f.dir, f.key, f.value, Cursor.get, hx, posOk]
    · simp [BIter.cur, BIter.valid, herr, f.dir, f.key, f.value, Cursor.get, hx, posOk]

/-- one call -/
theorem rel_step (L : Layout b kvs off R rs) (hc : LawfulCmp cmp) (hsorted : StrictSorted cmp kvs)
    {lo hi q0 q1 : Nat} (S : SliceCfg kvs R rs lo hi q0 q1) {xs : List KV} (X : IsSlice kvs xs lo hi)
    (cl : Call Bytes) {it : BIter} {p : Pos} (h : Rel kvs off rs lo hi q0 q1 it p) :
    Rel kvs off rs lo hi q0 q1 (BIter.step cmp b cl it).2 (Cursor.step xs (geK cmp) cl p) ∧
      (BIter.step cmp b cl it).1 = posOk (Cursor.step xs (geK cmp) cl p) := by
  cases cl with
  | first => exact rel_first L S xs X.len h
  | last => exact rel_last L S xs X.len h
  | seek k => exact rel_seek L hc hsorted S X k h
  | next => exact ⟨(rel_next L S xs X.len h).1, (rel_next L S xs X.len h).2.1⟩
  | prev => exact rel_prev L S xs X.len h

/-- every call sequence: the Booleans returned and the pairs shown are those of the cursor over the slice -/
theorem rel_run (L : Layout b kvs off R rs) (hc : LawfulCmp cmp) (hsorted : StrictSorted cmp kvs)
    {lo hi q0 q1 : Nat} (S : SliceCfg kvs R rs lo hi q0 q1) {xs : List KV} (X : IsSlice kvs xs lo hi)
    (cs : List (Call Bytes)) : ∀ {it : BIter} {p : Pos}, Rel kvs off rs lo hi q0 q1 it p →
    BIter.run cmp b it cs = (Cursor.run xs (geK cmp) p cs).map fun o => (o.isSome, o) := by
  induction cs with
  | nil => intro it p _; rfl
  | cons cl cs ih =>
    intro it p h
    obtain ⟨h1, h2⟩ := rel_step L hc hsorted S X cl h
    obtain ⟨h3, h4⟩ := rel_cur X h1
    simp only [BIter.run, Cursor.run, List.map_cons]
    rw [ih h1, h2, h3, h4]

/-- `isFirst` / `isLast` (what `indexIter.Get` consults to decide whether a data block gets the slice) say
whether the cursor is on the first / last pair of the slice -/
theorem rel_isFirst_isLast (L : Layout b kvs off R rs) {lo hi q0 q1 : Nat} (S : SliceCfg kvs R rs lo hi q0 q1)
    {it : BIter} {i : Nat} (h : Rel kvs off rs lo hi q0 q1 it (.at i)) :
    it.isFirst = decide (i = 0) ∧ it.isLast = decide (i + 1 = hi - lo) := by
  obtain ⟨hcfg, _, hlt, hfb⟩ := h
  have hin := S.hin
  have hlast : ∀ o, o = off (lo + i + 1) → ((o == it.offsetLimit) = decide (i + 1 = hi - lo)) := by
    intro o ho
    rw [ho, hcfg.limit, Bool.eq_iff_iff]
    simp only [beq_iff_eq, decide_eq_true_eq]
    constructor
    · intro e; have := L.off_inj (by omega) (by omega) e; omega
    · intro e; congr 1; omega
  rcases hfb with f | f
  · constructor
    · simp only [BIter.isFirst, f.dir]
      rw [f.prevOffset, hcfg.real, Bool.eq_iff_iff]
      simp only [beq_iff_eq, decide_eq_true_eq]
      constructor
      · intro e; have := L.off_inj (by omega) (by omega) e; omega
      · intro e; subst e; rfl
    · simp only [BIter.isLast, f.dir]
      exact hlast _ f.offset
  · have hrR : it.restartIndex < R := by have := f.rhi; have := S.q1R; omega
    constructor
    · simp only [BIter.isFirst, f.dir]
      rw [Bool.eq_iff_iff]
      simp only [Bool.and_eq_true, beq_iff_eq, decide_eq_true_eq]
      rw [f.node, hcfg.riStart]
      simp only [List.length_cons, cNodes_length]
      constructor
      · rintro ⟨h1, h2⟩
        rw [h2] at h1
        have := S.q0lo
        omega
      · intro e
        subst e
        have hr : it.restartIndex = q0 := by
          apply Classical.byContradiction
          intro hne
          have := S.q0max it.restartIndex (by have := f.rlo; omega) hrR
          have := f.rc
          omega
        refine ⟨?_, hr⟩
        rw [hr]; have := S.q0lo; omega
    · simp only [BIter.isLast, f.dir]
      exact hlast _ f.offset

/-- no call sequence sets `err` (in particular no loop runs out of fuel) -/
theorem rel_exec (L : Layout b kvs off R rs) (hc : LawfulCmp cmp) (hsorted : StrictSorted cmp kvs)
    {lo hi q0 q1 : Nat} (S : SliceCfg kvs R rs lo hi q0 q1) {xs : List KV} (X : IsSlice kvs xs lo hi)
    (cs : List (Call Bytes)) : ∀ {it : BIter} {p : Pos}, Rel kvs off rs lo hi q0 q1 it p →
    (BIter.exec cmp b it cs).err = none := by
  induction cs with
  | nil => intro it p h; exact h.err
  | cons cl cs ih =>
    intro it p h
    exact ih (rel_step L hc hsorted S X cl h).1

end GoLevel.C13
