import GoLevel.Model.Pick
/-!
# `compaction.shouldStopBefore`: grandparent-overlap accounting

Bookkeeping facts about `gpi`, `seenKey`, `gpOverlappedBytes`: the grandparent cursor only moves forward and
stays within `gp`; the answer is `true` exactly when the bytes accumulated exceed `maxGPOverlaps`, and then the
counter restarts at 0; before the first key nothing is accumulated, so the first call never asks for a cut.
(Where the builder *may* cut on a `true` answer — only at the first occurrence of a user key — is rule (L2) of
`CompactionOK`, checked on every real compaction by `Driver/LSM.lean`.)
Core Lean only.
-/
namespace GoLevel.Pick

theorem gpScan_bounds (c : UCmp) (ikey : IKey) (seen : Bool) (gs : List Table) (gpi ob : Nat) :
    gpi ≤ (gpScan c ikey seen gs gpi ob).1 ∧ (gpScan c ikey seen gs gpi ob).1 ≤ gpi + gs.length ∧
    ob ≤ (gpScan c ikey seen gs gpi ob).2 := by
  induction gs generalizing gpi ob with
  | nil => simp [gpScan]
  | cons g gs ih =>
    rw [gpScan]
    split
    · simp
    · cases seen with
      | false =>
        obtain ⟨h1, h2, h3⟩ := ih (gpi + 1) ob
        exact ⟨by simp only [Bool.false_eq_true, if_false]; omega,
          by simp only [Bool.false_eq_true, if_false, List.length_cons]; omega,
          by simp only [Bool.false_eq_true, if_false]; omega⟩
      | true =>
        obtain ⟨h1, h2, h3⟩ := ih (gpi + 1) (ob + g.size)
        exact ⟨by simp only [if_true]; omega, by simp only [if_true, List.length_cons]; omega,
          by simp only [if_true]; omega⟩

/-- nothing is accumulated before the first key has been seen -/
theorem gpScan_unseen (c : UCmp) (ikey : IKey) (gs : List Table) (gpi ob : Nat) :
    (gpScan c ikey false gs gpi ob).2 = ob := by
  induction gs generalizing gpi with
  | nil => rfl
  | cons g gs ih =>
    rw [gpScan]
    split
    · rfl
    · exact ih (gpi + 1)

/-- the grandparent cursor moves forward and stays within `gp`; `seenKey` is set -/
theorem shouldStopBefore_gpi (c : UCmp) (cm : Compaction) (ikey : IKey) (h : cm.gpi ≤ cm.gp.length) :
    cm.gpi ≤ (cm.shouldStopBefore c ikey).2.gpi ∧ (cm.shouldStopBefore c ikey).2.gpi ≤ cm.gp.length ∧
    (cm.shouldStopBefore c ikey).2.seenKey = true := by
  have := gpScan_bounds c ikey cm.seenKey (cm.gp.drop cm.gpi) cm.gpi cm.gpOverlappedBytes
  rw [List.length_drop] at this
  have h2 : (cm.gpAdvance c ikey).1 ≤ cm.gp.length := by unfold Compaction.gpAdvance; omega
  unfold Compaction.shouldStopBefore
  split
  · exact ⟨this.1, h2, rfl⟩
  · exact ⟨this.1, h2, rfl⟩

/-- a cut is requested exactly when the accumulated grandparent bytes exceed the limit; the counter then
restarts -/
theorem shouldStopBefore_true (c : UCmp) (cm : Compaction) (ikey : IKey) :
    ((cm.shouldStopBefore c ikey).1 = true ↔ (cm.gpAdvance c ikey).2 > cm.maxGPOverlaps) ∧
    ((cm.shouldStopBefore c ikey).1 = true → (cm.shouldStopBefore c ikey).2.gpOverlappedBytes = 0) ∧
    (cm.shouldStopBefore c ikey).2.gpOverlappedBytes ≤ cm.maxGPOverlaps := by
  unfold Compaction.shouldStopBefore
  split
  · rename_i h; exact ⟨⟨fun _ => h, fun _ => rfl⟩, fun _ => rfl, Nat.zero_le _⟩
  · rename_i h
    have hle : (cm.gpAdvance c ikey).2 ≤ cm.maxGPOverlaps := by omega
    exact ⟨⟨fun h' => (by cases h'), fun h' => absurd h' h⟩, fun h' => (by cases h'), hle⟩

/-- the first call on a fresh compaction (`seenKey = false`, no bytes) never requests a cut -/
theorem shouldStopBefore_first (c : UCmp) (cm : Compaction) (ikey : IKey) (hs : cm.seenKey = false)
    (hb : cm.gpOverlappedBytes = 0) : (cm.shouldStopBefore c ikey).1 = false := by
  have : (cm.gpAdvance c ikey).2 = 0 := by
    unfold Compaction.gpAdvance
    rw [hs, gpScan_unseen, hb]
  unfold Compaction.shouldStopBefore
  rw [this]
  simp

/-- `restore` after `save` gives back the saved cursor state -/
theorem restore_save (cm : Compaction) :
    cm.save.restore.tPtrs = cm.tPtrs ∧ cm.save.restore.gpi = cm.gpi ∧ cm.save.restore.seenKey = cm.seenKey ∧
    cm.save.restore.gpOverlappedBytes = cm.gpOverlappedBytes := ⟨rfl, rfl, rfl, rfl⟩

/-! ### example: grandparents `[1]..[2]` (10 bytes), `[4]..[5]` (10), `[7]..[8]` (10), limit 15 -/

def sT (n : Nat) (a b : UInt8) : Table := ⟨n, 10, [], mkIKey [a] 1 1, mkIKey [b] 1 1⟩

def sCm : Compaction :=
  { v := ⟨[]⟩, sourceLevel := 0, s0 := [], s1 := [], maxGPOverlaps := 15, gp := [sT 1 1 2, sT 2 4 5, sT 3 7 8],
    gpi := 0, seenKey := false, gpOverlappedBytes := 0, imin := mkIKey [0] 1 1, imax := mkIKey [9] 1 1,
    tPtrs := [], snapGPI := 0, snapSeenKey := false, snapGPOverlappedBytes := 0, snapTPtrs := [] }

/-- keys `[0]`, `[3]`, `[6]`, `[9]`: passing the first grandparent accumulates 10 (no cut), passing the second
makes 20 > 15: cut before `[6]`, counter back to 0; passing the third accumulates 10 again -/
example :
    let r1 := sCm.shouldStopBefore bytewise (mkIKey [0] 5 1)
    let r2 := r1.2.shouldStopBefore bytewise (mkIKey [3] 5 1)
    let r3 := r2.2.shouldStopBefore bytewise (mkIKey [6] 5 1)
    let r4 := r3.2.shouldStopBefore bytewise (mkIKey [9] 5 1)
    (r1.1, r2.1, r3.1, r4.1) = (false, false, true, false) ∧
    (r1.2.gpi, r2.2.gpi, r3.2.gpi, r4.2.gpi) = (0, 1, 2, 3) ∧
    (r2.2.gpOverlappedBytes, r3.2.gpOverlappedBytes, r4.2.gpOverlappedBytes) = (10, 0, 10) := by decide

end GoLevel.Pick
