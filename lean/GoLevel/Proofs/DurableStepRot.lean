import GoLevel.Proofs.DurableStepW
/-!
`rotate` (`DB.newMem` on the write path) and `flushStart` preserve the invariant.
-/
namespace GoLevel.Dur

theorem lastView_eq {cfg : Cfg} {d : Disk} {mf : LogFile MRec} (hc : curManifest d = some mf) :
    lastView cfg d = viewAt cfg mf mf.unsynced.length := by
  simp [lastView, hc]

/-- in the running phase a job without a frozen buffer is a table compaction -/
theorem Inv.job_of_nofrozen {cfg : Cfg} {s : St} {d : Disk} (h : Inv cfg s d) (hph : s.phase = .running)
    (hf : s.frozen = none) (htr : s.tr = none) : Holds' s.job fun j => j.kind = .compaction := by
  cases hj : s.job with
  | none => trivial
  | some j =>
    have := h.job
    rw [hj] at this
    have hk := this.kind
    unfold JobKindOK at hk
    show j.kind = .compaction
    split at hk
    · obtain ⟨_, hk⟩ := hk
      rw [hf] at hk
      simp at hk
    · rw [hph] at hk; exact absurd hk.1 (by decide)
    · rw [hph] at hk; exact absurd hk.1 (by decide)
    · assumption
    · rw [htr] at hk; exact absurd hk.2.2.2.2 id

/-- without a job the only edit the storage can be ahead by is that of a discarded transaction -/
theorem LimboOK.orphan_of_nojob {s : St} {d : Disk} (h : LimboOK s d) (hj : s.job = none) {u : MRec}
    (hu : s.limbo = some u) : LimboFacts s d u ∧ OrphanOK s d u := by
  unfold LimboOK at h
  rw [hu] at h
  have h : LimboFacts s d u := h
  refine ⟨h, ?_⟩
  rcases h.2.2.2.2.2.2.2 with h1 | h1
  · rw [hj] at h1; exact absurd h1 id
  · exact h1

/-- the last view of the manifest as the session sees it when no job runs: the session's tables are live in it,
    its journal number is the session's, its sequence number is not below the session's -/
theorem Inv.nojob_view {cfg : Cfg} {s : St} {d : Disk} (h : Inv cfg s d) (hph : s.phase = .running)
    (hjob : s.job = none) :
    ∃ mf vl, curManifest d = some mf ∧ lastView cfg d = some vl ∧ viewAt cfg mf mf.unsynced.length = some vl ∧
      (∀ t ∈ s.live, t ∈ vl.live) ∧ vl.jn = s.stJn ∧ s.stSq ≤ vl.sq := by
  have hrun := h.run hph
  obtain ⟨mf, v0, hparts⟩ := h.disk.parts
  obtain ⟨vl, hvl, _, _⟩ := hparts.views mf.unsynced.length (Nat.le_refl _)
  have hlv : lastView cfg d = some vl := by rw [lastView_eq hparts.cur]; exact hvl
  have hsett := hrun.nojob hjob
  unfold Settled at hsett
  have hm := (holds_some hsett hparts.cur).2
  rw [hlv] at hm
  refine ⟨mf, vl, hparts.cur, hlv, hvl, ?_⟩
  cases hu : s.limbo with
  | none =>
    have hm := (MirrorL.of_none hu).1 hm
    exact ⟨fun t ht => by rw [hm.1]; exact ht, hm.2.1, Nat.le_of_eq hm.2.2.symm⟩
  | some u =>
      obtain ⟨m1, m2, m3⟩ : MirrorE s u vl := (MirrorL.of_some hu).1 hm
      obtain ⟨hf, ho⟩ := hrun.limbo.orphan_of_nojob hjob hu
      obtain ⟨hdel, hjn, _⟩ := ho
      refine ⟨fun t ht => ?_, by rw [m2, hjn]; rfl, by rw [m3]; exact hf.2.2.2.2.1⟩
      rw [m1, mem_applyEdit]
      refine Or.inl ⟨ht, by rw [hdel]; exact List.not_mem_nil, fun ha => ?_⟩
      have := (hf.2.2.2.2.2.1 t ht).1 t ha
      omega

/-- a view ahead of the session by the ghost edit is not behind it -/
theorem MirrorL.ge {s : St} {d : Disk} (hl : LimboOK s d) {v : MView} (h : MirrorL s v) :
    s.stJn ≤ v.jn ∧ s.stSq ≤ v.sq := by
  cases hu : s.limbo with
  | none =>
    have h := (MirrorL.of_none hu).1 h
    exact ⟨Nat.le_of_eq h.2.1.symm, Nat.le_of_eq h.2.2.symm⟩
  | some u =>
    unfold LimboOK at hl
    rw [hu] at hl
    have hl : LimboFacts s d u := hl
    obtain ⟨_, m2, m3⟩ : MirrorE s u v := (MirrorL.of_some hu).1 h
    exact ⟨by rw [m2]; exact hl.2.2.2.1, by rw [m3]; exact hl.2.2.2.2.1⟩

/-- with no transaction open and at most a table compaction running the session is not ahead of the DB: its
    journal number is at most the current journal's, its sequence number at most `db.seq` -/
theorem Inv.sess_bounds {cfg : Cfg} {s : St} {d : Disk} (h : Inv cfg s d) (hph : s.phase = .running)
    (hjob : Holds' s.job fun j => j.kind = .compaction) : s.stJn ≤ s.jcur ∧ s.stSq ≤ s.seq := by
  have hrun := h.run hph
  have hb := h.bounds (by rw [hph]; decide)
  have hntw : ¬ TrWindow s := by
    cases hj : s.job with
    | none => exact not_trWindow_of_nojob hj
    | some j =>
      rw [hj] at hjob
      have hk : j.kind = .compaction := hjob
      exact not_trWindow_of_kind hj (by rw [hk]; exact fun hx => nomatch hx)
  -- some admissible view is not behind the session
  have key : ∃ mf k v, curManifest d = some mf ∧ k ≤ mf.unsynced.length ∧ viewAt cfg mf k = some v ∧
      s.stJn ≤ v.jn ∧ s.stSq ≤ v.sq := by
    obtain ⟨mf, v0, hparts⟩ := h.disk.parts
    obtain ⟨vl, hvl, _, _⟩ := hparts.views mf.unsynced.length (Nat.le_refl _)
    have hlv : lastView cfg d = some vl := by rw [lastView_eq hparts.cur]; exact hvl
    have hlast : ∀ P : MView → Prop, Holds (lastView cfg d) P → P vl := fun P hP => by rw [hlv] at hP; exact hP
    have ofL : MirrorL s vl → ∃ mf k v, curManifest d = some mf ∧ k ≤ mf.unsynced.length ∧
        viewAt cfg mf k = some v ∧ s.stJn ≤ v.jn ∧ s.stSq ≤ v.sq := fun hm =>
      ⟨mf, _, vl, hparts.cur, Nat.le_refl _, hvl, hm.ge hrun.limbo⟩
    have ofM : Mirror s vl → ∃ mf k v, curManifest d = some mf ∧ k ≤ mf.unsynced.length ∧
        viewAt cfg mf k = some v ∧ s.stJn ≤ v.jn ∧ s.stSq ≤ v.sq := fun hm =>
      ⟨mf, _, vl, hparts.cur, Nat.le_refl _, hvl, Nat.le_of_eq hm.2.1.symm, Nat.le_of_eq hm.2.2.symm⟩
    have ofS : ∀ P, Settled cfg s d P → P vl := fun P hs => by
      unfold Settled at hs
      exact hlast P (holds_some hs hparts.cur).2
    cases hj : s.job with
    | none => exact ofL (ofS _ (hrun.nojob hj))
    | some j =>
      rw [hj] at hjob
      have hk : j.kind = .compaction := hjob
      have hok := h.job
      rw [hj] at hok
      have hok : JobOK cfg s d j := hok
      have hkind := hok.kind
      unfold JobKindOK at hkind
      rw [hk] at hkind
      simp only at hkind
      obtain ⟨e, he⟩ : ∃ e, j.edit = some e := by
        cases hx : j.edit with
        | none => rw [hx] at hkind; exact absurd hkind.2.2.2 (by simp)
        | some e => exact ⟨e, rfl⟩
      have hin := hok.inputs
      rw [he] at hin
      have hin : InputsOK s d j e := hin
      unfold InputsOK at hin
      rw [if_pos hk] at hin
      have ofE : MirrorE s e vl → ∃ mf k v, curManifest d = some mf ∧ k ≤ mf.unsynced.length ∧
          viewAt cfg mf k = some v ∧ s.stJn ≤ v.jn ∧ s.stSq ≤ v.sq := fun hm =>
        ⟨mf, _, vl, hparts.cur, Nat.le_refl _, hvl, by rw [hm.2.1, hin.1]; exact Nat.le_refl _,
          by rw [hm.2.2, hin.2.1]; exact Nat.le_refl _⟩
      have hman := hok.manifest
      unfold JobManifestOK at hman
      rw [he] at hman
      simp only at hman
      cases hpc : j.pc <;> rw [hpc] at hman <;> simp only [JobManifest] at hman
      case tCreate => exact ofL (ofS _ hman)
      case tWrite => exact ofL (ofS _ hman)
      case tSync => exact ofL (ofS _ hman)
      case mkJournal => exact ofL (ofS _ hman)
      case append => exact ofL (ofS _ hman)
      case rotWrite => exact ofL (ofS _ hman.1)
      case rotSync => exact ofL (ofS _ hman.1)
      case rotSetMeta => exact ofL (ofS _ hman.1)
      case rotRemove =>
        have := (holds_some hman.2.2 hparts.cur).2
        exact ofE (hlast _ this)
      case sync =>
        have := (holds_some hman.2.1 hparts.cur).2
        rw [hparts.hv0] at this
        have hm : Mirror s v0 := this.1
        exact ⟨mf, 0, v0, hparts.cur, Nat.zero_le _, hparts.hv0, Nat.le_of_eq hm.2.1.symm, Nat.le_of_eq hm.2.2.symm⟩
      case install => exact ofE (ofS _ hman.2)
      case rmJ => exact ofL (ofS _ hman.2.1)
      case rmT => exact ofL (ofS _ hman.2.1)
      case rmM => exact ofL (ofS _ hman.2.1)
      case done => exact ofL (ofS _ hman.2.1)
  obtain ⟨mf, k, v, hc, hk, hv, h1, h2⟩ := key
  have hbv := hb.all mf hc k hk v hv
  rw [seqHi_eq hntw] at hbv
  exact ⟨Nat.le_trans h1 (hbv.2.2 hph), Nat.le_trans h2 hbv.1⟩

/-- the snapshot record does not depend on the next-file counter once its `nf` is fixed -/
theorem snapshotRec_nf (cfg : Cfg) (s s' : St) (e : MRec) (x : Nat) (h1 : s'.manifestOpen = s.manifestOpen)
    (h2 : s'.stJn = s.stJn) (h3 : s'.stSq = s.stSq) (h4 : s'.live = s.live) :
    ({ snapshotRec cfg s' e with nf := x } : MRec) = { snapshotRec cfg s e with nf := x } := by
  simp only [snapshotRec, h1, h2, h3, h4]

/-- a table compaction is not disturbed by `newMem` on the write path: a new (highest) journal, the next
    file number moves on -/
theorem JobOK.rotate {cfg : Cfg} {s : St} {d : Disk} {j : Job} (h : JobOK cfg s d j) (hk : j.kind = .compaction)
    (hjlt : s.jcur < s.nextFile) (hnd : d.journals.Pairwise (fun p q => p.1 ≠ q.1)) :
    JobOK cfg { s with nextFile := s.nextFile + 1, frozen := some s.mem, mem := [], jfrozen := some s.jcur,
                       jcur := s.nextFile, frozenSeq := s.seq }
      { d with journals := d.journals.set s.nextFile ⟨[], []⟩ } j := by
  obtain ⟨h1, h2, h3, h4, h5, h6, h7, h8, h9, h10, h11, h12⟩ := h
  have hmk : j.mkJournal = none := by
    unfold JobKindOK at h2; rw [hk] at h2; exact h2.2.1
  refine ⟨h1, ?_, ?_, ⟨fun o ho => Nat.lt_succ_of_lt (h4.1 o ho), h4.2⟩, h5, h6, h7, ?_, ?_, h10, h11, h12⟩
  · unfold JobKindOK at h2 ⊢; rw [hk] at h2 ⊢; exact h2
  · unfold JobManifestOK at h3 ⊢
    cases he : j.edit with
    | none => rw [he] at h3; exact h3
    | some e =>
      rw [he] at h3
      simp only at h3 ⊢
      cases hpc : j.pc <;> rw [hpc] at h3 <;> simp only [JobManifest] at h3 ⊢
      all_goals first
        | exact h3
        | skip
      · -- rotWrite
        obtain ⟨a, b, c, e'⟩ := h3
        exact ⟨a, b, Nat.lt_succ_of_lt c, e'⟩
      · -- rotSync
        obtain ⟨a, b, c, e'⟩ := h3
        refine ⟨a, b, Nat.lt_succ_of_lt c, e'.imp (fun mf hmf => hmf.imp (fun r hr => ?_))⟩
        exact ⟨hr.1.trans (by simp [snapshotRec]), hr.2.1, Nat.le_succ_of_le hr.2.2.1, hr.2.2.2⟩
      · -- rotSetMeta
        obtain ⟨a, b, c, e'⟩ := h3
        refine ⟨a, b, Nat.lt_succ_of_lt c, e'.imp (fun mf hmf => hmf.imp (fun r hr => ?_))⟩
        exact ⟨hr.1.trans (by simp [snapshotRec]), hr.2.1, Nat.le_succ_of_le hr.2.2.1, hr.2.2.2⟩
      · -- sync
        obtain ⟨a, b, c⟩ := h3
        refine ⟨a, b.imp (fun mf hmf => ⟨hmf.1.imp (fun r hr => ⟨hr.1, Nat.le_succ_of_le hr.2⟩), hmf.2⟩), c⟩
  · unfold MkJournalOK; rw [hmk]; trivial
  · refine h9.imp (fun v hv => ?_)
    unfold RemovalsOK at hv ⊢
    split
    · rename_i rest heq
      rw [heq] at hv
      simp only at hv
      refine ⟨fun n hn => ⟨?_, (hv.1 n hn).2⟩, hv.2⟩
      rcases (hv.1 n hn).1 with hx | ⟨hx, hy⟩
      · exact Or.inl hx
      · refine Or.inr ⟨Nat.lt_trans hx hjlt, fun p hp hpn => ?_⟩
        rcases (mem_set hnd).1 hp with rfl | ⟨hp0, _⟩
        · simp only at hpn; omega
        · exact hy p hp0 hpn
    · rename_i rest heq; rw [heq] at hv; exact hv
    · rename_i rest heq; rw [heq] at hv; exact hv
    · trivial

theorem inv_rotate {cfg : Cfg} {s : St} {d : Disk} (h : Inv cfg s d) {s' : St} {d' : Disk}
    (hs : stepWriter cfg s d (.rotate .ok) = some (s', d')) : Inv cfg s' d' := by
  simp only [stepWriter, Disk.exec, Disk.apply] at hs
  split at hs
  · rename_i hg
    obtain ⟨hph, hq, hfz, htr⟩ := hg
    simp only [Outcome.failed, Bool.false_eq_true, if_false, Option.some.injEq, Prod.mk.injEq] at hs
    obtain ⟨rfl, rfl⟩ := hs
    have hrun := h.run hph
    have hb := h.bounds (by rw [hph]; decide)
    have hjob := h.job_of_nofrozen hph hfz htr
    have hntw := h.not_trWindow_of_tr_none htr
    have hinfl : inflight s.w = [] := by
      cases hw : s.w <;> rw [hw] at hq <;> simp_all [WPc.quiet, inflight]
    have hmem : ∀ x ∈ s.mem, x.fin ≤ s.seq + 1 := by
      have := hrun.wseq
      unfold WSeqOK at this
      cases hw : s.w <;> rw [hw] at this hq <;> simp_all [WPc.quiet]
    have hjc := hrun.jcur
    rw [holds_iff] at hjc
    obtain ⟨jf, hjf, hall⟩ := hjc
    rw [hinfl, List.append_nil] at hall
    have hjlt : s.jcur < s.nextFile := hrun.jmax.1
    have hnd := sorted_nodup h.disk.jsorted
    have hjfz : s.jfrozen = none := by
      rcases frozenOK_iff.1 hrun.frozen with ⟨_, h2⟩ | ⟨fz, jf', h1, _⟩
      · exact h2
      · rw [hfz] at h1; cases h1
    constructor
    · -- disk: `must` and `issuedGrps` do not change
      exact DiskOK.journal_create' h.disk s.nextFile hrun.nums.1
    · exact h.mm.of_same rfl rfl
    · intro _
      exact hb.of_same rfl (seqHi_le_of_not_window hntw hntw (Nat.le_refl _)) (Nat.le_succ _)
        (fun _ => ⟨hph, Nat.le_of_lt hjlt⟩)
    · intro _
      have hsb := h.sess_bounds hph hjob
      obtain ⟨r1, r2, r3, r4, r5, r6, r7, r8, r9, r10⟩ := hrun
      refine ⟨⟨r1.1, by unfold TrOK; show Holds' s.tr _; rw [htr]; trivial⟩, ?_, ?_, ?_, ?_, ?_, ?_, ?_, ?_,
        r10.frame rfl rfl rfl rfl rfl rfl rfl (Nat.le_refl _) (fun g hg => Or.inl hg) (Nat.le_succ _)⟩
      · exact r2
      · show Holds (lookup (d.journals.set s.nextFile ⟨[], []⟩) s.nextFile) _
        rw [lookup_set, if_pos rfl]
        show JournalHolds _ (⟨[], []⟩ : LogFile Grp) ([] ++ inflight s.w) s.seq
        rw [hinfl]
        exact ⟨fun x hx => (by cases hx), fun x hx _ => (by cases hx), fun x hx => (by cases hx),
          fun _ x hx => (by cases hx)⟩
      · refine ⟨Nat.lt_succ_self _, fun p hp => ?_⟩
        rcases (mem_set hnd).1 hp with rfl | ⟨hp0, hne⟩
        · exact Or.inl (Nat.le_refl _)
        · rcases r5.1 p hp0 with h1 | h1
          · exact Or.inl (Nat.le_of_lt h1)
          · exact absurd h1.1 hne
      · refine ⟨fun p hp => ?_, r5.2.imp (fun m hm => Nat.lt_succ_of_lt hm)⟩
        rcases (mem_set hnd).1 hp with rfl | ⟨hp0, hne⟩
        · exact Or.inl (Nat.lt_succ_self _)
        · rcases r5.1 p hp0 with h1 | h1
          · exact Or.inl (Nat.lt_succ_of_lt h1)
          · exact absurd h1.1 hne
      · show WSeqOK _
        unfold WSeqOK
        cases hw : s.w <;> rw [hw] at hq <;> simp_all [WPc.quiet]
      · apply frozenOK_iff.2
        refine Or.inr ⟨s.mem, s.jcur, rfl, rfl, hjlt, Nat.le_refl _, hmem, ?_, ?_, ?_⟩
        · intro p hp hpn g hg
          rcases (mem_set hnd).1 hp with rfl | ⟨hp0, hne⟩
          · cases hg
          · exact absurd hpn hne
        · intro p hp hpn
          rcases (mem_set hnd).1 hp with rfl | ⟨hp0, _⟩
          · simp only at hpn; omega
          · have : lookup d.journals p.1 = some p.2 := lookup_of_mem hnd (by cases p; exact hp0)
            rw [hpn, hjf] at this
            cases this
            exact hall
        · intro _
          exact ⟨⟨(s.jcur, jf), (mem_set hnd).2 (Or.inr ⟨lookup_some_mem hjf, Nat.ne_of_lt hjlt⟩), rfl⟩, hsb⟩
      · refine r8.imp (fun mf hmf => hmf.imp (fun v0 hv0 p hp hjn => ?_))
        rcases (mem_set hnd).1 hp with rfl | ⟨hp0, _⟩
        · exact Or.inl rfl
        · rcases hv0 p hp0 hjn with h1 | h1 | h1
          · exact Or.inr (Or.inl (by rw [h1]))
          · rw [hjfz] at h1; cases h1
          · exact Or.inr (Or.inr h1)
      · exact r9
    · intro hc; rw [hph] at hc; cases hc
    · intro hc; rw [hph] at hc; cases hc
    · show Holds' s.job _
      cases hj : s.job with
      | none => trivial
      | some j =>
        rw [hj] at hjob
        have hok := h.job
        rw [hj] at hok
        have := JobOK.rotate hok hjob hjlt hnd
        rw [hj] at this
        exact this
  · cases hs


/-- `newMem` whose `Create` reports an error although the file was made: the file number is handed back
    (`reuseFileNum`), an empty journal with that number stays behind.  It is above the current journal, so a
    later `Open` replays it last — nothing; the next `newMem` truncates and adopts it. -/
theorem inv_rotate_failEffect {cfg : Cfg} {s : St} {d : Disk} (h : Inv cfg s d) {s' : St} {d' : Disk}
    (hs : stepWriter cfg s d (.rotate .failEffect) = some (s', d')) : Inv cfg s' d' := by
  simp only [stepWriter, Disk.exec, Disk.apply] at hs
  split at hs
  · rename_i hg
    obtain ⟨hph, hq, hfz, htr⟩ := hg
    simp only [Outcome.failed, if_true, Option.some.injEq, Prod.mk.injEq] at hs
    obtain ⟨rfl, rfl⟩ := hs
    have hrun := h.run hph
    have hb := h.bounds (by rw [hph]; decide)
    have hjob := h.job_of_nofrozen hph hfz htr
    have hjlt : s.jcur < s.nextFile := hrun.jmax.1
    have hnd := sorted_nodup h.disk.jsorted
    have hemp : ((⟨[], []⟩ : LogFile Grp)).all = [] := rfl
    constructor
    · exact DiskOK.journal_create' h.disk s.nextFile hrun.nums.1
    · exact h.mm.of_same rfl rfl
    · intro _
      exact hb.of_same rfl (Nat.le_refl _) (Nat.le_refl _) (fun _ => ⟨hph, Nat.le_refl _⟩)
    · intro _
      obtain ⟨r1, r2, r3, r4, r5, r6, r7, r8, r9, r10⟩ := hrun
      refine ⟨r1, r2, ?_, ⟨r4.1, fun p hp => ?_⟩, ⟨fun p hp => ?_, r5.2⟩, r6, ?_, ?_, r9,
        r10.frame rfl rfl rfl rfl rfl rfl rfl (Nat.le_refl _) (fun g hg => Or.inl hg)⟩
      · show Holds (lookup (d.journals.set s.nextFile ⟨[], []⟩) s.jcur) _
        rw [lookup_set, if_neg (Nat.ne_of_lt hjlt)]
        exact r3
      · rcases (mem_set hnd).1 hp with rfl | ⟨hp0, _⟩
        · exact Or.inr rfl
        · exact r4.2 p hp0
      · rcases (mem_set hnd).1 hp with rfl | ⟨hp0, _⟩
        · exact Or.inr ⟨rfl, rfl⟩
        · exact r5.1 p hp0
      · rcases frozenOK_iff.1 r7 with ⟨h1, h2⟩ | ⟨fz, jf', h1, _⟩
        · exact frozenOK_iff.2 (Or.inl ⟨h1, h2⟩)
        · rw [hfz] at h1; cases h1
      · refine r8.imp (fun mf hmf => hmf.imp (fun v0 hv0 p hp hjn => ?_))
        rcases (mem_set hnd).1 hp with rfl | ⟨hp0, _⟩
        · exact Or.inr (Or.inr ⟨fun x hx => (by cases hx), fun _ => rfl⟩)
        · exact hv0 p hp0 hjn
    · intro hc; rw [hph] at hc; cases hc
    · intro hc; rw [hph] at hc; cases hc
    · show Holds' s.job _
      cases hj : s.job with
      | none => trivial
      | some j =>
        rw [hj] at hjob
        have hk : j.kind = .compaction := hjob
        have hok := h.job
        rw [hj] at hok
        obtain ⟨h1, h2, h3, h4, h5, h6, h7, h8, h9, h10, h11, h12⟩ := (hok : JobOK cfg s d j)
        have hmk : j.mkJournal = none := by
          unfold JobKindOK at h2; rw [hk] at h2; exact h2.2.1
        refine ⟨h1, h2, h3, h4, h5, h6, h7, ?_, ?_, h10, h11, h12⟩
        · unfold MkJournalOK; rw [hmk]; trivial
        · refine h9.imp (fun v hv => ?_)
          unfold RemovalsOK at hv ⊢
          split
          · rename_i rest heq
            rw [heq] at hv
            simp only at hv
            have hnil : rest = [] := hv.2.2.1 (Or.inl hk)
            subst hnil
            exact ⟨fun n hn => (by cases hn), hv.2.1, fun _ => rfl, fun _ n hn => (by cases hn)⟩
          · rename_i rest heq; rw [heq] at hv; exact hv
          · rename_i rest heq; rw [heq] at hv; exact hv
          · trivial
  · cases hs

theorem Inv.lastView_some {cfg : Cfg} {s : St} {d : Disk} (h : Inv cfg s d) :
    ∃ mf v, curManifest d = some mf ∧ lastView cfg d = some v ∧ viewAt cfg mf mf.unsynced.length = some v := by
  obtain ⟨mf, v0, hparts⟩ := h.disk.parts
  obtain ⟨v, hv, _, _⟩ := hparts.views mf.unsynced.length (Nat.le_refl _)
  exact ⟨mf, v, hparts.cur, by rw [lastView_eq hparts.cur]; exact hv, hv⟩

theorem inv_flushStart {cfg : Cfg} {s : St} {d : Disk} (h : Inv cfg s d) {s' : St}
    (hs : flushStart s = some s') : Inv cfg s' d := by
  unfold flushStart at hs
  split at hs
  · rename_i hg
    obtain ⟨hph, hjob⟩ := hg
    have hrun := h.run hph
    have hb := h.bounds (by rw [hph]; decide)
    have hnc : NoCommitYet s := by unfold NoCommitYet; rw [hjob]; trivial
    have hsett := hrun.nojob hjob
    obtain ⟨mf, vl, hcur, hlv, hvl⟩ := h.lastView_some
    split at hs
    · rename_i fz jf hfz hjf
      rcases frozenOK_iff.1 hrun.frozen with ⟨h1, _⟩ | ⟨fz', jf', h1, h2, f1, f2, f3, f4, f5, f6⟩
      · rw [hfz] at h1; cases h1
      rw [hfz] at h1; rw [hjf] at h2; cases h1; cases h2
      have hmfd : ∀ j' : Job, (∀ m, j'.pc ≠ .rotRemove m) → ∀ nf', MfdOK { s with job := some j', nextFile := nf' } d :=
        fun j' hj' nf' => hrun.mfd.1.transport (by rw [hjob]; intro m hm; cases hm)
          (by intro m hm; exact hj' m (Option.some.inj hm)) rfl rfl rfl
      split at hs
      · -- empty frozen buffer: only `dropFrozenMem`
        rename_i hemp
        have hfz0 : fz = [] := by simpa using hemp
        simp only [Option.some.injEq] at hs
        subst hs
        constructor
        · exact h.disk
        · exact h.mm
        · intro _
          exact hb.of_same rfl (seqHi_le_of_not_window (not_trWindow_of_nojob hjob)
            (not_trWindow_of_kind rfl (fun hk => by cases hk)) (Nat.le_refl _)) (Nat.le_refl _) (fun _ => ⟨hph, Nat.le_refl _⟩)
        · intro _
          obtain ⟨r1, r2, r3, r4, r5, r6, r7, r8, r9, r10⟩ := hrun
          refine ⟨r1, ⟨?_, r2.2⟩, r3, r4, r5, r6, ?_, r8, (fun hc => by cases hc),
            r10.spawn hjob rfl (fun o ho => by cases ho) (Or.inl rfl) rfl rfl rfl rfl rfl rfl (Nat.le_refl _)
              (fun g hg => Or.inl hg) (Nat.le_refl _)⟩
          · exact hmfd _ (by intro m hm; cases hm) _
          · apply frozenOK_iff.2
            refine Or.inr ⟨fz, jf, hfz, hjf, f1, f2, f3, f4, f5, ?_⟩
            intro hn
            exact absurd hn (by unfold FlushPending; simp [Holds', JPc.uninstalled, JPc.beforeCommit])
        · intro hc; rw [hph] at hc; cases hc
        · intro hc; rw [hph] at hc; cases hc
        · show JobOK cfg _ d _
          refine ⟨⟨Nat.zero_le _, Or.inl rfl⟩, ?_, ?_,
            ⟨fun o ho => absurd ho List.not_mem_nil, fun hc => absurd hc (by simp [JPc.beforeCommit])⟩, trivial,
            fun i o hi => absurd hi (by simp), trivial, trivial, ?_, fun _ => rfl, trivial,
            (fun _ => by rw [hlv]; exact fun o ho => absurd ho List.not_mem_nil)⟩
          · show JobKindOK _ _
            simp [JobKindOK, hph, hfz, hjf, hfz0]
          · show JobManifestOK cfg _ d _
            unfold JobManifestOK
            exact hsett
          · rw [hlv]
            simp only [Holds]
            unfold RemovalsOK
            refine ⟨fun n hn => ?_, fun t ht => (by cases ht), fun hk => (by rcases hk with hk | hk <;> cases hk),
              fun _ n hn => hn⟩
            simp only [List.mem_singleton] at hn
            subst hn
            refine ⟨Or.inr ⟨f1, fun p hp hpn g hg => ?_⟩, fun x hx => by cases hx⟩
            obtain ⟨_, b, c, _⟩ := f5 p hp hpn
            rw [hfz0] at b c
            refine ⟨fun hm => (by cases b g hg hm), ?_⟩
            show g.fin ≤ s.seq + 1
            rcases c g hg with h1 | h1
            · cases h1
            · omega
      · -- a table for the frozen buffer
        rename_i hne
        have hfzne : fz ≠ [] := by simpa using hne
        simp only [Option.some.injEq] at hs
        subst hs
        constructor
        · exact h.disk
        · exact h.mm
        · intro _
          exact hb.of_same rfl (seqHi_le_of_not_window (not_trWindow_of_nojob hjob)
            (not_trWindow_of_kind rfl (fun hk => by cases hk)) (Nat.le_refl _)) (Nat.le_succ _) (fun _ => ⟨hph, Nat.le_refl _⟩)
        · intro _
          obtain ⟨r1, r2, r3, r4, r5, r6, r7, r8, r9, r10⟩ := hrun
          refine ⟨r1, ⟨?_, r2.2⟩, r3, ⟨Nat.lt_succ_of_lt r4.1, r4.2⟩, ⟨nums_bump r5.1 (Nat.lt_succ_self _),
            r5.2.imp (fun m hm => Nat.lt_succ_of_lt hm)⟩, r6, ?_, r8, (fun hc => by cases hc),
            r10.spawn hjob rfl (fun o ho => by
                simp only [List.mem_singleton] at ho; subst ho; exact Nat.le_refl _) (Or.inr rfl)
              rfl rfl rfl rfl rfl rfl (Nat.le_refl _) (fun g hg => Or.inl hg) (Nat.le_succ _)⟩
          · exact hmfd _ (by intro m hm; cases hm) _
          · apply frozenOK_iff.2
            exact Or.inr ⟨fz, jf, hfz, hjf, f1, f2, f3, f4, f5, fun _ => f6 hnc.flushPending⟩
        · intro hc; rw [hph] at hc; cases hc
        · intro hc; rw [hph] at hc; cases hc
        · show JobOK cfg _ d _
          refine ⟨⟨Nat.le_refl _, Or.inl rfl⟩, ?_, ?_, ⟨?_, ?_⟩, ?_, ?_, ?_, trivial, ?_, (fun hc => by cases hc),
            (by simp [Holds', InputsOK]), (fun hc => by cases hc)⟩
          · show JobKindOK _ _
            simp [JobKindOK, hph, hfz, hjf, hfzne]
          · show JobManifestOK cfg _ d _
            unfold JobManifestOK
            exact hsett
          · intro o ho
            simp only [List.mem_singleton] at ho
            subst ho
            exact Nat.lt_succ_self _
          · intro _
            apply holds_of_some hcur
            intro k hk
            obtain ⟨mf', v0, hparts⟩ := h.disk.parts
            have e : mf' = mf := by have := hparts.cur; rw [hcur] at this; exact (Option.some.inj this).symm
            subst e
            obtain ⟨v, hv, _, _⟩ := hparts.views k hk
            apply holds_of_some hv
            refine ⟨fun o ho => ?_, fun n hn => by cases hn⟩
            simp only [List.mem_singleton] at ho
            subst ho
            exact Or.inl (hb.all mf' hcur k hk v hv).2.1
          · exact ⟨rfl, rfl, rfl⟩
          · intro i o hi
            show OutOK d (.tCreate 0) i o
            unfold OutOK
            intro hlt; exact absurd hlt (Nat.not_lt_zero _)
          · show PcIdxOK _
            unfold PcIdxOK
            exact Nat.lt_succ_self _
          · rw [hlv]; trivial
    · cases hs
  · cases hs

/-- spawning a table compaction: the inputs are live tables, the output table is their content -/
theorem inv_compactStart {cfg : Cfg} {s : St} {d : Disk} (h : Inv cfg s d) {inputs : List Nat} {s' : St}
    (hs : compactStart s d inputs = some s') : Inv cfg s' d := by
  unfold compactStart at hs
  split at hs
  · rename_i hg
    obtain ⟨hph, hjob, hne, hnd, hall⟩ := hg
    simp only [Option.some.injEq] at hs
    subst hs
    have hrun := h.run hph
    have hb := h.bounds (by rw [hph]; decide)
    have hsett := hrun.nojob hjob
    obtain ⟨mf, vl, hcur, hlv, hvl, hlin, _, _⟩ := h.nojob_view hph hjob
    have hmfd : ∀ j' : Job, (∀ m, j'.pc ≠ .rotRemove m) → ∀ nf', MfdOK { s with job := some j', nextFile := nf' } d :=
      fun j' hj' nf' => hrun.mfd.1.transport (by rw [hjob]; intro m hm; cases hm)
        (by intro m hm; exact hj' m (Option.some.inj hm)) rfl rfl rfl
    have hfp : FlushPending s := by unfold FlushPending; rw [hjob]; trivial
    have hlive : ∀ t ∈ inputs, t ∈ s.live := by
      intro t ht
      have := List.all_eq_true.1 hall t ht
      simpa using this
    -- live tables lie below the next file number
    have hvok := h.disk.allViews mf hcur _ (Nat.le_refl _) vl hvl
    have hbv := hb.all mf hcur _ (Nat.le_refl _) vl hvl
    have hlt : ∀ t ∈ inputs, t < s.nextFile := by
      intro t ht
      have := (hvok.tables t (hlin t (hlive t ht))).1
      exact Nat.lt_of_lt_of_le this hbv.2.1
    constructor
    · exact h.disk
    · exact h.mm
    · intro _
      exact hb.of_same rfl (seqHi_le_of_not_window (not_trWindow_of_nojob hjob)
        (not_trWindow_of_kind rfl (fun hk => by cases hk)) (Nat.le_refl _)) (Nat.le_succ _) (fun _ => ⟨hph, Nat.le_refl _⟩)
    · intro _
      obtain ⟨r1, r2, r3, r4, r5, r6, r7, r8, r9, r10⟩ := hrun
      refine ⟨r1, ⟨?_, r2.2⟩, r3, ⟨Nat.lt_succ_of_lt r4.1, r4.2⟩, ⟨nums_bump r5.1 (Nat.lt_succ_self _),
        r5.2.imp (fun m hm => Nat.lt_succ_of_lt hm)⟩, r6, ?_, r8, (fun hc => by cases hc),
        r10.spawn hjob rfl (fun o ho => by
            simp only [List.mem_singleton] at ho; subst ho; exact Nat.le_refl _) (Or.inr rfl)
          rfl rfl rfl rfl rfl rfl (Nat.le_refl _) (fun g hg => Or.inl hg) (Nat.le_succ _)⟩
      · exact hmfd _ (by intro m hm; cases hm) _
      · rcases frozenOK_iff.1 r7 with ⟨h1, h2⟩ | ⟨fz, jf, h1, h2, f1, f2, f3, f4, f5, f6⟩
        · exact frozenOK_iff.2 (Or.inl ⟨h1, h2⟩)
        · exact frozenOK_iff.2 (Or.inr ⟨fz, jf, h1, h2, f1, f2, f3, f4, f5, fun _ => f6 hfp⟩)
    · intro hc; rw [hph] at hc; cases hc
    · intro hc; rw [hph] at hc; cases hc
    · show JobOK cfg _ d _
      refine ⟨⟨Nat.le_refl _, Or.inr (Or.inr rfl)⟩, ?_, ?_, ⟨?_, ?_⟩, ?_, ?_, ?_, trivial, ?_, (fun hc => by cases hc), ?_,
        (fun hc => by cases hc)⟩
      · show JobKindOK _ _
        simp [JobKindOK, hph]
      · show JobManifestOK cfg _ d _
        unfold JobManifestOK
        exact hsett
      · intro o ho
        simp only [List.mem_singleton] at ho
        subst ho
        exact Nat.lt_succ_self _
      · intro _
        apply holds_of_some hcur
        intro k hk
        obtain ⟨mf', v0, hparts⟩ := h.disk.parts
        have e : mf' = mf := by have := hparts.cur; rw [hcur] at this; exact (Option.some.inj this).symm
        subst e
        obtain ⟨v, hv, _, _⟩ := hparts.views k hk
        apply holds_of_some hv
        refine ⟨fun o ho => ?_, fun n hn => by cases hn⟩
        simp only [List.mem_singleton] at ho
        subst ho
        exact Or.inl (hb.all mf' hcur k hk v hv).2.1
      · exact ⟨rfl, rfl, rfl⟩
      · intro i o hi
        show OutOK d (.tCreate 0) i o
        unfold OutOK
        intro hlt'; exact absurd hlt' (Nat.not_lt_zero _)
      · show PcIdxOK _
        unfold PcIdxOK
        exact Nat.lt_succ_self _
      · rw [hlv]; trivial
      · show InputsOK _ d _ _
        unfold InputsOK
        rw [if_pos rfl]
        refine ⟨rfl, rfl, rfl, fun t ht o ho => ?_, fun _ => ⟨hlive, ?_⟩⟩
        · simp only [List.mem_singleton] at ho
          subst ho
          exact hlt t ht
        · simp only [outsGrps, List.flatMap_cons, List.flatMap_nil, List.append_nil]
          rfl
  · cases hs

end GoLevel.Dur
