import GoLevel.Proofs.DurableStepW
/-!
`rotate` (`DB.newMem` on the write path) and `flushStart` preserve the invariant.
-/
namespace GoLevel.Dur

theorem lastView_eq {cfg : Cfg} {d : Disk} {mf : LogFile MRec} (hc : curManifest d = some mf) :
    lastView cfg d = viewAt cfg mf mf.unsynced.length := by
  simp [lastView, hc]

/-- in the running phase a job is a flush job and needs a frozen buffer -/
theorem Inv.nojob_of_nofrozen {cfg : Cfg} {s : St} {d : Disk} (h : Inv cfg s d) (hph : s.phase = .running)
    (hf : s.frozen = none) : s.job = none := by
  cases hj : s.job with
  | none => rfl
  | some j =>
    have := h.job
    rw [hj] at this
    have hk := this.kind
    unfold JobKindOK at hk
    split at hk
    · obtain ⟨_, hk⟩ := hk
      rw [hf] at hk
      simp at hk
    · rw [hph] at hk; exact absurd hk.1 (by decide)
    · rw [hph] at hk; exact absurd hk.1 (by decide)
    · exact absurd hk id

theorem inv_rotate {cfg : Cfg} {s : St} {d : Disk} (h : Inv cfg s d) {s' : St} {d' : Disk}
    (hs : stepWriter cfg s d (.rotate .ok) = some (s', d')) : Inv cfg s' d' := by
  simp only [stepWriter, Disk.exec, Disk.apply] at hs
  split at hs
  · rename_i hg
    obtain ⟨hph, hq, hfz, _⟩ := hg
    simp only [Outcome.failed, Bool.false_eq_true, if_false, Option.some.injEq, Prod.mk.injEq] at hs
    obtain ⟨rfl, rfl⟩ := hs
    have hrun := h.run hph
    have hb := h.bounds (by rw [hph]; decide)
    have hjob := h.nojob_of_nofrozen hph hfz
    have hinfl : inflight s.w = [] := by
      cases hw : s.w <;> rw [hw] at hq <;> simp_all [WPc.quiet, inflight]
    have hmem : ∀ x ∈ s.mem, x.fin ≤ s.seq + 1 := by
      have := hrun.wseq
      unfold WSeqOK at this
      cases hw : s.w <;> rw [hw] at this hq <;> simp_all [WPc.quiet]
    have hjc := hrun.jcur
    rw [holds_iff] at hjc
    obtain ⟨jf, hjf, hall⟩ := hjc
    rw [hinfl, List.append_nil] at hall
    have hjlt : s.jcur < s.nextFile := hrun.nums.1 _ (lookup_some_mem hjf)
    have hnd := sorted_nodup h.disk.jsorted
    have hjfz : s.jfrozen = none := by
      rcases frozenOK_iff.1 hrun.frozen with ⟨_, h2⟩ | ⟨fz, jf', h1, _⟩
      · exact h2
      · rw [hfz] at h1; cases h1
    constructor
    · -- disk: `must` and `issuedGrps` do not change
      exact DiskOK.journal_create h.disk s.nextFile hrun.nums.1
    · exact h.mm.of_same rfl rfl
    · intro _
      exact hb.of_same rfl (Nat.le_refl _) (Nat.le_succ _) (fun _ => ⟨hph, Nat.le_of_lt hjlt⟩)
    · intro _
      obtain ⟨r1, r2, r3, r4, r5, r6, r7, r8, r9⟩ := hrun
      refine ⟨r1, ?_, ?_, ?_, ?_, ?_, ?_, ?_, ?_⟩
      · exact r2
      · show Holds (lookup (d.journals.set s.nextFile ⟨[], []⟩) s.nextFile) _
        rw [lookup_set, if_pos rfl]
        show (⟨[], []⟩ : LogFile Grp).all = [] ++ inflight s.w
        rw [hinfl]; rfl
      · intro p hp
        rcases (mem_set hnd).1 hp with rfl | ⟨hp0, _⟩
        · exact Nat.le_refl _
        · exact Nat.le_of_lt (r5.1 p hp0)
      · refine ⟨fun p hp => ?_, r5.2.imp (fun m hm => Nat.lt_succ_of_lt hm)⟩
        rcases (mem_set hnd).1 hp with rfl | ⟨hp0, _⟩
        · exact Nat.lt_succ_self _
        · exact Nat.lt_succ_of_lt (r5.1 p hp0)
      · show WSeqOK _
        unfold WSeqOK
        cases hw : s.w <;> rw [hw] at hq <;> simp_all [WPc.quiet]
      · apply frozenOK_iff.2
        refine Or.inr ⟨s.mem, s.jcur, rfl, rfl, hjlt, Nat.le_refl _, hmem, ?_, ?_, ?_⟩
        · intro g hg
          simp only [List.nil_append] at hg
          rw [hinfl] at hg
          cases hg
        · intro p hp hpn
          rcases (mem_set hnd).1 hp with rfl | ⟨hp0, _⟩
          · simp only at hpn; omega
          · have : lookup d.journals p.1 = some p.2 := lookup_of_mem hnd (by cases p; exact hp0)
            rw [hpn, hjf] at this
            cases this
            exact hall
        · intro _
          refine ⟨⟨(s.jcur, jf), (mem_set hnd).2 (Or.inr ⟨lookup_some_mem hjf, Nat.ne_of_lt hjlt⟩), rfl⟩, ?_⟩
          obtain ⟨mf, v0, hparts⟩ := h.disk.parts
          obtain ⟨v, hv, _, _⟩ := hparts.views mf.unsynced.length (Nat.le_refl _)
          have hlv : lastView cfg { d with journals := d.journals.set s.nextFile ⟨[], []⟩ } = some v := by
            rw [← hv]; exact lastView_eq hparts.cur
          rw [hlv]
          have hbv := hb.all mf hparts.cur _ (Nat.le_refl _) v hv
          exact ⟨hbv.2.2 hph, hbv.1⟩
      · refine r8.imp (fun mf hmf => hmf.imp (fun v0 hv0 p hp hjn => ?_))
        rcases (mem_set hnd).1 hp with rfl | ⟨hp0, _⟩
        · exact Or.inl rfl
        · rcases hv0 p hp0 hjn with h1 | h1 | h1
          · exact Or.inr (Or.inl (by rw [h1]))
          · rw [hjfz] at h1; cases h1
          · exact Or.inr (Or.inr h1)
      · exact r9
    · intro hc; rw [hph] at hc; cases hc
    · intro hc; rw [hph] at hc; cases hc
    · show Holds' s.job _
      rw [hjob]; trivial
  · cases hs


theorem Inv.lastView_some {cfg : Cfg} {s : St} {d : Disk} (h : Inv cfg s d) :
    ∃ mf v, curManifest d = some mf ∧ lastView cfg d = some v ∧ viewAt cfg mf mf.unsynced.length = some v := by
  obtain ⟨mf, v0, hparts⟩ := h.disk.parts
  obtain ⟨v, hv, _, _⟩ := hparts.views mf.unsynced.length (Nat.le_refl _)
  exact ⟨mf, v, hparts.cur, by rw [lastView_eq hparts.cur]; exact hv, hv⟩

theorem inv_flushStart {cfg : Cfg} {s : St} {d : Disk} (h : Inv cfg s d) {s' : St}
    (hs : flushStart s = some s') : Inv cfg s' d := by
  unfold flushStart at hs
  split at hs
  · rename_i hg
    obtain ⟨hph, hjob⟩ := hg
    have hrun := h.run hph
    have hb := h.bounds (by rw [hph]; decide)
    have hnc : NoCommitYet s := by unfold NoCommitYet; rw [hjob]; trivial
    have hsett := hrun.nojob hjob
    obtain ⟨mf, vl, hcur, hlv, hvl⟩ := h.lastView_some
    split at hs
    · rename_i fz jf hfz hjf
      rcases frozenOK_iff.1 hrun.frozen with ⟨h1, _⟩ | ⟨fz', jf', h1, h2, f1, f2, f3, f4, f5, f6⟩
      · rw [hfz] at h1; cases h1
      rw [hfz] at h1; rw [hjf] at h2; cases h1; cases h2
      have hmfd : s.manifestFd = d.current := by
        have := hrun.mfd.1
        unfold MfdOK at this
        rw [hjob] at this
        exact this
      split at hs
      · -- empty frozen buffer: only `dropFrozenMem`
        rename_i hemp
        have hfz0 : fz = [] := by simpa using hemp
        simp only [Option.some.injEq] at hs
        subst hs
        constructor
        · exact h.disk
        · exact h.mm
        · intro _; exact hb.of_same rfl (Nat.le_refl _) (Nat.le_refl _) (fun _ => ⟨hph, Nat.le_refl _⟩)
        · intro _
          obtain ⟨r1, r2, r3, r4, r5, r6, r7, r8, r9⟩ := hrun
          refine ⟨r1, ⟨?_, r2.2⟩, r3, r4, r5, r6, ?_, r8, fun hc => by cases hc⟩
          · show MfdOK _ d; unfold MfdOK; exact hmfd
          · apply frozenOK_iff.2
            refine Or.inr ⟨fz, jf, hfz, hjf, f1, f2, f3, f4, f5, ?_⟩
            intro hn
            exact absurd hn (by unfold NoCommitYet; simp [Holds', JPc.beforeCommit])
        · intro hc; rw [hph] at hc; cases hc
        · intro hc; rw [hph] at hc; cases hc
        · show JobOK cfg _ d _
          refine ⟨⟨Nat.zero_le _, Or.inl rfl⟩, ?_, ?_,
            ⟨fun o ho => absurd ho List.not_mem_nil, fun hc => absurd hc (by simp [JPc.beforeCommit])⟩, trivial,
            fun i o hi => absurd hi (by simp), trivial, trivial, ?_, fun _ => rfl⟩
          · show JobKindOK _ _
            simp [JobKindOK, hph, hfz, hjf, hfz0]
          · show JobManifestOK cfg _ d _
            unfold JobManifestOK
            exact hsett
          · rw [hlv]
            simp only [Holds]
            unfold RemovalsOK
            refine ⟨fun n hn => ?_, fun t ht => by cases ht⟩
            simp only [List.mem_singleton] at hn
            subst hn
            exact ⟨Or.inr ⟨f1, fun p hp hpn => by rw [f5 p hp hpn, hfz0]⟩, fun x hx => by cases hx⟩
      · -- a table for the frozen buffer
        rename_i hne
        have hfzne : fz ≠ [] := by simpa using hne
        simp only [Option.some.injEq] at hs
        subst hs
        constructor
        · exact h.disk
        · exact h.mm
        · intro _; exact hb.of_same rfl (Nat.le_refl _) (Nat.le_succ _) (fun _ => ⟨hph, Nat.le_refl _⟩)
        · intro _
          obtain ⟨r1, r2, r3, r4, r5, r6, r7, r8, r9⟩ := hrun
          refine ⟨r1, ⟨?_, r2.2⟩, r3, r4, ⟨fun p hp => Nat.lt_succ_of_lt (r5.1 p hp),
            r5.2.imp (fun m hm => Nat.lt_succ_of_lt hm)⟩, r6, ?_, r8, fun hc => by cases hc⟩
          · show MfdOK _ d; unfold MfdOK; exact hmfd
          · apply frozenOK_iff.2
            exact Or.inr ⟨fz, jf, hfz, hjf, f1, f2, f3, f4, f5, fun _ => f6 hnc⟩
        · intro hc; rw [hph] at hc; cases hc
        · intro hc; rw [hph] at hc; cases hc
        · show JobOK cfg _ d _
          refine ⟨⟨Nat.le_refl _, Or.inl rfl⟩, ?_, ?_, ⟨?_, ?_⟩, ?_, ?_, ?_, trivial, ?_, fun hc => by cases hc⟩
          · show JobKindOK _ _
            simp [JobKindOK, hph, hfz, hjf, hfzne]
          · show JobManifestOK cfg _ d _
            unfold JobManifestOK
            exact hsett
          · intro o ho
            simp only [List.mem_singleton] at ho
            subst ho
            exact Nat.lt_succ_self _
          · intro _
            apply holds_of_some hcur
            intro k hk
            obtain ⟨mf', v0, hparts⟩ := h.disk.parts
            have e : mf' = mf := by have := hparts.cur; rw [hcur] at this; exact (Option.some.inj this).symm
            subst e
            obtain ⟨v, hv, _, _⟩ := hparts.views k hk
            apply holds_of_some hv
            refine ⟨fun o ho => ?_, fun n hn => by cases hn⟩
            simp only [List.mem_singleton] at ho
            subst ho
            exact (hb.all mf' hcur k hk v hv).2.1
          · exact ⟨rfl, rfl, rfl, rfl, rfl, rfl⟩
          · intro i o hi
            show OutOK d (.tCreate 0) i o
            unfold OutOK
            intro hlt; exact absurd hlt (Nat.not_lt_zero _)
          · show PcIdxOK _
            unfold PcIdxOK
            exact Nat.lt_succ_self _
          · rw [hlv]; trivial
    · cases hs
  · cases hs

end GoLevel.Dur
