import GoLevel.Proofs.RefLoopHist
/-! The reference loop keeps its invariant, never panics, and only removes tables that no referenced version
needs (C07). -/
namespace GoLevel.RefLoop

set_option linter.unusedSimpArgs false

/-- Applying the exact delta of version `b` to counters whose base is version `b`: the base moves to `b+1`,
and only tables that left the version and that nothing else references are removed. -/
theorem apply_base {G : Env} (wf : G.WF) {b : Nat} (hb : b < G.nd) {m : List Nat} {extra : Nat → Nat}
    (hc : ∀ f, m.count f = (if f ∈ G.F b then 1 else 0) + extra f) :
    ∃ m' rm, applyDelta m (G.D b) = some (m', rm) ∧
      (∀ f, m'.count f = (if f ∈ G.F (b + 1) then 1 else 0) + extra f) ∧
      ∀ r ∈ rm, r ∈ G.F b ∧ r ∉ G.F (b + 1) ∧ extra r = 0 := by
  obtain ⟨⟨hna, hnd⟩, hadd, hdel⟩ := wf.delta b hb
  obtain ⟨m', h1, h2⟩ := applyDelta_spec m (G.D b) hnd (by
    intro t ht
    left
    have := (hdel t).mp ht
    have hc' := hc t
    simp only [this.1, if_true] at hc'
    exact List.count_pos_iff.mp (by omega))
  refine ⟨m', _, h1, ?_, ?_⟩
  · intro f
    rw [h2 f, hc f, count_nodup hna]
    have ha := hadd f
    have hd := hdel f
    by_cases hfb : f ∈ G.F b <;> by_cases hfb1 : f ∈ G.F (b + 1) <;>
      simp only [hfb, hfb1, if_true, if_false, true_and, false_and, and_true, and_false, not_true, not_false_eq_true,
        iff_true, iff_false] at ha hd ⊢ <;> simp only [ha, hd, if_true, if_false] <;> omega
  · intro r hr
    obtain ⟨hrd, hcount⟩ := List.mem_filter.mp hr
    have hrb := (hdel r).mp hrd
    have hra : r ∉ (G.D b).added := fun h => hrb.2 ((hadd r).mp h).1
    have hc' := hc r
    simp only [hrb.1, if_true] at hc'
    simp only [List.count_eq_zero.mpr hra, decide_eq_true_eq] at hcount
    exact ⟨hrb.1, hrb.2, by omega⟩

/-- Dropping the full references of a converted version `k0`. -/
theorem release_refs {fs : List Nat} (hnd : fs.Nodup) {m : List Nat} {base extra : Nat → Nat}
    (hc : ∀ f, m.count f = base f + extra f + (if f ∈ fs then 1 else 0)) :
    ∃ m' rm, decrAll m fs = some (m', rm) ∧ (∀ f, m'.count f = base f + extra f) ∧
      ∀ r ∈ rm, r ∈ fs ∧ base r = 0 ∧ extra r = 0 := by
  obtain ⟨m', h1, h2⟩ := decrAll_spec m fs hnd (by
    intro t ht
    have := hc t
    simp only [ht, if_true] at this
    exact List.count_pos_iff.mp (by omega))
  refine ⟨m', _, h1, ?_, ?_⟩
  · intro f; rw [h2 f, hc f]; split <;> omega
  · intro r hr
    obtain ⟨hrf, hcount⟩ := List.mem_filter.mp hr
    have := hc r
    simp only [hrf, if_true, decide_eq_true_eq] at this hcount
    exact ⟨hrf, by omega, by omega⟩

/-- What `apply_base` removes: exactly the tables whose counter drops from positive to zero, once each. -/
theorem apply_base_rm {G : Env} (wf : G.WF) {b : Nat} (hb : b < G.nd) {m : List Nat} {extra : Nat → Nat}
    (hc : ∀ f, m.count f = (if f ∈ G.F b then 1 else 0) + extra f) {m' rm : List Nat}
    (h : applyDelta m (G.D b) = some (m', rm)) :
    rm.Nodup ∧ ∀ f, f ∈ rm ↔ 1 ≤ m.count f ∧ m'.count f = 0 := by
  obtain ⟨⟨hna, hnd⟩, hadd, hdel⟩ := wf.delta b hb
  have hpos : ∀ t ∈ (G.D b).deleted, 1 ≤ m.count t := by
    intro t ht
    have := (hdel t).mp ht
    have hc' := hc t
    simp only [this.1, if_true] at hc'
    omega
  obtain ⟨m1, h1, h2⟩ := applyDelta_spec m (G.D b) hnd (fun t ht => Or.inl (List.count_pos_iff.mp (hpos t ht)))
  rw [h] at h1
  simp only [Option.some.injEq, Prod.mk.injEq] at h1
  obtain ⟨rfl, rfl⟩ := h1
  refine ⟨hnd.filter _, fun f => ?_⟩
  simp only [List.mem_filter, decide_eq_true_eq]
  rw [h2 f]
  constructor
  · rintro ⟨hd, hcount⟩
    have := hpos f hd
    simp only [hd, if_true]
    omega
  · rintro ⟨h3, h4⟩
    by_cases hd : f ∈ (G.D b).deleted
    · simp only [hd, if_true] at h4
      exact ⟨hd, by omega⟩
    · simp only [hd, if_false] at h4
      omega

theorem release_refs_rm {fs : List Nat} (hnd : fs.Nodup) {m : List Nat} (hpos : ∀ t ∈ fs, t ∈ m)
    {m' rm : List Nat} (h : decrAll m fs = some (m', rm)) :
    rm.Nodup ∧ ∀ f, f ∈ rm ↔ 1 ≤ m.count f ∧ m'.count f = 0 := by
  obtain ⟨m1, h1, h2⟩ := decrAll_spec m fs hnd hpos
  rw [h] at h1
  simp only [Option.some.injEq, Prod.mk.injEq] at h1
  obtain ⟨rfl, rfl⟩ := h1
  refine ⟨hnd.filter _, fun f => ?_⟩
  simp only [List.mem_filter, decide_eq_true_eq]
  rw [h2 f]
  constructor
  · rintro ⟨hd, hcount⟩
    simp only [hd, if_true]; omega
  · rintro ⟨h3, h4⟩
    by_cases hd : f ∈ fs
    · simp only [hd, if_true] at h4
      exact ⟨hd, by omega⟩
    · simp only [hd, if_false] at h4
      omega

/-- Nothing that a referenced-and-unreleased version needs is in `rm`. -/
def Safe (G : Env) (rm : List Nat) : Prop := ∀ r ∈ rm, ∀ k, k < G.n → k ∉ G.rel → r ∉ G.F k

theorem safe_nil (G : Env) : Safe G [] := fun r hr => by cases hr

theorem safe_append {G : Env} {a b : List Nat} (ha : Safe G a) (hb : Safe G b) : Safe G (a ++ b) := by
  intro r hr
  rcases List.mem_append.mp hr with h | h
  · exact ha r h
  · exact hb r h

/-- The safety argument: a table that left at `b → b+1`, that no converted version holds, is in no live version
as soon as every version up to `b` is either converted or released. -/
theorem safe_of_left {G : Env} (wf : G.WF) {referenced : List Nat} {next b : Nat} {rm : List Nat}
    (hrfd : ∀ k, k ∈ referenced ↔ k < next ∧ k ∉ G.rel) (hbn : b < next)
    (hrm : ∀ r ∈ rm, r ∈ G.F b ∧ r ∉ G.F (b + 1) ∧
      (referenced.filter (fun k => decide (r ∈ G.F k))).length = 0) : Safe G rm := by
  intro r hr k _ hrel hrk
  obtain ⟨h1, h2, h3⟩ := hrm r hr
  by_cases hk : k < next
  · have hmem : k ∈ referenced := (hrfd k).mpr ⟨hk, hrel⟩
    have : k ∈ referenced.filter (fun k => decide (r ∈ G.F k)) := List.mem_filter.mpr ⟨hmem, by simpa using hrk⟩
    have := List.length_pos_of_mem this
    omega
  · by_cases hk1 : k = b + 1
    · subst hk1; exact h2 hrk
    · exact wf.mono r b (b + 1) k (by omega) (by omega) h1 h2 hrk


theorem filter_length_remove {l : List Nat} (hnd : l.Nodup) {k : Nat} (hk : k ∈ l) (P : Nat → Bool) :
    (l.filter P).length = ((l.filter (· != k)).filter P).length + (if P k = true then 1 else 0) := by
  induction l with
  | nil => cases hk
  | cons a l ih =>
    have hnd' := List.nodup_cons.mp hnd
    by_cases hak : a = k
    · subst hak
      have hnot : l.filter (· != a) = l := by
        apply List.filter_eq_self.mpr
        intro x hx
        have : x ≠ a := fun h => hnd'.1 (h ▸ hx)
        simp [this]
      simp only [List.filter_cons, bne_self_eq_false, Bool.false_eq_true, if_false, hnot]
      by_cases hp : P a = true <;> simp [hp]
    · have hk' : k ∈ l := by
        rcases List.mem_cons.mp hk with h | h
        · exact absurd h.symm hak
        · exact h
      have h1 : (a != k) = true := by simp [hak]
      simp only [List.filter_cons, h1, if_true]
      by_cases hp : P a = true
      · simp only [hp, if_true, List.length_cons]; rw [ih hnd'.2 hk']; omega
      · simp only [hp, if_false]; exact ih hnd'.2 hk'

/-- The `select` case of a message keeps the invariant (for the extended history), does not panic, removes
only what is safe to remove, and keeps the removal history exact. -/
theorem handle_inv {S : State} {G G' : Env} {m : Msg} {R : List Nat} (hI : Inv S G) (hH : Hist S G R)
    (hs : EnvStep G m G') :
    ∃ S1 rm, handle S m = some (S1, rm) ∧ Inv S1 G' ∧ Safe G' rm ∧ Hist S1 G' (R ++ rm) := by
  have wf' := wf_step hI.wf hs
  cases hs with
  | expire v =>
    have hI' : Inv { S with old := v :: S.old } G :=
      ⟨hI.wf, hI.ab, hI.nx, hI.last, hI.ref, hI.rld, hI.dl, hI.rfd, hI.cnt⟩
    refine ⟨_, [], rfl, hI', safe_nil _, ?_⟩
    rw [List.append_nil]
    exact hist_congr (fun f => Iff.rfl) rfl hH
  | ref fs hnd hfirst hmono =>
    have hlook : S.ref.lookup G.n = none := by
      rw [hI.ref]; simp
    have hn' : ({ G with vs := G.vs ++ [fs] } : Env).n = G.n + 1 := by simp [Env.n]
    have hF : ∀ k, k < G.n → ({ G with vs := G.vs ++ [fs] } : Env).F k = G.F k := fun k hk => F_append_lt hk
    have hI' : Inv { S with ref := (G.n, fs) :: S.ref, last := if G.n > S.last then G.n else S.last }
        { G with vs := G.vs ++ [fs] } := by
      refine ⟨wf', hI.ab, by show S.next ≤ _; rw [hn']; have := hI.nx; omega, ?_, ?_, hI.rld, hI.dl, hI.rfd, ?_⟩
      · left
        simp only [hn']
        rcases hI.last with h | ⟨h1, h2⟩
        · have : G.n > S.last := by omega
          simp [this]
        · simp [h1, h2]
      · intro k
        simp only [lookup_cons_eq, hn']
        by_cases hk : k = G.n
        · subst hk
          have hnr : G.n ∉ G.rel := fun h => by
            have := hI.wf.rel_lt _ h
            rcases hI.wf.nd_lt with h1 | h1 <;> omega
          simp [hI.nx, hnr, F_append_eq]
        · simp only [hk, if_false, hI.ref k]
          by_cases hkn : k < G.n
          · have : k < G.n + 1 := by omega
            simp only [hkn, this, hF k hkn]
          · have : ¬ k < G.n + 1 := by omega
            simp [hkn, this]
      · intro f
        rw [hI.cnt f]
        have hb : ({ G with vs := G.vs ++ [fs] } : Env).F (min G.nd S.next) = G.F (min G.nd S.next) := by
          by_cases h0 : G.n = 0
          · have hnx := hI.nx
            have : min G.nd S.next = 0 := by omega
            rw [this]
            have h1 := @F_append_eq G fs
            rw [h0] at h1
            rw [h1, hfirst h0, hI.wf.first]
          · apply hF
            rcases hI.wf.nd_lt with h1 | h1 <;> omega
        have hfil : (S.referenced.filter (fun k => decide (f ∈ ({ G with vs := G.vs ++ [fs] } : Env).F k))) =
            S.referenced.filter (fun k => decide (f ∈ G.F k)) := by
          apply List.filter_congr
          intro k hk
          have := ((hI.rfd.2 k).mp hk).1
          rw [hF k (by have := hI.nx; omega)]
        show _ = (if f ∈ ({ G with vs := G.vs ++ [fs] } : Env).F (min G.nd S.next) then 1 else 0) + _
        rw [hb, hfil]
    refine ⟨_, [], by simp [handle, hlook], hI', safe_nil _, ?_⟩
    rw [List.append_nil]
    exact hist_ref hI hfirst rfl rfl hH
  | delta d hlt hnd hex =>
    have hnr : G.nd ∉ G.rel := fun h => by have := hI.wf.rel_lt _ h; omega
    have hnd' : ({ G with ds := G.ds ++ [d] } : Env).nd = G.nd + 1 := by simp [Env.nd]
    by_cases hle : S.next ≤ G.nd
    · -- the version is still cached: store the delta
      have hlook : (S.ref.lookup G.nd).isSome = true := by
        rw [hI.ref]; simp [hle, hnr]; omega
      have hI' : Inv { S with deltas := (G.nd, d) :: S.deltas.filter (fun p => p.1 != G.nd) }
          { G with ds := G.ds ++ [d] } := by
        refine ⟨wf', hI.ab, hI.nx, hI.last, hI.ref, ?_, ?_, hI.rfd, ?_⟩
        · intro k
          rw [hI.rld k]
          by_cases hc : S.next ≤ k ∧ k ∈ G.rel
          · have hk := hI.wf.rel_lt k hc.2
            simp only [hc, and_self, if_true]
            rw [D_append_lt hk]
          · simp [hc]
        · intro k
          simp only [lookup_cons_eq, lookup_filter_ne, hnd']
          by_cases hk : k = G.nd
          · subst hk; simp [hle, hnr, D_append_eq]
          · simp only [hk, if_false, hI.dl k]
            by_cases hkn : k < G.nd
            · have : k < G.nd + 1 := by omega
              simp only [hkn, this]
              split
              · rw [D_append_lt hkn]
              · rfl
            · have : ¬ k < G.nd + 1 := by omega
              simp [hkn, this]
        · intro f
          rw [hI.cnt f]
          have : min (G.nd + 1) S.next = min G.nd S.next := by omega
          show _ = (if f ∈ G.F (min ({ G with ds := G.ds ++ [d] } : Env).nd S.next) then 1 else 0) + _
          rw [hnd', this]
          rfl
      refine ⟨_, [], by simp [handle, hlook], hI', safe_nil _, ?_⟩
      refine hist_step hI hI' hH (fun _ => rfl) (Nat.le_refl _) (Nat.le_succ _) (by rw [hnd']; omega)
        (fun _ h => h) (fun h => absurd h (Nat.lt_irrefl _)) List.nodup_nil (fun f => ?_)
      simp only [List.not_mem_nil, false_iff, not_and]
      intro h1 h2; omega
    · -- the version was converted to full references: apply the delta now
      have hlt' : G.nd < S.next := by omega
      have hlook : (S.ref.lookup G.nd).isSome = false := by
        rw [hI.ref]; simp; omega
      have hmem : G.nd ∈ S.referenced := (hI.rfd.2 _).mpr ⟨hlt', hnr⟩
      have hcnt : ∀ f, S.fileRef.count f = (if f ∈ ({ G with ds := G.ds ++ [d] } : Env).F G.nd then 1 else 0) +
          (S.referenced.filter (fun k => decide (f ∈ G.F k))).length := by
        intro f; rw [hI.cnt f]
        have : min G.nd S.next = G.nd := by omega
        rw [this]; rfl
      obtain ⟨m', rm, h1, h2, h3⟩ := apply_base wf' (b := G.nd) (by rw [hnd']; omega) hcnt
      have hrm := apply_base_rm wf' (b := G.nd) (by rw [hnd']; omega) hcnt h1
      rw [D_append_eq] at h1
      have hI' : Inv { S with fileRef := m' } { G with ds := G.ds ++ [d] } := by
        refine ⟨wf', hI.ab, hI.nx, hI.last, hI.ref, ?_, ?_, hI.rfd, ?_⟩
        · intro k
          rw [hI.rld k]
          by_cases hc : S.next ≤ k ∧ k ∈ G.rel
          · have hk := hI.wf.rel_lt k hc.2
            simp only [hc, and_self, if_true]
            rw [D_append_lt hk]
          · simp [hc]
        · intro k
          rw [hI.dl k, hnd']
          by_cases hc : S.next ≤ k ∧ k < G.nd ∧ k ∉ G.rel
          · have : k < G.nd + 1 := by omega
            simp only [hc, this, and_self, if_true, not_false_eq_true]
            rw [D_append_lt hc.2.1]
          · have : ¬ (S.next ≤ k ∧ k < G.nd + 1 ∧ k ∉ G.rel) := by
              intro h; apply hc; refine ⟨h.1, ?_, h.2.2⟩; omega
            simp [hc, this]
        · intro f
          have : min (G.nd + 1) S.next = G.nd + 1 := by omega
          show _ = (if f ∈ G.F (min ({ G with ds := G.ds ++ [d] } : Env).nd S.next) then 1 else 0) + _
          rw [hnd', this]
          exact h2 f
      refine ⟨_, rm, by simp [handle, hlook, hmem, h1], hI', safe_of_left wf' hI.rfd.2 hlt' h3, ?_⟩
      exact hist_step hI hI' hH (fun _ => rfl) (Nat.le_refl _) (Nat.le_succ _) (by rw [hnd']; omega)
        (fun _ h => h) (fun h => absurd h (Nat.lt_irrefl _)) hrm.1 hrm.2
  | rel k hk hnot =>
    by_cases hkn : k < S.next
    · -- a converted version: drop its full references
      have hmem : k ∈ S.referenced := (hI.rfd.2 _).mpr ⟨hkn, hnot⟩
      have hcnt : ∀ f, S.fileRef.count f = (if f ∈ G.F (min G.nd S.next) then 1 else 0) +
          ((S.referenced.filter (· != k)).filter (fun j => decide (f ∈ G.F j))).length +
          (if f ∈ G.F k then 1 else 0) := by
        intro f
        rw [hI.cnt f, filter_length_remove hI.rfd.1 hmem]
        simp only [decide_eq_true_eq]; omega
      obtain ⟨m', rm, h1, h2, h3⟩ := release_refs (hI.wf.nodup k) hcnt
      have hrm := release_refs_rm (hI.wf.nodup k) (by
        intro t ht
        have := hcnt t
        simp only [ht, if_true] at this
        exact List.count_pos_iff.mp (by omega)) h1
      have hI' : Inv { S with fileRef := m', referenced := S.referenced.filter (· != k) }
          { G with rel := k :: G.rel } := by
        refine ⟨wf', hI.ab, hI.nx, hI.last, ?_, ?_, ?_, ⟨hI.rfd.1.filter _, ?_⟩, h2⟩
        · intro j; rw [hI.ref j]
          by_cases hj : j = k
          · subst hj; simp; omega
          · simp [hj]
        · intro j; rw [hI.rld j]
          by_cases hj : j = k
          · subst hj
            have : ¬ S.next ≤ j := by omega
            simp [this]
          · simp [hj]
        · intro j; rw [hI.dl j]
          by_cases hj : j = k
          · subst hj
            have : ¬ S.next ≤ j := by omega
            simp [this]
          · simp [hj]
        · intro j
          simp only [List.mem_filter, hI.rfd.2 j, List.mem_cons, bne_iff_ne, ne_eq, decide_eq_true_eq]
          constructor
          · rintro ⟨⟨h1, h2⟩, h3⟩; exact ⟨h1, fun h => by rcases h with h | h; exact h3 h; exact h2 h⟩
          · rintro ⟨h1, h2⟩; exact ⟨⟨h1, fun h => h2 (Or.inr h)⟩, fun h => h2 (Or.inl h)⟩
      refine ⟨_, rm, by simp [handle, hmem, h1], hI', ?_, ?_⟩
      · -- safety
        intro r hr j hj hjrel hrj
        obtain ⟨hrk, hb0, he0⟩ := h3 r hr
        simp only [rel_mk, List.mem_cons, not_or] at hjrel
        by_cases hjn : j < S.next
        · have hm : j ∈ S.referenced.filter (· != k) :=
            List.mem_filter.mpr ⟨(hI.rfd.2 j).mpr ⟨hjn, hjrel.2⟩, by simp [hjrel.1]⟩
          have : j ∈ (S.referenced.filter (· != k)).filter (fun j => decide (r ∈ G.F j)) :=
            List.mem_filter.mpr ⟨hm, by simpa using hrj⟩
          have := List.length_pos_of_mem this
          omega
        · have hb : r ∉ G.F (min G.nd S.next) := by
            intro h; simp [h] at hb0
          by_cases hjb : j = min G.nd S.next
          · subst hjb; exact hb hrj
          · exact hI.wf.mono r k (min G.nd S.next) j (by omega) (by omega) hrk hb hrj
      · exact hist_step hI hI' hH (fun _ => rfl) (Nat.le_refl _) (Nat.le_succ _) (Nat.le_refl _)
          (fun _ h => List.mem_cons_of_mem _ h) (fun h => absurd h (Nat.lt_irrefl _)) hrm.1 hrm.2
    · -- a cached version: remember the release (with its delta)
      have hge : S.next ≤ k := by omega
      have hkn' : k < G.n := by rcases hI.wf.nd_lt with h1 | h1 <;> omega
      have hlook : (S.ref.lookup k).isSome = true := by
        rw [hI.ref]; simp [hge, hkn', hnot]
      have hnm : k ∉ S.referenced := fun h => hkn ((hI.rfd.2 k).mp h).1
      have hdl : S.deltas.lookup k = some (G.D k) := by rw [hI.dl]; simp [hge, hk, hnot]
      have hI' : Inv { S with
          released := (k, S.deltas.lookup k) :: S.released.filter (fun p => p.1 != k),
          deltas := S.deltas.filter (fun p => p.1 != k),
          ref := S.ref.filter (fun p => p.1 != k) } { G with rel := k :: G.rel } := by
        refine ⟨wf', hI.ab, hI.nx, hI.last, ?_, ?_, ?_, ⟨hI.rfd.1, ?_⟩, hI.cnt⟩
        · intro j
          simp only [lookup_filter_ne, hI.ref j, List.mem_cons]
          by_cases hj : j = k
          · subst hj; simp
          · simp [hj]
        · intro j
          simp only [lookup_cons_eq, lookup_filter_ne, hI.rld j, List.mem_cons, hdl]
          by_cases hj : j = k
          · subst hj; simp [hge]
          · simp [hj]
        · intro j
          simp only [lookup_filter_ne, hI.dl j, List.mem_cons]
          by_cases hj : j = k
          · subst hj; simp
          · simp [hj]
        · intro j
          rw [hI.rfd.2 j]
          simp only [rel_mk, List.mem_cons, not_or]
          constructor
          · rintro ⟨h1, h2⟩; exact ⟨h1, by omega, h2⟩
          · rintro ⟨h1, _, h2⟩; exact ⟨h1, h2⟩
      refine ⟨_, [], by simp [handle, hnm, hlook], hI', safe_nil _, ?_⟩
      refine hist_step hI hI' hH (fun _ => rfl) (Nat.le_refl _) (Nat.le_succ _) (Nat.le_refl _)
        (fun _ h => List.mem_cons_of_mem _ h) (fun h => absurd h (Nat.lt_irrefl _)) List.nodup_nil (fun f => ?_)
      simp only [List.not_mem_nil, false_iff, not_and]
      intro h1 h2; omega

/-- The conversion loop of `processTasks`. -/
theorem convert_inv {G : Env} (fuel : Nat) {S : State} {R : List Nat} (hI : Inv S G) (hH : Hist S G R) :
    ∃ S' rm, convertLoop fuel S = some (S', rm) ∧ Inv S' G ∧ Safe G rm ∧ Hist S' G (R ++ rm) := by
  induction fuel generalizing S R with
  | zero => exact ⟨S, [], rfl, hI, safe_nil _, by rw [List.append_nil]; exact hH⟩
  | succ fuel ih =>
    have hab : S.next ∉ S.abandoned := by rw [hI.ab]; simp
    simp only [convertLoop, hab, if_false]
    by_cases hrel : S.next ∈ G.rel
    · -- released already: left to the second loop
      have : (S.released.lookup S.next).isSome = true := by rw [hI.rld]; simp [hrel]
      simp only [this, if_true]
      exact ⟨S, [], rfl, hI, safe_nil _, by rw [List.append_nil]; exact hH⟩
    · have hnone : (S.released.lookup S.next).isSome = false := by rw [hI.rld]; simp [hrel]
      simp only [hnone, Bool.false_eq_true, if_false]
      by_cases hn : S.next < G.n
      · have hlook : S.ref.lookup S.next = some (G.F S.next) := by rw [hI.ref]; simp [hn, hrel]
        simp only [hlook]
        by_cases hkeep : S.last - S.next < Gen.maxCachedNumber ∧ S.next ∉ S.old
        · simp only [hkeep, and_self, if_true, not_false_eq_true]
          exact ⟨S, [], rfl, hI, safe_nil _, by rw [List.append_nil]; exact hH⟩
        · simp only [hkeep, if_false]
          -- convert version `next` into full references
          by_cases hd : S.next < G.nd
          · have hdl : S.deltas.lookup S.next = some (G.D S.next) := by rw [hI.dl]; simp [hd, hrel]
            have hcnt : ∀ f, (incrAll S.fileRef (G.F S.next)).count f =
                (if f ∈ G.F S.next then 1 else 0) +
                ((S.next :: S.referenced).filter (fun k => decide (f ∈ G.F k))).length := by
              intro f
              rw [count_incrAll, hI.cnt f, count_nodup (hI.wf.nodup _)]
              have : min G.nd S.next = S.next := by omega
              rw [this]
              simp only [List.filter_cons, decide_eq_true_eq]
              split <;> (try simp) <;> omega
            obtain ⟨m', rm, h1, h2, h3⟩ := apply_base hI.wf hd hcnt
            have hrm := apply_base_rm hI.wf hd hcnt h1
            simp only [hdl, h1]
            have hI' : Inv { S with
                fileRef := m', referenced := S.next :: S.referenced,
                ref := S.ref.filter (fun p => p.1 != S.next),
                deltas := S.deltas.filter (fun p => p.1 != S.next), next := S.next + 1 } G := by
              refine ⟨hI.wf, hI.ab, by show S.next + 1 ≤ G.n; omega, hI.last, ?_, ?_, ?_, ⟨?_, ?_⟩, ?_⟩
              · intro k
                simp only [lookup_filter_ne, hI.ref k]
                by_cases hk : k = S.next
                · subst hk; simp <;> intros <;> omega
                · have : (S.next + 1 ≤ k) ↔ (S.next ≤ k) := by omega
                  simp [hk, this]
              · intro k
                simp only [hI.rld k]
                by_cases hk : k = S.next
                · subst hk; simp [hrel] <;> intros <;> omega
                · have : (S.next + 1 ≤ k) ↔ (S.next ≤ k) := by omega
                  simp [this]
              · intro k
                simp only [lookup_filter_ne, hI.dl k]
                by_cases hk : k = S.next
                · subst hk; simp <;> intros <;> omega
                · have : (S.next + 1 ≤ k) ↔ (S.next ≤ k) := by omega
                  simp [hk, this]
              · refine List.nodup_cons.mpr ⟨fun h => ?_, hI.rfd.1⟩
                have := ((hI.rfd.2 _).mp h).1; omega
              · intro k
                simp only [List.mem_cons, hI.rfd.2 k]
                constructor
                · rintro (rfl | ⟨h1, h2⟩)
                  · exact ⟨by omega, hrel⟩
                  · exact ⟨by omega, h2⟩
                · rintro ⟨h1, h2⟩
                  by_cases hk : k = S.next
                  · exact Or.inl hk
                  · exact Or.inr ⟨by omega, h2⟩
              · intro f
                have : min G.nd (S.next + 1) = S.next + 1 := by omega
                show m'.count f = (if f ∈ G.F (min G.nd (S.next + 1)) then 1 else 0) + _
                rw [this]; exact h2 f
            have hrm' : ∀ f, f ∈ rm ↔ 1 ≤ S.fileRef.count f ∧ m'.count f = 0 := by
              -- the counters only grew by the full references before the delta was applied
              intro f
              rw [hrm.2 f, count_incrAll]
              constructor
              · rintro ⟨h5, h0⟩
                exfalso
                have hr := h3 f ((hrm.2 f).mpr ⟨by rw [count_incrAll]; exact h5, h0⟩)
                simp only [List.filter_cons, decide_eq_true_eq, hr.1, if_true, List.length_cons] at hr
                omega
              · rintro ⟨h5, h0⟩; exact ⟨by omega, h0⟩
            have hH' := hist_step hI hI' hH (fun _ => rfl) (Nat.le_succ _) (Nat.le_refl _) (Nat.le_refl _)
                (fun _ h => h) (fun _ => ⟨rfl, rfl⟩) hrm.1 hrm'
            obtain ⟨S', rm', h4, h5, h6, h7⟩ := ih hI' hH'
            simp only [h4]
            refine ⟨S', rm ++ rm', rfl, h5, safe_append ?_ h6, by rw [← List.append_assoc]; exact h7⟩
            exact safe_of_left hI.wf hI'.rfd.2 (Nat.lt_succ_self _) h3
          · have hdl : S.deltas.lookup S.next = none := by rw [hI.dl]; simp [hd]
            simp only [hdl]
            have hI' : Inv { S with
                fileRef := incrAll S.fileRef (G.F S.next),
                referenced := S.next :: S.referenced, ref := S.ref.filter (fun p => p.1 != S.next),
                deltas := S.deltas.filter (fun p => p.1 != S.next), next := S.next + 1 } G := by
              refine ⟨hI.wf, hI.ab, by show S.next + 1 ≤ G.n; omega, hI.last, ?_, ?_, ?_, ⟨?_, ?_⟩, ?_⟩
              · intro k
                simp only [lookup_filter_ne, hI.ref k]
                by_cases hk : k = S.next
                · subst hk; simp <;> intros <;> omega
                · have : (S.next + 1 ≤ k) ↔ (S.next ≤ k) := by omega
                  simp [hk, this]
              · intro k
                simp only [hI.rld k]
                by_cases hk : k = S.next
                · subst hk; simp [hrel] <;> intros <;> omega
                · have : (S.next + 1 ≤ k) ↔ (S.next ≤ k) := by omega
                  simp [this]
              · intro k
                simp only [lookup_filter_ne, hI.dl k]
                by_cases hk : k = S.next
                · subst hk; simp <;> intros <;> omega
                · have : (S.next + 1 ≤ k) ↔ (S.next ≤ k) := by omega
                  simp [hk, this]
              · refine List.nodup_cons.mpr ⟨fun h => ?_, hI.rfd.1⟩
                have := ((hI.rfd.2 _).mp h).1; omega
              · intro k
                simp only [List.mem_cons, hI.rfd.2 k]
                constructor
                · rintro (rfl | ⟨h1, h2⟩)
                  · exact ⟨by omega, hrel⟩
                  · exact ⟨by omega, h2⟩
                · rintro ⟨h1, h2⟩
                  by_cases hk : k = S.next
                  · exact Or.inl hk
                  · exact Or.inr ⟨by omega, h2⟩
              · intro f
                show (incrAll S.fileRef (G.F S.next)).count f =
                  (if f ∈ G.F (min G.nd (S.next + 1)) then 1 else 0) +
                    ((S.next :: S.referenced).filter (fun k => decide (f ∈ G.F k))).length
                rw [count_incrAll, hI.cnt f, count_nodup (hI.wf.nodup _)]
                have h1 : min G.nd (S.next + 1) = G.nd := by omega
                have h2 : min G.nd S.next = G.nd := by omega
                rw [h1, h2]
                simp only [List.filter_cons, decide_eq_true_eq]
                by_cases hf : f ∈ G.F S.next
                · simp only [hf, if_true, List.length_cons]; omega
                · simp only [hf, if_false]; omega
            have hrm' : ∀ f, f ∈ ([] : List Nat) ↔
                1 ≤ S.fileRef.count f ∧ (incrAll S.fileRef (G.F S.next)).count f = 0 := by
              intro f
              simp only [List.not_mem_nil, false_iff, not_and, count_incrAll]
              intro h1 h0; omega
            have hH' := hist_step hI hI' hH (fun _ => rfl) (Nat.le_succ _) (Nat.le_refl _) (Nat.le_refl _)
                (fun _ h => h) (fun _ => ⟨rfl, rfl⟩) List.nodup_nil hrm'
            rw [List.append_nil] at hH'
            obtain ⟨S', rm', h4, h5, h6, h7⟩ := ih hI' hH'
            simp only [h4]
            exact ⟨S', [] ++ rm', rfl, h5, safe_append (safe_nil _) h6, by simpa using h7⟩
      · have hlook : S.ref.lookup S.next = none := by rw [hI.ref]; simp [hn]
        simp only [hlook]
        exact ⟨S, [], rfl, hI, safe_nil _, by rw [List.append_nil]; exact hH⟩

/-- The release loop of `processTasks`. -/
theorem release_inv {G : Env} (fuel : Nat) {S : State} {R : List Nat} (hI : Inv S G) (hH : Hist S G R) :
    ∃ S' rm, releaseLoop fuel S = some (S', rm) ∧ Inv S' G ∧ Safe G rm ∧ Hist S' G (R ++ rm) := by
  induction fuel generalizing S R with
  | zero => exact ⟨S, [], rfl, hI, safe_nil _, by rw [List.append_nil]; exact hH⟩
  | succ fuel ih =>
    have hab : S.next ∉ S.abandoned := by rw [hI.ab]; simp
    simp only [releaseLoop, hab, if_false]
    by_cases hrel : S.next ∈ G.rel
    · have hd : S.next < G.nd := hI.wf.rel_lt _ hrel
      have hlook : S.released.lookup S.next = some (some (G.D S.next)) := by rw [hI.rld]; simp [hrel]
      simp only [hlook]
      have hcnt : ∀ f, S.fileRef.count f = (if f ∈ G.F S.next then 1 else 0) +
          (S.referenced.filter (fun k => decide (f ∈ G.F k))).length := by
        intro f; rw [hI.cnt f]
        have : min G.nd S.next = S.next := by omega
        rw [this]
      obtain ⟨m', rm, h1, h2, h3⟩ := apply_base hI.wf hd hcnt
      have hrm := apply_base_rm hI.wf hd hcnt h1
      simp only [h1]
      have hn : S.next < G.n := by rcases hI.wf.nd_lt with h | h <;> omega
      have hI' : Inv { S with
          fileRef := m', released := S.released.filter (fun p => p.1 != S.next),
          next := S.next + 1 } G := by
        refine ⟨hI.wf, hI.ab, by show S.next + 1 ≤ G.n; omega, hI.last, ?_, ?_, ?_, ⟨hI.rfd.1, ?_⟩, ?_⟩
        · intro k
          simp only [hI.ref k]
          by_cases hk : k = S.next
          · subst hk; simp [hrel] <;> intros <;> omega
          · have : (S.next + 1 ≤ k) ↔ (S.next ≤ k) := by omega
            simp [this]
        · intro k
          simp only [lookup_filter_ne, hI.rld k]
          by_cases hk : k = S.next
          · subst hk; simp <;> intros <;> omega
          · have : (S.next + 1 ≤ k) ↔ (S.next ≤ k) := by omega
            simp [hk, this]
        · intro k
          simp only [hI.dl k]
          by_cases hk : k = S.next
          · subst hk; simp [hrel] <;> intros <;> omega
          · have : (S.next + 1 ≤ k) ↔ (S.next ≤ k) := by omega
            simp [this]
        · intro k
          simp only [hI.rfd.2 k]
          constructor
          · rintro ⟨h1, h2⟩; exact ⟨by omega, h2⟩
          · rintro ⟨h1, h2⟩
            refine ⟨?_, h2⟩
            by_cases hk : k = S.next
            · subst hk; exact absurd hrel h2
            · omega
        · intro f
          have : min G.nd (S.next + 1) = S.next + 1 := by omega
          show m'.count f = (if f ∈ G.F (min G.nd (S.next + 1)) then 1 else 0) + _
          rw [this]; exact h2 f
      have hH' := hist_step hI hI' hH (fun _ => rfl) (Nat.le_succ _) (Nat.le_refl _) (Nat.le_refl _)
          (fun _ h => h) (fun _ => ⟨rfl, rfl⟩) hrm.1 hrm.2
      obtain ⟨S', rm', h4, h5, h6, h7⟩ := ih hI' hH'
      simp only [h4]
      refine ⟨S', rm ++ rm', rfl, h5, safe_append ?_ h6, by rw [← List.append_assoc]; exact h7⟩
      exact safe_of_left hI.wf hI'.rfd.2 (Nat.lt_succ_self _) h3
    · have hlook : S.released.lookup S.next = none := by rw [hI.rld]; simp [hrel]
      simp only [hlook]
      exact ⟨S, [], rfl, hI, safe_nil _, by rw [List.append_nil]; exact hH⟩

theorem processTasks_inv {G : Env} {S : State} {R : List Nat} (hI : Inv S G) (hH : Hist S G R) :
    ∃ S' rm, processTasks S = some (S', rm) ∧ Inv S' G ∧ Safe G rm ∧ Hist S' G (R ++ rm) := by
  obtain ⟨S1, rm1, h1, h2, h3, h3'⟩ := convert_inv (S.abandoned.length + S.ref.length + 1) hI hH
  obtain ⟨S2, rm2, h4, h5, h6, h6'⟩ := release_inv (S1.abandoned.length + S1.released.length + 1) h2 h3'
  exact ⟨S2, rm1 ++ rm2, by simp [processTasks, h1, h4], h5, safe_append h3 h6,
    by rw [← List.append_assoc]; exact h6'⟩

/-- One message of a well-behaved environment: no panic, the invariant is kept, only safe removals, exact
removal history. -/
theorem step_inv {S : State} {G G' : Env} {m : Msg} {R : List Nat} (hI : Inv S G) (hH : Hist S G R)
    (hs : EnvStep G m G') :
    ∃ S' rm, step S m = some (S', rm) ∧ Inv S' G' ∧ Safe G' rm ∧ Hist S' G' (R ++ rm) := by
  obtain ⟨S1, rm1, h1, h2, h3, h3'⟩ := handle_inv hI hH hs
  obtain ⟨S2, rm2, h4, h5, h6, h6'⟩ := processTasks_inv h2 h3'
  exact ⟨S2, rm1 ++ rm2, by simp [step, h1, h4], h5, safe_append h3 h6,
    by rw [← List.append_assoc]; exact h6'⟩

/-! ### the loops run to completion -/

theorem length_filter_lt_of_lookup {β : Type} {l : List (Nat × β)} {k : Nat} (h : (l.lookup k).isSome = true) :
    (l.filter (fun p => p.1 != k)).length < l.length := by
  induction l with
  | nil => simp at h
  | cons p l ih =>
    obtain ⟨a, b⟩ := p
    by_cases hak : a = k
    · subst hak
      simp only [List.filter_cons, bne_self_eq_false, Bool.false_eq_true, if_false, List.length_cons]
      have := List.length_filter_le (fun p : Nat × β => p.1 != a) l
      omega
    · have h1 : (a != k) = true := by simp [hak]
      have h2 : (k == a) = false := by simp; omega
      simp only [List.lookup_cons, h2] at h
      simp only [List.filter_cons, h1, if_true, List.length_cons]
      have := ih h
      omega

/-- With enough fuel the release loop stops because the next version has not been released. -/
theorem release_settled (fuel : Nat) {S S' : State} {rm : List Nat} (hab : S.abandoned = [])
    (hf : S.released.length < fuel) (h : releaseLoop fuel S = some (S', rm)) :
    S'.released.lookup S'.next = none ∧ S'.abandoned = [] := by
  induction fuel generalizing S rm with
  | zero => omega
  | succ fuel ih =>
    have hnot : S.next ∉ S.abandoned := by rw [hab]; simp
    simp only [releaseLoop, hnot, if_false] at h
    cases hl : S.released.lookup S.next with
    | none =>
      simp only [hl, Option.some.injEq, Prod.mk.injEq] at h
      obtain ⟨rfl, _⟩ := h
      exact ⟨hl, hab⟩
    | some od =>
      simp only [hl] at h
      have hlt := length_filter_lt_of_lookup (l := S.released) (k := S.next) (by rw [hl]; rfl)
      split at h
      · cases h
      · rename_i m rm1 hr
        split at h
        · cases h
        · rename_i S2 rm2 hrec
          simp only [Option.some.injEq, Prod.mk.injEq] at h
          obtain ⟨rfl, _⟩ := h
          exact ih (S := { S with
            fileRef := m, released := S.released.filter (fun p => p.1 != S.next), next := S.next + 1 })
            hab (by show (S.released.filter _).length < fuel; omega) hrec

/-- After `processTasks` the version at `next` has not been released (everything released before it has been
processed). -/
theorem processTasks_settled {G : Env} {S S' : State} {rm R : List Nat} (hI : Inv S G) (hH : Hist S G R)
    (h : processTasks S = some (S', rm)) : S'.released.lookup S'.next = none := by
  simp only [processTasks] at h
  obtain ⟨S1, rm1, h1, h2, _⟩ := convert_inv (S.abandoned.length + S.ref.length + 1) hI hH
  rw [h1] at h
  simp only [] at h
  cases hr : releaseLoop (S1.abandoned.length + S1.released.length + 1) S1 with
  | none => rw [hr] at h; cases h
  | some r =>
    obtain ⟨S2, rm2⟩ := r
    rw [hr] at h
    simp only [Option.some.injEq, Prod.mk.injEq] at h
    obtain ⟨rfl, _⟩ := h
    exact (release_settled _ h2.ab (by omega) hr).1

/-- At quiescence — every delta arrived, every version but the current one released, every message
processed — the counters cover exactly the tables of the current version. -/
theorem quiescent_fileRef {G : Env} {S : State} (hI : Inv S G) (hs : S.released.lookup S.next = none)
    (hn : 0 < G.n) (hnd : G.nd + 1 = G.n) (hrel : ∀ k, k + 1 < G.n → k ∈ G.rel) :
    ∀ f, f ∈ S.fileRef ↔ f ∈ G.F (G.n - 1) := by
  have hnr : S.next ∉ G.rel := by
    intro h
    have := hI.rld S.next
    simp [h] at this
    rw [hs] at this; cases this
  have hge : G.n - 1 ≤ S.next := by
    rcases Nat.lt_or_ge S.next (G.n - 1) with h | h
    · exact absurd (hrel S.next (by omega)) hnr
    · exact h
  have hb : min G.nd S.next = G.n - 1 := by omega
  intro f
  rw [← List.count_pos_iff, hI.cnt f, hb]
  constructor
  · intro hpos
    by_cases hf : f ∈ G.F (G.n - 1)
    · exact hf
    · simp only [hf, if_false, Nat.zero_add] at hpos
      obtain ⟨k, hk⟩ := List.exists_mem_of_length_pos hpos
      obtain ⟨hk1, hk2⟩ := List.mem_filter.mp hk
      have hk3 := (hI.rfd.2 k).mp hk1
      have : k = G.n - 1 := by
        rcases Nat.lt_or_ge (k + 1) G.n with h | h
        · exact absurd (hrel k h) hk3.2
        · have := hI.nx; omega
      subst this
      simpa using hk2
  · intro hf; simp only [hf, if_true]; omega

end GoLevel.RefLoop
