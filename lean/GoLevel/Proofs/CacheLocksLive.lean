import GoLevel.Proofs.CacheLocksStep3
/-! The lock-level cache system (C17), part 6: `LInv` in every reachable state; NO DEADLOCK with the locks of the
code as it is (`unRefExternal` uses `unrefMu`). -/
namespace GoLevel.CacheL
open GoLevel.CacheM

set_option linter.unusedSimpArgs false

theorem linv_init (cfg : Cfg) (c n : Nat) : LInv (LSys.initCfg cfg false c n) := by
  have hget : ∀ (t : Nat) (th : LThread), (LSys.initCfg cfg false c n).tl[t]? = some th →
      th = { held := [], phase := .idle } := by
    intro t th h
    simp only [LSys.initCfg, List.getElem?_replicate] at h
    split at h
    · exact (Option.some.inj h).symm
    · cases h
  have hgetT : ∀ (t : Nat) (T : List Instr), (LSys.initCfg cfg false c n).base.threads[t]? = some T → T = [] := by
    intro t T h
    simp only [LSys.initCfg, Sys.initCfg, List.getElem?_replicate] at h
    split at h
    · exact (Option.some.inj h).symm
    · cases h
  have hcnt : ∀ l, cnt l (LSys.initCfg cfg false c n).tl = 0 := by
    intro l
    simp only [cnt, LSys.initCfg, List.map_replicate, List.count_nil]
    induction n with
    | zero => rfl
    | succ n ih => simp [List.replicate_succ, ih]
  refine ⟨by simp [LSys.initCfg, Sys.initCfg], ?_, by rw [hcnt]; rfl, by rw [hcnt]; rfl, ?_, ?_, ?_, ?_, ?_, ?_, ?_,
    ?_, rfl⟩
  · intro t th T h1 h2; rw [hget t th h1, hgetT t T h2]; rfl
  · intro t th T h1 _ hp; rw [hget t th h1] at hp; exact absurd rfl hp
  · intro t th h1 hp; rw [hget t th h1] at hp; exact absurd rfl hp
  · intro t hw; cases hw
  · intro t th h1 hp; rw [hget t th h1] at hp; cases hp
  · intro t hw; cases hw
  · intro t th h1 hp; rw [hget t th h1] at hp; cases hp
  · intro t th h1 hp; rw [hget t th h1] at hp; cases hp
  · intro t th T h1 _ hu; rw [hget t th h1] at hu; cases hu

theorem linv_step {ls ls' : LSys} {a : Act} (h : LInv ls) (hr : Reachable false ls.base)
    (huum : ls.unrefUsesMu = false) (hs : lstep ls a = some ls') : LInv ls' := by
  have hwc := wc2_reachable hr
  cases a with
  | call t c =>
    simp only [lstep] at hs
    cases hth : ls.tl[t]? with
    | none => simp [hth] at hs
    | some th =>
      simp only [hth] at hs
      by_cases hp : th.phase = .idle
      · rw [if_pos hp] at hs
        cases hb : sysStep false ls.base (.call t c) with
        | none => rw [hb] at hs; cases hs
        | some b' =>
          rw [hb] at hs
          have hls := (Option.some.inj hs).symm; subst hls
          rcases sysStep_cases hb with ⟨t', c', hact, ht', _, rfl⟩ | ⟨_, _, _, _, _, _, hact, _⟩
          · injection hact with h1 h2; subst h1; subst h2
            have hk1 := h.k1 t th [] hth ht'
            have hheld : th.held = [] := by simpa using hk1
            have hset : ls.tl.set t { th with held := th.held } = ls.tl := by
              apply List.ext_getElem?; intro j
              by_cases hj : j = t
              · subst hj; rw [get_set_self hth, hth]
              · rw [get_set_ne hj]
            have := linv_thread (t := t) (th := th) (T' := startCall c) (held' := th.held)
              (b' := { ls.base with threads := ls.base.threads.set t (startCall c) })
              (mu' := ls.mu) (un' := ls.un) h hth ht' rfl rfl rfl rfl rfl
              (Or.inl (Nat.le_refl _)) (Or.inl (Nat.le_refl _))
              (by rw [hheld]; cases c <;> simp [startCall])
              (fun hne => absurd hp hne)
              (fun hu => by rw [hheld] at hu; cases hu)
              h.k7
            simpa [hset] using this
          · cases hact
      · rw [if_neg hp] at hs; cases hs
  | step t =>
    obtain ⟨th, T, hth, hT, hc⟩ := lstepThread_cases hs
    rcases hc with h1 | ⟨_, hu, _⟩ | h3 | h4 | ⟨hp, hb⟩ | h6 | h7 | h8 | ⟨hp, i, rest, b', hTi, hcl, hfree, hb, rfl⟩
    · exact linv_lockstep h hwc hth hT (Or.inl h1)
    · rw [huum] at hu; cases hu
    · exact linv_lockstep h hwc hth hT (Or.inr (Or.inl h3))
    · exact linv_lockstep h hwc hth hT (Or.inr (Or.inr (Or.inl h4)))
    · exact linv_body h huum hth hT hp hb
    · exact linv_lockstep h hwc hth hT (Or.inr (Or.inr (Or.inr (Or.inl h6))))
    · exact linv_lockstep h hwc hth hT (Or.inr (Or.inr (Or.inr (Or.inr (Or.inl h7)))))
    · exact linv_lockstep h hwc hth hT (Or.inr (Or.inr (Or.inr (Or.inr (Or.inr h8)))))
    · subst hTi
      exact linv_base h huum hth hT hp hcl hfree hb

theorem uum_reachable {ls : LSys} (hr : LReachable ls) :
    ∃ cfg uum c n, ls.unrefUsesMu = (LSys.initCfg cfg uum c n).unrefUsesMu ∧ ls.unrefUsesMu = uum := by
  induction hr with
  | init cfg uum c n => exact ⟨cfg, uum, c, n, rfl, rfl⟩
  | step a _ hs ih =>
    obtain ⟨cfg, uum, c, n, h1, h2⟩ := ih
    exact ⟨cfg, uum, c, n, by rw [uum_step hs]; exact h1, by rw [uum_step hs]; exact h2⟩

theorem linv_reachable {ls : LSys} (hr : LReachable ls) (huum : ls.unrefUsesMu = false) : LInv ls := by
  induction hr with
  | init cfg uum c n =>
    have : uum = false := huum
    subst this; exact linv_init cfg c n
  | @step ls ls' a hr hs ih =>
    have hu : ls.unrefUsesMu = false := by rw [← uum_step hs]; exact huum
    exact linv_step (ih hu) (lreachable_base hr) hu hs

/-! ### Enabledness -/

theorem sysStep_enabled {b : Sys} {t : Nat} {i : Instr} {rest : List Instr} (hT : b.threads[t]? = some (i :: rest))
    (he : ∃ r, exec b.sh i = some r) : ∃ b', sysStep false b (.step t) = some b' := by
  obtain ⟨⟨sh', push, evs⟩, he⟩ := he
  refine ⟨{ sh := sh', threads := b.threads.set t (push ++ rest), log := b.log ++ evs }, ?_⟩
  simp only [sysStep, hT]
  have hok : stepOK false b.threads i = true := by cases i <;> simp [stepOK]
  rw [if_pos hok, he]

theorem en_idle {ls : LSys} {t : Nat} {th : LThread} {i : Instr} {rest : List Instr}
    (hth : ls.tl[t]? = some th) (hT : ls.base.threads[t]? = some (i :: rest)) (hp : th.phase = .idle)
    (hcl : isCloseLock i = false) (hen : enterOK i = true)
    (hfree : ∀ l, rlockOf ls i = some l → (ls.lock l).writer = none) :
    ∃ ls', lstepThread ls t = some ls' := by
  obtain ⟨b', hb⟩ := sysStep_enabled hT (exec_total ls.base.sh hcl hen)
  refine ⟨afterBase ls t th i b', ?_⟩
  unfold lstepThread
  simp only [hth, hT, hp]
  have hnb : ¬ blocked ls i = true := by
    unfold blocked
    cases hro : rlockOf ls i with
    | none => simp
    | some l => simp [hfree l hro]
  cases i <;> first | (simp [isCloseLock] at hcl; done) | (simp only []; rw [if_neg hnb, hb])

theorem en_body {ls : LSys} {t : Nat} {th : LThread} {f : Bool}
    (hth : ls.tl[t]? = some th) (hT : ls.base.threads[t]? = some [Instr.closeLock f])
    (hr0 : ls.base.sh.rlock = 0) : ∃ ls', closeBody ls t th = some ls' := by
  obtain ⟨b', hb⟩ := sysStep_enabled hT (by
    simp only [exec, execCloseLock, hr0, ne_eq, not_true_eq_false, if_false]
    split <;> exact ⟨_, rfl⟩)
  exact ⟨_, by unfold closeBody; rw [hb]⟩

/-- **No deadlock with the locks** (the code as it is): in every reachable state of the lock-level system in which
some call has not returned, some thread can take a step. -/
theorem lock_progress {ls : LSys} (hr : LReachable ls) (huum : ls.unrefUsesMu = false) (hnq : ¬ LQuiescent ls) :
    ∃ t ls', lstepThread ls t = some ls' := by
  have hI := linv_reachable hr huum
  have hb := lreachable_base hr
  have hwc2 := wc2_reachable hb
  have hwc := wc_reachable hb
  have hT_of : ∀ {t : Nat} {th : LThread}, ls.tl[t]? = some th → ∃ T, ls.base.threads[t]? = some T := by
    intro t th h
    have hl := (List.getElem?_eq_some_iff.mp h).1
    rw [hI.len] at hl
    exact ⟨_, List.getElem?_eq_getElem hl⟩
  -- a thread that holds a read lock can move, provided `unrefMu` has no writer or it holds `unrefMu` itself
  have holder : ∀ (l : LockId) (t : Nat) (th : LThread), ls.tl[t]? = some th → l ∈ th.held →
      (ls.un.writer = none ∨ LockId.un ∈ th.held) → ∃ ls', lstepThread ls t = some ls' := by
    intro l t th hth hl hun
    obtain ⟨T, hT⟩ := hT_of hth
    have hp : th.phase = .idle := by
      cases hph : th.phase <;> first | rfl | (
        have := (hI.k3 t th T hth hT (by rw [hph]; simp)).1
        rw [this] at hl; cases hl)
    have hk1 := hI.k1 t th T hth hT
    have hlen : 0 < th.held.length := List.length_pos_of_mem hl
    cases T with
    | nil => simp at hk1; simp [hk1] at hlen
    | cons i rest =>
      have hTm : (i :: rest) ∈ ls.base.threads := List.mem_of_getElem? hT
      have hplain : ∀ j ∈ i :: rest, isCloseLock j = false ∧ isEnter j = false := by
        rcases hwc2 _ hTm with ⟨f, hf⟩ | ⟨c, hc⟩ | hpl
        · rw [hf] at hk1; simp at hk1; simp [hk1] at hlen
        · rw [hc] at hk1; simp at hk1; simp [hk1] at hlen
        · exact hpl
      have hi := hplain i List.mem_cons_self
      refine en_idle hth hT hp hi.1 (by cases i <;> simp_all [isEnter, enterOK]) ?_
      intro l' hl'
      rcases rlockOf_cases (i := i) huum with ⟨h1, _⟩ | ⟨_, h1, _⟩ | ⟨h1, hex, _⟩
      · rw [h1] at hl'; cases hl'
      · rw [hi.2] at h1; cases h1
      · rw [h1] at hl'; injection hl' with hl'; subst hl'
        rcases hun with hun | hun
        · exact hun
        · -- it holds `unrefMu`: its next instruction is not a lock
          exfalso
          obtain ⟨_, hsh⟩ := hI.k6 t th _ hth hT hun
          rcases unShape_head hsh with h2 | ⟨h2, _⟩
          · cases i <;> simp_all [isRunlock, isExtz]
          · rcases h2 with ⟨k, rfl⟩ | ⟨id, f, rfl⟩ <;> simp [isExtz] at hex
  -- A: somebody is releasing the write locks
  by_cases hA : ∃ (t : Nat) (th : LThread), ls.tl[t]? = some th ∧ (th.phase = .relUn ∨ th.phase = .relMu)
  · obtain ⟨t, th, hth, hp⟩ := hA
    obtain ⟨T, hT⟩ := hT_of hth
    refine ⟨t, ?_⟩
    unfold lstepThread
    rcases hp with hp | hp <;> simp only [hth, hT, hp] <;> exact ⟨_, rfl⟩
  -- B: somebody holds both locks
  by_cases hB : ∃ (t : Nat) (th : LThread), ls.tl[t]? = some th ∧ th.phase = .hasBoth
  · obtain ⟨t, th, hth, hp⟩ := hB
    obtain ⟨T, hT⟩ := hT_of hth
    obtain ⟨f, hTf⟩ := (hI.k3 t th T hth hT (by rw [hp]; simp)).2 (by rw [hp]; rfl)
    have hr0 : ls.base.sh.rlock = 0 := by
      rw [hI.k7, hI.k5e t th hth (by rw [hp]; rfl), hI.k5f t th hth (by rw [hp]; rfl)]
    obtain ⟨ls', hb'⟩ := en_body (th := th) hth (hTf ▸ hT) hr0
    refine ⟨t, ls', ?_⟩
    unfold lstepThread
    simp only [hth, hT, hp]; exact hb'
  -- C: somebody waits for the readers of `unrefMu`
  by_cases hC : ∃ (t : Nat) (th : LThread), ls.tl[t]? = some th ∧ th.phase = .annUn
  · obtain ⟨t, th, hth, hp⟩ := hC
    obtain ⟨T, hT⟩ := hT_of hth
    by_cases h0 : ls.un.readers = 0
    · refine ⟨t, ?_⟩
      unfold lstepThread
      simp only [hth, hT, hp, h0, if_true]; exact ⟨_, rfl⟩
    · obtain ⟨t2, th2, hth2, hl2⟩ := cnt_pos (l := .un) (tl := ls.tl) (by rw [← hI.k2u]; omega)
      obtain ⟨ls', h'⟩ := holder .un t2 th2 hth2 hl2 (Or.inr hl2)
      exact ⟨t2, ls', h'⟩
  have hunw : ls.un.writer = none := by
    cases hw : ls.un.writer with
    | none => rfl
    | some t' =>
      exfalso
      obtain ⟨th', h1, h2⟩ := hI.k5d t' hw
      cases hph : th'.phase <;> rw [hph] at h2 <;> first
        | (cases h2; done)
        | exact hC ⟨t', th', h1, hph⟩
        | exact hB ⟨t', th', h1, hph⟩
        | exact hA ⟨t', th', h1, Or.inl hph⟩
  -- D: somebody holds `mu` and is about to announce itself on `unrefMu`
  by_cases hD : ∃ (t : Nat) (th : LThread), ls.tl[t]? = some th ∧ th.phase = .hasMu
  · obtain ⟨t, th, hth, hp⟩ := hD
    obtain ⟨T, hT⟩ := hT_of hth
    refine ⟨t, ?_⟩
    unfold lstepThread
    simp only [hth, hT, hp, huum, hunw, Bool.false_eq_true, if_false, if_true]; exact ⟨_, rfl⟩
  -- E: somebody waits for the readers of `mu`
  by_cases hE : ∃ (t : Nat) (th : LThread), ls.tl[t]? = some th ∧ th.phase = .annMu
  · obtain ⟨t, th, hth, hp⟩ := hE
    obtain ⟨T, hT⟩ := hT_of hth
    by_cases h0 : ls.mu.readers = 0
    · refine ⟨t, ?_⟩
      unfold lstepThread
      simp only [hth, hT, hp, h0, if_true]; exact ⟨_, rfl⟩
    · obtain ⟨t2, th2, hth2, hl2⟩ := cnt_pos (l := .mu) (tl := ls.tl) (by rw [← hI.k2m]; omega)
      obtain ⟨ls', h'⟩ := holder .mu t2 th2 hth2 hl2 (Or.inl hunw)
      exact ⟨t2, ls', h'⟩
  -- F: nobody is inside `Close`'s locking
  have hidle : ∀ (t : Nat) (th : LThread), ls.tl[t]? = some th → th.phase = .idle := by
    intro t th hth
    cases hph : th.phase <;> first
      | rfl
      | exact (hE ⟨t, th, hth, hph⟩).elim
      | exact (hD ⟨t, th, hth, hph⟩).elim
      | exact (hC ⟨t, th, hth, hph⟩).elim
      | exact (hB ⟨t, th, hth, hph⟩).elim
      | exact (hA ⟨t, th, hth, Or.inl hph⟩).elim
      | exact (hA ⟨t, th, hth, Or.inr hph⟩).elim
  have hmuw : ls.mu.writer = none := by
    cases hw : ls.mu.writer with
    | none => rfl
    | some t' =>
      obtain ⟨th', h1, h2⟩ := hI.k5b t' hw
      exact absurd (hidle t' th' h1) h2
  have hpend : pending ls.base ≠ [] := by
    intro hp
    apply hnq
    refine ⟨hp, fun th hth => ?_⟩
    obtain ⟨t, ht⟩ := List.getElem?_of_mem hth
    exact hidle t th ht
  obtain ⟨j, hj⟩ := List.exists_mem_of_ne_nil _ hpend
  obtain ⟨T, hTm, hjT⟩ := List.mem_flatten.mp hj
  obtain ⟨t, hT⟩ := List.getElem?_of_mem hTm
  have hlt : t < ls.tl.length := by rw [hI.len]; exact (List.getElem?_eq_some_iff.mp hT).1
  have hth : ls.tl[t]? = some ls.tl[t] := List.getElem?_eq_getElem hlt
  have hp := hidle t _ hth
  cases T with
  | nil => cases hjT
  | cons i rest =>
    by_cases hcl : isCloseLock i = true
    · refine ⟨t, ?_⟩
      unfold lstepThread
      cases i <;> simp [isCloseLock] at hcl
      simp only [hth, hT, hp, hmuw, if_true]; exact ⟨_, rfl⟩
    · have hcl' : isCloseLock i = false := by simpa using hcl
      have hen : enterOK i = true := by
        rcases hwc _ hTm with ⟨f, hf⟩ | hpl
        · injection hf with h1 _; subst h1; simp [isCloseLock] at hcl'
        · exact (hpl i List.mem_cons_self).2
      obtain ⟨ls', h'⟩ := en_idle hth hT hp hcl' hen (by
        intro l hl
        cases l with
        | mu => exact hmuw
        | un => exact hunw)
      exact ⟨t, ls', h'⟩

end GoLevel.CacheL
