import GoLevel.Proofs.LocksLive
/-! `SetReadOnly` takes effect, and the persistent-error state fails fast (machine as coded).

* A thread at the `select` on `writeLockC` of a write-side call (`Put`/`Delete`/`Write`: `putSel`,
  `OpenTransaction` and the large-batch `Write`: `otxSel`, `CompactRange`: `crSel`, `SetReadOnly`: `srSel`) moves
  only by taking one of the three arms; while the token is in `writeLockC` and the DB is open the only arm is
  `compPerErrC`, and the call returns the machine's error (`sel_thread_step`).
* `compReadOnly`, once set, stays set; the machine leaves `hasperr` only through its `closeC` case. -/
namespace GoLevel.Locks
open CompErr
set_option linter.unusedSimpArgs false

theorem ackWs_sel (ws : List Pc) (w : Option Nat) (b : Bool) (i : Nat) (p q : Pc) (hi : ws[i]? = some p)
    (hq : selNext p = some q) : (ackWs ws w b)[i]? = some p := by
  unfold ackWs
  split
  · rename_i j
    split
    · rename_i b' site lg hj
      split
      · rw [List.getElem?_set]
        split
        · rename_i hji; subst hji; rw [hj] at hi; cases hi; simp [selNext] at hq
        · exact hi
      · exact hi
    · exact hi
  · exact hi

/-- while the token is in `writeLockC` and `closeC` is open, a thread at the first `select` of a write-side call
stays there or returns the error it receives from `compPerErrC` -/
theorem sel_thread_step (cfg : Cfg) (s t : St) (f : Bool) (h : Step cfg f s t) (i' : Nat) (p' q' : Pc)
    (hi' : s.ws[i']? = some p') (hsel : selNext p' = some q') (htok : s.tok = true) (hcl : s.closed = false) :
    t.ws[i']? = some p' ∨ t.ws[i']? = some (.retE s.ehErr) := by
  cases h with
  | startPut _ i hi =>
    (try simp only [St.setDone, St.setBg, ↓reduceIte, Bool.false_eq_true, Bool.and_false, Bool.and_true, Bool.false_and, Bool.true_and]) <;> (repeat' split) <;> (try simp only [List.getElem?_set]) <;> grind [St.setBg, St.setDone, St.bg, clearW, onOk, onErr, selNext, afterSetErr]
  | startWrite _ i hi =>
    (try simp only [St.setDone, St.setBg, ↓reduceIte, Bool.false_eq_true, Bool.and_false, Bool.and_true, Bool.false_and, Bool.true_and]) <;> (repeat' split) <;> (try simp only [List.getElem?_set]) <;> grind [St.setBg, St.setDone, St.bg, clearW, onOk, onErr, selNext, afterSetErr]
  | startOtx _ i hi =>
    (try simp only [St.setDone, St.setBg, ↓reduceIte, Bool.false_eq_true, Bool.and_false, Bool.and_true, Bool.false_and, Bool.true_and]) <;> (repeat' split) <;> (try simp only [List.getElem?_set]) <;> grind [St.setBg, St.setDone, St.bg, clearW, onOk, onErr, selNext, afterSetErr]
  | startCommit _ i hi hu =>
    (try simp only [St.setDone, St.setBg, ↓reduceIte, Bool.false_eq_true, Bool.and_false, Bool.and_true, Bool.false_and, Bool.true_and]) <;> (repeat' split) <;> (try simp only [List.getElem?_set]) <;> grind [St.setBg, St.setDone, St.bg, clearW, onOk, onErr, selNext, afterSetErr]
  | startDiscard _ i hi hu =>
    (try simp only [St.setDone, St.setBg, ↓reduceIte, Bool.false_eq_true, Bool.and_false, Bool.and_true, Bool.false_and, Bool.true_and]) <;> (repeat' split) <;> (try simp only [List.getElem?_set]) <;> grind [St.setBg, St.setDone, St.bg, clearW, onOk, onErr, selNext, afterSetErr]
  | startCR _ i hi =>
    (try simp only [St.setDone, St.setBg, ↓reduceIte, Bool.false_eq_true, Bool.and_false, Bool.and_true, Bool.false_and, Bool.true_and]) <;> (repeat' split) <;> (try simp only [List.getElem?_set]) <;> grind [St.setBg, St.setDone, St.bg, clearW, onOk, onErr, selNext, afterSetErr]
  | startSR _ i hi ha =>
    (try simp only [St.setDone, St.setBg, ↓reduceIte, Bool.false_eq_true, Bool.and_false, Bool.and_true, Bool.false_and, Bool.true_and]) <;> (repeat' split) <;> (try simp only [List.getElem?_set]) <;> grind [St.setBg, St.setDone, St.bg, clearW, onOk, onErr, selNext, afterSetErr]
  | startClose _ i hi =>
    (try simp only [St.setDone, St.setBg, ↓reduceIte, Bool.false_eq_true, Bool.and_false, Bool.and_true, Bool.false_and, Bool.true_and]) <;> (repeat' split) <;> (try simp only [List.getElem?_set]) <;> grind [St.setBg, St.setDone, St.bg, clearW, onOk, onErr, selNext, afterSetErr]
  | selTok _ i p q hi hq ht =>
    cases p <;> simp only [selNext] at hq <;> (try contradiction) <;> cases hq <;> (try simp only [List.getElem?_set]) <;> grind [St.setBg, St.setDone, St.bg, clearW, onOk, onErr, selNext, afterSetErr]
  | selPerErr _ i p q hi hq he =>
    cases p <;> simp only [selNext] at hq <;> (try contradiction) <;> cases hq <;> (try simp only [List.getElem?_set]) <;> grind [St.setBg, St.setDone, St.bg, clearW, onOk, onErr, selNext, afterSetErr]
  | selClosed _ i p q hi hq hc =>
    cases p <;> simp only [selNext] at hq <;> (try contradiction) <;> cases hq <;> (try simp only [List.getElem?_set]) <;> grind [St.setBg, St.setDone, St.bg, clearW, onOk, onErr, selNext, afterSetErr]
  | putNoWait _ i hi =>
    (try simp only [St.setDone, St.setBg, ↓reduceIte, Bool.false_eq_true, Bool.and_false, Bool.and_true, Bool.false_and, Bool.true_and]) <;> (repeat' split) <;> (try simp only [List.getElem?_set]) <;> grind [St.setBg, St.setDone, St.bg, clearW, onOk, onErr, selNext, afterSetErr]
  | putWait _ i b hi =>
    (try simp only [St.setDone, St.setBg, ↓reduceIte, Bool.false_eq_true, Bool.and_false, Bool.and_true, Bool.false_and, Bool.true_and]) <;> (repeat' split) <;> (try simp only [List.getElem?_set]) <;> grind [St.setBg, St.setDone, St.bg, clearW, onOk, onErr, selNext, afterSetErr]
  | putJournalOk _ i hi =>
    (try simp only [St.setDone, St.setBg, ↓reduceIte, Bool.false_eq_true, Bool.and_false, Bool.and_true, Bool.false_and, Bool.true_and]) <;> (repeat' split) <;> (try simp only [List.getElem?_set]) <;> grind [St.setBg, St.setDone, St.bg, clearW, onOk, onErr, selNext, afterSetErr]
  | putJournalFail _ i hi =>
    (try simp only [St.setDone, St.setBg, ↓reduceIte, Bool.false_eq_true, Bool.and_false, Bool.and_true, Bool.false_and, Bool.true_and]) <;> (repeat' split) <;> (try simp only [List.getElem?_set]) <;> grind [St.setBg, St.setDone, St.bg, clearW, onOk, onErr, selNext, afterSetErr]
  | putUnlock _ i r hi =>
    (try simp only [St.setDone, St.setBg, ↓reduceIte, Bool.false_eq_true, Bool.and_false, Bool.and_true, Bool.false_and, Bool.true_and]) <;> (repeat' split) <;> (try simp only [List.getElem?_set]) <;> grind [St.setBg, St.setDone, St.bg, clearW, onOk, onErr, selNext, afterSetErr]
  | cwSendGo _ i b site lg hi hb hro =>
    cases site <;> (try simp only [St.setDone, St.setBg, ↓reduceIte, Bool.false_eq_true, Bool.and_false, Bool.and_true, Bool.false_and, Bool.true_and]) <;> (repeat' split) <;> (try simp only [List.getElem?_set]) <;> grind [St.setBg, St.setDone, St.bg, clearW, onOk, onErr, selNext, afterSetErr]
  | cwSendRO _ i site lg hi hb hp hro =>
    cases site <;> (try simp only [St.setDone, St.setBg, ↓reduceIte, Bool.false_eq_true, Bool.and_false, Bool.and_true, Bool.false_and, Bool.true_and]) <;> (repeat' split) <;> (try simp only [List.getElem?_set]) <;> grind [St.setBg, St.setDone, St.bg, clearW, onOk, onErr, selNext, afterSetErr]
  | cwSendErr _ i b site lg hi he =>
    cases site <;> (try simp only [St.setDone, St.setBg, ↓reduceIte, Bool.false_eq_true, Bool.and_false, Bool.and_true, Bool.false_and, Bool.true_and]) <;> (repeat' split) <;> (try simp only [List.getElem?_set]) <;> grind [St.setBg, St.setDone, St.bg, clearW, onOk, onErr, selNext, afterSetErr]
  | cwAckErr _ i b site lg hi he =>
    cases site <;> (try simp only [St.setDone, St.setBg, ↓reduceIte, Bool.false_eq_true, Bool.and_false, Bool.and_true, Bool.false_and, Bool.true_and]) <;> (repeat' split) <;> (try simp only [List.getElem?_set]) <;> grind [St.setBg, St.setDone, St.bg, clearW, onOk, onErr, selNext, afterSetErr]
  | otxRotate _ i lg hi =>
    (try simp only [St.setDone, St.setBg, ↓reduceIte, Bool.false_eq_true, Bool.and_false, Bool.and_true, Bool.false_and, Bool.true_and]) <;> (repeat' split) <;> (try simp only [List.getElem?_set]) <;> grind [St.setBg, St.setDone, St.bg, clearW, onOk, onErr, selNext, afterSetErr]
  | otxNoRotate _ i lg hi =>
    (try simp only [St.setDone, St.setBg, ↓reduceIte, Bool.false_eq_true, Bool.and_false, Bool.and_true, Bool.false_and, Bool.true_and]) <;> (repeat' split) <;> (try simp only [List.getElem?_set]) <;> grind [St.setBg, St.setDone, St.bg, clearW, onOk, onErr, selNext, afterSetErr]
  | otxNewMemOk _ i lg hi =>
    (try simp only [St.setDone, St.setBg, ↓reduceIte, Bool.false_eq_true, Bool.and_false, Bool.and_true, Bool.false_and, Bool.true_and]) <;> (repeat' split) <;> (try simp only [List.getElem?_set]) <;> grind [St.setBg, St.setDone, St.bg, clearW, onOk, onErr, selNext, afterSetErr]
  | otxNewMemFail _ i lg hi =>
    (try simp only [St.setDone, St.setBg, ↓reduceIte, Bool.false_eq_true, Bool.and_false, Bool.and_true, Bool.false_and, Bool.true_and]) <;> (repeat' split) <;> (try simp only [List.getElem?_set]) <;> grind [St.setBg, St.setDone, St.bg, clearW, onOk, onErr, selNext, afterSetErr]
  | otxNoWaitComp _ i lg hi =>
    (try simp only [St.setDone, St.setBg, ↓reduceIte, Bool.false_eq_true, Bool.and_false, Bool.and_true, Bool.false_and, Bool.true_and]) <;> (repeat' split) <;> (try simp only [List.getElem?_set]) <;> grind [St.setBg, St.setDone, St.bg, clearW, onOk, onErr, selNext, afterSetErr]
  | otxWaitComp _ i lg hi =>
    (try simp only [St.setDone, St.setBg, ↓reduceIte, Bool.false_eq_true, Bool.and_false, Bool.and_true, Bool.false_and, Bool.true_and]) <;> (repeat' split) <;> (try simp only [List.getElem?_set]) <;> grind [St.setBg, St.setDone, St.bg, clearW, onOk, onErr, selNext, afterSetErr]
  | otxFail _ i lg hi =>
    (try simp only [St.setDone, St.setBg, ↓reduceIte, Bool.false_eq_true, Bool.and_false, Bool.and_true, Bool.false_and, Bool.true_and]) <;> (repeat' split) <;> (try simp only [List.getElem?_set]) <;> grind [St.setBg, St.setDone, St.bg, clearW, onOk, onErr, selNext, afterSetErr]
  | otxRel _ i lg hi =>
    (try simp only [St.setDone, St.setBg, ↓reduceIte, Bool.false_eq_true, Bool.and_false, Bool.and_true, Bool.false_and, Bool.true_and]) <;> (repeat' split) <;> (try simp only [List.getElem?_set]) <;> grind [St.setBg, St.setDone, St.bg, clearW, onOk, onErr, selNext, afterSetErr]
  | otxDone _ i lg hi =>
    (try simp only [St.setDone, St.setBg, ↓reduceIte, Bool.false_eq_true, Bool.and_false, Bool.and_true, Bool.false_and, Bool.true_and]) <;> (repeat' split) <;> (try simp only [List.getElem?_set]) <;> grind [St.setBg, St.setDone, St.bg, clearW, onOk, onErr, selNext, afterSetErr]
  | lgWriteOk _ i hi =>
    (try simp only [St.setDone, St.setBg, ↓reduceIte, Bool.false_eq_true, Bool.and_false, Bool.and_true, Bool.false_and, Bool.true_and]) <;> (repeat' split) <;> (try simp only [List.getElem?_set]) <;> grind [St.setBg, St.setDone, St.bg, clearW, onOk, onErr, selNext, afterSetErr]
  | lgWriteFail _ i hi =>
    (try simp only [St.setDone, St.setBg, ↓reduceIte, Bool.false_eq_true, Bool.and_false, Bool.and_true, Bool.false_and, Bool.true_and]) <;> (repeat' split) <;> (try simp only [List.getElem?_set]) <;> grind [St.setBg, St.setDone, St.bg, clearW, onOk, onErr, selNext, afterSetErr]
  | cmLockTr _ i lg hi hl =>
    (try simp only [St.setDone, St.setBg, ↓reduceIte, Bool.false_eq_true, Bool.and_false, Bool.and_true, Bool.false_and, Bool.true_and]) <;> (repeat' split) <;> (try simp only [List.getElem?_set]) <;> grind [St.setBg, St.setDone, St.bg, clearW, onOk, onErr, selNext, afterSetErr]
  | cmFlushOk _ i lg hi =>
    (try simp only [St.setDone, St.setBg, ↓reduceIte, Bool.false_eq_true, Bool.and_false, Bool.and_true, Bool.false_and, Bool.true_and]) <;> (repeat' split) <;> (try simp only [List.getElem?_set]) <;> grind [St.setBg, St.setDone, St.bg, clearW, onOk, onErr, selNext, afterSetErr]
  | cmFlushEmpty _ i lg hi =>
    (try simp only [St.setDone, St.setBg, ↓reduceIte, Bool.false_eq_true, Bool.and_false, Bool.and_true, Bool.false_and, Bool.true_and]) <;> (repeat' split) <;> (try simp only [List.getElem?_set]) <;> grind [St.setBg, St.setDone, St.bg, clearW, onOk, onErr, selNext, afterSetErr]
  | cmFlushFail _ i lg hi =>
    (try simp only [St.setDone, St.setBg, ↓reduceIte, Bool.false_eq_true, Bool.and_false, Bool.and_true, Bool.false_and, Bool.true_and]) <;> (repeat' split) <;> (try simp only [List.getElem?_set]) <;> grind [St.setBg, St.setDone, St.bg, clearW, onOk, onErr, selNext, afterSetErr]
  | cmLockClk _ i lg hi hl =>
    (try simp only [St.setDone, St.setBg, ↓reduceIte, Bool.false_eq_true, Bool.and_false, Bool.and_true, Bool.false_and, Bool.true_and]) <;> (repeat' split) <;> (try simp only [List.getElem?_set]) <;> grind [St.setBg, St.setDone, St.bg, clearW, onOk, onErr, selNext, afterSetErr]
  | cmTryOk _ i k lg hi =>
    (try simp only [St.setDone, St.setBg, ↓reduceIte, Bool.false_eq_true, Bool.and_false, Bool.and_true, Bool.false_and, Bool.true_and]) <;> (repeat' split) <;> (try simp only [List.getElem?_set]) <;> grind [St.setBg, St.setDone, St.bg, clearW, onOk, onErr, selNext, afterSetErr]
  | cmTryFail _ i k lg hi =>
    (try simp only [St.setDone, St.setBg, ↓reduceIte, Bool.false_eq_true, Bool.and_false, Bool.and_true, Bool.false_and, Bool.true_and]) <;> (repeat' split) <;> (try simp only [List.getElem?_set]) <;> grind [St.setBg, St.setDone, St.bg, clearW, onOk, onErr, selNext, afterSetErr]
  | cmSleepTimer _ i k lg hi =>
    (try simp only [St.setDone, St.setBg, ↓reduceIte, Bool.false_eq_true, Bool.and_false, Bool.and_true, Bool.false_and, Bool.true_and]) <;> (repeat' split) <;> (try simp only [List.getElem?_set]) <;> grind [St.setBg, St.setDone, St.bg, clearW, onOk, onErr, selNext, afterSetErr]
  | cmSleepClosed _ i k lg hi hc =>
    (try simp only [St.setDone, St.setBg, ↓reduceIte, Bool.false_eq_true, Bool.and_false, Bool.and_true, Bool.false_and, Bool.true_and]) <;> (repeat' split) <;> (try simp only [List.getElem?_set]) <;> grind [St.setBg, St.setDone, St.bg, clearW, onOk, onErr, selNext, afterSetErr]
  | cmFail3 _ i lg hi =>
    (try simp only [St.setDone, St.setBg, ↓reduceIte, Bool.false_eq_true, Bool.and_false, Bool.and_true, Bool.false_and, Bool.true_and]) <;> (repeat' split) <;> (try simp only [List.getElem?_set]) <;> grind [St.setBg, St.setDone, St.bg, clearW, onOk, onErr, selNext, afterSetErr]
  | cmAfterOk _ i lg hi =>
    (try simp only [St.setDone, St.setBg, ↓reduceIte, Bool.false_eq_true, Bool.and_false, Bool.and_true, Bool.false_and, Bool.true_and]) <;> (repeat' split) <;> (try simp only [List.getElem?_set]) <;> grind [St.setBg, St.setDone, St.bg, clearW, onOk, onErr, selNext, afterSetErr]
  | cmNoWaitComp _ i lg hi =>
    (try simp only [St.setDone, St.setBg, ↓reduceIte, Bool.false_eq_true, Bool.and_false, Bool.and_true, Bool.false_and, Bool.true_and]) <;> (repeat' split) <;> (try simp only [List.getElem?_set]) <;> grind [St.setBg, St.setDone, St.bg, clearW, onOk, onErr, selNext, afterSetErr]
  | cmWaitComp _ i lg hi =>
    (try simp only [St.setDone, St.setBg, ↓reduceIte, Bool.false_eq_true, Bool.and_false, Bool.and_true, Bool.false_and, Bool.true_and]) <;> (repeat' split) <;> (try simp only [List.getElem?_set]) <;> grind [St.setBg, St.setDone, St.bg, clearW, onOk, onErr, selNext, afterSetErr]
  | cmDone _ i lg hi =>
    (try simp only [St.setDone, St.setBg, ↓reduceIte, Bool.false_eq_true, Bool.and_false, Bool.and_true, Bool.false_and, Bool.true_and]) <;> (repeat' split) <;> (try simp only [List.getElem?_set]) <;> grind [St.setBg, St.setDone, St.bg, clearW, onOk, onErr, selNext, afterSetErr]
  | cmRet _ i ok lg hi =>
    (try simp only [St.setDone, St.setBg, ↓reduceIte, Bool.false_eq_true, Bool.and_false, Bool.and_true, Bool.false_and, Bool.true_and]) <;> (repeat' split) <;> (try simp only [List.getElem?_set]) <;> grind [St.setBg, St.setDone, St.bg, clearW, onOk, onErr, selNext, afterSetErr]
  | dcLockTr _ i lg hi hl =>
    (try simp only [St.setDone, St.setBg, ↓reduceIte, Bool.false_eq_true, Bool.and_false, Bool.and_true, Bool.false_and, Bool.true_and]) <;> (repeat' split) <;> (try simp only [List.getElem?_set]) <;> grind [St.setBg, St.setDone, St.bg, clearW, onOk, onErr, selNext, afterSetErr]
  | dcBody _ i lg hi =>
    (try simp only [St.setDone, St.setBg, ↓reduceIte, Bool.false_eq_true, Bool.and_false, Bool.and_true, Bool.false_and, Bool.true_and]) <;> (repeat' split) <;> (try simp only [List.getElem?_set]) <;> grind [St.setBg, St.setDone, St.bg, clearW, onOk, onErr, selNext, afterSetErr]
  | crNoOverlap _ i hi =>
    (try simp only [St.setDone, St.setBg, ↓reduceIte, Bool.false_eq_true, Bool.and_false, Bool.and_true, Bool.false_and, Bool.true_and]) <;> (repeat' split) <;> (try simp only [List.getElem?_set]) <;> grind [St.setBg, St.setDone, St.bg, clearW, onOk, onErr, selNext, afterSetErr]
  | crOverlap _ i hi =>
    (try simp only [St.setDone, St.setBg, ↓reduceIte, Bool.false_eq_true, Bool.and_false, Bool.and_true, Bool.false_and, Bool.true_and]) <;> (repeat' split) <;> (try simp only [List.getElem?_set]) <;> grind [St.setBg, St.setDone, St.bg, clearW, onOk, onErr, selNext, afterSetErr]
  | crNewMemOk _ i hi =>
    (try simp only [St.setDone, St.setBg, ↓reduceIte, Bool.false_eq_true, Bool.and_false, Bool.and_true, Bool.false_and, Bool.true_and]) <;> (repeat' split) <;> (try simp only [List.getElem?_set]) <;> grind [St.setBg, St.setDone, St.bg, clearW, onOk, onErr, selNext, afterSetErr]
  | crNewMemFail _ i hi =>
    (try simp only [St.setDone, St.setBg, ↓reduceIte, Bool.false_eq_true, Bool.and_false, Bool.and_true, Bool.false_and, Bool.true_and]) <;> (repeat' split) <;> (try simp only [List.getElem?_set]) <;> grind [St.setBg, St.setDone, St.bg, clearW, onOk, onErr, selNext, afterSetErr]
  | crRelM _ i hi =>
    (try simp only [St.setDone, St.setBg, ↓reduceIte, Bool.false_eq_true, Bool.and_false, Bool.and_true, Bool.false_and, Bool.true_and]) <;> (repeat' split) <;> (try simp only [List.getElem?_set]) <;> grind [St.setBg, St.setDone, St.bg, clearW, onOk, onErr, selNext, afterSetErr]
  | crRelOk _ i hi =>
    (try simp only [St.setDone, St.setBg, ↓reduceIte, Bool.false_eq_true, Bool.and_false, Bool.and_true, Bool.false_and, Bool.true_and]) <;> (repeat' split) <;> (try simp only [List.getElem?_set]) <;> grind [St.setBg, St.setDone, St.bg, clearW, onOk, onErr, selNext, afterSetErr]
  | crRelFail _ i hi =>
    (try simp only [St.setDone, St.setBg, ↓reduceIte, Bool.false_eq_true, Bool.and_false, Bool.and_true, Bool.false_and, Bool.true_and]) <;> (repeat' split) <;> (try simp only [List.getElem?_set]) <;> grind [St.setBg, St.setDone, St.bg, clearW, onOk, onErr, selNext, afterSetErr]
  | srSend _ i hi he =>
    (try simp only [St.setDone, St.setBg, ↓reduceIte, Bool.false_eq_true, Bool.and_false, Bool.and_true, Bool.false_and, Bool.true_and]) <;> (repeat' split) <;> (try simp only [List.getElem?_set]) <;> grind [St.setBg, St.setDone, St.bg, clearW, onOk, onErr, selNext, afterSetErr]
  | srPerErr _ i hi he =>
    (try simp only [St.setDone, St.setBg, ↓reduceIte, Bool.false_eq_true, Bool.and_false, Bool.and_true, Bool.false_and, Bool.true_and]) <;> (repeat' split) <;> (try simp only [List.getElem?_set]) <;> grind [St.setBg, St.setDone, St.bg, clearW, onOk, onErr, selNext, afterSetErr]
  | srClosed _ i hi hc =>
    (try simp only [St.setDone, St.setBg, ↓reduceIte, Bool.false_eq_true, Bool.and_false, Bool.and_true, Bool.false_and, Bool.true_and]) <;> (repeat' split) <;> (try simp only [List.getElem?_set]) <;> grind [St.setBg, St.setDone, St.bg, clearW, onOk, onErr, selNext, afterSetErr]
  | clCheckTr _ i hi =>
    (try simp only [St.setDone, St.setBg, ↓reduceIte, Bool.false_eq_true, Bool.and_false, Bool.and_true, Bool.false_and, Bool.true_and]) <;> (repeat' split) <;> (try simp only [List.getElem?_set]) <;> grind [St.setBg, St.setDone, St.bg, clearW, onOk, onErr, selNext, afterSetErr]
  | clLockTr _ i hi hl =>
    (try simp only [St.setDone, St.setBg, ↓reduceIte, Bool.false_eq_true, Bool.and_false, Bool.and_true, Bool.false_and, Bool.true_and]) <;> (repeat' split) <;> (try simp only [List.getElem?_set]) <;> grind [St.setBg, St.setDone, St.bg, clearW, onOk, onErr, selNext, afterSetErr]
  | clBody _ i hi =>
    (try simp only [St.setDone, St.setBg, ↓reduceIte, Bool.false_eq_true, Bool.and_false, Bool.and_true, Bool.false_and, Bool.true_and]) <;> (repeat' split) <;> (try simp only [List.getElem?_set]) <;> grind [St.setBg, St.setDone, St.bg, clearW, onOk, onErr, selNext, afterSetErr]
  | clAcq _ i hi ht =>
    (try simp only [St.setDone, St.setBg, ↓reduceIte, Bool.false_eq_true, Bool.and_false, Bool.and_true, Bool.false_and, Bool.true_and]) <;> (repeat' split) <;> (try simp only [List.getElem?_set]) <;> grind [St.setBg, St.setDone, St.bg, clearW, onOk, onErr, selNext, afterSetErr]
  | clAcqKept _ i hi he hk hs =>
    (try simp only [St.setDone, St.setBg, ↓reduceIte, Bool.false_eq_true, Bool.and_false, Bool.and_true, Bool.false_and, Bool.true_and]) <;> (repeat' split) <;> (try simp only [List.getElem?_set]) <;> grind [St.setBg, St.setDone, St.bg, clearW, onOk, onErr, selNext, afterSetErr]
  | clWait _ i hi hm ht =>
    (try simp only [St.setDone, St.setBg, ↓reduceIte, Bool.false_eq_true, Bool.and_false, Bool.and_true, Bool.false_and, Bool.true_and]) <;> (repeat' split) <;> (try simp only [List.getElem?_set]) <;> grind [St.setBg, St.setDone, St.bg, clearW, onOk, onErr, selNext, afterSetErr]
  | ehAcquire _ he ht =>
    (try simp only [St.setDone, St.setBg, ↓reduceIte, Bool.false_eq_true, Bool.and_false, Bool.and_true, Bool.false_and, Bool.true_and]) <;> (repeat' split) <;> (try simp only [List.getElem?_set]) <;> grind [St.setBg, St.setDone, St.bg, clearW, onOk, onErr, selNext, afterSetErr]
  | ehClose _ he hc =>
    (try simp only [St.setDone, St.setBg, ↓reduceIte, Bool.false_eq_true, Bool.and_false, Bool.and_true, Bool.false_and, Bool.true_and]) <;> (repeat' split) <;> (try simp only [List.getElem?_set]) <;> grind [St.setBg, St.setDone, St.bg, clearW, onOk, onErr, selNext, afterSetErr]
  | ehTake _ he ht =>
    (try simp only [St.setDone, St.setBg, ↓reduceIte, Bool.false_eq_true, Bool.and_false, Bool.and_true, Bool.false_and, Bool.true_and]) <;> (repeat' split) <;> (try simp only [List.getElem?_set]) <;> grind [St.setBg, St.setDone, St.bg, clearW, onOk, onErr, selNext, afterSetErr]
  | bgExitIdle _ b hb hc =>
    (try simp only [St.setDone, St.setBg, ↓reduceIte, Bool.false_eq_true, Bool.and_false, Bool.and_true, Bool.false_and, Bool.true_and]) <;> (repeat' split) <;> (try simp only [List.getElem?_set]) <;> grind [St.setBg, St.setDone, St.bg, clearW, onOk, onErr, selNext, afterSetErr]
  | bgExitParked _ hb hc =>
    (try simp only [St.setDone, St.setBg, ↓reduceIte, Bool.false_eq_true, Bool.and_false, Bool.and_true, Bool.false_and, Bool.true_and]) <;> (repeat' split) <;> (try simp only [List.getElem?_set]) <;> grind [St.setBg, St.setDone, St.bg, clearW, onOk, onErr, selNext, afterSetErr]
  | bgWorkCorrupt _ b w hb hk =>
    (try simp only [St.setDone, St.setBg, ↓reduceIte, Bool.false_eq_true, Bool.and_false, Bool.and_true, Bool.false_and, Bool.true_and]) <;> (repeat' split) <;> (try simp only [List.getElem?_set]) <;> grind [St.setBg, St.setDone, St.bg, clearW, onOk, onErr, selNext, afterSetErr]
  | bgCommitCorrupt _ b w hb hk =>
    (try simp only [St.setDone, St.setBg, ↓reduceIte, Bool.false_eq_true, Bool.and_false, Bool.and_true, Bool.false_and, Bool.true_and]) <;> (repeat' split) <;> (try simp only [List.getElem?_set]) <;> grind [St.setBg, St.setDone, St.bg, clearW, onOk, onErr, selNext, afterSetErr]
  | bgSetErrCorrupt _ b w c hb he =>
    (try simp only [St.setDone, St.setBg, ↓reduceIte, Bool.false_eq_true, Bool.and_false, Bool.and_true, Bool.false_and, Bool.true_and]) <;> (repeat' split) <;> (try simp only [List.getElem?_set]) <;> grind [St.setBg, St.setDone, St.bg, clearW, onOk, onErr, selNext, afterSetErr]
  | bgWorkOk _ b w hb =>
    (try simp only [St.setDone, St.setBg, ↓reduceIte, Bool.false_eq_true, Bool.and_false, Bool.and_true, Bool.false_and, Bool.true_and]) <;> (repeat' split) <;> (try simp only [List.getElem?_set]) <;> grind [St.setBg, St.setDone, St.bg, clearW, onOk, onErr, selNext, afterSetErr]
  | bgWorkFail _ b w hb =>
    (try simp only [St.setDone, St.setBg, ↓reduceIte, Bool.false_eq_true, Bool.and_false, Bool.and_true, Bool.false_and, Bool.true_and]) <;> (repeat' split) <;> (try simp only [List.getElem?_set]) <;> grind [St.setBg, St.setDone, St.bg, clearW, onOk, onErr, selNext, afterSetErr]
  | bgCommitOk _ b w hb =>
    (try simp only [St.setDone, St.setBg, ↓reduceIte, Bool.false_eq_true, Bool.and_false, Bool.and_true, Bool.false_and, Bool.true_and]) <;> (repeat' split) <;> (try simp only [List.getElem?_set]) <;> grind [St.setBg, St.setDone, St.bg, clearW, onOk, onErr, selNext, afterSetErr]
  | bgCommitFail _ b w hb =>
    (try simp only [St.setDone, St.setBg, ↓reduceIte, Bool.false_eq_true, Bool.and_false, Bool.and_true, Bool.false_and, Bool.true_and]) <;> (repeat' split) <;> (try simp only [List.getElem?_set]) <;> grind [St.setBg, St.setDone, St.bg, clearW, onOk, onErr, selNext, afterSetErr]
  | bgSetErr _ b w ok c hb he =>
    (try simp only [St.setDone, St.setBg, ↓reduceIte, Bool.false_eq_true, Bool.and_false, Bool.and_true, Bool.false_and, Bool.true_and]) <;> (repeat' split) <;> (try simp only [List.getElem?_set]) <;> grind [St.setBg, St.setDone, St.bg, clearW, onOk, onErr, selNext, afterSetErr]
  | bgSetErrPer _ b w c hb he =>
    (try simp only [St.setDone, St.setBg, ↓reduceIte, Bool.false_eq_true, Bool.and_false, Bool.and_true, Bool.false_and, Bool.true_and]) <;> (repeat' split) <;> (try simp only [List.getElem?_set]) <;> grind [St.setBg, St.setDone, St.bg, clearW, onOk, onErr, selNext, afterSetErr]
  | bgBackoff _ b w c hb =>
    (try simp only [St.setDone, St.setBg, ↓reduceIte, Bool.false_eq_true, Bool.and_false, Bool.and_true, Bool.false_and, Bool.true_and]) <;> (repeat' split) <;> (try simp only [List.getElem?_set]) <;> grind [St.setBg, St.setDone, St.bg, clearW, onOk, onErr, selNext, afterSetErr]
  | bgLockClk _ b w hb hl =>
    (try simp only [St.setDone, St.setBg, ↓reduceIte, Bool.false_eq_true, Bool.and_false, Bool.and_true, Bool.false_and, Bool.true_and]) <;> (repeat' split) <;> (try simp only [List.getElem?_set]) <;> grind [St.setBg, St.setDone, St.bg, clearW, onOk, onErr, selNext, afterSetErr]
  | bgAck _ b w hb =>
    left
    have := ackWs_sel s.ws w b i' p' q' hi' hsel
    cases b <;> simpa [St.setBg] using this
  | bgExit _ b w ph hb hx =>
    (try simp only [St.setDone, St.setBg, ↓reduceIte, Bool.false_eq_true, Bool.and_false, Bool.and_true, Bool.false_and, Bool.true_and]) <;> (repeat' split) <;> (try simp only [List.getElem?_set]) <;> grind [St.setBg, St.setDone, St.bg, clearW, onOk, onErr, selNext, afterSetErr]

/-- `compReadOnly` is never reset -/
theorem step_ro (cfg : Cfg) (s t : St) (f : Bool) (h : Step cfg f s t) (hr : s.ro = true) : t.ro = true := by
  cases h <;> (try simp only [St.setDone, St.setBg]) <;> (repeat' split) <;> simp_all

theorem steps_ro (cfg : Cfg) (s t : St) (h : Steps cfg s t) (hr : s.ro = true) : t.ro = true :=
  steps_inv_of_step (fun s => s.ro = true) (fun s t f h => step_ro cfg s t f h) s t h hr

/-- the persistent-error state (with its error) lasts until `Close` -/
theorem step_hasperr (cfg : Cfg) (s t : St) (f : Bool) (h : Step cfg f s t) (he : s.eh = .hasperr) :
    (t.eh = .hasperr ∧ t.ehErr = s.ehErr) ∨ s.closed = true := by
  cases h <;> (try simp only [St.setDone, St.setBg]) <;> (repeat' split) <;> simp_all

/-- the `hasperr` loop does not give its token back before `Close`: with `compactionError` in `hasperr`, a token
in `writeLockC` for `compWriteLocking`, no `SetReadOnly` between its two `select`s and the DB open, the next state
is the same in these respects (or `Close` has begun) -/
theorem step_hasperr_locked (cfg : Cfg) (s t : St) (f : Bool) (h : Step cfg f s t) (he : s.eh = .hasperr)
    (hk : s.ehTok = true) (htok : s.tok = true) (hw : tot srW s.ws = 0) (hc : s.closed = false) :
    t.ehTok = true ∧ t.cwl = s.cwl := by
  cases h with
  | startPut _ i hi =>
    (try simp only [St.setDone, St.setBg, ↓reduceIte, Bool.false_eq_true, Bool.and_false, Bool.and_true, Bool.false_and, Bool.true_and]) <;> (repeat' split) <;> simp_all
  | startWrite _ i hi =>
    (try simp only [St.setDone, St.setBg, ↓reduceIte, Bool.false_eq_true, Bool.and_false, Bool.and_true, Bool.false_and, Bool.true_and]) <;> (repeat' split) <;> simp_all
  | startOtx _ i hi =>
    (try simp only [St.setDone, St.setBg, ↓reduceIte, Bool.false_eq_true, Bool.and_false, Bool.and_true, Bool.false_and, Bool.true_and]) <;> (repeat' split) <;> simp_all
  | startCommit _ i hi hu =>
    (try simp only [St.setDone, St.setBg, ↓reduceIte, Bool.false_eq_true, Bool.and_false, Bool.and_true, Bool.false_and, Bool.true_and]) <;> (repeat' split) <;> simp_all
  | startDiscard _ i hi hu =>
    (try simp only [St.setDone, St.setBg, ↓reduceIte, Bool.false_eq_true, Bool.and_false, Bool.and_true, Bool.false_and, Bool.true_and]) <;> (repeat' split) <;> simp_all
  | startCR _ i hi =>
    (try simp only [St.setDone, St.setBg, ↓reduceIte, Bool.false_eq_true, Bool.and_false, Bool.and_true, Bool.false_and, Bool.true_and]) <;> (repeat' split) <;> simp_all
  | startSR _ i hi ha =>
    (try simp only [St.setDone, St.setBg, ↓reduceIte, Bool.false_eq_true, Bool.and_false, Bool.and_true, Bool.false_and, Bool.true_and]) <;> (repeat' split) <;> simp_all
  | startClose _ i hi =>
    (try simp only [St.setDone, St.setBg, ↓reduceIte, Bool.false_eq_true, Bool.and_false, Bool.and_true, Bool.false_and, Bool.true_and]) <;> (repeat' split) <;> simp_all
  | selTok _ i p q hi hq ht =>
    have l0 := le_tot srW _ _ _ hi
    cases p <;> simp only [selNext] at hq <;> (try contradiction) <;> cases hq <;> simp_all [srW]
  | selPerErr _ i p q hi hq he =>
    have l0 := le_tot srW _ _ _ hi
    cases p <;> simp only [selNext] at hq <;> (try contradiction) <;> cases hq <;> simp_all [srW]
  | selClosed _ i p q hi hq hc =>
    have l0 := le_tot srW _ _ _ hi
    cases p <;> simp only [selNext] at hq <;> (try contradiction) <;> cases hq <;> simp_all [srW]
  | putNoWait _ i hi =>
    (try simp only [St.setDone, St.setBg, ↓reduceIte, Bool.false_eq_true, Bool.and_false, Bool.and_true, Bool.false_and, Bool.true_and]) <;> (repeat' split) <;> simp_all
  | putWait _ i b hi =>
    (try simp only [St.setDone, St.setBg, ↓reduceIte, Bool.false_eq_true, Bool.and_false, Bool.and_true, Bool.false_and, Bool.true_and]) <;> (repeat' split) <;> simp_all
  | putJournalOk _ i hi =>
    (try simp only [St.setDone, St.setBg, ↓reduceIte, Bool.false_eq_true, Bool.and_false, Bool.and_true, Bool.false_and, Bool.true_and]) <;> (repeat' split) <;> simp_all
  | putJournalFail _ i hi =>
    (try simp only [St.setDone, St.setBg, ↓reduceIte, Bool.false_eq_true, Bool.and_false, Bool.and_true, Bool.false_and, Bool.true_and]) <;> (repeat' split) <;> simp_all
  | putUnlock _ i r hi =>
    (try simp only [St.setDone, St.setBg, ↓reduceIte, Bool.false_eq_true, Bool.and_false, Bool.and_true, Bool.false_and, Bool.true_and]) <;> (repeat' split) <;> simp_all
  | cwSendGo _ i b site lg hi hb hro =>
    (try simp only [St.setDone, St.setBg, ↓reduceIte, Bool.false_eq_true, Bool.and_false, Bool.and_true, Bool.false_and, Bool.true_and]) <;> (repeat' split) <;> simp_all
  | cwSendRO _ i site lg hi hb hp hro =>
    (try simp only [St.setDone, St.setBg, ↓reduceIte, Bool.false_eq_true, Bool.and_false, Bool.and_true, Bool.false_and, Bool.true_and]) <;> (repeat' split) <;> simp_all
  | cwSendErr _ i b site lg hi he =>
    (try simp only [St.setDone, St.setBg, ↓reduceIte, Bool.false_eq_true, Bool.and_false, Bool.and_true, Bool.false_and, Bool.true_and]) <;> (repeat' split) <;> simp_all
  | cwAckErr _ i b site lg hi he =>
    (try simp only [St.setDone, St.setBg, ↓reduceIte, Bool.false_eq_true, Bool.and_false, Bool.and_true, Bool.false_and, Bool.true_and]) <;> (repeat' split) <;> simp_all
  | otxRotate _ i lg hi =>
    (try simp only [St.setDone, St.setBg, ↓reduceIte, Bool.false_eq_true, Bool.and_false, Bool.and_true, Bool.false_and, Bool.true_and]) <;> (repeat' split) <;> simp_all
  | otxNoRotate _ i lg hi =>
    (try simp only [St.setDone, St.setBg, ↓reduceIte, Bool.false_eq_true, Bool.and_false, Bool.and_true, Bool.false_and, Bool.true_and]) <;> (repeat' split) <;> simp_all
  | otxNewMemOk _ i lg hi =>
    (try simp only [St.setDone, St.setBg, ↓reduceIte, Bool.false_eq_true, Bool.and_false, Bool.and_true, Bool.false_and, Bool.true_and]) <;> (repeat' split) <;> simp_all
  | otxNewMemFail _ i lg hi =>
    (try simp only [St.setDone, St.setBg, ↓reduceIte, Bool.false_eq_true, Bool.and_false, Bool.and_true, Bool.false_and, Bool.true_and]) <;> (repeat' split) <;> simp_all
  | otxNoWaitComp _ i lg hi =>
    (try simp only [St.setDone, St.setBg, ↓reduceIte, Bool.false_eq_true, Bool.and_false, Bool.and_true, Bool.false_and, Bool.true_and]) <;> (repeat' split) <;> simp_all
  | otxWaitComp _ i lg hi =>
    (try simp only [St.setDone, St.setBg, ↓reduceIte, Bool.false_eq_true, Bool.and_false, Bool.and_true, Bool.false_and, Bool.true_and]) <;> (repeat' split) <;> simp_all
  | otxFail _ i lg hi =>
    (try simp only [St.setDone, St.setBg, ↓reduceIte, Bool.false_eq_true, Bool.and_false, Bool.and_true, Bool.false_and, Bool.true_and]) <;> (repeat' split) <;> simp_all
  | otxRel _ i lg hi =>
    (try simp only [St.setDone, St.setBg, ↓reduceIte, Bool.false_eq_true, Bool.and_false, Bool.and_true, Bool.false_and, Bool.true_and]) <;> (repeat' split) <;> simp_all
  | otxDone _ i lg hi =>
    (try simp only [St.setDone, St.setBg, ↓reduceIte, Bool.false_eq_true, Bool.and_false, Bool.and_true, Bool.false_and, Bool.true_and]) <;> (repeat' split) <;> simp_all
  | lgWriteOk _ i hi =>
    (try simp only [St.setDone, St.setBg, ↓reduceIte, Bool.false_eq_true, Bool.and_false, Bool.and_true, Bool.false_and, Bool.true_and]) <;> (repeat' split) <;> simp_all
  | lgWriteFail _ i hi =>
    (try simp only [St.setDone, St.setBg, ↓reduceIte, Bool.false_eq_true, Bool.and_false, Bool.and_true, Bool.false_and, Bool.true_and]) <;> (repeat' split) <;> simp_all
  | cmLockTr _ i lg hi hl =>
    (try simp only [St.setDone, St.setBg, ↓reduceIte, Bool.false_eq_true, Bool.and_false, Bool.and_true, Bool.false_and, Bool.true_and]) <;> (repeat' split) <;> simp_all
  | cmFlushOk _ i lg hi =>
    (try simp only [St.setDone, St.setBg, ↓reduceIte, Bool.false_eq_true, Bool.and_false, Bool.and_true, Bool.false_and, Bool.true_and]) <;> (repeat' split) <;> simp_all
  | cmFlushEmpty _ i lg hi =>
    (try simp only [St.setDone, St.setBg, ↓reduceIte, Bool.false_eq_true, Bool.and_false, Bool.and_true, Bool.false_and, Bool.true_and]) <;> (repeat' split) <;> simp_all
  | cmFlushFail _ i lg hi =>
    (try simp only [St.setDone, St.setBg, ↓reduceIte, Bool.false_eq_true, Bool.and_false, Bool.and_true, Bool.false_and, Bool.true_and]) <;> (repeat' split) <;> simp_all
  | cmLockClk _ i lg hi hl =>
    (try simp only [St.setDone, St.setBg, ↓reduceIte, Bool.false_eq_true, Bool.and_false, Bool.and_true, Bool.false_and, Bool.true_and]) <;> (repeat' split) <;> simp_all
  | cmTryOk _ i k lg hi =>
    (try simp only [St.setDone, St.setBg, ↓reduceIte, Bool.false_eq_true, Bool.and_false, Bool.and_true, Bool.false_and, Bool.true_and]) <;> (repeat' split) <;> simp_all
  | cmTryFail _ i k lg hi =>
    (try simp only [St.setDone, St.setBg, ↓reduceIte, Bool.false_eq_true, Bool.and_false, Bool.and_true, Bool.false_and, Bool.true_and]) <;> (repeat' split) <;> simp_all
  | cmSleepTimer _ i k lg hi =>
    (try simp only [St.setDone, St.setBg, ↓reduceIte, Bool.false_eq_true, Bool.and_false, Bool.and_true, Bool.false_and, Bool.true_and]) <;> (repeat' split) <;> simp_all
  | cmSleepClosed _ i k lg hi hc =>
    (try simp only [St.setDone, St.setBg, ↓reduceIte, Bool.false_eq_true, Bool.and_false, Bool.and_true, Bool.false_and, Bool.true_and]) <;> (repeat' split) <;> simp_all
  | cmFail3 _ i lg hi =>
    (try simp only [St.setDone, St.setBg, ↓reduceIte, Bool.false_eq_true, Bool.and_false, Bool.and_true, Bool.false_and, Bool.true_and]) <;> (repeat' split) <;> simp_all
  | cmAfterOk _ i lg hi =>
    (try simp only [St.setDone, St.setBg, ↓reduceIte, Bool.false_eq_true, Bool.and_false, Bool.and_true, Bool.false_and, Bool.true_and]) <;> (repeat' split) <;> simp_all
  | cmNoWaitComp _ i lg hi =>
    (try simp only [St.setDone, St.setBg, ↓reduceIte, Bool.false_eq_true, Bool.and_false, Bool.and_true, Bool.false_and, Bool.true_and]) <;> (repeat' split) <;> simp_all
  | cmWaitComp _ i lg hi =>
    (try simp only [St.setDone, St.setBg, ↓reduceIte, Bool.false_eq_true, Bool.and_false, Bool.and_true, Bool.false_and, Bool.true_and]) <;> (repeat' split) <;> simp_all
  | cmDone _ i lg hi =>
    (try simp only [St.setDone, St.setBg, ↓reduceIte, Bool.false_eq_true, Bool.and_false, Bool.and_true, Bool.false_and, Bool.true_and]) <;> (repeat' split) <;> simp_all
  | cmRet _ i ok lg hi =>
    (try simp only [St.setDone, St.setBg, ↓reduceIte, Bool.false_eq_true, Bool.and_false, Bool.and_true, Bool.false_and, Bool.true_and]) <;> (repeat' split) <;> simp_all
  | dcLockTr _ i lg hi hl =>
    (try simp only [St.setDone, St.setBg, ↓reduceIte, Bool.false_eq_true, Bool.and_false, Bool.and_true, Bool.false_and, Bool.true_and]) <;> (repeat' split) <;> simp_all
  | dcBody _ i lg hi =>
    (try simp only [St.setDone, St.setBg, ↓reduceIte, Bool.false_eq_true, Bool.and_false, Bool.and_true, Bool.false_and, Bool.true_and]) <;> (repeat' split) <;> simp_all
  | crNoOverlap _ i hi =>
    (try simp only [St.setDone, St.setBg, ↓reduceIte, Bool.false_eq_true, Bool.and_false, Bool.and_true, Bool.false_and, Bool.true_and]) <;> (repeat' split) <;> simp_all
  | crOverlap _ i hi =>
    (try simp only [St.setDone, St.setBg, ↓reduceIte, Bool.false_eq_true, Bool.and_false, Bool.and_true, Bool.false_and, Bool.true_and]) <;> (repeat' split) <;> simp_all
  | crNewMemOk _ i hi =>
    (try simp only [St.setDone, St.setBg, ↓reduceIte, Bool.false_eq_true, Bool.and_false, Bool.and_true, Bool.false_and, Bool.true_and]) <;> (repeat' split) <;> simp_all
  | crNewMemFail _ i hi =>
    (try simp only [St.setDone, St.setBg, ↓reduceIte, Bool.false_eq_true, Bool.and_false, Bool.and_true, Bool.false_and, Bool.true_and]) <;> (repeat' split) <;> simp_all
  | crRelM _ i hi =>
    (try simp only [St.setDone, St.setBg, ↓reduceIte, Bool.false_eq_true, Bool.and_false, Bool.and_true, Bool.false_and, Bool.true_and]) <;> (repeat' split) <;> simp_all
  | crRelOk _ i hi =>
    (try simp only [St.setDone, St.setBg, ↓reduceIte, Bool.false_eq_true, Bool.and_false, Bool.and_true, Bool.false_and, Bool.true_and]) <;> (repeat' split) <;> simp_all
  | crRelFail _ i hi =>
    (try simp only [St.setDone, St.setBg, ↓reduceIte, Bool.false_eq_true, Bool.and_false, Bool.and_true, Bool.false_and, Bool.true_and]) <;> (repeat' split) <;> simp_all
  | srSend _ i hi he =>
    have l0 := le_tot srW _ _ _ hi
    simp only [srW] at l0
    omega
  | srPerErr _ i hi he =>
    have l0 := le_tot srW _ _ _ hi
    simp only [srW] at l0
    omega
  | srClosed _ i hi hc =>
    have l0 := le_tot srW _ _ _ hi
    simp only [srW] at l0
    omega
  | clCheckTr _ i hi =>
    (try simp only [St.setDone, St.setBg, ↓reduceIte, Bool.false_eq_true, Bool.and_false, Bool.and_true, Bool.false_and, Bool.true_and]) <;> (repeat' split) <;> simp_all
  | clLockTr _ i hi hl =>
    (try simp only [St.setDone, St.setBg, ↓reduceIte, Bool.false_eq_true, Bool.and_false, Bool.and_true, Bool.false_and, Bool.true_and]) <;> (repeat' split) <;> simp_all
  | clBody _ i hi =>
    (try simp only [St.setDone, St.setBg, ↓reduceIte, Bool.false_eq_true, Bool.and_false, Bool.and_true, Bool.false_and, Bool.true_and]) <;> (repeat' split) <;> simp_all
  | clAcq _ i hi ht =>
    (try simp only [St.setDone, St.setBg, ↓reduceIte, Bool.false_eq_true, Bool.and_false, Bool.and_true, Bool.false_and, Bool.true_and]) <;> (repeat' split) <;> simp_all
  | clAcqKept _ i hi he hk hs =>
    (try simp only [St.setDone, St.setBg, ↓reduceIte, Bool.false_eq_true, Bool.and_false, Bool.and_true, Bool.false_and, Bool.true_and]) <;> (repeat' split) <;> simp_all
  | clWait _ i hi hm ht =>
    (try simp only [St.setDone, St.setBg, ↓reduceIte, Bool.false_eq_true, Bool.and_false, Bool.and_true, Bool.false_and, Bool.true_and]) <;> (repeat' split) <;> simp_all
  | ehAcquire _ he ht =>
    (try simp only [St.setDone, St.setBg, ↓reduceIte, Bool.false_eq_true, Bool.and_false, Bool.and_true, Bool.false_and, Bool.true_and]) <;> (repeat' split) <;> simp_all
  | ehClose _ he hc =>
    (try simp only [St.setDone, St.setBg, ↓reduceIte, Bool.false_eq_true, Bool.and_false, Bool.and_true, Bool.false_and, Bool.true_and]) <;> (repeat' split) <;> simp_all
  | ehTake _ he ht =>
    (try simp only [St.setDone, St.setBg, ↓reduceIte, Bool.false_eq_true, Bool.and_false, Bool.and_true, Bool.false_and, Bool.true_and]) <;> (repeat' split) <;> simp_all
  | bgExitIdle _ b hb hc =>
    (try simp only [St.setDone, St.setBg, ↓reduceIte, Bool.false_eq_true, Bool.and_false, Bool.and_true, Bool.false_and, Bool.true_and]) <;> (repeat' split) <;> simp_all
  | bgExitParked _ hb hc =>
    (try simp only [St.setDone, St.setBg, ↓reduceIte, Bool.false_eq_true, Bool.and_false, Bool.and_true, Bool.false_and, Bool.true_and]) <;> (repeat' split) <;> simp_all
  | bgWorkCorrupt _ b w hb hk =>
    (try simp only [St.setDone, St.setBg, ↓reduceIte, Bool.false_eq_true, Bool.and_false, Bool.and_true, Bool.false_and, Bool.true_and]) <;> (repeat' split) <;> simp_all
  | bgCommitCorrupt _ b w hb hk =>
    (try simp only [St.setDone, St.setBg, ↓reduceIte, Bool.false_eq_true, Bool.and_false, Bool.and_true, Bool.false_and, Bool.true_and]) <;> (repeat' split) <;> simp_all
  | bgSetErrCorrupt _ b w c hb he =>
    (try simp only [St.setDone, St.setBg, ↓reduceIte, Bool.false_eq_true, Bool.and_false, Bool.and_true, Bool.false_and, Bool.true_and]) <;> (repeat' split) <;> simp_all
  | bgWorkOk _ b w hb =>
    (try simp only [St.setDone, St.setBg, ↓reduceIte, Bool.false_eq_true, Bool.and_false, Bool.and_true, Bool.false_and, Bool.true_and]) <;> (repeat' split) <;> simp_all
  | bgWorkFail _ b w hb =>
    (try simp only [St.setDone, St.setBg, ↓reduceIte, Bool.false_eq_true, Bool.and_false, Bool.and_true, Bool.false_and, Bool.true_and]) <;> (repeat' split) <;> simp_all
  | bgCommitOk _ b w hb =>
    (try simp only [St.setDone, St.setBg, ↓reduceIte, Bool.false_eq_true, Bool.and_false, Bool.and_true, Bool.false_and, Bool.true_and]) <;> (repeat' split) <;> simp_all
  | bgCommitFail _ b w hb =>
    (try simp only [St.setDone, St.setBg, ↓reduceIte, Bool.false_eq_true, Bool.and_false, Bool.and_true, Bool.false_and, Bool.true_and]) <;> (repeat' split) <;> simp_all
  | bgSetErr _ b w ok c hb he =>
    (try simp only [St.setDone, St.setBg, ↓reduceIte, Bool.false_eq_true, Bool.and_false, Bool.and_true, Bool.false_and, Bool.true_and]) <;> (repeat' split) <;> simp_all
  | bgSetErrPer _ b w c hb he =>
    (try simp only [St.setDone, St.setBg, ↓reduceIte, Bool.false_eq_true, Bool.and_false, Bool.and_true, Bool.false_and, Bool.true_and]) <;> (repeat' split) <;> simp_all
  | bgBackoff _ b w c hb =>
    (try simp only [St.setDone, St.setBg, ↓reduceIte, Bool.false_eq_true, Bool.and_false, Bool.and_true, Bool.false_and, Bool.true_and]) <;> (repeat' split) <;> simp_all
  | bgLockClk _ b w hb hl =>
    (try simp only [St.setDone, St.setBg, ↓reduceIte, Bool.false_eq_true, Bool.and_false, Bool.and_true, Bool.false_and, Bool.true_and]) <;> (repeat' split) <;> simp_all
  | bgAck _ b w hb =>
    (try simp only [St.setDone, St.setBg, ↓reduceIte, Bool.false_eq_true, Bool.and_false, Bool.and_true, Bool.false_and, Bool.true_and]) <;> (repeat' split) <;> simp_all
  | bgExit _ b w ph hb hx =>
    (try simp only [St.setDone, St.setBg, ↓reduceIte, Bool.false_eq_true, Bool.and_false, Bool.and_true, Bool.false_and, Bool.true_and]) <;> (repeat' split) <;> simp_all

end GoLevel.Locks
