import GoLevel.Proofs.DurableBytesDisk
import GoLevel.Proofs.DurableBytesSilent
import GoLevel.Proofs.DurableView
/-!
Concrete byte-level disks for the non-vacuity examples of `Props/C04.lean` (byte counts of their records, and
which records lie wholly within a given cut).
-/
namespace GoLevel.Dur
open GoLevel GoLevel.Journal GoLevel.Manifest
open GoLevel.Gen (journalBlockSize journalHeaderSize)

instance (r : Batch.Rec) : Decidable r.valid := by unfold Batch.Rec.valid; infer_instance
instance (g : Grp) : Decidable g.Encodable := by unfold Grp.Encodable; infer_instance
instance (g : Grp) : Decidable g.wf := by unfold Grp.wf; infer_instance
instance (r : MRec) : Decidable r.Encodable :=
  decidable_of_iff (r.jn.all (fun j => decide (j < 2 ^ 63)) = true ∧ r.sq.all (fun s => decide (s < 2 ^ 64)) = true ∧
      r.nf < 2 ^ 63 ∧ (∀ n ∈ r.added, n < 2 ^ 63) ∧ (∀ n ∈ r.deleted, n < 2 ^ 63))
    (by unfold MRec.Encodable; cases r.jn <;> cases r.sq <;> simp)
instance (d : Disk) : Decidable d.Encodable := by unfold Disk.Encodable; infer_instance

theorem uvarint_small (x : Nat) (h : x < 128) : uvarint x = [x.toUInt8] := by
  rw [uvarint]; simp [h]

/-- comparer name `"c"`; every table at level 0, 100 bytes, empty key bounds -/
def exCtx : EncCtx := ⟨[99], fun n => ⟨0, n, 100, [], []⟩⟩

theorem exCtx_valid : exCtx.Valid :=
  ⟨by decide, fun _ => ⟨by simp [exCtx], by simp [exCtx], by simp [exCtx], by simp [exCtx]⟩⟩

def gA : Grp := ⟨1, [⟨1, [107], [118]⟩], true⟩
def gB : Grp := ⟨2, [⟨1, [108], [119]⟩], true⟩
def gC : Grp := ⟨3, [⟨1, [109], [120]⟩, ⟨0, [107], []⟩], false⟩
def gD : Grp := ⟨5, [⟨1, [110], [121]⟩], false⟩

def mSnap : MRec := { snapshot := true, jn := some 0, sq := some 0, nf := 2 }
def mFirst : MRec := { jn := some 2, sq := some 0, nf := 3 }
/-- the edit of the flush of journal 3 into table 4 -/
def mFlush : MRec := { jn := some 5, sq := some 1, nf := 6, added := [4] }

/-- A DB in the middle of a flush: manifest 1 (snapshot, first commit; the edit of the flush appended but not
    synced), the frozen journal 3 (one synced group), the current journal 5 (one synced group, two written
    without `Sync`), table 4 (the flushed group, synced). -/
def exDisk : Disk :=
  { current := some 1
    manifests := [(1, ⟨[mSnap, mFirst], [mFlush]⟩)]
    journals := [(3, ⟨[gA], []⟩), (5, ⟨[gB], [gC, gD]⟩)]
    tables := [(4, ⟨[gA], true, false⟩)] }

theorem exDisk_encodable : exDisk.Encodable := by decide

theorem len_gA : (encGrpBytes gA).length = 17 := by
  simp [encGrpBytes, Batch.encode, Batch.encodeBody, Batch.encodeRec, gA, uvarint_small, le64, le32, leN, Gen.keyTypeVal]
theorem len_gB : (encGrpBytes gB).length = 17 := by
  simp [encGrpBytes, Batch.encode, Batch.encodeBody, Batch.encodeRec, gB, uvarint_small, le64, le32, leN, Gen.keyTypeVal]
theorem len_gC : (encGrpBytes gC).length = 20 := by
  simp [encGrpBytes, Batch.encode, Batch.encodeBody, Batch.encodeRec, gC, uvarint_small, le64, le32, leN, Gen.keyTypeVal]
theorem len_gD : (encGrpBytes gD).length = 17 := by
  simp [encGrpBytes, Batch.encode, Batch.encodeBody, Batch.encodeRec, gD, uvarint_small, le64, le32, leN, Gen.keyTypeVal]

/-- journal 5 holds 24 synced bytes and 27 + 24 unsynced ones.  10 unsynced bytes: the cut is in the payload of
    the first unsynced record; 30: in the header of the second one; 39: in its payload. -/
theorem kept_j5_10 : keptRecs [encGrpBytes gB] [encGrpBytes gC, encGrpBytes gD] 10 = 0 := by
  simp [keptRecs, Journal.fits, Journal.encode, Journal.encodeFrom, Journal.emitRecord, Journal.pad,
    Journal.emitChunks, chunk_length, len_gB, len_gC, Gen.journalBlockSize, Gen.journalHeaderSize]
theorem kept_j5_30 : keptRecs [encGrpBytes gB] [encGrpBytes gC, encGrpBytes gD] 30 = 1 := by
  simp [keptRecs, Journal.fits, Journal.encode, Journal.encodeFrom, Journal.emitRecord, Journal.pad,
    Journal.emitChunks, chunk_length, len_gB, len_gC, len_gD, Gen.journalBlockSize, Gen.journalHeaderSize]
theorem kept_j5_39 : keptRecs [encGrpBytes gB] [encGrpBytes gC, encGrpBytes gD] 39 = 1 := by
  simp [keptRecs, Journal.fits, Journal.encode, Journal.encodeFrom, Journal.emitRecord, Journal.pad,
    Journal.emitChunks, chunk_length, len_gB, len_gC, len_gD, Gen.journalBlockSize, Gen.journalHeaderSize]
/-- journal 3 has no unsynced byte -/
theorem kept_j3 (k : Nat) : keptRecs [encGrpBytes gA] [] k = 0 := by
  have := Journal.fits_le 0 ([encGrpBytes gA] ++ []) ((Journal.encode [encGrpBytes gA]).length + k)
  simp only [keptRecs, List.append_nil, List.length_cons, List.length_nil] at this ⊢
  omega

theorem len_mSnap : (encMRecBytes exCtx mSnap).length = 9 := by
  simp [encMRecBytes, encMRec, mSnap, exCtx, SessionRecord.encode, SessionRecord.fields, Field.encode, putBytes,
    uvarint_small, Gen.recComparer, Gen.recJournalNum, Gen.recNextFileNum, Gen.recSeqNum]
theorem len_mFirst : (encMRecBytes exCtx mFirst).length = 6 := by
  simp [encMRecBytes, encMRec, mFirst, exCtx, SessionRecord.encode, SessionRecord.fields, Field.encode,
    uvarint_small, Gen.recJournalNum, Gen.recNextFileNum, Gen.recSeqNum]
theorem len_mFlush : (encMRecBytes exCtx mFlush).length = 12 := by
  simp [encMRecBytes, encMRec, mFlush, exCtx, SessionRecord.encode, SessionRecord.fields, Field.encode, putBytes,
    uvarint_small, Gen.recJournalNum, Gen.recNextFileNum, Gen.recSeqNum, Gen.recAddTable]

/-- manifest 1: 10 unsynced bytes cut the edit (7 + 12 bytes) in its payload -/
theorem kept_m1_10 :
    keptRecs [encMRecBytes exCtx mSnap, encMRecBytes exCtx mFirst] [encMRecBytes exCtx mFlush] 10 = 0 := by
  simp [keptRecs, Journal.fits, Journal.encode, Journal.encodeFrom, Journal.emitRecord, Journal.pad,
    Journal.emitChunks, chunk_length, len_mSnap, len_mFirst, len_mFlush, Gen.journalBlockSize, Gen.journalHeaderSize]
theorem kept_m1_19 :
    keptRecs [encMRecBytes exCtx mSnap, encMRecBytes exCtx mFirst] [encMRecBytes exCtx mFlush] 19 = 1 := by
  simp [keptRecs, Journal.fits, Journal.encode, Journal.encodeFrom, Journal.emitRecord, Journal.pad,
    Journal.emitChunks, chunk_length, len_mSnap, len_mFirst, len_mFlush, Gen.journalBlockSize, Gen.journalHeaderSize]

/-! ### a record that spans two blocks -/

theorem restChunks_length_ge (x : Bytes) : x.length ≤ (restChunks x).1.length := by
  have h7 := headerSize_eq
  have hlt := headerSize_lt_blockSize
  fun_induction restChunks x with
  | case1 x h => simp [chunk_length]
  | case2 x h r ih =>
    simp only [List.length_append, chunk_length, List.length_take, List.length_drop, r] at ih ⊢
    omega

theorem emitRecord_length_ge (pos : Nat) (r : Bytes) : r.length ≤ (emitRecord pos r).1.length := by
  have h7 := headerSize_eq
  have hlt := headerSize_lt_blockSize
  unfold emitRecord emitChunks
  simp only
  split
  · simp only [List.length_append, chunk_length]; omega
  · have := restChunks_length_ge (r.drop (journalBlockSize - ((pad pos).2 + journalHeaderSize)))
    simp only [List.length_append, chunk_length, List.length_take, List.length_drop] at this ⊢
    omega

/-- a record longer than the surviving bytes does not survive -/
theorem keptRecs_big (r : Bytes) (U : List Bytes) (k : Nat) (h : k < r.length) : keptRecs [] (r :: U) k = 0 := by
  have := emitRecord_length_ge 0 r
  simp only [keptRecs, Journal.fits, Journal.encode, Journal.encodeFrom, List.nil_append, List.length_nil,
    Nat.zero_add, Nat.sub_zero]
  rw [if_neg (by omega)]

/-- a put of a 40000-byte value: its journal record fills block 0 and continues in block 1 -/
def gBig : Grp := ⟨1, [⟨1, [107], List.replicate 40000 7⟩], false⟩

def bigDisk : Disk :=
  { current := some 1
    manifests := [(1, ⟨[mSnap, mFirst], []⟩)]
    journals := [(2, ⟨[], [gBig, gD]⟩)] }

theorem gBig_encodable : gBig.Encodable := by
  refine ⟨by decide, by decide, ?_⟩
  intro r hr
  have e : r = ⟨1, [107], List.replicate 40000 7⟩ := List.mem_singleton.1 hr
  subst e
  refine ⟨Or.inr (by decide), by decide, ?_⟩
  show (List.replicate 40000 (7 : UInt8)).length < 2 ^ 64
  rw [List.length_replicate]; decide

theorem bigDisk_encodable : bigDisk.Encodable := by
  refine ⟨by decide, ?_⟩
  intro p hp g hg
  have e : p = (2, ⟨[], [gBig, gD]⟩) := List.mem_singleton.1 hp
  subst e
  have hg' : g = gBig ∨ g = gD := by simpa [LogFile.all] using hg
  rcases hg' with rfl | rfl
  · exact gBig_encodable
  · decide

theorem encodeRec_length_ge (r : Batch.Rec) (h : r.kind = Gen.keyTypeVal) : r.val.length ≤ (Batch.encodeRec r).length := by
  simp only [Batch.encodeRec, h, if_true, List.length_cons, List.length_append]; omega

theorem len_gBig : 40000 ≤ (encGrpBytes gBig).length := by
  have e : encGrpBytes gBig = le64 1 ++ le32 1 ++ (Batch.encodeRec ⟨1, [107], List.replicate 40000 7⟩ ++ []) := rfl
  have := encodeRec_length_ge ⟨1, [107], List.replicate 40000 7⟩ (by decide)
  rw [e]
  simp only [List.length_append, List.length_nil] at this ⊢
  rw [List.length_replicate] at this
  omega

/-- nothing of the two-block record survives a cut at the block boundary (32768 bytes) or in the header of its
    second chunk (32771) -/
theorem kept_big (k : Nat) (hk : k < 40000) : keptRecs [] [encGrpBytes gBig, encGrpBytes gD] k = 0 :=
  keptRecs_big _ _ k (by have := len_gBig; omega)

end GoLevel.Dur
