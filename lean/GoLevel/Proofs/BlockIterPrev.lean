import GoLevel.Proofs.BlockIterNext
/-!
# `blockIter.Prev` over a well-formed block: `block.restartIndex`, the cache-building loop, `prevBuild`

The cache (`prevNode`, `prevKeys`) after `Prev` rebuilt from restart slot `q` towards entry `t`:
`prevNode = off (rs q) :: cNodes s (t-1-s)`, `prevKeys = cKeys s (t-1-s)` with `s = max (rs q) lo` — one node
(keys offset, value offset, value length) per entry in `[s, t-1)`; the current entry `t-1` is in `key`/`value`.
-/
namespace GoLevel.C13
open GoLevel

variable {b : BlockR} {kvs : List KV} {off : Nat → Nat} {R : Nat} {rs : Nat → Nat}

/-- `prevKeys` holding the keys of entries `s … s+c-1` -/
def cKeys (kvs : List KV) (s : Nat) : Nat → Bytes
  | 0 => []
  | c + 1 => cKeys kvs s c ++ kAt kvs (s + c)

/-- `prevNode` (without its first element) holding the nodes of entries `s … s+c-1` -/
def cNodes (kvs : List KV) (off : Nat → Nat) (s : Nat) : Nat → List Nat
  | 0 => []
  | c + 1 => cNodes kvs off s c ++
      [(cKeys kvs s c).length, off (s + c + 1) - (vAt kvs (s + c)).length, (vAt kvs (s + c)).length]

theorem cNodes_length (s c : Nat) : (cNodes kvs off s c).length = 3 * c := by
  induction c with
  | zero => rfl
  | succ c ih => simp [cNodes, ih]; omega

/-! ## `block.restartIndex` -/

theorem sortSearch_spec (f : Nat → Option Bool) (p : Nat → Bool) (n : Nat) (hf : ∀ h, h < n → f h = some (p h)) :
    ∃ s, sortSearch n f = some s ∧ s ≤ n ∧ (0 < s → p (s - 1) = false) ∧ (s < n → p s = true) := by
  obtain ⟨r, h1, _, h3, h4, h5⟩ := searchLoop_spec f p n 0 n (by omega) (by omega) (fun h _ hh => hf h hh)
  exact ⟨r, h1, h3, h4, h5⟩

/-- `restartIndex(r, q1, off c)` is the last restart slot in `[r, q1)` that points at or before entry `c` -/
theorem restartIndex_spec (L : Layout b kvs off R rs) {r q1 c : Nat} (hr : r < q1) (hq1 : q1 ≤ R)
    (hc : c ≤ kvs.length) (hrc : rs r ≤ c) :
    ∃ q, b.restartIndex r q1 (off c) = some q ∧ r ≤ q ∧ q < q1 ∧ rs q ≤ c ∧ (q + 1 < q1 → c < rs (q + 1)) := by
  obtain ⟨s, hs, hsn, hfalse, htrue⟩ := sortSearch_spec
    (fun i => some (decide (b.restartOffset (r + i) > off c))) (fun i => decide (rs (r + i) > c)) (q1 - r)
    (by
      intro h hh
      have hlt : r + h < R := by omega
      rw [L.roff _ hlt]
      congr 1
      have := L.off_lt_iff hc (L.rs_le_len hlt)
      simp only [gt_iff_lt, decide_eq_decide]
      exact this)
  have hs1 : 0 < s := by
    apply Classical.byContradiction
    intro h0
    have h0' : s = 0 := by omega
    subst h0'
    have := htrue (by omega)
    simp at this
    omega
  refine ⟨s + r - 1, ?_, by omega, by omega, ?_, ?_⟩
  · unfold BlockR.restartIndex
    rw [hs]
    simp only
    rw [if_neg (by omega)]
  · have := hfalse hs1
    simp only [gt_iff_lt, decide_eq_false_iff_not, Nat.not_lt] at this
    have e : s + r - 1 = r + (s - 1) := by omega
    rw [e]; exact this
  · intro hq
    have := htrue (by omega)
    simp only [gt_iff_lt, decide_eq_true_eq] at this
    have e : s + r - 1 + 1 = r + s := by omega
    rw [e]; exact this

/-! ## the cache-building loop -/

/-- the loop of `Prev` from entry `j` (restart entry `m ≤ j`) up to the target offset `off t` -/
theorem prevLoop_ok (L : Layout b kvs off R rs) (lo t m : Nat) (ht : t ≤ kvs.length) (hlo : lo < t) :
    ∀ (d : Nat) (it : BIter) (j fuel : Nat), t - j = d → m ≤ j → j < t →
      it.offsetRealStart = off lo → it.offset = off t → KeyOK kvs R rs j it.key →
      (max m lo < j → it.key = kAt kvs (j - 1)) →
      it.value = (if j ≤ max m lo then none else some (vAt kvs (j - 1))) →
      it.prevNode = off m :: cNodes kvs off (max m lo) (j - 1 - max m lo) →
      it.prevKeys = cKeys kvs (max m lo) (j - 1 - max m lo) →
      d < fuel →
      BIter.prevLoop b fuel (off j) it = some (off t,
        { it with key := kAt kvs (t - 1), value := some (vAt kvs (t - 1)),
                  prevNode := off m :: cNodes kvs off (max m lo) (t - 1 - max m lo),
                  prevKeys := cKeys kvs (max m lo) (t - 1 - max m lo) }) := by
  intro d
  induction d with
  | zero => intro it j fuel hd hm hj; omega
  | succ d ih =>
    intro it j fuel hd hm hj hreal hoff hk hkey hval hnode hkeys hf
    cases fuel with
    | zero => omega
    | succ fuel =>
      obtain ⟨sh, he, hsh, hdec⟩ := L.decode (by omega : j < kvs.length) hk
      have hsucc := L.off_succ (by omega : j < kvs.length)
      -- the iterator after the `if offset >= i.offsetRealStart { … }` block
      by_cases hjl : j < lo
      · -- below the slice: nothing is recorded
        have hnge : ¬ (off j ≥ it.offsetRealStart) := by
          rw [hreal]; have := L.off_lt hjl (by omega); omega
        have hjs : j + 1 ≤ max m lo := by omega
        have hnt : ¬ (off (j + 1) ≥ it.offset) := by
          rw [hoff]; have := L.off_lt (i := j + 1) (j := t) (by omega) ht; omega
        have hres := ih { it with key := kAt kvs j } (j + 1) fuel (by omega) (by omega) (by omega) hreal hoff
          (Or.inr ⟨by omega, by simp⟩) (by intro h; omega)
          (by simp only [hval]; rw [if_pos (by omega), if_pos hjs])
          (by simp only [hnode]; congr 2; omega)
          (by simp only [hkeys]; congr 1; omega) (by omega)
        rw [BIter.prevLoop, he]
        simp only [if_neg hnge, if_neg hsh, hdec, hsucc, if_neg hnt]
        rw [hres]
      · have hge : off j ≥ it.offsetRealStart := by
          rw [hreal]; exact L.off_le (by omega) (by omega)
        by_cases hjs : j = max m lo
        · -- the first entry inside the slice: no node yet
          have hv : it.value = none := by rw [hval, if_pos (by omega)]
          by_cases hlast : j + 1 = t
          · have hget : off (j + 1) ≥ it.offset := by rw [hoff, hlast]; exact Nat.le_refl _
            rw [BIter.prevLoop, he]
            simp only [if_pos hge, hv, if_neg hsh, hdec, hsucc, if_pos hget]
            have e1 : t - 1 = j := by omega
            have e2 : j - max m lo = 0 := by omega
            have e3 : j - 1 - max m lo = 0 := by omega
            rw [if_neg (by rw [hoff, hlast]; simp), hlast, e1, e2]
            rw [e3] at hnode hkeys
            simp only [cNodes, cKeys] at hnode hkeys ⊢
            rw [← hnode, ← hkeys]
          · have hnt : ¬ (off (j + 1) ≥ it.offset) := by
              rw [hoff]; have := L.off_lt (i := j + 1) (j := t) (by omega) ht; omega
            have hres := ih { it with key := kAt kvs j, value := some (vAt kvs j) } (j + 1) fuel (by omega)
              (by omega) (by omega) hreal hoff (Or.inr ⟨by omega, by simp⟩) (by intro _; simp)
              (by simp only; rw [if_neg (by omega)]; simp)
              (by simp only [hnode]; congr 2; omega)
              (by simp only [hkeys]; congr 1; omega) (by omega)
            rw [BIter.prevLoop, he]
            simp only [if_pos hge, hv, if_neg hsh, hdec, hsucc, if_neg hnt]
            rw [hres]
        · -- a further entry: the previous one gets its node
          have hjs' : max m lo < j := by omega
          have hv : it.value = some (vAt kvs (j - 1)) := by rw [hval, if_neg (by omega)]
          have hk1 := hkey hjs'
          have hcn : cNodes kvs off (max m lo) (j - max m lo) =
              cNodes kvs off (max m lo) (j - 1 - max m lo) ++
                [(cKeys kvs (max m lo) (j - 1 - max m lo)).length, off j - (vAt kvs (j - 1)).length,
                 (vAt kvs (j - 1)).length] := by
            have e : j - max m lo = (j - 1 - max m lo) + 1 := by omega
            rw [e, cNodes]
            have e2 : max m lo + (j - 1 - max m lo) = j - 1 := by omega
            have e3 : j - 1 + 1 = j := by omega
            rw [e2, e3]
          have hck : cKeys kvs (max m lo) (j - max m lo) =
              cKeys kvs (max m lo) (j - 1 - max m lo) ++ kAt kvs (j - 1) := by
            have e : j - max m lo = (j - 1 - max m lo) + 1 := by omega
            rw [e, cKeys]
            have e2 : max m lo + (j - 1 - max m lo) = j - 1 := by omega
            rw [e2]
          by_cases hlast : j + 1 = t
          · have hget : off (j + 1) ≥ it.offset := by rw [hoff, hlast]; exact Nat.le_refl _
            rw [BIter.prevLoop, he]
            simp only [if_pos hge, hv, if_neg hsh, hdec, hsucc, if_pos hget]
            have e1 : t - 1 = j := by omega
            rw [if_neg (by rw [hoff, hlast]; simp), hlast, e1, hcn, hck, hnode, hkeys, hk1]
            simp
          · have hnt : ¬ (off (j + 1) ≥ it.offset) := by
              rw [hoff]; have := L.off_lt (i := j + 1) (j := t) (by omega) ht; omega
            have hres := ih
              { it with key := kAt kvs j, value := some (vAt kvs j)
                        prevNode := it.prevNode ++ [it.prevKeys.length, off j - (vAt kvs (j - 1)).length,
                          (vAt kvs (j - 1)).length]
                        prevKeys := it.prevKeys ++ it.key } (j + 1) fuel (by omega)
              (by omega) (by omega) hreal hoff (Or.inr ⟨by omega, by simp⟩) (by intro _; simp)
              (by simp only; rw [if_neg (by omega)]; simp)
              (by simp only [hnode, hkeys]
                  have e : j + 1 - 1 - max m lo = j - max m lo := by omega
                  rw [e, hcn]; simp)
              (by simp only [hkeys, hk1]
                  have e : j + 1 - 1 - max m lo = j - max m lo := by omega
                  rw [e, hck]) (by omega)
            rw [BIter.prevLoop, he]
            simp only [if_pos hge, hv, if_neg hsh, hdec, hsucc, if_neg hnt]
            rw [hres]

/-! ## `prevBuild`: the tail of `Prev` -/

/-- rebuilding towards the entry that starts at `off t` from restart slot `ri` (or the slot before, when slot
`ri` points at `t` itself): the iterator lands on entry `t - 1` with the cache of the entries before it -/
theorem prevBuild_ok (L : Layout b kvs off R rs) {it : BIter} {lo t ri : Nat}
    (hreal : it.offsetRealStart = off lo) (hoff : it.offset = off t) (ht : t ≤ kvs.length) (hlo : lo < t)
    (hri : ri < R) (hle : rs ri ≤ t) (hnode : it.prevNode = []) (hkeys : it.prevKeys = []) :
    BIter.prevBuild b ri it = (true,
      { it with key := kAt kvs (t - 1), value := some (vAt kvs (t - 1))
                prevNode := off (rs (if rs ri = t then ri - 1 else ri)) ::
                  cNodes kvs off (max (rs (if rs ri = t then ri - 1 else ri)) lo)
                    (t - 1 - max (rs (if rs ri = t then ri - 1 else ri)) lo)
                prevKeys := cKeys kvs (max (rs (if rs ri = t then ri - 1 else ri)) lo)
                    (t - 1 - max (rs (if rs ri = t then ri - 1 else ri)) lo)
                restartIndex := (if rs ri = t then ri - 1 else ri), offset := off t }) := by
  have hiff : (b.restartOffset ri = it.offset) ↔ rs ri = t := by
    rw [L.roff ri hri, hoff]
    constructor
    · exact L.off_inj (L.rs_le_len hri) ht
    · intro h; rw [h]
  have hri0 : rs ri = t → 0 < ri := by
    intro h
    apply Classical.byContradiction
    intro h0
    have : ri = 0 := by omega
    subst this
    have := L.rs0
    omega
  have hq : (if b.restartOffset ri = it.offset then ri - 1 else ri) = (if rs ri = t then ri - 1 else ri) := by
    by_cases h : rs ri = t
    · rw [if_pos h, if_pos (hiff.2 h)]
    · rw [if_neg h, if_neg (fun h' => h (hiff.1 h'))]
  generalize hqd : (if rs ri = t then ri - 1 else ri) = q at hq ⊢
  have hqR : q < R := by subst hqd; split <;> omega
  have hqt : rs q < t := by
    subst hqd
    split
    · rename_i h
      have := L.rs_lt (p := ri - 1) (q := ri) (by have := hri0 h; omega) hri
      omega
    · rename_i h; omega
  have hnot : ¬ (b.restartOffset ri = it.offset ∧ ri = 0) := by
    rintro ⟨h1, h2⟩
    have := hri0 (hiff.1 h1); omega
  have hloop := prevLoop_ok L lo t (rs q) ht hlo (t - rs q)
    { it with key := [], value := none, prevNode := it.prevNode ++ [off (rs q)] } (rs q) (b.restartsOffset + 1)
    rfl (Nat.le_refl _) hqt hreal hoff (Or.inl ⟨q, hqR, rfl⟩) (by intro h; omega)
    (by simp only; rw [if_pos (by omega)])
    (by simp only [hnode, List.nil_append]
        have e : rs q - 1 - max (rs q) lo = 0 := by omega
        rw [e]; rfl)
    (by simp only [hkeys]
        have e : rs q - 1 - max (rs q) lo = 0 := by omega
        rw [e]; rfl)
    (by have := L.fuel_ok ht; omega)
  unfold BIter.prevBuild
  simp only [if_neg hnot, hq, L.roff q hqR]
  rw [hloop]

end GoLevel.C13
