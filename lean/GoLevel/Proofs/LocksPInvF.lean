import GoLevel.Proofs.LocksPInv
/-! One of the invariants of `LocksPInv.lean` is preserved by every step (three fixes, `compactionError` as coded,
and the fourth fix or no `SetReadOnly`). -/
namespace GoLevel.Locks
open CompErr
set_option linter.unusedSimpArgs false

theorem step_cwlOk (s t : St) (f : Bool) (cfg : Cfg) (h : Step cfg f s t) (inv : CwlOk cfg s) : CwlOk cfg t := by
  unfold CwlOk at *
  intro hs
  have inv := inv hs
  have h4 : True := trivial
  have hm : True := trivial
  cases h with
  | startPut _ i hi =>
    clear h4
    have l0 := le_tot srW _ _ _ hi
    have l1 := le_tot lgW _ _ _ hi
    have l2 := le_tot clAllW _ _ _ hi
    have l3 := le_tot clPreW _ _ _ hi
    (try simp only [St.setDone, St.setBg, ↓reduceIte, Bool.false_eq_true, Bool.and_false, Bool.and_true, Bool.false_and, Bool.true_and]) <;> (repeat' split) <;> simp_all [tot_set_eq _ _ _ _ _ hi, tot_ackWs_srw', tot_ackWs_lgw, tot_ackWs_clall, tot_ackWs_clpre, b2n_true, b2n_false, clearW_idle, clearW_exited, clearW_parked, clearW_eq_exited, clearW_eq_parked, srW, lgW, clAllW, clPreW, St.bg, onOk, onErr, selNext, afterSetErr, srAllW, nextC, roSets] <;> (try omega) <;> (try (intro _; first | exact inv (by omega) | exact Or.inl (inv (by omega))))
  | startWrite _ i hi =>
    clear h4
    have l0 := le_tot srW _ _ _ hi
    have l1 := le_tot lgW _ _ _ hi
    have l2 := le_tot clAllW _ _ _ hi
    have l3 := le_tot clPreW _ _ _ hi
    (try simp only [St.setDone, St.setBg, ↓reduceIte, Bool.false_eq_true, Bool.and_false, Bool.and_true, Bool.false_and, Bool.true_and]) <;> (repeat' split) <;> simp_all [tot_set_eq _ _ _ _ _ hi, tot_ackWs_srw', tot_ackWs_lgw, tot_ackWs_clall, tot_ackWs_clpre, b2n_true, b2n_false, clearW_idle, clearW_exited, clearW_parked, clearW_eq_exited, clearW_eq_parked, srW, lgW, clAllW, clPreW, St.bg, onOk, onErr, selNext, afterSetErr, srAllW, nextC, roSets] <;> (try omega) <;> (try (intro _; first | exact inv (by omega) | exact Or.inl (inv (by omega))))
  | startOtx _ i hi =>
    clear h4
    have l0 := le_tot srW _ _ _ hi
    have l1 := le_tot lgW _ _ _ hi
    have l2 := le_tot clAllW _ _ _ hi
    have l3 := le_tot clPreW _ _ _ hi
    (try simp only [St.setDone, St.setBg, ↓reduceIte, Bool.false_eq_true, Bool.and_false, Bool.and_true, Bool.false_and, Bool.true_and]) <;> (repeat' split) <;> simp_all [tot_set_eq _ _ _ _ _ hi, tot_ackWs_srw', tot_ackWs_lgw, tot_ackWs_clall, tot_ackWs_clpre, b2n_true, b2n_false, clearW_idle, clearW_exited, clearW_parked, clearW_eq_exited, clearW_eq_parked, srW, lgW, clAllW, clPreW, St.bg, onOk, onErr, selNext, afterSetErr, srAllW, nextC, roSets] <;> (try omega) <;> (try (intro _; first | exact inv (by omega) | exact Or.inl (inv (by omega))))
  | startCommit _ i hi hu =>
    clear h4
    have l0 := le_tot srW _ _ _ hi
    have l1 := le_tot lgW _ _ _ hi
    have l2 := le_tot clAllW _ _ _ hi
    have l3 := le_tot clPreW _ _ _ hi
    (try simp only [St.setDone, St.setBg, ↓reduceIte, Bool.false_eq_true, Bool.and_false, Bool.and_true, Bool.false_and, Bool.true_and]) <;> (repeat' split) <;> simp_all [tot_set_eq _ _ _ _ _ hi, tot_ackWs_srw', tot_ackWs_lgw, tot_ackWs_clall, tot_ackWs_clpre, b2n_true, b2n_false, clearW_idle, clearW_exited, clearW_parked, clearW_eq_exited, clearW_eq_parked, srW, lgW, clAllW, clPreW, St.bg, onOk, onErr, selNext, afterSetErr, srAllW, nextC, roSets] <;> (try omega) <;> (try (intro _; first | exact inv (by omega) | exact Or.inl (inv (by omega))))
  | startDiscard _ i hi hu =>
    clear h4
    have l0 := le_tot srW _ _ _ hi
    have l1 := le_tot lgW _ _ _ hi
    have l2 := le_tot clAllW _ _ _ hi
    have l3 := le_tot clPreW _ _ _ hi
    (try simp only [St.setDone, St.setBg, ↓reduceIte, Bool.false_eq_true, Bool.and_false, Bool.and_true, Bool.false_and, Bool.true_and]) <;> (repeat' split) <;> simp_all [tot_set_eq _ _ _ _ _ hi, tot_ackWs_srw', tot_ackWs_lgw, tot_ackWs_clall, tot_ackWs_clpre, b2n_true, b2n_false, clearW_idle, clearW_exited, clearW_parked, clearW_eq_exited, clearW_eq_parked, srW, lgW, clAllW, clPreW, St.bg, onOk, onErr, selNext, afterSetErr, srAllW, nextC, roSets] <;> (try omega) <;> (try (intro _; first | exact inv (by omega) | exact Or.inl (inv (by omega))))
  | startCR _ i hi =>
    clear h4
    have l0 := le_tot srW _ _ _ hi
    have l1 := le_tot lgW _ _ _ hi
    have l2 := le_tot clAllW _ _ _ hi
    have l3 := le_tot clPreW _ _ _ hi
    (try simp only [St.setDone, St.setBg, ↓reduceIte, Bool.false_eq_true, Bool.and_false, Bool.and_true, Bool.false_and, Bool.true_and]) <;> (repeat' split) <;> simp_all [tot_set_eq _ _ _ _ _ hi, tot_ackWs_srw', tot_ackWs_lgw, tot_ackWs_clall, tot_ackWs_clpre, b2n_true, b2n_false, clearW_idle, clearW_exited, clearW_parked, clearW_eq_exited, clearW_eq_parked, srW, lgW, clAllW, clPreW, St.bg, onOk, onErr, selNext, afterSetErr, srAllW, nextC, roSets] <;> (try omega) <;> (try (intro _; first | exact inv (by omega) | exact Or.inl (inv (by omega))))
  | startSR _ i hi ha =>
    clear h4
    have l0 := le_tot srW _ _ _ hi
    have l1 := le_tot lgW _ _ _ hi
    have l2 := le_tot clAllW _ _ _ hi
    have l3 := le_tot clPreW _ _ _ hi
    (try simp only [St.setDone, St.setBg, ↓reduceIte, Bool.false_eq_true, Bool.and_false, Bool.and_true, Bool.false_and, Bool.true_and]) <;> (repeat' split) <;> simp_all [tot_set_eq _ _ _ _ _ hi, tot_ackWs_srw', tot_ackWs_lgw, tot_ackWs_clall, tot_ackWs_clpre, b2n_true, b2n_false, clearW_idle, clearW_exited, clearW_parked, clearW_eq_exited, clearW_eq_parked, srW, lgW, clAllW, clPreW, St.bg, onOk, onErr, selNext, afterSetErr, srAllW, nextC, roSets] <;> (try omega) <;> (try (intro _; first | exact inv (by omega) | exact Or.inl (inv (by omega))))
  | startClose _ i hi =>
    clear h4
    have l0 := le_tot srW _ _ _ hi
    have l1 := le_tot lgW _ _ _ hi
    have l2 := le_tot clAllW _ _ _ hi
    have l3 := le_tot clPreW _ _ _ hi
    (try simp only [St.setDone, St.setBg, ↓reduceIte, Bool.false_eq_true, Bool.and_false, Bool.and_true, Bool.false_and, Bool.true_and]) <;> (repeat' split) <;> simp_all [tot_set_eq _ _ _ _ _ hi, tot_ackWs_srw', tot_ackWs_lgw, tot_ackWs_clall, tot_ackWs_clpre, b2n_true, b2n_false, clearW_idle, clearW_exited, clearW_parked, clearW_eq_exited, clearW_eq_parked, srW, lgW, clAllW, clPreW, St.bg, onOk, onErr, selNext, afterSetErr, srAllW, nextC, roSets] <;> (try omega) <;> (try (intro _; first | exact inv (by omega) | exact Or.inl (inv (by omega))))
  | selTok _ i p q hi hq ht =>
    clear h4
    have l0 := le_tot srW _ _ _ hi
    have l1 := le_tot lgW _ _ _ hi
    have l2 := le_tot clAllW _ _ _ hi
    have l3 := le_tot clPreW _ _ _ hi
    cases p <;> simp only [selNext] at hq <;> (try contradiction) <;> cases hq <;> simp_all [tot_set_eq _ _ _ _ _ hi, tot_ackWs_srw', tot_ackWs_lgw, tot_ackWs_clall, tot_ackWs_clpre, b2n_true, b2n_false, clearW_idle, clearW_exited, clearW_parked, clearW_eq_exited, clearW_eq_parked, srW, lgW, clAllW, clPreW, St.bg, onOk, onErr, selNext, afterSetErr, srAllW, nextC, roSets] <;> (try omega) <;> (try (intro _; first | exact inv (by omega) | exact Or.inl (inv (by omega))))
  | selPerErr _ i p q hi hq he =>
    clear h4
    have l0 := le_tot srW _ _ _ hi
    have l1 := le_tot lgW _ _ _ hi
    have l2 := le_tot clAllW _ _ _ hi
    have l3 := le_tot clPreW _ _ _ hi
    cases p <;> simp only [selNext] at hq <;> (try contradiction) <;> cases hq <;> simp_all [tot_set_eq _ _ _ _ _ hi, tot_ackWs_srw', tot_ackWs_lgw, tot_ackWs_clall, tot_ackWs_clpre, b2n_true, b2n_false, clearW_idle, clearW_exited, clearW_parked, clearW_eq_exited, clearW_eq_parked, srW, lgW, clAllW, clPreW, St.bg, onOk, onErr, selNext, afterSetErr, srAllW, nextC, roSets] <;> (try omega) <;> (try (intro _; first | exact inv (by omega) | exact Or.inl (inv (by omega))))
  | selClosed _ i p q hi hq hc =>
    clear h4
    have l0 := le_tot srW _ _ _ hi
    have l1 := le_tot lgW _ _ _ hi
    have l2 := le_tot clAllW _ _ _ hi
    have l3 := le_tot clPreW _ _ _ hi
    cases p <;> simp only [selNext] at hq <;> (try contradiction) <;> cases hq <;> simp_all [tot_set_eq _ _ _ _ _ hi, tot_ackWs_srw', tot_ackWs_lgw, tot_ackWs_clall, tot_ackWs_clpre, b2n_true, b2n_false, clearW_idle, clearW_exited, clearW_parked, clearW_eq_exited, clearW_eq_parked, srW, lgW, clAllW, clPreW, St.bg, onOk, onErr, selNext, afterSetErr, srAllW, nextC, roSets] <;> (try omega) <;> (try (intro _; first | exact inv (by omega) | exact Or.inl (inv (by omega))))
  | putNoWait _ i hi =>
    clear h4
    have l0 := le_tot srW _ _ _ hi
    have l1 := le_tot lgW _ _ _ hi
    have l2 := le_tot clAllW _ _ _ hi
    have l3 := le_tot clPreW _ _ _ hi
    (try simp only [St.setDone, St.setBg, ↓reduceIte, Bool.false_eq_true, Bool.and_false, Bool.and_true, Bool.false_and, Bool.true_and]) <;> (repeat' split) <;> simp_all [tot_set_eq _ _ _ _ _ hi, tot_ackWs_srw', tot_ackWs_lgw, tot_ackWs_clall, tot_ackWs_clpre, b2n_true, b2n_false, clearW_idle, clearW_exited, clearW_parked, clearW_eq_exited, clearW_eq_parked, srW, lgW, clAllW, clPreW, St.bg, onOk, onErr, selNext, afterSetErr, srAllW, nextC, roSets] <;> (try omega) <;> (try (intro _; first | exact inv (by omega) | exact Or.inl (inv (by omega))))
  | putWait _ i b hi =>
    clear h4
    have l0 := le_tot srW _ _ _ hi
    have l1 := le_tot lgW _ _ _ hi
    have l2 := le_tot clAllW _ _ _ hi
    have l3 := le_tot clPreW _ _ _ hi
    cases b <;> (try simp only [St.setDone, St.setBg, ↓reduceIte, Bool.false_eq_true, Bool.and_false, Bool.and_true, Bool.false_and, Bool.true_and]) <;> (repeat' split) <;> simp_all [tot_set_eq _ _ _ _ _ hi, tot_ackWs_srw', tot_ackWs_lgw, tot_ackWs_clall, tot_ackWs_clpre, b2n_true, b2n_false, clearW_idle, clearW_exited, clearW_parked, clearW_eq_exited, clearW_eq_parked, srW, lgW, clAllW, clPreW, St.bg, onOk, onErr, selNext, afterSetErr, srAllW, nextC, roSets] <;> (try omega) <;> (try (intro _; first | exact inv (by omega) | exact Or.inl (inv (by omega))))
  | putJournalOk _ i hi =>
    clear h4
    have l0 := le_tot srW _ _ _ hi
    have l1 := le_tot lgW _ _ _ hi
    have l2 := le_tot clAllW _ _ _ hi
    have l3 := le_tot clPreW _ _ _ hi
    (try simp only [St.setDone, St.setBg, ↓reduceIte, Bool.false_eq_true, Bool.and_false, Bool.and_true, Bool.false_and, Bool.true_and]) <;> (repeat' split) <;> simp_all [tot_set_eq _ _ _ _ _ hi, tot_ackWs_srw', tot_ackWs_lgw, tot_ackWs_clall, tot_ackWs_clpre, b2n_true, b2n_false, clearW_idle, clearW_exited, clearW_parked, clearW_eq_exited, clearW_eq_parked, srW, lgW, clAllW, clPreW, St.bg, onOk, onErr, selNext, afterSetErr, srAllW, nextC, roSets] <;> (try omega) <;> (try (intro _; first | exact inv (by omega) | exact Or.inl (inv (by omega))))
  | putJournalFail _ i hi =>
    clear h4
    have l0 := le_tot srW _ _ _ hi
    have l1 := le_tot lgW _ _ _ hi
    have l2 := le_tot clAllW _ _ _ hi
    have l3 := le_tot clPreW _ _ _ hi
    (try simp only [St.setDone, St.setBg, ↓reduceIte, Bool.false_eq_true, Bool.and_false, Bool.and_true, Bool.false_and, Bool.true_and]) <;> (repeat' split) <;> simp_all [tot_set_eq _ _ _ _ _ hi, tot_ackWs_srw', tot_ackWs_lgw, tot_ackWs_clall, tot_ackWs_clpre, b2n_true, b2n_false, clearW_idle, clearW_exited, clearW_parked, clearW_eq_exited, clearW_eq_parked, srW, lgW, clAllW, clPreW, St.bg, onOk, onErr, selNext, afterSetErr, srAllW, nextC, roSets] <;> (try omega) <;> (try (intro _; first | exact inv (by omega) | exact Or.inl (inv (by omega))))
  | putUnlock _ i r hi =>
    clear h4
    have l0 := le_tot srW _ _ _ hi
    have l1 := le_tot lgW _ _ _ hi
    have l2 := le_tot clAllW _ _ _ hi
    have l3 := le_tot clPreW _ _ _ hi
    cases r <;> (try simp only [St.setDone, St.setBg, ↓reduceIte, Bool.false_eq_true, Bool.and_false, Bool.and_true, Bool.false_and, Bool.true_and]) <;> (repeat' split) <;> simp_all [tot_set_eq _ _ _ _ _ hi, tot_ackWs_srw', tot_ackWs_lgw, tot_ackWs_clall, tot_ackWs_clpre, b2n_true, b2n_false, clearW_idle, clearW_exited, clearW_parked, clearW_eq_exited, clearW_eq_parked, srW, lgW, clAllW, clPreW, St.bg, onOk, onErr, selNext, afterSetErr, srAllW, nextC, roSets] <;> (try omega) <;> (try (intro _; first | exact inv (by omega) | exact Or.inl (inv (by omega))))
  | cwSendGo _ i b site lg hi hb hro =>
    clear h4
    have l0 := le_tot srW _ _ _ hi
    have l1 := le_tot lgW _ _ _ hi
    have l2 := le_tot clAllW _ _ _ hi
    have l3 := le_tot clPreW _ _ _ hi
    cases site <;> cases b <;> cases lg <;> (try simp only [St.setDone, St.setBg, ↓reduceIte, Bool.false_eq_true, Bool.and_false, Bool.and_true, Bool.false_and, Bool.true_and]) <;> (repeat' split) <;> simp_all [tot_set_eq _ _ _ _ _ hi, tot_ackWs_srw', tot_ackWs_lgw, tot_ackWs_clall, tot_ackWs_clpre, b2n_true, b2n_false, clearW_idle, clearW_exited, clearW_parked, clearW_eq_exited, clearW_eq_parked, srW, lgW, clAllW, clPreW, St.bg, onOk, onErr, selNext, afterSetErr, srAllW, nextC, roSets] <;> (try omega) <;> (try (intro _; first | exact inv (by omega) | exact Or.inl (inv (by omega))))
  | cwSendRO _ i site lg hi hb hp hro =>
    clear h4
    have l0 := le_tot srW _ _ _ hi
    have l1 := le_tot lgW _ _ _ hi
    have l2 := le_tot clAllW _ _ _ hi
    have l3 := le_tot clPreW _ _ _ hi
    cases site <;> cases lg <;> (try simp only [St.setDone, St.setBg, ↓reduceIte, Bool.false_eq_true, Bool.and_false, Bool.and_true, Bool.false_and, Bool.true_and]) <;> (repeat' split) <;> simp_all [tot_set_eq _ _ _ _ _ hi, tot_ackWs_srw', tot_ackWs_lgw, tot_ackWs_clall, tot_ackWs_clpre, b2n_true, b2n_false, clearW_idle, clearW_exited, clearW_parked, clearW_eq_exited, clearW_eq_parked, srW, lgW, clAllW, clPreW, St.bg, onOk, onErr, selNext, afterSetErr, srAllW, nextC, roSets] <;> (try omega) <;> (try (intro _; first | exact inv (by omega) | exact Or.inl (inv (by omega))))
  | cwSendErr _ i b site lg hi he =>
    clear h4
    have l0 := le_tot srW _ _ _ hi
    have l1 := le_tot lgW _ _ _ hi
    have l2 := le_tot clAllW _ _ _ hi
    have l3 := le_tot clPreW _ _ _ hi
    cases site <;> cases b <;> cases lg <;> (try simp only [St.setDone, St.setBg, ↓reduceIte, Bool.false_eq_true, Bool.and_false, Bool.and_true, Bool.false_and, Bool.true_and]) <;> (repeat' split) <;> simp_all [tot_set_eq _ _ _ _ _ hi, tot_ackWs_srw', tot_ackWs_lgw, tot_ackWs_clall, tot_ackWs_clpre, b2n_true, b2n_false, clearW_idle, clearW_exited, clearW_parked, clearW_eq_exited, clearW_eq_parked, srW, lgW, clAllW, clPreW, St.bg, onOk, onErr, selNext, afterSetErr, srAllW, nextC, roSets] <;> (try omega) <;> (try (intro _; first | exact inv (by omega) | exact Or.inl (inv (by omega))))
  | cwAckErr _ i b site lg hi he =>
    clear h4
    have l0 := le_tot srW _ _ _ hi
    have l1 := le_tot lgW _ _ _ hi
    have l2 := le_tot clAllW _ _ _ hi
    have l3 := le_tot clPreW _ _ _ hi
    cases site <;> cases b <;> cases lg <;> (try simp only [St.setDone, St.setBg, ↓reduceIte, Bool.false_eq_true, Bool.and_false, Bool.and_true, Bool.false_and, Bool.true_and]) <;> (repeat' split) <;> simp_all [tot_set_eq _ _ _ _ _ hi, tot_ackWs_srw', tot_ackWs_lgw, tot_ackWs_clall, tot_ackWs_clpre, b2n_true, b2n_false, clearW_idle, clearW_exited, clearW_parked, clearW_eq_exited, clearW_eq_parked, srW, lgW, clAllW, clPreW, St.bg, onOk, onErr, selNext, afterSetErr, srAllW, nextC, roSets] <;> (try omega) <;> (try (intro _; first | exact inv (by omega) | exact Or.inl (inv (by omega))))
  | otxRotate _ i lg hi =>
    clear h4
    have l0 := le_tot srW _ _ _ hi
    have l1 := le_tot lgW _ _ _ hi
    have l2 := le_tot clAllW _ _ _ hi
    have l3 := le_tot clPreW _ _ _ hi
    cases lg <;> (try simp only [St.setDone, St.setBg, ↓reduceIte, Bool.false_eq_true, Bool.and_false, Bool.and_true, Bool.false_and, Bool.true_and]) <;> (repeat' split) <;> simp_all [tot_set_eq _ _ _ _ _ hi, tot_ackWs_srw', tot_ackWs_lgw, tot_ackWs_clall, tot_ackWs_clpre, b2n_true, b2n_false, clearW_idle, clearW_exited, clearW_parked, clearW_eq_exited, clearW_eq_parked, srW, lgW, clAllW, clPreW, St.bg, onOk, onErr, selNext, afterSetErr, srAllW, nextC, roSets] <;> (try omega) <;> (try (intro _; first | exact inv (by omega) | exact Or.inl (inv (by omega))))
  | otxNoRotate _ i lg hi =>
    clear h4
    have l0 := le_tot srW _ _ _ hi
    have l1 := le_tot lgW _ _ _ hi
    have l2 := le_tot clAllW _ _ _ hi
    have l3 := le_tot clPreW _ _ _ hi
    cases lg <;> (try simp only [St.setDone, St.setBg, ↓reduceIte, Bool.false_eq_true, Bool.and_false, Bool.and_true, Bool.false_and, Bool.true_and]) <;> (repeat' split) <;> simp_all [tot_set_eq _ _ _ _ _ hi, tot_ackWs_srw', tot_ackWs_lgw, tot_ackWs_clall, tot_ackWs_clpre, b2n_true, b2n_false, clearW_idle, clearW_exited, clearW_parked, clearW_eq_exited, clearW_eq_parked, srW, lgW, clAllW, clPreW, St.bg, onOk, onErr, selNext, afterSetErr, srAllW, nextC, roSets] <;> (try omega) <;> (try (intro _; first | exact inv (by omega) | exact Or.inl (inv (by omega))))
  | otxNewMemOk _ i lg hi =>
    clear h4
    have l0 := le_tot srW _ _ _ hi
    have l1 := le_tot lgW _ _ _ hi
    have l2 := le_tot clAllW _ _ _ hi
    have l3 := le_tot clPreW _ _ _ hi
    cases lg <;> (try simp only [St.setDone, St.setBg, ↓reduceIte, Bool.false_eq_true, Bool.and_false, Bool.and_true, Bool.false_and, Bool.true_and]) <;> (repeat' split) <;> simp_all [tot_set_eq _ _ _ _ _ hi, tot_ackWs_srw', tot_ackWs_lgw, tot_ackWs_clall, tot_ackWs_clpre, b2n_true, b2n_false, clearW_idle, clearW_exited, clearW_parked, clearW_eq_exited, clearW_eq_parked, srW, lgW, clAllW, clPreW, St.bg, onOk, onErr, selNext, afterSetErr, srAllW, nextC, roSets] <;> (try omega) <;> (try (intro _; first | exact inv (by omega) | exact Or.inl (inv (by omega))))
  | otxNewMemFail _ i lg hi =>
    clear h4
    have l0 := le_tot srW _ _ _ hi
    have l1 := le_tot lgW _ _ _ hi
    have l2 := le_tot clAllW _ _ _ hi
    have l3 := le_tot clPreW _ _ _ hi
    cases lg <;> (try simp only [St.setDone, St.setBg, ↓reduceIte, Bool.false_eq_true, Bool.and_false, Bool.and_true, Bool.false_and, Bool.true_and]) <;> (repeat' split) <;> simp_all [tot_set_eq _ _ _ _ _ hi, tot_ackWs_srw', tot_ackWs_lgw, tot_ackWs_clall, tot_ackWs_clpre, b2n_true, b2n_false, clearW_idle, clearW_exited, clearW_parked, clearW_eq_exited, clearW_eq_parked, srW, lgW, clAllW, clPreW, St.bg, onOk, onErr, selNext, afterSetErr, srAllW, nextC, roSets] <;> (try omega) <;> (try (intro _; first | exact inv (by omega) | exact Or.inl (inv (by omega))))
  | otxNoWaitComp _ i lg hi =>
    clear h4
    have l0 := le_tot srW _ _ _ hi
    have l1 := le_tot lgW _ _ _ hi
    have l2 := le_tot clAllW _ _ _ hi
    have l3 := le_tot clPreW _ _ _ hi
    cases lg <;> (try simp only [St.setDone, St.setBg, ↓reduceIte, Bool.false_eq_true, Bool.and_false, Bool.and_true, Bool.false_and, Bool.true_and]) <;> (repeat' split) <;> simp_all [tot_set_eq _ _ _ _ _ hi, tot_ackWs_srw', tot_ackWs_lgw, tot_ackWs_clall, tot_ackWs_clpre, b2n_true, b2n_false, clearW_idle, clearW_exited, clearW_parked, clearW_eq_exited, clearW_eq_parked, srW, lgW, clAllW, clPreW, St.bg, onOk, onErr, selNext, afterSetErr, srAllW, nextC, roSets] <;> (try omega) <;> (try (intro _; first | exact inv (by omega) | exact Or.inl (inv (by omega))))
  | otxWaitComp _ i lg hi =>
    clear h4
    have l0 := le_tot srW _ _ _ hi
    have l1 := le_tot lgW _ _ _ hi
    have l2 := le_tot clAllW _ _ _ hi
    have l3 := le_tot clPreW _ _ _ hi
    cases lg <;> (try simp only [St.setDone, St.setBg, ↓reduceIte, Bool.false_eq_true, Bool.and_false, Bool.and_true, Bool.false_and, Bool.true_and]) <;> (repeat' split) <;> simp_all [tot_set_eq _ _ _ _ _ hi, tot_ackWs_srw', tot_ackWs_lgw, tot_ackWs_clall, tot_ackWs_clpre, b2n_true, b2n_false, clearW_idle, clearW_exited, clearW_parked, clearW_eq_exited, clearW_eq_parked, srW, lgW, clAllW, clPreW, St.bg, onOk, onErr, selNext, afterSetErr, srAllW, nextC, roSets] <;> (try omega) <;> (try (intro _; first | exact inv (by omega) | exact Or.inl (inv (by omega))))
  | otxFail _ i lg hi =>
    clear h4
    have l0 := le_tot srW _ _ _ hi
    have l1 := le_tot lgW _ _ _ hi
    have l2 := le_tot clAllW _ _ _ hi
    have l3 := le_tot clPreW _ _ _ hi
    cases lg <;> (try simp only [St.setDone, St.setBg, ↓reduceIte, Bool.false_eq_true, Bool.and_false, Bool.and_true, Bool.false_and, Bool.true_and]) <;> (repeat' split) <;> simp_all [tot_set_eq _ _ _ _ _ hi, tot_ackWs_srw', tot_ackWs_lgw, tot_ackWs_clall, tot_ackWs_clpre, b2n_true, b2n_false, clearW_idle, clearW_exited, clearW_parked, clearW_eq_exited, clearW_eq_parked, srW, lgW, clAllW, clPreW, St.bg, onOk, onErr, selNext, afterSetErr, srAllW, nextC, roSets] <;> (try omega) <;> (try (intro _; first | exact inv (by omega) | exact Or.inl (inv (by omega))))
  | otxRel _ i lg hi =>
    clear h4
    have l0 := le_tot srW _ _ _ hi
    have l1 := le_tot lgW _ _ _ hi
    have l2 := le_tot clAllW _ _ _ hi
    have l3 := le_tot clPreW _ _ _ hi
    cases lg <;> (try simp only [St.setDone, St.setBg, ↓reduceIte, Bool.false_eq_true, Bool.and_false, Bool.and_true, Bool.false_and, Bool.true_and]) <;> (repeat' split) <;> simp_all [tot_set_eq _ _ _ _ _ hi, tot_ackWs_srw', tot_ackWs_lgw, tot_ackWs_clall, tot_ackWs_clpre, b2n_true, b2n_false, clearW_idle, clearW_exited, clearW_parked, clearW_eq_exited, clearW_eq_parked, srW, lgW, clAllW, clPreW, St.bg, onOk, onErr, selNext, afterSetErr, srAllW, nextC, roSets] <;> (try omega) <;> (try (intro _; first | exact inv (by omega) | exact Or.inl (inv (by omega))))
  | otxDone _ i lg hi =>
    clear h4
    have l0 := le_tot srW _ _ _ hi
    have l1 := le_tot lgW _ _ _ hi
    have l2 := le_tot clAllW _ _ _ hi
    have l3 := le_tot clPreW _ _ _ hi
    cases lg <;> (try simp only [St.setDone, St.setBg, ↓reduceIte, Bool.false_eq_true, Bool.and_false, Bool.and_true, Bool.false_and, Bool.true_and]) <;> (repeat' split) <;> simp_all [tot_set_eq _ _ _ _ _ hi, tot_ackWs_srw', tot_ackWs_lgw, tot_ackWs_clall, tot_ackWs_clpre, b2n_true, b2n_false, clearW_idle, clearW_exited, clearW_parked, clearW_eq_exited, clearW_eq_parked, srW, lgW, clAllW, clPreW, St.bg, onOk, onErr, selNext, afterSetErr, srAllW, nextC, roSets] <;> (try omega) <;> (try (intro _; first | exact inv (by omega) | exact Or.inl (inv (by omega))))
  | lgWriteOk _ i hi =>
    clear h4
    have l0 := le_tot srW _ _ _ hi
    have l1 := le_tot lgW _ _ _ hi
    have l2 := le_tot clAllW _ _ _ hi
    have l3 := le_tot clPreW _ _ _ hi
    (try simp only [St.setDone, St.setBg, ↓reduceIte, Bool.false_eq_true, Bool.and_false, Bool.and_true, Bool.false_and, Bool.true_and]) <;> (repeat' split) <;> simp_all [tot_set_eq _ _ _ _ _ hi, tot_ackWs_srw', tot_ackWs_lgw, tot_ackWs_clall, tot_ackWs_clpre, b2n_true, b2n_false, clearW_idle, clearW_exited, clearW_parked, clearW_eq_exited, clearW_eq_parked, srW, lgW, clAllW, clPreW, St.bg, onOk, onErr, selNext, afterSetErr, srAllW, nextC, roSets] <;> (try omega) <;> (try (intro _; first | exact inv (by omega) | exact Or.inl (inv (by omega))))
  | lgWriteFail _ i hi =>
    clear h4
    have l0 := le_tot srW _ _ _ hi
    have l1 := le_tot lgW _ _ _ hi
    have l2 := le_tot clAllW _ _ _ hi
    have l3 := le_tot clPreW _ _ _ hi
    (try simp only [St.setDone, St.setBg, ↓reduceIte, Bool.false_eq_true, Bool.and_false, Bool.and_true, Bool.false_and, Bool.true_and]) <;> (repeat' split) <;> simp_all [tot_set_eq _ _ _ _ _ hi, tot_ackWs_srw', tot_ackWs_lgw, tot_ackWs_clall, tot_ackWs_clpre, b2n_true, b2n_false, clearW_idle, clearW_exited, clearW_parked, clearW_eq_exited, clearW_eq_parked, srW, lgW, clAllW, clPreW, St.bg, onOk, onErr, selNext, afterSetErr, srAllW, nextC, roSets] <;> (try omega) <;> (try (intro _; first | exact inv (by omega) | exact Or.inl (inv (by omega))))
  | cmLockTr _ i lg hi hl =>
    clear h4
    have l0 := le_tot srW _ _ _ hi
    have l1 := le_tot lgW _ _ _ hi
    have l2 := le_tot clAllW _ _ _ hi
    have l3 := le_tot clPreW _ _ _ hi
    cases lg <;> (try simp only [St.setDone, St.setBg, ↓reduceIte, Bool.false_eq_true, Bool.and_false, Bool.and_true, Bool.false_and, Bool.true_and]) <;> (repeat' split) <;> simp_all [tot_set_eq _ _ _ _ _ hi, tot_ackWs_srw', tot_ackWs_lgw, tot_ackWs_clall, tot_ackWs_clpre, b2n_true, b2n_false, clearW_idle, clearW_exited, clearW_parked, clearW_eq_exited, clearW_eq_parked, srW, lgW, clAllW, clPreW, St.bg, onOk, onErr, selNext, afterSetErr, srAllW, nextC, roSets] <;> (try omega) <;> (try (intro _; first | exact inv (by omega) | exact Or.inl (inv (by omega))))
  | cmFlushOk _ i lg hi =>
    clear h4
    have l0 := le_tot srW _ _ _ hi
    have l1 := le_tot lgW _ _ _ hi
    have l2 := le_tot clAllW _ _ _ hi
    have l3 := le_tot clPreW _ _ _ hi
    cases lg <;> (try simp only [St.setDone, St.setBg, ↓reduceIte, Bool.false_eq_true, Bool.and_false, Bool.and_true, Bool.false_and, Bool.true_and]) <;> (repeat' split) <;> simp_all [tot_set_eq _ _ _ _ _ hi, tot_ackWs_srw', tot_ackWs_lgw, tot_ackWs_clall, tot_ackWs_clpre, b2n_true, b2n_false, clearW_idle, clearW_exited, clearW_parked, clearW_eq_exited, clearW_eq_parked, srW, lgW, clAllW, clPreW, St.bg, onOk, onErr, selNext, afterSetErr, srAllW, nextC, roSets] <;> (try omega) <;> (try (intro _; first | exact inv (by omega) | exact Or.inl (inv (by omega))))
  | cmFlushEmpty _ i lg hi =>
    clear h4
    have l0 := le_tot srW _ _ _ hi
    have l1 := le_tot lgW _ _ _ hi
    have l2 := le_tot clAllW _ _ _ hi
    have l3 := le_tot clPreW _ _ _ hi
    cases lg <;> (try simp only [St.setDone, St.setBg, ↓reduceIte, Bool.false_eq_true, Bool.and_false, Bool.and_true, Bool.false_and, Bool.true_and]) <;> (repeat' split) <;> simp_all [tot_set_eq _ _ _ _ _ hi, tot_ackWs_srw', tot_ackWs_lgw, tot_ackWs_clall, tot_ackWs_clpre, b2n_true, b2n_false, clearW_idle, clearW_exited, clearW_parked, clearW_eq_exited, clearW_eq_parked, srW, lgW, clAllW, clPreW, St.bg, onOk, onErr, selNext, afterSetErr, srAllW, nextC, roSets] <;> (try omega) <;> (try (intro _; first | exact inv (by omega) | exact Or.inl (inv (by omega))))
  | cmFlushFail _ i lg hi =>
    clear h4
    have l0 := le_tot srW _ _ _ hi
    have l1 := le_tot lgW _ _ _ hi
    have l2 := le_tot clAllW _ _ _ hi
    have l3 := le_tot clPreW _ _ _ hi
    cases lg <;> (try simp only [St.setDone, St.setBg, ↓reduceIte, Bool.false_eq_true, Bool.and_false, Bool.and_true, Bool.false_and, Bool.true_and]) <;> (repeat' split) <;> simp_all [tot_set_eq _ _ _ _ _ hi, tot_ackWs_srw', tot_ackWs_lgw, tot_ackWs_clall, tot_ackWs_clpre, b2n_true, b2n_false, clearW_idle, clearW_exited, clearW_parked, clearW_eq_exited, clearW_eq_parked, srW, lgW, clAllW, clPreW, St.bg, onOk, onErr, selNext, afterSetErr, srAllW, nextC, roSets] <;> (try omega) <;> (try (intro _; first | exact inv (by omega) | exact Or.inl (inv (by omega))))
  | cmLockClk _ i lg hi hl =>
    clear h4
    have l0 := le_tot srW _ _ _ hi
    have l1 := le_tot lgW _ _ _ hi
    have l2 := le_tot clAllW _ _ _ hi
    have l3 := le_tot clPreW _ _ _ hi
    cases lg <;> (try simp only [St.setDone, St.setBg, ↓reduceIte, Bool.false_eq_true, Bool.and_false, Bool.and_true, Bool.false_and, Bool.true_and]) <;> (repeat' split) <;> simp_all [tot_set_eq _ _ _ _ _ hi, tot_ackWs_srw', tot_ackWs_lgw, tot_ackWs_clall, tot_ackWs_clpre, b2n_true, b2n_false, clearW_idle, clearW_exited, clearW_parked, clearW_eq_exited, clearW_eq_parked, srW, lgW, clAllW, clPreW, St.bg, onOk, onErr, selNext, afterSetErr, srAllW, nextC, roSets] <;> (try omega) <;> (try (intro _; first | exact inv (by omega) | exact Or.inl (inv (by omega))))
  | cmTryOk _ i k lg hi =>
    clear h4
    have l0 := le_tot srW _ _ _ hi
    have l1 := le_tot lgW _ _ _ hi
    have l2 := le_tot clAllW _ _ _ hi
    have l3 := le_tot clPreW _ _ _ hi
    cases lg <;> (try simp only [St.setDone, St.setBg, ↓reduceIte, Bool.false_eq_true, Bool.and_false, Bool.and_true, Bool.false_and, Bool.true_and]) <;> (repeat' split) <;> simp_all [tot_set_eq _ _ _ _ _ hi, tot_ackWs_srw', tot_ackWs_lgw, tot_ackWs_clall, tot_ackWs_clpre, b2n_true, b2n_false, clearW_idle, clearW_exited, clearW_parked, clearW_eq_exited, clearW_eq_parked, srW, lgW, clAllW, clPreW, St.bg, onOk, onErr, selNext, afterSetErr, srAllW, nextC, roSets] <;> (try omega) <;> (try (intro _; first | exact inv (by omega) | exact Or.inl (inv (by omega))))
  | cmTryFail _ i k lg hi =>
    clear h4
    have l0 := le_tot srW _ _ _ hi
    have l1 := le_tot lgW _ _ _ hi
    have l2 := le_tot clAllW _ _ _ hi
    have l3 := le_tot clPreW _ _ _ hi
    cases lg <;> (try simp only [St.setDone, St.setBg, ↓reduceIte, Bool.false_eq_true, Bool.and_false, Bool.and_true, Bool.false_and, Bool.true_and]) <;> (repeat' split) <;> simp_all [tot_set_eq _ _ _ _ _ hi, tot_ackWs_srw', tot_ackWs_lgw, tot_ackWs_clall, tot_ackWs_clpre, b2n_true, b2n_false, clearW_idle, clearW_exited, clearW_parked, clearW_eq_exited, clearW_eq_parked, srW, lgW, clAllW, clPreW, St.bg, onOk, onErr, selNext, afterSetErr, srAllW, nextC, roSets] <;> (try omega) <;> (try (intro _; first | exact inv (by omega) | exact Or.inl (inv (by omega))))
  | cmSleepTimer _ i k lg hi =>
    clear h4
    have l0 := le_tot srW _ _ _ hi
    have l1 := le_tot lgW _ _ _ hi
    have l2 := le_tot clAllW _ _ _ hi
    have l3 := le_tot clPreW _ _ _ hi
    cases lg <;> (try simp only [St.setDone, St.setBg, ↓reduceIte, Bool.false_eq_true, Bool.and_false, Bool.and_true, Bool.false_and, Bool.true_and]) <;> (repeat' split) <;> simp_all [tot_set_eq _ _ _ _ _ hi, tot_ackWs_srw', tot_ackWs_lgw, tot_ackWs_clall, tot_ackWs_clpre, b2n_true, b2n_false, clearW_idle, clearW_exited, clearW_parked, clearW_eq_exited, clearW_eq_parked, srW, lgW, clAllW, clPreW, St.bg, onOk, onErr, selNext, afterSetErr, srAllW, nextC, roSets] <;> (try omega) <;> (try (intro _; first | exact inv (by omega) | exact Or.inl (inv (by omega))))
  | cmSleepClosed _ i k lg hi hc =>
    clear h4
    have l0 := le_tot srW _ _ _ hi
    have l1 := le_tot lgW _ _ _ hi
    have l2 := le_tot clAllW _ _ _ hi
    have l3 := le_tot clPreW _ _ _ hi
    cases lg <;> (try simp only [St.setDone, St.setBg, ↓reduceIte, Bool.false_eq_true, Bool.and_false, Bool.and_true, Bool.false_and, Bool.true_and]) <;> (repeat' split) <;> simp_all [tot_set_eq _ _ _ _ _ hi, tot_ackWs_srw', tot_ackWs_lgw, tot_ackWs_clall, tot_ackWs_clpre, b2n_true, b2n_false, clearW_idle, clearW_exited, clearW_parked, clearW_eq_exited, clearW_eq_parked, srW, lgW, clAllW, clPreW, St.bg, onOk, onErr, selNext, afterSetErr, srAllW, nextC, roSets] <;> (try omega) <;> (try (intro _; first | exact inv (by omega) | exact Or.inl (inv (by omega))))
  | cmFail3 _ i lg hi =>
    clear h4
    have l0 := le_tot srW _ _ _ hi
    have l1 := le_tot lgW _ _ _ hi
    have l2 := le_tot clAllW _ _ _ hi
    have l3 := le_tot clPreW _ _ _ hi
    cases lg <;> (try simp only [St.setDone, St.setBg, ↓reduceIte, Bool.false_eq_true, Bool.and_false, Bool.and_true, Bool.false_and, Bool.true_and]) <;> (repeat' split) <;> simp_all [tot_set_eq _ _ _ _ _ hi, tot_ackWs_srw', tot_ackWs_lgw, tot_ackWs_clall, tot_ackWs_clpre, b2n_true, b2n_false, clearW_idle, clearW_exited, clearW_parked, clearW_eq_exited, clearW_eq_parked, srW, lgW, clAllW, clPreW, St.bg, onOk, onErr, selNext, afterSetErr, srAllW, nextC, roSets] <;> (try omega) <;> (try (intro _; first | exact inv (by omega) | exact Or.inl (inv (by omega))))
  | cmAfterOk _ i lg hi =>
    clear h4
    have l0 := le_tot srW _ _ _ hi
    have l1 := le_tot lgW _ _ _ hi
    have l2 := le_tot clAllW _ _ _ hi
    have l3 := le_tot clPreW _ _ _ hi
    cases lg <;> (try simp only [St.setDone, St.setBg, ↓reduceIte, Bool.false_eq_true, Bool.and_false, Bool.and_true, Bool.false_and, Bool.true_and]) <;> (repeat' split) <;> simp_all [tot_set_eq _ _ _ _ _ hi, tot_ackWs_srw', tot_ackWs_lgw, tot_ackWs_clall, tot_ackWs_clpre, b2n_true, b2n_false, clearW_idle, clearW_exited, clearW_parked, clearW_eq_exited, clearW_eq_parked, srW, lgW, clAllW, clPreW, St.bg, onOk, onErr, selNext, afterSetErr, srAllW, nextC, roSets] <;> (try omega) <;> (try (intro _; first | exact inv (by omega) | exact Or.inl (inv (by omega))))
  | cmNoWaitComp _ i lg hi =>
    clear h4
    have l0 := le_tot srW _ _ _ hi
    have l1 := le_tot lgW _ _ _ hi
    have l2 := le_tot clAllW _ _ _ hi
    have l3 := le_tot clPreW _ _ _ hi
    cases lg <;> (try simp only [St.setDone, St.setBg, ↓reduceIte, Bool.false_eq_true, Bool.and_false, Bool.and_true, Bool.false_and, Bool.true_and]) <;> (repeat' split) <;> simp_all [tot_set_eq _ _ _ _ _ hi, tot_ackWs_srw', tot_ackWs_lgw, tot_ackWs_clall, tot_ackWs_clpre, b2n_true, b2n_false, clearW_idle, clearW_exited, clearW_parked, clearW_eq_exited, clearW_eq_parked, srW, lgW, clAllW, clPreW, St.bg, onOk, onErr, selNext, afterSetErr, srAllW, nextC, roSets] <;> (try omega) <;> (try (intro _; first | exact inv (by omega) | exact Or.inl (inv (by omega))))
  | cmWaitComp _ i lg hi =>
    clear h4
    have l0 := le_tot srW _ _ _ hi
    have l1 := le_tot lgW _ _ _ hi
    have l2 := le_tot clAllW _ _ _ hi
    have l3 := le_tot clPreW _ _ _ hi
    cases lg <;> (try simp only [St.setDone, St.setBg, ↓reduceIte, Bool.false_eq_true, Bool.and_false, Bool.and_true, Bool.false_and, Bool.true_and]) <;> (repeat' split) <;> simp_all [tot_set_eq _ _ _ _ _ hi, tot_ackWs_srw', tot_ackWs_lgw, tot_ackWs_clall, tot_ackWs_clpre, b2n_true, b2n_false, clearW_idle, clearW_exited, clearW_parked, clearW_eq_exited, clearW_eq_parked, srW, lgW, clAllW, clPreW, St.bg, onOk, onErr, selNext, afterSetErr, srAllW, nextC, roSets] <;> (try omega) <;> (try (intro _; first | exact inv (by omega) | exact Or.inl (inv (by omega))))
  | cmDone _ i lg hi =>
    clear h4
    have l0 := le_tot srW _ _ _ hi
    have l1 := le_tot lgW _ _ _ hi
    have l2 := le_tot clAllW _ _ _ hi
    have l3 := le_tot clPreW _ _ _ hi
    cases lg <;> (try simp only [St.setDone, St.setBg, ↓reduceIte, Bool.false_eq_true, Bool.and_false, Bool.and_true, Bool.false_and, Bool.true_and]) <;> (repeat' split) <;> simp_all [tot_set_eq _ _ _ _ _ hi, tot_ackWs_srw', tot_ackWs_lgw, tot_ackWs_clall, tot_ackWs_clpre, b2n_true, b2n_false, clearW_idle, clearW_exited, clearW_parked, clearW_eq_exited, clearW_eq_parked, srW, lgW, clAllW, clPreW, St.bg, onOk, onErr, selNext, afterSetErr, srAllW, nextC, roSets] <;> (try omega) <;> (try (intro _; first | exact inv (by omega) | exact Or.inl (inv (by omega))))
  | cmRet _ i ok lg hi =>
    clear h4
    have l0 := le_tot srW _ _ _ hi
    have l1 := le_tot lgW _ _ _ hi
    have l2 := le_tot clAllW _ _ _ hi
    have l3 := le_tot clPreW _ _ _ hi
    cases ok <;> cases lg <;> (try simp only [St.setDone, St.setBg, ↓reduceIte, Bool.false_eq_true, Bool.and_false, Bool.and_true, Bool.false_and, Bool.true_and]) <;> (repeat' split) <;> simp_all [tot_set_eq _ _ _ _ _ hi, tot_ackWs_srw', tot_ackWs_lgw, tot_ackWs_clall, tot_ackWs_clpre, b2n_true, b2n_false, clearW_idle, clearW_exited, clearW_parked, clearW_eq_exited, clearW_eq_parked, srW, lgW, clAllW, clPreW, St.bg, onOk, onErr, selNext, afterSetErr, srAllW, nextC, roSets] <;> (try omega) <;> (try (intro _; first | exact inv (by omega) | exact Or.inl (inv (by omega))))
  | dcLockTr _ i lg hi hl =>
    clear h4
    have l0 := le_tot srW _ _ _ hi
    have l1 := le_tot lgW _ _ _ hi
    have l2 := le_tot clAllW _ _ _ hi
    have l3 := le_tot clPreW _ _ _ hi
    cases lg <;> (try simp only [St.setDone, St.setBg, ↓reduceIte, Bool.false_eq_true, Bool.and_false, Bool.and_true, Bool.false_and, Bool.true_and]) <;> (repeat' split) <;> simp_all [tot_set_eq _ _ _ _ _ hi, tot_ackWs_srw', tot_ackWs_lgw, tot_ackWs_clall, tot_ackWs_clpre, b2n_true, b2n_false, clearW_idle, clearW_exited, clearW_parked, clearW_eq_exited, clearW_eq_parked, srW, lgW, clAllW, clPreW, St.bg, onOk, onErr, selNext, afterSetErr, srAllW, nextC, roSets] <;> (try omega) <;> (try (intro _; first | exact inv (by omega) | exact Or.inl (inv (by omega))))
  | dcBody _ i lg hi =>
    clear h4
    have l0 := le_tot srW _ _ _ hi
    have l1 := le_tot lgW _ _ _ hi
    have l2 := le_tot clAllW _ _ _ hi
    have l3 := le_tot clPreW _ _ _ hi
    cases lg <;> (try simp only [St.setDone, St.setBg, ↓reduceIte, Bool.false_eq_true, Bool.and_false, Bool.and_true, Bool.false_and, Bool.true_and]) <;> (repeat' split) <;> simp_all [tot_set_eq _ _ _ _ _ hi, tot_ackWs_srw', tot_ackWs_lgw, tot_ackWs_clall, tot_ackWs_clpre, b2n_true, b2n_false, clearW_idle, clearW_exited, clearW_parked, clearW_eq_exited, clearW_eq_parked, srW, lgW, clAllW, clPreW, St.bg, onOk, onErr, selNext, afterSetErr, srAllW, nextC, roSets] <;> (try omega) <;> (try (intro _; first | exact inv (by omega) | exact Or.inl (inv (by omega))))
  | crNoOverlap _ i hi =>
    clear h4
    have l0 := le_tot srW _ _ _ hi
    have l1 := le_tot lgW _ _ _ hi
    have l2 := le_tot clAllW _ _ _ hi
    have l3 := le_tot clPreW _ _ _ hi
    (try simp only [St.setDone, St.setBg, ↓reduceIte, Bool.false_eq_true, Bool.and_false, Bool.and_true, Bool.false_and, Bool.true_and]) <;> (repeat' split) <;> simp_all [tot_set_eq _ _ _ _ _ hi, tot_ackWs_srw', tot_ackWs_lgw, tot_ackWs_clall, tot_ackWs_clpre, b2n_true, b2n_false, clearW_idle, clearW_exited, clearW_parked, clearW_eq_exited, clearW_eq_parked, srW, lgW, clAllW, clPreW, St.bg, onOk, onErr, selNext, afterSetErr, srAllW, nextC, roSets] <;> (try omega) <;> (try (intro _; first | exact inv (by omega) | exact Or.inl (inv (by omega))))
  | crOverlap _ i hi =>
    clear h4
    have l0 := le_tot srW _ _ _ hi
    have l1 := le_tot lgW _ _ _ hi
    have l2 := le_tot clAllW _ _ _ hi
    have l3 := le_tot clPreW _ _ _ hi
    (try simp only [St.setDone, St.setBg, ↓reduceIte, Bool.false_eq_true, Bool.and_false, Bool.and_true, Bool.false_and, Bool.true_and]) <;> (repeat' split) <;> simp_all [tot_set_eq _ _ _ _ _ hi, tot_ackWs_srw', tot_ackWs_lgw, tot_ackWs_clall, tot_ackWs_clpre, b2n_true, b2n_false, clearW_idle, clearW_exited, clearW_parked, clearW_eq_exited, clearW_eq_parked, srW, lgW, clAllW, clPreW, St.bg, onOk, onErr, selNext, afterSetErr, srAllW, nextC, roSets] <;> (try omega) <;> (try (intro _; first | exact inv (by omega) | exact Or.inl (inv (by omega))))
  | crNewMemOk _ i hi =>
    clear h4
    have l0 := le_tot srW _ _ _ hi
    have l1 := le_tot lgW _ _ _ hi
    have l2 := le_tot clAllW _ _ _ hi
    have l3 := le_tot clPreW _ _ _ hi
    (try simp only [St.setDone, St.setBg, ↓reduceIte, Bool.false_eq_true, Bool.and_false, Bool.and_true, Bool.false_and, Bool.true_and]) <;> (repeat' split) <;> simp_all [tot_set_eq _ _ _ _ _ hi, tot_ackWs_srw', tot_ackWs_lgw, tot_ackWs_clall, tot_ackWs_clpre, b2n_true, b2n_false, clearW_idle, clearW_exited, clearW_parked, clearW_eq_exited, clearW_eq_parked, srW, lgW, clAllW, clPreW, St.bg, onOk, onErr, selNext, afterSetErr, srAllW, nextC, roSets] <;> (try omega) <;> (try (intro _; first | exact inv (by omega) | exact Or.inl (inv (by omega))))
  | crNewMemFail _ i hi =>
    clear h4
    have l0 := le_tot srW _ _ _ hi
    have l1 := le_tot lgW _ _ _ hi
    have l2 := le_tot clAllW _ _ _ hi
    have l3 := le_tot clPreW _ _ _ hi
    (try simp only [St.setDone, St.setBg, ↓reduceIte, Bool.false_eq_true, Bool.and_false, Bool.and_true, Bool.false_and, Bool.true_and]) <;> (repeat' split) <;> simp_all [tot_set_eq _ _ _ _ _ hi, tot_ackWs_srw', tot_ackWs_lgw, tot_ackWs_clall, tot_ackWs_clpre, b2n_true, b2n_false, clearW_idle, clearW_exited, clearW_parked, clearW_eq_exited, clearW_eq_parked, srW, lgW, clAllW, clPreW, St.bg, onOk, onErr, selNext, afterSetErr, srAllW, nextC, roSets] <;> (try omega) <;> (try (intro _; first | exact inv (by omega) | exact Or.inl (inv (by omega))))
  | crRelM _ i hi =>
    clear h4
    have l0 := le_tot srW _ _ _ hi
    have l1 := le_tot lgW _ _ _ hi
    have l2 := le_tot clAllW _ _ _ hi
    have l3 := le_tot clPreW _ _ _ hi
    (try simp only [St.setDone, St.setBg, ↓reduceIte, Bool.false_eq_true, Bool.and_false, Bool.and_true, Bool.false_and, Bool.true_and]) <;> (repeat' split) <;> simp_all [tot_set_eq _ _ _ _ _ hi, tot_ackWs_srw', tot_ackWs_lgw, tot_ackWs_clall, tot_ackWs_clpre, b2n_true, b2n_false, clearW_idle, clearW_exited, clearW_parked, clearW_eq_exited, clearW_eq_parked, srW, lgW, clAllW, clPreW, St.bg, onOk, onErr, selNext, afterSetErr, srAllW, nextC, roSets] <;> (try omega) <;> (try (intro _; first | exact inv (by omega) | exact Or.inl (inv (by omega))))
  | crRelOk _ i hi =>
    clear h4
    have l0 := le_tot srW _ _ _ hi
    have l1 := le_tot lgW _ _ _ hi
    have l2 := le_tot clAllW _ _ _ hi
    have l3 := le_tot clPreW _ _ _ hi
    (try simp only [St.setDone, St.setBg, ↓reduceIte, Bool.false_eq_true, Bool.and_false, Bool.and_true, Bool.false_and, Bool.true_and]) <;> (repeat' split) <;> simp_all [tot_set_eq _ _ _ _ _ hi, tot_ackWs_srw', tot_ackWs_lgw, tot_ackWs_clall, tot_ackWs_clpre, b2n_true, b2n_false, clearW_idle, clearW_exited, clearW_parked, clearW_eq_exited, clearW_eq_parked, srW, lgW, clAllW, clPreW, St.bg, onOk, onErr, selNext, afterSetErr, srAllW, nextC, roSets] <;> (try omega) <;> (try (intro _; first | exact inv (by omega) | exact Or.inl (inv (by omega))))
  | crRelFail _ i hi =>
    clear h4
    have l0 := le_tot srW _ _ _ hi
    have l1 := le_tot lgW _ _ _ hi
    have l2 := le_tot clAllW _ _ _ hi
    have l3 := le_tot clPreW _ _ _ hi
    (try simp only [St.setDone, St.setBg, ↓reduceIte, Bool.false_eq_true, Bool.and_false, Bool.and_true, Bool.false_and, Bool.true_and]) <;> (repeat' split) <;> simp_all [tot_set_eq _ _ _ _ _ hi, tot_ackWs_srw', tot_ackWs_lgw, tot_ackWs_clall, tot_ackWs_clpre, b2n_true, b2n_false, clearW_idle, clearW_exited, clearW_parked, clearW_eq_exited, clearW_eq_parked, srW, lgW, clAllW, clPreW, St.bg, onOk, onErr, selNext, afterSetErr, srAllW, nextC, roSets] <;> (try omega) <;> (try (intro _; first | exact inv (by omega) | exact Or.inl (inv (by omega))))
  | srSend _ i hi he =>
    clear h4
    have l0 := le_tot srW _ _ _ hi
    have l1 := le_tot lgW _ _ _ hi
    have l2 := le_tot clAllW _ _ _ hi
    have l3 := le_tot clPreW _ _ _ hi
    (try simp only [St.setDone, St.setBg, ↓reduceIte, Bool.false_eq_true, Bool.and_false, Bool.and_true, Bool.false_and, Bool.true_and]) <;> (repeat' split) <;> simp_all [tot_set_eq _ _ _ _ _ hi, tot_ackWs_srw', tot_ackWs_lgw, tot_ackWs_clall, tot_ackWs_clpre, b2n_true, b2n_false, clearW_idle, clearW_exited, clearW_parked, clearW_eq_exited, clearW_eq_parked, srW, lgW, clAllW, clPreW, St.bg, onOk, onErr, selNext, afterSetErr, srAllW, nextC, roSets] <;> (try omega) <;> (try (intro _; first | exact inv (by omega) | exact Or.inl (inv (by omega))))
  | srPerErr _ i hi he =>
    clear h4
    have l0 := le_tot srW _ _ _ hi
    have l1 := le_tot lgW _ _ _ hi
    have l2 := le_tot clAllW _ _ _ hi
    have l3 := le_tot clPreW _ _ _ hi
    (try simp only [St.setDone, St.setBg, ↓reduceIte, Bool.false_eq_true, Bool.and_false, Bool.and_true, Bool.false_and, Bool.true_and]) <;> (repeat' split) <;> simp_all [tot_set_eq _ _ _ _ _ hi, tot_ackWs_srw', tot_ackWs_lgw, tot_ackWs_clall, tot_ackWs_clpre, b2n_true, b2n_false, clearW_idle, clearW_exited, clearW_parked, clearW_eq_exited, clearW_eq_parked, srW, lgW, clAllW, clPreW, St.bg, onOk, onErr, selNext, afterSetErr, srAllW, nextC, roSets] <;> (try omega) <;> (try (intro _; first | exact inv (by omega) | exact Or.inl (inv (by omega))))
  | srClosed _ i hi hc =>
    have l0 := le_tot srW _ _ _ hi
    have l1 := le_tot lgW _ _ _ hi
    have l2 := le_tot clAllW _ _ _ hi
    have l3 := le_tot clPreW _ _ _ hi
    have ls := le_tot srAllW _ _ _ hi
    (try simp only [St.setDone, St.setBg, ↓reduceIte, Bool.false_eq_true, Bool.and_false, Bool.and_true, Bool.false_and, Bool.true_and]) <;> (repeat' split) <;> simp_all [tot_set_eq _ _ _ _ _ hi, tot_ackWs_srw', tot_ackWs_lgw, tot_ackWs_clall, tot_ackWs_clpre, b2n_true, b2n_false, clearW_idle, clearW_exited, clearW_parked, clearW_eq_exited, clearW_eq_parked, srW, lgW, clAllW, clPreW, St.bg, onOk, onErr, selNext, afterSetErr, srAllW, nextC, roSets] <;> (try omega) <;> (try (intro _; first | exact inv (by omega) | exact Or.inl (inv (by omega))))
  | clCheckTr _ i hi =>
    clear h4
    have l0 := le_tot srW _ _ _ hi
    have l1 := le_tot lgW _ _ _ hi
    have l2 := le_tot clAllW _ _ _ hi
    have l3 := le_tot clPreW _ _ _ hi
    (try simp only [St.setDone, St.setBg, ↓reduceIte, Bool.false_eq_true, Bool.and_false, Bool.and_true, Bool.false_and, Bool.true_and]) <;> (repeat' split) <;> simp_all [tot_set_eq _ _ _ _ _ hi, tot_ackWs_srw', tot_ackWs_lgw, tot_ackWs_clall, tot_ackWs_clpre, b2n_true, b2n_false, clearW_idle, clearW_exited, clearW_parked, clearW_eq_exited, clearW_eq_parked, srW, lgW, clAllW, clPreW, St.bg, onOk, onErr, selNext, afterSetErr, srAllW, nextC, roSets] <;> (try omega) <;> (try (intro _; first | exact inv (by omega) | exact Or.inl (inv (by omega))))
  | clLockTr _ i hi hl =>
    clear h4
    have l0 := le_tot srW _ _ _ hi
    have l1 := le_tot lgW _ _ _ hi
    have l2 := le_tot clAllW _ _ _ hi
    have l3 := le_tot clPreW _ _ _ hi
    (try simp only [St.setDone, St.setBg, ↓reduceIte, Bool.false_eq_true, Bool.and_false, Bool.and_true, Bool.false_and, Bool.true_and]) <;> (repeat' split) <;> simp_all [tot_set_eq _ _ _ _ _ hi, tot_ackWs_srw', tot_ackWs_lgw, tot_ackWs_clall, tot_ackWs_clpre, b2n_true, b2n_false, clearW_idle, clearW_exited, clearW_parked, clearW_eq_exited, clearW_eq_parked, srW, lgW, clAllW, clPreW, St.bg, onOk, onErr, selNext, afterSetErr, srAllW, nextC, roSets] <;> (try omega) <;> (try (intro _; first | exact inv (by omega) | exact Or.inl (inv (by omega))))
  | clBody _ i hi =>
    clear h4
    have l0 := le_tot srW _ _ _ hi
    have l1 := le_tot lgW _ _ _ hi
    have l2 := le_tot clAllW _ _ _ hi
    have l3 := le_tot clPreW _ _ _ hi
    (try simp only [St.setDone, St.setBg, ↓reduceIte, Bool.false_eq_true, Bool.and_false, Bool.and_true, Bool.false_and, Bool.true_and]) <;> (repeat' split) <;> simp_all [tot_set_eq _ _ _ _ _ hi, tot_ackWs_srw', tot_ackWs_lgw, tot_ackWs_clall, tot_ackWs_clpre, b2n_true, b2n_false, clearW_idle, clearW_exited, clearW_parked, clearW_eq_exited, clearW_eq_parked, srW, lgW, clAllW, clPreW, St.bg, onOk, onErr, selNext, afterSetErr, srAllW, nextC, roSets] <;> (try omega) <;> (try (intro _; first | exact inv (by omega) | exact Or.inl (inv (by omega))))
  | clAcq _ i hi ht =>
    clear h4
    have l0 := le_tot srW _ _ _ hi
    have l1 := le_tot lgW _ _ _ hi
    have l2 := le_tot clAllW _ _ _ hi
    have l3 := le_tot clPreW _ _ _ hi
    (try simp only [St.setDone, St.setBg, ↓reduceIte, Bool.false_eq_true, Bool.and_false, Bool.and_true, Bool.false_and, Bool.true_and]) <;> (repeat' split) <;> simp_all [tot_set_eq _ _ _ _ _ hi, tot_ackWs_srw', tot_ackWs_lgw, tot_ackWs_clall, tot_ackWs_clpre, b2n_true, b2n_false, clearW_idle, clearW_exited, clearW_parked, clearW_eq_exited, clearW_eq_parked, srW, lgW, clAllW, clPreW, St.bg, onOk, onErr, selNext, afterSetErr, srAllW, nextC, roSets] <;> (try omega) <;> (try (intro _; first | exact inv (by omega) | exact Or.inl (inv (by omega))))
  | clAcqKept _ i hi he hk hs =>
    clear h4
    have l0 := le_tot srW _ _ _ hi
    have l1 := le_tot lgW _ _ _ hi
    have l2 := le_tot clAllW _ _ _ hi
    have l3 := le_tot clPreW _ _ _ hi
    (try simp only [St.setDone, St.setBg, ↓reduceIte, Bool.false_eq_true, Bool.and_false, Bool.and_true, Bool.false_and, Bool.true_and]) <;> (repeat' split) <;> simp_all [tot_set_eq _ _ _ _ _ hi, tot_ackWs_srw', tot_ackWs_lgw, tot_ackWs_clall, tot_ackWs_clpre, b2n_true, b2n_false, clearW_idle, clearW_exited, clearW_parked, clearW_eq_exited, clearW_eq_parked, srW, lgW, clAllW, clPreW, St.bg, onOk, onErr, selNext, afterSetErr, srAllW, nextC, roSets] <;> (try omega) <;> (try (intro _; first | exact inv (by omega) | exact Or.inl (inv (by omega))))
  | clWait _ i hi hm ht =>
    clear h4
    have l0 := le_tot srW _ _ _ hi
    have l1 := le_tot lgW _ _ _ hi
    have l2 := le_tot clAllW _ _ _ hi
    have l3 := le_tot clPreW _ _ _ hi
    (try simp only [St.setDone, St.setBg, ↓reduceIte, Bool.false_eq_true, Bool.and_false, Bool.and_true, Bool.false_and, Bool.true_and]) <;> (repeat' split) <;> simp_all [tot_set_eq _ _ _ _ _ hi, tot_ackWs_srw', tot_ackWs_lgw, tot_ackWs_clall, tot_ackWs_clpre, b2n_true, b2n_false, clearW_idle, clearW_exited, clearW_parked, clearW_eq_exited, clearW_eq_parked, srW, lgW, clAllW, clPreW, St.bg, onOk, onErr, selNext, afterSetErr, srAllW, nextC, roSets] <;> (try omega) <;> (try (intro _; first | exact inv (by omega) | exact Or.inl (inv (by omega))))
  | ehAcquire _ he ht =>
    clear h4
    (try simp only [St.setDone, St.setBg, ↓reduceIte, Bool.false_eq_true, Bool.and_false, Bool.and_true, Bool.false_and, Bool.true_and]) <;> (repeat' split) <;> simp_all [tot_ackWs_srw', tot_ackWs_lgw, tot_ackWs_clall, tot_ackWs_clpre, b2n_true, b2n_false, clearW_idle, clearW_exited, clearW_parked, clearW_eq_exited, clearW_eq_parked, srW, lgW, clAllW, clPreW, St.bg, onOk, onErr, selNext, afterSetErr, srAllW, nextC, roSets] <;> (try omega) <;> (try (intro _; first | exact inv (by omega) | exact Or.inl (inv (by omega))))
  | ehClose _ he hc =>
    clear h4
    (try simp only [St.setDone, St.setBg, ↓reduceIte, Bool.false_eq_true, Bool.and_false, Bool.and_true, Bool.false_and, Bool.true_and]) <;> (repeat' split) <;> simp_all [tot_ackWs_srw', tot_ackWs_lgw, tot_ackWs_clall, tot_ackWs_clpre, b2n_true, b2n_false, clearW_idle, clearW_exited, clearW_parked, clearW_eq_exited, clearW_eq_parked, srW, lgW, clAllW, clPreW, St.bg, onOk, onErr, selNext, afterSetErr, srAllW, nextC, roSets] <;> (try omega) <;> (try (intro _; first | exact inv (by omega) | exact Or.inl (inv (by omega))))
  | ehTake _ he ht =>
    clear h4
    (try simp only [St.setDone, St.setBg, ↓reduceIte, Bool.false_eq_true, Bool.and_false, Bool.and_true, Bool.false_and, Bool.true_and]) <;> (repeat' split) <;> simp_all [tot_ackWs_srw', tot_ackWs_lgw, tot_ackWs_clall, tot_ackWs_clpre, b2n_true, b2n_false, clearW_idle, clearW_exited, clearW_parked, clearW_eq_exited, clearW_eq_parked, srW, lgW, clAllW, clPreW, St.bg, onOk, onErr, selNext, afterSetErr, srAllW, nextC, roSets] <;> (try omega) <;> (try (intro _; first | exact inv (by omega) | exact Or.inl (inv (by omega))))
  | bgExitIdle _ b hb hc =>
    clear h4
    cases b <;> (try simp only [St.setDone, St.setBg, ↓reduceIte, Bool.false_eq_true, Bool.and_false, Bool.and_true, Bool.false_and, Bool.true_and]) <;> (repeat' split) <;> simp_all [tot_ackWs_srw', tot_ackWs_lgw, tot_ackWs_clall, tot_ackWs_clpre, b2n_true, b2n_false, clearW_idle, clearW_exited, clearW_parked, clearW_eq_exited, clearW_eq_parked, srW, lgW, clAllW, clPreW, St.bg, onOk, onErr, selNext, afterSetErr, srAllW, nextC, roSets] <;> (try omega) <;> (try (intro _; first | exact inv (by omega) | exact Or.inl (inv (by omega))))
  | bgExitParked _ hb hc =>
    clear h4
    (try simp only [St.setDone, St.setBg, ↓reduceIte, Bool.false_eq_true, Bool.and_false, Bool.and_true, Bool.false_and, Bool.true_and]) <;> (repeat' split) <;> simp_all [tot_ackWs_srw', tot_ackWs_lgw, tot_ackWs_clall, tot_ackWs_clpre, b2n_true, b2n_false, clearW_idle, clearW_exited, clearW_parked, clearW_eq_exited, clearW_eq_parked, srW, lgW, clAllW, clPreW, St.bg, onOk, onErr, selNext, afterSetErr, srAllW, nextC, roSets] <;> (try omega) <;> (try (intro _; first | exact inv (by omega) | exact Or.inl (inv (by omega))))
  | bgWorkCorrupt _ b w hb hk =>
    clear h4
    cases b <;> (try simp only [St.setDone, St.setBg, ↓reduceIte, Bool.false_eq_true, Bool.and_false, Bool.and_true, Bool.false_and, Bool.true_and]) <;> (repeat' split) <;> simp_all [tot_ackWs_srw', tot_ackWs_lgw, tot_ackWs_clall, tot_ackWs_clpre, b2n_true, b2n_false, clearW_idle, clearW_exited, clearW_parked, clearW_eq_exited, clearW_eq_parked, srW, lgW, clAllW, clPreW, St.bg, onOk, onErr, selNext, afterSetErr, srAllW, nextC, roSets] <;> (try omega) <;> (try (intro _; first | exact inv (by omega) | exact Or.inl (inv (by omega))))
  | bgCommitCorrupt _ b w hb hk =>
    clear h4
    cases b <;> (try simp only [St.setDone, St.setBg, ↓reduceIte, Bool.false_eq_true, Bool.and_false, Bool.and_true, Bool.false_and, Bool.true_and]) <;> (repeat' split) <;> simp_all [tot_ackWs_srw', tot_ackWs_lgw, tot_ackWs_clall, tot_ackWs_clpre, b2n_true, b2n_false, clearW_idle, clearW_exited, clearW_parked, clearW_eq_exited, clearW_eq_parked, srW, lgW, clAllW, clPreW, St.bg, onOk, onErr, selNext, afterSetErr, srAllW, nextC, roSets] <;> (try omega) <;> (try (intro _; first | exact inv (by omega) | exact Or.inl (inv (by omega))))
  | bgSetErrCorrupt _ b w c hb he =>
    clear h4
    cases b <;> cases c <;> (try simp only [St.setDone, St.setBg, ↓reduceIte, Bool.false_eq_true, Bool.and_false, Bool.and_true, Bool.false_and, Bool.true_and]) <;> (repeat' split) <;> simp_all [tot_ackWs_srw', tot_ackWs_lgw, tot_ackWs_clall, tot_ackWs_clpre, b2n_true, b2n_false, clearW_idle, clearW_exited, clearW_parked, clearW_eq_exited, clearW_eq_parked, srW, lgW, clAllW, clPreW, St.bg, onOk, onErr, selNext, afterSetErr, srAllW, nextC, roSets] <;> (try omega) <;> (try (intro _; first | exact inv (by omega) | exact Or.inl (inv (by omega))))
  | bgWorkOk _ b w hb =>
    clear h4
    cases b <;> (try simp only [St.setDone, St.setBg, ↓reduceIte, Bool.false_eq_true, Bool.and_false, Bool.and_true, Bool.false_and, Bool.true_and]) <;> (repeat' split) <;> simp_all [tot_ackWs_srw', tot_ackWs_lgw, tot_ackWs_clall, tot_ackWs_clpre, b2n_true, b2n_false, clearW_idle, clearW_exited, clearW_parked, clearW_eq_exited, clearW_eq_parked, srW, lgW, clAllW, clPreW, St.bg, onOk, onErr, selNext, afterSetErr, srAllW, nextC, roSets] <;> (try omega) <;> (try (intro _; first | exact inv (by omega) | exact Or.inl (inv (by omega))))
  | bgWorkFail _ b w hb =>
    clear h4
    cases b <;> (try simp only [St.setDone, St.setBg, ↓reduceIte, Bool.false_eq_true, Bool.and_false, Bool.and_true, Bool.false_and, Bool.true_and]) <;> (repeat' split) <;> simp_all [tot_ackWs_srw', tot_ackWs_lgw, tot_ackWs_clall, tot_ackWs_clpre, b2n_true, b2n_false, clearW_idle, clearW_exited, clearW_parked, clearW_eq_exited, clearW_eq_parked, srW, lgW, clAllW, clPreW, St.bg, onOk, onErr, selNext, afterSetErr, srAllW, nextC, roSets] <;> (try omega) <;> (try (intro _; first | exact inv (by omega) | exact Or.inl (inv (by omega))))
  | bgCommitOk _ b w hb =>
    clear h4
    cases b <;> (try simp only [St.setDone, St.setBg, ↓reduceIte, Bool.false_eq_true, Bool.and_false, Bool.and_true, Bool.false_and, Bool.true_and]) <;> (repeat' split) <;> simp_all [tot_ackWs_srw', tot_ackWs_lgw, tot_ackWs_clall, tot_ackWs_clpre, b2n_true, b2n_false, clearW_idle, clearW_exited, clearW_parked, clearW_eq_exited, clearW_eq_parked, srW, lgW, clAllW, clPreW, St.bg, onOk, onErr, selNext, afterSetErr, srAllW, nextC, roSets] <;> (try omega) <;> (try (intro _; first | exact inv (by omega) | exact Or.inl (inv (by omega))))
  | bgCommitFail _ b w hb =>
    clear h4
    cases b <;> (try simp only [St.setDone, St.setBg, ↓reduceIte, Bool.false_eq_true, Bool.and_false, Bool.and_true, Bool.false_and, Bool.true_and]) <;> (repeat' split) <;> simp_all [tot_ackWs_srw', tot_ackWs_lgw, tot_ackWs_clall, tot_ackWs_clpre, b2n_true, b2n_false, clearW_idle, clearW_exited, clearW_parked, clearW_eq_exited, clearW_eq_parked, srW, lgW, clAllW, clPreW, St.bg, onOk, onErr, selNext, afterSetErr, srAllW, nextC, roSets] <;> (try omega) <;> (try (intro _; first | exact inv (by omega) | exact Or.inl (inv (by omega))))
  | bgSetErr _ b w ok c hb he =>
    clear h4
    cases b <;> cases ok <;> cases c <;> (try simp only [St.setDone, St.setBg, ↓reduceIte, Bool.false_eq_true, Bool.and_false, Bool.and_true, Bool.false_and, Bool.true_and]) <;> (repeat' split) <;> simp_all [tot_ackWs_srw', tot_ackWs_lgw, tot_ackWs_clall, tot_ackWs_clpre, b2n_true, b2n_false, clearW_idle, clearW_exited, clearW_parked, clearW_eq_exited, clearW_eq_parked, srW, lgW, clAllW, clPreW, St.bg, onOk, onErr, selNext, afterSetErr, srAllW, nextC, roSets] <;> (try omega) <;> (try (intro _; first | exact inv (by omega) | exact Or.inl (inv (by omega))))
  | bgSetErrPer _ b w c hb he =>
    clear h4
    cases b <;> cases c <;> (try simp only [St.setDone, St.setBg, ↓reduceIte, Bool.false_eq_true, Bool.and_false, Bool.and_true, Bool.false_and, Bool.true_and]) <;> (repeat' split) <;> simp_all [tot_ackWs_srw', tot_ackWs_lgw, tot_ackWs_clall, tot_ackWs_clpre, b2n_true, b2n_false, clearW_idle, clearW_exited, clearW_parked, clearW_eq_exited, clearW_eq_parked, srW, lgW, clAllW, clPreW, St.bg, onOk, onErr, selNext, afterSetErr, srAllW, nextC, roSets] <;> (try omega) <;> (try (intro _; first | exact inv (by omega) | exact Or.inl (inv (by omega))))
  | bgBackoff _ b w c hb =>
    clear h4
    cases b <;> cases c <;> (try simp only [St.setDone, St.setBg, ↓reduceIte, Bool.false_eq_true, Bool.and_false, Bool.and_true, Bool.false_and, Bool.true_and]) <;> (repeat' split) <;> simp_all [tot_ackWs_srw', tot_ackWs_lgw, tot_ackWs_clall, tot_ackWs_clpre, b2n_true, b2n_false, clearW_idle, clearW_exited, clearW_parked, clearW_eq_exited, clearW_eq_parked, srW, lgW, clAllW, clPreW, St.bg, onOk, onErr, selNext, afterSetErr, srAllW, nextC, roSets] <;> (try omega) <;> (try (intro _; first | exact inv (by omega) | exact Or.inl (inv (by omega))))
  | bgLockClk _ b w hb hl =>
    clear h4
    cases b <;> (try simp only [St.setDone, St.setBg, ↓reduceIte, Bool.false_eq_true, Bool.and_false, Bool.and_true, Bool.false_and, Bool.true_and]) <;> (repeat' split) <;> simp_all [tot_ackWs_srw', tot_ackWs_lgw, tot_ackWs_clall, tot_ackWs_clpre, b2n_true, b2n_false, clearW_idle, clearW_exited, clearW_parked, clearW_eq_exited, clearW_eq_parked, srW, lgW, clAllW, clPreW, St.bg, onOk, onErr, selNext, afterSetErr, srAllW, nextC, roSets] <;> (try omega) <;> (try (intro _; first | exact inv (by omega) | exact Or.inl (inv (by omega))))
  | bgAck _ b w hb =>
    clear h4
    have hp := afterCmd_parked cfg s b
    rcases afterCmd_cases cfg s b with hac | hac <;> rw [hac] at hp ⊢ <;> cases b <;> (try simp only [St.setDone, St.setBg]) <;> simp_all [tot_ackWs_srw', tot_ackWs_lgw, tot_ackWs_clall, tot_ackWs_clpre, b2n_true, b2n_false, clearW_idle, clearW_exited, clearW_parked, clearW_eq_exited, clearW_eq_parked, srW, lgW, clAllW, clPreW, St.bg, onOk, onErr, selNext, afterSetErr, srAllW, nextC, roSets] <;> (try omega) <;> (try (intro _; first | exact inv (by omega) | exact Or.inl (inv (by omega))))
  | bgExit _ b w ph hb hx =>
    clear h4
    cases b <;> cases ph <;> (try simp only [St.setDone, St.setBg, ↓reduceIte, Bool.false_eq_true, Bool.and_false, Bool.and_true, Bool.false_and, Bool.true_and]) <;> (repeat' split) <;> simp_all [tot_ackWs_srw', tot_ackWs_lgw, tot_ackWs_clall, tot_ackWs_clpre, b2n_true, b2n_false, clearW_idle, clearW_exited, clearW_parked, clearW_eq_exited, clearW_eq_parked, srW, lgW, clAllW, clPreW, St.bg, onOk, onErr, selNext, afterSetErr, srAllW, nextC, roSets] <;> (try omega) <;> (try (rcases hx with hx | hx <;> simp_all))

end GoLevel.Locks
