import GoLevel.Proofs.RefLoopFPass
/-! One conversion of a cached version task into full references (first loop of `processTasks`), over the
full history (C07). -/
namespace GoLevel.RefLoop

/-- the state after converting version `next` with counters `m` -/
def convState (S : State) (m : List Nat) : State :=
  { S with fileRef := m, referenced := S.next :: S.referenced,
           ref := S.ref.filter (fun p => p.1 != S.next),
           deltas := S.deltas.filter (fun p => p.1 != S.next), next := S.next + 1 }

/-- everything but the counters -/
theorem conv_invF {S : State} {G : EnvF} (hI : InvF S G) (hi : G.inst S.next) (hnr : S.next ∉ G.rel)
    {m : List Nat}
    (hcnt : ∀ f, m.count f = ind (f ∈ G.L (G.cb (S.next + 1))) +
      ((S.next :: S.referenced).filter (fun k => decide (f ∈ G.T k))).length) :
    InvF (convState S m) G := by
  have hn := EnvF.inst_lt hi
  refine ⟨hI.wf, by show S.next + 1 ≤ G.N; omega, ⟨hI.ab.1, ?_⟩, ?_, ?_, ?_, ⟨?_, ?_⟩, hcnt⟩
  · intro k
    show k ∈ S.abandoned ↔ S.next + 1 ≤ k ∧ _
    rw [hI.ab.2 k]
    constructor
    · rintro ⟨h1, h2, h3⟩
      refine ⟨?_, h2, h3⟩
      by_cases hk : k = S.next
      · subst hk; exact absurd hi h3
      · omega
    · rintro ⟨h1, h2⟩; exact ⟨by omega, h2⟩
  · exact lookup_pass_filter (P := fun k => G.inst k ∧ k ∉ G.rel) hI.ref
  · exact lookup_pass_keep (P := fun k => k ∈ G.rel) hI.rld hnr
  · exact lookup_pass_filter (P := fun k => k < G.dn ∧ G.inst k ∧ k ∉ G.rel) hI.dl
  · refine List.nodup_cons.mpr ⟨fun h => ?_, hI.rfd.1⟩
    have := ((hI.rfd.2 _).mp h).1; omega
  · intro k
    show k ∈ S.next :: S.referenced ↔ k < S.next + 1 ∧ _
    rw [List.mem_cons, hI.rfd.2 k]
    constructor
    · rintro (rfl | ⟨h1, h2⟩)
      · exact ⟨by omega, hi, hnr⟩
      · exact ⟨by omega, h2⟩
    · rintro ⟨h1, h2⟩
      by_cases hk : k = S.next
      · exact Or.inl hk
      · exact Or.inr ⟨by omega, h2⟩

/-- the counters after adding the full references of version `next` -/
theorem conv_countF {S : State} {G : EnvF} (hI : InvF S G) (f : Nat) :
    (incrAll S.fileRef (G.T S.next)).count f = ind (f ∈ G.L (G.cb S.next)) +
      ((S.next :: S.referenced).filter (fun k => decide (f ∈ G.T k))).length := by
  rw [count_incrAll, hI.cnt f, count_nodup (hI.wf.nodupT _)]
  simp only [List.filter_cons, decide_eq_true_eq]
  split <;> simp <;> omega

/-- `if d := deltas[next]; d != nil { applyDelta(d) }` / `if d != nil { applyDelta(d) }` -/
def optApply (od : Option Delta) (m : List Nat) : Option (List Nat × List Nat) :=
  match od with
  | some d => applyDelta m d
  | none => some (m, [])

/-- One conversion: no panic, nothing is removed that a live version needs, exact history. -/
theorem convert_oneF {S : State} {G : EnvF} {R : List Nat} (hI : InvF S G)
    (hH : HistC S G R) (hi : G.inst S.next) (hnr : S.next ∉ G.rel) :
    ∃ m2 rm, optApply (S.deltas.lookup S.next) (incrAll S.fileRef (G.T S.next)) = some (m2, rm) ∧
      InvF (convState S m2) G ∧ rm = [] ∧ HistC (convState S m2) G (R ++ rm) := by
  have hn := EnvF.inst_lt hi
  have hmove : S.next < (convState S ([] : List Nat)).next → (convState S ([] : List Nat)).next = S.next + 1 ∧
      G.rel = G.rel ∧ G.dn = G.dn ∧ (S.next ∈ G.rel → S.next < G.dn) :=
    fun _ => ⟨rfl, rfl, rfl, fun h => absurd h hnr⟩
  by_cases hd : S.next < G.dn
  · have hdl : S.deltas.lookup S.next = some (G.din (G.up (S.next + 1))) := by
      rw [hI.dl]; simp [hd, hi, hnr]
    obtain ⟨hcb, hcb'⟩ := cb_pass_instF hi hd
    have hcnt := fun f => by have := conv_countF hI f; rw [hcb] at this; exact this
    obtain ⟨m2, rm, h1, h2, h3, h4, h5⟩ := apply_netF (hI.wf.chain _ hd hi) hcnt
    have hI' : InvF (convState S m2) G := conv_invF hI hi hnr (by intro f; rw [hcb']; exact h2 f)
    have hnil : ∀ r, r ∉ rm := by
      intro r hr
      obtain ⟨hrL, _, he⟩ := h3 r hr
      have := hI.wf.sub _ r hrL
      simp only [List.filter_cons, this, decide_true, if_true, List.length_cons] at he
      omega
    refine ⟨m2, rm, by rw [hdl]; exact h1, hI', List.eq_nil_iff_forall_not_mem.mpr hnil, fun hc hnu => ?_⟩
    refine hist_stepF hI hI' (hH hc hnu) hnu hc rfl (Nat.le_succ _) (Nat.le_refl _) (fun _ h => h) hmove h4 (fun f => ?_)
    constructor
    · intro h; exact absurd h (hnil f)
    · rintro ⟨h6, h7⟩
      exact (h5 f).mpr ⟨by rw [count_incrAll]; omega, h7⟩
  · have hdl : S.deltas.lookup S.next = none := by rw [hI.dl]; simp [hd]
    have hI' : InvF (convState S (incrAll S.fileRef (G.T S.next))) G :=
      conv_invF hI hi hnr (by
        intro f
        rw [cb_pass_sameF hI.wf hn (Or.inr (by omega))]
        exact conv_countF hI f)
    refine ⟨_, [], by rw [hdl]; rfl, hI', rfl, fun hc hnu => ?_⟩
    exact hist_stepF hI hI' (hH hc hnu) hnu hc rfl (Nat.le_succ _) (Nat.le_refl _) (fun _ h => h) hmove
      List.nodup_nil (fun f => by
        simp only [List.not_mem_nil, false_iff, not_and]
        intro h1 h0
        have : (incrAll S.fileRef (G.T S.next)).count f = 0 := h0
        rw [count_incrAll] at this; omega)

end GoLevel.RefLoop
