import GoLevel.Proofs.ConcTrace
/-!
# Remaining step facts: the compaction floor only rises, transaction reads, running explicit traces
-/
namespace GoLevel.Conc

variable {c : UCmp}

/-- `Transaction.Get` results are views of history plus private entries at the transaction's position
of that moment -/
def TrInv (c : UCmp) (σ : State) : Prop :=
  ∀ t, σ.tr = some t → ∀ x ∈ t.results,
    t.base ≤ x.2.1 ∧ x.2.1 ≤ t.base + t.priv.length ∧ x.2.2 = view c (σ.hist ++ t.priv) x.1 x.2.1

theorem trinv_init : TrInv c init := by intro t h; simp [init] at h

structure StepMisc (c : UCmp) (σ σ' : State) : Prop where
  floorLe : σ.floor ≤ σ'.floor
  trinv : TrInv c σ → TrInv c σ'
  /-- while one transaction stays open nothing is published -/
  frozenHist : σ.tr ≠ none → σ'.tr ≠ none → σ'.hist = σ.hist ∧ σ'.pub = σ.pub

theorem stepMisc {σ σ' : State} {a : Action} (hb : Basic σ) (hc : Cover c σ)
    (h : Step Cfg.real c σ a σ') : StepMisc c σ σ' := by
  obtain ⟨h, _⟩ := h
  cases a with
  | writeInsert es =>
    obtain ⟨g1, g2, rfl⟩ := doWriteInsert_some h
    exact ⟨Nat.le_refl _, fun _ t ht => absurd (show σ.tr = some t from ht) (by rw [g1]; simp),
      fun h0 => absurd g1 h0⟩
  | publish =>
    obtain ⟨g1, rfl⟩ := doPublish_some h
    exact ⟨Nat.le_refl _, fun _ t ht => absurd (show σ.tr = some t from ht) (by rw [g1]; simp),
      fun h0 => absurd g1 h0⟩
  | seqSkip n =>
    obtain ⟨g1, g2, rfl⟩ := doSeqSkip_some h
    exact ⟨Nat.le_refl _, fun hT => hT, fun h0 => absurd g1 h0⟩
  | rotate =>
    obtain ⟨g1, g2, g3, rfl⟩ := doRotate_some h
    exact ⟨Nat.le_refl _, fun hT => hT, fun _ _ => ⟨rfl, rfl⟩⟩
  | flushInstall =>
    obtain ⟨f, g1, g2, rfl⟩ := doFlushInstall_some h
    exact ⟨Nat.le_refl _, fun hT => hT, fun _ _ => ⟨rfl, rfl⟩⟩
  | flushDrop =>
    obtain ⟨g1, g2, rfl⟩ := doFlushDrop_some h
    exact ⟨Nat.le_refl _, fun hT => hT, fun _ _ => ⟨rfl, rfl⟩⟩
  | compStart =>
    obtain ⟨g1, rfl⟩ := doCompStart_some h
    exact ⟨le_minSeq σ _ hb.floorPub hb.floorSnap, fun hT => hT, fun _ _ => ⟨rfl, rfl⟩⟩
  | compCommit nt =>
    obtain ⟨m, g1, g2, rfl⟩ := doCompCommit_some h
    exact ⟨Nat.le_refl _, fun hT => hT, fun _ _ => ⟨rfl, rfl⟩⟩
  | snapAcquire =>
    have := doSnapAcquire_some h
    subst this
    exact ⟨Nat.le_refl _, fun hT => hT, fun _ _ => ⟨rfl, rfl⟩⟩
  | snapRelease id =>
    have := doSnapRelease_some h
    subst this
    exact ⟨Nat.le_refl _, fun hT => hT, fun _ _ => ⟨rfl, rfl⟩⟩
  | rNew =>
    have := doRNew_some h
    subst this
    exact ⟨Nat.le_refl _, fun hT => hT, fun _ _ => ⟨rfl, rfl⟩⟩
  | rSeq i =>
    obtain ⟨r0, g1, g2, rfl⟩ := doRSeq_some h
    exact ⟨Nat.le_refl _, fun hT => hT, fun _ _ => ⟨rfl, rfl⟩⟩
  | rSeqSnap i id =>
    obtain ⟨r0, s, g1, g2, g3, rfl⟩ := doRSeqSnap_some h
    exact ⟨Nat.le_refl _, fun hT => hT, fun _ _ => ⟨rfl, rfl⟩⟩
  | rMems i =>
    obtain ⟨r0, g1, g2, g3, g4, rfl⟩ := doRMems_some h
    exact ⟨Nat.le_refl _, fun hT => hT, fun _ _ => ⟨rfl, rfl⟩⟩
  | rVer i =>
    obtain ⟨r0, g1, g2, g3, g4, rfl⟩ := doRVer_some h
    exact ⟨Nat.le_refl _, fun hT => hT, fun _ _ => ⟨rfl, rfl⟩⟩
  | rLookup i k =>
    obtain ⟨r0, s, mf, v, g1, g2, g3, g4, rfl⟩ := doRLookup_some h
    exact ⟨Nat.le_refl _, fun hT => hT, fun _ _ => ⟨rfl, rfl⟩⟩
  | rRelease i =>
    obtain ⟨r0, g1, g2, g3, g4, rfl⟩ := doRRelease_some h
    exact ⟨Nat.le_refl _, fun hT => hT, fun _ _ => ⟨rfl, rfl⟩⟩
  | trOpen =>
    obtain ⟨g1, g2, g3, g4, rfl⟩ := doTrOpen_some h
    refine ⟨Nat.le_refl _, ?_, fun _ _ => ⟨rfl, rfl⟩⟩
    intro _ t ht x hx
    have : some (TrState.mk σ.pub [] false []) = some t := ht
    cases this; cases hx
  | trPut e =>
    obtain ⟨t, g1, g2, g3, rfl⟩ := doTrPut_some h
    refine ⟨Nat.le_refl _, ?_, fun _ _ => ⟨rfl, rfl⟩⟩
    intro hT t' ht' x hx
    have : some { t with priv := t.priv ++ [e] } = some t' := ht'
    cases this
    obtain ⟨a, b, c'⟩ := hT t g1 x hx
    refine ⟨a, ?_, ?_⟩
    · show x.2.1 ≤ t.base + (t.priv ++ [e]).length
      simp only [List.length_append, List.length_singleton]; omega
    · rw [c']
      show view c (σ.hist ++ t.priv) x.1 x.2.1 = view c (σ.hist ++ (t.priv ++ [e])) x.1 x.2.1
      rw [← List.append_assoc]
      apply view_eq_of_leF
      symm
      apply leF_append_above
      intro e' he'
      simp only [List.mem_singleton] at he'; subst he'; omega
  | trGet k =>
    obtain ⟨t, g1, g2, rfl⟩ := doTrGet_some h
    obtain ⟨x1, x2, x3, x4⟩ := hb.trExcl t g1
    refine ⟨Nat.le_refl _, ?_, fun _ _ => ⟨rfl, rfl⟩⟩
    intro hT t' ht' x hx
    have : some { t with results := t.results ++
      [(k, t.base + t.priv.length,
        view c (t.priv ++ (memBuf σ ++ frozenBuf σ ++ σ.tabs)) k (t.base + t.priv.length))] } = some t' := ht'
    cases this
    rcases List.mem_append.1 hx with hx | hx
    · exact hT t g1 x hx
    · simp only [List.mem_singleton] at hx
      subst hx
      refine ⟨Nat.le_add_right _ _, Nat.le_refl _, ?_⟩
      have hfl : σ.floor ≤ t.base + t.priv.length := by have := hb.floorPub; omega
      have := hc.cov k _ hfl
      simp only [bufPart, bufPartL, univ, g1, privOut, g2, privOf] at this
      simp only [Bool.false_eq_true, if_false] at this
      show view c (t.priv ++ (memBuf σ ++ frozenBuf σ ++ σ.tabs)) k (t.base + t.priv.length) = _
      rw [← this]
      simp only [List.append_assoc]
  | trInstall =>
    obtain ⟨t, g1, g2, rfl⟩ := doTrInstall_some h
    refine ⟨Nat.le_refl _, ?_, fun _ _ => ⟨rfl, rfl⟩⟩
    intro hT t' ht' x hx
    have : some { t with installed := true } = some t' := ht'
    cases this
    exact hT t g1 x hx
  | trPublish =>
    obtain ⟨t, g1, g2, rfl⟩ := doTrPublish_some h
    exact ⟨Nat.le_refl _, fun _ t' ht' => (by cases ht'), fun _ h1 => absurd rfl h1⟩
  | trDiscard =>
    obtain ⟨t, g1, g2, rfl⟩ := doTrDiscard_some h
    exact ⟨Nat.le_refl _, fun _ t' ht' => (by cases ht'), fun _ h1 => absurd rfl h1⟩

theorem steps_floor_le {σ σ' : State} (hi : Inv c σ) (h : Steps Cfg.real c σ σ') : σ.floor ≤ σ'.floor := by
  induction h with
  | refl => exact Nat.le_refl _
  | tail a hs hstep ih =>
    have hi1 := inv_steps hi hs
    exact Nat.le_trans ih (stepMisc hi1.basic hi1.cover hstep).floorLe

theorem trinv_reachable {σ : State} (h : Reachable Cfg.real c σ) : TrInv c σ := by
  have : ∀ σ', Steps Cfg.real c init σ' → Inv c σ' ∧ TrInv c σ' := by
    intro σ' h
    induction h with
    | refl => exact ⟨inv_init, trinv_init⟩
    | tail a _ hs ih => exact ⟨inv_step ih.1 hs, (stepMisc ih.1.basic ih.1.cover hs).trinv ih.2⟩
  exact (this σ h).2

/-! ## buffers only grow, and only by entries above `pub` -/

def BufGrow (σ σ' : State) : Prop :=
  ∀ id, ∃ ext, getBuf σ' id = getBuf σ id ++ ext ∧ ∀ e ∈ ext, σ.pub < e.seq

theorem bufGrow_same {σ σ' : State} (h : σ'.bufs = σ.bufs) : BufGrow σ σ' :=
  fun id => ⟨[], by simp [getBuf, h], by simp⟩

theorem step_bufGrow {σ σ' : State} {a : Action} (h : Step Cfg.real c σ a σ') : BufGrow σ σ' := by
  obtain ⟨h, _⟩ := h
  cases a with
  | writeInsert es =>
    obtain ⟨g1, g2, rfl⟩ := doWriteInsert_some h
    obtain ⟨hc1, _⟩ := consec_spec _ _ g2
    intro id
    rw [getBuf_wi σ _ es id rfl]
    by_cases hid : id = σ.mem
    · exact ⟨es, by simp [hid], fun e he => by have := (hc1 e he).1; omega⟩
    · exact ⟨[], by simp [hid], by simp⟩
  | publish => obtain ⟨_, rfl⟩ := doPublish_some h; exact bufGrow_same rfl
  | seqSkip n => obtain ⟨_, _, rfl⟩ := doSeqSkip_some h; exact bufGrow_same rfl
  | rotate => obtain ⟨_, _, _, rfl⟩ := doRotate_some h; exact bufGrow_same rfl
  | flushInstall => obtain ⟨f, _, _, rfl⟩ := doFlushInstall_some h; exact bufGrow_same rfl
  | flushDrop => obtain ⟨_, _, rfl⟩ := doFlushDrop_some h; exact bufGrow_same rfl
  | compStart => obtain ⟨_, rfl⟩ := doCompStart_some h; exact bufGrow_same rfl
  | compCommit nt => obtain ⟨m, _, _, rfl⟩ := doCompCommit_some h; exact bufGrow_same rfl
  | snapAcquire => have := doSnapAcquire_some h; subst this; exact bufGrow_same rfl
  | snapRelease id => have := doSnapRelease_some h; subst this; exact bufGrow_same rfl
  | rNew => have := doRNew_some h; subst this; exact bufGrow_same rfl
  | rSeq i => obtain ⟨r, _, _, rfl⟩ := doRSeq_some h; exact bufGrow_same rfl
  | rSeqSnap i id => obtain ⟨r, s, _, _, _, rfl⟩ := doRSeqSnap_some h; exact bufGrow_same rfl
  | rMems i => obtain ⟨r, _, _, _, _, rfl⟩ := doRMems_some h; exact bufGrow_same rfl
  | rVer i => obtain ⟨r, _, _, _, _, rfl⟩ := doRVer_some h; exact bufGrow_same rfl
  | rLookup i k => obtain ⟨r, s, mf, v, _, _, _, _, rfl⟩ := doRLookup_some h; exact bufGrow_same rfl
  | rRelease i => obtain ⟨r, _, _, _, _, rfl⟩ := doRRelease_some h; exact bufGrow_same rfl
  | trOpen => obtain ⟨_, _, _, _, rfl⟩ := doTrOpen_some h; exact bufGrow_same rfl
  | trPut e => obtain ⟨t, _, _, _, rfl⟩ := doTrPut_some h; exact bufGrow_same rfl
  | trGet k => obtain ⟨t, _, _, rfl⟩ := doTrGet_some h; exact bufGrow_same rfl
  | trInstall => obtain ⟨t, _, _, rfl⟩ := doTrInstall_some h; exact bufGrow_same rfl
  | trPublish => obtain ⟨t, _, _, rfl⟩ := doTrPublish_some h; exact bufGrow_same rfl
  | trDiscard => obtain ⟨t, _, _, rfl⟩ := doTrDiscard_some h; exact bufGrow_same rfl

theorem steps_bufGrow {σ σ' : State} (hb : Basic σ) (h : Steps Cfg.real c σ σ') : BufGrow σ σ' := by
  induction h with
  | refl => exact fun id => ⟨[], by simp, by simp⟩
  | tail a hs hstep ih =>
    intro id
    obtain ⟨e1, h1, h1'⟩ := ih id
    obtain ⟨e2, h2, h2'⟩ := step_bufGrow hstep id
    refine ⟨e1 ++ e2, by rw [h2, h1, List.append_assoc], ?_⟩
    intro e he
    rcases List.mem_append.1 he with he | he
    · exact h1' e he
    · have := h2' e he; have := steps_pub_le hb hs; omega

/-! ## running explicit traces -/

theorem Steps.head {cfg : Cfg} {σ σ₁ σ₂ : State} {a : Action} (h1 : Step cfg c σ a σ₁)
    (h2 : Steps cfg c σ₁ σ₂) : Steps cfg c σ σ₂ := by
  induction h2 with
  | refl => exact Steps.tail a (Steps.refl σ) h1
  | tail b _ hs ih => exact Steps.tail b ih hs

theorem Steps.trans {cfg : Cfg} {σ σ₁ σ₂ : State} (h1 : Steps cfg c σ σ₁)
    (h2 : Steps cfg c σ₁ σ₂) : Steps cfg c σ σ₂ := by
  induction h2 with
  | refl => exact h1
  | tail b _ hs ih => exact Steps.tail b ih hs

theorem guardP_plain (σ : State) (a : Action) (h : a.plain = true) : guardP c σ a := by
  cases a <;> first | trivial | cases h

/-- a checked run of actions with decidable guards is an execution -/
theorem steps_of_run {cfg : Cfg} : ∀ (acts : List Action) (σ σ' : State),
    acts.all Action.plain = true → run cfg c σ acts = some σ' → Steps cfg c σ σ' := by
  intro acts
  induction acts with
  | nil => intro σ σ' _ h; simp only [run] at h; cases h; exact Steps.refl _
  | cons a as ih =>
    intro σ σ' hp h
    simp only [List.all_cons, Bool.and_eq_true] at hp
    simp only [run] at h
    split at h
    · rename_i σ1 h1
      exact Steps.head ⟨h1, guardP_plain σ a hp.1⟩ (ih σ1 σ' hp.2 h)
    · cases h

end GoLevel.Conc
