import GoLevel.Proofs.DurableStepJ1
/-!
Job steps, part 2: `tCreate`, `tWrite`, `tSync`.
-/
namespace GoLevel.Dur

/-- in the table phase the single output table is the one being made -/
theorem JobOK.table_phase {cfg : Cfg} {s : St} {d : Disk} {j : Job} (h : JobOK cfg s d j) {i : Nat}
    (hpc : j.pc = .tCreate i ∨ j.pc = .tWrite i ∨ j.pc = .tSync i) :
    i = 0 ∧ ∃ o, j.outs = [o] ∧ j.outs[i]? = some o ∧ j.edit.isSome := by
  have hidx : i < j.outs.length := by
    have := h.pcIdx
    unfold PcIdxOK at this
    rcases hpc with e | e | e <;> rw [e] at this <;> exact this
  have hlen := h.one.1
  have hi : i = 0 := by omega
  subst hi
  cases ho : j.outs with
  | nil => rw [ho] at hidx; simp at hidx
  | cons o os =>
    have : os = [] := by
      rw [ho] at hlen
      simp only [List.length_cons] at hlen
      exact List.length_eq_zero_iff.1 (by omega)
    subst this
    refine ⟨rfl, o, rfl, rfl, ?_⟩
    -- a job without an edit has no outputs
    have hk := h.kind
    unfold JobKindOK at hk
    cases he : j.edit with
    | some e => rfl
    | none =>
      rw [he] at hk
      split at hk
      · obtain ⟨_, hk⟩ := hk
        split at hk
        · rename_i heq; cases heq
        · rw [ho] at hk; exact absurd hk.2.1 (by simp)
        · exact absurd hk id
      · simp [Holds] at hk
        obtain ⟨_, _, hk⟩ := hk
        revert hk
        cases s.recov with
        | none => simp [Holds]
        | some r =>
          simp only [Holds]
          cases r.ofd with
          | none => simp
          | some o' =>
            simp only
            rintro ⟨_, _, hk⟩
            revert hk
            cases r.todo.head? <;> simp [Holds]
      · revert hk
        simp only [Holds]
        rintro ⟨_, hk⟩
        revert hk
        cases s.recov with
        | none => simp
        | some r =>
          simp only
          rintro ⟨_, _, _, hk⟩
          revert hk
          cases j.mkJournal <;> simp [Holds]
      · exact absurd hk.2.2.2 (by simp)
      · obtain ⟨_, _, _, _, hk⟩ := hk
        revert hk
        cases s.tr <;> simp [Holds]


/-- the pcs whose manifest clause is "settled, mirrored" and whose edit is still to come -/
def JPc.early : JPc → Bool
  | .tCreate _ | .tWrite _ | .tSync _ | .mkJournal | .append => true
  | _ => false

theorem JobManifest_early {cfg : Cfg} {s : St} {d : Disk} {e : MRec} {pc : JPc} (h : pc.early = true) :
    JobManifest cfg s d e pc = Settled cfg s d (MirrorL s) := by
  cases pc <;> simp_all [JPc.early, JobManifest]

theorem early_beforeCommit {pc : JPc} (h : pc.early = true) : pc.beforeCommit = true := by
  cases pc <;> simp_all [JPc.early, JPc.beforeCommit]

theorem early_not_rm {s : St} {d : Disk} {j : Job} {v : MView} (h : j.pc.early = true) : RemovalsOK s d j v := by
  unfold RemovalsOK
  split <;> simp_all [JPc.early]

/-- `JobOK` for the next pc inside the early phase when only the output table changes on disk -/
theorem JobOK.early_next {cfg : Cfg} {s : St} {d : Disk} {j : Job} (h : JobOK cfg s d j) (he : j.pc.early = true)
    (o : Nat × List Grp) (ho : j.outs = [o] ∨ j.outs = []) (T' : Files TableFile) (pc' : JPc) (he' : pc'.early = true)
    (hout : ∀ o', j.outs = [o'] → OutOK { d with tables := T' } pc' 0 o')
    (hidx : PcIdxOK { j with pc := pc' })
    (hmk : j.mkJournal = none ∨ ((pc' = .mkJournal ∨ pc'.tablesDone = false) ↔ (j.pc = .mkJournal ∨ j.pc.tablesDone = false)))
    (hed : j.edit.isSome = true)
    (hT : ∀ t, (∀ o' ∈ j.outs, t ≠ o'.1) → lookup T' t = lookup d.tables t)
    (hnret : j.pc.retry = false := by first | rfl | (simp only [*]; rfl)) :
    JobOK cfg { s with job := some { j with pc := pc' } } { d with tables := T' } { j with pc := pc' } := by
  obtain ⟨h1, h2, h3, h4, h5, h6, h7, h8, h9, h10, h11, h12⟩ := h
  refine ⟨h1, ?_, ?_, ?_, h5, ?_, hidx, ?_, ?_, (fun hn => by
    have hn' : j.edit = none := hn
    rw [hn'] at hed; cases hed), ?_, (fun hb => by
    have hb' : pc'.beforeCommit = false := hb
    rw [early_beforeCommit he'] at hb'; cases hb')⟩
  rotate_right
  · exact Holds'.imp (o := j.edit) h11 (fun e he0 => he0.transport rfl rfl (fun _ => rfl)
      (fun _ => early_beforeCommit he) (fun _ => rfl) (fun _ => hT))
  · exact h2.transport rfl rfl rfl rfl rfl rfl rfl rfl rfl rfl rfl rfl (fun _ => early_beforeCommit he)
      rfl rfl (fun _ => rfl)
  · unfold JobManifestOK at h3 ⊢
    show match j.edit with
      | some e => JobManifest cfg _ _ e pc'
      | none => _
    cases hje : j.edit with
    | none => rw [hje] at h3; exact h3
    | some e =>
      rw [hje] at h3
      simp only at h3 ⊢
      rw [JobManifest_early he] at h3
      rw [JobManifest_early he']
      exact h3
  · refine ⟨h4.1, fun _ => ?_⟩
    have := h4.2 (early_beforeCommit he)
    show Holds (curManifest d) _
    refine this.imp (fun mf hmf k hk => (hmf k hk).imp (fun v hv => ⟨fun o ho => ?_, hv.2⟩))
    rcases hv.1 o ho with h0 | h0
    · exact Or.inl h0
    · rw [hnret] at h0; exact absurd h0.1 (by simp)
  · intro i o' hio
    show OutOK _ pc' i o'
    rcases ho with ho | ho
    · have hio' : ([o] : List (Nat × List Grp))[i]? = some o' := by rw [← ho]; exact hio
      cases i with
      | zero =>
        simp only [List.getElem?_cons_zero, Option.some.injEq] at hio'
        subst hio'
        exact hout o ho
      | succ k => simp at hio'
    · have hio' : ([] : List (Nat × List Grp))[i]? = some o' := by rw [← ho]; exact hio
      simp at hio'
  · rcases hmk with hmk | hmk
    · unfold MkJournalOK
      show match j.mkJournal with
        | none => True
        | some n => _
      rw [hmk]; trivial
    · exact h8.transport (Nat.le_refl _) rfl rfl rfl hmk
  · exact h9.imp (fun v _ => early_not_rm (by exact he'))


theorem tablesDone_of_not_table {pc : JPc} (h : ∀ i, pc ≠ .tCreate i ∧ pc ≠ .tWrite i ∧ pc ≠ .tSync i) :
    pc.tablesDone = true := by
  cases pc <;> simp_all [JPc.tablesDone]

theorem inv_job_tCreate {cfg : Cfg} {s : St} {d : Disk} (h : Inv cfg s d) {j : Job} (hj : s.job = some j) {i : Nat}
    (hpc : j.pc = .tCreate i) {rot : Bool} {s' : St} {d' : Disk}
    (hs : stepJob cfg s d j rot .ok = some (s', d')) : Inv cfg s' d' := by
  have hok := h.job
  rw [hj] at hok
  obtain ⟨rfl, o, ho, hoi, hed⟩ := hok.table_phase (Or.inl hpc)
  obtain ⟨n, gs⟩ := o
  simp only [stepJob, hpc, hoi, Disk.exec, Disk.apply, Outcome.failed, Bool.false_eq_true, if_false,
    Option.some.injEq, Prod.mk.injEq] at hs
  obtain ⟨rfl, rfl⟩ := hs
  have he : j.pc.early = true := by rw [hpc]; rfl
  apply h.table_step hj (early_beforeCommit he) (by rw [hpc]; intro m hm; cases hm)
    (by rw [ho]; exact List.mem_singleton.2 rfl) (d.tables.set n {})
    (fun t ht => by rw [lookup_set, if_neg ht]) (nodup_set h.disk.tnodup _ _) (.tWrite 0)
    (by intro m hm; cases hm) _ rfl
  case hnret => rw [hpc]; rfl
  case hbc' => exact Or.inr rfl
  apply hok.early_next he (n, gs) (Or.inl ho) _ (.tWrite 0) rfl
  · intro o' ho'
    rw [ho] at ho'
    cases ho'
    show OutOK _ (.tWrite 0) 0 (n, gs)
    unfold OutOK
    refine ⟨fun hlt => absurd hlt (Nat.lt_irrefl _), fun _ => ?_⟩
    show Holds (lookup (d.tables.set n {}) n) _
    rw [lookup_set, if_pos rfl]
    rfl
  · show PcIdxOK _
    unfold PcIdxOK
    show 0 < j.outs.length
    rw [ho]; exact Nat.zero_lt_one
  · right
    rw [hpc]
    simp [JPc.tablesDone]
  · exact hed
  · intro t ht
    have := ht (n, gs) (by rw [ho]; exact List.mem_singleton.2 rfl)
    first
      | rw [lookup_set, if_neg this]
      | rw [lookup_modify, if_neg this]

theorem inv_job_tWrite {cfg : Cfg} {s : St} {d : Disk} (h : Inv cfg s d) {j : Job} (hj : s.job = some j) {i : Nat}
    (hpc : j.pc = .tWrite i) {rot : Bool} {s' : St} {d' : Disk}
    (hs : stepJob cfg s d j rot .ok = some (s', d')) : Inv cfg s' d' := by
  have hok := h.job
  rw [hj] at hok
  obtain ⟨rfl, o, ho, hoi, hed⟩ := hok.table_phase (Or.inr (Or.inl hpc))
  obtain ⟨n, gs⟩ := o
  simp only [stepJob, hpc, hoi, Disk.exec, Disk.apply, Outcome.failed, Bool.false_eq_true, if_false,
    Option.some.injEq, Prod.mk.injEq] at hs
  obtain ⟨rfl, rfl⟩ := hs
  have he : j.pc.early = true := by rw [hpc]; rfl
  have hcur := hok.tables 0 (n, gs) hoi
  unfold OutOK at hcur
  rw [hpc] at hcur
  simp only at hcur
  have hex := hcur.2 trivial
  rw [holds_iff] at hex
  obtain ⟨tf, htf, hbad⟩ := hex
  apply h.table_step hj (early_beforeCommit he) (by rw [hpc]; intro m hm; cases hm)
    (by rw [ho]; exact List.mem_singleton.2 rfl) (d.tables.modify n fun t => { t with grps := gs })
    (fun t ht => by rw [lookup_modify, if_neg ht]) (pairwise_keys_modify (R := (· ≠ ·)) _ _ h.disk.tnodup) (.tSync 0)
    (by intro m hm; cases hm) _ rfl
  case hnret => rw [hpc]; rfl
  case hbc' => exact Or.inr rfl
  apply hok.early_next he (n, gs) (Or.inl ho) _ (.tSync 0) rfl
  · intro o' ho'
    rw [ho] at ho'
    cases ho'
    show OutOK _ (.tSync 0) 0 (n, gs)
    unfold OutOK
    refine ⟨fun hlt => absurd hlt (Nat.lt_irrefl _), fun _ => ?_⟩
    simp only [lookup_modify, if_true, htf, Option.map_some, Holds]
    exact ⟨trivial, hbad⟩
  · show PcIdxOK _
    unfold PcIdxOK
    show 0 < j.outs.length
    rw [ho]; exact Nat.zero_lt_one
  · right
    rw [hpc]
    simp [JPc.tablesDone]
  · exact hed
  · intro t ht
    have := ht (n, gs) (by rw [ho]; exact List.mem_singleton.2 rfl)
    first
      | rw [lookup_set, if_neg this]
      | rw [lookup_modify, if_neg this]

theorem inv_job_tSync {cfg : Cfg} {s : St} {d : Disk} (h : Inv cfg s d) {j : Job} (hj : s.job = some j) {i : Nat}
    (hpc : j.pc = .tSync i) {rot : Bool} {s' : St} {d' : Disk}
    (hs : stepJob cfg s d j rot .ok = some (s', d')) : Inv cfg s' d' := by
  have hok := h.job
  rw [hj] at hok
  obtain ⟨rfl, o, ho, hoi, hed⟩ := hok.table_phase (Or.inr (Or.inr hpc))
  obtain ⟨n, gs⟩ := o
  have hlen : ¬ (0 + 1 < j.outs.length) := by rw [ho]; simp
  simp only [stepJob, hpc, hoi, Disk.exec, Disk.apply, Outcome.failed, Bool.false_eq_true, if_false,
    Option.some.injEq, Prod.mk.injEq, hlen] at hs
  obtain ⟨rfl, rfl⟩ := hs
  have he : j.pc.early = true := by rw [hpc]; rfl
  have hcur := hok.tables 0 (n, gs) hoi
  unfold OutOK at hcur
  rw [hpc] at hcur
  simp only at hcur
  have hex := hcur.2 trivial
  rw [holds_iff] at hex
  obtain ⟨tf, htf, hgr, hbad⟩ := hex
  have haft : j.afterTables = .mkJournal ∨ j.afterTables = .append := by
    unfold Job.afterTables
    by_cases hm : j.mkJournal.isSome = true
    · rw [if_pos hm]; exact Or.inl rfl
    · rw [if_neg hm, if_pos hed]; exact Or.inr rfl
  have he' : j.afterTables.early = true := by rcases haft with e | e <;> rw [e] <;> rfl
  apply h.table_step hj (early_beforeCommit he) (by rw [hpc]; intro m hm; cases hm)
    (by rw [ho]; exact List.mem_singleton.2 rfl) (d.tables.modify n fun t => { t with synced := true })
    (fun t ht => by rw [lookup_modify, if_neg ht]) (pairwise_keys_modify (R := (· ≠ ·)) _ _ h.disk.tnodup) j.afterTables
    (by intro m hm; rcases haft with e | e <;> rw [e] at hm <;> cases hm) _ rfl
  case hnret => rw [hpc]; rfl
  case hbc' => exact Or.inr (early_beforeCommit he')
  apply hok.early_next he (n, gs) (Or.inl ho) _ j.afterTables he'
  · intro o' ho'
    rw [ho] at ho'
    cases ho'
    have : OutOK { d with tables := d.tables.modify n fun t => { t with synced := true } } j.afterTables 0 (n, gs) := by
      have key : Holds (lookup (d.tables.modify n fun t => { t with synced := true }) n)
          fun tf => tf = ⟨gs, true, false⟩ := by
        simp only [lookup_modify, if_true, htf, Option.map_some, Holds]
        cases tf
        simp_all
      unfold OutOK
      rcases haft with e | e <;> rw [e] <;> exact fun _ => key
    exact this
  · show PcIdxOK _
    unfold PcIdxOK
    rcases haft with e | e <;> simp [e]
  · unfold Job.afterTables
    cases hm : j.mkJournal with
    | none => exact Or.inl rfl
    | some x =>
      right
      simp only [Option.isSome_some, if_true, true_or, hpc, JPc.tablesDone, or_true]
  · exact hed
  · intro t ht
    have := ht (n, gs) (by rw [ho]; exact List.mem_singleton.2 rfl)
    rw [lookup_modify, if_neg this]

end GoLevel.Dur
