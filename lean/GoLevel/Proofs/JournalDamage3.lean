import GoLevel.Proofs.JournalDamage2
import GoLevel.Proofs.CRC
/-! A chunk in which one payload byte was altered fails the checksum test (ties `crc_single_byte` to `Accepts`). -/
namespace GoLevel.Journal
open GoLevel.Gen (journalBlockSize journalHeaderSize fullChunkType firstChunkType middleChunkType lastChunkType)

local notation "blockSize" => journalBlockSize
local notation "headerSize" => journalHeaderSize

theorem altered_payload_rejected (pos n : Nat) (f l : Bool) (a b : Bytes) (x x' : UInt8) (more : Bytes)
    (hx : x ≠ x') (hp : (a ++ x :: b).length < 65536) :
    ¬ Accepts true pos (chunkHeader (chunkType f l) (a ++ x :: b) ++ (a ++ x' :: b) ++ more) n := by
  obtain ⟨r1, r2, r3, r4⟩ := chunkType_range f l
  have hl : (a ++ x' :: b).length = (a ++ x :: b).length := by simp
  obtain ⟨e1, e2, e3, e4⟩ := header_fields (chunkType f l) (a ++ x :: b) ((a ++ x' :: b) ++ more) r3 hp
  rw [← List.append_assoc] at e1 e2 e3
  intro ⟨_, _, _, h4⟩
  apply h4
  refine ⟨rfl, ?_⟩
  rw [e1, e2, e3]
  have hd : ((chunkHeader (chunkType f l) (a ++ x :: b) ++ (a ++ x' :: b) ++ more).drop headerSize).take
      (a ++ x :: b).length = a ++ x' :: b := by
    rw [List.append_assoc, List.drop_left' (chunkHeader_length _ _), ← hl, List.take_left' rfl]
  rw [hd]
  intro he
  have := UInt32.toNat_inj.mp he
  exact CRC.crcValue_single_byte ((chunkType f l).toUInt8 :: a) b x x' hx (by simpa using this)

end GoLevel.Journal
