import GoLevel.Proofs.CacheTableRefine
/-! Hash table of the cache (C17), part 8: the background initialisation (`initBuckets`) is invisible; every
step and every run of the table model refines the finite map. -/
namespace GoLevel.CacheT

theorem equiv_cons {a : Head} {ps' ps : List Head} (he : Equiv ps' ps) : Equiv (a :: ps') (a :: ps) :=
  ⟨fun j => vnodes_congr_tail he j, rfl⟩

/-- Replacing a suffix of the chain by an equivalent one. -/
theorem splice_ok {hashfn : Nat → Nat → Nat} : ∀ (pre suf suf' : List Head), WFChain hashfn (pre ++ suf) →
    suf ≠ [] → WFChain hashfn suf' → Equiv suf' suf →
    WFChain hashfn (pre ++ suf') ∧ Equiv (pre ++ suf') (pre ++ suf) := by
  intro pre
  induction pre with
  | nil => intro suf suf' _ _ hw' he; exact ⟨hw', he⟩
  | cons a pre ih =>
    intro suf suf' hw hne hw' he
    have hne2 : pre ++ suf ≠ [] := by simp [hne]
    have hwt : WFChain hashfn (pre ++ suf) := by
      cases hps : pre ++ suf with
      | nil => exact absurd hps hne2
      | cons p rest => rw [List.cons_append, hps] at hw; exact hw.tail
    obtain ⟨h1, h2⟩ := ih suf suf' hwt hne hw' he
    exact ⟨wf_congr_tail hw h2 (fun _ => h1), equiv_cons h2⟩

theorem wf_drop {hashfn : Nat → Nat → Nat} : ∀ (k : Nat) (hs : List Head), WFChain hashfn hs → hs.drop k ≠ [] →
    WFChain hashfn (hs.drop k) := by
  intro k
  induction k with
  | zero => intro hs hw _; exact hw
  | succ k ih =>
    intro hs hw hne
    cases hs with
    | nil => simp at hne
    | cons a ps =>
      simp only [List.drop_succ_cons] at hne ⊢
      cases ps with
      | nil => simp at hne
      | cons p rest => exact ih _ hw.tail hne

theorem bucket_mem {h : Head} {i : Nat} (hi : i < h.buckets.length) : h.bucket i ∈ h.buckets := by
  unfold Head.bucket
  rw [List.getD_eq_getElem?_getD, List.getElem?_eq_getElem hi]
  exact List.getElem_mem hi

/-- Cutting the chain behind a head whose buckets are all initialised. -/
theorem truncate_ok {hashfn : Nat → Nat → Nat} : ∀ (k : Nat) (hs : List Head) (h : Head), WFChain hashfn hs →
    hs[k]? = some h → (∀ b ∈ h.buckets, b.state ≠ .uninit) →
    WFChain hashfn (hs.take (k + 1)) ∧ Equiv (hs.take (k + 1)) hs := by
  intro k
  induction k with
  | zero =>
    intro hs h hw hk hall
    cases hs with
    | nil => simp at hk
    | cons a ps =>
      simp only [List.getElem?_cons_zero, Option.some.injEq] at hk; subst hk
      simp only [Nat.zero_add, List.take_succ_cons, List.take_zero]
      refine ⟨⟨hw.1, hw.2.1, fun i hi => hall _ (bucket_mem hi)⟩, fun j => ?_, rfl⟩
      unfold vnodes
      split
      · rfl
      · rename_i hj
        rw [if_pos (hall _ (bucket_mem (by omega))), if_pos (hall _ (bucket_mem (by omega)))]
  | succ k ih =>
    intro hs h hw hk hall
    cases hs with
    | nil => simp at hk
    | cons a ps =>
      simp only [List.getElem?_cons_succ] at hk
      have hne : ps ≠ [] := by intro h0; subst h0; simp at hk
      have hwt : WFChain hashfn ps := by
        cases ps with
        | nil => exact absurd rfl hne
        | cons p rest => exact hw.tail
      obtain ⟨h1, h2⟩ := ih ps h hwt hk hall
      simp only [List.take_succ_cons]
      exact ⟨wf_congr_tail hw h2 (fun _ => h1), equiv_cons h2⟩

theorem same_of_equiv {hashfn : Nat → Nat → Nat} {t : Table} {hs' : List Head} (hwf : TWF hashfn t)
    (hw' : WFChain hashfn hs') (he : Equiv hs' t.heads)
    (hnf : ∀ h ps, hs' = h :: ps → ∀ i, (h.bucket i).state ≠ .frozen) :
    Same hashfn { t with heads := hs', bug := t.bug || false } t :=
  ⟨⟨hw', hnf, by simp [hwf.bug]⟩, fun x => memC_equiv he x, rfl, rfl⟩

/-- The goroutine `initBuckets` (one bucket, or its final store) changes nothing that is visible. -/
theorem bg_ok {hashfn : Nat → Nat → Nat} {t : Table} (hwf : TWF hashfn t) :
    (∀ k i, Same hashfn (step hashfn t (.bgInit k i)).1 t) ∧ (∀ k, Same hashfn (step hashfn t (.bgDone k)).1 t) := by
  have hsame : Same hashfn t t := ⟨hwf, fun _ => Iff.rfl, rfl, rfl⟩
  constructor
  · intro k i
    simp only [step]
    cases hd : t.heads.drop k with
    | nil => exact hsame
    | cons h ps =>
      simp only []
      by_cases hi : i < h.buckets.length
      · rw [if_pos hi]
        have hwd : WFChain hashfn (h :: ps) := by
          rw [← hd]; exact wf_drop k _ hwf.chain (by rw [hd]; simp)
        obtain ⟨ps', h1, hw1, he1, hs1, hn1, hl1⟩ := initBucket_ok hwd hi
        rw [h1]
        have hsplit : t.heads = t.heads.take k ++ (h :: ps) := by rw [← hd, List.take_append_drop]
        have hw0 : WFChain hashfn (t.heads.take k ++ (h :: ps)) := by rw [← hsplit]; exact hwf.chain
        obtain ⟨hw2, he2⟩ := splice_ok (t.heads.take k) (h :: ps) _ hw0 (by simp) hw1 he1
        rw [← hsplit] at he2
        apply same_of_equiv hwf hw2 he2
        intro h3 ps3 heq j
        cases k with
        | zero =>
          simp only [List.take_zero, List.nil_append, List.cons.injEq] at heq
          simp only [List.drop_zero] at hd
          rw [← heq.1, initHead_bucket hi]
          split
          · simp
          · exact hwf.nf h ps hd j
        | succ k =>
          obtain ⟨a, rest, hh⟩ := twf_heads hwf
          rw [hh] at heq
          simp only [List.take_succ_cons, List.cons_append, List.cons.injEq] at heq
          rw [← heq.1]; exact hwf.nf a rest hh j
      · rw [if_neg hi]; exact hsame
  · intro k
    simp only [step]
    cases hk : t.heads[k]? with
    | none => exact hsame
    | some h =>
      simp only []
      by_cases hall : (h.buckets.all fun b => b.state != .uninit) = true
      · rw [if_pos hall]
        have hall' : ∀ b ∈ h.buckets, b.state ≠ .uninit := by
          intro b hb
          have := List.all_eq_true.mp hall b hb
          simpa using this
        obtain ⟨hw2, he2⟩ := truncate_ok k t.heads h hwf.chain hk hall'
        have := same_of_equiv hwf hw2 he2 (by
          intro h3 ps3 heq j
          obtain ⟨a, rest, hh⟩ := twf_heads hwf
          rw [hh] at heq
          simp only [List.take_succ_cons, List.cons.injEq] at heq
          rw [← heq.1]; exact hwf.nf a rest hh j)
        obtain ⟨s1, s2, s3, s4⟩ := this
        exact ⟨⟨s1.chain, s1.nf, hwf.bug⟩, s2, s3, s4⟩
      · rw [if_neg hall]; exact hsame

theorem bg_res (hashfn : Nat → Nat → Nat) (t : Table) :
    (∀ k i, (step hashfn t (.bgInit k i)).2 = .unit) ∧ (∀ k, (step hashfn t (.bgDone k)).2 = .unit) := by
  constructor
  · intro k i
    simp only [step]
    split
    · rfl
    · split <;> rfl
  · intro k
    simp only [step]
    split
    · rfl
    · split <;> rfl

/-- **One step of the table refines one step of the finite map**: same answer, and the table again holds
exactly the nodes of the map. -/
theorem step_refines {hashfn : Nat → Nat → Nat} {t : Table} {s : Spec} (hr : Refines hashfn t s) (op : TOp) :
    (step hashfn t op).2 = (specStep hashfn s op).2 ∧
    Refines hashfn (step hashfn t op).1 (specStep hashfn s op).1 := by
  cases op with
  | bgInit k i => exact ⟨(bg_res hashfn t).1 k i, refines_same hr ((bg_ok hr.wf).1 k i)⟩
  | bgDone k => exact ⟨(bg_res hashfn t).2 k, refines_same hr ((bg_ok hr.wf).2 k)⟩
  | get ns key getOnly =>
    have hg := getLoop_ok hr.wf ns key getOnly
    simp only [step, specStep]
    cases hf : s.m.find? (keyEq ns key) with
    | some n =>
      have hn := List.mem_of_find?_eq_some hf
      have hk := List.find?_some hf
      obtain ⟨r1, r2⟩ := hg.1 n ((hr.mem n).mp hn) hk
      simp only [r1]
      exact ⟨trivial, refines_same hr r2⟩
    | none =>
      have hnone : ∀ n, Mem t n → keyEq ns key n = false := by
        intro n hn
        have := List.find?_eq_none.mp hf n ((hr.mem n).mpr hn)
        simpa using this
      cases getOnly with
      | true =>
        obtain ⟨r1, r2⟩ := (hg.2 hnone).1 rfl
        simp only [r1, if_true]
        exact ⟨trivial, refines_same hr r2⟩
      | false =>
        obtain ⟨r1, r2, r3, r4, r5⟩ := (hg.2 hnone).2 rfl
        simp only [r1, Bool.false_eq_true, if_false, hr.nid]
        refine ⟨trivial, r2, fun x => ?_, ?_, ?_, ?_⟩
        · rw [r3 x, ← hr.nid, List.mem_cons, hr.mem x]
        · refine List.nodup_cons.mpr ⟨fun hm => ?_, hr.nodup⟩
          have := hnone _ ((hr.mem _).mp hm)
          simp [keyEq] at this
        · rw [r4, hr.nodes]; simp
        · rw [r5, hr.nid]
  | delete ns key refZero =>
    have hd := deleteLoop_ok hr.wf ns key
    simp only [step, specStep]
    cases hf : s.m.find? (keyEq ns key) with
    | some n =>
      have hn := List.mem_of_find?_eq_some hf
      have hk := List.find?_some hf
      obtain ⟨⟨r0, r0'⟩, r1, r2, r3, r4, r5⟩ := hd.1 n ((hr.mem n).mp hn) hk
      cases refZero with
      | false =>
        simp only [r0, Bool.false_eq_true, if_false]
        exact ⟨trivial, refines_same hr r0'⟩
      | true =>
        simp only [r1, if_true]
        refine ⟨trivial, r2, fun x => ?_, hr.nodup.erase n, ?_, by rw [r5, hr.nid]⟩
        · rw [r3 x, List.Nodup.mem_erase_iff hr.nodup, hr.mem x]
          exact ⟨fun h => ⟨h.2, h.1⟩, fun h => ⟨h.2, h.1⟩⟩
        · simp only []
          rw [r4, hr.nodes, List.length_erase_of_mem hn]
          have : 0 < s.m.length := List.length_pos_of_mem hn
          omega
    | none =>
      have hnone : ∀ n, Mem t n → keyEq ns key n = false := by
        intro n hn
        have := List.find?_eq_none.mp hf n ((hr.mem n).mpr hn)
        simpa using this
      obtain ⟨r1, r2⟩ := hd.2 hnone refZero
      simp only [r1]
      exact ⟨trivial, refines_same hr r2⟩

theorem run_refines {hashfn : Nat → Nat → Nat} : ∀ (ops : List TOp) {t : Table} {s : Spec}, Refines hashfn t s →
    (run hashfn t ops).2 = (specRun hashfn s ops).2 ∧
    Refines hashfn (run hashfn t ops).1 (specRun hashfn s ops).1 := by
  intro ops
  induction ops with
  | nil => intro t s hr; exact ⟨rfl, hr⟩
  | cons op ops ih =>
    intro t s hr
    obtain ⟨h1, h2⟩ := step_refines hr op
    obtain ⟨h3, h4⟩ := ih h2
    simp only [run, specRun]
    exact ⟨by rw [h1, h3], h4⟩

/-- `mInitialSize` is a power of two. -/
theorem mInitialSize_pow : Gen.mInitialSize = 2 ^ 4 := by decide

/-- `NewCache`: the empty table refines the empty map. -/
theorem refines_new (hashfn : Nat → Nat → Nat) : Refines hashfn Table.new Spec.new := by
  have hb : ∀ i, i < Gen.mInitialSize →
      ({ buckets := List.replicate Gen.mInitialSize { nodes := [], state := BState.init },
         mask := Gen.mInitialSize - 1, resizeInProgress := false, overflow := 0,
         growThreshold := (Gen.mInitialSize : Int) * Gen.mOverflowThreshold, shrinkThreshold := 0 } : Head).bucket i =
        { nodes := [], state := .init } := by
    intro i hi
    simp only [Head.bucket, List.getD_eq_getElem?_getD, List.getElem?_replicate]
    rw [if_pos hi]; rfl
  have hmem : ∀ x, ¬ Mem Table.new x := by
    intro x hx
    unfold Mem Table.new at hx
    simp only [] at hx
    obtain ⟨i, hi, hxi⟩ := memC_cons.mp hx
    simp only [List.length_replicate] at hi
    unfold vnodes at hxi
    simp only [List.length_replicate] at hxi
    rw [if_neg (by omega), hb i hi] at hxi
    simp at hxi
  refine ⟨⟨?_, ?_, rfl⟩, fun x => ⟨fun h => by simp [Spec.new] at h, fun h => absurd h (hmem x)⟩,
    by simp [Spec.new], by simp [Table.new, Spec.new], rfl⟩
  · unfold Table.new
    simp only []
    refine ⟨⟨4, by simp [mInitialSize_pow], by simp [mInitialSize_pow]⟩, fun i hi _ => ?_, fun i hi => ?_⟩
    · simp only [List.length_replicate] at hi
      rw [hb i hi]
      exact ⟨List.Pairwise.nil, fun x hx => by cases hx⟩
    · simp only [List.length_replicate] at hi
      rw [hb i hi]; simp
  · intro h ps heq i
    unfold Table.new at heq
    simp only [List.cons.injEq] at heq
    rw [← heq.1]
    simp only [Head.bucket, List.getD_eq_getElem?_getD, List.getElem?_replicate]
    split <;> simp

end GoLevel.CacheT
