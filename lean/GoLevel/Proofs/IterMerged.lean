import GoLevel.Proofs.IterMergedAux
/-!
# The merged iterator simulates the cursor over the sorted union of its children (C02)

`MergedIter.sim`: if child `i` simulates the cursor over `Ls[i]` (relation `Rs i`), the children are strictly
sorted with pairwise distinct keys and `U` is their sorted union (`MergeOK`), then `MergedIter.ops o c`
simulates the cursor over `U` under `MergedIter.Rel`.

Invariant (`Rel`): positions `ps x` of the children (`Base`: child `x` is `Rs x`-related to `ps x`, and
`keys[x]` is the key under it), and by the position of the merged cursor
* `soi`/`eoi`: `dir` says so,
* `at i` with `U[i] = e`: child `index` stands on `e`, the heap holds exactly the other valid children, and
  either (forward) every child stands on its first entry `≥ e`, or (backward) on its last entry `≤ e`.
Core Lean only.
-/
namespace GoLevel

/-- `U` is the sorted union of the children's lists `Ls`; the children are sorted and hold pairwise
distinct keys -/
structure MergeOK (c : UCmp) (Ls : List (List Entry)) (U : List Entry) : Prop where
  sortedU  : SortedEntries c U
  mem      : ∀ e, e ∈ U ↔ ∃ L ∈ Ls, e ∈ L
  sortedL  : ∀ L ∈ Ls, SortedEntries c L
  distinct : ∀ (i j : Nat) (Li Lj : List Entry) (a b : Entry), i ≠ j → Ls[i]? = some Li → Ls[j]? = some Lj → a ∈ Li → b ∈ Lj → a.key ≠ b.key

theorem Cursor.get_mem {α : Type} {xs : List α} {p : Pos} {e : α} (h : Cursor.get xs p = some e) : e ∈ xs := by
  cases p with
  | «at» i => exact List.mem_of_getElem? h
  | soi => cases h
  | eoi => cases h

namespace MergedIter
variable {σ : Type}

/-- the children stand at `ps`, `keys` mirrors their current keys -/
structure Base (Rs : Nat → σ → Pos → Prop) (Ls : List (List Entry)) (m : MergedIter σ) (ps : Nat → Pos) :
    Prop where
  ilen : m.iters.length = Ls.length
  klen : m.keys.length = Ls.length
  rel  : ∀ x s, m.iters[x]? = some s → Rs x s (ps x)
  key  : ∀ x L, Ls[x]? = some L → keyAt m.keys x = (Cursor.get L (ps x)).map (·.key)

/-- the heap holds exactly the valid children -/
def HeapAll (n : Nat) (m : MergedIter σ) : Prop :=
  m.heap.Nodup ∧ ∀ x, x ∈ m.heap ↔ x < n ∧ (keyAt m.keys x).isSome

/-- the heap holds exactly the valid children other than `x0` -/
def HeapBut (n x0 : Nat) (m : MergedIter σ) : Prop :=
  m.heap.Nodup ∧ ∀ x, x ∈ m.heap ↔ x < n ∧ x ≠ x0 ∧ (keyAt m.keys x).isSome

/-- the part of the invariant that depends on the cursor position -/
def PosInv (c : UCmp) (Ls : List (List Entry)) (U : List Entry) (m : MergedIter σ) (ps : Nat → Pos) :
    Pos → Prop
  | .soi => m.dir = .soi
  | .eoi => m.dir = .eoi
  | .at i => ∃ e L, U[i]? = some e ∧ Ls[m.index]? = some L ∧ Cursor.get L (ps m.index) = some e ∧
      HeapBut Ls.length m.index m ∧
      ((m.dir = .forward ∧ m.reverse = false ∧
          ∀ x L', Ls[x]? = some L' → ps x = Cursor.seek L' (geKey c e.key)) ∨
       (m.dir = .backward ∧ m.reverse = true ∧
          ∀ x L', Ls[x]? = some L' → ps x = Cursor.bseek L' (gtKey c e.key)))

/-- simulation relation between a `MergedIter σ` state and a cursor position over `U` -/
def Rel (_o : IterOps σ) (c : UCmp) (Rs : Nat → σ → Pos → Prop)
    (Ls : List (List Entry)) (U : List Entry) (m : MergedIter σ) (p : Pos) : Prop :=
  ∃ ps, Base Rs Ls m ps ∧ PosInv c Ls U m ps p

theorem rel_new (o : IterOps σ) (c : UCmp) (Rs : Nat → σ → Pos → Prop)
    (Ls : List (List Entry)) (U : List Entry) (ss : List σ) (hlen : ss.length = Ls.length)
    (h0 : ∀ i s, ss[i]? = some s → Rs i s .soi) :
    Rel o c Rs Ls U (MergedIter.new ss) .soi := by
  refine ⟨fun _ => .soi, ⟨hlen, by simp [new, hlen], h0, ?_⟩, rfl⟩
  intro x L _
  simp only [new, keyAt, Cursor.get, Option.map_none, List.getElem?_map]
  cases ss[x]? <;> rfl

/-! ## small facts about `keyAt`, `less` -/

theorem keyAt_set {keys : List (Option IKey)} {i : Nat} (h : i < keys.length) (v : Option IKey) (x : Nat) :
    keyAt (keys.set i v) x = if x = i then v else keyAt keys x := by
  unfold keyAt
  rw [List.getElem?_set]
  by_cases hx : x = i
  · subst hx; simp [h]
  · have : ¬ i = x := fun h => hx h.symm
    simp [hx, this]

theorem less_eq {c : UCmp} {rev : Bool} {keys : List (Option IKey)} {i j : Nat} {a b : IKey}
    (hi : keyAt keys i = some a) (hj : keyAt keys j = some b) :
    less c rev keys i j = if rev then icmp c a b == .gt else icmp c a b == .lt := by
  simp [less, hi, hj]

theorem less_trans {c : UCmp} (hl : LawfulUCmp c) (rev : Bool) (keys : List (Option IKey)) (i j k : Nat)
    (h1 : less c rev keys i j = true) (h2 : less c rev keys j k = true) : less c rev keys i k = true := by
  unfold less at *
  cases hi : keyAt keys i with
  | none => simp [hi] at h1
  | some a =>
    cases hj : keyAt keys j with
    | none => simp [hi, hj] at h1
    | some b =>
      cases hk : keyAt keys k with
      | none => simp [hj, hk] at h2
      | some d =>
        simp only [hi, hj, hk] at h1 h2 ⊢
        cases rev with
        | false =>
          simp only [Bool.false_eq_true, if_false, beq_iff_eq] at h1 h2 ⊢
          exact icmp_trans hl _ _ _ h1 h2
        | true =>
          simp only [if_true, beq_iff_eq] at h1 h2 ⊢
          rw [icmp_gt_iff hl] at h1 h2 ⊢
          exact icmp_trans hl _ _ _ h2 h1

section main
variable {c : UCmp} (hl : LawfulUCmp c) {Rs : Nat → σ → Pos → Prop}
  {Ls : List (List Entry)} {U : List Entry} (hok : MergeOK c Ls U)

omit hl in
theorem MergeOK_memU {x : Nat} {L : List Entry} {e : Entry} (hok : MergeOK c Ls U) (hL : Ls[x]? = some L)
    (he : e ∈ L) : e ∈ U :=
  (hok.mem e).2 ⟨L, List.mem_of_getElem? hL, he⟩

theorem Base.cur_of_key {m : MergedIter σ} {ps : Nat → Pos} (hb : Base Rs Ls m ps) {x : Nat} {L : List Entry}
    (hL : Ls[x]? = some L) {k : IKey} (hk : keyAt m.keys x = some k) :
    ∃ e, Cursor.get L (ps x) = some e ∧ e.key = k := by
  rw [hb.key x L hL] at hk
  cases h : Cursor.get L (ps x) with
  | none => simp [h] at hk
  | some e => exact ⟨e, rfl, by simpa [h] using hk⟩

theorem Base.key_of_cur {m : MergedIter σ} {ps : Nat → Pos} (hb : Base Rs Ls m ps) {x : Nat} {L : List Entry}
    (hL : Ls[x]? = some L) {e : Entry} (he : Cursor.get L (ps x) = some e) :
    keyAt m.keys x = some e.key := by
  rw [hb.key x L hL, he]; rfl

include hl hok in
/-- `heap.Pop` on a heap holding all valid children: none is valid, or it returns the child with the least
(greatest when `reverse`) current key -/
theorem pop_cases {m : MergedIter σ} {ps : Nat → Pos} (hb : Base Rs Ls m ps) (hh : HeapAll Ls.length m) :
    (pop c m = none ∧ ∀ x L, Ls[x]? = some L → Cursor.get L (ps x) = none) ∨
    ∃ b Lb e', pop c m = some (b, m.heap.erase b) ∧ b ∈ m.heap ∧ Ls[b]? = some Lb ∧
      Cursor.get Lb (ps b) = some e' ∧
      ∀ x L cx, x ≠ b → Ls[x]? = some L → Cursor.get L (ps x) = some cx →
        icmp c e'.key cx.key = (if m.reverse then .gt else .lt) := by
  obtain ⟨hnd, hmem⟩ := hh
  have hcases : m.heap = [] ∨ ∃ x0 xs, m.heap = x0 :: xs := by
    cases m.heap with
    | nil => exact .inl rfl
    | cons x0 xs => exact .inr ⟨x0, xs, rfl⟩
  rcases hcases with hheap | ⟨x0, xs, hheap⟩
  · left
    refine ⟨by unfold pop; rw [hheap], ?_⟩
    intro x L hL
    have hx : x < Ls.length := (List.getElem?_eq_some_iff.1 hL).1
    have : ¬ x ∈ m.heap := by rw [hheap]; simp
    rw [hmem] at this
    cases h : Cursor.get L (ps x) with
    | none => rfl
    | some e =>
      exfalso; apply this
      exact ⟨hx, by rw [hb.key_of_cur hL h]; rfl⟩
  · right
    have hpop : pop c m = some (argBest (less c m.reverse m.keys) x0 xs,
        m.heap.erase (argBest (less c m.reverse m.keys) x0 xs)) := by
      unfold pop; rw [hheap]
    have hS : ∀ z ∈ x0 :: xs, z < Ls.length ∧ (keyAt m.keys z).isSome := by
      intro z hz; rw [← hheap] at hz; exact (hmem z).1 hz
    have hspec := argBest_spec (less c m.reverse m.keys) (fun a => a < Ls.length ∧ (keyAt m.keys a).isSome)
      (less_trans hl m.reverse m.keys) (by
        intro a b ⟨ha, hka⟩ ⟨hb', hkb⟩ hab
        obtain ⟨ka, hka⟩ := Option.isSome_iff_exists.1 hka
        obtain ⟨kb, hkb⟩ := Option.isSome_iff_exists.1 hkb
        have hLa := List.getElem?_eq_getElem ha
        have hLb := List.getElem?_eq_getElem hb'
        obtain ⟨ea, hea, hka'⟩ := hb.cur_of_key hLa hka
        obtain ⟨eb, heb, hkb'⟩ := hb.cur_of_key hLb hkb
        have hne : ka ≠ kb := by
          rw [← hka', ← hkb']
          exact hok.distinct a b _ _ ea eb hab hLa hLb (Cursor.get_mem hea) (Cursor.get_mem heb)
        rw [less_eq hka hkb, less_eq hkb hka]
        rcases icmp_total hl ka kb with h | h | h
        · cases m.reverse
          · left; simp [h]
          · right; simp [(icmp_gt_iff hl kb ka).2 h]
        · exact absurd h hne
        · cases m.reverse
          · right; simp [h]
          · left; simp [(icmp_gt_iff hl ka kb).2 h]) xs x0 hS
    obtain ⟨hbm, hbest⟩ := hspec
    generalize argBest (less c m.reverse m.keys) x0 xs = b at hbm hbest hpop
    have hbS := hS b hbm
    obtain ⟨kb, hkb⟩ := Option.isSome_iff_exists.1 hbS.2
    have hLb := List.getElem?_eq_getElem hbS.1
    obtain ⟨e', he', hke'⟩ := hb.cur_of_key hLb hkb
    refine ⟨b, _, e', hpop, by rw [hheap]; exact hbm, hLb, he', ?_⟩
    intro x L cx hxb hL hcx
    have hkx := hb.key_of_cur hL hcx
    have hx : x ∈ x0 :: xs := by
      rw [← hheap, hmem]
      exact ⟨(List.getElem?_eq_some_iff.1 hL).1, by rw [hkx]; rfl⟩
    have := hbest x hx hxb
    rw [less_eq hkb hkx, hke'.symm] at this
    cases hr : m.reverse <;> simp_all

omit hok in
include hl in
theorem SortedEntries.eq_of_key_eq {S : List Entry} (hs : SortedEntries c S) {a b : Entry} (ha : a ∈ S) (hb : b ∈ S)
    (h : a.key = b.key) : a = b := by
  obtain ⟨i, hi⟩ := List.mem_iff_getElem?.1 ha
  obtain ⟨j, hj⟩ := List.mem_iff_getElem?.1 hb
  have heq : icmp c a.key b.key = .eq := (icmp_eq_iff hl _ _).2 h
  have heq' : icmp c b.key a.key = .eq := (icmp_eq_iff hl _ _).2 h.symm
  by_cases h1 : i < j
  · have := hs.lt_of_lt hi hj h1; rw [heq] at this; cases this
  · by_cases h2 : j < i
    · have := hs.lt_of_lt hj hi h2; rw [heq'] at this; cases this
    · have : i = j := by omega
      subst this; rw [hi] at hj; cases hj; rfl

omit hl hok in
theorem Mono.sub {S T : List Entry} {t : Entry → Bool} (hm : Mono c S t) (h : ∀ y ∈ T, y ∈ S) : Mono c T t :=
  fun a b ha hb => hm a b (h a ha) (h b hb)

include hl hok in
/-- `next()` when every child stands on its first entry satisfying a monotone test `ge` and the heap holds
all valid children: the merged iterator lands on the first entry of `U` satisfying `ge` -/
theorem rel_popNext (o : IterOps σ) {m : MergedIter σ} {ps : Nat → Pos} (hb : Base Rs Ls m ps)
    (hh : HeapAll Ls.length m) (hrev : m.reverse = false) (ge : Entry → Bool) (hmono : Mono c U ge)
    (hps : ∀ x L, Ls[x]? = some L → ps x = Cursor.seek L ge) :
    Rel o c Rs Ls U (popNext c m) (Cursor.seek U ge) ∧ (popNext c m).dir ≠ .backward := by
  rcases pop_cases hl hok hb hh with ⟨hpop, hnone⟩ | ⟨b, Lb, e', hpop, hbm, hLb, he', hbest⟩
  · have hU : ∀ y ∈ U, ge y = false := by
      intro y hy
      obtain ⟨L, hLm, hyL⟩ := (hok.mem y).1 hy
      obtain ⟨x, hL⟩ := List.mem_iff_getElem?.1 hLm
      have := hnone x L hL
      rw [hps x L hL] at this
      exact Cursor.seek_get_none this y hyL
    rw [Cursor.seek_eq_eoi hU]
    unfold popNext; rw [hpop]
    exact ⟨⟨ps, ⟨hb.ilen, hb.klen, hb.rel, hb.key⟩, rfl⟩, by simp⟩
  · have hsL := hok.sortedL Lb (List.mem_of_getElem? hLb)
    have he'' := he'
    rw [hps b Lb hLb] at he''
    obtain ⟨hmemb, hge', hminb⟩ := seek_get_some hl hsL he''
    have heU : e' ∈ U := MergeOK_memU hok hLb hmemb
    obtain ⟨i, hi⟩ := List.mem_iff_getElem?.1 heU
    have hmin : ∀ y ∈ U, ge y = true → geKey c e'.key y = true := by
      intro y hy hgy
      obtain ⟨L, hLm, hyL⟩ := (hok.mem y).1 hy
      obtain ⟨x, hL⟩ := List.mem_iff_getElem?.1 hLm
      by_cases hxb : x = b
      · subst hxb; rw [hLb] at hL; cases hL; exact hminb y hyL hgy
      · cases hcx : Cursor.get L (ps x) with
        | none =>
          rw [hps x L hL] at hcx
          have := Cursor.seek_get_none hcx y hyL
          rw [this] at hgy; cases hgy
        | some cx =>
          have h1 := hbest x L cx hxb hL hcx
          rw [hrev] at h1
          simp only [Bool.false_eq_true, if_false] at h1
          rw [hps x L hL] at hcx
          obtain ⟨_, _, hminx⟩ := seek_get_some hl (hok.sortedL L hLm) hcx
          have h2 := hminx y hyL hgy
          simp only [geKey, bne_iff_ne, ne_eq] at h2 ⊢
          intro h3
          exact h2 (icmp_trans hl _ _ _ h3 h1)
    have hcongr : ∀ y ∈ U, ge y = geKey c e'.key y := by
      intro y hy
      cases hgy : ge y with
      | true => exact (hmin y hy hgy).symm
      | false =>
        cases hk : geKey c e'.key y with
        | false => rfl
        | true =>
          exfalso
          rcases icmp_total hl e'.key y.key with h | h | h
          · have := hmono e' y heU hy hge' h; rw [this] at hgy; cases hgy
          · have := SortedEntries.eq_of_key_eq hl hok.sortedU heU hy h
            subst this; rw [hge'] at hgy; cases hgy
          · rw [geKey_false_of_lt h] at hk; cases hk
    rw [seek_eq_at hok.sortedU hi hge' hmin]
    unfold popNext; rw [hpop]
    refine ⟨⟨ps, ⟨hb.ilen, hb.klen, hb.rel, hb.key⟩, e', Lb, hi, hLb, he', ⟨hh.1.erase b, ?_⟩,
      .inl ⟨rfl, hrev, ?_⟩⟩, by simp⟩
    · intro x
      show x ∈ m.heap.erase b ↔ _
      rw [hh.1.mem_erase_iff, hh.2]
      constructor
      · rintro ⟨h1, h2, h3⟩; exact ⟨h2, h1, h3⟩
      · rintro ⟨h1, h2, h3⟩; exact ⟨h2, h1, h3⟩
    · intro x L hL
      rw [hps x L hL]
      exact Cursor.seek_congr (fun y hy => hcongr y (MergeOK_memU hok hL hy))

include hl hok in
/-- `prev()` when every child stands just before its first entry satisfying a monotone test `gt` and the
heap holds all valid children: the merged iterator lands just before the first entry of `U` satisfying `gt` -/
theorem rel_popPrev (o : IterOps σ) {m : MergedIter σ} {ps : Nat → Pos} (hb : Base Rs Ls m ps)
    (hh : HeapAll Ls.length m) (hrev : m.reverse = true) (gt : Entry → Bool) (hmono : Mono c U gt)
    (hps : ∀ x L, Ls[x]? = some L → ps x = Cursor.bseek L gt) :
    Rel o c Rs Ls U (popPrev c m) (Cursor.bseek U gt) := by
  have hmonoL : ∀ x L, Ls[x]? = some L → Mono c L gt := fun x L hL =>
    Mono.sub hmono (fun y hy => MergeOK_memU hok hL hy)
  rcases pop_cases hl hok hb hh with ⟨hpop, hnone⟩ | ⟨b, Lb, e', hpop, hbm, hLb, he', hbest⟩
  · have hU : ∀ y ∈ U, gt y = true := by
      intro y hy
      obtain ⟨L, hLm, hyL⟩ := (hok.mem y).1 hy
      obtain ⟨x, hL⟩ := List.mem_iff_getElem?.1 hLm
      have := hnone x L hL
      rw [hps x L hL] at this
      exact bseek_get_none (hok.sortedL L hLm) (hmonoL x L hL) this y hyL
    rw [Cursor.bseek_eq_soi hU]
    unfold popPrev; rw [hpop]
    exact ⟨ps, ⟨hb.ilen, hb.klen, hb.rel, hb.key⟩, rfl⟩
  · have hsL := hok.sortedL Lb (List.mem_of_getElem? hLb)
    have he'' := he'
    rw [hps b Lb hLb] at he''
    obtain ⟨hmemb, hgt', hmaxb⟩ := bseek_get_some hl hsL (hmonoL b Lb hLb) he''
    have heU : e' ∈ U := MergeOK_memU hok hLb hmemb
    obtain ⟨i, hi⟩ := List.mem_iff_getElem?.1 heU
    have hmax : ∀ y ∈ U, gt y = false → gtKey c e'.key y = false := by
      intro y hy hgy
      obtain ⟨L, hLm, hyL⟩ := (hok.mem y).1 hy
      obtain ⟨x, hL⟩ := List.mem_iff_getElem?.1 hLm
      by_cases hxb : x = b
      · subst hxb; rw [hLb] at hL; cases hL; exact hmaxb y hyL hgy
      · cases hcx : Cursor.get L (ps x) with
        | none =>
          rw [hps x L hL] at hcx
          have := bseek_get_none (hok.sortedL L hLm) (hmonoL x L hL) hcx y hyL
          rw [this] at hgy; cases hgy
        | some cx =>
          have h1 := hbest x L cx hxb hL hcx
          rw [hrev] at h1
          simp only [if_true] at h1
          rw [hps x L hL] at hcx
          obtain ⟨_, _, hmaxx⟩ := bseek_get_some hl (hok.sortedL L hLm) (hmonoL x L hL) hcx
          have h2 := hmaxx y hyL hgy
          cases h3 : gtKey c e'.key y with
          | false => rfl
          | true =>
            exfalso
            simp only [gtKey, beq_iff_eq] at h3
            rw [icmp_gt_iff hl] at h1 h3
            rw [gtKey_of_lt hl (icmp_trans hl _ _ _ h1 h3)] at h2
            cases h2
    have hcongr : ∀ y ∈ U, gt y = gtKey c e'.key y := by
      intro y hy
      cases hgy : gt y with
      | false => exact (hmax y hy hgy).symm
      | true =>
        cases hk : gtKey c e'.key y with
        | true => rfl
        | false =>
          exfalso
          rcases icmp_total hl e'.key y.key with h | h | h
          · rw [gtKey_of_lt hl h] at hk; cases hk
          · have := SortedEntries.eq_of_key_eq hl hok.sortedU heU hy h
            subst this; rw [hgt'] at hgy; cases hgy
          · have := hmono y e' hy heU hgy h; rw [this] at hgt'; cases hgt'
    rw [bseek_eq_at hl hok.sortedU hmono hi hgt' hmax]
    unfold popPrev; rw [hpop]
    refine ⟨ps, ⟨hb.ilen, hb.klen, hb.rel, hb.key⟩, e', Lb, hi, hLb, he', ⟨hh.1.erase b, ?_⟩,
      .inr ⟨rfl, hrev, ?_⟩⟩
    · intro x
      show x ∈ m.heap.erase b ↔ _
      rw [hh.1.mem_erase_iff, hh.2]
      constructor
      · rintro ⟨h1, h2, h3⟩; exact ⟨h2, h1, h3⟩
      · rintro ⟨h1, h2, h3⟩; exact ⟨h2, h1, h3⟩
    · intro x L hL
      rw [hps x L hL]
      exact Cursor.bseek_congr (fun y hy => hcongr y (MergeOK_memU hok hL hy))

end main
/-! ## the moves of the children -/

section ops
variable {c : UCmp} {o : IterOps σ} {Rs : Nat → σ → Pos → Prop}
  {Ls : List (List Entry)} (hch : ∀ i L, Ls[i]? = some L → Sim o c L (Rs i))

include hch in
/-- `First`/`Last`/`Seek`: every child moves with `f` -/
theorem resetAll_base {m : MergedIter σ} {ps : Nat → Pos} (hb : Base Rs Ls m ps) (rev : Bool) (f : σ → σ)
    (q : Nat → Pos) (hf : ∀ x L s, Ls[x]? = some L → Rs x s (ps x) → Rs x (f s) (q x)) :
    Base Rs Ls (resetAll o rev f m) q ∧ HeapAll Ls.length (resetAll o rev f m) := by
  have hilen : (m.iters.map f).length = Ls.length := by rw [List.length_map]; exact hb.ilen
  have hkey : ∀ x L, Ls[x]? = some L →
      keyAt ((m.iters.map f).map (keyOf o)) x = (Cursor.get L (q x)).map (·.key) := by
    intro x L hL
    have hx : x < m.iters.length := by rw [hb.ilen]; exact (List.getElem?_eq_some_iff.1 hL).1
    have hs := List.getElem?_eq_getElem hx
    simp only [keyAt, List.getElem?_map, hs, Option.map_some, Option.join_some]
    unfold keyOf
    rw [(hch x L hL).cur _ _ (hf x L _ hL (hb.rel x _ hs))]
  refine ⟨⟨hilen, by simp [resetAll, hb.ilen], ?_, hkey⟩, ?_, ?_⟩
  · intro x s hs
    simp only [resetAll, List.getElem?_map] at hs
    cases h : m.iters[x]? with
    | none => simp [h] at hs
    | some s0 =>
      simp only [h, Option.map_some, Option.some.injEq] at hs
      subst hs
      have hx : x < Ls.length := by rw [← hb.ilen]; exact (List.getElem?_eq_some_iff.1 h).1
      exact hf x _ s0 (List.getElem?_eq_getElem hx) (hb.rel x s0 h)
  · exact List.Nodup.sublist List.filter_sublist List.nodup_range
  · intro x
    simp only [resetAll, List.mem_filter, List.mem_range, hilen]

theorem stepIndex_eq {m : MergedIter σ} {s : σ} (f : σ → σ) (h : m.iters[m.index]? = some s) :
    stepIndex o f m = { m with iters := m.iters.set m.index (f s),
                               keys := m.keys.set m.index (keyOf o (f s)),
                               heap := if (o.cur (f s)).isSome then m.heap ++ [m.index] else m.heap } := by
  simp only [stepIndex, h, keyOf]
  cases o.cur (f s) <;> simp

include hch in
/-- the tail of `Next`/`Prev`: child `index` moves with `f` and is pushed if valid -/
theorem stepIndex_base {m : MergedIter σ} {ps : Nat → Pos} (hb : Base Rs Ls m ps) {L : List Entry}
    (hL : Ls[m.index]? = some L) (hbut : HeapBut Ls.length m.index m) (f : σ → σ) (q : Pos)
    (hf : ∀ s, Rs m.index s (ps m.index) → Rs m.index (f s) q) :
    Base Rs Ls (stepIndex o f m) (fun x => if x = m.index then q else ps x) ∧
    HeapAll Ls.length (stepIndex o f m) ∧ (stepIndex o f m).reverse = m.reverse ∧
    (stepIndex o f m).index = m.index := by
  have hx : m.index < Ls.length := (List.getElem?_eq_some_iff.1 hL).1
  have hxi : m.index < m.iters.length := by rw [hb.ilen]; exact hx
  have hxk : m.index < m.keys.length := by rw [hb.klen]; exact hx
  have hs := List.getElem?_eq_getElem hxi
  have hR := hf _ (hb.rel _ _ hs)
  have hcur := (hch _ L hL).cur _ _ hR
  rw [stepIndex_eq f hs]
  refine ⟨⟨by simp [hb.ilen], by simp [hb.klen], ?_, ?_⟩, ⟨?_, ?_⟩, rfl, rfl⟩
  · intro x s' hs'
    simp only [List.getElem?_set] at hs'
    by_cases hxe : m.index = x
    · subst hxe
      simp only [hxi, if_true, Option.some.injEq] at hs' ⊢
      rw [← hs']; exact hR
    · have : ¬ x = m.index := fun h => hxe h.symm
      simp only [hxe, if_false] at hs'
      simp only [this, if_false]
      exact hb.rel x s' hs'
  · intro x L' hL'
    show keyAt (m.keys.set m.index (keyOf o (m.iters[m.index] |> f))) x = _
    rw [keyAt_set hxk]
    by_cases hxe : x = m.index
    · subst hxe
      rw [hL] at hL'; cases hL'
      simp only [if_true]
      unfold keyOf; rw [hcur]
    · simp only [hxe, if_false]
      exact hb.key x L' hL'
  · show (if (o.cur (f m.iters[m.index])).isSome then m.heap ++ [m.index] else m.heap).Nodup
    split
    · rw [List.nodup_append]
      refine ⟨hbut.1, by simp, ?_⟩
      intro a ha b hb'
      have := ((hbut.2 a).1 ha).2.1
      simp only [List.mem_singleton] at hb'
      rw [hb']; exact this
    · exact hbut.1
  · intro x
    show x ∈ (if (o.cur (f m.iters[m.index])).isSome then m.heap ++ [m.index] else m.heap) ↔
      x < Ls.length ∧ (keyAt (m.keys.set m.index (keyOf o (f m.iters[m.index]))) x).isSome
    rw [keyAt_set hxk]
    by_cases hxe : x = m.index
    · subst hxe
      simp only [if_true]
      have hnot : ¬ m.index ∈ m.heap := fun h => ((hbut.2 _).1 h).2.1 rfl
      cases hc : o.cur (f m.iters[m.index]) with
      | none => simp [keyOf, hc, hnot]
      | some e => simp [keyOf, hc, hx]
    · simp only [hxe, if_false]
      have : x ∈ m.heap ↔ x < Ls.length ∧ (keyAt m.keys x).isSome := by
        rw [hbut.2]; exact ⟨fun h => ⟨h.1, h.2.2⟩, fun h => ⟨h.1, hxe, h.2⟩⟩
      split
      · rw [List.mem_append, this]; simp [hxe]
      · exact this

include hch in
/-- the `case dirForward:` block of `Prev`: every child but `index` goes to its last entry below `key` -/
theorem turnBack_base {m : MergedIter σ} {ps : Nat → Pos} (hb : Base Rs Ls m ps) (key : IKey) :
    Base Rs Ls (turnBack o key m)
      (fun x => if x = m.index then ps x else Cursor.bseek ((Ls[x]?).getD []) (geKey c key)) ∧
    HeapBut Ls.length m.index (turnBack o key m) := by
  have hrel : ∀ x s, (turnBack o key m).iters[x]? = some s →
      Rs x s (if x = m.index then ps x else Cursor.bseek ((Ls[x]?).getD []) (geKey c key)) := by
    intro x s' hs'
    simp only [turnBack, List.getElem?_mapIdx] at hs'
    cases h : m.iters[x]? with
    | none => simp [h] at hs'
    | some s0 =>
      simp only [h, Option.map_some, Option.some.injEq] at hs'
      have hx : x < Ls.length := by rw [← hb.ilen]; exact (List.getElem?_eq_some_iff.1 h).1
      have hL := List.getElem?_eq_getElem hx
      by_cases hxe : x = m.index
      · simp only [hxe, if_true] at hs' ⊢
        rw [← hs']; rw [hxe] at h; exact hb.rel _ _ h
      · simp only [hxe, if_false] at hs' ⊢
        have hsim := hch x _ hL
        have h1 := hsim.seek s0 _ key (hb.rel x s0 h)
        rw [hL, Option.getD_some, ← Cursor.turn_pos, ← hs', hsim.ok_eq _ _ h1]
        split
        · exact hsim.prev _ _ h1
        · exact hsim.last _ _ h1
  have hilen : (turnBack o key m).iters.length = Ls.length := by simp [turnBack, hb.ilen]
  refine ⟨⟨hilen, by simp [turnBack, hb.ilen], hrel, ?_⟩, ?_, ?_⟩
  · intro x L hL
    have hx : x < (turnBack o key m).iters.length := by rw [hilen]; exact (List.getElem?_eq_some_iff.1 hL).1
    have hs := List.getElem?_eq_getElem hx
    have hR := hrel x _ hs
    have hk : keyAt (turnBack o key m).keys x =
        if x = m.index then keyAt m.keys x else keyOf o (turnBack o key m).iters[x] := by
      show keyAt (List.mapIdx _ (turnBack o key m).iters) x = _
      simp only [keyAt, List.getElem?_mapIdx, hs, Option.map_some, Option.join_some]
    rw [hk]
    by_cases hxe : x = m.index
    · simp only [hxe, if_true]
      rw [hxe] at hL; exact hb.key _ L hL
    · simp only [hxe, if_false] at hR ⊢
      unfold keyOf
      rw [(hch x L hL).cur _ _ hR]
  · exact List.Nodup.sublist List.filter_sublist List.nodup_range
  · intro x
    show x ∈ List.filter (fun x => decide (x ≠ m.index) && (keyAt (turnBack o key m).keys x).isSome)
      (List.range (turnBack o key m).iters.length) ↔ _
    rw [hilen, List.mem_filter, List.mem_range]
    simp

end ops

/-! ## the five moves -/

section sim
variable {c : UCmp} (hl : LawfulUCmp c) {o : IterOps σ} {Rs : Nat → σ → Pos → Prop}
  {Ls : List (List Entry)} {U : List Entry} (hok : MergeOK c Ls U)
  (hch : ∀ i L, Ls[i]? = some L → Sim o c L (Rs i))

omit hl hok hch in
theorem Rel.not_released {m : MergedIter σ} {p : Pos} (h : Rel o c Rs Ls U m p) : m.dir ≠ .released := by
  obtain ⟨ps, _, hp⟩ := h
  cases p with
  | soi => have : m.dir = .soi := hp; rw [this]; simp
  | eoi => have : m.dir = .eoi := hp; rw [this]; simp
  | «at» i =>
    obtain ⟨e, L, _, _, _, _, h | h⟩ := hp
    · rw [h.1]; simp
    · rw [h.1]; simp

include hl hok hch in
theorem rel_first {m : MergedIter σ} {p : Pos} (h : Rel o c Rs Ls U m p) :
    Rel o c Rs Ls U (first o c m) (Cursor.first U) := by
  have hnr := h.not_released
  obtain ⟨ps, hb, _⟩ := h
  unfold first; rw [if_neg hnr]
  obtain ⟨hb', hh'⟩ := resetAll_base hch hb false o.first (fun x => Cursor.first ((Ls[x]?).getD []))
    (by intro x L s hL hR; rw [hL]; exact (hch x L hL).first s _ hR)
  rw [Cursor.first_eq_seek]
  exact (rel_popNext hl hok o (m := { resetAll o false o.first m with dir := .soi })
    ⟨hb'.ilen, hb'.klen, hb'.rel, hb'.key⟩ hh' rfl (fun _ => true) (fun _ _ _ _ _ _ => rfl)
    (by intro x L hL; simp only [hL, Option.getD_some]; exact Cursor.first_eq_seek L)).1

include hl hok hch in
theorem rel_seek {m : MergedIter σ} {p : Pos} (h : Rel o c Rs Ls U m p) (k : IKey) :
    Rel o c Rs Ls U (seek o c k m) (Cursor.seek U (geKey c k)) ∧ (seek o c k m).dir ≠ .backward := by
  have hnr := h.not_released
  obtain ⟨ps, hb, _⟩ := h
  unfold seek; rw [if_neg hnr]
  obtain ⟨hb', hh'⟩ := resetAll_base hch hb false (o.seek k)
    (fun x => Cursor.seek ((Ls[x]?).getD []) (geKey c k))
    (by intro x L s hL hR; rw [hL]; exact (hch x L hL).seek s _ k hR)
  exact rel_popNext hl hok o (m := { resetAll o false (o.seek k) m with dir := .soi })
    ⟨hb'.ilen, hb'.klen, hb'.rel, hb'.key⟩ hh' rfl (geKey c k) (mono_geKey hl U k)
    (by intro x L hL; simp only [hL, Option.getD_some])

include hl hok hch in
theorem rel_last {m : MergedIter σ} {p : Pos} (h : Rel o c Rs Ls U m p) :
    Rel o c Rs Ls U (last o c m) (Cursor.last U) := by
  have hnr := h.not_released
  obtain ⟨ps, hb, _⟩ := h
  unfold last; rw [if_neg hnr]
  obtain ⟨hb', hh'⟩ := resetAll_base hch hb true o.last (fun x => Cursor.last ((Ls[x]?).getD []))
    (by intro x L s hL hR; rw [hL]; exact (hch x L hL).last s _ hR)
  rw [Cursor.last_eq_bseek]
  exact rel_popPrev hl hok o (m := { resetAll o true o.last m with dir := .eoi })
    ⟨hb'.ilen, hb'.klen, hb'.rel, hb'.key⟩ hh' rfl (fun _ => false)
    (fun _ _ _ _ h _ => by cases h)
    (by intro x L hL; simp only [hL, Option.getD_some]; exact Cursor.last_eq_bseek L)

include hl hok hch in
/-- the tail of `Next`: child `index` stands on `e`, every other child on its first entry `> e` -/
theorem rel_next_core {m : MergedIter σ} {ps : Nat → Pos} (hb : Base Rs Ls m ps) (hrev : m.reverse = false)
    {L0 : List Entry} (hL0 : Ls[m.index]? = some L0) {e : Entry} (hcur : Cursor.get L0 (ps m.index) = some e)
    (hbut : HeapBut Ls.length m.index m) {i : Nat} (hi : U[i]? = some e)
    (hps : ∀ x L, x ≠ m.index → Ls[x]? = some L → ps x = Cursor.seek L (gtKey c e.key)) :
    Rel o c Rs Ls U (popNext c (stepIndex o o.next m)) (Cursor.next U (.at i)) := by
  cases hp : ps m.index with
  | soi => rw [hp] at hcur; cases hcur
  | eoi => rw [hp] at hcur; cases hcur
  | «at» j =>
    rw [hp] at hcur
    have hcur' : L0[j]? = some e := hcur
    obtain ⟨hb', hh', hrev', _⟩ := stepIndex_base hch hb hL0 hbut o.next (Cursor.next L0 (.at j))
      (by intro s hR; rw [hp] at hR; exact (hch _ L0 hL0).next s _ hR)
    rw [next_eq_seek hl hok.sortedU hi]
    refine (rel_popNext hl hok o hb' hh' (hrev'.trans hrev) (gtKey c e.key) (mono_gtKey hl U e.key) ?_).1
    intro x L hL
    by_cases hxe : x = m.index
    · subst hxe
      rw [hL0] at hL; cases hL
      simp only [if_true]
      exact next_eq_seek hl (hok.sortedL _ (List.mem_of_getElem? hL0)) hcur'
    · simp only [hxe, if_false]
      exact hps x L hxe hL

include hl hok hch in
/-- the tail of `Prev`: child `index` stands on `e`, every other child on its last entry `< e` -/
theorem rel_prev_core {m : MergedIter σ} {ps : Nat → Pos} (hb : Base Rs Ls m ps) (hrev : m.reverse = true)
    {L0 : List Entry} (hL0 : Ls[m.index]? = some L0) {e : Entry} (hcur : Cursor.get L0 (ps m.index) = some e)
    (hbut : HeapBut Ls.length m.index m) {i : Nat} (hi : U[i]? = some e)
    (hps : ∀ x L, x ≠ m.index → Ls[x]? = some L → ps x = Cursor.bseek L (geKey c e.key)) :
    Rel o c Rs Ls U (popPrev c (stepIndex o o.prev m)) (Cursor.prev U (.at i)) := by
  cases hp : ps m.index with
  | soi => rw [hp] at hcur; cases hcur
  | eoi => rw [hp] at hcur; cases hcur
  | «at» j =>
    rw [hp] at hcur
    have hcur' : L0[j]? = some e := hcur
    obtain ⟨hb', hh', hrev', _⟩ := stepIndex_base hch hb hL0 hbut o.prev (Cursor.prev L0 (.at j))
      (by intro s hR; rw [hp] at hR; exact (hch _ L0 hL0).prev s _ hR)
    rw [prev_eq_bseek hl hok.sortedU hi]
    refine rel_popPrev hl hok o hb' hh' (hrev'.trans hrev) (geKey c e.key) (mono_geKey hl U e.key) ?_
    intro x L hL
    by_cases hxe : x = m.index
    · subst hxe
      rw [hL0] at hL; cases hL
      simp only [if_true]
      exact prev_eq_bseek hl (hok.sortedL _ (List.mem_of_getElem? hL0)) hcur'
    · simp only [hxe, if_false]
      exact hps x L hxe hL

omit hch in
include hl hok in
/-- a child other than the one holding `e` does not hold `e.key`: `≥ e` and `> e` agree on it -/
theorem others_congr {x x0 : Nat} {L L0 : List Entry} {e : Entry} (hL0 : Ls[x0]? = some L0) (he : e ∈ L0)
    (hne : x ≠ x0) (hL : Ls[x]? = some L) : ∀ y ∈ L, geKey c e.key y = gtKey c e.key y :=
  fun y hy => geKey_eq_gtKey hl (hok.distinct x x0 L L0 y e hne hL hL0 hy he)

include hl hok hch in
theorem rel_next_fwd {m : MergedIter σ} {i : Nat} (h : Rel o c Rs Ls U m (.at i)) (hdir : m.dir ≠ .backward) :
    Rel o c Rs Ls U (popNext c (stepIndex o o.next m)) (Cursor.next U (.at i)) := by
  obtain ⟨ps, hb, e, L0, hi, hL0, hcur, hbut, hfw | hbw⟩ := h
  · refine rel_next_core hl hok hch hb hfw.2.1 hL0 hcur hbut hi ?_
    intro x L hxe hL
    rw [hfw.2.2 x L hL]
    exact Cursor.seek_congr (others_congr hl hok hL0 (Cursor.get_mem hcur) hxe hL)
  · exact absurd hbw.1 hdir

include hl hok hch in
theorem rel_next {m : MergedIter σ} {p : Pos} (h : Rel o c Rs Ls U m p) :
    Rel o c Rs Ls U (next o c m) (Cursor.next U p) := by
  cases p with
  | soi =>
    have hd : m.dir = .soi := by obtain ⟨_, _, hd⟩ := h; exact hd
    unfold next; rw [hd]
    exact rel_first hl hok hch h
  | eoi =>
    have hd : m.dir = .eoi := by obtain ⟨_, _, hd⟩ := h; exact hd
    unfold next; rw [hd]
    exact h
  | «at» i =>
    have h' := h
    obtain ⟨ps, hb, e, L0, hi, hL0, hcur, hbut, hfw | hbw⟩ := h'
    · unfold next; rw [hfw.1]
      exact rel_next_fwd hl hok hch h (by rw [hfw.1]; simp)
    · unfold next; rw [hbw.1]
      have hk := hb.key_of_cur hL0 hcur
      simp only [hk]
      obtain ⟨hrel1, hd1⟩ := rel_seek hl hok hch h e.key
      rw [seek_self hl hok.sortedU hi] at hrel1
      have hv : (seek o c e.key m).dir.valid = true := by
        obtain ⟨_, _, _, _, _, _, _, _, h1 | h1⟩ := hrel1
        · rw [h1.1]; rfl
        · rw [h1.1]; rfl
      simp only [hv, Bool.not_true, Bool.false_eq_true, if_false]
      exact rel_next_fwd hl hok hch hrel1 hd1

include hl hok hch in
theorem rel_prev {m : MergedIter σ} {p : Pos} (h : Rel o c Rs Ls U m p) :
    Rel o c Rs Ls U (prev o c m) (Cursor.prev U p) := by
  cases p with
  | soi =>
    have hd : m.dir = .soi := by obtain ⟨_, _, hd⟩ := h; exact hd
    unfold prev; rw [hd]
    exact h
  | eoi =>
    have hd : m.dir = .eoi := by obtain ⟨_, _, hd⟩ := h; exact hd
    unfold prev; rw [hd]
    exact rel_last hl hok hch h
  | «at» i =>
    have h' := h
    obtain ⟨ps, hb, e, L0, hi, hL0, hcur, hbut, hfw | hbw⟩ := h'
    · unfold prev; rw [hfw.1]
      have hk := hb.key_of_cur hL0 hcur
      simp only [hk]
      obtain ⟨hb', hbut'⟩ := turnBack_base hch hb e.key
      refine rel_prev_core hl hok hch (m := turnBack o e.key m) hb' rfl hL0 ?_ hbut' hi ?_
      · show Cursor.get L0 (if m.index = m.index then ps m.index else _) = some e
        rw [if_pos rfl]; exact hcur
      · intro x L hxe hL
        have hxe' : x ≠ m.index := hxe
        simp only [hxe', if_false, hL, Option.getD_some]
    · unfold prev; rw [hbw.1]
      refine rel_prev_core hl hok hch hb hbw.2.1 hL0 hcur hbut hi ?_
      intro x L hxe hL
      rw [hbw.2.2 x L hL]
      exact Cursor.bseek_congr (fun y hy => (others_congr hl hok hL0 (Cursor.get_mem hcur) hxe hL y hy).symm)

omit hl hok in
include hch in
theorem rel_cur {m : MergedIter σ} {p : Pos} (h : Rel o c Rs Ls U m p) : cur o m = Cursor.get U p := by
  cases p with
  | soi =>
    have hd : m.dir = .soi := by obtain ⟨_, _, hd⟩ := h; exact hd
    simp [cur, hd, Dir.valid, Cursor.get]
  | eoi =>
    have hd : m.dir = .eoi := by obtain ⟨_, _, hd⟩ := h; exact hd
    simp [cur, hd, Dir.valid, Cursor.get]
  | «at» i =>
    obtain ⟨ps, hb, e, L0, hi, hL0, hcur, hbut, hdir⟩ := h
    have hv : m.dir.valid = true := by
      rcases hdir with h1 | h1 <;> rw [h1.1] <;> rfl
    have hk := hb.key_of_cur hL0 hcur
    have hx : m.index < m.iters.length := by rw [hb.ilen]; exact (List.getElem?_eq_some_iff.1 hL0).1
    have hs := List.getElem?_eq_getElem hx
    have hc := (hch _ L0 hL0).cur _ _ (hb.rel _ _ hs)
    rw [hcur] at hc
    simp only [cur, hv, if_true, hk, hs, hc, Cursor.get, hi]
    rfl

omit hl hok hch in
theorem rel_wf {m : MergedIter σ} {p : Pos} (h : Rel o c Rs Ls U m p) : Cursor.wf U p := by
  cases p with
  | soi => trivial
  | eoi => trivial
  | «at» i =>
    obtain ⟨ps, hb, e, L0, hi, _⟩ := h
    exact (List.getElem?_eq_some_iff.1 hi).1

end sim

theorem ops_first (o : IterOps σ) (c : UCmp) : (ops o c).first = first o c := rfl
theorem ops_last (o : IterOps σ) (c : UCmp) : (ops o c).last = last o c := rfl
theorem ops_seek (o : IterOps σ) (c : UCmp) : (ops o c).seek = seek o c := rfl
theorem ops_next (o : IterOps σ) (c : UCmp) : (ops o c).next = next o c := rfl
theorem ops_prev (o : IterOps σ) (c : UCmp) : (ops o c).prev = prev o c := rfl
theorem ops_cur (o : IterOps σ) (c : UCmp) : (ops o c).cur = cur o := rfl

/-- the merged iterator over children that simulate the cursors over `Ls` simulates the cursor over the
sorted union `U` -/
theorem sim {c : UCmp} (hl : LawfulUCmp c) (o : IterOps σ) (Rs : Nat → σ → Pos → Prop)
    (Ls : List (List Entry)) (U : List Entry) (hok : MergeOK c Ls U)
    (hch : ∀ i L, Ls[i]? = some L → Sim o c L (Rs i)) :
    Sim (MergedIter.ops o c) c U (MergedIter.Rel o c Rs Ls U) where
  wf := fun _ _ h => rel_wf h
  first := fun _ _ h => rel_first hl hok hch h
  last := fun _ _ h => rel_last hl hok hch h
  seek := fun _ _ k h => (rel_seek hl hok hch h k).1
  next := fun _ _ h => rel_next hl hok hch h
  prev := fun _ _ h => rel_prev hl hok hch h
  cur := fun _ _ h => rel_cur hch h

end MergedIter
end GoLevel

namespace GoLevel

/-! ## non-vacuity: four children (one of them empty) with interleaved keys -/

namespace MergedExample
def a : Entry := ⟨⟨[1], 5⟩, [10]⟩
def b : Entry := ⟨⟨[2], 7⟩, [20]⟩
def c : Entry := ⟨⟨[2], 3⟩, [30]⟩
def d : Entry := ⟨⟨[3, 1], 1⟩, [40]⟩
def e : Entry := ⟨⟨[4], 9⟩, []⟩
def Ls : List (List Entry) := [[a, d], [b], [], [c, e]]
def U : List Entry := [a, b, c, d, e]

theorem distinct_dec : ∀ i, i < 4 → ∀ j, j < 4 → i ≠ j →
    ∀ x ∈ (Ls[i]?).getD [], ∀ y ∈ (Ls[j]?).getD [], x.key ≠ y.key := by decide

theorem mergeOK : MergeOK bytewise Ls U where
  sortedU := by decide
  mem := by
    intro x
    simp only [U, Ls, List.mem_cons, List.not_mem_nil, or_false, false_or, exists_eq_or_imp,
      exists_eq_left]
    constructor
    · rintro (h | h | h | h | h) <;> simp [h]
    · rintro ((h | h) | h | h | h) <;> simp [h]
  sortedL := by
    intro L hL
    simp only [Ls, List.mem_cons, List.not_mem_nil, or_false] at hL
    rcases hL with rfl | rfl | rfl | rfl <;> decide
  distinct := by
    intro i j Li Lj x y hij hi hj hx hy
    have hi4 : i < 4 := (List.getElem?_eq_some_iff.1 hi).1
    have hj4 : j < 4 := (List.getElem?_eq_some_iff.1 hj).1
    exact distinct_dec i hi4 j hj4 hij x (by rw [hi]; exact hx) y (by rw [hj]; exact hy)

end MergedExample

/-- non-vacuity: the hypotheses of `MergedIter.sim` hold for `ArrIter` children over a concrete
`[[a,d],[b],[],[c,e]]`, so the merged iterator over them simulates the cursor over `[a,b,c,d,e]` -/
example : Sim (MergedIter.ops (ArrIter.ops bytewise) bytewise) bytewise MergedExample.U
    (MergedIter.Rel (ArrIter.ops bytewise) bytewise
      (fun i => ArrIter.Rel ((MergedExample.Ls[i]?).getD [])) MergedExample.Ls MergedExample.U) :=
  MergedIter.sim bytewise_lawful _ _ _ _ MergedExample.mergeOK
    (fun i L hL => by simp only [hL, Option.getD_some]; exact ArrIter.sim bytewise L)

/-- the freshly built merged iterator over the example children is related to `soi`; hence it answers
every call sequence like the cursor over `U` -/
example (calls : List (Call IKey)) :
    (MergedIter.ops (ArrIter.ops bytewise) bytewise).run
      (MergedIter.new (MergedExample.Ls.map fun L => (⟨L, .soi⟩ : ArrIter))) calls =
    Cursor.run MergedExample.U (geKey bytewise) .soi calls :=
  (MergedIter.sim bytewise_lawful _ _ _ _ MergedExample.mergeOK
    (fun i L hL => by simp only [hL, Option.getD_some]; exact ArrIter.sim bytewise L)).run calls _ _
    (MergedIter.rel_new _ _ (fun i => ArrIter.Rel ((MergedExample.Ls[i]?).getD [])) _ _ _ (by simp)
      (by
        intro i s h
        rw [List.getElem?_map] at h
        cases hL : MergedExample.Ls[i]? with
        | none => simp [hL] at h
        | some L =>
          simp only [hL, Option.map_some, Option.some.injEq] at h
          subst h
          exact ⟨rfl, rfl, trivial⟩))

/-- a concrete run with both direction changes -/
example :
    (MergedIter.ops (ArrIter.ops bytewise) bytewise).run
      (MergedIter.new (MergedExample.Ls.map fun L => (⟨L, .soi⟩ : ArrIter)))
      [.first, .next, .next, .prev, .prev, .prev, .next, .seek ⟨[3], 0⟩, .prev, .last, .next, .prev] =
    (open MergedExample in
      [some a, some b, some c, some b, some a, none, some a, some d, some c, some e, none, some e]) := by
  decide

#print axioms MergedIter.sim
#print axioms MergedIter.rel_new
#print axioms MergedExample.mergeOK

end GoLevel
