import GoLevel.Proofs.IterDBPrev
/-!
# `DBIter` over any raw iterator that simulates a cursor refines the cursor over the visible entries

The simulation relation `DBRel` ties the state of the DB iterator (direction, saved key/value, position
of the raw iterator in the raw entries `es`) to the position of the specification cursor over
`es.filter (isVisible c es seq)`.  Core Lean only.
-/
namespace GoLevel

/-- the visible entries (before projection to user key / value) -/
def visList (c : UCmp) (es : List Entry) (seq : Nat) : List Entry := es.filter (isVisible c es seq)

def pairOf (e : Entry) : Bytes × Bytes := (e.ukey, e.val)

theorem visible_eq (c : UCmp) (es : List Entry) (seq : Nat) :
    visible c es seq = (visList c es seq).map pairOf := rfl

/-- rank of raw index `j` among the visible entries -/
def rk (c : UCmp) (es : List Entry) (seq : Nat) (j : Nat) : Nat := rank (isVisible c es seq) es j

/-! ### the cursor over a mapped list -/
namespace Cursor
variable {α β : Type}

theorem get_map (f : α → β) (xs : List α) (p : Pos) : get (xs.map f) p = (get xs p).map f := by
  cases p <;> simp [get]

theorem first_map (f : α → β) (xs : List α) : first (xs.map f) = first xs := by
  cases xs <;> simp [first]

theorem last_map (f : α → β) (xs : List α) : last (xs.map f) = last xs := by
  cases xs <;> simp [last]

theorem next_map (f : α → β) (xs : List α) (p : Pos) : next (xs.map f) p = next xs p := by
  cases p <;> simp [next, first_map]

theorem prev_map (f : α → β) (xs : List α) (p : Pos) : prev (xs.map f) p = prev xs p := by
  cases p <;> simp [prev, last_map]

theorem seek_map (f : α → β) (xs : List α) (ge : β → Bool) : seek (xs.map f) ge = seek xs (ge ∘ f) := by
  simp only [seek, List.findIdx?_map]

theorem step_map {κ : Type} (f : α → β) (xs : List α) (ge : κ → β → Bool) (cl : Call κ) (p : Pos) :
    step (xs.map f) ge cl p = step xs (fun k => ge k ∘ f) cl p := by
  cases cl <;> simp [step, first_map, last_map, next_map, prev_map, seek_map]

theorem run_map {κ : Type} (f : α → β) (xs : List α) (ge : κ → β → Bool) (p : Pos) (cs : List (Call κ)) :
    run (xs.map f) ge p cs = (run xs (fun k => ge k ∘ f) p cs).map (·.map f) := by
  induction cs generalizing p with
  | nil => rfl
  | cons cl cs ih => simp only [run, step_map, get_map, ih, List.map_cons]

end Cursor

/-- the simulation relation of the DB iterator -/
def DBRel {σ : Type} (c : UCmp) (R : σ → Pos → Prop) (es : List Entry) (seq : Nat) (d : DBIter σ) (p : Pos) :
    Prop :=
  d.seq = seq ∧ es.length < d.fuel ∧
  match d.dir with
  | .released => False
  | .soi => p = .soi ∧ R d.raw .soi
  | .eoi => p = .eoi ∧ ∃ q, R d.raw q
  | .forward => ∃ j e, R d.raw (.at j) ∧ es[j]? = some e ∧ Vis es seq j e ∧ d.key = e.ukey ∧
      d.value = e.val ∧ p = .at (rk c es seq j)
  | .backward => ∃ j e, es[j]? = some e ∧ Vis es seq j e ∧ d.key = e.ukey ∧ d.value = e.val ∧
      p = .at (rk c es seq j) ∧ BackRaw c R es seq d.raw j e

section
variable {σ : Type} {o : IterOps σ} {c : UCmp} {es : List Entry} {R : σ → Pos → Prop}

theorem DBRel.rawR {seq : Nat} {d : DBIter σ} {p : Pos} (h : DBRel c R es seq d p) : ∃ q, R d.raw q := by
  obtain ⟨_, _, h⟩ := h
  split at h
  · exact h.elim
  · exact ⟨_, h.2⟩
  · exact h.2
  · obtain ⟨j, e, hR, _⟩ := h; exact ⟨_, hR⟩
  · obtain ⟨j, e, _, _, _, _, _, hb⟩ := h
    rcases hb with ⟨hR, _⟩ | ⟨j', e', _, hR, _⟩
    · exact ⟨_, hR⟩
    · exact ⟨_, hR⟩

theorem DBRel.not_released {seq : Nat} {d : DBIter σ} {p : Pos} (h : DBRel c R es seq d p) :
    d.dir ≠ .released := by
  intro hd
  obtain ⟨_, _, h⟩ := h
  rw [hd] at h; exact h

section vis
variable (hl : LawfulUCmp c) (hs : SortedEntries c es)
include hl hs

theorem vis_true (seq i : Nat) (e : Entry) (he : es[i]? = some e) (hv : Vis es seq i e) :
    isVisible c es seq e = true := (isVisible_iff hl hs seq i e he).2 hv

theorem vis_false (seq i : Nat) (e : Entry) (he : es[i]? = some e) (hv : ¬ Vis es seq i e) :
    isVisible c es seq e = false := by
  cases h : isVisible c es seq e with
  | false => rfl
  | true => exact absurd ((isVisible_iff hl hs seq i e he).1 h) hv

/-- what the caller sees is the entry under the specification cursor -/
theorem DBRel.out {seq : Nat} {d : DBIter σ} {p : Pos} (h : DBRel c R es seq d p) :
    d.out = (Cursor.get (visList c es seq) p).map pairOf := by
  obtain ⟨_, _, h⟩ := h
  split at h
  · exact h.elim
  · rename_i hd; simp [DBIter.out, hd, Dir.valid, h.1, Cursor.get]
  · rename_i hd; simp [DBIter.out, hd, Dir.valid, h.1, Cursor.get]
  · rename_i hd
    obtain ⟨j, e, _, he, hv, hk, hval, hp⟩ := h
    have := filter_get_rank (isVisible c es seq) es j e he (vis_true hl hs seq j e he hv)
    simp [DBIter.out, hd, Dir.valid, hp, Cursor.get, visList, rk, this, pairOf, hk, hval]
  · rename_i hd
    obtain ⟨j, e, he, hv, hk, hval, hp, _⟩ := h
    have := filter_get_rank (isVisible c es seq) es j e he (vis_true hl hs seq j e he hv)
    simp [DBIter.out, hd, Dir.valid, hp, Cursor.get, visList, rk, this, pairOf, hk, hval]

/-- no visible entry in `[j, j')` -/
theorem rk_gap (seq j j' : Nat) (hle : j ≤ j')
    (h : ∀ (i : Nat) (e : Entry), j ≤ i → i < j' → es[i]? = some e → ¬ Vis es seq i e) :
    rk c es seq j' = rk c es seq j :=
  rank_gap _ es j j' hle (fun i e h1 h2 h3 => vis_false hl hs seq i e h3 (h i e h1 h2 h3))

theorem rk_succ (seq j : Nat) (e : Entry) (he : es[j]? = some e) (hv : Vis es seq j e) :
    rk c es seq (j + 1) = rk c es seq j + 1 := by
  simp only [rk, rank_succ _ es j e he, vis_true hl hs seq j e he hv, if_true]

theorem rk_lt (seq j : Nat) (e : Entry) (he : es[j]? = some e) (hv : Vis es seq j e) :
    rk c es seq j < (visList c es seq).length :=
  rank_lt _ es j e he (vis_true hl hs seq j e he hv)

theorem rk_end (seq j : Nat)
    (h : ∀ (i : Nat) (e : Entry), j ≤ i → es[i]? = some e → ¬ Vis es seq i e) :
    rk c es seq j = (visList c es seq).length :=
  rank_end _ es j (fun i e h1 h3 => vis_false hl hs seq i e h3 (h i e h1 h3))

theorem rk_begin (seq j : Nat)
    (h : ∀ (i : Nat) (e : Entry), i < j → es[i]? = some e → ¬ Vis es seq i e) :
    rk c es seq j = 0 :=
  rank_begin _ es j (fun i e h1 h3 => vis_false hl hs seq i e h3 (h i e h1 h3))

theorem visList_nil (seq : Nat) (h : ∀ (i : Nat) (e : Entry), es[i]? = some e → ¬ Vis es seq i e) :
    visList c es seq = [] :=
  filter_eq_nil_of_none _ es (fun i e h3 => vis_false hl hs seq i e h3 (h i e h3))

end vis

/-- turning the outcome of `next()` into the simulation relation, given where the specification cursor goes -/
theorem NextOut.rel {seq fuel j : Nat} {r : DBIter σ × Bool} {p' : Pos} (hfuel : es.length < fuel)
    (h : NextOut R es seq fuel j r)
    (hfound : ∀ (j' : Nat) (e : Entry), j ≤ j' → es[j']? = some e → Vis es seq j' e →
      (∀ (i : Nat) (e' : Entry), j ≤ i → i < j' → es[i]? = some e' → ¬ Vis es seq i e') →
      p' = .at (rk c es seq j'))
    (hnone : (∀ (i : Nat) (e' : Entry), j ≤ i → es[i]? = some e' → ¬ Vis es seq i e') → p' = .eoi) :
    DBRel c R es seq r.1 p' := by
  obtain ⟨h1, h2, h3⟩ := h
  refine ⟨h1, by omega, ?_⟩
  rcases h3 with ⟨_, j', e, hj', hR, he, hv, hk, hval, hdir, hgap⟩ | ⟨_, hdir, hq, hgap⟩
  · rw [hdir]; exact ⟨j', e, hR, he, hv, hk, hval, hfound j' e hj' he hv hgap⟩
  · rw [hdir]; exact ⟨hnone hgap, hq⟩

end
end GoLevel
