import GoLevel.Proofs.FSMeta
/-! The first read-write `GetMeta` after a crash inside `setMeta b` (clean start): it repairs the directory. -/
namespace GoLevel.FSMeta

/-- the descriptor `CURRENT` holds -/
def FS.names (fs : FS) : Option FD := (fs.read .cur).bind Content.parse

def ansOpt : Except Err FD → Option FD
  | .ok fd => some fd
  | .error _ => none

/-- evaluate a read-write `GetMeta` (no faults), its repair included, on an explicit file system -/
macro "eval_rw" : tactic =>
  `(tactic| simp [*, ask, after, ansOpt, FS.names, getMeta, W.of, readDir, sys, sysF, FS.pending, FS.vdir, pendNums, sortDesc,
     insDesc, tryCurrents, tryCurrent, readFile, statFile, FS.read, Dir.get, getL, FS.ino, Content.parse, Content.gen, choose,
     repair, removeAll, remove, setMeta, setMetaTail, writeFileSynced, stat, openTrunc, write, fsync, close, rename, syncDir,
     rmFile, firstErr, FS.setIno, FS.op, FS.image, imageInodes, applyMasked, Inode.image, Dir.apply, Dir.set, Dir.del, delL,
     cutOf, CleanP.fs, CleanP.cur, CleanP.dir, CleanP.bakLink, CleanP.bakDone, CleanP.newDone])

set_option maxRecDepth 8000 in
set_option maxHeartbeats 16000000 in
/-- after a machine crash in any state `setMeta b` can end in, a read-write `GetMeta` (no fault) leaves a directory
    whose `CURRENT` holds its answer, without pending files, and answers the same when asked again; and when the
    answer was `a` and the file of manifest `b` is then removed (the session's cleanup), the answer stays `a` -/
theorem shape_image_repair (p : CleanP) (hp : p.Ok) {r : Except Err Unit} {d : Bool} {fs : FS} (h : Shape p r d fs)
    (ch : Choice) :
    (after {} false (fs.image ch)).names = ansOpt (ask {} true (fs.image ch)) ∧
    (after {} false (fs.image ch)).pending = [] ∧
    ask {} true (after {} false (fs.image ch)) = ask {} true (fs.image ch) ∧
    (ask {} true (fs.image ch) = .ok (m p.a) →
      ask {} true (rmFile (m p.b) (W.of (after {} false (fs.image ch)))).2.fs = .ok (m p.a)) := by
  obtain ⟨a, b, ca, bak, files⟩ := p
  obtain ⟨hne, fa, fb⟩ := hp
  obtain ⟨ops, data⟩ := ch
  try simp only at hne fa fb
  have hne' : ¬ b = a := fun h => hne h.symm
  by_cases hab : a < b <;> cases bak <;> cases h
  case pos.none.pre => (cases ca <;> eval_rw)
  case pos.none.bak => img1 ops then (cases ca <;> eval_rw)
  case pos.none.new _ y hy =>
    simp [filling, cutOf, Content.gen] at hy
    rcases hy with rfl | rfl | rfl | rfl | rfl | rfl <;> img2k ops data then (cases ca <;> eval_rw)
  case pos.none.ren => img3 ops then (cases ca <;> eval_rw)
  case pos.none.fin => (cases ca <;> eval_rw)
  case pos.some.pre => (cases ca <;> eval_rw)
  case pos.some.bak => img1 ops then (cases ca <;> eval_rw)
  case pos.some.new _ y hy =>
    simp [filling, cutOf, Content.gen] at hy
    rcases hy with rfl | rfl | rfl | rfl | rfl | rfl <;> img2k ops data then (cases ca <;> eval_rw)
  case pos.some.ren => img3 ops then (cases ca <;> eval_rw)
  case pos.some.fin => (cases ca <;> eval_rw)
  case neg.none.pre => (cases ca <;> eval_rw)
  case neg.none.bak => img1 ops then (cases ca <;> eval_rw)
  case neg.none.new _ y hy =>
    simp [filling, cutOf, Content.gen] at hy
    rcases hy with rfl | rfl | rfl | rfl | rfl | rfl <;> img2k ops data then (cases ca <;> eval_rw)
  case neg.none.ren => img3 ops then (cases ca <;> eval_rw)
  case neg.none.fin => (cases ca <;> eval_rw)
  case neg.some.pre => (cases ca <;> eval_rw)
  case neg.some.bak => img1 ops then (cases ca <;> eval_rw)
  case neg.some.new _ y hy =>
    simp [filling, cutOf, Content.gen] at hy
    rcases hy with rfl | rfl | rfl | rfl | rfl | rfl <;> img2k ops data then (cases ca <;> eval_rw)
  case neg.some.ren => img3 ops then (cases ca <;> eval_rw)
  case neg.some.fin => (cases ca <;> eval_rw)

end GoLevel.FSMeta
