import GoLevel.Proofs.WriteProtoGInv4
set_option linter.unusedSimpArgs false
/-! `PubEq` (a published group consumed exactly `gn` sequence numbers starting at `gseq`) and `MAcc` (every
accepted message belongs to a writer whose `acc` is this leader, or who still waits for the reply). -/
namespace GoLevel.WP

@[simp] theorem accept_gn (c : Cfg) (l : Thread) (i : Nat) (w : Thread) (st : List Rec) :
    (l.accept c i w st).gn = l.gn := rfl

def PubEq (s : St) : Prop :=
  ∀ (j : Nat) (l : Thread) (p : Nat), s.ws[j]? = some l → l.pub = some p → p + 1 = l.gseq + l.gn

macro "pqw" : tactic =>
  `(tactic| (intro a x p hx hxp; simp only [set2, List.getElem?_set] at hx;
             grind [PubEq, Sq, inGroup, Loc, Blank, Thread.setPc, Thread.asLeader, Thread.unlock, Thread.grouped,
                    Thread.journalled, accept_pc, accept_gseq, accept_gn, accept_pub]))

theorem step_pubeq (s t : St) (h : Step s t) (h1 : ∀ (i : Nat) (w : Thread), s.ws[i]? = some w → Loc w)
    (sq : Sq s) (pe : PubEq s) : PubEq t := by
  cases h with
  | call i w hi hp => pqw
  | retClosed i w hi hp hk hc => pqw
  | retPerErr i w hi hp hk hc => pqw
  | lock i w g hi hp hk ht => pqw
  | hAcquire i w hi hp hk ht => pqw
  | hRelease i w hi hp hk => pqw
  | flushOk j l m o free hj hp => pqw
  | flushFail j l m o hj hp => pqw
  | recvAccept i j w l m g hj hi hp hm hl' hq hk hwm hsz => pqw
  | reply i j w l m o hj hi hp hq => pqw
  | recvOverflow i j w l m hj hi hp hm hl' hq hk hwm hsz => pqw
  | mergeDone j l m o hj hp => pqw
  | journalOk j l m o hj hp => pqw
  | journalFail j l m o hj hp => pqw
  | apply j l m o hj hp => pqw
  | publish j l m o rot hj hp hrot => cases rot <;> pqw
  | rotateOk j l m o hj hp => pqw
  | rotateFail j l m o hj hp => pqw
  | ack i j w l k m o r hj hi hp hq => pqw
  | handoff i j w l m r g hj hi hp hq hc => pqw
  | release j l m r hj hp => pqw
  | releaseLost j l m r hj hp hc hr => pqw

theorem init_pubeq (s : St) (h : InitAny s) : PubEq s := by
  intro j l p hj hp
  have := h.2.2 l (List.mem_of_getElem? hj)
  rw [this.2.2.2.1] at hp; cases hp

/-- the relation between a writer `w` and a leader `l` at index `j` that `MAcc` is about -/
def Rel (j : Nat) (w l : Thread) : Prop :=
  w.acc = some j ∨ (w.pc = .waitMerged ∧ isReplying l.pc = true)

macro "rlw" : tactic =>
  `(tactic| (intro hx hy; simp only [set2, List.getElem?_set] at hx hy;
             have hrep := holds_of_isReplying;
             grind [Rel, isReplying, Loc, Blank, Thread.setPc, Thread.asLeader, Thread.unlock, Thread.grouped,
                    Thread.journalled, accept_pc, accept_acc]))

/-- `Rel` is kept by every step: `acc` is never changed once set, a replying leader leaves that phase only by
replying, which sets the waiting writer's `acc` -/
theorem step_rel (s t : St) (h : Step s t) (c : CInv s) (h1 : ∀ (i : Nat) (w : Thread), s.ws[i]? = some w → Loc w)
    (a b : Nat) (x y x' y' : Thread) (hxs : s.ws[a]? = some x) (hys : s.ws[b]? = some y) (hr : Rel b x y) :
    t.ws[a]? = some x' → t.ws[b]? = some y' → Rel b x' y' := by
  have hwm : tot isWM s.ws ≤ 1 := waitMerged_le_one s c
  have huw : ∀ (i : Nat) (w : Thread), s.ws[i]? = some w → w.pc = .waitMerged → x.pc = .waitMerged → i = a :=
    fun i w hi hw hx => unique_of_tot_le_one isWM s.ws hwm i a w x hi hxs (by simp [hw, isWM]) (by simp [hx, isWM])
  cases h with
  | call i w hi hp => rlw
  | retClosed i w hi hp hk hc => rlw
  | retPerErr i w hi hp hk hc => rlw
  | lock i w g hi hp hk ht =>
    have nh := no_holder s c ht
    rlw
  | hAcquire i w hi hp hk ht =>
    have nh := no_holder s c ht
    rlw
  | hRelease i w hi hp hk => rlw
  | flushOk j l m o free hj hp =>
    have hu : ∀ (a : Nat) (x : Thread), s.ws[a]? = some x → 0 < holds x.pc → a = j :=
      fun a x hx hh => holder_unique s c a j x l hx hj hh (by simp [hp, holds])
    rlw
  | flushFail j l m o hj hp =>
    have hu : ∀ (a : Nat) (x : Thread), s.ws[a]? = some x → 0 < holds x.pc → a = j :=
      fun a x hx hh => holder_unique s c a j x l hx hj hh (by simp [hp, holds])
    rlw
  | recvAccept i j w l m g hj hi hp hm hl' hq hk hwm hsz =>
    have hu : ∀ (a : Nat) (x : Thread), s.ws[a]? = some x → 0 < holds x.pc → a = j :=
      fun a x hx hh => holder_unique s c a j x l hx hj hh (by simp [hp, holds])
    rlw
  | reply i j w l m o hj hi hp hq =>
    have hu : ∀ (a : Nat) (x : Thread), s.ws[a]? = some x → 0 < holds x.pc → a = j :=
      fun a x hx hh => holder_unique s c a j x l hx hj hh (by simp [hp, holds])
    rlw
  | recvOverflow i j w l m hj hi hp hm hl' hq hk hwm hsz =>
    have hu : ∀ (a : Nat) (x : Thread), s.ws[a]? = some x → 0 < holds x.pc → a = j :=
      fun a x hx hh => holder_unique s c a j x l hx hj hh (by simp [hp, holds])
    rlw
  | mergeDone j l m o hj hp =>
    have hu : ∀ (a : Nat) (x : Thread), s.ws[a]? = some x → 0 < holds x.pc → a = j :=
      fun a x hx hh => holder_unique s c a j x l hx hj hh (by simp [hp, holds])
    rlw
  | journalOk j l m o hj hp =>
    have hu : ∀ (a : Nat) (x : Thread), s.ws[a]? = some x → 0 < holds x.pc → a = j :=
      fun a x hx hh => holder_unique s c a j x l hx hj hh (by simp [hp, holds])
    rlw
  | journalFail j l m o hj hp =>
    have hu : ∀ (a : Nat) (x : Thread), s.ws[a]? = some x → 0 < holds x.pc → a = j :=
      fun a x hx hh => holder_unique s c a j x l hx hj hh (by simp [hp, holds])
    rlw
  | apply j l m o hj hp =>
    have hu : ∀ (a : Nat) (x : Thread), s.ws[a]? = some x → 0 < holds x.pc → a = j :=
      fun a x hx hh => holder_unique s c a j x l hx hj hh (by simp [hp, holds])
    rlw
  | publish j l m o rot hj hp hrot =>
    have hu : ∀ (a : Nat) (x : Thread), s.ws[a]? = some x → 0 < holds x.pc → a = j :=
      fun a x hx hh => holder_unique s c a j x l hx hj hh (by simp [hp, holds])
    rlw
  | rotateOk j l m o hj hp =>
    have hu : ∀ (a : Nat) (x : Thread), s.ws[a]? = some x → 0 < holds x.pc → a = j :=
      fun a x hx hh => holder_unique s c a j x l hx hj hh (by simp [hp, holds])
    rlw
  | rotateFail j l m o hj hp =>
    have hu : ∀ (a : Nat) (x : Thread), s.ws[a]? = some x → 0 < holds x.pc → a = j :=
      fun a x hx hh => holder_unique s c a j x l hx hj hh (by simp [hp, holds])
    rlw
  | ack i j w l k m o r hj hi hp hq =>
    have hu : ∀ (a : Nat) (x : Thread), s.ws[a]? = some x → 0 < holds x.pc → a = j :=
      fun a x hx hh => holder_unique s c a j x l hx hj hh (by simp [hp, holds])
    rlw
  | handoff i j w l m r g hj hi hp hq hc =>
    have hu : ∀ (a : Nat) (x : Thread), s.ws[a]? = some x → 0 < holds x.pc → a = j :=
      fun a x hx hh => holder_unique s c a j x l hx hj hh (by simp [hp, holds])
    rlw
  | release j l m r hj hp =>
    have hu : ∀ (a : Nat) (x : Thread), s.ws[a]? = some x → 0 < holds x.pc → a = j :=
      fun a x hx hh => holder_unique s c a j x l hx hj hh (by simp [hp, holds])
    rlw
  | releaseLost j l m r hj hp hc hr => exact absurd c.cfgH (by simp [hc])

def MAcc (s : St) : Prop :=
  ∀ (j : Nat) (l : Thread) (e : Mem) (w : Thread), s.ws[j]? = some l → e ∈ l.members →
    s.ws[e.idx]? = some w → Rel j w l

theorem step_macc (s t : St) (h : Step s t) (c : CInv s)
    (h1 : ∀ (i : Nat) (w : Thread), s.ws[i]? = some w → Loc w) (tie : Tie s) (inv : MAcc s) : MAcc t := by
  intro j l' e w' hj' he hw'
  obtain ⟨l, hj, hm⟩ := step_members s t h j l' hj'
  have old : e ∈ l.members → Rel j w' l' := by
    intro he
    obtain ⟨w, hw, _⟩ := tie j l e hj he
    exact step_rel s t h c h1 e.idx j w l w' l' hw hj (inv j l e w hj he hw) hw' hj'
  rcases hm with hm | ⟨i, w, w2, hi, hq, hi', hq', hk', _, hrp, hmo, hm⟩
  · rw [hm] at he; exact old he
  · rw [hm] at he
    rcases List.mem_append.mp he with he | he
    · exact old he
    · simp only [List.mem_singleton] at he
      subst he
      simp only [memOf] at hw'
      rw [hi'] at hw'; cases hw'
      exact Or.inr ⟨hq', hrp⟩

theorem init_macc (s : St) (h : InitAny s) : MAcc s := by
  intro j l e w hj he
  have := h.2.2 l (List.mem_of_getElem? hj)
  rw [this.2.2.2.2.2.2.2.1] at he; cases he

end GoLevel.WP
