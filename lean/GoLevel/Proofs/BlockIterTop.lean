import GoLevel.Proofs.BlockIterRun
import GoLevel.Proofs.BlockIterBuild
/-!
# `blockIter` over `Block.build` output refines the cursor (whole block)
-/
namespace GoLevel.C13
open GoLevel

variable {b : BlockR} {kvs : List KV} {off : Nat → Nat} {R : Nat} {rs : Nat → Nat}
variable {cmp : Bytes → Bytes → Ordering}

/-- the whole block as a slice -/
theorem SliceCfg.whole (L : Layout b kvs off R rs) : SliceCfg kvs R rs 0 kvs.length 0 R where
  lohi := Nat.zero_le _
  hin := Nat.le_refl _
  q01 := L.rpos
  q1R := Nat.le_refl _
  q0lo := by rw [L.rs0]; exact Nat.le_refl _
  q0max := fun q h1 h2 => by have := L.rs_lt h1 h2; have := L.rs0; omega
  q1hi := L.rs_le_len (by have := L.rpos; omega)

theorem IsSlice.whole (kvs : List KV) : IsSlice kvs kvs 0 kvs.length where
  len := rfl
  get := fun i hi => by rw [Nat.zero_add]; exact getElem?_kv (by omega)

/-- a fresh unsliced iterator is at the start of the whole block -/
theorem rel_new (L : Layout b kvs off R rs) : Rel kvs off rs 0 kvs.length 0 R (BIter.new b) .soi where
  cfg := ⟨rfl, L.rlen, by rw [L.rs0, L.off0]; rfl, by rw [L.off0]; rfl, L.offN.symm⟩
  err := rfl
  pos := ⟨rfl, rfl, rfl⟩

/-- every call sequence on an unsliced `blockIter` over a well-formed block answers like the cursor -/
theorem run_whole (L : Layout b kvs off R rs) (hc : LawfulCmp cmp) (hsorted : StrictSorted cmp kvs)
    (cs : List (Call Bytes)) :
    BIter.run cmp b (newBlockIter cmp b none false) cs =
      (Cursor.run kvs (geK cmp) .soi cs).map fun o => (o.isSome, o) :=
  rel_run L hc hsorted (SliceCfg.whole L) (IsSlice.whole kvs) cs (rel_new L)

theorem exec_whole (L : Layout b kvs off R rs) (hc : LawfulCmp cmp) (hsorted : StrictSorted cmp kvs)
    (cs : List (Call Bytes)) : (BIter.exec cmp b (newBlockIter cmp b none false) cs).err = none :=
  rel_exec L hc hsorted (SliceCfg.whole L) (IsSlice.whole kvs) cs (rel_new L)

/-- … in particular over `Block.build` output -/
theorem run_build (hc : LawfulCmp cmp) (ri : Nat) (kvs : List KV) (hs : SmallKV kvs)
    (hsorted : StrictSorted cmp kvs) (hsz : (Block.build ri kvs).length < 2 ^ 32) (cs : List (Call Bytes)) :
    ∃ b, Block.read (Block.build ri kvs) = some b ∧
      BIter.run cmp b (newBlockIter cmp b none false) cs =
        (Cursor.run kvs (geK cmp) .soi cs).map fun o => (o.isSome, o) :=
  ⟨_, read_build_layout ri kvs hsz, run_whole (layout_build ri kvs hs hsz) hc hsorted cs⟩

end GoLevel.C13
