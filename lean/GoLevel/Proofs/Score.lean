import GoLevel.Model.Score
/-!
# `computeCompaction` picks the first level of maximal score; a score `≥ 1` names a non-empty level

Loop invariant of `scoreLoop` over `v.levels` (`Inv`): after `k` levels the best pair is a processed level with its own
score, no processed level has a larger score, and every level before it has a strictly smaller one.
-/
namespace GoLevel.Score
open GoLevel.Pick

/-- the sanitised options: `GetCompactionL0Trigger() > 0`, `GetCompactionTotalSize(level) > 0` -/
def ScoreOpts.Pos (o : ScoreOpts) : Prop := 0 < o.l0Trigger ∧ ∀ l, 0 < o.totalSize l

/-- the score of level `j` of `v` -/
def scoreAt (o : ScoreOpts) (v : Version) (j : Nat) : Frac := levelScore o j (lvlOf v j)

theorem levelScore_den_pos {o : ScoreOpts} (hp : o.Pos) (level : Nat) (ts : Level) : 0 < (levelScore o level ts).den := by
  unfold levelScore
  split
  · exact hp.1
  · exact hp.2 level

theorem scoreAt_den_pos {o : ScoreOpts} (hp : o.Pos) (v : Version) (j : Nat) : 0 < (scoreAt o v j).den :=
  levelScore_den_pos hp _ _

theorem Frac.lt_irrefl (a : Frac) : a.lt a = false := by
  simp [Frac.lt]

/-- `x ≤ s`, `s < t` ⟹ `x < t` (positive denominators) -/
theorem Frac.lt_of_le_of_lt {x s t : Frac} (hx : 0 < x.den) (h1 : s.lt x = false) (h2 : s.lt t = true) :
    x.lt t = true := by
  simp only [Frac.lt, decide_eq_false_iff_not, decide_eq_true_eq, Nat.not_lt] at *
  have a : x.num * s.den * t.den ≤ s.num * x.den * t.den := Nat.mul_le_mul_right _ h1
  have b : s.num * t.den * x.den < t.num * s.den * x.den := Nat.mul_lt_mul_of_pos_right h2 hx
  have c : x.num * t.den * s.den < t.num * x.den * s.den := by
    calc x.num * t.den * s.den = x.num * s.den * t.den := by rw [Nat.mul_right_comm]
      _ ≤ s.num * x.den * t.den := a
      _ = s.num * t.den * x.den := by rw [Nat.mul_right_comm]
      _ < t.num * s.den * x.den := b
      _ = t.num * x.den * s.den := by rw [Nat.mul_right_comm]
  exact Nat.lt_of_mul_lt_mul_right c

/-- `s < t` ⟹ `¬ t < s` -/
theorem Frac.not_lt_of_lt {s t : Frac} (h : s.lt t = true) : t.lt s = false := by
  simp only [Frac.lt, decide_eq_false_iff_not, decide_eq_true_eq, Nat.not_lt] at *
  omega

/-- `x ≤ s`, `s ≥ 1`… the other way round: `s ≤ b` and `s ≥ 1` ⟹ `b ≥ 1` (positive denominators) -/
theorem Frac.ge1_of_le {s b : Frac} (hs : 0 < s.den) (h1 : b.lt s = false) (h2 : s.ge1 = true) : b.ge1 = true := by
  simp only [Frac.lt, Frac.ge1, decide_eq_false_iff_not, decide_eq_true_eq, Nat.not_lt] at *
  -- h1 : s.num * b.den ≤ b.num * s.den ; h2 : s.den ≤ s.num
  have a : s.den * b.den ≤ s.num * b.den := Nat.mul_le_mul_right _ h2
  have b' : s.den * b.den ≤ b.num * s.den := Nat.le_trans a h1
  rw [Nat.mul_comm s.den b.den] at b'
  exact Nat.le_of_mul_le_mul_right b' hs

/-- the loop invariant after `k` levels -/
def Inv (o : ScoreOpts) (v : Version) (k : Nat) : Option (Nat × Frac) → Prop
  | none => k = 0
  | some (l, s) => l < k ∧ s = scoreAt o v l ∧ (∀ j, j < k → s.lt (scoreAt o v j) = false) ∧
      (∀ j, j < l → (scoreAt o v j).lt s = true)

theorem drop_cons_getElem? {α} {all : List α} {k : Nat} {t : α} {rest : List α} (h : all.drop k = t :: rest) :
    all[k]? = some t ∧ all.drop (k + 1) = rest ∧ k < all.length := by
  have h0 : (all.drop k)[0]? = some t := by rw [h]; rfl
  rw [List.getElem?_drop] at h0
  have h1 : (all.drop k).tail = rest := by rw [h]; rfl
  rw [List.tail_drop] at h1
  refine ⟨by simpa using h0, h1, ?_⟩
  have : (all.drop k).length = rest.length + 1 := by rw [h]; rfl
  rw [List.length_drop] at this
  omega

theorem scoreStep_inv {o : ScoreOpts} (hp : o.Pos) (v : Version) (k : Nat) (best : Option (Nat × Frac))
    (t : Level) (ht : v.levels[k]? = some t) (hi : Inv o v k best) : Inv o v (k + 1) (scoreStep o best k t) := by
  have hsk : levelScore o k t = scoreAt o v k := by
    unfold scoreAt lvlOf; rw [ht]; rfl
  cases best with
  | none =>
    have hk : k = 0 := hi
    subst hk
    show Inv o v 1 (some (0, levelScore o 0 t))
    refine ⟨by omega, hsk, ?_, ?_⟩
    · intro j hj
      have : j = 0 := by omega
      subst this
      rw [hsk]; exact Frac.lt_irrefl _
    · intro j hj; omega
  | some p =>
    obtain ⟨l, s⟩ := p
    obtain ⟨hl, hs, hmax, hfirst⟩ := hi
    unfold scoreStep
    by_cases hlt : s.lt (levelScore o k t) = true
    · simp only [hlt, if_true]
      refine ⟨by omega, hsk, ?_, ?_⟩
      · intro j hj
        by_cases hjk : j = k
        · subst hjk; rw [hsk]; exact Frac.lt_irrefl _
        · have hj' : j < k := by omega
          have h1 := hmax j hj'
          have := Frac.lt_of_le_of_lt (scoreAt_den_pos hp v j) h1 hlt
          exact Frac.not_lt_of_lt this
      · intro j hj
        exact Frac.lt_of_le_of_lt (scoreAt_den_pos hp v j) (hmax j hj) hlt
    · have hlt' : s.lt (levelScore o k t) = false := by
        cases h : s.lt (levelScore o k t) <;> simp_all
      simp only [hlt', Bool.false_eq_true, if_false]
      refine ⟨by omega, hs, ?_, hfirst⟩
      intro j hj
      by_cases hjk : j = k
      · subst hjk; rw [← hsk]; exact hlt'
      · exact hmax j (by omega)

theorem scoreLoop_inv {o : ScoreOpts} (hp : o.Pos) (v : Version) (ls : List Level) :
    ∀ (k : Nat) (best : Option (Nat × Frac)), k ≤ v.levels.length → v.levels.drop k = ls → Inv o v k best →
      Inv o v v.levels.length (scoreLoop o best k ls) := by
  induction ls with
  | nil =>
    intro k best hle hd hi
    have hk : v.levels.length ≤ k := by
      have := congrArg List.length hd
      rw [List.length_drop] at this
      simp at this; omega
    have hkk : v.levels.length = k := by omega
    unfold scoreLoop
    rw [hkk]; exact hi
  | cons t rest ih =>
    intro k best _ hd hi
    obtain ⟨hk, hrest, hlt⟩ := drop_cons_getElem? hd
    unfold scoreLoop
    exact ih (k + 1) _ (by omega) hrest (scoreStep_inv hp v k best t hk hi)

/-- what `computeCompaction` leaves, for every version -/
theorem computeCompaction_inv {o : ScoreOpts} (hp : o.Pos) (v : Version) :
    Inv o v v.levels.length (computeCompaction o v) :=
  scoreLoop_inv hp v v.levels 0 none (Nat.zero_le _) rfl rfl

theorem tSize_nil : tSize [] = 0 := rfl

/-- a level whose score is at least 1 holds a table -/
theorem scoreAt_ge1_nonempty {o : ScoreOpts} (hp : o.Pos) (v : Version) (l : Nat)
    (h : (scoreAt o v l).ge1 = true) : lvlOf v l ≠ [] := by
  intro he
  unfold scoreAt levelScore at h
  rw [he] at h
  have h1 := hp.1
  have h2 := hp.2 l
  split at h <;> simp [Frac.ge1, tSize_nil] at h <;> omega

end GoLevel.Score
