import GoLevel.Proofs.FilterP
import GoLevel.Proofs.TableR
/-! C13(f), reader half: `readFilterBlock` / `filterBlock.contains` on a written filter block. -/
namespace GoLevel.C13
open GoLevel GoLevel.TableAux

theorem flat_append (pol : FilterPolicy) (a b : List (List Bytes)) : flat pol (a ++ b) = flat pol a ++ flat pol b := by
  simp [flat]

/-- entry `i` of the offset array (with the trailing total) is the length of the first `i` filters -/
theorem offs_getElem? (pol : FilterPolicy) : ∀ (segs : List (List Bytes)) (base i : Nat), i ≤ segs.length →
    (offs pol segs base ++ [base + (flat pol segs).length])[i]? = some (base + (flat pol (segs.take i)).length) := by
  intro segs
  induction segs with
  | nil => intro base i hi; have : i = 0 := by simpa using hi
           subst this; simp [offs, flat]
  | cons s rest ih =>
    intro base i hi
    cases i with
    | zero => simp [offs, flat]
    | succ i =>
      have := ih (base + (segBytes pol s).length) i (by simpa using hi)
      simp only [offs, List.cons_append, List.getElem?_cons_succ, List.take_succ_cons]
      have e1 : base + (flat pol (s :: rest)).length = base + (segBytes pol s).length + (flat pol rest).length := by
        simp [flat]; omega
      have e2 : base + (flat pol (s :: rest.take i)).length = base + (segBytes pol s).length + (flat pol (rest.take i)).length := by
        simp [flat]; omega
      rw [e1, e2]; exact this

theorem flat_split (pol : FilterPolicy) (segs : List (List Bytes)) (i : Nat) (hi : i < segs.length) :
    flat pol segs = flat pol (segs.take i) ++ (segBytes pol (segs.getD i []) ++ flat pol (segs.drop (i + 1))) := by
  have h1 : segs = segs.take i ++ (segs.getD i [] :: segs.drop (i + 1)) := by
    have : segs.getD i [] = segs[i] := by simp [List.getD, List.getElem?_eq_getElem hi]
    rw [this, ← List.drop_eq_getElem_cons hi, List.take_append_drop]
  conv => lhs; rw [h1]
  rw [flat_append]
  simp [flat]

/-- `readFilterBlock` on a written filter block -/
theorem readFilterBlock_at {cksum : Bytes → Nat} (hck : Cksum32 cksum) (A C : Bytes) (pol : FilterPolicy) (lg : Nat)
    (segs : List (List Bytes)) (hlg : lg < 256) (hsz : (flat pol segs).length < 2 ^ 32) :
    readFilterBlock cksum (A ++ (withTrailer cksum (filterBlockBytes pol lg segs) ++ C))
        ⟨A.length, (filterBlockBytes pol lg segs).length⟩ =
      some ⟨filterBlockBytes pol lg segs, (flat pol segs).length, lg, segs.length⟩ := by
  unfold readFilterBlock
  rw [readRawBlock_at hck]
  simp only
  have hlen : (filterBlockBytes pol lg segs).length = (flat pol segs).length + 4 * (segs.length + 1) + 1 := by
    simp only [filterBlockBytes, List.length_append, flatMap_le32_length, offs_length, List.length_singleton]
  have h5 : ¬ ((filterBlockBytes pol lg segs).length < 5) := by omega
  simp only [h5, if_false]
  have hdrop : (filterBlockBytes pol lg segs).drop ((filterBlockBytes pol lg segs).length - 5) =
      le32 (flat pol segs).length ++ [lg.toUInt8] := by
    rw [hlen]
    simp only [filterBlockBytes, List.flatMap_append, List.flatMap_cons, List.flatMap_nil, List.append_nil,
      List.append_assoc]
    rw [← List.append_assoc, List.drop_left' (by
      simp only [List.length_append, flatMap_le32_length, offs_length]; omega)]
  rw [hdrop, rd32_le32 _ hsz]
  have : ¬ ((flat pol segs).length > (filterBlockBytes pol lg segs).length - 5) := by omega
  simp only [this, if_false]
  have hlast : (filterBlockBytes pol lg segs).drop ((filterBlockBytes pol lg segs).length - 1) = [lg.toUInt8] := by
    rw [hlen]
    simp only [filterBlockBytes]
    rw [List.drop_left' (by
      simp only [List.length_append, flatMap_le32_length, offs_length, List.length_singleton]; omega)]
  rw [hlast]
  simp only [List.headD_cons, toUInt8_toNat lg hlg]
  congr 2
  omega

/-- `Generate` writes at least one byte for a non-empty key set (true of the bloom filter; the reader takes an
empty filter to mean "no keys") -/
def GenNonempty (pol : FilterPolicy) : Prop := ∀ ks, ks ≠ [] → pol.generate ks ≠ []

/-- C13(f), reader half: `filterBlock.contains` for a data block at offset `o` consults exactly the filter number
`o >>> lg`, i.e. the one generated from the key list `segs[o >>> lg]` -/
theorem contains_written (pol : FilterPolicy) (lg : Nat) (segs : List (List Bytes)) (hsz : (flat pol segs).length < 2 ^ 32)
    (o : Nat) (key : Bytes) (hi : o >>> lg < segs.length) (hne : segBytes pol (segs.getD (o >>> lg) []) ≠ []) :
    (⟨filterBlockBytes pol lg segs, (flat pol segs).length, lg, segs.length⟩ : FilterBlockR).contains pol o key =
      pol.contains (segBytes pol (segs.getD (o >>> lg) [])) key := by
  generalize hidef : o >>> lg = i at hi hne ⊢
  unfold FilterBlockR.contains
  simp only [hidef, hi, if_true]
  -- the two offsets
  have hx0 := offs_getElem? pol segs 0 i (by omega)
  have hx1 := offs_getElem? pol segs 0 (i + 1) (by omega)
  simp only [Nat.zero_add] at hx0 hx1
  have hsplit := flat_split pol segs i hi
  have htake1 : (flat pol (segs.take (i + 1))).length =
      (flat pol (segs.take i)).length + (segBytes pol (segs.getD i [])).length := by
    have : segs.take (i + 1) = segs.take i ++ [segs.getD i []] := by
      have hg : segs.getD i [] = segs[i] := by simp [List.getD, List.getElem?_eq_getElem hi]
      rw [hg, List.take_succ_eq_append_getElem hi]
    rw [this, flat_append]; simp [flat]
  have hle : (flat pol (segs.take i)).length + (segBytes pol (segs.getD i [])).length ≤ (flat pol segs).length := by
    rw [hsplit]; simp only [List.length_append]; omega
  have hdrop : (filterBlockBytes pol lg segs).drop ((flat pol segs).length + i * 4) =
      le32 (flat pol (segs.take i)).length ++ (le32 (flat pol (segs.take (i + 1))).length ++
        (((offs pol segs 0 ++ [(flat pol segs).length]).drop (i + 2)).flatMap le32 ++ [lg.toUInt8])) := by
    simp only [filterBlockBytes, List.append_assoc]
    rw [List.drop_length_add_append, Nat.mul_comm i 4,
      List.drop_append_of_le_length (by
        rw [flatMap_le32_length, List.length_append, offs_length, List.length_singleton]; omega),
      flatMap_le32_drop]
    have hl : i + 1 < (offs pol segs 0 ++ [(flat pol segs).length]).length := by
      rw [List.length_append, offs_length, List.length_singleton]; omega
    have hd : (offs pol segs 0 ++ [(flat pol segs).length]).drop i =
        (flat pol (segs.take i)).length :: (flat pol (segs.take (i + 1))).length ::
          (offs pol segs 0 ++ [(flat pol segs).length]).drop (i + 2) := by
      rw [List.drop_eq_getElem_cons (by omega), List.drop_eq_getElem_cons hl]
      have g0 := List.getElem?_eq_getElem (l := offs pol segs 0 ++ [(flat pol segs).length]) (i := i) (by omega)
      have g1 := List.getElem?_eq_getElem (l := offs pol segs 0 ++ [(flat pol segs).length]) (i := i + 1) hl
      rw [hx0] at g0; rw [hx1] at g1
      simp only [Option.some.injEq] at g0 g1
      rw [← g0, ← g1]
    rw [hd]
    simp only [List.flatMap_cons, List.append_assoc]
  rw [hdrop, rd32_le32 _ (by omega)]
  have h4 : (le32 (flat pol (segs.take i)).length).length = 4 := leN_length 4 _
  rw [List.drop_left' h4, rd32_le32 _ (by omega), htake1]
  have hpos : 0 < (segBytes pol (segs.getD i [])).length := List.length_pos_iff.mpr hne
  have hc : (flat pol (segs.take i)).length < (flat pol (segs.take i)).length + (segBytes pol (segs.getD i [])).length ∧
      (flat pol (segs.take i)).length + (segBytes pol (segs.getD i [])).length ≤ (flat pol segs).length := ⟨by omega, hle⟩
  simp only [hc, and_self, if_true]
  congr 1
  simp only [filterBlockBytes, List.append_assoc]
  conv => lhs; rw [hsplit]
  simp only [List.append_assoc]
  rw [List.drop_left, Nat.add_sub_cancel_left, List.take_left' rfl]

end GoLevel.C13
