import GoLevel.Proofs.CacheRef
/-! Invariant of the cache system, part 4: the LRU list (`recent` = the nodes whose `CacheData` is a listed
`lruNode`, without repetition) and its charge (`used = Σ size ≤ capacity`). -/
namespace GoLevel.CacheM

set_option linter.unusedSimpArgs false

theorem inList_iff_mem_map {ns : List Node} {id : Nat} :
    (∃ n ∈ ns, n.id = id ∧ n.lru = .inList) ↔ (id, LruSt.inList) ∈ ns.map (fun n => (n.id, n.lru)) := by
  simp only [List.mem_map, Prod.mk.injEq]

theorem nodup_reverse_iff {l : List Nat} : l.reverse.Nodup ↔ l.Nodup :=
  (List.reverse_perm l).nodup_iff

theorem inList_congr {ns ns' : List Node}
    (hm : ns'.map (fun n => (n.id, n.lru)) = ns.map (fun n => (n.id, n.lru))) (id : Nat) :
    (∃ n ∈ ns', n.id = id ∧ n.lru = .inList) ↔ (∃ n ∈ ns, n.id = id ∧ n.lru = .inList) := by
  rw [inList_iff_mem_map, inList_iff_mem_map, hm]

theorem upd_map_idlru {ns : List Node} {id : Nat} {f : Node → Node} (hf : ∀ n, (f n).id = n.id ∧ (f n).lru = n.lru) :
    (upd ns id f).map (fun n => (n.id, n.lru)) = ns.map (fun n => (n.id, n.lru)) := by
  unfold upd; simp only [List.map_map]; apply List.map_congr_left; intro n _
  simp only [Function.comp]; split <;> simp [hf]

/-- Changing the LRU state of node `j` away from `inList`. -/
theorem inList_upd_off {ns : List Node} {j id : Nat} {f : Node → Node}
    (hf : ∀ n, (f n).id = n.id ∧ (f n).lru ≠ .inList) :
    (∃ n ∈ upd ns j f, n.id = id ∧ n.lru = .inList) ↔ (id ≠ j ∧ ∃ n ∈ ns, n.id = id ∧ n.lru = .inList) := by
  constructor
  · rintro ⟨n, hn, h1, h2⟩
    obtain ⟨m, hm, rfl⟩ := mem_upd.mp hn
    by_cases hmj : m.id = j
    · simp only [hmj, if_true] at h1 h2; exact absurd h2 (hf m).2
    · simp only [hmj, if_false] at h1 h2; exact ⟨by omega, m, hm, h1, h2⟩
  · rintro ⟨hne, n, hn, h1, h2⟩
    refine ⟨n, mem_upd.mpr ⟨n, hn, ?_⟩, h1, h2⟩
    have : ¬ n.id = j := by omega
    simp [this]

/-- Setting the LRU state of node `j` to `inList`. -/
theorem inList_upd_on {ns : List Node} {j id : Nat} {f : Node → Node}
    (hf : ∀ n, (f n).id = n.id ∧ (f n).lru = .inList) (hj : ∃ n ∈ ns, n.id = j) :
    (∃ n ∈ upd ns j f, n.id = id ∧ n.lru = .inList) ↔ (id = j ∨ ∃ n ∈ ns, n.id = id ∧ n.lru = .inList) := by
  constructor
  · rintro ⟨n, hn, h1, h2⟩
    obtain ⟨m, hm, rfl⟩ := mem_upd.mp hn
    by_cases hmj : m.id = j
    · simp only [hmj, if_true, (hf m).1] at h1; left; omega
    · simp only [hmj, if_false] at h1 h2; exact Or.inr ⟨m, hm, h1, h2⟩
  · rintro (rfl | ⟨n, hn, h1, h2⟩)
    · obtain ⟨n, hn, hnid⟩ := hj
      refine ⟨f n, mem_upd.mpr ⟨n, hn, by simp [hnid]⟩, ?_, (hf n).2⟩
      rw [(hf n).1, hnid]
    · by_cases hnj : n.id = j
      · refine ⟨f n, mem_upd.mpr ⟨n, hn, by simp [hnj]⟩, ?_, (hf n).2⟩
        rw [(hf n).1]; exact h1
      · exact ⟨n, mem_upd.mpr ⟨n, hn, by simp [hnj]⟩, h1, h2⟩

theorem inList_clearLru {ns : List Node} {ev : List Nat} {id : Nat} :
    (∃ n ∈ clearLru ns ev, n.id = id ∧ n.lru = .inList) ↔ (id ∉ ev ∧ ∃ n ∈ ns, n.id = id ∧ n.lru = .inList) := by
  constructor
  · rintro ⟨n, hn, h1, h2⟩
    obtain ⟨m, hm, hid, _, _, _, _, _, hl⟩ := mem_clearLru_proj hn
    rcases hl with ⟨hl, hnot⟩ | ⟨hl, _⟩
    · exact ⟨by rw [← h1, hid]; exact hnot, m, hm, by omega, by rw [← hl]; exact h2⟩
    · rw [hl] at h2; cases h2
  · rintro ⟨hnot, n, hn, h1, h2⟩
    refine ⟨n, mem_clearLru.mpr ⟨n, hn, ?_⟩, h1, h2⟩
    have : ¬ n.id ∈ ev := by rw [h1]; exact hnot
    simp [this]

theorem evictTail_nodup {ns : List Node} {cap : Nat} {l : List Nat} {used : Nat} (h : l.Nodup) :
    (evictTail ns cap l used).1.Nodup ∧
    ∀ id, id ∈ (evictTail ns cap l used).1 ↔ id ∈ l ∧ id ∉ (evictTail ns cap l used).2.2.1 := by
  have hs := evictTail_split ns cap l used
  rw [← hs] at h
  have hn := List.nodup_append.mp h
  refine ⟨hn.2.1, fun id => ?_⟩
  constructor
  · intro hid
    refine ⟨by rw [← hs]; exact List.mem_append_right _ hid, fun hev => ?_⟩
    exact hn.2.2 id hev id hid rfl
  · rintro ⟨hid, hnot⟩
    rw [← hs] at hid
    rcases List.mem_append.mp hid with h1 | h1
    · exact absurd h1 hnot
    · exact h1

theorem lr_promote {g sh Q log sh' pid push evs} (h : InvP g sh (Instr.promote pid :: Q) log)
    (he : execPromote sh pid = some (sh', push, evs)) :
    sh'.lru.recent.Nodup ∧ ∀ id, id ∈ sh'.lru.recent ↔ ∃ n ∈ sh'.nodes, n.id = id ∧ n.lru = .inList := by
  have hlr := h.lr
  unfold execPromote at he
  split at he
  · simp at he; obtain ⟨rfl, rfl, rfl⟩ := he; exact hlr
  · rename_i n0 hfind
    have hfs := findId_some hfind
    split at he
    · rename_i hnone
      split at he
      · simp only [Option.some.injEq, Prod.mk.injEq] at he
        obtain ⟨rfl, rfl, rfl⟩ := he
        have hnotin : pid ∉ sh.lru.recent := by
          intro hmem
          obtain ⟨m, hm, hmid, hml⟩ := (hlr.2 pid).mp hmem
          have := findId_of_mem h.ids.1 hm
          rw [hmid, hfind] at this
          simp only [Option.some.injEq] at this
          subst this; rw [hnone] at hml; cases hml
        have hnd : (pid :: sh.lru.recent).reverse.Nodup := by
          rw [nodup_reverse_iff]; exact List.nodup_cons.mpr ⟨hnotin, hlr.1⟩
        have hE := evictTail_nodup (ns := upd sh.nodes pid fun n => { n with ref := n.ref + 1, lru := .inList })
          (cap := sh.lru.capacity) (used := sh.lru.used + n0.size) hnd
        refine ⟨nodup_reverse_iff.mpr hE.1, fun id => ?_⟩
        simp only [List.mem_reverse]
        rw [hE.2 id, inList_clearLru,
          inList_upd_on (f := fun n => { n with ref := n.ref + 1, lru := .inList }) (fun _ => ⟨rfl, rfl⟩)
            ⟨n0, hfs.1, hfs.2⟩]
        simp only [List.mem_reverse, List.mem_cons, hlr.2 id]
        constructor
        · rintro ⟨h1, h2⟩; exact ⟨h2, h1⟩
        · rintro ⟨h1, h2⟩; exact ⟨h2, h1⟩
      · simp at he; obtain ⟨rfl, rfl, rfl⟩ := he; exact hlr
    · rename_i hin
      simp at he; obtain ⟨rfl, rfl, rfl⟩ := he
      have hmem : pid ∈ sh.lru.recent := (hlr.2 pid).mpr ⟨n0, hfs.1, hfs.2, hin⟩
      refine ⟨List.nodup_cons.mpr ⟨fun hm => ?_, hlr.1.erase pid⟩, fun id => ?_⟩
      · exact (List.Nodup.mem_erase_iff hlr.1).mp hm |>.1 rfl
      · simp only [List.mem_cons]
        rw [← hlr.2 id, List.Nodup.mem_erase_iff hlr.1]
        constructor
        · rintro (rfl | ⟨_, h2⟩)
          · exact hmem
          · exact h2
        · intro h1
          by_cases hid : id = pid
          · exact Or.inl hid
          · exact Or.inr ⟨hid, h1⟩
    · simp at he; obtain ⟨rfl, rfl, rfl⟩ := he; exact hlr

theorem lr_setcap {g sh Q log sh' c push evs} (h : InvP g sh (Instr.setcap c :: Q) log)
    (he : execSetcap sh c = some (sh', push, evs)) :
    sh'.lru.recent.Nodup ∧ ∀ id, id ∈ sh'.lru.recent ↔ ∃ n ∈ sh'.nodes, n.id = id ∧ n.lru = .inList := by
  have hlr := h.lr
  unfold execSetcap at he
  simp only [Option.some.injEq, Prod.mk.injEq] at he
  obtain ⟨rfl, rfl, rfl⟩ := he
  have hE := evictTail_nodup (ns := sh.nodes) (cap := c) (used := sh.lru.used) (nodup_reverse_iff.mpr hlr.1)
  refine ⟨nodup_reverse_iff.mpr hE.1, fun id => ?_⟩
  simp only [List.mem_reverse]
  rw [hE.2 id, inList_clearLru]
  simp only [List.mem_reverse, hlr.2 id]
  constructor
  · rintro ⟨h1, h2⟩; exact ⟨h2, h1⟩
  · rintro ⟨h1, h2⟩; exact ⟨h2, h1⟩

/-- A node whose counter is zero is not on the LRU list (which would hold a reference). -/
theorem not_inList_of_ref_zero {g sh P log} (h : InvP g sh P log) (hf : sh.forced = false)
    {n : Node} (hn : n ∈ sh.nodes) (h0 : n.ref = 0) : n.id ∉ sh.lru.recent := by
  intro hmem
  have := h.rc hf n hn
  have hc := List.count_pos_iff.mpr hmem
  simp only [refsP] at this
  omega

theorem found_unique {ns : List Node} (hnd : (ns.map (·.id)).Nodup) {j : Nat} {n0 m : Node}
    (hf : findId ns j = some n0) (hm : m ∈ ns) (hmj : m.id = j) : m = n0 := by
  have := findId_of_mem hnd hm
  rw [hmj, hf] at this
  exact (Option.some.inj this).symm

theorem lr_step {g sh Q log sh' i push evs} (h : InvP g sh (i :: Q) log)
    (he : exec sh i = some (sh', push, evs)) :
    sh'.lru.recent.Nodup ∧ ∀ id, id ∈ sh'.lru.recent ↔ ∃ n ∈ sh'.nodes, n.id = id ∧ n.lru = .inList := by
  have hlr := h.lr
  have hopf : sh.closed = false → sh.forced = false := fun hc => (h.op hc).2
  cases i
  case promote id => exact lr_promote h he
  case setcap c => exact lr_setcap h he
  all_goals exec_split he
  all_goals (try simp only [])
  all_goals first
    | exact hlr
    | (refine ⟨hlr.1, fun id => ?_⟩
       rw [hlr.2 id]
       refine (inList_congr ?_ id).symm
       simp [upd_map_idlru]; done)
    | (refine ⟨hlr.1, fun id => ?_⟩
       rw [hlr.2 id]; simp; done)
    | (-- `Ban`/`Evict` of a listed node
       have hfs := findId_some (by assumption)
       refine ⟨hlr.1.erase _, fun id => ?_⟩
       rw [List.Nodup.mem_erase_iff hlr.1, hlr.2 id]
       first
        | rw [inList_upd_off (f := fun n => { n with lru := .banned }) (fun _ => ⟨rfl, by simp⟩)]
        | rw [inList_upd_off (f := fun n => { n with lru := .none }) (fun _ => ⟨rfl, by simp⟩)])
    | (-- `Ban` of an unlisted node
       rename_i n0 hfind _ hnone
       refine ⟨hlr.1, fun id => ?_⟩
       rw [hlr.2 id, inList_upd_off (f := fun n => { n with lru := .banned }) (fun _ => ⟨rfl, by simp⟩)]
       constructor
       · rintro ⟨m, hm, hmid, hml⟩
         refine ⟨?_, m, hm, hmid, hml⟩
         rintro rfl
         have := found_unique h.ids.1 hfind hm hmid
         subst this; rw [hnone] at hml; cases hml
       · rintro ⟨_, h2⟩; exact h2)
    | (-- `mBucket.delete` removes a node whose counter is zero
       have hfs := findKey_some (by assumption)
       have hnot := not_inList_of_ref_zero h (hopf (by simpa using ‹¬sh.closed = true›)) hfs.1 (by assumption)
       refine ⟨hlr.1, fun id => ?_⟩
       constructor
       · intro hid
         obtain ⟨m, hm, hmid, hml⟩ := (hlr.2 id).mp hid
         refine ⟨m, mem_eraseId.mpr ⟨hm, ?_⟩, hmid, hml⟩
         intro heq; rw [hmid] at heq; subst heq; exact hnot hid
       · rintro ⟨m, hm, hmid, hml⟩
         exact (hlr.2 id).mpr ⟨m, (mem_eraseId.mp hm).1, hmid, hml⟩)

end GoLevel.CacheM
