import GoLevel.Proofs.DurableCreate
/-!
Transactions on the durable machine (for C11): what a crash image can hold of an open transaction, and what
`Discard` leaves behind.
-/
namespace GoLevel.Dur

/-- the invariant of the disk with the issued groups cut down to those satisfying `P`, if everything an admissible
    view can deliver — the groups of its live tables, the records of the journals it replays — satisfies `P` -/
theorem DiskOK.restrict_issued {cfg : Cfg} {d : Disk} {must issued : List Grp} (h : DiskOK cfg d must issued)
    (P : Grp → Bool)
    (hP : AllViews cfg d fun v => (∀ g ∈ liveGrps d v, P g = true) ∧
      ∀ p ∈ relJournals d v.jn, ∀ g ∈ p.2.all, P g = true) :
    DiskOK cfg d must (issued.filter P) := by
  obtain ⟨a, b, c, hr⟩ := h
  refine ⟨a, b, c, ?_⟩
  rw [holds_iff] at hr ⊢
  obtain ⟨mf, hmf, hr⟩ := hr
  refine ⟨mf, hmf, ?_⟩
  rw [holds_iff] at hr ⊢
  obtain ⟨v0, hv0, hrange, hasc, hord⟩ := hr
  refine ⟨v0, hv0, ?_, hasc, hord⟩
  intro k hk
  have := hrange k hk
  rw [holds_iff] at this ⊢
  obtain ⟨v, hv, hok, hmono⟩ := this
  obtain ⟨p1, p2⟩ := hP mf hmf k hk v hv
  refine ⟨v, hv, ⟨hok.tables, fun g hg => ?_, hok.tdisj, fun p hp g hg => ?_, hok.tj, hok.cover, hok.jnf⟩, hmono⟩
  · obtain ⟨x, y, z⟩ := hok.tseq g hg
    exact ⟨x, List.mem_filter.2 ⟨y, p1 g hg⟩, z⟩
  · obtain ⟨x, y⟩ := hok.jseq p hp g hg
    exact ⟨x, List.mem_filter.2 ⟨y, p2 p hp g hg⟩⟩

/-- while a transaction is open and its commit record has not been written (also not by an append that reported an
    error: `St.limbo`), everything on the storage lies at or below `db.seq` -/
theorem Inv.tr_storage_bound {cfg : Cfg} {s : St} {d : Disk} (h : Inv cfg s d) {g : Grp} (hg : s.tr = some g)
    (hjob : Holds' s.job fun j => j.pc.beforeCommit = true) (hl : s.limbo = none) :
    AllViews cfg d fun v => (∀ x ∈ liveGrps d v, x.fin ≤ s.seq + 1) ∧
      ∀ p ∈ relJournals d v.jn, ∀ x ∈ p.2.all, x.fin ≤ s.seq + 1 := by
  have hph := h.tr_running hg
  have hrun := h.run hph
  have hb := h.bounds (by rw [hph]; decide)
  have htr := hrun.norecov.2
  unfold TrOK at htr
  rw [hg] at htr
  obtain ⟨hw, hmem, _, _, _⟩ : s.w = .idle ∧ s.mem = [] ∧ s.frozen = none ∧ g.seq = s.seq + 1 ∧ g.sync = true := htr
  have hntw : ¬ TrWindow s := by
    cases hj : s.job with
    | none => exact not_trWindow_of_nojob hj
    | some j => rw [hj] at hjob; exact not_trWindow_of_bc hj hjob hl
  have hold := rel_groups_old h.disk hrun (by rw [hw]; rfl) (by rw [hmem]; intro x hx; cases hx)
  intro mf hc k hk v hv
  refine ⟨fun x hx => ?_, hold mf hc k hk v hv⟩
  have h1 := ((h.disk.allViews mf hc k hk v hv).tseq x hx).1
  have h2 := (hb.all mf hc k hk v hv).1
  rw [seqHi_eq hntw] at h2
  omega

/-- … so no crash image delivers an entry of the open transaction -/
theorem Inv.tr_invisible {cfg : Cfg} (hn : cfg.failedRecordLeavesNoTrace = true) {s : St} {d : Disk}
    (h : Inv cfg s d) {g : Grp} (hg : s.tr = some g)
    (hjob : Holds' s.job fun j => j.pc.beforeCommit = true) (hl : s.limbo = none) (ch : CrashChoice) :
    ∃ r, recoverR cfg (crashWith ch d) = .ok r ∧ GoodOpen (must s) (issuedGrps s) r ∧
      ∀ x ∈ r.grps, x.fin ≤ g.seq := by
  have hph := h.tr_running hg
  have htr := (h.run hph).norecov.2
  unfold TrOK at htr
  rw [hg] at htr
  have hgs : g.seq = s.seq + 1 := htr.2.2.2.1
  have hb := h.tr_storage_bound hg hjob hl
  have hd := h.disk.restrict_issued (fun x => decide (x.fin ≤ s.seq + 1)) (fun mf hc k hk v hv =>
    ⟨fun x hx => by simpa using (hb mf hc k hk v hv).1 x hx,
     fun p hp x hx => by simpa using (hb mf hc k hk v hv).2 p hp x hx⟩)
  obtain ⟨r, hrec, hgood⟩ := (hd.crash hn ch).open_ok
  obtain ⟨r', hrec', hgood'⟩ := (h.disk.crash hn ch).open_ok
  rw [hrec] at hrec'
  cases hrec'
  refine ⟨r, hrec, hgood', fun x hx => ?_⟩
  have := (List.mem_filter.1 (hgood.only x hx)).2
  have : x.fin ≤ s.seq + 1 := by simpa using this
  omega

/-- removing the tables of `outs` one by one leaves none of them -/
theorem lookup_remove_all (outs : List (Nat × List Grp)) (d : Disk) :
    ∀ o ∈ outs, lookup (outs.foldl (fun d o => d.apply (.remove .table o.1)) d).tables o.1 = none := by
  induction outs generalizing d with
  | nil => intro o ho; cases ho
  | cons p ps ih =>
    intro o ho
    simp only [List.foldl_cons]
    rcases List.mem_cons.1 ho with rfl | ho'
    · -- removed first, and never created again
      have key : ∀ (l : List (Nat × List Grp)) (d0 : Disk), lookup d0.tables o.1 = none →
          lookup (l.foldl (fun d o => d.apply (.remove .table o.1)) d0).tables o.1 = none := by
        intro l
        induction l with
        | nil => intro d0 h0; exact h0
        | cons q qs ihq =>
          intro d0 h0
          simp only [List.foldl_cons]
          apply ihq
          show lookup (d0.tables.erase q.1) o.1 = none
          rw [lookup_erase]
          split
          · rfl
          · exact h0
      apply key
      show lookup (d.tables.erase o.1) o.1 = none
      rw [lookup_erase, if_pos rfl]
    · exact ih _ o ho'

/-- … and touches nothing but tables -/
theorem remove_all_frame (outs : List (Nat × List Grp)) (d : Disk) :
    (outs.foldl (fun d o => d.apply (.remove .table o.1)) d).journals = d.journals ∧
    (outs.foldl (fun d o => d.apply (.remove .table o.1)) d).manifests = d.manifests ∧
    (outs.foldl (fun d o => d.apply (.remove .table o.1)) d).current = d.current := by
  induction outs generalizing d with
  | nil => exact ⟨rfl, rfl, rfl⟩
  | cons o os ih =>
    simp only [List.foldl_cons]
    obtain ⟨a, b, c⟩ := ih (d.apply (.remove .table o.1))
    exact ⟨a.trans rfl, b.trans rfl, c.trans rfl⟩

end GoLevel.Dur
