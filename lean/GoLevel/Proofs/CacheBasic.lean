import GoLevel.Model.Cache
/-! Helper lemmas for the cache model (C17): node list operations, the eviction loop, pending instructions. -/
namespace GoLevel.CacheM

/-! ### pending instructions under a thread step -/

theorem flatten_set_perm {α : Type} (ts : List (List α)) (t : Nat) (i : α) (rest push : List α)
    (h : ts[t]? = some (i :: rest)) :
    (i :: (ts.set t (push ++ rest)).flatten).Perm (push ++ ts.flatten) := by
  induction ts generalizing t with
  | nil => simp at h
  | cons a ts ih =>
    cases t with
    | zero =>
      simp at h
      subst h
      simp only [List.set_cons_zero, List.flatten_cons]
      -- i :: (push ++ rest ++ F) ~ push ++ (i :: rest ++ F)
      have : (i :: (push ++ rest ++ ts.flatten)).Perm (push ++ (i :: (rest ++ ts.flatten))) := by
        rw [List.append_assoc]
        exact (List.perm_middle).symm
      simpa using this
    | succ t =>
      simp at h
      have := ih t h
      simp only [List.set_cons_succ, List.flatten_cons]
      -- i :: (a ++ X) ~ push ++ (a ++ F), given i :: X ~ push ++ F
      have h1 : (i :: (a ++ (ts.set t (push ++ rest)).flatten)).Perm (a ++ i :: (ts.set t (push ++ rest)).flatten) :=
        (List.perm_middle).symm
      have h2 : (a ++ i :: (ts.set t (push ++ rest)).flatten).Perm (a ++ (push ++ ts.flatten)) :=
        List.Perm.append_left a this
      have h3 : (a ++ (push ++ ts.flatten)).Perm (push ++ (a ++ ts.flatten)) := by
        rw [← List.append_assoc, ← List.append_assoc]
        exact List.Perm.append_right _ List.perm_append_comm
      exact h1.trans (h2.trans h3)

theorem mem_of_getElem?_flatten {α : Type} (ts : List (List α)) (t : Nat) (l : List α) (x : α)
    (h : ts[t]? = some l) (hx : x ∈ l) : x ∈ ts.flatten := by
  rw [List.mem_flatten]
  exact ⟨l, List.mem_of_getElem? h, hx⟩

/-! ### node list operations -/

theorem findId_some {ns : List Node} {id : Nat} {n : Node} (h : findId ns id = some n) :
    n ∈ ns ∧ n.id = id := by
  unfold findId at h
  have h1 := List.mem_of_find?_eq_some h
  have h2 := List.find?_some h
  simp at h2
  exact ⟨h1, h2⟩

theorem findId_none {ns : List Node} {id : Nat} (h : findId ns id = none) : ∀ n ∈ ns, n.id ≠ id := by
  unfold findId at h
  intro n hn
  have := List.find?_eq_none.mp h n hn
  simpa using this

theorem findKey_some {ns : List Node} {k : Key} {n : Node} (h : findKey ns k = some n) :
    n ∈ ns ∧ n.key = k := by
  unfold findKey at h
  have h1 := List.mem_of_find?_eq_some h
  have h2 := List.find?_some h
  simp at h2
  exact ⟨h1, h2⟩

theorem findKey_none {ns : List Node} {k : Key} (h : findKey ns k = none) : ∀ n ∈ ns, n.key ≠ k := by
  unfold findKey at h
  intro n hn
  have := List.find?_eq_none.mp h n hn
  simpa using this

/-- With distinct ids, `findId` finds exactly the member with that id. -/
theorem findId_of_mem {ns : List Node} (hnd : (ns.map (·.id)).Nodup) {n : Node} (hn : n ∈ ns) :
    findId ns n.id = some n := by
  induction ns with
  | nil => cases hn
  | cons a ns ih =>
    simp only [List.map_cons, List.nodup_cons] at hnd
    unfold findId
    simp only [List.find?_cons]
    by_cases ha : a.id = n.id
    · simp [ha]
      rcases List.mem_cons.mp hn with h | h
      · exact h.symm
      · exfalso; apply hnd.1; rw [ha]; exact List.mem_map_of_mem h
    · have hf : (a.id == n.id) = false := by simp [ha]
      simp only [hf]
      rcases List.mem_cons.mp hn with h | h
      · exact absurd (h ▸ rfl) ha
      · exact ih hnd.2 h

theorem mem_upd {ns : List Node} {id : Nat} {f : Node → Node} {m : Node} :
    m ∈ upd ns id f ↔ ∃ n ∈ ns, m = if n.id = id then f n else n := by
  unfold upd; simp [List.mem_map, eq_comm]

theorem upd_map_id {ns : List Node} {id : Nat} {f : Node → Node} (hf : ∀ n, (f n).id = n.id) :
    (upd ns id f).map (·.id) = ns.map (·.id) := by
  unfold upd; simp only [List.map_map]; apply List.map_congr_left; intro n _
  simp only [Function.comp]; split <;> simp [hf]

theorem upd_map_key {ns : List Node} {id : Nat} {f : Node → Node} (hf : ∀ n, (f n).key = n.key) :
    (upd ns id f).map (·.key) = ns.map (·.key) := by
  unfold upd; simp only [List.map_map]; apply List.map_congr_left; intro n _
  simp only [Function.comp]; split <;> simp [hf]

theorem upd_length {ns : List Node} {id : Nat} {f : Node → Node} : (upd ns id f).length = ns.length := by
  unfold upd; simp

theorem mem_eraseId {ns : List Node} {id : Nat} {m : Node} : m ∈ eraseId ns id ↔ m ∈ ns ∧ m.id ≠ id := by
  unfold eraseId; simp [List.mem_filter]

theorem mem_clearLru {ns : List Node} {ev : List Nat} {m : Node} :
    m ∈ clearLru ns ev ↔ ∃ n ∈ ns, m = if n.id ∈ ev then { n with lru := .none } else n := by
  unfold clearLru; simp [List.mem_map, eq_comm]

theorem clearLru_map_id {ns : List Node} {ev : List Nat} : (clearLru ns ev).map (·.id) = ns.map (·.id) := by
  unfold clearLru; simp only [List.map_map]; apply List.map_congr_left; intro n _
  simp only [Function.comp]; split <;> rfl

theorem clearLru_map_key {ns : List Node} {ev : List Nat} : (clearLru ns ev).map (·.key) = ns.map (·.key) := by
  unfold clearLru; simp only [List.map_map]; apply List.map_congr_left; intro n _
  simp only [Function.comp]; split <;> rfl

/-- `sizeOf` only depends on the (id, size) pairs. -/
theorem sizeOf_congr {ns ns' : List Node}
    (h : ns'.map (fun n => (n.id, n.size)) = ns.map (fun n => (n.id, n.size))) (id : Nat) :
    sizeOf ns' id = sizeOf ns id := by
  unfold sizeOf findId
  induction ns generalizing ns' with
  | nil => cases ns' <;> simp_all
  | cons a ns ih =>
    cases ns' with
    | nil => simp at h
    | cons b ns' =>
      simp only [List.map_cons, List.cons.injEq, Prod.mk.injEq] at h
      simp only [List.find?_cons, h.1.1]
      by_cases hb : a.id = id
      · simp [hb, h.1.2]
      · have hf : (a.id == id) = false := by simp [hb]
        simp only [hf]; exact ih h.2

theorem sizeOf_mem {ns : List Node} (hnd : (ns.map (·.id)).Nodup) {n : Node} (hn : n ∈ ns) :
    sizeOf ns n.id = n.size := by
  unfold sizeOf; rw [findId_of_mem hnd hn]

/-! ### the eviction loop -/

theorem evictTail_split (ns : List Node) (cap : Nat) (l : List Nat) (used : Nat) :
    (evictTail ns cap l used).2.2.1 ++ (evictTail ns cap l used).1 = l := by
  induction l generalizing used with
  | nil => simp [evictTail]
  | cons id rest ih =>
    unfold evictTail
    split
    · simp [ih]
    · simp

/-- The loop keeps `used = Σ size(remaining)` and ends with `used ≤ capacity` unless it hit the sentinel. -/
theorem evictTail_used (ns : List Node) (cap : Nat) (l : List Nat) (used : Nat)
    (h : used = (l.map (sizeOf ns)).sum) :
    (evictTail ns cap l used).2.1 = ((evictTail ns cap l used).1.map (sizeOf ns)).sum ∧
    (evictTail ns cap l used).2.1 ≤ cap ∧ (evictTail ns cap l used).2.2.2 = false := by
  induction l generalizing used with
  | nil => simp [evictTail] at *; omega
  | cons id rest ih =>
    unfold evictTail
    split
    · have := ih (used - sizeOf ns id) (by simp at h; omega)
      simpa using this
    · simp at *; omega

end GoLevel.CacheM
