import GoLevel.Proofs.JournalRoundtrip
/-! The writer machine refines `encode`. -/
namespace GoLevel.Journal
open GoLevel.Gen (journalBlockSize journalHeaderSize fullChunkType firstChunkType middleChunkType lastChunkType)

local notation "blockSize" => journalBlockSize
local notation "headerSize" => journalHeaderSize

/-! ### append-only at the level of records -/

theorem encodeFrom_append (pos : Nat) (rs rs' : List Bytes) :
    encodeFrom pos (rs ++ rs') = encodeFrom pos rs ++ encodeFrom (endPos pos rs) rs' := by
  induction rs generalizing pos with
  | nil => simp [encodeFrom, endPos]
  | cons r rs ih => simp [encodeFrom, endPos, ih]

theorem endPos_append (pos : Nat) (rs rs' : List Bytes) :
    endPos pos (rs ++ rs') = endPos (endPos pos rs) rs' := by
  induction rs generalizing pos with
  | nil => simp [endPos]
  | cons r rs ih => simp [endPos, ih]

/-! ### chunks of the record in progress -/

/-- the chunks still to be produced for the current record when the pending chunk header is at in-block
    offset `i` and `x` is the payload from that chunk on -/
def chunksAt (i : Nat) (first : Bool) (x : Bytes) : Bytes × Nat :=
  if first then emitChunks i x else restChunks x

theorem chunksAt_last (i : Nat) (first : Bool) (c : Bytes) (h : i + headerSize + c.length ≤ blockSize)
    (h0 : first = false → i = 0) :
    chunksAt i first c = (chunk (chunkType first true) c, i + headerSize + c.length) := by
  cases first
  · simp only [chunksAt, Bool.false_eq_true, if_false]
    have := h0 rfl; subst this
    rw [restChunks, if_pos (by omega)]; simp
  · simp only [chunksAt, if_true, emitChunks]
    rw [if_pos (by omega)]

theorem chunksAt_split (i : Nat) (first : Bool) (c q : Bytes) (h : i + headerSize + c.length = blockSize)
    (hq : q ≠ []) (h0 : first = false → i = 0) :
    chunksAt i first (c ++ q) = (chunk (chunkType first false) c ++ (restChunks q).1, (restChunks q).2) := by
  have hql : 0 < q.length := List.length_pos_iff.mpr hq
  cases first
  · simp only [chunksAt, Bool.false_eq_true, if_false]
    have := h0 rfl; subst this
    have e : blockSize - headerSize = c.length := by omega
    rw [restChunks, if_neg (by simp only [List.length_append]; omega)]
    simp only [e, List.take_left', List.drop_left']
  · simp only [chunksAt, if_true, emitChunks]
    have e : blockSize - (i + headerSize) = c.length := by omega
    rw [if_neg (by simp only [List.length_append]; omega)]
    simp only [e, List.take_left', List.drop_left']

/-! ### invariants -/

/-- everything in the buffer is final: the stream so far is `out ++ buf[written:]` -/
structure Final (w : Writer) (done : List Bytes) : Prop where
  bad : w.bad = false
  wj : w.written ≤ w.j
  jb : w.j ≤ blockSize
  enc : ∀ rest, encodeFrom 0 (done ++ rest) = w.out ++ w.buf.drop w.written ++ encodeFrom w.j rest

/-- a chunk with payload `c` is pending at offset `i`; `p` is the payload of the record so far -/
structure Pend (w : Writer) (done : List Bytes) (p : Bytes) : Prop where
  bad : w.bad = false
  ex : ∃ B hdr c, w.buf = B ++ hdr ++ c ∧ B.length = w.i ∧ hdr.length = headerSize ∧ w.written ≤ w.i ∧
        w.i + headerSize + c.length ≤ blockSize ∧ (w.first = false → w.i = 0) ∧
        ∀ q rest, encodeFrom 0 (done ++ (p ++ q) :: rest) =
          w.out ++ B.drop w.written ++ (chunksAt w.i w.first (c ++ q)).1 ++
            encodeFrom (chunksAt w.i w.first (c ++ q)).2 rest

theorem Final.congr {w w' : Writer} {done} (h : Final w done) (h1 : w'.bad = w.bad) (h2 : w'.buf = w.buf)
    (h3 : w'.written = w.written) (h4 : w'.out = w.out) : Final w' done := by
  obtain ⟨a, b, c, d⟩ := h
  constructor
  · rw [h1, a]
  · simpa [Writer.j, h2, h3] using b
  · simpa [Writer.j, h2] using c
  · simpa [Writer.j, h2, h3, h4] using d

theorem Pend.congr {w w' : Writer} {done p} (h : Pend w done p) (h1 : w'.bad = w.bad) (h2 : w'.buf = w.buf)
    (h3 : w'.written = w.written) (h4 : w'.out = w.out) (h5 : w'.i = w.i) (h6 : w'.first = w.first) :
    Pend w' done p := by
  obtain ⟨a, b⟩ := h
  constructor
  · rw [h1, a]
  · simpa [h2, h3, h4, h5, h6] using b

/-- `fillHeader(true)` on a pending chunk: the record is complete -/
theorem Pend.fillHeader_true {w : Writer} {done p} (h : Pend w done p) :
    Final (w.fillHeader true) (done ++ [p]) ∧ (w.fillHeader true).pending = w.pending ∧
    (w.fillHeader true).cur = w.cur ∧ (w.fillHeader true).closed = w.closed := by
  obtain ⟨hbad, B, hdr, c, hbuf, hB, hh, hw, hfit, h0, henc⟩ := h
  have hj : w.j = w.i + headerSize + c.length := by simp [Writer.j, hbuf, hB, hh]; omega
  have hfh : w.fillHeader true =
      { w with buf := B ++ chunkHeader (chunkType w.first true) c ++ c } := by
    unfold Writer.fillHeader
    rw [if_neg (by omega)]
    have e1 : w.buf.take w.i = B := by rw [hbuf, List.append_assoc, List.take_left' hB]
    have e2 : w.buf.drop (w.i + headerSize) = c := by
      rw [hbuf]; apply List.drop_left'; simp [hB, hh]
    simp only [e1, e2]
  rw [hfh]
  refine ⟨⟨hbad, ?_, ?_, ?_⟩, rfl, rfl, rfl⟩
  · simp [Writer.j, chunkHeader_length, hB]; omega
  · simp [Writer.j, chunkHeader_length, hB]; omega
  · intro rest
    have := henc [] rest
    simp only [List.append_nil] at this
    rw [chunksAt_last _ _ _ hfit h0] at this
    simp only [List.append_assoc, List.cons_append, List.nil_append]
    rw [this]
    simp only [Writer.j, List.length_append, chunkHeader_length, hB]
    rw [List.drop_append_of_le_length (by omega)]
    simp [chunk, List.append_assoc, Nat.add_assoc]

theorem fillHeader_decomp (w : Writer) (last : Bool) (B hdr c : Bytes) (hbuf : w.buf = B ++ hdr ++ c)
    (hB : B.length = w.i) (hh : hdr.length = headerSize) (hfit : w.i + headerSize + c.length ≤ blockSize) :
    w.fillHeader last = { w with buf := B ++ chunkHeader (chunkType w.first last) c ++ c } := by
  have hj : w.j = w.i + headerSize + c.length := by simp [Writer.j, hbuf, hB, hh]; omega
  unfold Writer.fillHeader
  rw [if_neg (by omega)]
  have e1 : w.buf.take w.i = B := by rw [hbuf, List.append_assoc, List.take_left' hB]
  have e2 : w.buf.drop (w.i + headerSize) = c := by
    rw [hbuf]; apply List.drop_left'; simp [hB, hh]
  simp only [e1, e2]

/-- one round of the loop of `singleWriter.Write` on a non-empty `p'` -/
theorem Pend.writeStep {w : Writer} {done p} (p' : Bytes) (h : Pend w done p) (hp' : p' ≠ []) :
    w.roll.j < blockSize ∧
    Pend { w.roll with buf := w.roll.buf ++ p'.take (min (blockSize - w.roll.j) p'.length) } done
      (p ++ p'.take (min (blockSize - w.roll.j) p'.length)) ∧
    w.roll.pending = w.pending ∧ w.roll.cur = w.cur ∧ w.roll.closed = w.closed := by
  obtain ⟨hbad, B, hdr, c, hbuf, hB, hh, hw, hfit, h0, henc⟩ := h
  have h7 := headerSize_eq
  have hlt := headerSize_lt_blockSize
  have hpl : 0 < p'.length := List.length_pos_iff.mpr hp'
  have hj : w.j = w.i + headerSize + c.length := by simp [Writer.j, hbuf, hB, hh]; omega
  unfold Writer.roll
  by_cases hfull : w.j = blockSize
  · rw [if_pos hfull, fillHeader_decomp w false B hdr c hbuf hB hh hfit]
    simp only [Writer.writeBlock, Writer.j, List.length_replicate]
    refine ⟨by omega, ⟨hbad, [], List.replicate headerSize 0, _, rfl, rfl, by simp, Nat.le_refl _, ?_, by simp, ?_⟩,
      by simp, by simp, by simp⟩
    · simp only [List.length_take]; omega
    · intro q rest
      have hne : p'.take (min (blockSize - headerSize) p'.length) ++ q ≠ [] := by
        intro hnil
        have := congrArg List.length hnil
        simp only [List.length_append, List.length_take, List.length_nil] at this
        omega
      have := henc (p'.take (min (blockSize - headerSize) p'.length) ++ q) rest
      rw [chunksAt_split _ _ _ _ (by omega) hne h0] at this
      simp only [List.append_assoc] at this ⊢
      rw [this]
      simp only [chunksAt, Bool.false_eq_true, if_false, List.drop_nil, List.nil_append]
      rw [List.drop_append_of_le_length (by omega)]
      simp [chunk, List.append_assoc]
  · rw [if_neg hfull]
    refine ⟨by omega, ⟨hbad, B, hdr, c ++ p'.take (min (blockSize - w.j) p'.length), by simp [hbuf], hB, hh, hw, ?_, h0, ?_⟩,
      rfl, rfl, rfl⟩
    · simp only [List.length_append, List.length_take]; omega
    · intro q rest
      have := henc (p'.take (min (blockSize - w.j) p'.length) ++ q) rest
      simpa [List.append_assoc] using this

theorem Pend.writeLoop {w : Writer} {done p} (p' : Bytes) (h : Pend w done p) :
    Pend (w.writeLoop p') done (p ++ p') ∧ (w.writeLoop p').pending = w.pending ∧
      (w.writeLoop p').cur = w.cur ∧ (w.writeLoop p').closed = w.closed := by
  fun_induction Writer.writeLoop w p' generalizing p with
  | case1 w p' hp =>
    have : p' = [] := List.eq_nil_of_length_eq_zero hp
    subst this; simpa using h
  | case2 w p' hp hj =>
    have hne : p' ≠ [] := fun e => hp (by simp [e])
    have := (h.writeStep p' hne).1
    omega
  | case3 w p' hp hj ih =>
    have hne : p' ≠ [] := fun e => hp (by simp [e])
    obtain ⟨_, hP, f1, f2, f3⟩ := h.writeStep p' hne
    obtain ⟨hP', g1, g2, g3⟩ := ih hP
    refine ⟨?_, by rw [g1]; exact f1, by rw [g2]; exact f2, by rw [g3]; exact f3⟩
    simpa [List.append_assoc] using hP'

/-- `Writer.Next` after the optional `fillHeader(true)` -/
def nextCore (w : Writer) : Writer :=
  let w1 := { w with i := w.j }
  let w2 :=
    if w.j + headerSize > blockSize then
      ({ w1 with buf := w1.buf ++ List.replicate (blockSize - w.j) 0 }).writeBlock
    else { w1 with buf := w1.buf ++ List.replicate headerSize 0 }
  { w2 with first := true, pending := true, cur := true }

theorem next_eq (w : Writer) (h : w.closed = false) :
    w.next = nextCore (if w.pending then ({ w with cur := false }).fillHeader true else { w with cur := false }) := by
  unfold Writer.next nextCore
  simp only [h, Bool.false_eq_true, if_false]

theorem Final.to_nextCore {w : Writer} {done} (h : Final w done) :
    Pend (nextCore w) done [] ∧ (nextCore w).pending = true ∧ (nextCore w).cur = true ∧
      (nextCore w).closed = w.closed := by
  obtain ⟨hbad, hwj, hjb, henc⟩ := h
  have h7 := headerSize_eq
  have hlt := headerSize_lt_blockSize
  unfold Writer.j at hwj hjb henc
  unfold nextCore Writer.writeBlock Writer.j
  by_cases hov : w.buf.length + headerSize > blockSize
  · simp only [if_pos hov]
    refine ⟨⟨hbad, [], List.replicate headerSize 0, [], by simp, rfl, by simp, Nat.le_refl _, by simp; omega,
      by simp, ?_⟩, by simp, by simp, by simp⟩
    intro q rest
    have := henc (q :: rest)
    simp only [List.nil_append, List.drop_nil, List.append_nil, chunksAt, if_true]
    rw [this]
    simp only [encodeFrom, emitRecord, pad, if_pos hov]
    rw [List.drop_append_of_le_length hwj]
    simp [List.append_assoc]
  · simp only [if_neg hov]
    refine ⟨⟨hbad, w.buf, List.replicate headerSize 0, [], by simp, rfl, by simp, hwj, by simp; omega,
      by simp, ?_⟩, by simp, by simp, by simp⟩
    intro q rest
    have := henc (q :: rest)
    simp only [List.nil_append, chunksAt, if_true]
    rw [this]
    simp only [encodeFrom, emitRecord, pad, if_neg hov]
    simp [List.append_assoc]

/-- `writePending` after the optional `fillHeader(true)` -/
def flushCore (w : Writer) : Writer := { w with out := w.out ++ w.buf.drop w.written, written := w.j }

theorem Final.to_flushCore {w : Writer} {done} (h : Final w done) :
    Final (flushCore w) done ∧ (flushCore w).written = (flushCore w).j := by
  obtain ⟨hbad, hwj, hjb, henc⟩ := h
  unfold Writer.j at hwj hjb henc
  refine ⟨⟨hbad, by simp [flushCore, Writer.j], by simpa [flushCore, Writer.j] using hjb, ?_⟩, rfl⟩
  intro rest
  simp [flushCore, Writer.j, henc rest]

/-! ### the simulation relation between the machine and the abstract record state -/

structure Rel (w : Writer) (s : RecState) : Prop where
  closed : w.closed = s.closed
  cur : w.cur = s.cur.isSome
  pending : w.pending = s.cur.isSome
  closedCur : s.closed = true → s.cur = none
  pend : ∀ p, s.cur = some p → Pend w s.done p
  fin : s.cur = none → Final w s.done ∧ w.written = w.j

/-- the record in progress (if any) is finished by `fillHeader(true)`: common to `Next`, `Flush`, `Close` -/
def finish (w : Writer) : Writer :=
  if w.pending then ({ w with cur := false }).fillHeader true else { w with cur := false }

theorem Rel.finish {w s} (h : Rel w s) : Final (finish w) s.all ∧ (finish w).closed = w.closed := by
  unfold Journal.finish RecState.all
  cases hc : s.cur with
  | none =>
    have hp : w.pending = false := by rw [h.pending, hc]; rfl
    rw [if_neg (by simp [hp])]
    simp only [Option.toList_none, List.append_nil]
    exact ⟨(h.fin hc).1.congr rfl rfl rfl rfl, trivial⟩
  | some p =>
    have hp : w.pending = true := by rw [h.pending, hc]; rfl
    rw [if_pos hp]
    simp only [Option.toList_some]
    have hP : Pend { w with cur := false } s.done p := (h.pend p hc).congr rfl rfl rfl rfl rfl rfl
    obtain ⟨hF, _, _, e3⟩ := hP.fillHeader_true
    exact ⟨hF, e3⟩

theorem next_eq' (w : Writer) (h : w.closed = false) : w.next = nextCore (finish w) := next_eq w h

theorem fillHeader_flags (w : Writer) (l : Bool) :
    (w.fillHeader l).cur = w.cur ∧ (w.fillHeader l).closed = w.closed ∧ (w.fillHeader l).pending = w.pending ∧
    (w.fillHeader l).out = w.out ∧ (w.fillHeader l).written = w.written := by
  unfold Writer.fillHeader; split <;> simp

theorem writePending_eq (w : Writer) (h : w.closed = false) :
    w.writePending = flushCore (if w.pending then { (w.fillHeader true) with pending := false } else w) := by
  unfold Writer.writePending
  rw [if_neg (by simp [h])]
  rfl

theorem flush_eq (w : Writer) (h : w.closed = false) :
    ∃ x, w.flush = flushCore x ∧ x.bad = (finish w).bad ∧ x.buf = (finish w).buf ∧
      x.written = (finish w).written ∧ x.out = (finish w).out ∧ x.cur = false ∧ x.pending = false ∧
      x.closed = false := by
  have e : w.flush = ({ w with cur := false } : Writer).writePending := rfl
  rw [e, writePending_eq _ (show ({ w with cur := false } : Writer).closed = false from h)]
  unfold Journal.finish
  have hf := fillHeader_flags { w with cur := false } true
  by_cases hp : w.pending = true
  · refine ⟨_, rfl, ?_, ?_, ?_, ?_, ?_, ?_, ?_⟩
    all_goals simp only [if_pos hp]
    · exact hf.1
    · rw [hf.2.1]; exact h
  · refine ⟨_, rfl, ?_, ?_, ?_, ?_, ?_, ?_, ?_⟩
    all_goals simp only [if_neg hp]
    · simpa using hp
    · exact h

theorem close_eq (w : Writer) :
    w.close = { w.flush with closed := true } := by
  unfold Writer.close Writer.flush; rfl

theorem Rel.step {w s} (h : Rel w s) (op : Op) : Rel (w.step op) (s.step op) := by
  by_cases hcl : s.closed = true
  · -- closed: nothing changes any more
    have hc := h.closedCur hcl
    have hwc : w.closed = true := by rw [h.closed, hcl]
    have hwcur : w.cur = false := by rw [h.cur, hc]; rfl
    have hs : s.step op = s := by simp [RecState.step, hcl]
    have hw : w.step op = w := by
      cases op <;> simp only [Writer.step, Writer.next, Writer.write, Writer.flush, Writer.close,
        Writer.writePending, hwc, hwcur, if_true, Bool.not_false, Bool.true_or] <;> (cases w; simp_all)
    rw [hs, hw]; exact h
  · have hcl' : s.closed = false := by simpa using hcl
    have hwc : w.closed = false := by rw [h.closed, hcl']
    obtain ⟨hF, hFc⟩ := h.finish
    cases op with
    | next =>
      simp only [Writer.step, RecState.step, hcl', Bool.false_eq_true, if_false]
      rw [next_eq' w hwc]
      obtain ⟨hP, e1, e2, e3⟩ := hF.to_nextCore
      exact ⟨by rw [e3, hFc, hwc], by rw [e2]; rfl, by rw [e1]; rfl, by intro hx; simp at hx,
        fun p hp => by simp only [Option.some.injEq] at hp; subst hp; exact hP, fun hx => by simp at hx⟩
    | flush =>
      simp only [Writer.step, RecState.step, hcl', Bool.false_eq_true, if_false]
      obtain ⟨x, hx, b1, b2, b3, b4, b5, b6, b7⟩ := flush_eq w hwc
      rw [hx]
      obtain ⟨hF', hwj⟩ := (hF.congr b1 b2 b3 b4).to_flushCore
      exact ⟨by simp [flushCore, b7], by simp [flushCore, b5], by simp [flushCore, b6],
        by intro hx; simp at hx, fun p hp => by simp at hp, fun _ => ⟨hF', hwj⟩⟩
    | close =>
      simp only [Writer.step, RecState.step, hcl', Bool.false_eq_true, if_false]
      rw [close_eq w]
      obtain ⟨x, hx, b1, b2, b3, b4, b5, b6, b7⟩ := flush_eq w hwc
      rw [hx]
      obtain ⟨hF', hwj⟩ := (hF.congr b1 b2 b3 b4).to_flushCore
      exact ⟨rfl, by simp [flushCore, b5], by simp [flushCore, b6], fun _ => rfl, fun p hp => by simp at hp,
        fun _ => ⟨hF'.congr rfl rfl rfl rfl, hwj⟩⟩
    | write p' =>
      simp only [Writer.step, RecState.step, hcl', Bool.false_eq_true, if_false, Writer.write]
      cases hc : s.cur with
      | none =>
        have hwcur : w.cur = false := by rw [h.cur, hc]; rfl
        simp only [hwcur, Bool.not_false, Bool.true_or, if_true, Option.map_none]
        exact ⟨by simp [hwc], by rw [hwcur]; rfl, by rw [h.pending, hc], by intro hx; simp at hx,
          fun p hp => by simp at hp, fun _ => h.fin hc⟩
      | some p =>
        have hwcur : w.cur = true := by rw [h.cur, hc]; rfl
        simp only [hwcur, hwc, Bool.not_true, Bool.or_false, Bool.false_eq_true, if_false, Option.map_some]
        obtain ⟨hP, e1, e2, e3⟩ := (h.pend p hc).writeLoop p'
        exact ⟨by rw [e3, hwc], by rw [e2, hwcur]; rfl, by rw [e1, h.pending, hc]; rfl,
          by intro hx; simp at hx,
          fun q hq => by simp only [Option.some.injEq] at hq; subst hq; exact hP, fun hx => by simp at hx⟩

theorem Rel.init : Rel {} {} :=
  ⟨rfl, rfl, rfl, fun h => by simp at h, fun p hp => by simp at hp,
    fun _ => ⟨⟨rfl, Nat.le_refl _, Nat.zero_le _, fun rest => by simp [Writer.j]⟩, rfl⟩⟩

theorem Rel.run {w s} (h : Rel w s) (ops : List Op) : Rel (w.run ops) (ops.foldl RecState.step s) := by
  induction ops generalizing w s with
  | nil => exact h
  | cons op ops ih => exact ih (h.step op)

/-- what the relation says about the output -/
theorem Rel.out {w s} (h : Rel w s) :
    w.bad = false ∧ w.out <+: encode s.all ∧ (s.cur = none → w.out = encode s.all) := by
  unfold encode RecState.all
  cases hc : s.cur with
  | none =>
    obtain ⟨⟨hb, _, _, henc⟩, hwj⟩ := h.fin hc
    have := henc []
    simp only [List.append_nil, encodeFrom] at this
    have hd : w.buf.drop w.written = [] := by rw [hwj]; simp [Writer.j]
    rw [hd, List.append_nil] at this
    simp only [Option.toList_none, List.append_nil]
    exact ⟨hb, by rw [this]; exact List.prefix_refl _, fun _ => this.symm⟩
  | some p =>
    obtain ⟨hb, B, hdr, c, _, _, _, _, _, _, henc⟩ := h.pend p hc
    have := henc [] []
    simp only [List.append_nil] at this
    simp only [Option.toList_some]
    refine ⟨hb, ?_, fun hx => by simp at hx⟩
    rw [this]
    simp only [List.append_assoc]
    exact List.prefix_append _ _

/-- the output only grows -/
theorem roll_out_prefix (w : Writer) : w.out <+: w.roll.out := by
  simp only [Writer.roll]; split
  · simp only [Writer.writeBlock, Writer.fillHeader]; split <;> simp
  · exact List.prefix_refl _

theorem writeLoop_out_prefix (w : Writer) (p : Bytes) : w.out <+: (w.writeLoop p).out := by
  fun_induction Writer.writeLoop w p with
  | case1 w p hp => exact List.prefix_refl _
  | case2 w p hp hj => exact roll_out_prefix w
  | case3 w p hp hj ih => exact (roll_out_prefix w).trans ih

theorem step_out_prefix (w : Writer) (op : Op) : w.out <+: (w.step op).out := by
  cases op with
  | next =>
    simp only [Writer.step, Writer.next, Writer.writeBlock, Writer.fillHeader]
    repeat' split
    all_goals simp
  | write p =>
    simp only [Writer.step, Writer.write]; split
    · exact List.prefix_refl _
    · exact writeLoop_out_prefix w p
  | flush =>
    simp only [Writer.step, Writer.flush, Writer.writePending, Writer.fillHeader]
    repeat' split
    all_goals simp
  | close =>
    simp only [Writer.step, Writer.close, Writer.writePending, Writer.fillHeader]
    repeat' split
    all_goals simp

theorem run_out_prefix (w : Writer) (ops : List Op) : w.out <+: (w.run ops).out := by
  induction ops generalizing w with
  | nil => exact List.prefix_refl _
  | cons op ops ih => exact (step_out_prefix w op).trans (ih _)

end GoLevel.Journal
