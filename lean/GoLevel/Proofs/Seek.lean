import GoLevel.Model.Seek
import GoLevel.Proofs.LSMWf
/-!
# Every table a lookup consults — in particular the one it charges — is a table of the version, at the level named
-/
namespace GoLevel.Seek
open GoLevel

theorem searchMax_mem (c : UCmp) (tables : Level) (p : IKey) (t : Table) (h : searchMax c tables p = some t) :
    t ∈ tables := List.mem_of_find?_eq_some h

theorem levelVisit_mem (c : UCmp) (tables : Level) (k : Bytes) (s : Nat) (t : Table)
    (h : levelVisit c tables k s = some t) : t ∈ tables := by
  unfold levelVisit at h
  cases hs : searchMax c tables (probe k s) with
  | none => rw [hs] at h; cases h
  | some t' =>
    rw [hs] at h
    simp only at h
    split at h
    · cases h; exact searchMax_mem c tables _ _ hs
    · cases h

theorem deeperVisits_mem (c : UCmp) (ls : List Level) (k : Bytes) (s : Nat) :
    ∀ (lvl : Nat) (l : Nat) (t : Table), (l, t) ∈ deeperVisits c lvl ls k s →
      lvl ≤ l ∧ ∃ tables, ls[l - lvl]? = some tables ∧ t ∈ tables := by
  induction ls with
  | nil => intro lvl l t h; simp [deeperVisits] at h
  | cons hd tl ih =>
    intro lvl l t h
    unfold deeperVisits at h
    cases hv : levelVisit c hd k s with
    | none =>
      rw [hv] at h
      obtain ⟨hle, tables, hget, hmem⟩ := ih (lvl + 1) l t h
      refine ⟨by omega, tables, ?_, hmem⟩
      have : l - lvl = (l - (lvl + 1)) + 1 := by omega
      rw [this]; simpa using hget
    | some t' =>
      rw [hv] at h
      simp only at h
      have hhead : (l, t) = (lvl, t') → lvl ≤ l ∧ ∃ tables, (hd :: tl)[l - lvl]? = some tables ∧ t ∈ tables := by
        intro he
        cases he
        exact ⟨Nat.le_refl _, hd, by simp, levelVisit_mem c hd k s t hv⟩
      cases hp : tableProbe c t' k s with
      | some e =>
        rw [hp] at h
        simp only [List.mem_singleton] at h
        exact hhead h
      | none =>
        rw [hp] at h
        simp only [List.mem_cons] at h
        rcases h with h | h
        · exact hhead h
        · obtain ⟨hle, tables, hget, hmem⟩ := ih (lvl + 1) l t h
          refine ⟨by omega, tables, ?_, hmem⟩
          have : l - lvl = (l - (lvl + 1)) + 1 := by omega
          rw [this]; simpa using hget

/-- every consulted pair names a table of the version at that level -/
theorem visits_mem (c : UCmp) (aux : Level) (v : Version) (k : Bytes) (s : Nat) (l : Nat) (t : Table)
    (h : (l, t) ∈ visits c aux v k s) : t ∈ v.lvl l := by
  unfold visits at h
  cases ha : l0Get c aux k s with
  | some e => rw [ha] at h; simp at h
  | none =>
    rw [ha] at h
    simp only at h
    cases hlv : v.levels with
    | nil => rw [hlv] at h; simp at h
    | cons l0 rest =>
      rw [hlv] at h
      simp only [List.mem_append, List.mem_map] at h
      rcases h with ⟨t', ht', he⟩ | h
      · cases he
        unfold Version.lvl
        rw [hlv]
        simp only [List.getElem?_cons_zero, Option.getD_some]
        exact (List.mem_filter.1 ht').1
      · cases h0 : l0Get c l0 k s with
        | some e => rw [h0] at h; simp at h
        | none =>
          rw [h0] at h
          simp only at h
          obtain ⟨hle, tables, hget, hmem⟩ := deeperVisits_mem c rest k s 1 l t h
          unfold Version.lvl
          rw [hlv]
          have : l = (l - 1) + 1 := by omega
          rw [this]
          simp only [List.getElem?_cons_succ]
          rw [hget]; exact hmem

end GoLevel.Seek
