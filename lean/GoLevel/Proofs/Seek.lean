import GoLevel.Model.Seek
import GoLevel.Proofs.LSMWf
/-!
# Every table a lookup consults — in particular the one it charges — is a table of the version, at the level named
-/
namespace GoLevel.Seek
open GoLevel

theorem searchMax_mem (c : UCmp) (tables : Level) (p : IKey) (t : Table) (h : searchMax c tables p = some t) :
    t ∈ tables := List.mem_of_find?_eq_some h

theorem levelVisit_mem (c : UCmp) (tables : Level) (k : Bytes) (s : Nat) (t : Table)
    (h : levelVisit c tables k s = some t) : t ∈ tables := by
  unfold levelVisit at h
  cases hs : searchMax c tables (probe k s) with
  | none => rw [hs] at h; cases h
  | some t' =>
    rw [hs] at h
    simp only at h
    split at h
    · cases h; exact searchMax_mem c tables _ _ hs
    · cases h

theorem deeperVisits_mem (c : UCmp) (ls : List Level) (k : Bytes) (s : Nat) :
    ∀ (lvl : Nat) (l : Nat) (t : Table), (l, t) ∈ deeperVisits c lvl ls k s →
      lvl ≤ l ∧ ∃ tables, ls[l - lvl]? = some tables ∧ t ∈ tables := by
  induction ls with
  | nil => intro lvl l t h; simp [deeperVisits] at h
  | cons hd tl ih =>
    intro lvl l t h
    unfold deeperVisits at h
    cases hv : levelVisit c hd k s with
    | none =>
      rw [hv] at h
      obtain ⟨hle, tables, hget, hmem⟩ := ih (lvl + 1) l t h
      refine ⟨by omega, tables, ?_, hmem⟩
      have : l - lvl = (l - (lvl + 1)) + 1 := by omega
      rw [this]; simpa using hget
    | some t' =>
      rw [hv] at h
      simp only at h
      have hhead : (l, t) = (lvl, t') → lvl ≤ l ∧ ∃ tables, (hd :: tl)[l - lvl]? = some tables ∧ t ∈ tables := by
        intro he
        cases he
        exact ⟨Nat.le_refl _, hd, by simp, levelVisit_mem c hd k s t hv⟩
      cases hp : tableProbe c t' k s with
      | some e =>
        rw [hp] at h
        simp only [List.mem_singleton] at h
        exact hhead h
      | none =>
        rw [hp] at h
        simp only [List.mem_cons] at h
        rcases h with h | h
        · exact hhead h
        · obtain ⟨hle, tables, hget, hmem⟩ := ih (lvl + 1) l t h
          refine ⟨by omega, tables, ?_, hmem⟩
          have : l - lvl = (l - (lvl + 1)) + 1 := by omega
          rw [this]; simpa using hget

/-- every consulted pair names a table of the version at that level -/
theorem visits_mem (c : UCmp) (aux : Level) (v : Version) (k : Bytes) (s : Nat) (l : Nat) (t : Table)
    (h : (l, t) ∈ visits c aux v k s) : t ∈ v.lvl l := by
  unfold visits at h
  cases ha : l0Get c aux k s with
  | some e => rw [ha] at h; simp at h
  | none =>
    rw [ha] at h
    simp only at h
    cases hlv : v.levels with
    | nil => rw [hlv] at h; simp at h
    | cons l0 rest =>
      rw [hlv] at h
      simp only [List.mem_append, List.mem_map] at h
      rcases h with ⟨t', ht', he⟩ | h
      · cases he
        unfold Version.lvl
        rw [hlv]
        simp only [List.getElem?_cons_zero, Option.getD_some]
        exact (List.mem_filter.1 ht').1
      · cases h0 : l0Get c l0 k s with
        | some e => rw [h0] at h; simp at h
        | none =>
          rw [h0] at h
          simp only at h
          obtain ⟨hle, tables, hget, hmem⟩ := deeperVisits_mem c rest k s 1 l t h
          unfold Version.lvl
          rw [hlv]
          have : l = (l - 1) + 1 := by omega
          rw [this]
          simp only [List.getElem?_cons_succ]
          rw [hget]; exact hmem

/-! ## a lookup that consults nothing finds nothing -/

theorem l0Get_none_of_no_overlap (c : UCmp) (tables : Level) (k : Bytes) (s : Nat)
    (h : ∀ t ∈ tables, t.overlapsKey c k = false) : l0Get c tables k s = none := by
  unfold l0Get
  induction tables with
  | nil => rfl
  | cons t ts ih =>
    simp only [List.foldl_cons]
    have ht : t.overlapsKey c k = false := h t (by simp)
    simp only [ht, Bool.false_eq_true, if_false]
    exact ih (fun x hx => h x (by simp [hx]))

theorem levelGet_none_of_levelVisit_none (c : UCmp) (tables : Level) (k : Bytes) (s : Nat)
    (h : levelVisit c tables k s = none) : levelGet c tables k s = none := by
  unfold levelVisit at h
  unfold levelGet
  cases hs : searchMax c tables (probe k s) with
  | none => rfl
  | some t =>
    rw [hs] at h
    simp only at h
    by_cases hc : (c.cmp k t.imin.ukey != .lt) = true
    · rw [if_pos hc] at h; cases h
    · simp only [hc]; rfl

theorem deeperGet_miss_of_no_visits (c : UCmp) (ls : List Level) (k : Bytes) (s : Nat) :
    ∀ lvl, deeperVisits c lvl ls k s = [] → deeperGet c ls k s = .miss := by
  induction ls with
  | nil => intro _ _; rfl
  | cons l tl ih =>
    intro lvl h
    unfold deeperVisits at h
    cases hv : levelVisit c l k s with
    | some t =>
      rw [hv] at h
      simp only at h
      cases hp : tableProbe c t k s <;> rw [hp] at h <;> simp at h
    | none =>
      rw [hv] at h
      unfold deeperGet
      rw [levelGet_none_of_levelVisit_none c l k s hv]
      exact ih (lvl + 1) h

/-- a lookup that consults no table of the version finds nothing in it -/
theorem versionGet_miss_of_no_visits (c : UCmp) (aux : Level) (v : Version) (k : Bytes) (s : Nat)
    (haux : l0Get c aux k s = none) (h : visits c aux v k s = []) : versionGet c aux v k s = .miss := by
  unfold visits at h
  unfold versionGet
  rw [haux] at h ⊢
  simp only at h ⊢
  cases hlv : v.levels with
  | nil => rfl
  | cons l0 rest =>
    rw [hlv] at h
    simp only [List.append_eq_nil_iff, List.map_eq_nil_iff] at h
    obtain ⟨h0, h1⟩ := h
    have hno : ∀ t ∈ l0, t.overlapsKey c k = false := by
      intro t ht
      cases ho : t.overlapsKey c k with
      | false => rfl
      | true =>
        have : t ∈ l0Visits c l0 k := List.mem_filter.2 ⟨ht, ho⟩
        rw [h0] at this; cases this
    have hl0 := l0Get_none_of_no_overlap c l0 k s hno
    rw [hl0] at h1
    simp only [hl0]
    exact deeperGet_miss_of_no_visits c rest k s 1 h1

end GoLevel.Seek
