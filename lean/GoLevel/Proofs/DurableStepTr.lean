import GoLevel.Proofs.DurableStepJ14
/-!
The transaction protocol (`OpenTransaction`, `Transaction.Put…`, `Commit`, `Discard`) preserves the invariant.
The commit itself is a `Job` of kind `tr` (its steps are the generic ones of `DurableStepJ*.lean`; its last
step, `db.setSeq(tr.seq)`, is `inv_done_tr`).
-/
namespace GoLevel.Dur

/-- a change of the state that leaves the writer idle with an empty buffer, nothing frozen and no job; the
    sequence number may grow (`Discard`) -/
theorem Inv.tr_frame {cfg : Cfg} {s s' : St} {d : Disk} (h : Inv cfg s d) (hph : s.phase = .running)
    (hjob : s.job = none) (hw : s.w = .idle) (hmem : s.mem = []) (hfz : s.frozen = none)
    (e1 : s'.phase = s.phase) (e2 : s'.job = s.job) (e3 : s'.w = s.w) (e4 : s'.mem = s.mem) (e5 : s'.frozen = s.frozen)
    (e6 : s'.jfrozen = s.jfrozen) (e7 : s'.jcur = s.jcur) (e8 : s'.nextFile = s.nextFile) (e9 : s'.live = s.live)
    (e10 : s'.stJn = s.stJn) (e11 : s'.stSq = s.stSq) (e12 : s'.manifestFd = s.manifestFd)
    (e13 : s'.manifestOpen = s.manifestOpen) (e14 : s'.recov = s.recov) (e15 : s'.issued = s.issued)
    (e16 : s'.everFailed = s.everFailed) (e17 : s'.limbo = s.limbo) (e18 : s'.manifestFailed = s.manifestFailed)
    (hq : s.seq ≤ s'.seq) (htr : TrOK s') : Inv cfg s' d := by
  have hrun := h.run hph
  have hb := h.bounds (by rw [hph]; decide)
  have hmust : must s' = must s := by rw [must_eq, must_eq, e15, e3]
  have hiss : issuedGrps s' = issuedGrps s := by unfold issuedGrps; rw [e15]
  have hjob' : s'.job = none := by rw [e2]; exact hjob
  have hmg : MustGrows s s' := fun g hg => Or.inl (by rw [← hmust]; exact hg)
  constructor
  · rw [hmust, hiss]; exact h.disk
  · exact h.mm
  · intro _
    exact hb.of_same rfl (seqHi_le_of_not_window (not_trWindow_of_nojob hjob) (not_trWindow_of_nojob hjob') hq)
      (by rw [e8]; exact Nat.le_refl _) (fun _ => ⟨hph, by rw [e7]; exact Nat.le_refl _⟩)
  · intro _
    obtain ⟨r1, r2, r3, r4, r5, r6, r7, r8, r9, r10⟩ := hrun
    refine ⟨⟨by rw [e14]; exact r1.1, htr⟩, ⟨?_, by rw [e13]; exact r2.2⟩, ?_, by rw [e7, e8]; exact r4,
      by rw [e8]; exact r5, ?_, ?_, ?_, fun _ => ?_,
      r10.frame e17 e18 e10 e11 e9 e2 rfl hq hmg (by rw [e8]; exact Nat.le_refl _)⟩
    · have := r2.1
      unfold MfdOK at this ⊢
      rw [hjob] at this
      rw [hjob', e12, e17]
      exact this
    · rw [e7, e4, e3]
      refine r3.imp (fun jf hjf => ?_)
      obtain ⟨a, b, c, e⟩ := hjf
      refine ⟨a, fun x hx hxm => b x hx (by rw [← hmust]; exact hxm), fun x hx => ?_, fun hx => e (by rw [← e16]; exact hx)⟩
      rcases c x hx with h1 | h1
      · exact Or.inl h1
      · exact Or.inr (by omega)
    · show WSeqOK _
      simp only [WSeqOK, e3, hw, e4, hmem]
      intro x hx; cases hx
    · apply frozenOK_iff.2
      rcases frozenOK_iff.1 r7 with ⟨h1, h2⟩ | ⟨fz, jf, h1, _⟩
      · exact Or.inl ⟨by rw [e5]; exact h1, by rw [e6]; exact h2⟩
      · rw [hfz] at h1; cases h1
    · rw [holds_iff] at r8 ⊢
      obtain ⟨mf1, hmf1, r8⟩ := r8
      refine ⟨mf1, hmf1, ?_⟩
      rw [holds_iff] at r8 ⊢
      obtain ⟨v1, hv1, r8⟩ := r8
      refine ⟨v1, hv1, fun p hp hge => ?_⟩
      rcases r8 p hp hge with h1 | h1 | h1
      · exact Or.inl (by rw [e7]; exact h1)
      · exact Or.inr (Or.inl (by rw [e6]; exact h1))
      · exact Or.inr (Or.inr ⟨h1.1.mono hq hmg, fun hx => h1.2 (by rw [← e16]; exact hx)⟩)
    · have := r9 hjob
      unfold Settled at this ⊢
      refine this.imp (fun mf1 hmf1 => ⟨fun ho hl => hmf1.1 (by rw [← e13]; exact ho) (by rw [← e17]; exact hl),
        hmf1.2.imp (fun v hv => ?_)⟩)
      have hv' : MirrorL s v := hv
      unfold MirrorL at hv' ⊢
      rw [e17]
      cases hu : s.limbo with
      | none =>
        rw [hu] at hv'
        exact ⟨by rw [e9]; exact hv'.1, by rw [e10]; exact hv'.2.1, by rw [e11]; exact hv'.2.2⟩
      | some u =>
        rw [hu] at hv'
        exact ⟨by rw [e9]; exact hv'.1, by rw [e10]; exact hv'.2.1, by rw [e11]; exact hv'.2.2⟩
  · intro hc; rw [e1, hph] at hc; cases hc
  · intro hc; rw [e1, hph] at hc; cases hc
  · show Holds' s'.job _
    rw [hjob']; trivial

theorem Inv.tr_running {cfg : Cfg} {s : St} {d : Disk} (h : Inv cfg s d) {g : Grp} (hg : s.tr = some g) :
    s.phase = .running := by
  rcases hp : s.phase with _ | _ | _
  · have := (h.crashed hp).2.2.2.1; rw [hg] at this; cases this
  · have := h.recov hp
    rw [holds_iff] at this
    obtain ⟨r, _, hr⟩ := this
    have := hr.idle.2.2.1; rw [hg] at this; cases this
  · rfl

theorem inv_stepTr {cfg : Cfg} {s : St} {d : Disk} (h : Inv cfg s d) {a : Act} {s' : St}
    (hs : stepTr s a = some s') : Inv cfg s' d := by
  cases a with
  | trBegin =>
    simp only [stepTr] at hs
    split at hs
    · rename_i hg
      obtain ⟨hph, hw, hmem, hfz, hjob, _⟩ := hg
      simp only [Option.some.injEq] at hs
      subst hs
      exact h.tr_frame hph hjob hw hmem hfz rfl rfl rfl rfl rfl rfl rfl rfl rfl rfl rfl rfl rfl rfl rfl rfl rfl rfl
        (Nat.le_refl _) ⟨hw, hmem, hfz, rfl, rfl⟩
    · cases hs
  | trPut recs =>
    simp only [stepTr] at hs
    split at hs
    · rename_i g hg
      split at hs
      · rename_i hjob
        simp only [Option.some.injEq] at hs
        subst hs
        have hph := h.tr_running hg
        have htr := (h.run hph).norecov.2
        unfold TrOK at htr
        rw [hg] at htr
        exact h.tr_frame hph hjob htr.1 htr.2.1 htr.2.2.1 rfl rfl rfl rfl rfl rfl rfl rfl rfl rfl rfl rfl rfl
          rfl rfl rfl rfl rfl (Nat.le_refl _) htr
      · cases hs
    · cases hs
  | trDiscard =>
    simp only [stepTr] at hs
    split at hs
    · rename_i g hg
      split at hs
      · rename_i hjob
        simp only [Option.some.injEq] at hs
        subst hs
        have hph := h.tr_running hg
        have htr := (h.run hph).norecov.2
        unfold TrOK at htr
        rw [hg] at htr
        exact h.tr_frame hph hjob htr.1 htr.2.1 htr.2.2.1 rfl rfl rfl rfl rfl rfl rfl rfl rfl rfl rfl rfl rfl
          rfl rfl rfl rfl rfl (Nat.le_max_left _ _) trivial
      · cases hs
    · cases hs
  | trCommit =>
    simp only [stepTr] at hs
    split at hs
    · rename_i g hg
      split at hs
      · rename_i hjob
        have hph : s.phase = .running := by
          exact h.tr_running hg
        split at hs
        · -- nothing to commit
          simp only [Option.some.injEq] at hs
          subst hs
          have htr0 := (h.run hph).norecov.2
          unfold TrOK at htr0
          rw [hg] at htr0
          exact h.tr_frame hph hjob htr0.1 htr0.2.1 htr0.2.2.1 rfl rfl rfl rfl rfl rfl rfl rfl rfl rfl rfl rfl
            rfl rfl rfl rfl rfl rfl (Nat.le_refl _) trivial
        · rename_i hne
          have hgne : g.recs ≠ [] := by simpa using hne
          simp only [Option.some.injEq] at hs
          subst hs
          have hrun := h.run hph
          have hb := h.bounds (by rw [hph]; decide)
          have hsett := hrun.nojob hjob
          obtain ⟨mf, vl, hcur, hlv, hvl⟩ := h.lastView_some
          have htr := hrun.norecov.2
          unfold TrOK at htr
          rw [hg] at htr
          obtain ⟨hw, hmem, hfz, hgs, hgsync⟩ :
            s.w = .idle ∧ s.mem = [] ∧ s.frozen = none ∧ g.seq = s.seq + 1 ∧ g.sync = true := htr
          constructor
          · apply h.disk.mono
            · intro x hx
              rw [must_eq] at hx ⊢
              simp only [ackedSync_append_pending] at hx
              exact hx
            · intro x hx
              simp only [issuedGrps, List.map_append, List.mem_append] at hx ⊢
              exact Or.inl hx
          · exact h.mm
          · intro _
            refine hb.of_same rfl ?_ (Nat.le_succ _) (fun _ => ⟨hph, Nat.le_refl _⟩)
            rw [seqHi_eq (not_trWindow_of_nojob hjob)]
            unfold seqHi sqCap
            simp only [hg, if_true]
            have := Grp.seq_lt_fin hgne
            split
            · omega
            · exact Nat.le_refl _
          · intro _
            obtain ⟨r1, r2, r3, r4, r5, r6, r7, r8, r9, r10⟩ := hrun
            have hmust' : ∀ (s' : St) (x : Grp), x ∈ must s' → s'.w = s.w → s'.issued = s.issued ++ [⟨g, .pending⟩] → x ∈ must s := by
              intro s' x hx e1 e2
              rw [must_eq] at hx ⊢
              rw [e1, e2] at hx
              simp only [ackedSync_append_pending] at hx
              exact hx
            refine ⟨r1, ⟨?_, r2.2⟩, ?_, ⟨Nat.lt_succ_of_lt r4.1, r4.2⟩, ⟨nums_bump r5.1 (Nat.lt_succ_self _),
              r5.2.imp (fun m hm => Nat.lt_succ_of_lt hm)⟩, ?_, ?_, ?_, (fun hc => by cases hc),
              r10.spawn hjob rfl (fun o ho => by
                simp only [List.mem_singleton] at ho
                subst ho
                exact Nat.le_refl _) (Or.inr rfl) rfl rfl rfl rfl rfl rfl (Nat.le_refl _)
                (fun x hx => Or.inl (hmust' _ x hx rfl rfl)) (Nat.le_succ _)⟩
            · exact r2.1.transport (by rw [hjob]; intro m hm; cases hm) (by intro m hm; cases hm) rfl rfl rfl
            · show Holds (lookup d.journals s.jcur) _
              refine r3.imp (fun jf hjf => ?_)
              obtain ⟨a, b, c, e⟩ := hjf
              exact ⟨a, fun x hx hxm => b x hx (hmust' _ x hxm rfl rfl), c, e⟩
            rotate_left 2
            · rw [holds_iff] at r8 ⊢
              obtain ⟨mf1, hmf1, r8⟩ := r8
              refine ⟨mf1, hmf1, ?_⟩
              rw [holds_iff] at r8 ⊢
              obtain ⟨v1, hv1, r8⟩ := r8
              refine ⟨v1, hv1, fun p hp hge => ?_⟩
              rcases r8 p hp hge with h1 | h1 | h1
              · exact Or.inl h1
              · exact Or.inr (Or.inl h1)
              · exact Or.inr (Or.inr ⟨fun x hx => ⟨fun hxm => (h1.1 x hx).1 (hmust' _ x hxm rfl rfl), (h1.1 x hx).2⟩, h1.2⟩)
            · have h6 := r6
              simp only [WSeqOK, hw] at h6 ⊢
              exact h6
            · rcases frozenOK_iff.1 r7 with ⟨h1, h2⟩ | ⟨fz, jf, h1, _⟩
              · exact frozenOK_iff.2 (Or.inl ⟨h1, h2⟩)
              · rw [hfz] at h1; cases h1
          · intro hc; rw [hph] at hc; cases hc
          · intro hc; rw [hph] at hc; cases hc
          · show JobOK cfg _ d _
            refine ⟨⟨Nat.le_refl _, Or.inl rfl⟩, ?_, ?_, ⟨?_, ?_⟩, ?_, ?_, ?_, trivial, ?_, (fun hc => by cases hc), ?_,
              (fun hc => by cases hc)⟩
            · show JobKindOK _ _
              simp [JobKindOK, hph, hg, Holds, hgne, issuedGrps]
            · show JobManifestOK cfg _ d _
              unfold JobManifestOK
              exact hsett
            · intro o ho
              simp only [List.mem_singleton] at ho
              subst ho
              exact Nat.lt_succ_self _
            · intro _
              apply holds_of_some hcur
              intro k hk
              obtain ⟨mf', v0, hparts⟩ := h.disk.parts
              have e : mf' = mf := by have := hparts.cur; rw [hcur] at this; exact (Option.some.inj this).symm
              subst e
              obtain ⟨v, hv, _, _⟩ := hparts.views k hk
              apply holds_of_some hv
              refine ⟨fun o ho => ?_, fun n hn => by cases hn⟩
              simp only [List.mem_singleton] at ho
              subst ho
              exact Or.inl (hb.all mf' hcur k hk v hv).2.1
            · exact ⟨rfl, rfl, rfl⟩
            · intro i o hi
              show OutOK d (.tCreate 0) i o
              unfold OutOK
              intro hlt'; exact absurd hlt' (Nat.not_lt_zero _)
            · show PcIdxOK _
              unfold PcIdxOK
              exact Nat.lt_succ_self _
            · rw [hlv]; trivial
            · show InputsOK _ d _ _
              unfold InputsOK
              rw [if_neg (fun hx => nomatch hx)]
              exact ⟨rfl, fun hx => absurd rfl hx, rfl⟩
      · cases hs
    · cases hs
  | _ => simp [stepTr] at hs

/-- the state after `Transaction.Discard` with a commit job at its retry point -/
abbrev St.discarded (s : St) (g : Grp) : St :=
  { s with tr := none, job := none, seq := max s.seq (g.fin - 1), hi := max s.hi g.fin, issued := setStatus g .failed s.issued }

/-- `Discard` after a failed `Commit` (the job is at its retry point): the transaction's table is removed, or — the
    manifest being uncertain — left behind as an obsolete file.  If the record of the commit is in the manifest
    `CURRENT` names (`St.limbo`), the table stays and the record becomes that of an orphan: a later `Open` adopts
    the table, whose sequence numbers are consumed and reported as failed. -/
theorem inv_trDiscardJob_core {cfg : Cfg} {s : St} {d : Disk} (h : Inv cfg s d) {g : Grp} {j : Job}
    (hg : s.tr = some g) (hj : s.job = some j) (hk : j.kind = .tr) (hpc : j.pc = .append) {T : Files TableFile}
    (hT : T = d.tables ∨ (s.limbo = none ∧ ∃ t, j.outs = [(t, [g])] ∧ T = d.tables.erase t)) :
    Inv cfg (s.discarded g) { d with tables := T } := by
  have hok := h.job
  rw [hj] at hok
  have hok : JobOK cfg s d j := hok
  have hbc : j.pc.beforeCommit = true := by rw [hpc]; rfl
  have hsett : Settled cfg s d (MirrorL s) := hok.mirror_before hbc
  have hkind := hok.kind
  unfold JobKindOK at hkind
  rw [hk] at hkind
  simp only at hkind
  obtain ⟨hph, _, _, _, hkind'⟩ := hkind
  have hrun := h.run hph
  have hb := h.bounds (by rw [hph]; decide)
  have htr := hrun.norecov.2
  unfold TrOK at htr
  rw [hg] at htr
  obtain ⟨hw, hmem, hfz, hgs, _⟩ : s.w = .idle ∧ s.mem = [] ∧ s.frozen = none ∧ g.seq = s.seq + 1 ∧ g.sync = true := htr
  have hmust : ∀ x ∈ must (s.discarded g), x ∈ must s := by
    intro x hx
    rw [must_eq] at hx ⊢
    simp only [hw, List.append_nil] at hx ⊢
    exact (mem_ackedSync_setStatus_failed hx).1
  have hgm : g ∉ must (s.discarded g) := by
    intro hx
    rw [must_eq] at hx
    simp only [hw, List.append_nil] at hx
    exact (mem_ackedSync_setStatus_failed hx).2 rfl
  have hiss : ∀ x ∈ issuedGrps s, x ∈ issuedGrps (s.discarded g) := by
    intro x hx
    simp only [issuedGrps, issuedGrps_setStatus] at hx ⊢
    exact hx
  have hq : s.seq ≤ (s.discarded g).seq := Nat.le_max_left _ _
  have hmg : MustGrows s (s.discarded g) := fun x hx => Or.inl (hmust x hx)
  constructor
  · apply DiskOK.frame h.disk (d' := { d with tables := T }) rfl rfl _ _ h.disk.mnodup hmust hiss
    · intro mf hc k hk' v hv t ht
      rcases hT with rfl | ⟨hl, t0, ho, rfl⟩
      · rfl
      · show lookup (d.tables.erase t0) t = _
        rw [lookup_erase, if_neg]
        intro e
        have hf := holds_some (holds_some (hok.fresh.2 hbc) hc k hk') hv
        have h1 := (hf.1 (t0, [g]) (by rw [ho]; exact List.mem_singleton.2 rfl)).resolve_right (fun hx => by
          have := hx.2.1; rw [hl] at this; cases this)
        have h2 := ((h.disk.allViews mf hc k hk' v hv).tables t ht).1
        simp only at h1
        omega
    · rcases hT with rfl | ⟨_, t0, _, rfl⟩
      · exact h.disk.tnodup
      · exact pairwise_erase t0 h.disk.tnodup
  · exact h.mm.of_same rfl rfl
  · intro _
    refine hb.of_same rfl ?_ (Nat.le_refl _) (fun _ => ⟨hph, Nat.le_refl _⟩)
    rw [seqHi_eq (s := s.discarded g) (not_trWindow_of_nojob rfl)]
    unfold seqHi sqCap
    rw [hj]
    simp only [hk, hg, if_true]
    split
    · exact Nat.le_max_right _ _
    · exact Nat.le_max_left _ _
  · intro _
    obtain ⟨r1, r2, r3, r4, r5, r6, r7, r8, r9, r10⟩ := hrun
    refine ⟨⟨r1.1, trivial⟩, ⟨r2.1.transport (by
        rw [hj]; intro m hm
        simp only [Option.map_some, hpc] at hm
        cases hm) (by intro m hm; cases hm) rfl rfl rfl, r2.2⟩, ?_, r4, r5, ?_, ?_, ?_, fun _ => ?_, ?_⟩
    · refine r3.imp (fun jf hjf => ?_)
      obtain ⟨a, b, c, e⟩ := hjf
      refine ⟨a, fun x hx hxm => b x hx (hmust x hxm), fun x hx => ?_, e⟩
      rcases c x hx with h1 | h1
      · exact Or.inl h1
      · exact Or.inr (Nat.le_trans h1 (Nat.succ_le_succ hq))
    · show WSeqOK _
      simp only [WSeqOK, hw, hmem]
      intro x hx; cases hx
    · rcases frozenOK_iff.1 r7 with ⟨h1, h2⟩ | ⟨fz, jf, h1, _⟩
      · exact frozenOK_iff.2 (Or.inl ⟨h1, h2⟩)
      · rw [hfz] at h1; cases h1
    · refine r8.imp (fun mf1 hmf1 => hmf1.imp (fun v1 hv1 p hp hge => ?_))
      rcases hv1 p hp hge with h1 | h1 | h1
      · exact Or.inl h1
      · exact Or.inr (Or.inl h1)
      · exact Or.inr (Or.inr ⟨h1.1.mono hq hmg, h1.2⟩)
    · exact hsett
    · -- the edit that may be in the manifest is now that of an orphan
      unfold LimboOK
      show Holds' s.limbo _
      cases hu : s.limbo with
      | none => trivial
      | some u =>
        have hTd : T = d.tables := by
          rcases hT with rfl | ⟨hl, _⟩
          · rfl
          · rw [hu] at hl; cases hl
        subst hTd
        have hlf : LimboFacts s d u := by
          have := r10; unfold LimboOK at this; rw [hu] at this; exact this
        obtain ⟨a, b, c, e1, f, gl, k0, k⟩ := hlf
        refine ⟨a, b, c, e1, f, gl, trivial, Or.inr ?_⟩
        rcases k with k | k
        · rw [hj] at k
          obtain ⟨ke, _⟩ : j.edit = some u ∧ j.pc.retry = true := k
          rw [hg] at hkind'
          have hkk : Holds j.edit fun e => e.jn = none ∧ e.sq = some (g.fin - 1) ∧
              j.outs = [(e.added.headD 0, [g])] ∧ g.recs ≠ [] ∧ g ∈ issuedGrps s := hkind'
          rw [ke] at hkk
          obtain ⟨ejn, esq, houts, hgne, _⟩ :
            u.jn = none ∧ u.sq = some (g.fin - 1) ∧ j.outs = [(u.added.headD 0, [g])] ∧ g.recs ≠ [] ∧
              g ∈ issuedGrps s := hkk
          have hsh := hok.shape
          rw [ke] at hsh
          have hadd : u.added = [u.added.headD 0] := by
            have := hsh.1
            rw [houts] at this
            exact this
          have hin := hok.inputs
          rw [ke] at hin
          have hin : InputsOK s d j u := hin
          unfold InputsOK at hin
          rw [if_neg (by rw [hk]; exact fun hx => nomatch hx)] at hin
          have htab := hok.tables 0 (u.added.headD 0, [g]) (by rw [houts]; rfl)
          unfold OutOK at htab
          rw [hpc] at htab
          have htab := htab rfl
          rw [holds_iff] at htab
          obtain ⟨tf, htf, rfl⟩ := htab
          refine ⟨hin.1, ejn, holds_of_some (a := u.added.headD 0) (by rw [hadd]; rfl) ⟨hadd, ?_, ?_⟩⟩
          · exact hok.fresh.1 (u.added.headD 0, [g]) (by rw [houts]; exact List.mem_singleton.2 rfl)
          · refine holds_of_some htf ⟨rfl, rfl, holds_of_some (a := g) rfl ⟨rfl, esq, hgm, hgne, ?_, trivial⟩⟩
            show g.fin ≤ max s.seq (g.fin - 1) + 1
            have := Nat.le_max_right s.seq (g.fin - 1)
            omega
        · obtain ⟨k1, k2, k3⟩ := k
          refine ⟨k1, k2, k3.imp (fun t ht => ⟨ht.1, ht.2.1, ht.2.2.imp (fun tf htf => ⟨htf.1, htf.2.1,
            htf.2.2.imp (fun g0 hg0 => ?_)⟩)⟩)⟩
          obtain ⟨m1, m2, m4, m5, m6, m7⟩ := hg0
          exact ⟨m1, m2, fun hx => m4 (hmust g0 hx), m5, Nat.le_trans m6 (Nat.succ_le_succ hq), trivial⟩
  · intro hc; rw [hph] at hc; cases hc
  · intro hc; rw [hph] at hc; cases hc
  · trivial

/-- `Discard` with a commit job at its retry point.  While the storage may be ahead of the session (`St.limbo`) the
    step keeps the invariant because the repaired `Discard` leaves the tables alone (`discardKeepsTablesWhenUncertain`,
    commit 5cf4e90); the old code removes them: `C08.d10_discard_after_failed_commit_loses_table`. -/
theorem inv_trDiscardJob {cfg : Cfg} {s : St} {d : Disk} (h : Inv cfg s d) {s' : St} {d' : Disk}
    (hD10 : s.limbo = none ∨ cfg.discardKeepsTablesWhenUncertain = true)
    (hs : trDiscardJob cfg s d = some (s', d')) : Inv cfg s' d' := by
  unfold trDiscardJob at hs
  split at hs
  · rename_i g j hg hj
    split at hs
    · rename_i hc
      obtain ⟨hk, hpc⟩ := hc
      simp only [Option.some.injEq, Prod.mk.injEq] at hs
      obtain ⟨rfl, rfl⟩ := hs
      have hok := h.job
      rw [hj] at hok
      have hok : JobOK cfg s d j := hok
      have hkind := hok.kind
      unfold JobKindOK at hkind
      rw [hk] at hkind
      simp only at hkind
      obtain ⟨hph, _, _, _, hkind⟩ := hkind
      rw [hg] at hkind
      have hkind : Holds j.edit fun e => e.jn = none ∧ e.sq = some (g.fin - 1) ∧
          j.outs = [(e.added.headD 0, [g])] ∧ g.recs ≠ [] ∧ g ∈ issuedGrps s := hkind
      rw [holds_iff] at hkind
      obtain ⟨e, he, _, _, houts, _⟩ := hkind
      split
      · exact inv_trDiscardJob_core h hg hj hk hpc (Or.inl rfl)
      · rename_i hkeep
        have hl : s.limbo = none := by
          cases hu : s.limbo with
          | none => rfl
          | some u =>
            exfalso
            have hlf := (h.run hph).limbo
            unfold LimboOK at hlf
            rw [hu] at hlf
            have hmf : s.manifestFailed = true := (hlf : LimboFacts s d u).1
            rcases hD10 with h1 | h1
            · rw [hu] at h1; cases h1
            · exact hkeep (by rw [h1, hmf]; rfl)
        have : (j.outs.foldl (fun d o => d.apply (.remove .table o.1)) d) =
            { d with tables := d.tables.erase (e.added.headD 0) } := by
          rw [houts]; rfl
        rw [this]
        exact inv_trDiscardJob_core h hg hj hk hpc (Or.inr ⟨hl, _, houts, rfl⟩)
    · cases hs
  · cases hs

end GoLevel.Dur
