import GoLevel.Proofs.DurableStepJ14
/-!
The transaction protocol (`OpenTransaction`, `Transaction.Put…`, `Commit`, `Discard`) preserves the invariant.
The commit itself is a `Job` of kind `tr` (its steps are the generic ones of `DurableStepJ*.lean`; its last
step, `db.setSeq(tr.seq)`, is `inv_done_tr`).
-/
namespace GoLevel.Dur

/-- the parts of the invariant that do not look at `tr` -/
theorem Inv.set_tr {cfg : Cfg} {s : St} {d : Disk} (h : Inv cfg s d) (hph : s.phase = .running)
    (hjob : s.job = none) (t' : Option Grp) (htr : TrOK { s with tr := t' }) : Inv cfg { s with tr := t' } d := by
  have hrun := h.run hph
  have hb := h.bounds (by rw [hph]; decide)
  constructor
  · exact h.disk
  · exact h.mm
  · intro _
    exact hb.of_same rfl (seqHi_le_of_not_window (not_trWindow_of_nojob hjob) (not_trWindow_of_nojob hjob)
      (Nat.le_refl _)) (Nat.le_refl _) (fun _ => ⟨hph, Nat.le_refl _⟩)
  · intro _
    obtain ⟨r1, r2, r3, r4, r5, r6, r7, r8, r9⟩ := hrun
    exact ⟨⟨r1.1, htr⟩, r2, r3, r4, r5, r6, r7, r8, r9⟩
  · intro hc; rw [hph] at hc; cases hc
  · intro hc; rw [hph] at hc; cases hc
  · show Holds' s.job _
    rw [hjob]; trivial

/-- `Discard`: the transaction is gone, `db.seq` moves past the numbers it used -/
theorem Inv.discard_tr {cfg : Cfg} {s : St} {d : Disk} (h : Inv cfg s d) (hph : s.phase = .running)
    (hjob : s.job = none) {g : Grp} (hg : s.tr = some g) (q' h' : Nat) (hq : s.seq ≤ q') :
    Inv cfg { s with tr := none, seq := q', hi := h' } d := by
  have hrun := h.run hph
  have hb := h.bounds (by rw [hph]; decide)
  have htr := hrun.norecov.2
  unfold TrOK at htr
  rw [hg] at htr
  obtain ⟨hw, hmem, hfz, _, _⟩ : s.w = .idle ∧ s.mem = [] ∧ s.frozen = none ∧ g.seq = s.seq + 1 ∧ g.sync = true := htr
  constructor
  · exact h.disk
  · exact h.mm
  · intro _
    exact hb.of_same rfl (seqHi_le_of_not_window (not_trWindow_of_nojob hjob) (not_trWindow_of_nojob hjob) hq)
      (Nat.le_refl _) (fun _ => ⟨hph, Nat.le_refl _⟩)
  · intro _
    obtain ⟨r1, r2, r3, r4, r5, r6, r7, r8, r9⟩ := hrun
    refine ⟨⟨r1.1, trivial⟩, r2, r3, r4, r5, ?_, ?_, r8, r9⟩
    · show WSeqOK _
      simp only [WSeqOK, hw, hmem]
      intro x hx; cases hx
    · rcases frozenOK_iff.1 r7 with ⟨h1, h2⟩ | ⟨fz, jf, h1, _⟩
      · exact frozenOK_iff.2 (Or.inl ⟨h1, h2⟩)
      · rw [hfz] at h1; cases h1
  · intro hc; rw [hph] at hc; cases hc
  · intro hc; rw [hph] at hc; cases hc
  · show Holds' s.job _
    rw [hjob]; trivial

theorem inv_stepTr {cfg : Cfg} {s : St} {d : Disk} (h : Inv cfg s d) {a : Act} {s' : St}
    (hs : stepTr s a = some s') : Inv cfg s' d := by
  cases a with
  | trBegin =>
    simp only [stepTr] at hs
    split at hs
    · rename_i hg
      obtain ⟨hph, hw, hmem, hfz, hjob, _⟩ := hg
      simp only [Option.some.injEq] at hs
      subst hs
      exact h.set_tr hph hjob _ ⟨hw, hmem, hfz, rfl, rfl⟩
    · cases hs
  | trPut recs =>
    simp only [stepTr] at hs
    split at hs
    · rename_i g hg
      split at hs
      · rename_i hjob
        simp only [Option.some.injEq] at hs
        subst hs
        have hph : s.phase = .running := by
          rcases hp : s.phase with _ | _ | _
          · have := (h.crashed hp).2.2.2; rw [hg] at this; cases this
          · have := h.recov hp
            rw [holds_iff] at this
            obtain ⟨r, _, hr⟩ := this
            have := hr.idle.2.2; rw [hg] at this; cases this
          · rfl
        have htr := (h.run hph).norecov.2
        unfold TrOK at htr
        rw [hg] at htr
        exact h.set_tr hph hjob _ htr
      · cases hs
    · cases hs
  | trDiscard =>
    simp only [stepTr] at hs
    split at hs
    · rename_i g hg
      split at hs
      · rename_i hjob
        simp only [Option.some.injEq] at hs
        subst hs
        have hph : s.phase = .running := by
          rcases hp : s.phase with _ | _ | _
          · have := (h.crashed hp).2.2.2; rw [hg] at this; cases this
          · have := h.recov hp
            rw [holds_iff] at this
            obtain ⟨r, _, hr⟩ := this
            have := hr.idle.2.2; rw [hg] at this; cases this
          · rfl
        exact h.discard_tr hph hjob hg _ _ (Nat.le_max_left _ _)
      · cases hs
    · cases hs
  | trCommit =>
    simp only [stepTr] at hs
    split at hs
    · rename_i g hg
      split at hs
      · rename_i hjob
        have hph : s.phase = .running := by
          rcases hp : s.phase with _ | _ | _
          · have := (h.crashed hp).2.2.2; rw [hg] at this; cases this
          · have := h.recov hp
            rw [holds_iff] at this
            obtain ⟨r, _, hr⟩ := this
            have := hr.idle.2.2; rw [hg] at this; cases this
          · rfl
        split at hs
        · -- nothing to commit
          simp only [Option.some.injEq] at hs
          subst hs
          exact h.set_tr hph hjob none trivial
        · rename_i hne
          have hgne : g.recs ≠ [] := by simpa using hne
          simp only [Option.some.injEq] at hs
          subst hs
          have hrun := h.run hph
          have hb := h.bounds (by rw [hph]; decide)
          have hsett := hrun.nojob hjob
          obtain ⟨mf, vl, hcur, hlv, hvl⟩ := h.lastView_some
          have hmfd : s.manifestFd = d.current := by
            have := hrun.mfd.1
            unfold MfdOK at this
            rw [hjob] at this
            exact this
          have htr := hrun.norecov.2
          unfold TrOK at htr
          rw [hg] at htr
          obtain ⟨hw, hmem, hfz, hgs, hgsync⟩ :
            s.w = .idle ∧ s.mem = [] ∧ s.frozen = none ∧ g.seq = s.seq + 1 ∧ g.sync = true := htr
          constructor
          · apply h.disk.mono
            · intro x hx
              rw [must_eq] at hx ⊢
              simp only [ackedSync_append_pending] at hx
              exact hx
            · intro x hx
              simp only [issuedGrps, List.map_append, List.mem_append] at hx ⊢
              exact Or.inl hx
          · exact h.mm
          · intro _
            exact hb.of_same rfl (seqHi_le_of_not_window (not_trWindow_of_nojob hjob)
              (not_trWindow_of_bc rfl rfl) (Nat.le_refl _)) (Nat.le_succ _) (fun _ => ⟨hph, Nat.le_refl _⟩)
          · intro _
            obtain ⟨r1, r2, r3, r4, r5, r6, r7, r8, r9⟩ := hrun
            refine ⟨r1, ⟨?_, r2.2⟩, r3, r4, ⟨fun p hp => Nat.lt_succ_of_lt (r5.1 p hp),
              r5.2.imp (fun m hm => Nat.lt_succ_of_lt hm)⟩, ?_, ?_, r8, fun hc => by cases hc⟩
            · show MfdOK _ d; unfold MfdOK; exact hmfd
            · have h6 := r6
              simp only [WSeqOK, hw] at h6 ⊢
              exact h6
            · rcases frozenOK_iff.1 r7 with ⟨h1, h2⟩ | ⟨fz, jf, h1, _⟩
              · exact frozenOK_iff.2 (Or.inl ⟨h1, h2⟩)
              · rw [hfz] at h1; cases h1
          · intro hc; rw [hph] at hc; cases hc
          · intro hc; rw [hph] at hc; cases hc
          · show JobOK cfg _ d _
            refine ⟨⟨Nat.le_refl _, Or.inl rfl⟩, ?_, ?_, ⟨?_, ?_⟩, ?_, ?_, ?_, trivial, ?_, (fun hc => by cases hc), ?_,
              (fun hc => by cases hc)⟩
            · show JobKindOK _ _
              simp [JobKindOK, hph, hg, Holds, hgne, issuedGrps]
            · show JobManifestOK cfg _ d _
              unfold JobManifestOK
              exact hsett
            · intro o ho
              simp only [List.mem_singleton] at ho
              subst ho
              exact Nat.lt_succ_self _
            · intro _
              apply holds_of_some hcur
              intro k hk
              obtain ⟨mf', v0, hparts⟩ := h.disk.parts
              have e : mf' = mf := by have := hparts.cur; rw [hcur] at this; exact (Option.some.inj this).symm
              subst e
              obtain ⟨v, hv, _, _⟩ := hparts.views k hk
              apply holds_of_some hv
              refine ⟨fun o ho => ?_, fun n hn => by cases hn⟩
              simp only [List.mem_singleton] at ho
              subst ho
              exact (hb.all mf' hcur k hk v hv).2.1
            · exact ⟨rfl, rfl, rfl⟩
            · intro i o hi
              show OutOK d (.tCreate 0) i o
              unfold OutOK
              intro hlt'; exact absurd hlt' (Nat.not_lt_zero _)
            · show PcIdxOK _
              unfold PcIdxOK
              exact Nat.lt_succ_self _
            · rw [hlv]; trivial
            · show InputsOK _ d _ _
              unfold InputsOK
              rw [if_neg (fun hx => nomatch hx)]
              exact ⟨rfl, fun hx => absurd rfl hx, rfl⟩
      · cases hs
    · cases hs
  | _ => simp [stepTr] at hs

end GoLevel.Dur
