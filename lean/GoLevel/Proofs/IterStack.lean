import GoLevel.Proofs.IterMerged
import GoLevel.Proofs.IterIndexed
import GoLevel.Proofs.IterRange
/-!
# The whole stack: `DBIter` over `MergedIter` over array / indexed children

Core Lean only.
-/
namespace GoLevel

/-- what a child of the merged raw iterator is supposed to present -/
inductive NodeSpec
  | arr (xs : List Entry)
  | idx (chs : List IdxChild)

namespace NodeSpec

def list : NodeSpec → List Entry
  | .arr xs => xs
  | .idx chs => chs.flatMap (·.es)

def OK (c : UCmp) : NodeSpec → Prop
  | .arr _ => True
  | .idx chs => IdxOK c chs

/-- the freshly created child iterator (`NewArrayIterator` / memdb / table iterator, `NewIndexedIterator`) -/
def fresh : NodeSpec → Node
  | .arr xs => .arr ⟨xs, .soi⟩
  | .idx chs => .idx (IndexedIter.new chs)

def Rel (c : UCmp) : NodeSpec → Node → Pos → Prop
  | .arr xs, .arr a, p => ArrIter.Rel xs a p
  | .idx chs, .idx x, p => IndexedIter.Rel c chs x p
  | _, _, _ => False

theorem rel_fresh (c : UCmp) (sp : NodeSpec) : sp.Rel c sp.fresh .soi := by
  cases sp with
  | arr xs => exact ⟨rfl, rfl, trivial⟩
  | idx chs => exact IndexedIter.rel_new c chs

theorem sim {c : UCmp} (hl : LawfulUCmp c) (sp : NodeSpec) (hok : sp.OK c) :
    Sim (Node.ops c) c sp.list (sp.Rel c) := by
  cases sp with
  | arr xs =>
    have h := ArrIter.sim c xs
    refine ⟨?_, ?_, ?_, ?_, ?_, ?_, ?_⟩
    · intro s p hr; cases s with
      | arr a => exact h.wf a p hr
      | idx x => exact hr.elim
    · intro s p hr; cases s with
      | arr a => exact h.first a p hr
      | idx x => exact hr.elim
    · intro s p hr; cases s with
      | arr a => exact h.last a p hr
      | idx x => exact hr.elim
    · intro s p k hr; cases s with
      | arr a => exact h.seek a p k hr
      | idx x => exact hr.elim
    · intro s p hr; cases s with
      | arr a => exact h.next a p hr
      | idx x => exact hr.elim
    · intro s p hr; cases s with
      | arr a => exact h.prev a p hr
      | idx x => exact hr.elim
    · intro s p hr; cases s with
      | arr a => exact h.cur a p hr
      | idx x => exact hr.elim
  | idx chs =>
    have h := IndexedIter.sim hl chs hok
    refine ⟨?_, ?_, ?_, ?_, ?_, ?_, ?_⟩
    · intro s p hr; cases s with
      | idx x => exact h.wf x p hr
      | arr a => exact hr.elim
    · intro s p hr; cases s with
      | idx x => exact h.first x p hr
      | arr a => exact hr.elim
    · intro s p hr; cases s with
      | idx x => exact h.last x p hr
      | arr a => exact hr.elim
    · intro s p k hr; cases s with
      | idx x => exact h.seek x p k hr
      | arr a => exact hr.elim
    · intro s p hr; cases s with
      | idx x => exact h.next x p hr
      | arr a => exact hr.elim
    · intro s p hr; cases s with
      | idx x => exact h.prev x p hr
      | arr a => exact hr.elim
    · intro s p hr; cases s with
      | idx x => exact h.cur x p hr
      | arr a => exact hr.elim

end NodeSpec

/-- relation of child `i` of the stack -/
def stackRs (c : UCmp) (specs : List NodeSpec) (i : Nat) (s : Node) (p : Pos) : Prop :=
  match specs[i]? with
  | some sp => sp.Rel c s p
  | none => False

theorem stack_children_sim {c : UCmp} (hl : LawfulUCmp c) (specs : List NodeSpec)
    (hok : ∀ sp ∈ specs, sp.OK c) (i : Nat) (L : List Entry) (h : (specs.map (·.list))[i]? = some L) :
    Sim (Node.ops c) c L (stackRs c specs i) := by
  rw [List.getElem?_map] at h
  cases hsp : specs[i]? with
  | none => rw [hsp] at h; simp at h
  | some sp =>
    rw [hsp] at h
    simp only [Option.map_some, Option.some.injEq] at h
    subst h
    have : stackRs c specs i = sp.Rel c := by
      funext s p; simp [stackRs, hsp]
    rw [this]
    exact sp.sim hl (hok sp (List.mem_of_getElem? hsp))

theorem stack_rel_new (c : UCmp) (specs : List NodeSpec) (U : List Entry) :
    MergedIter.Rel (Node.ops c) c (stackRs c specs) (specs.map (·.list)) U
      (MergedIter.new (specs.map (·.fresh))) .soi := by
  apply MergedIter.rel_new
  · simp
  · intro i s hs
    rw [List.getElem?_map] at hs
    cases hsp : specs[i]? with
    | none => rw [hsp] at hs; simp at hs
    | some sp =>
      rw [hsp] at hs
      simp only [Option.map_some, Option.some.injEq] at hs
      subst hs
      simp only [stackRs, hsp]
      exact sp.rel_fresh c

/-- range restriction of every child restricts the union -/
theorem MergeOK.filter {c : UCmp} {Ls : List (List Entry)} {U : List Entry} (h : MergeOK c Ls U)
    (g : Entry → Bool) : MergeOK c (Ls.map (·.filter g)) (U.filter g) where
  sortedU := List.Pairwise.sublist List.filter_sublist h.sortedU
  mem := by
    intro e
    simp only [List.mem_filter, List.mem_map, h.mem]
    constructor
    · rintro ⟨⟨L, hL, he⟩, hg⟩
      exact ⟨L.filter g, ⟨L, hL, rfl⟩, List.mem_filter.2 ⟨he, hg⟩⟩
    · rintro ⟨_, ⟨L, hL, rfl⟩, he⟩
      have := List.mem_filter.1 he
      exact ⟨⟨L, hL, this.1⟩, this.2⟩
  sortedL := by
    intro L hL
    obtain ⟨L0, hL0, rfl⟩ := List.mem_map.1 hL
    exact List.Pairwise.sublist List.filter_sublist (h.sortedL L0 hL0)
  distinct := by
    intro i j Li Lj a b hij hi hj ha hb
    rw [List.getElem?_map] at hi hj
    cases hi' : Ls[i]? with
    | none => rw [hi'] at hi; simp at hi
    | some Li0 =>
      cases hj' : Ls[j]? with
      | none => rw [hj'] at hj; simp at hj
      | some Lj0 =>
        rw [hi'] at hi; rw [hj'] at hj
        simp only [Option.map_some, Option.some.injEq] at hi hj
        subst hi; subst hj
        exact h.distinct i j Li0 Lj0 a b hij hi' hj' (List.mem_filter.1 ha).1 (List.mem_filter.1 hb).1

end GoLevel
