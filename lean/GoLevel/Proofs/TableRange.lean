import GoLevel.Proofs.TableF
/-! C13: content of a range-restricted iterator (`NewIterator(&util.Range{Start, Limit})`) on a written table. -/
namespace GoLevel.C13
open GoLevel GoLevel.TableAux BlockWriter TableWriter TableR

/-! ## list lemmas -/

theorem dropWhile_false {α : Type} (l : List α) : l.dropWhile (fun _ => false) = l := by
  cases l <;> simp

theorem takeWhile_true {α : Type} (l : List α) : l.takeWhile (fun _ => true) = l := by
  induction l with
  | nil => rfl
  | cons a t ih => simp [ih]

theorem dropWhile_true {α : Type} (l : List α) : l.dropWhile (fun _ => true) = [] := by
  induction l with
  | nil => rfl
  | cons a t ih => simp [ih]

theorem dropWhile_all {α : Type} (p : α → Bool) (l : List α) (h : ∀ x ∈ l, p x = false) : l.dropWhile p = l := by
  cases l with
  | nil => rfl
  | cons a t => simp [h a (List.mem_cons_self ..)]

theorem takeWhile_all {α : Type} (p : α → Bool) (l : List α) (h : ∀ x ∈ l, p x = true) : l.takeWhile p = l := by
  induction l with
  | nil => rfl
  | cons a t ih =>
    simp [h a (List.mem_cons_self ..), ih (fun x hx => h x (List.mem_cons_of_mem _ hx))]

theorem dropWhile_append_fail {α : Type} (p : α → Bool) (l X : List α) (h : ∀ x ∈ X, p x = false) :
    (l ++ X).dropWhile p = l.dropWhile p ++ X := by
  induction l with
  | nil => simpa using dropWhile_all p X h
  | cons a t ih =>
    cases hp : p a <;> simp [hp, ih]

theorem takeWhile_append_fail {α : Type} (p : α → Bool) (l X : List α) (h : ∀ x ∈ X, p x = false) :
    (l ++ X).takeWhile p = l.takeWhile p := by
  induction l with
  | nil =>
    cases X with
    | nil => rfl
    | cons x t => simp [h x (List.mem_cons_self ..)]
  | cons a t ih =>
    cases hp : p a <;> simp [hp, ih]

theorem mem_of_mem_dropWhile {α : Type} (p : α → Bool) (l : List α) (x : α) (h : x ∈ l.dropWhile p) : x ∈ l :=
  (List.dropWhile_sublist p).subset h

theorem mapLast_id {α : Type} (f : α → α) : ∀ l : List α, (∀ c ∈ l, f c = c) → mapLast f l = l := by
  intro l
  induction l with
  | nil => intro _; rfl
  | cons a t ih =>
    intro h
    cases t with
    | nil => simp [mapLast, h a (List.mem_cons_self ..)]
    | cons b t' =>
      simp only [mapLast]
      rw [ih (fun c hc => h c (List.mem_cons_of_mem _ hc))]

theorem mapLast_snoc {α : Type} (f : α → α) (c : α) : ∀ l : List α, mapLast f (l ++ [c]) = l ++ [f c] := by
  intro l
  induction l with
  | nil => rfl
  | cons a t ih =>
    cases t with
    | nil => simp [mapLast]
    | cons b t' =>
      show a :: mapLast f (b :: t' ++ [c]) = a :: (b :: t' ++ [f c])
      rw [ih]

theorem mapEnds_id {α : Type} (f : α → α) (l : List α) (h : ∀ c ∈ l, f c = c) : mapEnds f l = l := by
  cases l with
  | nil => rfl
  | cons a t =>
    cases t with
    | nil => simp [mapEnds, h a (List.mem_cons_self ..)]
    | cons b t' =>
      simp only [mapEnds]
      rw [h a (List.mem_cons_self ..), mapLast_id f _ (fun c hc => h c (List.mem_cons_of_mem _ hc))]

/-! ## the two range predicates -/

/-- "below `Start`" (nothing is, without a start) -/
def belowStart (cmp : Bytes → Bytes → Ordering) (start : Option Bytes) : KV → Bool :=
  match start with
  | none => fun _ => false
  | some s => fun e => cmp e.1 s == .lt

/-- "below `Limit`" (everything is, without a limit) -/
def belowLimit (cmp : Bytes → Bytes → Ordering) (limit : Option Bytes) : KV → Bool :=
  match limit with
  | none => fun _ => true
  | some l => fun e => cmp e.1 l == .lt

/-- a predicate on pairs that looks at the key only and is closed downwards -/
def DownClosed (cmp : Bytes → Bytes → Ordering) (P : KV → Bool) : Prop :=
  ∀ a b : KV, cmp a.1 b.1 ≠ .gt → P b = true → P a = true

theorem belowStart_down {cmp : Bytes → Bytes → Ordering} (hc : LawfulCmp cmp) (start : Option Bytes) :
    DownClosed cmp (belowStart cmp start) := by
  intro a b hab hb
  cases start with
  | none => simp [belowStart] at hb
  | some s =>
    simp only [belowStart, beq_iff_eq] at hb ⊢
    exact hc.lt_of_le_of_lt hab hb

theorem belowLimit_down {cmp : Bytes → Bytes → Ordering} (hc : LawfulCmp cmp) (limit : Option Bytes) :
    DownClosed cmp (belowLimit cmp limit) := by
  intro a b hab hb
  cases limit with
  | none => rfl
  | some s =>
    simp only [belowLimit, beq_iff_eq] at hb ⊢
    exact hc.lt_of_le_of_lt hab hb

theorem sliceBlock_eq (cmp : Bytes → Bytes → Ordering) (start limit : Option Bytes) (es : List KV) :
    sliceBlock cmp start limit es = (es.dropWhile (belowStart cmp start)).takeWhile (belowLimit cmp limit) := by
  cases start <;> cases limit <;> simp [sliceBlock, belowStart, belowLimit, dropWhile_false, takeWhile_true]

theorem sliceIndex_eq (cmp : Bytes → Bytes → Ordering) (start limit : Option Bytes) (ix : List KV) :
    sliceIndex cmp start limit ix =
      (ix.dropWhile (belowStart cmp start)).takeWhile (belowLimit cmp limit) ++
        ((ix.dropWhile (belowStart cmp start)).dropWhile (belowLimit cmp limit)).take 1 := by
  cases start <;> cases limit <;>
    simp [sliceIndex, belowStart, belowLimit, dropWhile_false, takeWhile_true, dropWhile_true]

/-! ## index entries and chunks -/

theorem ixE_length (cfg : TableCfg) (tl : List KV) : ∀ (cs : List (List KV)) (off : Nat),
    (ixE cfg off cs tl).length = cs.length := by
  intro cs
  induction cs with
  | nil => intro off; rfl
  | cons c rest ih => intro off; simp [ixE, ih]

/-- `ixE_split` with the prefix as well -/
theorem ixE_split' (cfg : TableCfg) (p : KV → Bool) (tl : List KV) (cs : List (List KV)) (off : Nat) :
    ∃ csL csR, cs = csL ++ csR ∧
      (∀ e ∈ ixE cfg off csL (csR.flatten ++ tl), p e = true) ∧
      (ixE cfg off cs tl).takeWhile p = ixE cfg off csL (csR.flatten ++ tl) ∧
      (ixE cfg off cs tl).dropWhile p = ixE cfg (off + (dataBytes cfg csL).length) csR tl ∧
      (∀ e, (ixE cfg (off + (dataBytes cfg csL).length) csR tl).head? = some e → p e = false) := by
  obtain ⟨csL, csR, hsplit, hall, hdw, hhd⟩ := ixE_split cfg p tl cs off
  refine ⟨csL, csR, hsplit, hall, ?_, hdw, hhd⟩
  have h1 := List.takeWhile_append_dropWhile (p := p) (l := ixE cfg off cs tl)
  have h2 : ixE cfg off cs tl = ixE cfg off csL (csR.flatten ++ tl) ++ ixE cfg (off + (dataBytes cfg csL).length) csR tl := by
    rw [hsplit, ixE_append]
  rw [hdw] at h1
  exact List.append_cancel_right (h1.trans h2)

/-- a down-closed predicate that holds of every index key of the chunks holds of all their keys -/
theorem all_of_ix_all {cfg : TableCfg} (hc : LawfulCmp cfg.cmp) (hsep : SepOK cfg) (hsucc : SuccOK cfg)
    (P : KV → Bool) (hP : DownClosed cfg.cmp P) (tl : List KV) : ∀ (cs : List (List KV)) (off : Nat),
    ChunksOK cfg cs tl → (∀ e ∈ ixE cfg off cs tl, P e = true) → ∀ kv ∈ cs.flatten, P kv = true := by
  intro cs
  induction cs with
  | nil => intro off _ _ kv hkv; simp at hkv
  | cons c rest ih =>
    intro off h hall kv hkv
    simp only [List.flatten_cons, List.mem_append] at hkv
    rcases hkv with hkv | hkv
    · have h1 := (h.head hc hsep hsucc).1 kv hkv
      have h2 := hall _ (by simp only [ixE]; exact List.mem_cons_self ..)
      exact hP kv _ h1 h2
    · exact ih _ h.tail (fun e he => hall e (by simp only [ixE]; exact List.mem_cons_of_mem _ he)) kv hkv

/-- if a down-closed predicate fails at the index key of the first chunk, it fails for everything after it -/
theorem none_after_head {cfg : TableCfg} (hc : LawfulCmp cfg.cmp) (hsep : SepOK cfg) (hsucc : SuccOK cfg)
    (P : KV → Bool) (hP : DownClosed cfg.cmp P) (tl : List KV) (c : List KV) (rest : List (List KV)) (off : Nat)
    (h : ChunksOK cfg (c :: rest) tl)
    (hhd : ∀ e, (ixE cfg off (c :: rest) tl).head? = some e → P e = false) :
    ∀ kv ∈ rest.flatten ++ tl, P kv = false := by
  intro kv hkv
  have h1 := (h.head hc hsep hsucc).2 kv hkv
  have h2 := hhd _ (by simp only [ixE, List.head?_cons]; rfl)
  cases hp : P kv with
  | false => rfl
  | true =>
    have := hP (ixKey cfg (lastKeyD [] c) (firstKeyD (rest.flatten ++ tl)),
      BH.encode ⟨off, (Block.build cfg.restartInterval c).length⟩) kv (LawfulCmp.le_of_lt h1) hp
    rw [this] at h2; exact absurd h2 (by decide)

theorem blocksOf_append (t : TableR) : ∀ (l1 l2 : List KV),
    t.blocksOf (l1 ++ l2) = match t.blocksOf l1, t.blocksOf l2 with
      | some a, some b => some (a ++ b)
      | _, _ => none := by
  intro l1
  induction l1 with
  | nil => intro l2; cases h : t.blocksOf l2 <;> simp [TableR.blocksOf, h]
  | cons e rest ih =>
    intro l2
    obtain ⟨k, hv⟩ := e
    simp only [List.cons_append, TableR.blocksOf]
    cases BH.decode hv with
    | none => rfl
    | some p =>
      obtain ⟨bh, n⟩ := p
      simp only
      cases t.dataBlock bh with
      | none => rfl
      | some db =>
        simp only
        rw [ih l2]
        cases db.entries <;> cases t.blocksOf rest <;> cases t.blocksOf l2 <;> rfl

/-! ## slicing the ends of a run of chunks = slicing the concatenation -/

theorem range_flat (Ps Pl : KV → Bool) (A B C : List (List KV))
    (hA : ∀ kv ∈ A.flatten, Ps kv = true)
    (hB : ∀ kv ∈ B.flatten, Pl kv = true)
    (hS : ∀ c0 rest, B ++ C = c0 :: rest → ∀ kv ∈ rest.flatten, Ps kv = false)
    (hL : ∀ cl R, C = cl :: R → ∀ kv ∈ R.flatten, Pl kv = false) :
    (mapEnds (fun es => (es.dropWhile Ps).takeWhile Pl) (B ++ C.take 1)).flatten =
      ((A ++ (B ++ C)).flatten.dropWhile Ps).takeWhile Pl := by
  rw [List.flatten_append, List.dropWhile_append_of_pos hA]
  cases B with
  | nil =>
    cases C with
    | nil => rfl
    | cons c0 rest =>
      have h1 := hS c0 rest rfl
      have h2 := hL c0 rest rfl
      simp only [List.nil_append, List.take_succ_cons, List.take_zero, mapEnds, List.flatten_cons, List.flatten_nil,
        List.append_nil]
      rw [dropWhile_append_fail Ps c0 _ h1, takeWhile_append_fail Pl _ _ h2]
  | cons c0 B' =>
    have h1 := hS c0 (B' ++ C) rfl
    have hc0 : ∀ kv ∈ c0, Pl kv = true := fun kv hkv => hB kv (by simp [hkv])
    have hB' : ∀ kv ∈ B'.flatten, Pl kv = true := fun kv hkv => hB kv (by
      simp only [List.flatten_cons, List.mem_append]; exact Or.inr hkv)
    have hc0' : (c0.dropWhile Ps).takeWhile Pl = c0.dropWhile Ps :=
      takeWhile_all Pl _ (fun x hx => hc0 x (mem_of_mem_dropWhile Ps c0 x hx))
    simp only [List.cons_append, List.flatten_cons]
    rw [dropWhile_append_fail Ps c0 _ h1]
    cases hr : B' ++ C.take 1 with
    | nil =>
      have hB'nil : B' = [] := (List.append_eq_nil_iff.mp hr).1
      have hCnil : C = [] := by
        have := (List.append_eq_nil_iff.mp hr).2
        cases C with
        | nil => rfl
        | cons a t => simp at this
      subst hB'nil; subst hCnil
      simp [mapEnds]
    | cons r0 rr =>
      have hme : mapEnds (fun es => (es.dropWhile Ps).takeWhile Pl) (c0 :: r0 :: rr) =
          (c0.dropWhile Ps).takeWhile Pl :: mapLast (fun es => (es.dropWhile Ps).takeWhile Pl) (r0 :: rr) := rfl
      rw [hme, ← hr, List.flatten_cons, hc0']
      rw [List.takeWhile_append_of_pos (fun x hx => hc0 x (mem_of_mem_dropWhile Ps c0 x hx))]
      congr 1
      -- chunks after c0 are untouched by the start slice
      have hnoPs : ∀ c ∈ B' ++ C, c.dropWhile Ps = c := fun c hc =>
        dropWhile_all Ps c (fun x hx => h1 x (List.mem_flatten.mpr ⟨c, hc, hx⟩))
      cases C with
      | nil =>
        simp only [List.take_nil, List.append_nil] at hnoPs ⊢
        have hid : ∀ c ∈ B', (fun es => (es.dropWhile Ps).takeWhile Pl) c = c := by
          intro c hc
          simp only
          rw [hnoPs c hc]
          exact takeWhile_all Pl c (fun x hx => hB' x (List.mem_flatten.mpr ⟨c, hc, hx⟩))
        rw [mapLast_id _ _ hid]
        exact (takeWhile_all Pl _ hB').symm
      | cons cl R =>
        have h2 := hL cl R rfl
        simp only [List.take_succ_cons, List.take_zero]
        rw [mapLast_snoc, List.flatten_append, List.flatten_append]
        rw [List.takeWhile_append_of_pos hB']
        congr 1
        simp only [List.flatten_cons, List.flatten_nil, List.append_nil]
        rw [hnoPs cl (by simp), takeWhile_append_fail Pl cl _ h2]

/-! ## the table-level statement -/

theorem ixE_take1 (cfg : TableCfg) (C : List (List KV)) (off : Nat) :
    (ixE cfg off C []).take 1 = ixE cfg off (C.take 1) ((C.drop 1).flatten ++ []) := by
  cases C with
  | nil => rfl
  | cons c R => simp [ixE]

theorem sliceBlock_fun (cmp : Bytes → Bytes → Ordering) (start limit : Option Bytes) :
    sliceBlock cmp start limit = fun es => (es.dropWhile (belowStart cmp start)).takeWhile (belowLimit cmp limit) :=
  funext (sliceBlock_eq cmp start limit)

/-- content of a range-restricted iterator for any reader over the data blocks and the index block of a written table -/
theorem range_reader (cfg : TableCfg) (hc : LawfulCmp cfg.cmp) (hsep : SepOK cfg) (hsucc : SuccOK cfg)
    (hck : Cksum32 cfg.cksum) (cs : List (List KV)) (t : TableR) (hcmp : t.cmp = cfg.cmp) (hcks : t.cksum = cfg.cksum)
    (hfile : ∃ post, t.file = dataBytes cfg cs ++ post)
    (hidx : t.index = layoutR (enc 1 (ixE cfg 0 cs [])) (restartsOf 1 (ixE cfg 0 cs [])))
    (hfsz : t.file.length < 2 ^ 32) (hixl : (ixB cfg cs).length < 2 ^ 32)
    (hshape : cs = [[]] ∨ ChunksOK cfg cs []) (hsm : SmallKV cs.flatten) (start limit : Option Bytes) :
    t.entriesInRange start limit = some (sliceBlock cfg.cmp start limit cs.flatten) := by
  obtain ⟨post, hpost⟩ := hfile
  unfold TableR.entriesInRange
  rw [hidx, entries_layout 1 _ (smallKV_ix' cfg cs hixl)]
  simp only [hcmp]
  rw [sliceIndex_eq]
  obtain ⟨A, cs1, hs1, hallA, _, hdwA, hhdA⟩ := ixE_split' cfg (belowStart cfg.cmp start) [] cs 0
  obtain ⟨B, C, hs2, hallB, htwB, hdwB, hhdB⟩ := ixE_split' cfg (belowLimit cfg.cmp limit) [] cs1
    (0 + (dataBytes cfg A).length)
  rw [hdwA, htwB, hdwB, ixE_take1, blocksOf_append]
  have hsmall : ∀ c ∈ cs, SmallKV c := fun c hm => small_chunk cs hsm c hm
  have hC : C = C.take 1 ++ C.drop 1 := (List.take_append_drop 1 C).symm
  have hfileA : t.file = dataBytes cfg A ++ (dataBytes cfg B ++ (dataBytes cfg C ++ post)) := by
    rw [hpost, hs1, hs2, dataBytes_append, dataBytes_append]; simp only [List.append_assoc]
  have hb1 := blocksOf_ixE t cfg hck hcks hfsz (C.flatten ++ []) B (dataBytes cfg A) (dataBytes cfg C ++ post) hfileA
    (fun c hm => hsmall c (by rw [hs1, hs2]; simp [hm]))
  have hb2 := blocksOf_ixE t cfg hck hcks hfsz ((C.drop 1).flatten ++ []) (C.take 1) (dataBytes cfg A ++ dataBytes cfg B)
    (dataBytes cfg (C.drop 1) ++ post)
    (by rw [hfileA]
        conv => lhs; rw [hC, dataBytes_append]
        simp only [List.append_assoc])
    (fun c hm => hsmall c (by rw [hs1, hs2]; simp [List.mem_of_mem_take hm]))
  rw [List.length_append] at hb2
  simp only [Nat.zero_add] at hb1 hb2 ⊢
  rw [hb1, hb2]
  simp only
  rw [sliceBlock_fun]
  simp only []
  rw [hs1, hs2]
  congr 1
  rcases hshape with hempty | hok
  · -- the empty table: a single empty chunk
    have hall : ∀ c ∈ A ++ (B ++ C), c = [] := by
      intro c hm
      have : c ∈ cs := by rw [hs1, hs2]; exact hm
      rw [hempty] at this; simpa using this
    have hfl : ∀ l : List (List KV), (∀ c ∈ l, c = []) → l.flatten = [] := by
      intro l hl
      induction l with
      | nil => rfl
      | cons a t ih => simp [hl a (List.mem_cons_self ..), ih (fun c hc => hl c (List.mem_cons_of_mem _ hc))]
    rw [hfl _ hall]
    have hm : ∀ c ∈ mapEnds (fun es => (es.dropWhile (belowStart cfg.cmp start)).takeWhile (belowLimit cfg.cmp limit))
        (B ++ C.take 1), c = [] := by
      have hbc : ∀ c ∈ B ++ C.take 1, c = [] := by
        intro c hm
        apply hall c
        rcases List.mem_append.mp hm with h | h
        · simp [h]
        · simp [List.mem_of_mem_take h]
      have hid : ∀ c ∈ B ++ C.take 1,
          (fun es : List KV => (es.dropWhile (belowStart cfg.cmp start)).takeWhile (belowLimit cfg.cmp limit)) c = c := by
        intro c hm; rw [hbc c hm]; rfl
      rw [mapEnds_id _ _ hid]; exact hbc
    rw [hfl _ hm]; rfl
  · have hok1 : ChunksOK cfg (A ++ cs1) [] := hs1 ▸ hok
    have hokcs1 : ChunksOK cfg (B ++ C) [] := hs2 ▸ hok1.right
    have hPs := belowStart_down hc start
    have hPl := belowLimit_down hc limit
    refine range_flat _ _ A B C ?_ ?_ ?_ ?_
    · exact all_of_ix_all hc hsep hsucc _ hPs _ A 0 hok1.left hallA
    · exact all_of_ix_all hc hsep hsucc _ hPl _ B _ hokcs1.left hallB
    · intro c0 rest hbc kv hkv
      have hok' : ChunksOK cfg (c0 :: rest) [] := hbc ▸ hokcs1
      have := none_after_head hc hsep hsucc _ hPs [] c0 rest (0 + (dataBytes cfg A).length) hok'
        (by rw [← hbc, ← hs2]; exact hhdA) kv (by simpa using hkv)
      exact this
    · intro cl R hcl kv hkv
      have hok' : ChunksOK cfg (cl :: R) [] := hcl ▸ hokcs1.right
      exact none_after_head hc hsep hsucc _ hPl [] cl R _ hok' (by rw [← hcl]; exact hhdB) kv (by simpa using hkv)

/-- content of a range-restricted iterator over a written table, on the shape level -/
theorem range_written (cfg : TableCfg) (hc : LawfulCmp cfg.cmp) (hsep : SepOK cfg) (hsucc : SuccOK cfg)
    (hck : Cksum32 cfg.cksum) (cs : List (List KV)) (fb : Option Bytes)
    (hfb : fb.isSome = cfg.filter.isSome) (hsz : (tableFile cfg cs fb).length < 2 ^ 32)
    (hname : ∀ pol, cfg.filter = some pol → (filterMetaKey pol).length < 2 ^ 64) (v : Bool)
    (hshape : cs = [[]] ∨ ChunksOK cfg cs []) (hsm : SmallKV cs.flatten) (start limit : Option Bytes) :
    ∃ t, Table.open cfg v (tableFile cfg cs fb) = some t ∧
      t.entriesInRange start limit = some (sliceBlock cfg.cmp start limit cs.flatten) := by
  obtain ⟨t, ho, hcmp, hcks, _, hfile, hidx, _, _⟩ := open_shape cfg hck cs fb hfb hsz hname v
  obtain ⟨hpost, hfsz, hixl⟩ := written_file_facts cfg cs fb t hfile hsz
  exact ⟨t, ho, range_reader cfg hc hsep hsucc hck cs t hcmp hcks hpost hidx hfsz hixl hshape hsm start limit⟩

/-! ## on a sorted list, slicing is filtering -/

/-- `start ≤ key < limit` (an absent bound is no constraint) -/
def inRange (cmp : Bytes → Bytes → Ordering) (start limit : Option Bytes) (e : KV) : Bool :=
  !belowStart cmp start e && belowLimit cmp limit e

theorem dropWhile_sorted {cmp : Bytes → Bytes → Ordering} (P : KV → Bool) (hP : DownClosed cmp P) :
    ∀ l : List KV, StrictSorted cmp l → l.dropWhile P = l.filter (fun e => !P e) := by
  intro l
  induction l with
  | nil => intro _; rfl
  | cons a t ih =>
    intro hs
    have hst := (List.pairwise_cons.mp hs).2
    cases hp : P a with
    | true => simp [hp, ih hst]
    | false =>
      have hall : ∀ x ∈ a :: t, (!P x) = true := by
        intro x hx
        rcases List.mem_cons.mp hx with rfl | hx'
        · simp [hp]
        · cases hpx : P x with
          | false => rfl
          | true =>
            have := hP a x (LawfulCmp.le_of_lt ((List.pairwise_cons.mp hs).1 x hx')) hpx
            rw [this] at hp; exact absurd hp (by decide)
      rw [List.filter_eq_self.mpr hall]
      simp [hp]

theorem takeWhile_sorted {cmp : Bytes → Bytes → Ordering} (P : KV → Bool) (hP : DownClosed cmp P) :
    ∀ l : List KV, StrictSorted cmp l → l.takeWhile P = l.filter P := by
  intro l
  induction l with
  | nil => intro _; rfl
  | cons a t ih =>
    intro hs
    have hst := (List.pairwise_cons.mp hs).2
    cases hp : P a with
    | true => simp [hp, ih hst]
    | false =>
      have hall : ∀ x ∈ a :: t, ¬ (P x = true) := by
        intro x hx
        rcases List.mem_cons.mp hx with rfl | hx'
        · simp [hp]
        · intro hpx
          have := hP a x (LawfulCmp.le_of_lt ((List.pairwise_cons.mp hs).1 x hx')) hpx
          rw [this] at hp; exact absurd hp (by decide)
      rw [List.filter_eq_nil_iff.mpr hall]
      simp [hp]

/-- for strictly increasing keys the slice of a list is the sub-list of the pairs with `start ≤ key < limit` -/
theorem sliceBlock_sorted {cmp : Bytes → Bytes → Ordering} (hc : LawfulCmp cmp) (start limit : Option Bytes)
    (l : List KV) (hs : StrictSorted cmp l) :
    sliceBlock cmp start limit l = l.filter (inRange cmp start limit) := by
  rw [sliceBlock_eq, dropWhile_sorted _ (belowStart_down hc start) l hs]
  have hs2 : StrictSorted cmp (l.filter fun e => !belowStart cmp start e) := List.Pairwise.filter _ hs
  rw [takeWhile_sorted _ (belowLimit_down hc limit) _ hs2, List.filter_filter]
  congr 1
  funext e
  simp [inRange, Bool.and_comm]

end GoLevel.C13
