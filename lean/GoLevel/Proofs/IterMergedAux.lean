import GoLevel.Proofs.IterSim
/-!
# Helper lemmas for the merged-iterator simulation (`Proofs/IterMerged.lean`)

* `Cursor.bseek`: the backward analogue of `Cursor.seek` (position before the first element that satisfies
  a "strictly beyond" test), congruence and characterisation lemmas for `seek`/`bseek`,
* positions in strictly sorted entry lists (`SortedEntries`),
* `MergedIter.argBest` returns the least element of a strict total order.
Core Lean only.
-/
namespace GoLevel

/-- `x > k` on entries -/
def gtKey (c : UCmp) (k : IKey) (e : Entry) : Bool := icmp c e.key k == .gt

namespace Cursor
variable {α : Type}

/-- the position just before the first element satisfying `gt` (the last element when there is none) -/
def bseek (xs : List α) (gt : α → Bool) : Pos :=
  match xs.findIdx? gt with
  | some 0 => .soi
  | some (j + 1) => .at j
  | none => last xs

theorem findIdx?_some_iff {xs : List α} {p : α → Bool} {i : Nat} :
    xs.findIdx? p = some i ↔
      ∃ e, xs[i]? = some e ∧ p e = true ∧ ∀ j y, j < i → xs[j]? = some y → p y = false := by
  rw [List.findIdx?_eq_some_iff_getElem]
  constructor
  · rintro ⟨h, hp, hb⟩
    refine ⟨xs[i], List.getElem?_eq_getElem h, hp, ?_⟩
    intro j y hj hy
    obtain ⟨hj', rfl⟩ := List.getElem?_eq_some_iff.1 hy
    simpa using hb j hj
  · rintro ⟨e, he, hp, hb⟩
    obtain ⟨h, rfl⟩ := List.getElem?_eq_some_iff.1 he
    refine ⟨h, hp, ?_⟩
    intro j hj
    have := hb j xs[j] hj (List.getElem?_eq_getElem (by omega))
    simp [this]

theorem findIdx?_congr {xs : List α} {p q : α → Bool} (h : ∀ y ∈ xs, p y = q y) :
    xs.findIdx? p = xs.findIdx? q := by
  induction xs with
  | nil => rfl
  | cons x xs ih =>
    simp only [List.findIdx?_cons]
    rw [h x (by simp), ih (fun y hy => h y (by simp [hy]))]

theorem seek_congr {xs : List α} {p q : α → Bool} (h : ∀ y ∈ xs, p y = q y) : seek xs p = seek xs q := by
  unfold seek; rw [findIdx?_congr h]

theorem bseek_congr {xs : List α} {p q : α → Bool} (h : ∀ y ∈ xs, p y = q y) : bseek xs p = bseek xs q := by
  unfold bseek; rw [findIdx?_congr h]

theorem first_eq_seek (xs : List α) : first xs = seek xs (fun _ => true) := by
  cases xs <;> simp [first, seek, List.findIdx?_cons]

theorem last_eq_bseek (xs : List α) : last xs = bseek xs (fun _ => false) := by
  have : xs.findIdx? (fun _ => false) = none := List.findIdx?_eq_none_iff.2 (fun _ _ => rfl)
  simp [bseek, this]

/-- what `Prev()` in the `dirForward` case of the merged iterator does to the other children -/
theorem turn_pos (xs : List α) (ge : α → Bool) :
    (if (get xs (seek xs ge)).isSome then prev xs (seek xs ge) else last xs) = bseek xs ge := by
  unfold seek bseek
  cases h : xs.findIdx? ge with
  | none => simp [get]
  | some j =>
    obtain ⟨e, he, _, _⟩ := findIdx?_some_iff.1 h
    cases j with
    | zero => simp [get, he, prev]
    | succ j => simp [get, he, prev]

theorem seek_get_none {xs : List α} {ge : α → Bool} (h : get xs (seek xs ge) = none) :
    ∀ y ∈ xs, ge y = false := by
  rw [get_seek] at h
  intro y hy
  have := List.find?_eq_none.1 h y hy
  simpa using this

theorem seek_eq_eoi {xs : List α} {ge : α → Bool} (h : ∀ y ∈ xs, ge y = false) : seek xs ge = .eoi := by
  unfold seek; rw [List.findIdx?_eq_none_iff.2 h]

theorem bseek_eq_soi {xs : List α} {gt : α → Bool} (h : ∀ y ∈ xs, gt y = true) : bseek xs gt = .soi := by
  unfold bseek
  cases xs with
  | nil => simp [last]
  | cons x xs => simp [List.findIdx?_cons, h x (by simp)]

end Cursor

/-! ## positions in strictly sorted lists -/

/-- `t` is upward closed on `S` -/
def Mono (c : UCmp) (S : List Entry) (t : Entry → Bool) : Prop :=
  ∀ a b, a ∈ S → b ∈ S → t a = true → icmp c a.key b.key = .lt → t b = true

theorem SortedEntries.lt_of_lt {c : UCmp} {L : List Entry} (hs : SortedEntries c L) {i j : Nat} {a b : Entry}
    (hi : L[i]? = some a) (hj : L[j]? = some b) (hij : i < j) : icmp c a.key b.key = .lt := by
  obtain ⟨hi', rfl⟩ := List.getElem?_eq_some_iff.1 hi
  obtain ⟨hj', rfl⟩ := List.getElem?_eq_some_iff.1 hj
  exact (List.pairwise_iff_getElem.1 hs) i j hi' hj' hij

theorem geKey_false_of_lt {c : UCmp} {a b : Entry} (h : icmp c b.key a.key = .lt) : geKey c a.key b = false := by
  simp [geKey, h]

theorem gtKey_false_of_lt {c : UCmp} {a b : Entry} (h : icmp c b.key a.key = .lt) : gtKey c a.key b = false := by
  simp [gtKey, h]

section sorted
variable {c : UCmp} (hl : LawfulUCmp c)
include hl

theorem geKey_self (e : Entry) : geKey c e.key e = true := by
  simp [geKey, (icmp_eq_iff hl e.key e.key).2 rfl]

theorem gtKey_self (e : Entry) : gtKey c e.key e = false := by
  simp [gtKey, (icmp_eq_iff hl e.key e.key).2 rfl]

theorem geKey_of_lt {a b : Entry} (h : icmp c a.key b.key = .lt) : geKey c a.key b = true := by
  have := (icmp_gt_iff hl b.key a.key).2 h
  simp [geKey, this]

theorem gtKey_of_lt {a b : Entry} (h : icmp c a.key b.key = .lt) : gtKey c a.key b = true := by
  have := (icmp_gt_iff hl b.key a.key).2 h
  simp [gtKey, this]

/-- on entries whose key differs from `k`, `≥ k` and `> k` agree -/
theorem geKey_eq_gtKey {k : IKey} {y : Entry} (h : y.key ≠ k) : geKey c k y = gtKey c k y := by
  have : icmp c y.key k ≠ .eq := fun h' => h ((icmp_eq_iff hl _ _).1 h')
  unfold geKey gtKey
  cases h' : icmp c y.key k <;> simp_all

theorem mono_geKey (S : List Entry) (k : IKey) : Mono c S (geKey c k) := by
  intro a b _ _ ha hab
  simp only [geKey, bne_iff_ne, ne_eq] at ha ⊢
  intro hb
  exact ha (icmp_trans hl _ _ _ hab hb)

theorem mono_gtKey (S : List Entry) (k : IKey) : Mono c S (gtKey c k) := by
  intro a b _ _ ha hab
  simp only [gtKey, beq_iff_eq] at ha ⊢
  rw [icmp_gt_iff hl] at ha ⊢
  exact icmp_trans hl _ _ _ ha hab

theorem findIdx_ge_self {L : List Entry} (hs : SortedEntries c L) {j : Nat} {e : Entry} (hj : L[j]? = some e) :
    L.findIdx? (geKey c e.key) = some j := by
  rw [Cursor.findIdx?_some_iff]
  refine ⟨e, hj, geKey_self hl e, ?_⟩
  intro i y hi hy
  exact geKey_false_of_lt (hs.lt_of_lt hy hj hi)

theorem findIdx_gt_self {L : List Entry} (hs : SortedEntries c L) {j : Nat} {e : Entry} (hj : L[j]? = some e) :
    L.findIdx? (gtKey c e.key) = if j + 1 < L.length then some (j + 1) else none := by
  have hle : ∀ i y, i < j + 1 → L[i]? = some y → gtKey c e.key y = false := by
    intro i y hi hy
    by_cases hij : i = j
    · subst hij
      rw [hj] at hy; cases hy
      exact gtKey_self hl e
    · exact gtKey_false_of_lt (hs.lt_of_lt hy hj (by omega))
  split
  · rename_i h
    rw [Cursor.findIdx?_some_iff]
    exact ⟨L[j + 1], List.getElem?_eq_getElem h,
      gtKey_of_lt hl (hs.lt_of_lt hj (List.getElem?_eq_getElem h) (by omega)), hle⟩
  · rename_i h
    rw [List.findIdx?_eq_none_iff]
    intro y hy
    obtain ⟨i, hi⟩ := List.mem_iff_getElem?.1 hy
    have : i < L.length := (List.getElem?_eq_some_iff.1 hi).1
    exact hle i y (by omega) hi

theorem next_eq_seek {L : List Entry} (hs : SortedEntries c L) {j : Nat} {e : Entry} (hj : L[j]? = some e) :
    Cursor.next L (.at j) = Cursor.seek L (gtKey c e.key) := by
  unfold Cursor.seek
  rw [findIdx_gt_self hl hs hj]
  simp only [Cursor.next]
  split <;> rfl

theorem prev_eq_bseek {L : List Entry} (hs : SortedEntries c L) {j : Nat} {e : Entry} (hj : L[j]? = some e) :
    Cursor.prev L (.at j) = Cursor.bseek L (geKey c e.key) := by
  unfold Cursor.bseek
  rw [findIdx_ge_self hl hs hj]
  cases j <;> simp [Cursor.prev]

theorem seek_self {L : List Entry} (hs : SortedEntries c L) {j : Nat} {e : Entry} (hj : L[j]? = some e) :
    Cursor.seek L (geKey c e.key) = .at j := by
  unfold Cursor.seek
  rw [findIdx_ge_self hl hs hj]

/-- the element `seek` lands on is the least one satisfying the test -/
theorem seek_get_some {L : List Entry} (hs : SortedEntries c L) {ge : Entry → Bool} {cx : Entry}
    (h : Cursor.get L (Cursor.seek L ge) = some cx) :
    cx ∈ L ∧ ge cx = true ∧ ∀ y ∈ L, ge y = true → geKey c cx.key y = true := by
  unfold Cursor.seek at h
  cases hf : L.findIdx? ge with
  | none => simp [hf, Cursor.get] at h
  | some j =>
    simp only [hf, Cursor.get] at h
    obtain ⟨e, he, hge, hb⟩ := Cursor.findIdx?_some_iff.1 hf
    rw [h] at he; cases he
    refine ⟨List.mem_of_getElem? h, hge, ?_⟩
    intro y hy hgy
    obtain ⟨i, hi⟩ := List.mem_iff_getElem?.1 hy
    by_cases hij : i < j
    · have := hb i y hij hi
      rw [this] at hgy; cases hgy
    · by_cases hji : i = j
      · subst hji; rw [h] at hi; cases hi; exact geKey_self hl _
      · exact geKey_of_lt hl (hs.lt_of_lt h hi (by omega))

omit hl in
theorem seek_eq_at {U : List Entry} (hs : SortedEntries c U) {ge : Entry → Bool} {i : Nat} {e : Entry}
    (hi : U[i]? = some e) (hge : ge e = true) (hmin : ∀ y ∈ U, ge y = true → geKey c e.key y = true) :
    Cursor.seek U ge = .at i := by
  unfold Cursor.seek
  have : U.findIdx? ge = some i := by
    rw [Cursor.findIdx?_some_iff]
    refine ⟨e, hi, hge, ?_⟩
    intro j y hj hy
    cases hgy : ge y with
    | false => rfl
    | true =>
      have h1 := hmin y (List.mem_of_getElem? hy) hgy
      rw [geKey_false_of_lt (hs.lt_of_lt hy hi hj)] at h1
      cases h1
  rw [this]

omit hl in
/-- the element `bseek` lands on is the greatest one failing the test: there is an index `j` … -/
theorem bseek_get_idx {L : List Entry} {gt : Entry → Bool} (hs : SortedEntries c L) (hm : Mono c L gt) {cx : Entry}
    (h : Cursor.get L (Cursor.bseek L gt) = some cx) :
    ∃ j : Nat, L[j]? = some cx ∧ gt cx = false ∧ ∀ (i : Nat) (y : Entry), L[i]? = some y → gt y = false → i ≤ j := by
  unfold Cursor.bseek at h
  cases hf : L.findIdx? gt with
  | none =>
    simp only [hf] at h
    rw [Cursor.get_last, List.getLast?_eq_getElem?] at h
    refine ⟨L.length - 1, h, List.findIdx?_eq_none_iff.1 hf cx (List.mem_of_getElem? h), ?_⟩
    intro i y hi _
    have : i < L.length := (List.getElem?_eq_some_iff.1 hi).1
    omega
  | some k =>
    obtain ⟨z, hz, hgz, hb⟩ := Cursor.findIdx?_some_iff.1 hf
    cases k with
    | zero => simp [hf, Cursor.get] at h
    | succ j =>
      simp only [hf, Cursor.get] at h
      refine ⟨j, h, hb j cx (by omega) h, ?_⟩
      intro i y hi hgy
      by_cases hij : i ≤ j
      · exact hij
      · exfalso
        by_cases h1 : i = j + 1
        · subst h1; rw [hz] at hi; cases hi; rw [hgz] at hgy; cases hgy
        · have := hm z y (List.mem_of_getElem? hz) (List.mem_of_getElem? hi) hgz
            (hs.lt_of_lt hz hi (by omega))
          rw [this] at hgy; cases hgy

theorem bseek_get_some {L : List Entry} {gt : Entry → Bool} (hs : SortedEntries c L) (hm : Mono c L gt) {cx : Entry}
    (h : Cursor.get L (Cursor.bseek L gt) = some cx) :
    cx ∈ L ∧ gt cx = false ∧ ∀ y ∈ L, gt y = false → gtKey c cx.key y = false := by
  obtain ⟨j, hj, hg, hmax⟩ := bseek_get_idx hs hm h
  refine ⟨List.mem_of_getElem? hj, hg, ?_⟩
  intro y hy hgy
  obtain ⟨i, hi⟩ := List.mem_iff_getElem?.1 hy
  have hij := hmax i y hi hgy
  by_cases h1 : i = j
  · subst h1; rw [hj] at hi; cases hi; exact gtKey_self hl _
  · exact gtKey_false_of_lt (hs.lt_of_lt hi hj (by omega))

omit hl in
theorem bseek_get_none {L : List Entry} {gt : Entry → Bool} (hs : SortedEntries c L) (hm : Mono c L gt)
    (h : Cursor.get L (Cursor.bseek L gt) = none) : ∀ y ∈ L, gt y = true := by
  unfold Cursor.bseek at h
  cases hf : L.findIdx? gt with
  | none =>
    simp only [hf] at h
    rw [Cursor.get_last] at h
    have : L = [] := by simpa using h
    subst this; intro y hy; cases hy
  | some k =>
    obtain ⟨z, hz, hgz, hb⟩ := Cursor.findIdx?_some_iff.1 hf
    cases k with
    | succ j =>
      simp only [hf, Cursor.get] at h
      have : j + 1 < L.length := (List.getElem?_eq_some_iff.1 hz).1
      rw [List.getElem?_eq_getElem (by omega)] at h; cases h
    | zero =>
      intro y hy
      obtain ⟨i, hi⟩ := List.mem_iff_getElem?.1 hy
      by_cases h0 : i = 0
      · subst h0; rw [hz] at hi; cases hi; exact hgz
      · exact hm z y (List.mem_of_getElem? hz) hy hgz (hs.lt_of_lt hz hi (by omega))

theorem bseek_eq_at {U : List Entry} (hs : SortedEntries c U) {gt : Entry → Bool} (hm : Mono c U gt) {i : Nat}
    {e : Entry} (hi : U[i]? = some e) (hgt : gt e = false)
    (hmax : ∀ y ∈ U, gt y = false → gtKey c e.key y = false) :
    Cursor.bseek U gt = .at i := by
  have hilen : i < U.length := (List.getElem?_eq_some_iff.1 hi).1
  -- no element after `i` fails the test
  have hafter : ∀ k y, U[k]? = some y → i < k → gt y = true := by
    intro k y hk hik
    cases hgy : gt y with
    | true => rfl
    | false =>
      have h1 := hmax y (List.mem_of_getElem? hk) hgy
      rw [gtKey_of_lt hl (hs.lt_of_lt hi hk hik)] at h1
      cases h1
  unfold Cursor.bseek
  cases hf : U.findIdx? gt with
  | none =>
    have hall := List.findIdx?_eq_none_iff.1 hf
    have : i = U.length - 1 := by
      by_cases h1 : i = U.length - 1
      · exact h1
      · exfalso
        have hk : U.length - 1 < U.length := by omega
        have := hafter (U.length - 1) _ (List.getElem?_eq_getElem hk) (by omega)
        rw [hall _ (List.getElem_mem hk)] at this
        cases this
    have hne : U ≠ [] := by intro h; subst h; simp at hilen
    simp [Cursor.last, hne, ← this]
  | some k =>
    obtain ⟨z, hz, hgz, hb⟩ := Cursor.findIdx?_some_iff.1 hf
    have hk : k = i + 1 := by
      by_cases h1 : k ≤ i
      · exfalso
        by_cases h2 : k = i
        · subst h2; rw [hi] at hz; cases hz; rw [hgz] at hgt; cases hgt
        · have := hm z e (List.mem_of_getElem? hz) (List.mem_of_getElem? hi) hgz
            (hs.lt_of_lt hz hi (by omega))
          rw [this] at hgt; cases hgt
      · by_cases h2 : k = i + 1
        · exact h2
        · exfalso
          have hklen : k < U.length := (List.getElem?_eq_some_iff.1 hz).1
          have h3 : i + 1 < U.length := by omega
          have := hafter (i + 1) _ (List.getElem?_eq_getElem h3) (by omega)
          rw [hb (i + 1) _ (by omega) (List.getElem?_eq_getElem h3)] at this
          cases this
    subst hk
    rfl

end sorted

/-! ## `argBest` -/

theorem MergedIter.argBest_spec (lt : Nat → Nat → Bool) (S : Nat → Prop)
    (htrans : ∀ a b d, lt a b = true → lt b d = true → lt a d = true)
    (htot : ∀ a b, S a → S b → a ≠ b → lt a b = true ∨ lt b a = true) :
    ∀ (ys : List Nat) (b : Nat), (∀ z ∈ b :: ys, S z) →
      MergedIter.argBest lt b ys ∈ b :: ys ∧
      ∀ z ∈ b :: ys, z ≠ MergedIter.argBest lt b ys → lt (MergedIter.argBest lt b ys) z = true := by
  intro ys
  induction ys with
  | nil =>
    intro b _
    simp [MergedIter.argBest]
  | cons y ys ih =>
    intro b hS
    have hSb : S b := hS b (by simp)
    have hSy : S y := hS y (by simp)
    have hSys : ∀ z ∈ ys, S z := fun z hz => hS z (by simp [hz])
    simp only [MergedIter.argBest]
    by_cases hyb : lt y b = true
    · simp only [hyb, if_true]
      obtain ⟨hm, hbest⟩ := ih y (by
        intro z hz
        rcases List.mem_cons.1 hz with h | h
        · rw [h]; exact hSy
        · exact hSys z h)
      refine ⟨?_, ?_⟩
      · rcases List.mem_cons.1 hm with h | h
        · rw [h]; simp
        · simp [h]
      · intro z hz hne
        rcases List.mem_cons.1 hz with h | h
        · rw [h]
          by_cases hr : MergedIter.argBest lt y ys = y
          · rw [hr]; exact hyb
          · exact htrans _ _ _ (hbest y (by simp) (Ne.symm hr)) hyb
        · exact hbest z h hne
    · rw [if_neg hyb]
      obtain ⟨hm, hbest⟩ := ih b (by
        intro z hz
        rcases List.mem_cons.1 hz with h | h
        · rw [h]; exact hSb
        · exact hSys z h)
      refine ⟨?_, ?_⟩
      · rcases List.mem_cons.1 hm with h | h
        · rw [h]; simp
        · simp [h]
      · intro z hz hne
        rcases List.mem_cons.1 hz with h | h
        · exact hbest z (by rw [h]; simp) hne
        · rcases List.mem_cons.1 h with h | h
          · rw [h]
            by_cases hby : b = y
            · rw [← hby]; rw [h, ← hby] at hne; exact hbest b (by simp) hne
            · have hlt : lt b y = true := by
                rcases htot b y hSb hSy hby with h' | h'
                · exact h'
                · exact absurd h' hyb
              by_cases hr : MergedIter.argBest lt b ys = b
              · rw [hr]; exact hlt
              · exact htrans _ _ _ (hbest b (by simp) (Ne.symm hr)) hlt
          · exact hbest z (by simp [h]) hne

end GoLevel
