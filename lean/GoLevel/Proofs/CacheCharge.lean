import GoLevel.Proofs.CacheLru
/-! Invariant of the cache system, part 5: the charge of the LRU list (`used = Σ size ≤ capacity`). -/
namespace GoLevel.CacheM

set_option linter.unusedSimpArgs false

/-! ### the charge -/

theorem sum_sizeOf_congr {ns ns' : List Node} {l : List Nat} (h : ∀ j ∈ l, sizeOf ns' j = sizeOf ns j) :
    (l.map (sizeOf ns')).sum = (l.map (sizeOf ns)).sum := by
  rw [List.map_congr_left h]

theorem upd_map_idsize {ns : List Node} {id : Nat} {f : Node → Node} (hf : ∀ n, (f n).id = n.id ∧ (f n).size = n.size) :
    (upd ns id f).map (fun n => (n.id, n.size)) = ns.map (fun n => (n.id, n.size)) := by
  unfold upd; simp only [List.map_map]; apply List.map_congr_left; intro n _
  simp only [Function.comp]; split <;> simp [hf]

theorem clearLru_map_idsize {ns : List Node} {ev : List Nat} :
    (clearLru ns ev).map (fun n => (n.id, n.size)) = ns.map (fun n => (n.id, n.size)) := by
  unfold clearLru; simp only [List.map_map]; apply List.map_congr_left; intro n _
  simp only [Function.comp]; split <;> rfl

theorem sizeOf_upd_ne {ns : List Node} {id j : Nat} {f : Node → Node} (hf : ∀ n, (f n).id = n.id) (hne : j ≠ id) :
    sizeOf (upd ns id f) j = sizeOf ns j := by
  unfold sizeOf findId upd
  induction ns with
  | nil => rfl
  | cons a ns ih =>
    simp only [List.map_cons, List.find?_cons]
    by_cases ha : a.id = id
    · have h1 : ((f a).id == j) = false := by rw [hf a]; simp [ha]; omega
      have h2 : (a.id == j) = false := by simp [ha]; omega
      simp only [if_pos ha, h1, h2]; exact ih
    · simp only [if_neg ha]
      by_cases hj : a.id = j
      · simp [hj]
      · have h2 : (a.id == j) = false := by simp [hj]
        simp only [h2]; exact ih

theorem sizeOf_cons_ne {ns : List Node} {a : Node} {j : Nat} (hne : a.id ≠ j) :
    sizeOf (a :: ns) j = sizeOf ns j := by
  unfold sizeOf findId
  have h2 : (a.id == j) = false := by simp [hne]
  simp only [List.find?_cons, h2]

theorem sizeOf_eraseId_ne {ns : List Node} {e j : Nat} (hne : j ≠ e) :
    sizeOf (eraseId ns e) j = sizeOf ns j := by
  unfold sizeOf findId eraseId
  induction ns with
  | nil => rfl
  | cons a ns ih =>
    simp only [List.filter_cons]
    by_cases ha : a.id = e
    · have h1 : (a.id != e) = false := by simp [ha]
      have h2 : (a.id == j) = false := by simp [ha]; omega
      simp only [h1, List.find?_cons, h2]; exact ih
    · have h1 : (a.id != e) = true := by simp [ha]
      simp only [h1, if_true, List.find?_cons]
      by_cases hj : a.id = j
      · simp [hj]
      · have h2 : (a.id == j) = false := by simp [hj]
        simp only [h2]; exact ih

theorem sum_erase {ns : List Node} {l : List Nat} {id : Nat} (h : id ∈ l) :
    ((l.erase id).map (sizeOf ns)).sum + sizeOf ns id = (l.map (sizeOf ns)).sum := by
  have := ((List.perm_cons_erase h).map (sizeOf ns)).sum_nat
  simp only [List.map_cons, List.sum_cons] at this
  omega

theorem sizeOf_found {ns : List Node} {id : Nat} {n : Node} (h : findId ns id = some n) : sizeOf ns id = n.size := by
  unfold sizeOf; rw [h]

theorem sizeOf_upd_lru (ns : List Node) (id : Nat) (l : LruSt) :
    sizeOf (upd ns id fun n => { n with lru := l }) = sizeOf ns := by
  funext j
  exact sizeOf_congr (upd_map_idsize (f := fun n => { n with lru := l }) (fun _ => ⟨rfl, rfl⟩)) j

theorem us_promote {g sh Q log sh' pid push evs} (h : InvP g sh (Instr.promote pid :: Q) log)
    (he : execPromote sh pid = some (sh', push, evs)) :
    sh'.lru.used = (sh'.lru.recent.map (sizeOf sh'.nodes)).sum ∧ sh'.lru.used ≤ sh'.lru.capacity := by
  have hus := h.us
  have hlr := h.lr
  unfold execPromote at he
  split at he
  · simp at he; obtain ⟨rfl, rfl, rfl⟩ := he; exact hus
  · rename_i n0 hfind
    have hfs := findId_some hfind
    split at he
    · split at he
      · rename_i hfit
        simp only [Option.some.injEq, Prod.mk.injEq] at he
        obtain ⟨rfl, rfl, rfl⟩ := he
        have hsz : ∀ j, sizeOf (upd sh.nodes pid fun n => { n with ref := n.ref + 1, lru := .inList }) j = sizeOf sh.nodes j :=
          sizeOf_congr (upd_map_idsize (fun _ => ⟨rfl, rfl⟩))
        have hE := evictTail_used (upd sh.nodes pid fun n => { n with ref := n.ref + 1, lru := .inList })
          sh.lru.capacity (pid :: sh.lru.recent).reverse (sh.lru.used + n0.size) (by
            rw [List.map_reverse, List.sum_reverse, List.map_cons, List.sum_cons, hsz, sizeOf_found hfind,
              List.map_congr_left (fun j _ => hsz j), hus.1]; omega)
        simp only []
        refine ⟨?_, hE.2.1⟩
        rw [hE.1, List.map_reverse, List.sum_reverse]
        exact (sum_sizeOf_congr (fun j _ => sizeOf_congr clearLru_map_idsize j)).symm
      · simp at he; obtain ⟨rfl, rfl, rfl⟩ := he; exact hus
    · rename_i hin
      simp at he; obtain ⟨rfl, rfl, rfl⟩ := he
      have hmem : pid ∈ sh.lru.recent := (hlr.2 pid).mpr ⟨n0, hfs.1, hfs.2, hin⟩
      refine ⟨?_, hus.2⟩
      simp only [List.map_cons, List.sum_cons]
      have := sum_erase (ns := sh.nodes) hmem
      omega
    · simp at he; obtain ⟨rfl, rfl, rfl⟩ := he; exact hus

theorem us_setcap {g sh Q log sh' c push evs} (h : InvP g sh (Instr.setcap c :: Q) log)
    (he : execSetcap sh c = some (sh', push, evs)) :
    sh'.lru.used = (sh'.lru.recent.map (sizeOf sh'.nodes)).sum ∧ sh'.lru.used ≤ sh'.lru.capacity := by
  have hus := h.us
  unfold execSetcap at he
  simp only [Option.some.injEq, Prod.mk.injEq] at he
  obtain ⟨rfl, rfl, rfl⟩ := he
  have hE := evictTail_used sh.nodes c sh.lru.recent.reverse sh.lru.used (by
    rw [List.map_reverse, List.sum_reverse]; exact hus.1)
  simp only []
  refine ⟨?_, hE.2.1⟩
  rw [hE.1, List.map_reverse, List.sum_reverse]
  exact (sum_sizeOf_congr (fun j _ => sizeOf_congr clearLru_map_idsize j)).symm

theorem us_erase {sh : Shared} {id : Nat} {n0 : Node} {l : LruSt}
    (hus : sh.lru.used = (sh.lru.recent.map (sizeOf sh.nodes)).sum ∧ sh.lru.used ≤ sh.lru.capacity)
    (hlr : ∀ id, id ∈ sh.lru.recent ↔ ∃ n ∈ sh.nodes, n.id = id ∧ n.lru = .inList)
    (hfind : findId sh.nodes id = some n0) (hin : n0.lru = .inList) :
    sh.lru.used - n0.size = ((sh.lru.recent.erase id).map
        (sizeOf (upd sh.nodes id fun n => { n with lru := l }))).sum ∧
      sh.lru.used - n0.size ≤ sh.lru.capacity := by
  have hfs := findId_some hfind
  have hmem := (hlr id).mpr ⟨n0, hfs.1, hfs.2, hin⟩
  have hs := sum_erase (ns := sh.nodes) hmem
  rw [sizeOf_found hfind] at hs
  refine ⟨?_, by omega⟩
  rw [sizeOf_upd_lru]
  omega

theorem us_ban {g sh Q log sh' id push evs} (h : InvP g sh (Instr.ban id :: Q) log)
    (he : execBan sh id = some (sh', push, evs)) :
    sh'.lru.used = (sh'.lru.recent.map (sizeOf sh'.nodes)).sum ∧ sh'.lru.used ≤ sh'.lru.capacity := by
  have hus := h.us
  unfold execBan at he
  cases hfind : findId sh.nodes id with
  | none => simp [hfind] at he; obtain ⟨rfl, rfl, rfl⟩ := he; exact hus
  | some n0 =>
    cases hl : n0.lru with
    | none =>
      simp [hfind, hl] at he; obtain ⟨rfl, rfl, rfl⟩ := he
      simp only []; rw [sizeOf_upd_lru]; exact hus
    | inList =>
      simp [hfind, hl] at he; obtain ⟨rfl, rfl, rfl⟩ := he
      exact us_erase hus h.lr.2 hfind hl
    | banned => simp [hfind, hl] at he; obtain ⟨rfl, rfl, rfl⟩ := he; exact hus

theorem us_levict {g sh Q log sh' id push evs} (h : InvP g sh (Instr.levict id :: Q) log)
    (he : execLevict sh id = some (sh', push, evs)) :
    sh'.lru.used = (sh'.lru.recent.map (sizeOf sh'.nodes)).sum ∧ sh'.lru.used ≤ sh'.lru.capacity := by
  have hus := h.us
  unfold execLevict at he
  cases hfind : findId sh.nodes id with
  | none => simp [hfind] at he; obtain ⟨rfl, rfl, rfl⟩ := he; exact hus
  | some n0 =>
    cases hl : n0.lru with
    | none => simp [hfind, hl] at he; obtain ⟨rfl, rfl, rfl⟩ := he; exact hus
    | inList =>
      simp [hfind, hl] at he; obtain ⟨rfl, rfl, rfl⟩ := he
      exact us_erase hus h.lr.2 hfind hl
    | banned => simp [hfind, hl] at he; obtain ⟨rfl, rfl, rfl⟩ := he; exact hus

theorem us_step {g sh Q log sh' i push evs} (h : InvP g sh (i :: Q) log)
    (he : exec sh i = some (sh', push, evs)) :
    sh'.lru.used = (sh'.lru.recent.map (sizeOf sh'.nodes)).sum ∧ sh'.lru.used ≤ sh'.lru.capacity := by
  have hus := h.us
  have hlr := h.lr
  have hopf : sh.closed = false → sh.forced = false := fun hc => (h.op hc).2
  have hfresh := refs_fresh h
  cases i
  case promote id => exact us_promote h he
  case setcap c => exact us_setcap h he
  case ban id => exact us_ban h he
  case levict id => exact us_levict h he
  all_goals exec_split he
  all_goals (try simp only [])
  all_goals first
    | exact hus
    | (refine ⟨?_, hus.2⟩
       rw [hus.1]
       refine (sum_sizeOf_congr (fun j _ => sizeOf_congr ?_ j)).symm
       simp [upd_map_idsize]; done)
    | (-- `setFunc` stores a size: the node has no value, so it is not on the list
       obtain ⟨n0, hfind, hnoval⟩ : ∃ n0, findId sh.nodes _ = some n0 ∧ n0.value = none :=
         ⟨_, by assumption, by assumption⟩
       have hclosed : sh.closed = false := by
         cases hc : sh.closed with
         | false => rfl
         | true => have := h.cl hc _ List.mem_cons_self; simp [openOnly] at this
       have hnot : n0.id ∉ sh.lru.recent := by
         intro hmem
         obtain ⟨m, hm, hmid, hml⟩ := (hlr.2 _).mp hmem
         have := found_unique h.ids.1 hfind hm (by rw [hmid]; exact (findId_some hfind).2)
         subst this
         have := h.vl (Or.inr hclosed) (hopf hclosed) m hm (Or.inr (Or.inl hml))
         rw [hnoval] at this; cases this
       rw [← (findId_some hfind).2]
       refine ⟨?_, hus.2⟩
       rw [hus.1]
       refine (sum_sizeOf_congr (fun j hj => sizeOf_upd_ne ?_ ?_)).symm <;>
         first | (intro _; rfl; done) | (rintro rfl; exact hnot hj))
    | (-- `mBucket.delete`
       have hfs := findKey_some (by assumption)
       have hnot := not_inList_of_ref_zero h (hopf (by simpa using ‹¬sh.closed = true›)) hfs.1 (by assumption)
       refine ⟨?_, hus.2⟩
       rw [hus.1]
       refine (sum_sizeOf_congr (fun j hj => sizeOf_eraseId_ne ?_)).symm
       rintro rfl; exact hnot hj)
    | (-- a node is created
       refine ⟨?_, hus.2⟩
       rw [hus.1]
       refine (sum_sizeOf_congr (fun j hj => sizeOf_cons_ne ?_)).symm
       intro heq; simp only [] at heq; subst heq
       have := List.count_pos_iff.mpr hj
       simp only [refsP] at hfresh; omega)
end GoLevel.CacheM
