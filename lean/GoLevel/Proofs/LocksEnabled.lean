import GoLevel.Proofs.LocksCount
/-! A decidable over-approximation of "some step is enabled" (any configuration): `canStep cfg s = false` is
checked by `decide` on concrete states and implies that `s` has no successor at all — a deadlock. -/
namespace GoLevel.Locks
open CompErr
set_option linter.unusedSimpArgs false

/-- a thread at this program counter may have an enabled step -/
def thrEn (cfg : Cfg) (s : St) : Pc → Bool
  | .idle => true
  | .ret _ | .retE _ => false
  | .putSel | .otxSel _ | .crSel | .srSel => !s.tok || offPer cfg.m s.eh || s.closed
  | .cwSend b _ _ => (s.bg b == .idle) || offErr cfg.m s.eh || s.closed
  | .cwAck _ _ _ => offErr cfg.m s.eh || s.closed
  | .cmLockTr _ | .dcLockTr _ | .clLockTr => !s.trlk
  | .cmLockClk _ => !s.clk
  | .srSet => recvs cfg.m s.eh || offPer cfg.m s.eh || s.closed
  | .clAcq => !s.tok || (s.eh == .closing && cfg.m.hasperrKeepsLock && cfg.closeSel)
  | .clWait => (s.mc == .exited) && (s.tc == .exited)
  | _ => true

/-- a compaction goroutine may have an enabled step -/
def bgEn (cfg : Cfg) (s : St) (b : Bool) : Bool :=
  match s.bg b with
  | .idle => s.closed
  | .parked => s.closed
  | .exited => false
  | .run _ ph =>
    match ph with
    | .lockClk => !s.clk
    | .setErr _ _ | .setErrC _ => recvs cfg.m s.eh || offPer cfg.m s.eh || s.closed
    | _ => true

/-- `compactionError` may have an enabled step of its own -/
def ehEn (cfg : Cfg) (s : St) : Bool :=
  (offLock cfg.m s.eh && !s.tok) || (closes cfg.m s.eh && s.closed) || (s.eh == .closing && s.tok && cfg.m.hasperrGivesBack)

def canStep (cfg : Cfg) (s : St) : Bool :=
  s.ws.any (thrEn cfg s) || bgEn cfg s false || bgEn cfg s true || ehEn cfg s

theorem canStep_thr (cfg : Cfg) (s : St) (i : Nat) (p : Pc) (hi : s.ws[i]? = some p) (h : thrEn cfg s p = true) :
    canStep cfg s = true := by
  have hm : p ∈ s.ws := List.mem_of_getElem? hi
  have : s.ws.any (thrEn cfg s) = true := List.any_eq_true.mpr ⟨p, hm, h⟩
  simp [canStep, this]

theorem canStep_bg (cfg : Cfg) (s : St) (b : Bool) (h : bgEn cfg s b = true) : canStep cfg s = true := by
  cases b <;> simp [canStep, h]

theorem canStep_eh (cfg : Cfg) (s : St) (h : ehEn cfg s = true) : canStep cfg s = true := by
  simp [canStep, h]

/-- every step is seen by `canStep` -/
theorem canStep_of_step (cfg : Cfg) (s t : St) (f : Bool) (h : Step cfg f s t) : canStep cfg s = true := by
  cases h with
  | startPut _ i hi =>
    exact canStep_thr cfg s i _ hi (by simp_all [thrEn, St.bg])
  | startWrite _ i hi =>
    exact canStep_thr cfg s i _ hi (by simp_all [thrEn, St.bg])
  | startOtx _ i hi =>
    exact canStep_thr cfg s i _ hi (by simp_all [thrEn, St.bg])
  | startCommit _ i hi hu =>
    exact canStep_thr cfg s i _ hi (by simp_all [thrEn, St.bg])
  | startDiscard _ i hi hu =>
    exact canStep_thr cfg s i _ hi (by simp_all [thrEn, St.bg])
  | startCR _ i hi =>
    exact canStep_thr cfg s i _ hi (by simp_all [thrEn, St.bg])
  | startSR _ i hi ha =>
    exact canStep_thr cfg s i _ hi (by simp_all [thrEn, St.bg])
  | startClose _ i hi =>
    exact canStep_thr cfg s i _ hi (by simp_all [thrEn, St.bg])
  | selTok _ i p q hi hq ht =>
    refine canStep_thr cfg s i p hi ?_
    cases p <;> simp only [selNext] at hq <;> (try contradiction) <;> simp_all [thrEn]
  | selPerErr _ i p q hi hq he =>
    refine canStep_thr cfg s i p hi ?_
    cases p <;> simp only [selNext] at hq <;> (try contradiction) <;> simp_all [thrEn]
  | selClosed _ i p q hi hq hc =>
    refine canStep_thr cfg s i p hi ?_
    cases p <;> simp only [selNext] at hq <;> (try contradiction) <;> simp_all [thrEn]
  | putNoWait _ i hi =>
    exact canStep_thr cfg s i _ hi (by simp_all [thrEn, St.bg])
  | putWait _ i b hi =>
    exact canStep_thr cfg s i _ hi (by simp_all [thrEn, St.bg])
  | putJournalOk _ i hi =>
    exact canStep_thr cfg s i _ hi (by simp_all [thrEn, St.bg])
  | putJournalFail _ i hi =>
    exact canStep_thr cfg s i _ hi (by simp_all [thrEn, St.bg])
  | putUnlock _ i r hi =>
    exact canStep_thr cfg s i _ hi (by simp_all [thrEn, St.bg])
  | cwSendGo _ i b site lg hi hb hro =>
    exact canStep_thr cfg s i _ hi (by simp_all [thrEn, St.bg])
  | cwSendRO _ i site lg hi hb hp hro =>
    exact canStep_thr cfg s i _ hi (by simp_all [thrEn, St.bg])
  | cwSendErr _ i b site lg hi he =>
    refine canStep_thr cfg s i _ hi ?_
    rcases he with he | he <;> simp_all [thrEn]
  | cwAckErr _ i b site lg hi he =>
    refine canStep_thr cfg s i _ hi ?_
    rcases he with he | he <;> simp_all [thrEn]
  | otxRotate _ i lg hi =>
    exact canStep_thr cfg s i _ hi (by simp_all [thrEn, St.bg])
  | otxNoRotate _ i lg hi =>
    exact canStep_thr cfg s i _ hi (by simp_all [thrEn, St.bg])
  | otxNewMemOk _ i lg hi =>
    exact canStep_thr cfg s i _ hi (by simp_all [thrEn, St.bg])
  | otxNewMemFail _ i lg hi =>
    exact canStep_thr cfg s i _ hi (by simp_all [thrEn, St.bg])
  | otxNoWaitComp _ i lg hi =>
    exact canStep_thr cfg s i _ hi (by simp_all [thrEn, St.bg])
  | otxWaitComp _ i lg hi =>
    exact canStep_thr cfg s i _ hi (by simp_all [thrEn, St.bg])
  | otxFail _ i lg hi =>
    exact canStep_thr cfg s i _ hi (by simp_all [thrEn, St.bg])
  | otxRel _ i lg hi =>
    exact canStep_thr cfg s i _ hi (by simp_all [thrEn, St.bg])
  | otxDone _ i lg hi =>
    exact canStep_thr cfg s i _ hi (by simp_all [thrEn, St.bg])
  | lgWriteOk _ i hi =>
    exact canStep_thr cfg s i _ hi (by simp_all [thrEn, St.bg])
  | lgWriteFail _ i hi =>
    exact canStep_thr cfg s i _ hi (by simp_all [thrEn, St.bg])
  | cmLockTr _ i lg hi hl =>
    exact canStep_thr cfg s i _ hi (by simp_all [thrEn, St.bg])
  | cmFlushOk _ i lg hi =>
    exact canStep_thr cfg s i _ hi (by simp_all [thrEn, St.bg])
  | cmFlushEmpty _ i lg hi =>
    exact canStep_thr cfg s i _ hi (by simp_all [thrEn, St.bg])
  | cmFlushFail _ i lg hi =>
    exact canStep_thr cfg s i _ hi (by simp_all [thrEn, St.bg])
  | cmLockClk _ i lg hi hl =>
    exact canStep_thr cfg s i _ hi (by simp_all [thrEn, St.bg])
  | cmTryOk _ i k lg hi =>
    exact canStep_thr cfg s i _ hi (by simp_all [thrEn, St.bg])
  | cmTryFail _ i k lg hi =>
    exact canStep_thr cfg s i _ hi (by simp_all [thrEn, St.bg])
  | cmSleepTimer _ i k lg hi =>
    exact canStep_thr cfg s i _ hi (by simp_all [thrEn, St.bg])
  | cmSleepClosed _ i k lg hi hc =>
    exact canStep_thr cfg s i _ hi (by simp_all [thrEn, St.bg])
  | cmFail3 _ i lg hi =>
    exact canStep_thr cfg s i _ hi (by simp_all [thrEn, St.bg])
  | cmAfterOk _ i lg hi =>
    exact canStep_thr cfg s i _ hi (by simp_all [thrEn, St.bg])
  | cmNoWaitComp _ i lg hi =>
    exact canStep_thr cfg s i _ hi (by simp_all [thrEn, St.bg])
  | cmWaitComp _ i lg hi =>
    exact canStep_thr cfg s i _ hi (by simp_all [thrEn, St.bg])
  | cmDone _ i lg hi =>
    exact canStep_thr cfg s i _ hi (by simp_all [thrEn, St.bg])
  | cmRet _ i ok lg hi =>
    exact canStep_thr cfg s i _ hi (by simp_all [thrEn, St.bg])
  | dcLockTr _ i lg hi hl =>
    exact canStep_thr cfg s i _ hi (by simp_all [thrEn, St.bg])
  | dcBody _ i lg hi =>
    exact canStep_thr cfg s i _ hi (by simp_all [thrEn, St.bg])
  | crNoOverlap _ i hi =>
    exact canStep_thr cfg s i _ hi (by simp_all [thrEn, St.bg])
  | crOverlap _ i hi =>
    exact canStep_thr cfg s i _ hi (by simp_all [thrEn, St.bg])
  | crNewMemOk _ i hi =>
    exact canStep_thr cfg s i _ hi (by simp_all [thrEn, St.bg])
  | crNewMemFail _ i hi =>
    exact canStep_thr cfg s i _ hi (by simp_all [thrEn, St.bg])
  | crRelM _ i hi =>
    exact canStep_thr cfg s i _ hi (by simp_all [thrEn, St.bg])
  | crRelOk _ i hi =>
    exact canStep_thr cfg s i _ hi (by simp_all [thrEn, St.bg])
  | crRelFail _ i hi =>
    exact canStep_thr cfg s i _ hi (by simp_all [thrEn, St.bg])
  | srSend _ i hi he =>
    exact canStep_thr cfg s i _ hi (by simp_all [thrEn, St.bg])
  | srPerErr _ i hi he =>
    exact canStep_thr cfg s i _ hi (by simp_all [thrEn, St.bg])
  | srClosed _ i hi hc =>
    exact canStep_thr cfg s i _ hi (by simp_all [thrEn, St.bg])
  | clCheckTr _ i hi =>
    exact canStep_thr cfg s i _ hi (by simp_all [thrEn, St.bg])
  | clLockTr _ i hi hl =>
    exact canStep_thr cfg s i _ hi (by simp_all [thrEn, St.bg])
  | clBody _ i hi =>
    exact canStep_thr cfg s i _ hi (by simp_all [thrEn, St.bg])
  | clAcq _ i hi ht =>
    exact canStep_thr cfg s i _ hi (by simp_all [thrEn, St.bg])
  | clAcqKept _ i hi he hk hs =>
    exact canStep_thr cfg s i _ hi (by simp_all [thrEn, St.bg])
  | clWait _ i hi hm ht =>
    exact canStep_thr cfg s i _ hi (by simp_all [thrEn, St.bg])
  | ehAcquire _ he ht =>
    exact canStep_eh cfg s (by simp_all [ehEn])
  | ehClose _ he hc =>
    exact canStep_eh cfg s (by simp_all [ehEn])
  | ehTake _ he ht =>
    exact canStep_eh cfg s (by simp_all [ehEn])
  | bgExitIdle _ b hb hc =>
    exact canStep_bg cfg s b (by simp_all [bgEn])
  | bgExitParked _ hb hc =>
    exact canStep_bg cfg s true (by simp_all [bgEn, St.bg])
  | bgWorkCorrupt _ b w hb hk =>
    exact canStep_bg cfg s b (by simp_all [bgEn])
  | bgCommitCorrupt _ b w hb hk =>
    exact canStep_bg cfg s b (by simp_all [bgEn])
  | bgSetErrCorrupt _ b w c hb he =>
    exact canStep_bg cfg s b (by simp_all [bgEn])
  | bgWorkOk _ b w hb =>
    exact canStep_bg cfg s b (by simp_all [bgEn])
  | bgWorkFail _ b w hb =>
    exact canStep_bg cfg s b (by simp_all [bgEn])
  | bgCommitOk _ b w hb =>
    exact canStep_bg cfg s b (by simp_all [bgEn])
  | bgCommitFail _ b w hb =>
    exact canStep_bg cfg s b (by simp_all [bgEn])
  | bgSetErr _ b w ok c hb he =>
    exact canStep_bg cfg s b (by simp_all [bgEn])
  | bgSetErrPer _ b w c hb he =>
    exact canStep_bg cfg s b (by simp_all [bgEn])
  | bgBackoff _ b w c hb =>
    exact canStep_bg cfg s b (by simp_all [bgEn])
  | bgLockClk _ b w hb hl =>
    exact canStep_bg cfg s b (by simp_all [bgEn])
  | bgAck _ b w hb =>
    exact canStep_bg cfg s b (by simp_all [bgEn])
  | bgExit _ b w ph hb hx =>
    refine canStep_bg cfg s b ?_
    rcases hx with ⟨h1, h2, h3⟩ | ⟨h1, c, h2 | h2⟩ <;> cases ph <;> simp_all [bgEn]

/-- a state on which `canStep` is false has no successor, with or without storage failures -/
theorem stuck_of_canStep (cfg : Cfg) (s : St) (h : canStep cfg s = false) : ¬ ∃ f t, Step cfg f s t := by
  rintro ⟨f, t, hs⟩
  rw [canStep_of_step cfg s t f hs] at h
  cases h

end GoLevel.Locks
