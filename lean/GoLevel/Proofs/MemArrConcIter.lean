import GoLevel.Proofs.MemArrConc
/-! The moves of the observed iterator in the interleaving model over the arrays (C14, `concurrent_readers`). -/
set_option linter.unusedSectionVars false
set_option linter.unusedSimpArgs false
set_option linter.unusedVariables false
namespace GoLevel.MemArr
open GoLevel.Gen (nKV nKey nVal nHeight nNext tMaxHeight)
open GoLevel.MemDB (Node LawfulCmp Sorted pred below ins Op Ans inR ps pl)

variable {cmp : Cmp} {a : DB} {d : MemDB.DB} {ix : Bytes → Nat} {D : List Dead} {puts : List (Bytes × Bytes)}
  {st lm : Option Bytes}

/-- a key that passed the test `fill` makes, and is known to be on the right side of the bound `fill` does not test, is
in the range -/
theorem inR_of_checked {k : Bytes} {cs cl : Bool} (ho : outOf cmp st lm k cs cl = false)
    (h1 : cs = false → ps cmp st k = false) (h2 : cl = false → pl cmp lm k = true) : inR cmp st lm k = true := by
  cases cs <;> cases cl <;> cases st <;> cases lm <;> simp_all [outOf, ps, pl, inR]

theorem World.fillZero (w : World cmp a d ix D puts) (ai : Iter) (hs : ai.start = st) (hl : ai.limit = lm)
    (cs cl : Bool) (h0 : ai.node = 0) :
    ∃ ai', Iter.fill cmp a ai cs cl = some (ai', false) ∧ ItOK cmp a d ix D puts st lm ai' ∧ ai'.node = 0 ∧
      ai'.gen = a.gen ∧ ai'.forward = ai.forward :=
  ⟨_, arr_fill_zero h0 cs cl, ⟨hs, hl, Nat.le_refl _, fun _ hne => absurd h0 hne⟩, h0, rfl, rfl⟩

theorem World.fillNode (w : World cmp a d ix D puts) (ai : Iter) (hs : ai.start = st) (hl : ai.limit = lm)
    (cs cl : Bool) {k : Bytes} (hal : Alloc d ix D ai.node k) (h1 : cs = false → ps cmp st k = false)
    (h2 : cl = false → pl cmp lm k = true) :
    ∃ ai' b, Iter.fill cmp a ai cs cl = some (ai', b) ∧ ItOK cmp a d ix D puts st lm ai' ∧ ai'.gen = a.gen ∧
      ai'.forward = ai.forward ∧ (ai'.node ≠ 0 → ai'.node = ai.node ∧ ai'.key = some k) := by
  have nk := w.nodeOK hal
  obtain ⟨o, v, f0, f1, f2, f3, f4, f5⟩ := nk.fields
  have hoe : outOf cmp ai.start ai.limit k cs cl = outOf cmp st lm k cs cl := by rw [hs, hl]
  rw [arr_fill_node (cmp := cmp) nk.ne f0 f1 f2 f3 f4 cs cl, hoe]
  by_cases hout : outOf cmp st lm k cs cl = true
  · simp only [hout, if_true]
    exact ⟨_, _, rfl, ⟨hs, hl, Nat.le_refl _, fun _ hne => absurd rfl hne⟩, rfl, rfl, fun hne => absurd rfl hne⟩
  · have hout' : outOf cmp st lm k cs cl = false := by simpa using hout
    simp only [hout', Bool.false_eq_true, if_false]
    refine ⟨_, _, rfl, ⟨hs, hl, Nat.le_refl _, fun _ _ => ⟨k, v, hal, rfl, rfl, f5, inR_of_checked hout' h1 h2⟩⟩,
      rfl, rfl, fun _ => ⟨rfl, rfl⟩⟩

/-- positioning on a live node (or nowhere) found by a search, then `fill` -/
theorem World.fillAt (w : World cmp a d ix D puts) {it : Iter} (io : ItOK cmp a d ix D puts st lm it)
    (fw cs cl : Bool) (tgt : Node) (arrNode : Option Nat) (hn : arrNode = some (nix ix tgt))
    (ht : ∀ k, tgt = some k → k ∈ d.level0 ∧ (cs = false → ps cmp st k = false) ∧
      (cl = false → pl cmp lm k = true)) :
    ∃ it' b, (arrNode.bind fun node => Iter.fill cmp a { it with forward := fw, node := node } cs cl) =
        some (it', b) ∧
      ItOK cmp a d ix D puts st lm it' ∧ it'.gen = a.gen ∧ it'.forward = fw ∧
      (it'.node ≠ 0 → ∃ k, tgt = some k ∧ it'.key = some k) := by
  rw [hn, Option.bind_some]
  cases tgt with
  | none =>
    obtain ⟨ai', e, ok, h0, hg, hf⟩ := w.fillZero { it with forward := fw, node := nix ix none } io.start io.limit cs cl rfl
    exact ⟨ai', false, e, ok, hg, hf, fun hne => absurd h0 hne⟩
  | some k =>
    obtain ⟨hk, h1, h2⟩ := ht k rfl
    obtain ⟨ai', b, e, ok, hg, hf, hk'⟩ := w.fillNode { it with forward := fw, node := nix ix (some k) } io.start io.limit
      cs cl (k := k) (.inl ⟨hk, rfl⟩) h1 h2
    exact ⟨ai', b, e, ok, hg, hf, fun hne => ⟨k, rfl, (hk' hne).2⟩⟩

section
variable (hc : LawfulCmp cmp) (w : World cmp a d ix D puts) {it : Iter} (io : ItOK cmp a d ix D puts st lm it)
include hc w io

theorem succ_not_below {key k : Bytes} (h : MemDB.succ cmp d.level0 key = some k) : cmp k key ≠ .lt := by
  unfold MemDB.succ at h
  exact MemDB.not_below_of_mem_dropWhile hc w.rep.inv.sorted0 key k (List.mem_of_mem_head? h)

theorem World.first_ok :
    ∃ it' b, it.first cmp a = some (it', b) ∧ ItOK cmp a d ix D puts st lm it' ∧ it'.gen = a.gen ∧
      it'.forward = true := by
  rw [arr_first_eq]
  have hst := io.start
  obtain ⟨it', b, e, ok, hg, hf, _⟩ := w.fillAt io true false true
    (match it.start with
      | some s => (MemDB.findGE cmp d s false).node
      | none => d.level0.head?)
    (match it.start with
      | some s => (findGE cmp a s false).map (fun r : Nat × Bool × List Nat => r.1)
      | none => a.nodeData[nNext]?)
    (by
      cases it.start with
      | none => exact level0_head hc w.rep
      | some s =>
        obtain ⟨pn', g1, _⟩ := findGE_sim w.rep s false
        simp only [g1, Option.map_some])
    (by
      intro k hk
      cases hs : it.start with
      | none =>
        rw [hs] at hk
        refine ⟨List.mem_of_mem_head? hk, fun _ => ?_, fun h => absurd h (by simp)⟩
        rw [← hst, hs]; rfl
      | some s =>
        rw [hs] at hk
        refine ⟨findGE_node_mem hc w.rep s false hk, fun _ => ?_, fun h => absurd h (by simp)⟩
        simp only [(MemDB.findGE_noprev hc w.rep.inv s).1] at hk
        have := succ_not_below hc w io hk
        rw [← hst, hs]
        simp [ps, this])
  exact ⟨it', b, e, ok, hg, hf⟩

theorem World.last_ok :
    ∃ it' b, it.last cmp a = some (it', b) ∧ ItOK cmp a d ix D puts st lm it' ∧ it'.gen = a.gen ∧
      it'.forward = false := by
  rw [arr_last_eq]
  have hlm := io.limit
  obtain ⟨it', b, e, ok, hg, hf, _⟩ := w.fillAt io false true false
    (match it.limit with
      | some l => MemDB.findLT cmp d l
      | none => MemDB.findLast d)
    (match it.limit with
      | some l => findLT cmp a l
      | none => findLast a)
    (by
      cases it.limit with
      | none => exact findLast_sim w.rep
      | some l => exact findLT_sim w.rep l)
    (by
      intro k hk
      cases hs : it.limit with
      | none =>
        rw [hs] at hk
        simp only [MemDB.findLast_eq hc w.rep.inv] at hk
        refine ⟨List.mem_of_getLast? hk, fun h => absurd h (by simp), fun _ => ?_⟩
        rw [← hlm, hs]; rfl
      | some l =>
        rw [hs] at hk
        simp only [MemDB.findLT_eq hc w.rep.inv] at hk
        have := MemDB.pred_mem hk
        refine ⟨this.1, fun h => absurd h (by simp), fun _ => ?_⟩
        rw [← hlm, hs]
        simp [pl, this.2])
  exact ⟨it', b, e, ok, hg, hf⟩

theorem World.seek_ok (key : Bytes) :
    ∃ it' b, it.seek cmp a key = some (it', b) ∧ ItOK cmp a d ix D puts st lm it' ∧ it'.gen = a.gen ∧
      it'.forward = true := by
  rw [arr_seek_eq]
  have hst := io.start
  obtain ⟨pn', g1, _⟩ := findGE_sim w.rep (seekKey cmp it.start key) false
  obtain ⟨it', b, e, ok, hg, hf, _⟩ := w.fillAt io true false true
    (MemDB.findGE cmp d (seekKey cmp it.start key) false).node (some (nix ix _)) rfl
    (by
      intro k hk
      refine ⟨findGE_node_mem hc w.rep _ false hk, fun _ => ?_, fun h => absurd h (by simp)⟩
      rw [(MemDB.findGE_noprev hc w.rep.inv _).1] at hk
      have hnb := succ_not_below hc w io hk
      rw [← hst]
      cases hs : it.start with
      | none => rfl
      | some s =>
        rw [hs] at hnb
        simp only [seekKey] at hnb
        simp only [ps, beq_eq_false_iff_ne, ne_eq]
        intro hlt
        by_cases hks : cmp key s = .lt
        · simp only [hks, beq_self_eq_true, if_true] at hnb
          exact hnb hlt
        · have : (cmp key s == Ordering.lt) = false := by simpa using hks
          simp only [this, Bool.false_eq_true, if_false] at hnb
          rcases hc.total k key with h | h | h
          · exact hnb h
          · subst h; exact hks hlt
          · exact hks (hc.trans _ _ _ h hlt))
  refine ⟨it', b, ?_, ok, hg, hf⟩
  rw [g1, Option.bind_some]
  rw [Option.bind_some] at e
  exact e

/-- `Next`: besides the invariant — a positioned iterator of the current generation lands on a strictly greater key, a
positioned iterator of an older generation becomes invalid -/
theorem World.next_ok :
    ∃ it' b, it.next cmp a = some (it', b) ∧ ItOK cmp a d ix D puts st lm it' ∧ (it'.node ≠ 0 → it'.gen = a.gen) ∧
      (it.node ≠ 0 → it.gen = a.gen → ∀ k1 k2, it.key = some k1 → it'.node ≠ 0 → it'.key = some k2 →
        cmp k1 k2 = .lt) ∧
      (it.node ≠ 0 → it.gen ≠ a.gen → it'.node = 0) := by
  unfold Iter.next
  by_cases h0 : it.node = 0
  · simp only [h0, if_true]
    by_cases hf : it.forward = true
    · simp only [hf, Bool.not_true, Bool.false_eq_true, if_false]
      exact ⟨it, false, rfl, io, fun hne => absurd h0 hne, fun hne => absurd rfl hne, fun hne => absurd rfl hne⟩
    · have hf' : it.forward = false := by simpa using hf
      simp only [hf', Bool.not_false, if_true]
      obtain ⟨it', b, e, ok, hg, _⟩ := w.first_ok hc io
      exact ⟨it', b, e, ok, fun _ => hg, fun hne => absurd rfl hne, fun hne => absurd rfl hne⟩
  · simp only [h0, if_false]
    by_cases hgen : it.gen = a.gen
    · have hgb : (it.gen != a.gen) = false := by simp [hgen]
      obtain ⟨k1, v1, hal, hkey, hval, hput, hin⟩ := io.cur hgen h0
      obtain ⟨nx, hnx, htgt⟩ := w.next hc hal
      simp only [hgb, Bool.false_eq_true, if_false, hnx, Option.bind_some, Option.bind_eq_bind]
      rcases htgt with rfl | ⟨k', hal', hlt⟩
      · obtain ⟨ai', e, ok, hz, hg, _⟩ := w.fillZero { it with forward := true, node := 0 } io.start io.limit false true rfl
        exact ⟨ai', false, e, ok, fun hne => absurd hz hne, fun _ _ _ _ _ hne => absurd hz hne, fun _ hne => absurd hgen hne⟩
      · have hps : ps cmp st k' = false := by
          have h1 : ps cmp st k1 = false := by
            have : (!ps cmp st k1 && pl cmp lm k1) = true := hin
            cases hp : ps cmp st k1 <;> simp_all
          cases st with
          | none => rfl
          | some s =>
            simp only [ps, beq_eq_false_iff_ne, ne_eq] at h1 ⊢
            intro h; exact h1 (hc.trans _ _ _ hlt h)
        obtain ⟨ai', b, e, ok, hg, _, hk'⟩ := w.fillNode { it with forward := true, node := nx } io.start io.limit
          false true (k := k') hal' (fun _ => hps) (fun h => absurd h (by simp))
        refine ⟨ai', b, e, ok, fun _ => hg, ?_, fun _ hne => absurd hgen hne⟩
        intro _ _ k1' k2 hk1 hne hk2
        rw [hkey] at hk1
        have := (hk' hne).2
        rw [this] at hk2
        rw [← Option.some.inj hk1, ← Option.some.inj hk2]
        exact hlt
    · have hgb : (it.gen != a.gen) = true := by simpa using hgen
      simp only [hgb, if_true, Option.bind_some, Option.bind_eq_bind]
      obtain ⟨ai', e, ok, hz, hg, _⟩ := w.fillZero { it with forward := true, node := 0 } io.start io.limit false true rfl
      exact ⟨ai', false, e, ok, fun hne => absurd hz hne, fun _ h => absurd h hgen, fun _ _ => hz⟩

/-- `Prev`, symmetrically -/
theorem World.prev_ok :
    ∃ it' b, it.prev cmp a = some (it', b) ∧ ItOK cmp a d ix D puts st lm it' ∧ (it'.node ≠ 0 → it'.gen = a.gen) ∧
      (it.node ≠ 0 → it.gen = a.gen → ∀ k1 k2, it.key = some k1 → it'.node ≠ 0 → it'.key = some k2 →
        cmp k2 k1 = .lt) ∧
      (it.node ≠ 0 → it.gen ≠ a.gen → it'.node = 0) := by
  unfold Iter.prev
  by_cases h0 : it.node = 0
  · simp only [h0, if_true]
    by_cases hf : it.forward = true
    · simp only [hf, if_true]
      obtain ⟨it', b, e, ok, hg, _⟩ := w.last_ok hc io
      exact ⟨it', b, e, ok, fun _ => hg, fun hne => absurd rfl hne, fun hne => absurd rfl hne⟩
    · have hf' : it.forward = false := by simpa using hf
      simp only [hf', Bool.false_eq_true, if_false]
      exact ⟨it, false, rfl, io, fun hne => absurd h0 hne, fun hne => absurd rfl hne, fun hne => absurd rfl hne⟩
  · simp only [h0, if_false]
    by_cases hgen : it.gen = a.gen
    · have hgb : (it.gen != a.gen) = false := by simp [hgen]
      obtain ⟨k1, v1, hal, hkey, hval, hput, hin⟩ := io.cur hgen h0
      simp only [hgb, Bool.false_eq_true, if_false, hkey, Option.getD_some]
      obtain ⟨it', b, e, ok, hg, _, hk'⟩ := w.fillAt io false true false (MemDB.findLT cmp d k1) _
        (findLT_sim w.rep k1)
        (by
          intro k hk
          rw [MemDB.findLT_eq hc w.rep.inv] at hk
          have hp := MemDB.pred_mem hk
          refine ⟨hp.1, fun h => absurd h (by simp), fun _ => ?_⟩
          have h1 : pl cmp lm k1 = true := by
            have : (!ps cmp st k1 && pl cmp lm k1) = true := hin
            cases hp' : pl cmp lm k1 <;> simp_all
          cases lm with
          | none => rfl
          | some l =>
            simp only [pl, beq_iff_eq] at h1 ⊢
            exact hc.trans _ _ _ hp.2 h1)
      refine ⟨it', b, e, ok, fun _ => hg, ?_, fun _ hne => absurd hgen hne⟩
      intro _ _ k1' k2 hk1 hne hk2
      obtain ⟨k, hk, hkk⟩ := hk' hne
      rw [hkk] at hk2
      rw [MemDB.findLT_eq hc w.rep.inv] at hk
      rw [← Option.some.inj hk1, ← Option.some.inj hk2]
      exact (MemDB.pred_mem hk).2
    · have hgb : (it.gen != a.gen) = true := by simpa using hgen
      simp only [hgb, if_true, Option.bind_some, Option.bind_eq_bind]
      obtain ⟨ai', e, ok, hz, hg, _⟩ := w.fillZero { it with forward := false, node := 0 } io.start io.limit true false rfl
      exact ⟨ai', false, e, ok, fun hne => absurd hz hne, fun _ h => absurd h hgen, fun _ _ => hz⟩

/-- any move: no panic, the invariant of the iterator is kept, a valid iterator belongs to the current generation -/
theorem World.move_ok (c : Call Bytes) :
    ∃ it' b, Iter.step cmp a c it = some (it', b) ∧ ItOK cmp a d ix D puts st lm it' ∧
      (it'.node ≠ 0 → it'.gen = a.gen) := by
  cases c with
  | first => obtain ⟨it', b, e, ok, hg, _⟩ := w.first_ok hc io; exact ⟨it', b, e, ok, fun _ => hg⟩
  | last => obtain ⟨it', b, e, ok, hg, _⟩ := w.last_ok hc io; exact ⟨it', b, e, ok, fun _ => hg⟩
  | seek k => obtain ⟨it', b, e, ok, hg, _⟩ := w.seek_ok hc io k; exact ⟨it', b, e, ok, fun _ => hg⟩
  | next => obtain ⟨it', b, e, ok, hg, _⟩ := w.next_ok hc io; exact ⟨it', b, e, ok, hg⟩
  | prev => obtain ⟨it', b, e, ok, hg, _⟩ := w.prev_ok hc io; exact ⟨it', b, e, ok, hg⟩

end

end GoLevel.MemArr
