import GoLevel.Proofs.LSMEdits
namespace GoLevel
/-!
# Overlap search (`tFiles.getOverlaps`, `table.go`)

* `getOverlapsSortedIdx`: the index arithmetic of the non-overlapped branch (`searchMinUkey`,
  `searchMaxUkey`, the two "expand by one" tests).  With the user comparer in the two expansion tests it
  returns exactly the tables meeting `[umin, umax]` (`getOverlapsSortedIdx_eq`); with `bytes.Compare`
  (the code as written, defect D1) and a non-bytewise comparer it does not (`getOverlapsSortedIdx_D1`).
* `getOverlapsL0_spec`: the restarting scan of level 0 returns exactly the tables meeting a final range
  that contains the requested one, all of them inside that range.
Core Lean only.
-/

/-! ## generic list lemmas: `findIdx` of a monotone predicate -/

section generic
variable {α : Type}

/-- (G1) an upward closed predicate holds exactly on a suffix -/
theorem filter_eq_drop_findIdx (q : α → Bool) (L : List α)
    (h : L.Pairwise (fun x y => q x = true → q y = true)) : L.filter q = L.drop (L.findIdx q) := by
  induction L with
  | nil => rfl
  | cons x xs ih =>
    obtain ⟨hx, hxs⟩ := List.pairwise_cons.1 h
    rw [List.findIdx_cons]
    by_cases hq : q x = true
    · rw [hq, cond_true, List.drop_zero, List.filter_cons_of_pos hq]
      congr 1
      exact List.filter_eq_self.2 (fun y hy => hx y hy hq)
    · have hq' : q x = false := by simpa using hq
      rw [hq', cond_false, List.drop_succ_cons, List.filter_cons_of_neg hq, ih hxs]

/-- (G2) a downward closed predicate holds exactly on a prefix -/
theorem filter_eq_take_findIdx (q : α → Bool) (L : List α)
    (h : L.Pairwise (fun x y => q y = true → q x = true)) :
    L.filter q = L.take (L.findIdx (fun x => !q x)) := by
  induction L with
  | nil => rfl
  | cons x xs ih =>
    obtain ⟨hx, hxs⟩ := List.pairwise_cons.1 h
    rw [List.findIdx_cons]
    by_cases hq : q x = true
    · rw [hq, Bool.not_true, cond_false, List.take_succ_cons, List.filter_cons_of_pos hq, ih hxs]
    · have hq' : q x = false := by simpa using hq
      rw [hq', Bool.not_false, cond_true, List.take_zero, List.filter_cons_of_neg hq]
      exact List.filter_eq_nil_iff.2 (fun y hy hy' => hq (hx y hy hy'))

/-- (G3) the first index of an upward closed predicate in a suffix -/
theorem findIdx_drop_of_upward (r : α → Bool) (L : List α)
    (h : L.Pairwise (fun x y => r x = true → r y = true)) (b : Nat) :
    (L.drop b).findIdx r = L.findIdx r - b := by
  induction L generalizing b with
  | nil => simp
  | cons x xs ih =>
    obtain ⟨hx, hxs⟩ := List.pairwise_cons.1 h
    cases b with
    | zero => simp
    | succ b =>
      rw [List.drop_succ_cons, ih hxs, List.findIdx_cons]
      by_cases hr : r x = true
      · rw [hr, cond_true]
        have : xs.findIdx r = 0 := by
          cases xs with
          | nil => rfl
          | cons y ys => rw [List.findIdx_cons, hx y (by simp) hr, cond_true]
        omega
      · have hr' : r x = false := by simpa using hr
        rw [hr', cond_false]; omega

/-- characterisation of `findIdx` by "false before, true at" -/
theorem findIdx_eq_of (q : α → Bool) (L : List α) (n : Nat) (hn : n ≤ L.length)
    (hlt : ∀ j (hj : j < L.length), j < n → q L[j] = false)
    (hat : ∀ (h : n < L.length), q L[n] = true) : L.findIdx q = n := by
  by_cases h : n < L.length
  · exact (List.findIdx_eq h).2 ⟨hat h, fun j hji => hlt j (by omega) hji⟩
  · have : n = L.length := by omega
    subst this
    refine List.findIdx_eq_length.2 (fun x hx => ?_)
    obtain ⟨j, hj, rfl⟩ := List.getElem_of_mem hx
    exact hlt j hj hj

/-- strict monotonicity of `countP` -/
theorem countP_lt_of {p q : α → Bool} {l : List α} (himp : ∀ x ∈ l, p x = true → q x = true)
    {t : α} (ht : t ∈ l) (hq : q t = true) (hp : p t = false) : l.countP p < l.countP q := by
  induction l with
  | nil => cases ht
  | cons x xs ih =>
    rw [List.countP_cons, List.countP_cons]
    have hmono : xs.countP p ≤ xs.countP q :=
      List.countP_mono_left (fun y hy => himp y (List.mem_cons_of_mem _ hy))
    rcases List.mem_cons.1 ht with rfl | ht'
    · rw [if_pos hq, if_neg (by simp [hp])]; omega
    · have := ih (fun y hy => himp y (List.mem_cons_of_mem _ hy)) ht'
      by_cases hpx : p x = true
      · rw [if_pos hpx, if_pos (himp x (by simp) hpx)]; omega
      · rw [if_neg hpx]; split <;> omega

end generic

/-! ## the sorted-level branch -/

/-- `begin` of `tFiles.getOverlaps` (non-overlapped branch, `umin != nil`); `cmp2` is `bytes.Compare` in
the Go code -/
def goBegin (c : UCmp) (cmp2 : Bytes → Bytes → Ordering) (tables : Level) (umin : Bytes) : Nat :=
  let i1 := tables.findIdx (fun t => c.cmp t.imin.ukey umin == .gt)           -- searchMinUkey
  if i1 = 0 then 0 else
    match tables[i1 - 1]? with
    | some t => if cmp2 t.imax.ukey umin != .lt then i1 - 1 else i1
    | none => i1

/-- `end` of `tFiles.getOverlaps` (non-overlapped branch, `umax != nil`) -/
def goEnd (c : UCmp) (cmp2 : Bytes → Bytes → Ordering) (tables : Level) (umax : Bytes) : Nat :=
  let i2 := tables.findIdx (fun t => c.cmp t.imax.ukey umax == .gt)           -- searchMaxUkey
  if i2 = tables.length then tables.length else
    match tables[i2]? with
    | some t => if cmp2 t.imin.ukey umax != .gt then i2 + 1 else i2
    | none => i2

/-- `tFiles.getOverlaps(…, overlapped = false)` with both bounds non-nil: the index arithmetic of the Go code.
`sort.Search` = first index satisfying the (monotone) predicate = `List.findIdx`.  `cmp2` is the comparison used by
the two "expand by one" tests (`bytes.Compare` in the Go code). -/
def getOverlapsSortedIdx (c : UCmp) (cmp2 : Bytes → Bytes → Ordering) (tables : Level) (umin umax : Bytes) : List Table :=
  if tables.isEmpty then [] else
  let i1 := tables.findIdx (fun t => c.cmp t.imin.ukey umin == .gt)           -- searchMinUkey
  let begin_ := if i1 = 0 then 0 else
    match tables[i1 - 1]? with
    | some t => if cmp2 t.imax.ukey umin != .lt then i1 - 1 else i1
    | none => i1
  let i2 := tables.findIdx (fun t => c.cmp t.imax.ukey umax == .gt)           -- searchMaxUkey
  let end_ := if i2 = tables.length then tables.length else
    match tables[i2]? with
    | some t => if cmp2 t.imin.ukey umax != .gt then i2 + 1 else i2
    | none => i2
  if begin_ ≥ end_ then [] else (tables.drop begin_).take (end_ - begin_)

theorem getOverlapsSortedIdx_unfold (c : UCmp) (cmp2 : Bytes → Bytes → Ordering) (tables : Level)
    (umin umax : Bytes) :
    getOverlapsSortedIdx c cmp2 tables umin umax =
      if tables.isEmpty then [] else
      if goBegin c cmp2 tables umin ≥ goEnd c cmp2 tables umax then []
      else (tables.drop (goBegin c cmp2 tables umin)).take
        (goEnd c cmp2 tables umax - goBegin c cmp2 tables umin) := rfl

section sorted
variable {c : UCmp} (hl : LawfulUCmp c)
include hl

/-- `searchMinUkey` is a binary search over a monotone predicate -/
theorem searchMinUkey_mono (tables : Level) (hle : ∀ t ∈ tables, c.le t.imin.ukey t.imax.ukey)
    (hp : tables.Pairwise (tlt c)) (umin : Bytes) :
    tables.Pairwise (fun x y => (c.cmp x.imin.ukey umin == .gt) = true →
      (c.cmp y.imin.ukey umin == .gt) = true) := by
  refine List.Pairwise.imp_of_mem ?_ hp
  intro x y hx _ hxy h
  rw [beq_iff_eq, cmp_gt_iff hl] at h ⊢
  exact ult_trans hl h (ult_of_ule_of_ult hl (hle x hx) hxy)

/-- `searchMaxUkey` is a binary search over a monotone predicate -/
theorem searchMaxUkey_mono (tables : Level) (hle : ∀ t ∈ tables, c.le t.imin.ukey t.imax.ukey)
    (hp : tables.Pairwise (tlt c)) (umax : Bytes) :
    tables.Pairwise (fun x y => (c.cmp x.imax.ukey umax == .gt) = true →
      (c.cmp y.imax.ukey umax == .gt) = true) := by
  refine List.Pairwise.imp_of_mem ?_ hp
  intro x y _ hy hxy h
  rw [beq_iff_eq, cmp_gt_iff hl] at h ⊢
  exact ult_of_ult_of_ule hl (ult_trans hl h hxy) (hle y hy)

/-- `umin ≤ t.imax` is upward closed along a sorted level -/
theorem q1_upward (tables : Level) (hle : ∀ t ∈ tables, c.le t.imin.ukey t.imax.ukey)
    (hp : tables.Pairwise (tlt c)) (umin : Bytes) :
    tables.Pairwise (fun x y => (c.cmp umin x.imax.ukey != .gt) = true →
      (c.cmp umin y.imax.ukey != .gt) = true) := by
  refine List.Pairwise.imp_of_mem ?_ hp
  intro x y _ hy hxy h
  rw [bne_gt_iff] at h ⊢
  exact ule_trans hl h (ule_trans hl (ule_of_ult hl hxy) (hle y hy))

/-- `t.imin ≤ umax` is downward closed along a sorted level -/
theorem q2_downward (tables : Level) (hle : ∀ t ∈ tables, c.le t.imin.ukey t.imax.ukey)
    (hp : tables.Pairwise (tlt c)) (umax : Bytes) :
    tables.Pairwise (fun x y => (c.cmp umax y.imin.ukey != .lt) = true →
      (c.cmp umax x.imin.ukey != .lt) = true) := by
  refine List.Pairwise.imp_of_mem ?_ hp
  intro x y hx _ hxy h
  rw [bne_lt_iff hl] at h ⊢
  exact ule_trans hl (hle x hx) (ule_trans hl (ule_of_ult hl hxy) h)

/-- Go's `begin` is the first table with `umin ≤ imax` -/
theorem goBegin_eq (tables : Level) (hne : tables ≠ [])
    (hle : ∀ t ∈ tables, c.le t.imin.ukey t.imax.ukey) (hp : tables.Pairwise (tlt c)) (umin : Bytes) :
    goBegin c c.cmp tables umin = tables.findIdx (fun t => c.cmp umin t.imax.ukey != .gt) := by
  have hpw := List.pairwise_iff_getElem.1 hp
  have hlen : 0 < tables.length := List.length_pos_iff.2 hne
  have hi : tables.findIdx (fun t => c.cmp t.imin.ukey umin == .gt) ≤ tables.length :=
    List.findIdx_le_length
  have H1 : ∀ j (hj : j < tables.length),
      j < tables.findIdx (fun t => c.cmp t.imin.ukey umin == .gt) → c.le tables[j].imin.ukey umin := by
    intro j hj hji
    have := List.not_of_lt_findIdx hji
    simpa [UCmp.le] using this
  have H2 : ∀ (h : tables.findIdx (fun t => c.cmp t.imin.ukey umin == .gt) < tables.length),
      c.lt umin tables[tables.findIdx (fun t => c.cmp t.imin.ukey umin == .gt)].imin.ukey := by
    intro h
    have := List.findIdx_getElem (w := h)
    rw [beq_iff_eq, cmp_gt_iff hl] at this
    exact this
  unfold goBegin
  generalize tables.findIdx (fun t => c.cmp t.imin.ukey umin == .gt) = i1 at hi H1 H2
  have hgeI (j : Nat) (hj : j < tables.length) : c.le tables[j].imin.ukey tables[j].imax.ukey :=
    hle _ (List.getElem_mem hj)
  -- `q1` at an index
  have hq1t (j : Nat) (hj : j < tables.length) (h : c.le umin tables[j].imax.ukey) :
      (c.cmp umin tables[j].imax.ukey != .gt) = true := (bne_gt_iff _ _).2 h
  have hq1f (j : Nat) (hj : j < tables.length) (h : c.lt tables[j].imax.ukey umin) :
      (c.cmp umin tables[j].imax.ukey != .gt) = false := by
    rw [← Bool.not_eq_true, bne_gt_iff, not_ule_iff hl]; exact h
  -- before `i1 - 1` everything ends before `umin`
  have hbefore (j : Nat) (hj : j < tables.length) (hji : j + 1 < i1) :
      c.lt tables[j].imax.ukey umin :=
    ult_of_ult_of_ule hl (hpw j (j + 1) hj (by omega) (by omega)) (H1 (j + 1) (by omega) hji)
  simp only []
  symm
  by_cases h0 : i1 = 0
  · rw [if_pos h0]
    subst h0
    refine findIdx_eq_of _ _ 0 (by omega) (fun j _ hj => absurd hj (by omega)) (fun h => ?_)
    exact hq1t 0 h (ule_trans hl (ule_of_ult hl (H2 h)) (hgeI 0 h))
  · rw [if_neg h0]
    have hlt : i1 - 1 < tables.length := by omega
    rw [List.getElem?_eq_getElem hlt]
    simp only []
    by_cases hq : (c.cmp tables[i1 - 1].imax.ukey umin != .lt) = true
    · rw [if_pos hq]
      refine findIdx_eq_of _ _ (i1 - 1) (by omega) (fun j hj hji => ?_) (fun h => ?_)
      · exact hq1f j hj (hbefore j hj (by omega))
      · exact hq1t _ h ((bne_lt_iff hl _ _).1 hq)
    · rw [if_neg hq]
      refine findIdx_eq_of _ _ i1 hi (fun j hj hji => ?_) (fun h => ?_)
      · by_cases hj1 : j + 1 < i1
        · exact hq1f j hj (hbefore j hj hj1)
        · have hje : j = i1 - 1 := by omega
          subst hje
          apply hq1f _ hj
          rw [bne_lt_iff hl, not_ule_iff hl] at hq
          exact hq
      · exact hq1t _ h (ule_trans hl (ule_of_ult hl (H2 h)) (hgeI _ h))

/-- Go's `end` is the first table with `umax < imin` -/
theorem goEnd_eq (tables : Level)
    (hle : ∀ t ∈ tables, c.le t.imin.ukey t.imax.ukey) (hp : tables.Pairwise (tlt c)) (umax : Bytes) :
    goEnd c c.cmp tables umax = tables.findIdx (fun t => !(c.cmp umax t.imin.ukey != .lt)) := by
  have hpw := List.pairwise_iff_getElem.1 hp
  have hi : tables.findIdx (fun t => c.cmp t.imax.ukey umax == .gt) ≤ tables.length :=
    List.findIdx_le_length
  have H1 : ∀ j (hj : j < tables.length),
      j < tables.findIdx (fun t => c.cmp t.imax.ukey umax == .gt) → c.le tables[j].imax.ukey umax := by
    intro j hj hji
    have := List.not_of_lt_findIdx hji
    simpa [UCmp.le] using this
  have H2 : ∀ (h : tables.findIdx (fun t => c.cmp t.imax.ukey umax == .gt) < tables.length),
      c.lt umax tables[tables.findIdx (fun t => c.cmp t.imax.ukey umax == .gt)].imax.ukey := by
    intro h
    have := List.findIdx_getElem (w := h)
    rw [beq_iff_eq, cmp_gt_iff hl] at this
    exact this
  unfold goEnd
  generalize tables.findIdx (fun t => c.cmp t.imax.ukey umax == .gt) = i2 at hi H1 H2
  have hgeI (j : Nat) (hj : j < tables.length) : c.le tables[j].imin.ukey tables[j].imax.ukey :=
    hle _ (List.getElem_mem hj)
  have hnq2t (j : Nat) (hj : j < tables.length) (h : c.lt umax tables[j].imin.ukey) :
      (!(c.cmp umax tables[j].imin.ukey != .lt)) = true := by
    rw [Bool.not_eq_true', ← Bool.not_eq_true, bne_lt_iff hl, not_ule_iff hl]; exact h
  have hnq2f (j : Nat) (hj : j < tables.length) (h : c.le tables[j].imin.ukey umax) :
      (!(c.cmp umax tables[j].imin.ukey != .lt)) = false := by
    rw [Bool.not_eq_false', bne_lt_iff hl]; exact h
  have hbefore (j : Nat) (hj : j < tables.length) (hji : j < i2) : c.le tables[j].imin.ukey umax :=
    ule_trans hl (hgeI j hj) (H1 j hj hji)
  simp only []
  symm
  by_cases h0 : i2 = tables.length
  · rw [if_pos h0]
    exact findIdx_eq_of _ _ _ (Nat.le_refl _) (fun j hj _ => hnq2f j hj (hbefore j hj (by omega)))
      (fun h => absurd h (by omega))
  · rw [if_neg h0]
    have hlt : i2 < tables.length := by omega
    rw [List.getElem?_eq_getElem hlt]
    simp only []
    by_cases hq : (c.cmp tables[i2].imin.ukey umax != .gt) = true
    · rw [if_pos hq]
      refine findIdx_eq_of _ _ (i2 + 1) (by omega) (fun j hj hji => ?_) (fun h => ?_)
      · by_cases hj1 : j < i2
        · exact hnq2f j hj (hbefore j hj hj1)
        · have hje : j = i2 := by omega
          subst hje
          exact hnq2f _ hj ((bne_gt_iff _ _).1 hq)
      · exact hnq2t _ h (ult_trans hl (H2 hlt) (hpw i2 (i2 + 1) hlt h (by omega)))
    · rw [if_neg hq]
      refine findIdx_eq_of _ _ i2 hi (fun j hj hji => hnq2f j hj (hbefore j hj hji)) (fun h => ?_)
      apply hnq2t _ h
      rw [bne_gt_iff, not_ule_iff hl] at hq
      exact hq

end sorted

/-- **`getOverlapsSorted_spec`.**  On a sorted level of tables with `imin ≤ imax`, the index arithmetic of
`tFiles.getOverlaps` — with the *user comparer* in the two expansion tests — returns exactly the tables
whose user-key range meets `[umin, umax]`.  No assumption `umin ≤ umax` is needed. -/
theorem getOverlapsSortedIdx_eq {c : UCmp} (hl : LawfulUCmp c) (tables : Level)
    (hle : ∀ t ∈ tables, c.le t.imin.ukey t.imax.ukey) (hp : tables.Pairwise (tlt c)) (umin umax : Bytes) :
    getOverlapsSortedIdx c c.cmp tables umin umax = getOverlapsSorted c tables umin umax := by
  rw [getOverlapsSortedIdx_unfold]
  by_cases hemp : tables = []
  · subst hemp; rfl
  have hne : tables.isEmpty = false := by
    cases tables with
    | nil => exact absurd rfl hemp
    | cons _ _ => rfl
  rw [hne, goBegin_eq hl tables hemp hle hp umin, goEnd_eq hl tables hle hp umax]
  simp only [Bool.false_eq_true, if_false]
  -- the specification side as `take (e - b) (drop b tables)`
  have hq1 := q1_upward hl tables hle hp umin
  have hq2 := q2_downward hl tables hle hp umax
  have hspec : getOverlapsSorted c tables umin umax =
      (tables.drop (tables.findIdx (fun t => c.cmp umin t.imax.ukey != .gt))).take
        (tables.findIdx (fun t => !(c.cmp umax t.imin.ukey != .lt)) -
          tables.findIdx (fun t => c.cmp umin t.imax.ukey != .gt)) := by
    have h1 : getOverlapsSorted c tables umin umax =
        (tables.filter (fun t => c.cmp umin t.imax.ukey != .gt)).filter
          (fun t => c.cmp umax t.imin.ukey != .lt) := by
      rw [List.filter_filter]
      unfold getOverlapsSorted
      apply List.filter_congr
      intro t _
      simp only [Table.overlapsRange, Bool.and_comm]
    rw [h1, filter_eq_drop_findIdx _ _ hq1]
    have hq2' : (tables.drop (tables.findIdx (fun t => c.cmp umin t.imax.ukey != .gt))).Pairwise
        (fun x y => (c.cmp umax y.imin.ukey != .lt) = true → (c.cmp umax x.imin.ukey != .lt) = true) :=
      List.Pairwise.sublist (List.drop_sublist _ _) hq2
    rw [filter_eq_take_findIdx _ _ hq2']
    congr 1
    apply findIdx_drop_of_upward
    refine List.Pairwise.imp ?_ hq2
    intro x y hxy hx
    cases hy : (c.cmp umax y.imin.ukey != .lt) with
    | false => rfl
    | true => rw [hxy hy] at hx; exact absurd hx (by simp)
  rw [hspec]
  split
  · rename_i hge
    have : tables.findIdx (fun t => !(c.cmp umax t.imin.ukey != .lt)) -
        tables.findIdx (fun t => c.cmp umin t.imax.ukey != .gt) = 0 := by omega
    rw [this, List.take_zero]
  · rfl

/-! ### non-vacuity and the `bytes.Compare` defect (D1) -/

/-- a table with one-byte bounds and no content (only `imin`/`imax` matter for the overlap search) -/
def ovT (n : Nat) (a b : UInt8) : Table := ⟨n, 0, [], mkIKey [a] 1 1, mkIKey [b] 1 1⟩

example :
    let L : Level := [ovT 1 10 20, ovT 2 30 40, ovT 3 50 60]
    levelDisjointB bytewise L = true ∧ (∀ t ∈ L, bytewise.le t.imin.ukey t.imax.ukey) ∧
    getOverlapsSortedIdx bytewise bytewise.cmp L [15] [35] = [ovT 1 10 20, ovT 2 30 40] ∧
    getOverlapsSorted bytewise L [15] [35] = [ovT 1 10 20, ovT 2 30 40] ∧
    getOverlapsSortedIdx bytewise bytewise.cmp L [25] [26] = [] ∧
    getOverlapsSortedIdx bytewise bytewise.cmp L [45] [200] = [ovT 3 50 60] := by decide

/-- a lawful comparer that is not bytewise: reversed byte order -/
def revCmp : UCmp := ⟨fun a b => bytesCompare b a, fun _ _ => none, fun _ => none⟩

theorem revCmp_lawful : LawfulUCmp revCmp where
  refl a := bytesCompare_refl a
  eq_of a b h := (bytesCompare_eq b a h).symm
  gt_iff a b := bytesCompare_gt_iff b a
  trans a b d h1 h2 := bytesCompare_trans d b a h2 h1
  sep_ok a b d _ h := by cases h
  succ_ok b d h := by cases h

/-- **Defect D1.**  With a lawful non-bytewise comparer the code as written (`bytes.Compare` in the two
expansion tests) returns a table that does not overlap the range and misses the one that does. -/
theorem getOverlapsSortedIdx_D1 :
    let L : Level := [ovT 1 60 50, ovT 2 40 30, ovT 3 20 10]
    levelDisjointB revCmp L = true ∧ (∀ t ∈ L, revCmp.le t.imin.ukey t.imax.ukey) ∧
    revCmp.le [45] [35] ∧
    getOverlapsSorted revCmp L [45] [35] = [ovT 2 40 30] ∧
    getOverlapsSortedIdx revCmp revCmp.cmp L [45] [35] = [ovT 2 40 30] ∧
    getOverlapsSortedIdx revCmp bytesCompare L [45] [35] = [ovT 1 60 50] := by decide

example : ∃ (L : Level) (umin umax : Bytes), L.Pairwise (tlt revCmp) ∧
    (∀ t ∈ L, revCmp.le t.imin.ukey t.imax.ukey) ∧
    getOverlapsSortedIdx revCmp bytesCompare L umin umax ≠ getOverlapsSorted revCmp L umin umax := by
  refine ⟨[ovT 1 60 50, ovT 2 40 30, ovT 3 20 10], [45], [35], ?_, by decide, by decide⟩
  exact (levelDisjoint_pairwise revCmp_lawful _ (by decide)).1 (by decide)

/-! ## the level-0 branch: restart whenever the range grows -/

/-- termination measure of the restarts: tables starting before `umin` plus tables ending after `umax` -/
def l0Measure (c : UCmp) (tables : Level) (umin umax : Bytes) : Nat :=
  tables.countP (fun t => decide (c.lt t.imin.ukey umin)) +
  tables.countP (fun t => decide (c.lt umax t.imax.ukey))

theorem l0Measure_le (c : UCmp) (tables : Level) (umin umax : Bytes) :
    l0Measure c tables umin umax ≤ 2 * tables.length := by
  unfold l0Measure
  have h1 := List.countP_le_length (p := fun t : Table => decide (c.lt t.imin.ukey umin)) (l := tables)
  have h2 := List.countP_le_length (p := fun t : Table => decide (c.lt umax t.imax.ukey)) (l := tables)
  omega

section l0
variable {c : UCmp} (hl : LawfulUCmp c)
include hl

/-- a completed scan: exactly the overlapping tables, in order, all inside the range -/
theorem scan_inr (umin umax : Bytes) (ts acc r : List Table)
    (h : getOverlapsL0.scan c umin umax ts acc = .inr r) :
    r = acc.reverse ++ ts.filter (·.overlapsRange c umin umax) ∧
    ∀ t ∈ ts, t.overlapsRange c umin umax = true → c.le umin t.imin.ukey ∧ c.le t.imax.ukey umax := by
  induction ts generalizing acc with
  | nil =>
    simp only [getOverlapsL0.scan, Sum.inr.injEq] at h
    subst h
    exact ⟨by simp, fun t ht => by cases ht⟩
  | cons t ts ih =>
    rw [getOverlapsL0.scan] at h
    by_cases hov : t.overlapsRange c umin umax = true
    · rw [if_pos hov] at h
      by_cases h1 : c.cmp t.imin.ukey umin = .lt
      · rw [if_pos h1] at h; cases h
      rw [if_neg h1] at h
      by_cases h2 : c.cmp t.imax.ukey umax = .gt
      · rw [if_pos h2] at h; cases h
      rw [if_neg h2] at h
      obtain ⟨e1, e2⟩ := ih _ h
      refine ⟨?_, ?_⟩
      · rw [e1]; simp [hov]
      · intro x hx hxo
        rcases List.mem_cons.1 hx with rfl | hx
        · exact ⟨(not_ult_iff hl _ _).1 h1, h2⟩
        · exact e2 x hx hxo
    · rw [if_neg hov] at h
      obtain ⟨e1, e2⟩ := ih _ h
      refine ⟨?_, ?_⟩
      · rw [e1]; simp [hov]
      · intro x hx hxo
        rcases List.mem_cons.1 hx with rfl | hx
        · exact absurd hxo hov
        · exact e2 x hx hxo

/-- an interrupted scan: the range is strictly widened to a bound of an overlapping table -/
theorem scan_inl (umin umax : Bytes) (ts acc : List Table) (a b : Bytes)
    (h : getOverlapsL0.scan c umin umax ts acc = .inl (a, b)) :
    ∃ t ∈ ts, t.overlapsRange c umin umax = true ∧
      ((a = t.imin.ukey ∧ c.lt a umin ∧ b = umax) ∨ (a = umin ∧ b = t.imax.ukey ∧ c.lt umax b)) := by
  induction ts generalizing acc with
  | nil => simp only [getOverlapsL0.scan] at h; cases h
  | cons t ts ih =>
    rw [getOverlapsL0.scan] at h
    by_cases hov : t.overlapsRange c umin umax = true
    · rw [if_pos hov] at h
      by_cases h1 : c.cmp t.imin.ukey umin = .lt
      · rw [if_pos h1] at h
        simp only [Sum.inl.injEq, Prod.mk.injEq] at h
        obtain ⟨rfl, rfl⟩ := h
        exact ⟨t, by simp, hov, .inl ⟨rfl, h1, rfl⟩⟩
      rw [if_neg h1] at h
      by_cases h2 : c.cmp t.imax.ukey umax = .gt
      · rw [if_pos h2] at h
        simp only [Sum.inl.injEq, Prod.mk.injEq] at h
        obtain ⟨rfl, rfl⟩ := h
        exact ⟨t, by simp, hov, .inr ⟨rfl, rfl, (cmp_gt_iff hl _ _).1 h2⟩⟩
      rw [if_neg h2] at h
      obtain ⟨x, hx, hxo⟩ := ih _ h
      exact ⟨x, List.mem_cons_of_mem _ hx, hxo⟩
    · rw [if_neg hov] at h
      obtain ⟨x, hx, hxo⟩ := ih _ h
      exact ⟨x, List.mem_cons_of_mem _ hx, hxo⟩

theorem l0Measure_lt_left (tables : Level) (umin umax : Bytes) {t : Table} (ht : t ∈ tables)
    (h : c.lt t.imin.ukey umin) : l0Measure c tables t.imin.ukey umax < l0Measure c tables umin umax := by
  unfold l0Measure
  have := countP_lt_of (p := fun x : Table => decide (c.lt x.imin.ukey t.imin.ukey))
    (q := fun x : Table => decide (c.lt x.imin.ukey umin)) (l := tables)
    (fun x _ hx => by
      rw [decide_eq_true_eq] at hx ⊢
      exact ult_trans hl hx h) ht (decide_eq_true h) (decide_eq_false (ult_irrefl hl _))
  omega

theorem l0Measure_lt_right (tables : Level) (umin umax : Bytes) {t : Table} (ht : t ∈ tables)
    (h : c.lt umax t.imax.ukey) : l0Measure c tables umin t.imax.ukey < l0Measure c tables umin umax := by
  unfold l0Measure
  have := countP_lt_of (p := fun x : Table => decide (c.lt t.imax.ukey x.imax.ukey))
    (q := fun x : Table => decide (c.lt umax x.imax.ukey)) (l := tables)
    (fun x _ hx => by
      rw [decide_eq_true_eq] at hx ⊢
      exact ult_trans hl h hx) ht (decide_eq_true h) (decide_eq_false (ult_irrefl hl _))
  omega

/-- the statement proved about a result `res` of `getOverlaps` on level 0 -/
def L0Spec (c : UCmp) (tables : Level) (res : List Table) (umin umax : Bytes) : Prop :=
  ∃ umin' umax', c.le umin' umin ∧ c.le umax umax' ∧
    res = tables.filter (·.overlapsRange c umin' umax') ∧
    (∀ t ∈ res, c.le umin' t.imin.ukey ∧ c.le t.imax.ukey umax')

theorem getOverlapsL0_aux (tables : Level) : ∀ (fuel : Nat) (umin umax : Bytes),
    l0Measure c tables umin umax < fuel →
    L0Spec c tables (getOverlapsL0 c tables fuel umin umax) umin umax := by
  intro fuel
  induction fuel with
  | zero => intro _ _ h; omega
  | succ fuel ih =>
    intro umin umax hm
    rw [getOverlapsL0]
    cases hs : getOverlapsL0.scan c umin umax tables [] with
    | inr r =>
      obtain ⟨e1, e2⟩ := scan_inr hl umin umax tables [] r hs
      simp only [List.reverse_nil, List.nil_append] at e1
      refine ⟨umin, umax, ule_refl hl _, ule_refl hl _, e1, ?_⟩
      intro t ht
      rw [e1, List.mem_filter] at ht
      exact e2 t ht.1 ht.2
    | inl ab =>
      obtain ⟨a, b⟩ := ab
      obtain ⟨t, ht, _, hcase⟩ := scan_inl hl umin umax tables [] a b hs
      show L0Spec c tables (getOverlapsL0 c tables fuel a b) umin umax
      rcases hcase with ⟨rfl, hlt, rfl⟩ | ⟨rfl, rfl, hlt⟩
      · have := l0Measure_lt_left hl tables umin b ht hlt
        obtain ⟨u, v, h1, h2, h3, h4⟩ := ih t.imin.ukey b (by omega)
        exact ⟨u, v, ule_trans hl h1 (ule_of_ult hl hlt), h2, h3, h4⟩
      · have := l0Measure_lt_right hl tables a umax ht hlt
        obtain ⟨u, v, h1, h2, h3, h4⟩ := ih a t.imax.ukey (by omega)
        exact ⟨u, v, h1, ule_trans hl (ule_of_ult hl hlt) h2, h3, h4⟩

end l0

/-- **`getOverlapsL0_spec`.**  With fuel for `2·len + 1` scans, the level-0 overlap search returns exactly
the tables meeting a final range `[umin', umax'] ⊇ [umin, umax]`, and every returned table lies inside that
final range. -/
theorem getOverlapsL0_spec {c : UCmp} (hl : LawfulUCmp c) (tables : Level) (fuel : Nat) (umin umax : Bytes)
    (hfuel : 2 * tables.length + 1 ≤ fuel) :
    ∃ umin' umax', c.le umin' umin ∧ c.le umax umax' ∧
      getOverlapsL0 c tables fuel umin umax = tables.filter (·.overlapsRange c umin' umax') ∧
      (∀ t ∈ getOverlapsL0 c tables fuel umin umax, c.le umin' t.imin.ukey ∧ c.le t.imax.ukey umax') := by
  have := l0Measure_le c tables umin umax
  exact getOverlapsL0_aux hl tables fuel umin umax (by omega)

/-- every table meeting the *requested* range is returned -/
theorem getOverlapsL0_complete {c : UCmp} (hl : LawfulUCmp c) (tables : Level) (fuel : Nat) (umin umax : Bytes)
    (hfuel : 2 * tables.length + 1 ≤ fuel) :
    ∀ t ∈ tables, t.overlapsRange c umin umax = true → t ∈ getOverlapsL0 c tables fuel umin umax := by
  obtain ⟨u, v, h1, h2, h3, _⟩ := getOverlapsL0_spec hl tables fuel umin umax hfuel
  intro t ht hov
  rw [h3, List.mem_filter]
  refine ⟨ht, ?_⟩
  rw [overlapsRange_iff hl] at hov ⊢
  exact ⟨ule_trans hl h1 hov.1, ule_trans hl hov.2 h2⟩

/-- the result is a sublist of the level (order and multiplicity preserved) -/
theorem getOverlapsL0_sublist {c : UCmp} (hl : LawfulUCmp c) (tables : Level) (fuel : Nat) (umin umax : Bytes)
    (hfuel : 2 * tables.length + 1 ≤ fuel) :
    (getOverlapsL0 c tables fuel umin umax).Sublist tables := by
  obtain ⟨u, v, _, _, h3, _⟩ := getOverlapsL0_spec hl tables fuel umin umax hfuel
  rw [h3]; exact List.filter_sublist

/-- the form used by the compaction theorem: a final range `[umin', umax'] ⊇ [umin, umax]` that bounds
every returned table, while every table left behind does not meet it — so a table left behind has a
user-key range disjoint from that of every returned table -/
theorem getOverlapsL0_closed {c : UCmp} (hl : LawfulUCmp c) (tables : Level) (fuel : Nat) (umin umax : Bytes)
    (hfuel : 2 * tables.length + 1 ≤ fuel) :
    ∃ umin' umax', c.le umin' umin ∧ c.le umax umax' ∧
      (∀ t ∈ getOverlapsL0 c tables fuel umin umax, t ∈ tables ∧
        c.le umin' t.imin.ukey ∧ c.le t.imax.ukey umax') ∧
      (∀ t ∈ tables, t.overlapsRange c umin umax = true → t ∈ getOverlapsL0 c tables fuel umin umax) ∧
      (∀ t ∈ tables, t ∉ getOverlapsL0 c tables fuel umin umax → t.overlapsRange c umin' umax' = false) ∧
      (∀ t ∈ tables, t ∉ getOverlapsL0 c tables fuel umin umax →
        ∀ s ∈ getOverlapsL0 c tables fuel umin umax, tlt c t s ∨ tlt c s t) := by
  obtain ⟨u, v, h1, h2, h3, h4⟩ := getOverlapsL0_spec hl tables fuel umin umax hfuel
  have hnot : ∀ t ∈ tables, t ∉ getOverlapsL0 c tables fuel umin umax →
      t.overlapsRange c u v = false := by
    intro t ht hn
    rw [h3, List.mem_filter] at hn
    cases hov : t.overlapsRange c u v with
    | false => rfl
    | true => exact absurd ⟨ht, hov⟩ hn
  refine ⟨u, v, h1, h2, ?_, getOverlapsL0_complete hl tables fuel umin umax hfuel, hnot, ?_⟩
  · intro t ht
    refine ⟨?_, h4 t ht⟩
    rw [h3] at ht; exact (List.mem_filter.1 ht).1
  · intro t ht hn s hs
    obtain ⟨hs1, hs2⟩ := h4 s hs
    rcases (not_overlapsRange_iff hl t u v).1 (hnot t ht hn) with h | h
    · exact .inl (ult_of_ult_of_ule hl h hs1)
    · exact .inr (ult_of_ule_of_ult hl hs2 h)

/-- non-vacuity: four level-0 tables; the request `[50, 55]` meets only table 1, whose lower bound pulls in
table 2 (first restart), whose lower bound pulls in table 3 (second restart); table 4 stays outside -/
example :
    let L : Level := [ovT 1 40 60, ovT 2 25 45, ovT 3 10 30, ovT 4 70 80]
    getOverlapsL0 bytewise L 9 [50] [55] = [ovT 1 40 60, ovT 2 25 45, ovT 3 10 30] ∧
    getOverlapsL0 bytewise L 1 [50] [55] = [ovT 1 40 60, ovT 2 25 45] ∧
    getOverlapsL0 bytewise L 0 [50] [55] = [ovT 1 40 60] ∧
    getOverlapsL0 bytewise L 9 [50] [55] = L.filter (·.overlapsRange bytewise [10] [60]) ∧
    2 * L.length + 1 ≤ 9 := by decide

end GoLevel
