import GoLevel.Proofs.DurableStepJ10
/-!
Job steps, part 11: `rmJ`.
-/
namespace GoLevel.Dur

theorem inv_job_rmJ_cons {cfg : Cfg} {s : St} {d : Disk} (h : Inv cfg s d) {j : Job}
    (hj : s.job = some j) {n : Nat} {rest : List Nat} (hpc : j.pc = .rmJ (n :: rest)) {rot : Bool}
    {s' : St} {d' : Disk} (hs : stepJob cfg s d j rot .ok = some (s', d')) : Inv cfg s' d' := by
  have hok := h.job
  rw [hj] at hok
  have hok : JobOK cfg s d j := hok
  rw [stepJob_rmJ_cons hpc] at hs
  simp only [Option.some.injEq, Prod.mk.injEq] at hs
  obtain ⟨rfl, rfl⟩ := hs
  have hpost : j.pc.post = true := by rw [hpc]; rfl
  have hopen := h.post_open hj hpost
  have hcases := h.post_cases hj hpost
  obtain ⟨mf, v0, v, hparts, hlv, _⟩ := h.disk.last
  have hcur := hparts.cur
  have hnr : ∀ m, j.pc ≠ .rotRemove m := by rw [hpc]; intro m hm; cases hm
  have hph := h.not_crashed hj
  have hb := h.bounds hph
  -- the removal clause
  have hrm := hok.removals
  rw [hlv] at hrm
  simp only [Holds] at hrm
  unfold RemovalsOK at hrm
  rw [hpc] at hrm
  simp only at hrm
  obtain ⟨hrmj, hrmt, hrmc, hrme⟩ := hrm
  have hnotc : ¬ (j.kind = .compaction ∨ j.kind = .tr) := fun hk => by have := hrmc hk; cases this
  obtain ⟨hn1, hn2⟩ := hrmj n List.mem_cons_self
  let j' : Job := { j with pc := .rmJ rest }
  let d1 : Disk := { d with journals := d.journals.erase n }
  have hmfd' : MfdOK { s with job := some j' } d1 := (h.mfd hj).transport (s' := { s with job := some j' })
    (by rw [hj]; intro m hm; exact hnr m (Option.some.inj hm)) (by intro m hm; cases hm) rfl rfl rfl
  have hlimbo' : LimboOK { s with job := some j' } d1 := by
    rcases hcases with ⟨hl, _⟩ | ⟨he, _, hr, _⟩
    · exact LimboOK.of_none hl
    · exact (h.run hr).limbo.job_pc hj j' s.nextFile rfl rfl (fun hx => by rw [hpc] at hx; cases hx) (Or.inl he) rfl
        (Nat.le_refl _)
  have hkey : (s.phase = .running → n ≠ s.jcur) ∧
      ∀ mf1, curManifest d = some mf1 → ∀ k ≤ mf1.unsynced.length, ∀ v1, viewAt cfg mf1 k = some v1 →
        n < v1.jn ∨ ∀ p ∈ d.journals, p.1 = n → ∀ g ∈ p.2.all, g ∉ must s := by
    rcases hcases with ⟨hl, _⟩ | ⟨he, _, _, _, jf, _, hrj, hjlt, hst⟩
    · obtain ⟨mf', v', hcur', hun, hlv', hv0, _⟩ := hok.post_settled hpost hopen hl
      rw [hcur] at hcur'; cases hcur'
      rw [hlv] at hlv'; cases hlv'
      have hbv := hb.all mf hcur 0 (Nat.zero_le _) v hv0
      refine ⟨fun hr => ?_, fun mf1 hc1 k hk v1 hv1 => ?_⟩
      · rcases hn1 with h1 | ⟨h1, _⟩
        · have := hbv.2.2 hr; omega
        · omega
      · rw [hcur] at hc1; cases hc1
        have : k = 0 := by simpa [hun] using hk
        subst this
        rw [hv0] at hv1; cases hv1
        rcases hn1 with h1 | ⟨_, h1⟩
        · exact Or.inl h1
        · exact Or.inr (fun p hp hpn g hg => (h1 p hp hpn g hg).1)
    · have hnjf : n = jf := by
        have := hrme he n List.mem_cons_self
        rw [hrj] at this
        exact List.mem_singleton.1 this
      subst hnjf
      exact ⟨fun _ => by omega, fun mf1 hc1 k hk v1 hv1 => Or.inr hst⟩
  have hnj := hkey.1
  constructor
  · exact h.disk.journal_remove n hkey.2
  · exact h.mm.of_same rfl rfl
  · intro _
    exact hb.of_same rfl (h.seqHi_step hj rfl rfl rfl rfl (fun hb' => nomatch hb')) (Nat.le_refl _)
      (fun hr => ⟨hr, Nat.le_refl _⟩)
  · intro hr
    refine (h.run hr).rmJ j' n (hnj hr) ?_ hmfd' hlimbo'
    intro hfp
    have hfp' : j'.kind = .flush → j'.pc.uninstalled = true := hfp
    rcases hok.kind_running hr with hk | hk
    · exact nomatch (hfp' hk)
    · exact hnotc hk
  · intro hr
    exact (h.recov hr).imp (fun r hrr => hrr.rmJ j' n rfl hmfd')
  · intro hcr; exact absurd hcr hph
  · show JobOK cfg _ d1 j'
    apply JobOK.post_next (d' := d1) hok hpost (.rmJ rest) rfl rfl
    · -- the journal `newMem` made is not among the removed ones
      have hmk := hok.mkj
      unfold MkJournalOK at hmk ⊢
      show match j.mkJournal with
        | none => True
        | some x => _
      cases hx : j.mkJournal with
      | none => trivial
      | some x =>
        rw [hx] at hmk
        simp only at hmk ⊢
        have hlt := hn2 x hx
        rw [if_neg (by rw [hpc]; rintro (h3 | h3) <;> cases h3)] at hmk
        rw [if_neg (by rintro (h3 | h3) <;> cases h3)]
        obtain ⟨a, b, ⟨p, hp, hpx⟩, c⟩ := hmk
        refine ⟨a, b, ⟨p, mem_erase.2 ⟨hp, by rw [hpx]; omega⟩, hpx⟩, fun q hq => c q (mem_erase.1 hq).1⟩
    · have : lastView cfg d1 = lastView cfg d := rfl
      rw [this, hlv]
      simp only [Holds]
      unfold RemovalsOK
      simp only
      refine ⟨fun m hm => ?_, hrmt, fun hk => absurd hk hnotc, fun he m hm => hrme he m (List.mem_cons_of_mem _ hm)⟩
      obtain ⟨a, b⟩ := hrmj m (List.mem_cons_of_mem _ hm)
      refine ⟨?_, b⟩
      rcases a with a | ⟨a1, a2⟩
      · exact Or.inl a
      · exact Or.inr ⟨a1, fun p hp => a2 p (mem_erase.1 hp).1⟩
    · exact fun _ _ _ _ _ => rfl

theorem inv_job_rmJ_nil {cfg : Cfg} {s : St} {d : Disk} (h : Inv cfg s d) {j : Job}
    (hj : s.job = some j) (hpc : j.pc = .rmJ []) {rot : Bool}
    {s' : St} {d' : Disk} (hs : stepJob cfg s d j rot .ok = some (s', d')) : Inv cfg s' d' := by
  have hok := h.job
  rw [hj] at hok
  have hok : JobOK cfg s d j := hok
  rw [stepJob_rmJ_nil hpc] at hs
  simp only [Option.some.injEq, Prod.mk.injEq] at hs
  obtain ⟨rfl, rfl⟩ := hs
  have hpost : j.pc.post = true := by rw [hpc]; rfl
  have hnr : ∀ m, j.pc ≠ .rotRemove m := by rw [hpc]; intro m hm; cases hm
  have hph := h.not_crashed hj
  have hb := h.bounds hph
  let j' : Job := { j with pc := .rmT j.rmTables }
  have hpf := phase_frame (d' := d) h j' s.nextFile (Nat.le_refl _) rfl rfl rfl (by intro m hm; cases hm)
    ⟨j, hj, hnr⟩ (fun hb' => by cases hb')
    (fun j0 h0 => by rw [hj] at h0; cases h0; exact ⟨rfl, fun _ _ => rfl⟩)
    (fun _ => h.post_limbo hj hpost _ rfl (fun _ => rfl))
  obtain ⟨mf, v0, v, hparts, hlv, _⟩ := h.disk.last
  have hrm := hok.removals
  rw [hlv] at hrm
  simp only [Holds] at hrm
  unfold RemovalsOK at hrm
  rw [hpc] at hrm
  simp only at hrm
  constructor
  · exact h.disk
  · exact h.mm.of_same rfl rfl
  · intro _
    exact hb.of_same rfl (h.seqHi_step hj rfl rfl rfl rfl (fun hb' => nomatch hb')) (Nat.le_refl _)
      (fun hr => ⟨hr, Nat.le_refl _⟩)
  · exact hpf.1
  · exact hpf.2
  · intro hcr; exact absurd hcr hph
  · show JobOK cfg _ d j'
    apply JobOK.post_next (d' := d) hok hpost (.rmT j.rmTables) rfl rfl
    · exact hok.mkj.transport (s' := { s with job := some j' }) (j' := j') (Nat.le_refl _) rfl rfl rfl (by
        constructor
        · rintro (h3 | h3) <;> cases h3
        · rw [hpc]; rintro (h3 | h3) <;> cases h3)
    · rw [hlv]
      simp only [Holds]
      unfold RemovalsOK
      refine ⟨hrm.2.1, fun he => ?_⟩
      rcases h.post_cases hj hpost with ⟨_, hne⟩ | ⟨_, _, _, hrt, _⟩
      · exact absurd he hne
      · exact hrt
    · exact fun _ _ _ _ _ => rfl

end GoLevel.Dur
