import GoLevel.Proofs.FSMetaLive
/-! `setMeta` from a clean directory with exactly one failing system call: which failures are "with effect". -/
namespace GoLevel.FSMeta

/-- the `k`-th system call has the fate `f`, all others work -/
def oneFault (k : Nat) (f : Fault) : Nat → Fault := fun j => if j = k then f else .ok

/-- run `setMeta` from an explicit clean directory under an explicit oracle -/
macro "eval_run" : tactic =>
  `(tactic| simp [*, oneFault, CleanP.fs, CleanP.cur, CleanP.dir, setMeta, W.of, stat, sys, readFile, writeFileSynced,
     openTrunc, write, fsync, close, setMetaTail, rename, syncDir, sysF, FS.vdir, Dir.get, Dir.del, getL, FS.read, FS.ino,
     Content.gen, FS.setIno, firstErr, FS.op, Dir.apply, Dir.set, delL, cutOf, liveAnswer])

set_option maxRecDepth 4000 in
set_option maxHeartbeats 4000000 in
/-- the system calls of `setMeta b` from a clean directory are, in order: 0 `Stat(CURRENT)`, 1 `ReadFile(CURRENT)`,
    2-5 `OpenFile`/`Write`/`Sync`/`Close` of `CURRENT.bak`, 6-9 the same of `CURRENT.<b>`, 10 `rename`, 11 `syncDir`.
    If exactly the `k`-th fails, `setMeta` returns the error and `GetMeta` then answers: `a` for `k ≤ 7` (up to and
    including the `Write` of the new file); for `k ∈ {8, 9, 10}` (its `Sync`, its `Close`, the `rename`) `b` when `b`
    is the greater number and `a` otherwise; `b` for `k = 11` (`syncDir`). -/
theorem failure_table (p : CleanP) (hp : p.Ok) (k : Nat) (hk : k < 12) (f : Fault) (hf : f = .fail ∨ f = .failPartial) :
    (setMeta {} (m p.b) (W.of p.fs (oneFault k f))).1 = .error .io ∧
    (setMeta {} (m p.b) (W.of p.fs (oneFault k f))).2.dead = false ∧
    ask {} true (setMeta {} (m p.b) (W.of p.fs (oneFault k f))).2.fs =
      .ok (if k ≤ 7 then m p.a else if k ≤ 10 then (if p.a < p.b then m p.b else m p.a) else m p.b) := by
  have hs := setMeta_shape p hp (oneFault k f)
  rw [shape_live p hp hs]
  obtain ⟨a, b, ca, bak, files⟩ := p
  obtain ⟨hne, fa, fb⟩ := hp
  try simp only at hne fa fb
  have hne' : ¬ b = a := fun h => hne h.symm
  have hk' : k = 0 ∨ k = 1 ∨ k = 2 ∨ k = 3 ∨ k = 4 ∨ k = 5 ∨ k = 6 ∨ k = 7 ∨ k = 8 ∨ k = 9 ∨ k = 10 ∨ k = 11 := by omega
  clear hs
  by_cases hab : a < b <;> cases bak <;>
    rcases hk' with rfl | rfl | rfl | rfl | rfl | rfl | rfl | rfl | rfl | rfl | rfl | rfl <;>
    rcases hf with rfl | rfl <;> eval_run

end GoLevel.FSMeta
