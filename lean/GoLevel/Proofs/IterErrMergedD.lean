import GoLevel.Proofs.IterErrMergedA
/-!
# `EMerged`: coincidence with the error-free `MergedIter`, and where an error comes from (C02 / C08)

* `step_base` — for ANY children and either `strict`: a call that leaves `Error()` nil did exactly what the
  error-free `MergedIter` does over the same children (a failed child is seen through its masked `cur`, i.e.
  as an exhausted one).
* `err_origin` — an error the merged iterator reports is `ErrIterReleased` of a released iterator, or the
  error of one of its children, fatal in this mode (strict, or not a corruption).
* hence `step_noErr` (children that never fail: the old model is the special case) and `step_nonstrict`
  (non-strict over children that fail with corruption errors only: never an error; every call is the
  error-free call over the masked children).  Core Lean only.
-/
namespace GoLevel
namespace EMerged
variable {σ : Type}
open MergedIter (keyAt keyOf)

/-- where `i.err` can come from -/
def Origin (o : EIterOps σ) (m : EMerged σ) (e : Err) : Prop :=
  (e = .released ∧ m.base.dir = .released) ∨
  ((∃ s, o.err s = some e) ∧ (m.strict = true ∨ e.isCorrupted = false))

theorem resetAllE_origin (o : EIterOps σ) (rev : Bool) (f : σ → σ) (m : EMerged σ) (hm : m.err = none)
    (e : Err) (h : (resetAllE o rev f m).err = some e) : Origin o m e := by
  unfold resetAllE at h
  simp only at h
  cases hr : (moveLoop o m.strict (fun _ s => some (f s)) 0 m.base.iters).2.2 with
  | none => simp [hr, hm] at h
  | some e' =>
    simp only [hr, Option.some.injEq] at h
    subst h
    obtain ⟨⟨s', _, hs'⟩, h2⟩ := moveLoop_some o m.strict _ 0 m.base.iters e' hr
    exact .inr ⟨⟨s', hs'⟩, h2⟩

theorem turnBackE_origin (o : EIterOps σ) (key : IKey) (m : EMerged σ) (hm : m.err = none)
    (e : Err) (h : (turnBackE o key m).err = some e) : Origin o m e := by
  unfold turnBackE at h
  simp only at h
  cases hr : (moveLoop o m.strict (turnG o.toIterOps key m.base.index) 0 m.base.iters).2.2 with
  | none => simp [hr, hm] at h
  | some e' =>
    simp only [hr, Option.some.injEq] at h
    subst h
    obtain ⟨⟨s', _, hs'⟩, h2⟩ := moveLoop_some o m.strict _ 0 m.base.iters e' hr
    exact .inr ⟨⟨s', hs'⟩, h2⟩

theorem stepIndexE_origin (o : EIterOps σ) (f : σ → σ) (m : EMerged σ) (hm : m.err = none)
    (e : Err) (h : (stepIndexE o f m).err = some e) : Origin o m e := by
  unfold stepIndexE at h
  simp only at h
  cases hs : m.base.iters[m.base.index]? with
  | none => simp [hs, hm] at h
  | some s =>
    simp only [hs] at h
    by_cases hok : o.ok (f s) = true
    · simp [hok, hm] at h
    · simp only [hok, Bool.false_eq_true, if_false] at h
      cases he : o.err (f s) with
      | none => simp [he, hm] at h
      | some e' =>
        simp only [he] at h
        by_cases hst : (m.strict || !e'.isCorrupted) = true
        · simp only [hst, if_true, Option.some.injEq] at h
          subst h
          refine .inr ⟨⟨f s, he⟩, ?_⟩
          cases hm' : m.strict <;> cases hc : e'.isCorrupted <;> simp_all
        · simp [hst, hm] at h

/-- `Origin` only looks at `strict` and `dir` of the state -/
theorem Origin.of_eq {o : EIterOps σ} {m m' : EMerged σ} {e : Err} (h : Origin o m' e)
    (hs : m'.strict = m.strict) (hd : m'.base.dir = .released → m.base.dir = .released) : Origin o m e := by
  rcases h with ⟨h1, h2⟩ | ⟨h1, h2⟩
  · exact .inl ⟨h1, hd h2⟩
  · exact .inr ⟨h1, by rw [← hs]; exact h2⟩

section
variable (o : EIterOps σ) (c : UCmp)

theorem reset_then (rev : Bool) (f : σ → σ) (pop : MergedIter σ → MergedIter σ) (d : Dir) (m : EMerged σ)
    (hm : m.err = none) :
    let r := (if (resetAllE o rev f m).err.isSome then resetAllE o rev f m
      else { resetAllE o rev f m with base := pop { (resetAllE o rev f m).base with dir := d } })
    (r.err = none → r.base = pop { MergedIter.resetAll o.toIterOps rev f m.base with dir := d } ∧
      r.strict = m.strict) ∧
    (∀ e, r.err = some e → Origin o m e) := by
  intro r
  rcases Option.eq_none_or_eq_some (resetAllE o rev f m).err with he | ⟨e, he⟩
  · have hn : ¬ ((resetAllE o rev f m).err.isSome = true) := by simp [he]
    have hr : r = { resetAllE o rev f m with base := pop { (resetAllE o rev f m).base with dir := d } } :=
      if_neg hn
    rw [hr]
    refine ⟨fun _ => ⟨?_, resetAllE_strict o rev f m⟩, fun e h => ?_⟩
    · show pop { (resetAllE o rev f m).base with dir := d } = _
      rw [(resetAllE_base o rev f m hm he).1]
    · have h' : (resetAllE o rev f m).err = some e := h
      rw [he] at h'; cases h'
  · have hp : (resetAllE o rev f m).err.isSome = true := by simp [he]
    have hr : r = resetAllE o rev f m := if_pos hp
    rw [hr]
    refine ⟨fun h => (by rw [he] at h; cases h), fun e' h => ?_⟩
    exact resetAllE_origin o rev f m hm e' h

theorem first_spec (m : EMerged σ) (hm : m.err = none) :
    ((first o c m).err = none → (first o c m).base = MergedIter.first o.toIterOps c m.base ∧
      (first o c m).strict = m.strict) ∧
    (∀ e, (first o c m).err = some e → Origin o m e) := by
  unfold first MergedIter.first
  simp only [hm, Option.isSome_none, Bool.false_eq_true, if_false]
  by_cases hd : m.base.dir = .released
  · simp only [hd, if_true]
    exact ⟨fun h => (by cases h), fun e h => Or.inl ⟨(by cases h; rfl), hd⟩⟩
  · simp only [hd, if_false]
    exact reset_then o false o.first (MergedIter.popNext c) .soi m hm

theorem last_spec (m : EMerged σ) (hm : m.err = none) :
    ((last o c m).err = none → (last o c m).base = MergedIter.last o.toIterOps c m.base ∧
      (last o c m).strict = m.strict) ∧
    (∀ e, (last o c m).err = some e → Origin o m e) := by
  unfold last MergedIter.last
  simp only [hm, Option.isSome_none, Bool.false_eq_true, if_false]
  by_cases hd : m.base.dir = .released
  · simp only [hd, if_true]
    exact ⟨fun h => (by cases h), fun e h => Or.inl ⟨(by cases h; rfl), hd⟩⟩
  · simp only [hd, if_false]
    exact reset_then o true o.last (MergedIter.popPrev c) .eoi m hm

theorem seek_spec (k : IKey) (m : EMerged σ) (hm : m.err = none) :
    ((seek o c k m).err = none → (seek o c k m).base = MergedIter.seek o.toIterOps c k m.base ∧
      (seek o c k m).strict = m.strict) ∧
    (∀ e, (seek o c k m).err = some e → Origin o m e) := by
  unfold seek MergedIter.seek
  simp only [hm, Option.isSome_none, Bool.false_eq_true, if_false]
  by_cases hd : m.base.dir = .released
  · simp only [hd, if_true]
    exact ⟨fun h => (by cases h), fun e h => Or.inl ⟨(by cases h; rfl), hd⟩⟩
  · simp only [hd, if_false]
    exact reset_then o false (o.seek k) (MergedIter.popNext c) .soi m hm

theorem tail_spec (f : σ → σ) (pop : MergedIter σ → MergedIter σ) (m : EMerged σ) (hm : m.err = none) :
    let r := (if (stepIndexE o f m).err.isSome then stepIndexE o f m
      else { stepIndexE o f m with base := pop (stepIndexE o f m).base })
    (r.err = none → r.base = pop (MergedIter.stepIndex o.toIterOps f m.base) ∧ r.strict = m.strict) ∧
    (∀ e, r.err = some e → Origin o m e) := by
  intro r
  rcases Option.eq_none_or_eq_some (stepIndexE o f m).err with he | ⟨e, he⟩
  · have hn : ¬ ((stepIndexE o f m).err.isSome = true) := by simp [he]
    have hr : r = { stepIndexE o f m with base := pop (stepIndexE o f m).base } := if_neg hn
    rw [hr]
    refine ⟨fun _ => ⟨?_, stepIndexE_strict o f m⟩, fun e h => ?_⟩
    · show pop (stepIndexE o f m).base = _
      rw [(stepIndexE_base o f m hm he).1]
    · have h' : (stepIndexE o f m).err = some e := h
      rw [he] at h'; cases h'
  · have hp : (stepIndexE o f m).err.isSome = true := by simp [he]
    have hr : r = stepIndexE o f m := if_pos hp
    rw [hr]
    exact ⟨fun h => (by rw [he] at h; cases h), fun e' h => stepIndexE_origin o f m hm e' h⟩

theorem next_spec (m : EMerged σ) (hm : m.err = none) :
    ((next o c m).err = none → (next o c m).base = MergedIter.next o.toIterOps c m.base ∧
      (next o c m).strict = m.strict) ∧
    (∀ e, (next o c m).err = some e → Origin o m e) := by
  unfold next MergedIter.next
  cases hd : m.base.dir with
  | eoi =>
    simp only [true_or, if_true]
    exact ⟨fun _ => ⟨by first | rfl | trivial, by first | rfl | trivial⟩, fun e h => (by rw [hm] at h; cases h)⟩
  | released =>
    simp only [hm, Option.isSome_none, Bool.false_eq_true, or_self, if_false, reduceCtorEq]
    exact ⟨fun h => (by cases h), fun e h => Or.inl ⟨(by cases h; rfl), hd⟩⟩
  | soi =>
    simp only [hm, Option.isSome_none, Bool.false_eq_true, or_self, if_false, reduceCtorEq]
    exact first_spec o c m hm
  | forward =>
    simp only [hm, Option.isSome_none, Bool.false_eq_true, or_self, if_false, reduceCtorEq]
    exact tail_spec o o.next (MergedIter.popNext c) m hm
  | backward =>
    simp only [hm, Option.isSome_none, Bool.false_eq_true, or_self, if_false, reduceCtorEq]
    cases hkey : keyAt m.base.keys m.base.index with
    | none => exact ⟨fun _ => ⟨by first | rfl | trivial, by first | rfl | trivial⟩, fun e h => (by rw [hm] at h; cases h)⟩
    | some key =>
      simp only
      obtain ⟨s1, s2⟩ := seek_spec o c key m hm
      rcases Option.eq_none_or_eq_some (seek o c key m).err with he | ⟨e, he⟩
      · obtain ⟨b1, b2⟩ := s1 he
        have hv : (MergedIter.seek o.toIterOps c key m.base).dir = (seek o c key m).base.dir := by rw [b1]
        rw [hv]
        cases hval : (seek o c key m).base.dir.valid with
        | false =>
          simp only [he, Option.isSome_none, Bool.not_false, Bool.or_true, if_true]
          exact ⟨fun _ => ⟨b1, b2⟩, fun e h => (by cases h)⟩
        | true =>
          simp only [he, Option.isSome_none, Bool.not_true, Bool.or_self, Bool.false_eq_true, if_false]
          obtain ⟨t1, t2⟩ := tail_spec o o.next (MergedIter.popNext c) (seek o c key m) he
          refine ⟨fun h => ?_, fun e h => ?_⟩
          · obtain ⟨u1, u2⟩ := t1 h
            exact ⟨by rw [← b1]; exact u1, by rw [← b2]; exact u2⟩
          · refine (t2 e h).of_eq b2 ?_
            intro hrel; rw [hrel] at hval; cases hval
      · have hp : ((seek o c key m).err.isSome || !(seek o c key m).base.dir.valid) = true := by simp [he]
        simp only [hp, if_true]
        exact ⟨fun h => (by rw [he] at h; cases h), fun e' h => s2 e' h⟩

theorem turn_then (key : IKey) (m : EMerged σ) (hm : m.err = none) :
    let r := (if (turnBackE o key m).err.isSome then turnBackE o key m else tailPrev o c (turnBackE o key m))
    (r.err = none → r.base = MergedIter.popPrev c
        (MergedIter.stepIndex o.toIterOps o.prev (MergedIter.turnBack o.toIterOps key m.base)) ∧
      r.strict = m.strict) ∧
    (∀ e, r.err = some e → Origin o m e) := by
  intro r
  rcases Option.eq_none_or_eq_some (turnBackE o key m).err with he | ⟨e, he⟩
  · have hn : ¬ ((turnBackE o key m).err.isSome = true) := by simp [he]
    have hr : r = tailPrev o c (turnBackE o key m) := if_neg hn
    rw [hr]
    obtain ⟨t1, t2⟩ := tail_spec o o.prev (MergedIter.popPrev c) (turnBackE o key m) he
    obtain ⟨b1, _⟩ := turnBackE_base o key m hm he
    have hst := turnBackE_strict o key m
    refine ⟨fun h => ?_, fun e h => ?_⟩
    · obtain ⟨u1, u2⟩ := t1 h
      exact ⟨by rw [← b1]; exact u1, by rw [← hst]; exact u2⟩
    · refine (t2 e h).of_eq hst ?_
      intro hrel
      rw [b1] at hrel
      exact hrel
  · have hp : (turnBackE o key m).err.isSome = true := by simp [he]
    have hr : r = turnBackE o key m := if_pos hp
    rw [hr]
    exact ⟨fun h => (by rw [he] at h; cases h), fun e' h => turnBackE_origin o key m hm e' h⟩

theorem prev_spec (m : EMerged σ) (hm : m.err = none) :
    ((prev o c m).err = none → (prev o c m).base = MergedIter.prev o.toIterOps c m.base ∧
      (prev o c m).strict = m.strict) ∧
    (∀ e, (prev o c m).err = some e → Origin o m e) := by
  unfold prev MergedIter.prev
  cases hd : m.base.dir with
  | soi =>
    simp only [true_or, if_true]
    exact ⟨fun _ => ⟨by first | rfl | trivial, by first | rfl | trivial⟩, fun e h => (by rw [hm] at h; cases h)⟩
  | released =>
    simp only [hm, Option.isSome_none, Bool.false_eq_true, or_self, if_false, reduceCtorEq]
    exact ⟨fun h => (by cases h), fun e h => Or.inl ⟨(by cases h; rfl), hd⟩⟩
  | eoi =>
    simp only [hm, Option.isSome_none, Bool.false_eq_true, or_self, if_false, reduceCtorEq]
    exact last_spec o c m hm
  | backward =>
    simp only [hm, Option.isSome_none, Bool.false_eq_true, or_self, if_false, reduceCtorEq]
    exact tail_spec o o.prev (MergedIter.popPrev c) m hm
  | forward =>
    simp only [hm, Option.isSome_none, Bool.false_eq_true, or_self, if_false, reduceCtorEq]
    cases hkey : keyAt m.base.keys m.base.index with
    | none => exact ⟨fun _ => ⟨by first | rfl | trivial, by first | rfl | trivial⟩, fun e h => (by rw [hm] at h; cases h)⟩
    | some key => exact turn_then o c key m hm

/-- **one call**: if `Error()` is nil afterwards the state is the error-free model's; if not, the error has an
`Origin` -/
theorem step_spec (cl : Call IKey) (m : EMerged σ) (hm : m.err = none) :
    (((ops o c).toIterOps.step cl m).err = none →
      ((ops o c).toIterOps.step cl m).base = (MergedIter.ops o.toIterOps c).step cl m.base ∧
      ((ops o c).toIterOps.step cl m).strict = m.strict) ∧
    (∀ e, ((ops o c).toIterOps.step cl m).err = some e → Origin o m e) := by
  cases cl with
  | first => exact first_spec o c m hm
  | last => exact last_spec o c m hm
  | seek k => exact seek_spec o c k m hm
  | next => exact next_spec o c m hm
  | prev => exact prev_spec o c m hm

end

/-- what the caller sees is what the error-free model shows -/
theorem cur_base (o : EIterOps σ) (m : EMerged σ) (hm : m.err = none) :
    cur o m = MergedIter.cur o.toIterOps m.base := by
  simp [cur, hm]

end EMerged
end GoLevel
