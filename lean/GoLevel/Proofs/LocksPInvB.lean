import GoLevel.Proofs.LocksPInv
/-! One of the invariants of `LocksPInv.lean` is preserved by every step (three fixes, `compactionError` as coded,
and the fourth fix or no `SetReadOnly`). -/
namespace GoLevel.Locks
open CompErr
set_option linter.unusedSimpArgs false

theorem step_pinvB_h (s t : St) (f : Bool) (cfg : Cfg) (hfx : Fixed3 cfg) (hm : cfg.m = .asCoded cfg.closeSel)
    (h4 : cfg.setReadOnlyReleasesOnClose = true ∨ NoSR s) (hsh : cfg.HandsOver) (hw : CwlOk cfg s) (h : Step cfg f s t)
    (inv : PInvB s) : PInvB t := by
  unfold PInvB CwlOk at *
  have c3 := b2n_le s.ehTok
  obtain ⟨hb1, hb2⟩ := inv
  obtain ⟨f1, f2, f3⟩ := hfx
  obtain ⟨s1, s2, s3, s4⟩ := hsh
  cases h with
  | startPut _ i hi =>
    clear h4
    have l0 := le_tot srW _ _ _ hi
    have l1 := le_tot lgW _ _ _ hi
    have l2 := le_tot clAllW _ _ _ hi
    have l3 := le_tot clPreW _ _ _ hi
    (try simp only [St.setDone, St.setBg, ↓reduceIte, Bool.false_eq_true, Bool.and_false, Bool.and_true, Bool.false_and, Bool.true_and]) <;> (repeat' split) <;> simp_all [tot_set_eq _ _ _ _ _ hi, tot_ackWs_srw', tot_ackWs_lgw, tot_ackWs_clall, tot_ackWs_clpre, b2n_true, b2n_false, clearW_idle, clearW_exited, clearW_parked, clearW_eq_exited, clearW_eq_parked, srW, lgW, clAllW, clPreW, St.bg, onOk, onErr, selNext, afterSetErr, srAllW, nextC, roSets] <;> (try omega) <;> (try (cases hk : s.ehTok <;> cases hk2 : s.cwl <;> simp_all [b2n_true, b2n_false] <;> omega))
  | startWrite _ i hi =>
    clear h4
    have l0 := le_tot srW _ _ _ hi
    have l1 := le_tot lgW _ _ _ hi
    have l2 := le_tot clAllW _ _ _ hi
    have l3 := le_tot clPreW _ _ _ hi
    (try simp only [St.setDone, St.setBg, ↓reduceIte, Bool.false_eq_true, Bool.and_false, Bool.and_true, Bool.false_and, Bool.true_and]) <;> (repeat' split) <;> simp_all [tot_set_eq _ _ _ _ _ hi, tot_ackWs_srw', tot_ackWs_lgw, tot_ackWs_clall, tot_ackWs_clpre, b2n_true, b2n_false, clearW_idle, clearW_exited, clearW_parked, clearW_eq_exited, clearW_eq_parked, srW, lgW, clAllW, clPreW, St.bg, onOk, onErr, selNext, afterSetErr, srAllW, nextC, roSets] <;> (try omega) <;> (try (cases hk : s.ehTok <;> cases hk2 : s.cwl <;> simp_all [b2n_true, b2n_false] <;> omega))
  | startOtx _ i hi =>
    clear h4
    have l0 := le_tot srW _ _ _ hi
    have l1 := le_tot lgW _ _ _ hi
    have l2 := le_tot clAllW _ _ _ hi
    have l3 := le_tot clPreW _ _ _ hi
    (try simp only [St.setDone, St.setBg, ↓reduceIte, Bool.false_eq_true, Bool.and_false, Bool.and_true, Bool.false_and, Bool.true_and]) <;> (repeat' split) <;> simp_all [tot_set_eq _ _ _ _ _ hi, tot_ackWs_srw', tot_ackWs_lgw, tot_ackWs_clall, tot_ackWs_clpre, b2n_true, b2n_false, clearW_idle, clearW_exited, clearW_parked, clearW_eq_exited, clearW_eq_parked, srW, lgW, clAllW, clPreW, St.bg, onOk, onErr, selNext, afterSetErr, srAllW, nextC, roSets] <;> (try omega) <;> (try (cases hk : s.ehTok <;> cases hk2 : s.cwl <;> simp_all [b2n_true, b2n_false] <;> omega))
  | startCommit _ i hi hu =>
    clear h4
    have l0 := le_tot srW _ _ _ hi
    have l1 := le_tot lgW _ _ _ hi
    have l2 := le_tot clAllW _ _ _ hi
    have l3 := le_tot clPreW _ _ _ hi
    (try simp only [St.setDone, St.setBg, ↓reduceIte, Bool.false_eq_true, Bool.and_false, Bool.and_true, Bool.false_and, Bool.true_and]) <;> (repeat' split) <;> simp_all [tot_set_eq _ _ _ _ _ hi, tot_ackWs_srw', tot_ackWs_lgw, tot_ackWs_clall, tot_ackWs_clpre, b2n_true, b2n_false, clearW_idle, clearW_exited, clearW_parked, clearW_eq_exited, clearW_eq_parked, srW, lgW, clAllW, clPreW, St.bg, onOk, onErr, selNext, afterSetErr, srAllW, nextC, roSets] <;> (try omega) <;> (try (cases hk : s.ehTok <;> cases hk2 : s.cwl <;> simp_all [b2n_true, b2n_false] <;> omega))
  | startDiscard _ i hi hu =>
    clear h4
    have l0 := le_tot srW _ _ _ hi
    have l1 := le_tot lgW _ _ _ hi
    have l2 := le_tot clAllW _ _ _ hi
    have l3 := le_tot clPreW _ _ _ hi
    (try simp only [St.setDone, St.setBg, ↓reduceIte, Bool.false_eq_true, Bool.and_false, Bool.and_true, Bool.false_and, Bool.true_and]) <;> (repeat' split) <;> simp_all [tot_set_eq _ _ _ _ _ hi, tot_ackWs_srw', tot_ackWs_lgw, tot_ackWs_clall, tot_ackWs_clpre, b2n_true, b2n_false, clearW_idle, clearW_exited, clearW_parked, clearW_eq_exited, clearW_eq_parked, srW, lgW, clAllW, clPreW, St.bg, onOk, onErr, selNext, afterSetErr, srAllW, nextC, roSets] <;> (try omega) <;> (try (cases hk : s.ehTok <;> cases hk2 : s.cwl <;> simp_all [b2n_true, b2n_false] <;> omega))
  | startCR _ i hi =>
    clear h4
    have l0 := le_tot srW _ _ _ hi
    have l1 := le_tot lgW _ _ _ hi
    have l2 := le_tot clAllW _ _ _ hi
    have l3 := le_tot clPreW _ _ _ hi
    (try simp only [St.setDone, St.setBg, ↓reduceIte, Bool.false_eq_true, Bool.and_false, Bool.and_true, Bool.false_and, Bool.true_and]) <;> (repeat' split) <;> simp_all [tot_set_eq _ _ _ _ _ hi, tot_ackWs_srw', tot_ackWs_lgw, tot_ackWs_clall, tot_ackWs_clpre, b2n_true, b2n_false, clearW_idle, clearW_exited, clearW_parked, clearW_eq_exited, clearW_eq_parked, srW, lgW, clAllW, clPreW, St.bg, onOk, onErr, selNext, afterSetErr, srAllW, nextC, roSets] <;> (try omega) <;> (try (cases hk : s.ehTok <;> cases hk2 : s.cwl <;> simp_all [b2n_true, b2n_false] <;> omega))
  | startSR _ i hi ha =>
    clear h4
    have l0 := le_tot srW _ _ _ hi
    have l1 := le_tot lgW _ _ _ hi
    have l2 := le_tot clAllW _ _ _ hi
    have l3 := le_tot clPreW _ _ _ hi
    (try simp only [St.setDone, St.setBg, ↓reduceIte, Bool.false_eq_true, Bool.and_false, Bool.and_true, Bool.false_and, Bool.true_and]) <;> (repeat' split) <;> simp_all [tot_set_eq _ _ _ _ _ hi, tot_ackWs_srw', tot_ackWs_lgw, tot_ackWs_clall, tot_ackWs_clpre, b2n_true, b2n_false, clearW_idle, clearW_exited, clearW_parked, clearW_eq_exited, clearW_eq_parked, srW, lgW, clAllW, clPreW, St.bg, onOk, onErr, selNext, afterSetErr, srAllW, nextC, roSets] <;> (try omega) <;> (try (cases hk : s.ehTok <;> cases hk2 : s.cwl <;> simp_all [b2n_true, b2n_false] <;> omega))
  | startClose _ i hi =>
    clear h4
    have l0 := le_tot srW _ _ _ hi
    have l1 := le_tot lgW _ _ _ hi
    have l2 := le_tot clAllW _ _ _ hi
    have l3 := le_tot clPreW _ _ _ hi
    (try simp only [St.setDone, St.setBg, ↓reduceIte, Bool.false_eq_true, Bool.and_false, Bool.and_true, Bool.false_and, Bool.true_and]) <;> (repeat' split) <;> simp_all [tot_set_eq _ _ _ _ _ hi, tot_ackWs_srw', tot_ackWs_lgw, tot_ackWs_clall, tot_ackWs_clpre, b2n_true, b2n_false, clearW_idle, clearW_exited, clearW_parked, clearW_eq_exited, clearW_eq_parked, srW, lgW, clAllW, clPreW, St.bg, onOk, onErr, selNext, afterSetErr, srAllW, nextC, roSets] <;> (try omega) <;> (try (cases hk : s.ehTok <;> cases hk2 : s.cwl <;> simp_all [b2n_true, b2n_false] <;> omega))
  | selTok _ i p q hi hq ht =>
    clear h4
    have l0 := le_tot srW _ _ _ hi
    have l1 := le_tot lgW _ _ _ hi
    have l2 := le_tot clAllW _ _ _ hi
    have l3 := le_tot clPreW _ _ _ hi
    cases p <;> simp only [selNext] at hq <;> (try contradiction) <;> cases hq <;> simp_all [tot_set_eq _ _ _ _ _ hi, tot_ackWs_srw', tot_ackWs_lgw, tot_ackWs_clall, tot_ackWs_clpre, b2n_true, b2n_false, clearW_idle, clearW_exited, clearW_parked, clearW_eq_exited, clearW_eq_parked, srW, lgW, clAllW, clPreW, St.bg, onOk, onErr, selNext, afterSetErr, srAllW, nextC, roSets] <;> (try omega) <;> (try (cases hk : s.ehTok <;> cases hk2 : s.cwl <;> simp_all [b2n_true, b2n_false] <;> omega))
  | selPerErr _ i p q hi hq he =>
    clear h4
    have l0 := le_tot srW _ _ _ hi
    have l1 := le_tot lgW _ _ _ hi
    have l2 := le_tot clAllW _ _ _ hi
    have l3 := le_tot clPreW _ _ _ hi
    cases p <;> simp only [selNext] at hq <;> (try contradiction) <;> cases hq <;> simp_all [tot_set_eq _ _ _ _ _ hi, tot_ackWs_srw', tot_ackWs_lgw, tot_ackWs_clall, tot_ackWs_clpre, b2n_true, b2n_false, clearW_idle, clearW_exited, clearW_parked, clearW_eq_exited, clearW_eq_parked, srW, lgW, clAllW, clPreW, St.bg, onOk, onErr, selNext, afterSetErr, srAllW, nextC, roSets] <;> (try omega) <;> (try (cases hk : s.ehTok <;> cases hk2 : s.cwl <;> simp_all [b2n_true, b2n_false] <;> omega))
  | selClosed _ i p q hi hq hc =>
    clear h4
    have l0 := le_tot srW _ _ _ hi
    have l1 := le_tot lgW _ _ _ hi
    have l2 := le_tot clAllW _ _ _ hi
    have l3 := le_tot clPreW _ _ _ hi
    cases p <;> simp only [selNext] at hq <;> (try contradiction) <;> cases hq <;> simp_all [tot_set_eq _ _ _ _ _ hi, tot_ackWs_srw', tot_ackWs_lgw, tot_ackWs_clall, tot_ackWs_clpre, b2n_true, b2n_false, clearW_idle, clearW_exited, clearW_parked, clearW_eq_exited, clearW_eq_parked, srW, lgW, clAllW, clPreW, St.bg, onOk, onErr, selNext, afterSetErr, srAllW, nextC, roSets] <;> (try omega) <;> (try (cases hk : s.ehTok <;> cases hk2 : s.cwl <;> simp_all [b2n_true, b2n_false] <;> omega))
  | putNoWait _ i hi =>
    clear h4
    have l0 := le_tot srW _ _ _ hi
    have l1 := le_tot lgW _ _ _ hi
    have l2 := le_tot clAllW _ _ _ hi
    have l3 := le_tot clPreW _ _ _ hi
    (try simp only [St.setDone, St.setBg, ↓reduceIte, Bool.false_eq_true, Bool.and_false, Bool.and_true, Bool.false_and, Bool.true_and]) <;> (repeat' split) <;> simp_all [tot_set_eq _ _ _ _ _ hi, tot_ackWs_srw', tot_ackWs_lgw, tot_ackWs_clall, tot_ackWs_clpre, b2n_true, b2n_false, clearW_idle, clearW_exited, clearW_parked, clearW_eq_exited, clearW_eq_parked, srW, lgW, clAllW, clPreW, St.bg, onOk, onErr, selNext, afterSetErr, srAllW, nextC, roSets] <;> (try omega) <;> (try (cases hk : s.ehTok <;> cases hk2 : s.cwl <;> simp_all [b2n_true, b2n_false] <;> omega))
  | putWait _ i b hi =>
    clear h4
    have l0 := le_tot srW _ _ _ hi
    have l1 := le_tot lgW _ _ _ hi
    have l2 := le_tot clAllW _ _ _ hi
    have l3 := le_tot clPreW _ _ _ hi
    cases b <;> (try simp only [St.setDone, St.setBg, ↓reduceIte, Bool.false_eq_true, Bool.and_false, Bool.and_true, Bool.false_and, Bool.true_and]) <;> (repeat' split) <;> simp_all [tot_set_eq _ _ _ _ _ hi, tot_ackWs_srw', tot_ackWs_lgw, tot_ackWs_clall, tot_ackWs_clpre, b2n_true, b2n_false, clearW_idle, clearW_exited, clearW_parked, clearW_eq_exited, clearW_eq_parked, srW, lgW, clAllW, clPreW, St.bg, onOk, onErr, selNext, afterSetErr, srAllW, nextC, roSets] <;> (try omega) <;> (try (cases hk : s.ehTok <;> cases hk2 : s.cwl <;> simp_all [b2n_true, b2n_false] <;> omega))
  | putJournalOk _ i hi =>
    clear h4
    have l0 := le_tot srW _ _ _ hi
    have l1 := le_tot lgW _ _ _ hi
    have l2 := le_tot clAllW _ _ _ hi
    have l3 := le_tot clPreW _ _ _ hi
    (try simp only [St.setDone, St.setBg, ↓reduceIte, Bool.false_eq_true, Bool.and_false, Bool.and_true, Bool.false_and, Bool.true_and]) <;> (repeat' split) <;> simp_all [tot_set_eq _ _ _ _ _ hi, tot_ackWs_srw', tot_ackWs_lgw, tot_ackWs_clall, tot_ackWs_clpre, b2n_true, b2n_false, clearW_idle, clearW_exited, clearW_parked, clearW_eq_exited, clearW_eq_parked, srW, lgW, clAllW, clPreW, St.bg, onOk, onErr, selNext, afterSetErr, srAllW, nextC, roSets] <;> (try omega) <;> (try (cases hk : s.ehTok <;> cases hk2 : s.cwl <;> simp_all [b2n_true, b2n_false] <;> omega))
  | putJournalFail _ i hi =>
    clear h4
    have l0 := le_tot srW _ _ _ hi
    have l1 := le_tot lgW _ _ _ hi
    have l2 := le_tot clAllW _ _ _ hi
    have l3 := le_tot clPreW _ _ _ hi
    (try simp only [St.setDone, St.setBg, ↓reduceIte, Bool.false_eq_true, Bool.and_false, Bool.and_true, Bool.false_and, Bool.true_and]) <;> (repeat' split) <;> simp_all [tot_set_eq _ _ _ _ _ hi, tot_ackWs_srw', tot_ackWs_lgw, tot_ackWs_clall, tot_ackWs_clpre, b2n_true, b2n_false, clearW_idle, clearW_exited, clearW_parked, clearW_eq_exited, clearW_eq_parked, srW, lgW, clAllW, clPreW, St.bg, onOk, onErr, selNext, afterSetErr, srAllW, nextC, roSets] <;> (try omega) <;> (try (cases hk : s.ehTok <;> cases hk2 : s.cwl <;> simp_all [b2n_true, b2n_false] <;> omega))
  | putUnlock _ i r hi =>
    clear h4
    have l0 := le_tot srW _ _ _ hi
    have l1 := le_tot lgW _ _ _ hi
    have l2 := le_tot clAllW _ _ _ hi
    have l3 := le_tot clPreW _ _ _ hi
    cases r <;> (try simp only [St.setDone, St.setBg, ↓reduceIte, Bool.false_eq_true, Bool.and_false, Bool.and_true, Bool.false_and, Bool.true_and]) <;> (repeat' split) <;> simp_all [tot_set_eq _ _ _ _ _ hi, tot_ackWs_srw', tot_ackWs_lgw, tot_ackWs_clall, tot_ackWs_clpre, b2n_true, b2n_false, clearW_idle, clearW_exited, clearW_parked, clearW_eq_exited, clearW_eq_parked, srW, lgW, clAllW, clPreW, St.bg, onOk, onErr, selNext, afterSetErr, srAllW, nextC, roSets] <;> (try omega) <;> (try (cases hk : s.ehTok <;> cases hk2 : s.cwl <;> simp_all [b2n_true, b2n_false] <;> omega))
  | cwSendGo _ i b site lg hi hb hro =>
    clear h4
    have l0 := le_tot srW _ _ _ hi
    have l1 := le_tot lgW _ _ _ hi
    have l2 := le_tot clAllW _ _ _ hi
    have l3 := le_tot clPreW _ _ _ hi
    cases site <;> cases b <;> cases lg <;> (try simp only [St.setDone, St.setBg, ↓reduceIte, Bool.false_eq_true, Bool.and_false, Bool.and_true, Bool.false_and, Bool.true_and]) <;> (repeat' split) <;> simp_all [tot_set_eq _ _ _ _ _ hi, tot_ackWs_srw', tot_ackWs_lgw, tot_ackWs_clall, tot_ackWs_clpre, b2n_true, b2n_false, clearW_idle, clearW_exited, clearW_parked, clearW_eq_exited, clearW_eq_parked, srW, lgW, clAllW, clPreW, St.bg, onOk, onErr, selNext, afterSetErr, srAllW, nextC, roSets] <;> (try omega) <;> (try (cases hk : s.ehTok <;> cases hk2 : s.cwl <;> simp_all [b2n_true, b2n_false] <;> omega))
  | cwSendRO _ i site lg hi hb hp hro =>
    clear h4
    have l0 := le_tot srW _ _ _ hi
    have l1 := le_tot lgW _ _ _ hi
    have l2 := le_tot clAllW _ _ _ hi
    have l3 := le_tot clPreW _ _ _ hi
    cases site <;> cases lg <;> (try simp only [St.setDone, St.setBg, ↓reduceIte, Bool.false_eq_true, Bool.and_false, Bool.and_true, Bool.false_and, Bool.true_and]) <;> (repeat' split) <;> simp_all [tot_set_eq _ _ _ _ _ hi, tot_ackWs_srw', tot_ackWs_lgw, tot_ackWs_clall, tot_ackWs_clpre, b2n_true, b2n_false, clearW_idle, clearW_exited, clearW_parked, clearW_eq_exited, clearW_eq_parked, srW, lgW, clAllW, clPreW, St.bg, onOk, onErr, selNext, afterSetErr, srAllW, nextC, roSets] <;> (try omega) <;> (try (cases hk : s.ehTok <;> cases hk2 : s.cwl <;> simp_all [b2n_true, b2n_false] <;> omega))
  | cwSendErr _ i b site lg hi he =>
    clear h4
    have l0 := le_tot srW _ _ _ hi
    have l1 := le_tot lgW _ _ _ hi
    have l2 := le_tot clAllW _ _ _ hi
    have l3 := le_tot clPreW _ _ _ hi
    cases site <;> cases b <;> cases lg <;> (try simp only [St.setDone, St.setBg, ↓reduceIte, Bool.false_eq_true, Bool.and_false, Bool.and_true, Bool.false_and, Bool.true_and]) <;> (repeat' split) <;> simp_all [tot_set_eq _ _ _ _ _ hi, tot_ackWs_srw', tot_ackWs_lgw, tot_ackWs_clall, tot_ackWs_clpre, b2n_true, b2n_false, clearW_idle, clearW_exited, clearW_parked, clearW_eq_exited, clearW_eq_parked, srW, lgW, clAllW, clPreW, St.bg, onOk, onErr, selNext, afterSetErr, srAllW, nextC, roSets] <;> (try omega) <;> (try (cases hk : s.ehTok <;> cases hk2 : s.cwl <;> simp_all [b2n_true, b2n_false] <;> omega))
  | cwAckErr _ i b site lg hi he =>
    clear h4
    have l0 := le_tot srW _ _ _ hi
    have l1 := le_tot lgW _ _ _ hi
    have l2 := le_tot clAllW _ _ _ hi
    have l3 := le_tot clPreW _ _ _ hi
    cases site <;> cases b <;> cases lg <;> (try simp only [St.setDone, St.setBg, ↓reduceIte, Bool.false_eq_true, Bool.and_false, Bool.and_true, Bool.false_and, Bool.true_and]) <;> (repeat' split) <;> simp_all [tot_set_eq _ _ _ _ _ hi, tot_ackWs_srw', tot_ackWs_lgw, tot_ackWs_clall, tot_ackWs_clpre, b2n_true, b2n_false, clearW_idle, clearW_exited, clearW_parked, clearW_eq_exited, clearW_eq_parked, srW, lgW, clAllW, clPreW, St.bg, onOk, onErr, selNext, afterSetErr, srAllW, nextC, roSets] <;> (try omega) <;> (try (cases hk : s.ehTok <;> cases hk2 : s.cwl <;> simp_all [b2n_true, b2n_false] <;> omega))
  | otxRotate _ i lg hi =>
    clear h4
    have l0 := le_tot srW _ _ _ hi
    have l1 := le_tot lgW _ _ _ hi
    have l2 := le_tot clAllW _ _ _ hi
    have l3 := le_tot clPreW _ _ _ hi
    cases lg <;> (try simp only [St.setDone, St.setBg, ↓reduceIte, Bool.false_eq_true, Bool.and_false, Bool.and_true, Bool.false_and, Bool.true_and]) <;> (repeat' split) <;> simp_all [tot_set_eq _ _ _ _ _ hi, tot_ackWs_srw', tot_ackWs_lgw, tot_ackWs_clall, tot_ackWs_clpre, b2n_true, b2n_false, clearW_idle, clearW_exited, clearW_parked, clearW_eq_exited, clearW_eq_parked, srW, lgW, clAllW, clPreW, St.bg, onOk, onErr, selNext, afterSetErr, srAllW, nextC, roSets] <;> (try omega) <;> (try (cases hk : s.ehTok <;> cases hk2 : s.cwl <;> simp_all [b2n_true, b2n_false] <;> omega))
  | otxNoRotate _ i lg hi =>
    clear h4
    have l0 := le_tot srW _ _ _ hi
    have l1 := le_tot lgW _ _ _ hi
    have l2 := le_tot clAllW _ _ _ hi
    have l3 := le_tot clPreW _ _ _ hi
    cases lg <;> (try simp only [St.setDone, St.setBg, ↓reduceIte, Bool.false_eq_true, Bool.and_false, Bool.and_true, Bool.false_and, Bool.true_and]) <;> (repeat' split) <;> simp_all [tot_set_eq _ _ _ _ _ hi, tot_ackWs_srw', tot_ackWs_lgw, tot_ackWs_clall, tot_ackWs_clpre, b2n_true, b2n_false, clearW_idle, clearW_exited, clearW_parked, clearW_eq_exited, clearW_eq_parked, srW, lgW, clAllW, clPreW, St.bg, onOk, onErr, selNext, afterSetErr, srAllW, nextC, roSets] <;> (try omega) <;> (try (cases hk : s.ehTok <;> cases hk2 : s.cwl <;> simp_all [b2n_true, b2n_false] <;> omega))
  | otxNewMemOk _ i lg hi =>
    clear h4
    have l0 := le_tot srW _ _ _ hi
    have l1 := le_tot lgW _ _ _ hi
    have l2 := le_tot clAllW _ _ _ hi
    have l3 := le_tot clPreW _ _ _ hi
    cases lg <;> (try simp only [St.setDone, St.setBg, ↓reduceIte, Bool.false_eq_true, Bool.and_false, Bool.and_true, Bool.false_and, Bool.true_and]) <;> (repeat' split) <;> simp_all [tot_set_eq _ _ _ _ _ hi, tot_ackWs_srw', tot_ackWs_lgw, tot_ackWs_clall, tot_ackWs_clpre, b2n_true, b2n_false, clearW_idle, clearW_exited, clearW_parked, clearW_eq_exited, clearW_eq_parked, srW, lgW, clAllW, clPreW, St.bg, onOk, onErr, selNext, afterSetErr, srAllW, nextC, roSets] <;> (try omega) <;> (try (cases hk : s.ehTok <;> cases hk2 : s.cwl <;> simp_all [b2n_true, b2n_false] <;> omega))
  | otxNewMemFail _ i lg hi =>
    clear h4
    have l0 := le_tot srW _ _ _ hi
    have l1 := le_tot lgW _ _ _ hi
    have l2 := le_tot clAllW _ _ _ hi
    have l3 := le_tot clPreW _ _ _ hi
    cases lg <;> (try simp only [St.setDone, St.setBg, ↓reduceIte, Bool.false_eq_true, Bool.and_false, Bool.and_true, Bool.false_and, Bool.true_and]) <;> (repeat' split) <;> simp_all [tot_set_eq _ _ _ _ _ hi, tot_ackWs_srw', tot_ackWs_lgw, tot_ackWs_clall, tot_ackWs_clpre, b2n_true, b2n_false, clearW_idle, clearW_exited, clearW_parked, clearW_eq_exited, clearW_eq_parked, srW, lgW, clAllW, clPreW, St.bg, onOk, onErr, selNext, afterSetErr, srAllW, nextC, roSets] <;> (try omega) <;> (try (cases hk : s.ehTok <;> cases hk2 : s.cwl <;> simp_all [b2n_true, b2n_false] <;> omega))
  | otxNoWaitComp _ i lg hi =>
    clear h4
    have l0 := le_tot srW _ _ _ hi
    have l1 := le_tot lgW _ _ _ hi
    have l2 := le_tot clAllW _ _ _ hi
    have l3 := le_tot clPreW _ _ _ hi
    cases lg <;> (try simp only [St.setDone, St.setBg, ↓reduceIte, Bool.false_eq_true, Bool.and_false, Bool.and_true, Bool.false_and, Bool.true_and]) <;> (repeat' split) <;> simp_all [tot_set_eq _ _ _ _ _ hi, tot_ackWs_srw', tot_ackWs_lgw, tot_ackWs_clall, tot_ackWs_clpre, b2n_true, b2n_false, clearW_idle, clearW_exited, clearW_parked, clearW_eq_exited, clearW_eq_parked, srW, lgW, clAllW, clPreW, St.bg, onOk, onErr, selNext, afterSetErr, srAllW, nextC, roSets] <;> (try omega) <;> (try (cases hk : s.ehTok <;> cases hk2 : s.cwl <;> simp_all [b2n_true, b2n_false] <;> omega))
  | otxWaitComp _ i lg hi =>
    clear h4
    have l0 := le_tot srW _ _ _ hi
    have l1 := le_tot lgW _ _ _ hi
    have l2 := le_tot clAllW _ _ _ hi
    have l3 := le_tot clPreW _ _ _ hi
    cases lg <;> (try simp only [St.setDone, St.setBg, ↓reduceIte, Bool.false_eq_true, Bool.and_false, Bool.and_true, Bool.false_and, Bool.true_and]) <;> (repeat' split) <;> simp_all [tot_set_eq _ _ _ _ _ hi, tot_ackWs_srw', tot_ackWs_lgw, tot_ackWs_clall, tot_ackWs_clpre, b2n_true, b2n_false, clearW_idle, clearW_exited, clearW_parked, clearW_eq_exited, clearW_eq_parked, srW, lgW, clAllW, clPreW, St.bg, onOk, onErr, selNext, afterSetErr, srAllW, nextC, roSets] <;> (try omega) <;> (try (cases hk : s.ehTok <;> cases hk2 : s.cwl <;> simp_all [b2n_true, b2n_false] <;> omega))
  | otxFail _ i lg hi =>
    clear h4
    have l0 := le_tot srW _ _ _ hi
    have l1 := le_tot lgW _ _ _ hi
    have l2 := le_tot clAllW _ _ _ hi
    have l3 := le_tot clPreW _ _ _ hi
    cases lg <;> (try simp only [St.setDone, St.setBg, ↓reduceIte, Bool.false_eq_true, Bool.and_false, Bool.and_true, Bool.false_and, Bool.true_and]) <;> (repeat' split) <;> simp_all [tot_set_eq _ _ _ _ _ hi, tot_ackWs_srw', tot_ackWs_lgw, tot_ackWs_clall, tot_ackWs_clpre, b2n_true, b2n_false, clearW_idle, clearW_exited, clearW_parked, clearW_eq_exited, clearW_eq_parked, srW, lgW, clAllW, clPreW, St.bg, onOk, onErr, selNext, afterSetErr, srAllW, nextC, roSets] <;> (try omega) <;> (try (cases hk : s.ehTok <;> cases hk2 : s.cwl <;> simp_all [b2n_true, b2n_false] <;> omega))
  | otxRel _ i lg hi =>
    clear h4
    have l0 := le_tot srW _ _ _ hi
    have l1 := le_tot lgW _ _ _ hi
    have l2 := le_tot clAllW _ _ _ hi
    have l3 := le_tot clPreW _ _ _ hi
    cases lg <;> (try simp only [St.setDone, St.setBg, ↓reduceIte, Bool.false_eq_true, Bool.and_false, Bool.and_true, Bool.false_and, Bool.true_and]) <;> (repeat' split) <;> simp_all [tot_set_eq _ _ _ _ _ hi, tot_ackWs_srw', tot_ackWs_lgw, tot_ackWs_clall, tot_ackWs_clpre, b2n_true, b2n_false, clearW_idle, clearW_exited, clearW_parked, clearW_eq_exited, clearW_eq_parked, srW, lgW, clAllW, clPreW, St.bg, onOk, onErr, selNext, afterSetErr, srAllW, nextC, roSets] <;> (try omega) <;> (try (cases hk : s.ehTok <;> cases hk2 : s.cwl <;> simp_all [b2n_true, b2n_false] <;> omega))
  | otxDone _ i lg hi =>
    clear h4
    have l0 := le_tot srW _ _ _ hi
    have l1 := le_tot lgW _ _ _ hi
    have l2 := le_tot clAllW _ _ _ hi
    have l3 := le_tot clPreW _ _ _ hi
    cases lg <;> (try simp only [St.setDone, St.setBg, ↓reduceIte, Bool.false_eq_true, Bool.and_false, Bool.and_true, Bool.false_and, Bool.true_and]) <;> (repeat' split) <;> simp_all [tot_set_eq _ _ _ _ _ hi, tot_ackWs_srw', tot_ackWs_lgw, tot_ackWs_clall, tot_ackWs_clpre, b2n_true, b2n_false, clearW_idle, clearW_exited, clearW_parked, clearW_eq_exited, clearW_eq_parked, srW, lgW, clAllW, clPreW, St.bg, onOk, onErr, selNext, afterSetErr, srAllW, nextC, roSets] <;> (try omega) <;> (try (cases hk : s.ehTok <;> cases hk2 : s.cwl <;> simp_all [b2n_true, b2n_false] <;> omega))
  | lgWriteOk _ i hi =>
    clear h4
    have l0 := le_tot srW _ _ _ hi
    have l1 := le_tot lgW _ _ _ hi
    have l2 := le_tot clAllW _ _ _ hi
    have l3 := le_tot clPreW _ _ _ hi
    (try simp only [St.setDone, St.setBg, ↓reduceIte, Bool.false_eq_true, Bool.and_false, Bool.and_true, Bool.false_and, Bool.true_and]) <;> (repeat' split) <;> simp_all [tot_set_eq _ _ _ _ _ hi, tot_ackWs_srw', tot_ackWs_lgw, tot_ackWs_clall, tot_ackWs_clpre, b2n_true, b2n_false, clearW_idle, clearW_exited, clearW_parked, clearW_eq_exited, clearW_eq_parked, srW, lgW, clAllW, clPreW, St.bg, onOk, onErr, selNext, afterSetErr, srAllW, nextC, roSets] <;> (try omega) <;> (try (cases hk : s.ehTok <;> cases hk2 : s.cwl <;> simp_all [b2n_true, b2n_false] <;> omega))
  | lgWriteFail _ i hi =>
    clear h4
    have l0 := le_tot srW _ _ _ hi
    have l1 := le_tot lgW _ _ _ hi
    have l2 := le_tot clAllW _ _ _ hi
    have l3 := le_tot clPreW _ _ _ hi
    (try simp only [St.setDone, St.setBg, ↓reduceIte, Bool.false_eq_true, Bool.and_false, Bool.and_true, Bool.false_and, Bool.true_and]) <;> (repeat' split) <;> simp_all [tot_set_eq _ _ _ _ _ hi, tot_ackWs_srw', tot_ackWs_lgw, tot_ackWs_clall, tot_ackWs_clpre, b2n_true, b2n_false, clearW_idle, clearW_exited, clearW_parked, clearW_eq_exited, clearW_eq_parked, srW, lgW, clAllW, clPreW, St.bg, onOk, onErr, selNext, afterSetErr, srAllW, nextC, roSets] <;> (try omega) <;> (try (cases hk : s.ehTok <;> cases hk2 : s.cwl <;> simp_all [b2n_true, b2n_false] <;> omega))
  | cmLockTr _ i lg hi hl =>
    clear h4
    have l0 := le_tot srW _ _ _ hi
    have l1 := le_tot lgW _ _ _ hi
    have l2 := le_tot clAllW _ _ _ hi
    have l3 := le_tot clPreW _ _ _ hi
    cases lg <;> (try simp only [St.setDone, St.setBg, ↓reduceIte, Bool.false_eq_true, Bool.and_false, Bool.and_true, Bool.false_and, Bool.true_and]) <;> (repeat' split) <;> simp_all [tot_set_eq _ _ _ _ _ hi, tot_ackWs_srw', tot_ackWs_lgw, tot_ackWs_clall, tot_ackWs_clpre, b2n_true, b2n_false, clearW_idle, clearW_exited, clearW_parked, clearW_eq_exited, clearW_eq_parked, srW, lgW, clAllW, clPreW, St.bg, onOk, onErr, selNext, afterSetErr, srAllW, nextC, roSets] <;> (try omega) <;> (try (cases hk : s.ehTok <;> cases hk2 : s.cwl <;> simp_all [b2n_true, b2n_false] <;> omega))
  | cmFlushOk _ i lg hi =>
    clear h4
    have l0 := le_tot srW _ _ _ hi
    have l1 := le_tot lgW _ _ _ hi
    have l2 := le_tot clAllW _ _ _ hi
    have l3 := le_tot clPreW _ _ _ hi
    cases lg <;> (try simp only [St.setDone, St.setBg, ↓reduceIte, Bool.false_eq_true, Bool.and_false, Bool.and_true, Bool.false_and, Bool.true_and]) <;> (repeat' split) <;> simp_all [tot_set_eq _ _ _ _ _ hi, tot_ackWs_srw', tot_ackWs_lgw, tot_ackWs_clall, tot_ackWs_clpre, b2n_true, b2n_false, clearW_idle, clearW_exited, clearW_parked, clearW_eq_exited, clearW_eq_parked, srW, lgW, clAllW, clPreW, St.bg, onOk, onErr, selNext, afterSetErr, srAllW, nextC, roSets] <;> (try omega) <;> (try (cases hk : s.ehTok <;> cases hk2 : s.cwl <;> simp_all [b2n_true, b2n_false] <;> omega))
  | cmFlushEmpty _ i lg hi =>
    clear h4
    have l0 := le_tot srW _ _ _ hi
    have l1 := le_tot lgW _ _ _ hi
    have l2 := le_tot clAllW _ _ _ hi
    have l3 := le_tot clPreW _ _ _ hi
    cases lg <;> (try simp only [St.setDone, St.setBg, ↓reduceIte, Bool.false_eq_true, Bool.and_false, Bool.and_true, Bool.false_and, Bool.true_and]) <;> (repeat' split) <;> simp_all [tot_set_eq _ _ _ _ _ hi, tot_ackWs_srw', tot_ackWs_lgw, tot_ackWs_clall, tot_ackWs_clpre, b2n_true, b2n_false, clearW_idle, clearW_exited, clearW_parked, clearW_eq_exited, clearW_eq_parked, srW, lgW, clAllW, clPreW, St.bg, onOk, onErr, selNext, afterSetErr, srAllW, nextC, roSets] <;> (try omega) <;> (try (cases hk : s.ehTok <;> cases hk2 : s.cwl <;> simp_all [b2n_true, b2n_false] <;> omega))
  | cmFlushFail _ i lg hi =>
    clear h4
    have l0 := le_tot srW _ _ _ hi
    have l1 := le_tot lgW _ _ _ hi
    have l2 := le_tot clAllW _ _ _ hi
    have l3 := le_tot clPreW _ _ _ hi
    cases lg <;> (try simp only [St.setDone, St.setBg, ↓reduceIte, Bool.false_eq_true, Bool.and_false, Bool.and_true, Bool.false_and, Bool.true_and]) <;> (repeat' split) <;> simp_all [tot_set_eq _ _ _ _ _ hi, tot_ackWs_srw', tot_ackWs_lgw, tot_ackWs_clall, tot_ackWs_clpre, b2n_true, b2n_false, clearW_idle, clearW_exited, clearW_parked, clearW_eq_exited, clearW_eq_parked, srW, lgW, clAllW, clPreW, St.bg, onOk, onErr, selNext, afterSetErr, srAllW, nextC, roSets] <;> (try omega) <;> (try (cases hk : s.ehTok <;> cases hk2 : s.cwl <;> simp_all [b2n_true, b2n_false] <;> omega))
  | cmLockClk _ i lg hi hl =>
    clear h4
    have l0 := le_tot srW _ _ _ hi
    have l1 := le_tot lgW _ _ _ hi
    have l2 := le_tot clAllW _ _ _ hi
    have l3 := le_tot clPreW _ _ _ hi
    cases lg <;> (try simp only [St.setDone, St.setBg, ↓reduceIte, Bool.false_eq_true, Bool.and_false, Bool.and_true, Bool.false_and, Bool.true_and]) <;> (repeat' split) <;> simp_all [tot_set_eq _ _ _ _ _ hi, tot_ackWs_srw', tot_ackWs_lgw, tot_ackWs_clall, tot_ackWs_clpre, b2n_true, b2n_false, clearW_idle, clearW_exited, clearW_parked, clearW_eq_exited, clearW_eq_parked, srW, lgW, clAllW, clPreW, St.bg, onOk, onErr, selNext, afterSetErr, srAllW, nextC, roSets] <;> (try omega) <;> (try (cases hk : s.ehTok <;> cases hk2 : s.cwl <;> simp_all [b2n_true, b2n_false] <;> omega))
  | cmTryOk _ i k lg hi =>
    clear h4
    have l0 := le_tot srW _ _ _ hi
    have l1 := le_tot lgW _ _ _ hi
    have l2 := le_tot clAllW _ _ _ hi
    have l3 := le_tot clPreW _ _ _ hi
    cases lg <;> (try simp only [St.setDone, St.setBg, ↓reduceIte, Bool.false_eq_true, Bool.and_false, Bool.and_true, Bool.false_and, Bool.true_and]) <;> (repeat' split) <;> simp_all [tot_set_eq _ _ _ _ _ hi, tot_ackWs_srw', tot_ackWs_lgw, tot_ackWs_clall, tot_ackWs_clpre, b2n_true, b2n_false, clearW_idle, clearW_exited, clearW_parked, clearW_eq_exited, clearW_eq_parked, srW, lgW, clAllW, clPreW, St.bg, onOk, onErr, selNext, afterSetErr, srAllW, nextC, roSets] <;> (try omega) <;> (try (cases hk : s.ehTok <;> cases hk2 : s.cwl <;> simp_all [b2n_true, b2n_false] <;> omega))
  | cmTryFail _ i k lg hi =>
    clear h4
    have l0 := le_tot srW _ _ _ hi
    have l1 := le_tot lgW _ _ _ hi
    have l2 := le_tot clAllW _ _ _ hi
    have l3 := le_tot clPreW _ _ _ hi
    cases lg <;> (try simp only [St.setDone, St.setBg, ↓reduceIte, Bool.false_eq_true, Bool.and_false, Bool.and_true, Bool.false_and, Bool.true_and]) <;> (repeat' split) <;> simp_all [tot_set_eq _ _ _ _ _ hi, tot_ackWs_srw', tot_ackWs_lgw, tot_ackWs_clall, tot_ackWs_clpre, b2n_true, b2n_false, clearW_idle, clearW_exited, clearW_parked, clearW_eq_exited, clearW_eq_parked, srW, lgW, clAllW, clPreW, St.bg, onOk, onErr, selNext, afterSetErr, srAllW, nextC, roSets] <;> (try omega) <;> (try (cases hk : s.ehTok <;> cases hk2 : s.cwl <;> simp_all [b2n_true, b2n_false] <;> omega))
  | cmSleepTimer _ i k lg hi =>
    clear h4
    have l0 := le_tot srW _ _ _ hi
    have l1 := le_tot lgW _ _ _ hi
    have l2 := le_tot clAllW _ _ _ hi
    have l3 := le_tot clPreW _ _ _ hi
    cases lg <;> (try simp only [St.setDone, St.setBg, ↓reduceIte, Bool.false_eq_true, Bool.and_false, Bool.and_true, Bool.false_and, Bool.true_and]) <;> (repeat' split) <;> simp_all [tot_set_eq _ _ _ _ _ hi, tot_ackWs_srw', tot_ackWs_lgw, tot_ackWs_clall, tot_ackWs_clpre, b2n_true, b2n_false, clearW_idle, clearW_exited, clearW_parked, clearW_eq_exited, clearW_eq_parked, srW, lgW, clAllW, clPreW, St.bg, onOk, onErr, selNext, afterSetErr, srAllW, nextC, roSets] <;> (try omega) <;> (try (cases hk : s.ehTok <;> cases hk2 : s.cwl <;> simp_all [b2n_true, b2n_false] <;> omega))
  | cmSleepClosed _ i k lg hi hc =>
    clear h4
    have l0 := le_tot srW _ _ _ hi
    have l1 := le_tot lgW _ _ _ hi
    have l2 := le_tot clAllW _ _ _ hi
    have l3 := le_tot clPreW _ _ _ hi
    cases lg <;> (try simp only [St.setDone, St.setBg, ↓reduceIte, Bool.false_eq_true, Bool.and_false, Bool.and_true, Bool.false_and, Bool.true_and]) <;> (repeat' split) <;> simp_all [tot_set_eq _ _ _ _ _ hi, tot_ackWs_srw', tot_ackWs_lgw, tot_ackWs_clall, tot_ackWs_clpre, b2n_true, b2n_false, clearW_idle, clearW_exited, clearW_parked, clearW_eq_exited, clearW_eq_parked, srW, lgW, clAllW, clPreW, St.bg, onOk, onErr, selNext, afterSetErr, srAllW, nextC, roSets] <;> (try omega) <;> (try (cases hk : s.ehTok <;> cases hk2 : s.cwl <;> simp_all [b2n_true, b2n_false] <;> omega))
  | cmFail3 _ i lg hi =>
    clear h4
    have l0 := le_tot srW _ _ _ hi
    have l1 := le_tot lgW _ _ _ hi
    have l2 := le_tot clAllW _ _ _ hi
    have l3 := le_tot clPreW _ _ _ hi
    cases lg <;> (try simp only [St.setDone, St.setBg, ↓reduceIte, Bool.false_eq_true, Bool.and_false, Bool.and_true, Bool.false_and, Bool.true_and]) <;> (repeat' split) <;> simp_all [tot_set_eq _ _ _ _ _ hi, tot_ackWs_srw', tot_ackWs_lgw, tot_ackWs_clall, tot_ackWs_clpre, b2n_true, b2n_false, clearW_idle, clearW_exited, clearW_parked, clearW_eq_exited, clearW_eq_parked, srW, lgW, clAllW, clPreW, St.bg, onOk, onErr, selNext, afterSetErr, srAllW, nextC, roSets] <;> (try omega) <;> (try (cases hk : s.ehTok <;> cases hk2 : s.cwl <;> simp_all [b2n_true, b2n_false] <;> omega))
  | cmAfterOk _ i lg hi =>
    clear h4
    have l0 := le_tot srW _ _ _ hi
    have l1 := le_tot lgW _ _ _ hi
    have l2 := le_tot clAllW _ _ _ hi
    have l3 := le_tot clPreW _ _ _ hi
    cases lg <;> (try simp only [St.setDone, St.setBg, ↓reduceIte, Bool.false_eq_true, Bool.and_false, Bool.and_true, Bool.false_and, Bool.true_and]) <;> (repeat' split) <;> simp_all [tot_set_eq _ _ _ _ _ hi, tot_ackWs_srw', tot_ackWs_lgw, tot_ackWs_clall, tot_ackWs_clpre, b2n_true, b2n_false, clearW_idle, clearW_exited, clearW_parked, clearW_eq_exited, clearW_eq_parked, srW, lgW, clAllW, clPreW, St.bg, onOk, onErr, selNext, afterSetErr, srAllW, nextC, roSets] <;> (try omega) <;> (try (cases hk : s.ehTok <;> cases hk2 : s.cwl <;> simp_all [b2n_true, b2n_false] <;> omega))
  | cmNoWaitComp _ i lg hi =>
    clear h4
    have l0 := le_tot srW _ _ _ hi
    have l1 := le_tot lgW _ _ _ hi
    have l2 := le_tot clAllW _ _ _ hi
    have l3 := le_tot clPreW _ _ _ hi
    cases lg <;> (try simp only [St.setDone, St.setBg, ↓reduceIte, Bool.false_eq_true, Bool.and_false, Bool.and_true, Bool.false_and, Bool.true_and]) <;> (repeat' split) <;> simp_all [tot_set_eq _ _ _ _ _ hi, tot_ackWs_srw', tot_ackWs_lgw, tot_ackWs_clall, tot_ackWs_clpre, b2n_true, b2n_false, clearW_idle, clearW_exited, clearW_parked, clearW_eq_exited, clearW_eq_parked, srW, lgW, clAllW, clPreW, St.bg, onOk, onErr, selNext, afterSetErr, srAllW, nextC, roSets] <;> (try omega) <;> (try (cases hk : s.ehTok <;> cases hk2 : s.cwl <;> simp_all [b2n_true, b2n_false] <;> omega))
  | cmWaitComp _ i lg hi =>
    clear h4
    have l0 := le_tot srW _ _ _ hi
    have l1 := le_tot lgW _ _ _ hi
    have l2 := le_tot clAllW _ _ _ hi
    have l3 := le_tot clPreW _ _ _ hi
    cases lg <;> (try simp only [St.setDone, St.setBg, ↓reduceIte, Bool.false_eq_true, Bool.and_false, Bool.and_true, Bool.false_and, Bool.true_and]) <;> (repeat' split) <;> simp_all [tot_set_eq _ _ _ _ _ hi, tot_ackWs_srw', tot_ackWs_lgw, tot_ackWs_clall, tot_ackWs_clpre, b2n_true, b2n_false, clearW_idle, clearW_exited, clearW_parked, clearW_eq_exited, clearW_eq_parked, srW, lgW, clAllW, clPreW, St.bg, onOk, onErr, selNext, afterSetErr, srAllW, nextC, roSets] <;> (try omega) <;> (try (cases hk : s.ehTok <;> cases hk2 : s.cwl <;> simp_all [b2n_true, b2n_false] <;> omega))
  | cmDone _ i lg hi =>
    clear h4
    have l0 := le_tot srW _ _ _ hi
    have l1 := le_tot lgW _ _ _ hi
    have l2 := le_tot clAllW _ _ _ hi
    have l3 := le_tot clPreW _ _ _ hi
    cases lg <;> (try simp only [St.setDone, St.setBg, ↓reduceIte, Bool.false_eq_true, Bool.and_false, Bool.and_true, Bool.false_and, Bool.true_and]) <;> (repeat' split) <;> simp_all [tot_set_eq _ _ _ _ _ hi, tot_ackWs_srw', tot_ackWs_lgw, tot_ackWs_clall, tot_ackWs_clpre, b2n_true, b2n_false, clearW_idle, clearW_exited, clearW_parked, clearW_eq_exited, clearW_eq_parked, srW, lgW, clAllW, clPreW, St.bg, onOk, onErr, selNext, afterSetErr, srAllW, nextC, roSets] <;> (try omega) <;> (try (cases hk : s.ehTok <;> cases hk2 : s.cwl <;> simp_all [b2n_true, b2n_false] <;> omega))
  | cmRet _ i ok lg hi =>
    clear h4
    have l0 := le_tot srW _ _ _ hi
    have l1 := le_tot lgW _ _ _ hi
    have l2 := le_tot clAllW _ _ _ hi
    have l3 := le_tot clPreW _ _ _ hi
    cases ok <;> cases lg <;> (try simp only [St.setDone, St.setBg, ↓reduceIte, Bool.false_eq_true, Bool.and_false, Bool.and_true, Bool.false_and, Bool.true_and]) <;> (repeat' split) <;> simp_all [tot_set_eq _ _ _ _ _ hi, tot_ackWs_srw', tot_ackWs_lgw, tot_ackWs_clall, tot_ackWs_clpre, b2n_true, b2n_false, clearW_idle, clearW_exited, clearW_parked, clearW_eq_exited, clearW_eq_parked, srW, lgW, clAllW, clPreW, St.bg, onOk, onErr, selNext, afterSetErr, srAllW, nextC, roSets] <;> (try omega) <;> (try (cases hk : s.ehTok <;> cases hk2 : s.cwl <;> simp_all [b2n_true, b2n_false] <;> omega))
  | dcLockTr _ i lg hi hl =>
    clear h4
    have l0 := le_tot srW _ _ _ hi
    have l1 := le_tot lgW _ _ _ hi
    have l2 := le_tot clAllW _ _ _ hi
    have l3 := le_tot clPreW _ _ _ hi
    cases lg <;> (try simp only [St.setDone, St.setBg, ↓reduceIte, Bool.false_eq_true, Bool.and_false, Bool.and_true, Bool.false_and, Bool.true_and]) <;> (repeat' split) <;> simp_all [tot_set_eq _ _ _ _ _ hi, tot_ackWs_srw', tot_ackWs_lgw, tot_ackWs_clall, tot_ackWs_clpre, b2n_true, b2n_false, clearW_idle, clearW_exited, clearW_parked, clearW_eq_exited, clearW_eq_parked, srW, lgW, clAllW, clPreW, St.bg, onOk, onErr, selNext, afterSetErr, srAllW, nextC, roSets] <;> (try omega) <;> (try (cases hk : s.ehTok <;> cases hk2 : s.cwl <;> simp_all [b2n_true, b2n_false] <;> omega))
  | dcBody _ i lg hi =>
    clear h4
    have l0 := le_tot srW _ _ _ hi
    have l1 := le_tot lgW _ _ _ hi
    have l2 := le_tot clAllW _ _ _ hi
    have l3 := le_tot clPreW _ _ _ hi
    cases lg <;> (try simp only [St.setDone, St.setBg, ↓reduceIte, Bool.false_eq_true, Bool.and_false, Bool.and_true, Bool.false_and, Bool.true_and]) <;> (repeat' split) <;> simp_all [tot_set_eq _ _ _ _ _ hi, tot_ackWs_srw', tot_ackWs_lgw, tot_ackWs_clall, tot_ackWs_clpre, b2n_true, b2n_false, clearW_idle, clearW_exited, clearW_parked, clearW_eq_exited, clearW_eq_parked, srW, lgW, clAllW, clPreW, St.bg, onOk, onErr, selNext, afterSetErr, srAllW, nextC, roSets] <;> (try omega) <;> (try (cases hk : s.ehTok <;> cases hk2 : s.cwl <;> simp_all [b2n_true, b2n_false] <;> omega))
  | crNoOverlap _ i hi =>
    clear h4
    have l0 := le_tot srW _ _ _ hi
    have l1 := le_tot lgW _ _ _ hi
    have l2 := le_tot clAllW _ _ _ hi
    have l3 := le_tot clPreW _ _ _ hi
    (try simp only [St.setDone, St.setBg, ↓reduceIte, Bool.false_eq_true, Bool.and_false, Bool.and_true, Bool.false_and, Bool.true_and]) <;> (repeat' split) <;> simp_all [tot_set_eq _ _ _ _ _ hi, tot_ackWs_srw', tot_ackWs_lgw, tot_ackWs_clall, tot_ackWs_clpre, b2n_true, b2n_false, clearW_idle, clearW_exited, clearW_parked, clearW_eq_exited, clearW_eq_parked, srW, lgW, clAllW, clPreW, St.bg, onOk, onErr, selNext, afterSetErr, srAllW, nextC, roSets] <;> (try omega) <;> (try (cases hk : s.ehTok <;> cases hk2 : s.cwl <;> simp_all [b2n_true, b2n_false] <;> omega))
  | crOverlap _ i hi =>
    clear h4
    have l0 := le_tot srW _ _ _ hi
    have l1 := le_tot lgW _ _ _ hi
    have l2 := le_tot clAllW _ _ _ hi
    have l3 := le_tot clPreW _ _ _ hi
    (try simp only [St.setDone, St.setBg, ↓reduceIte, Bool.false_eq_true, Bool.and_false, Bool.and_true, Bool.false_and, Bool.true_and]) <;> (repeat' split) <;> simp_all [tot_set_eq _ _ _ _ _ hi, tot_ackWs_srw', tot_ackWs_lgw, tot_ackWs_clall, tot_ackWs_clpre, b2n_true, b2n_false, clearW_idle, clearW_exited, clearW_parked, clearW_eq_exited, clearW_eq_parked, srW, lgW, clAllW, clPreW, St.bg, onOk, onErr, selNext, afterSetErr, srAllW, nextC, roSets] <;> (try omega) <;> (try (cases hk : s.ehTok <;> cases hk2 : s.cwl <;> simp_all [b2n_true, b2n_false] <;> omega))
  | crNewMemOk _ i hi =>
    clear h4
    have l0 := le_tot srW _ _ _ hi
    have l1 := le_tot lgW _ _ _ hi
    have l2 := le_tot clAllW _ _ _ hi
    have l3 := le_tot clPreW _ _ _ hi
    (try simp only [St.setDone, St.setBg, ↓reduceIte, Bool.false_eq_true, Bool.and_false, Bool.and_true, Bool.false_and, Bool.true_and]) <;> (repeat' split) <;> simp_all [tot_set_eq _ _ _ _ _ hi, tot_ackWs_srw', tot_ackWs_lgw, tot_ackWs_clall, tot_ackWs_clpre, b2n_true, b2n_false, clearW_idle, clearW_exited, clearW_parked, clearW_eq_exited, clearW_eq_parked, srW, lgW, clAllW, clPreW, St.bg, onOk, onErr, selNext, afterSetErr, srAllW, nextC, roSets] <;> (try omega) <;> (try (cases hk : s.ehTok <;> cases hk2 : s.cwl <;> simp_all [b2n_true, b2n_false] <;> omega))
  | crNewMemFail _ i hi =>
    clear h4
    have l0 := le_tot srW _ _ _ hi
    have l1 := le_tot lgW _ _ _ hi
    have l2 := le_tot clAllW _ _ _ hi
    have l3 := le_tot clPreW _ _ _ hi
    (try simp only [St.setDone, St.setBg, ↓reduceIte, Bool.false_eq_true, Bool.and_false, Bool.and_true, Bool.false_and, Bool.true_and]) <;> (repeat' split) <;> simp_all [tot_set_eq _ _ _ _ _ hi, tot_ackWs_srw', tot_ackWs_lgw, tot_ackWs_clall, tot_ackWs_clpre, b2n_true, b2n_false, clearW_idle, clearW_exited, clearW_parked, clearW_eq_exited, clearW_eq_parked, srW, lgW, clAllW, clPreW, St.bg, onOk, onErr, selNext, afterSetErr, srAllW, nextC, roSets] <;> (try omega) <;> (try (cases hk : s.ehTok <;> cases hk2 : s.cwl <;> simp_all [b2n_true, b2n_false] <;> omega))
  | crRelM _ i hi =>
    clear h4
    have l0 := le_tot srW _ _ _ hi
    have l1 := le_tot lgW _ _ _ hi
    have l2 := le_tot clAllW _ _ _ hi
    have l3 := le_tot clPreW _ _ _ hi
    (try simp only [St.setDone, St.setBg, ↓reduceIte, Bool.false_eq_true, Bool.and_false, Bool.and_true, Bool.false_and, Bool.true_and]) <;> (repeat' split) <;> simp_all [tot_set_eq _ _ _ _ _ hi, tot_ackWs_srw', tot_ackWs_lgw, tot_ackWs_clall, tot_ackWs_clpre, b2n_true, b2n_false, clearW_idle, clearW_exited, clearW_parked, clearW_eq_exited, clearW_eq_parked, srW, lgW, clAllW, clPreW, St.bg, onOk, onErr, selNext, afterSetErr, srAllW, nextC, roSets] <;> (try omega) <;> (try (cases hk : s.ehTok <;> cases hk2 : s.cwl <;> simp_all [b2n_true, b2n_false] <;> omega))
  | crRelOk _ i hi =>
    clear h4
    have l0 := le_tot srW _ _ _ hi
    have l1 := le_tot lgW _ _ _ hi
    have l2 := le_tot clAllW _ _ _ hi
    have l3 := le_tot clPreW _ _ _ hi
    (try simp only [St.setDone, St.setBg, ↓reduceIte, Bool.false_eq_true, Bool.and_false, Bool.and_true, Bool.false_and, Bool.true_and]) <;> (repeat' split) <;> simp_all [tot_set_eq _ _ _ _ _ hi, tot_ackWs_srw', tot_ackWs_lgw, tot_ackWs_clall, tot_ackWs_clpre, b2n_true, b2n_false, clearW_idle, clearW_exited, clearW_parked, clearW_eq_exited, clearW_eq_parked, srW, lgW, clAllW, clPreW, St.bg, onOk, onErr, selNext, afterSetErr, srAllW, nextC, roSets] <;> (try omega) <;> (try (cases hk : s.ehTok <;> cases hk2 : s.cwl <;> simp_all [b2n_true, b2n_false] <;> omega))
  | crRelFail _ i hi =>
    clear h4
    have l0 := le_tot srW _ _ _ hi
    have l1 := le_tot lgW _ _ _ hi
    have l2 := le_tot clAllW _ _ _ hi
    have l3 := le_tot clPreW _ _ _ hi
    (try simp only [St.setDone, St.setBg, ↓reduceIte, Bool.false_eq_true, Bool.and_false, Bool.and_true, Bool.false_and, Bool.true_and]) <;> (repeat' split) <;> simp_all [tot_set_eq _ _ _ _ _ hi, tot_ackWs_srw', tot_ackWs_lgw, tot_ackWs_clall, tot_ackWs_clpre, b2n_true, b2n_false, clearW_idle, clearW_exited, clearW_parked, clearW_eq_exited, clearW_eq_parked, srW, lgW, clAllW, clPreW, St.bg, onOk, onErr, selNext, afterSetErr, srAllW, nextC, roSets] <;> (try omega) <;> (try (cases hk : s.ehTok <;> cases hk2 : s.cwl <;> simp_all [b2n_true, b2n_false] <;> omega))
  | srSend _ i hi he =>
    clear h4
    have l0 := le_tot srW _ _ _ hi
    have l1 := le_tot lgW _ _ _ hi
    have l2 := le_tot clAllW _ _ _ hi
    have l3 := le_tot clPreW _ _ _ hi
    simp only [hm, recvs_asCoded] at he
    rcases he with he | he <;> (try simp only [St.setDone, St.setBg, ↓reduceIte, Bool.false_eq_true, Bool.and_false, Bool.and_true, Bool.false_and, Bool.true_and]) <;> (repeat' split) <;> simp_all [tot_set_eq _ _ _ _ _ hi, tot_ackWs_srw', tot_ackWs_lgw, tot_ackWs_clall, tot_ackWs_clpre, b2n_true, b2n_false, clearW_idle, clearW_exited, clearW_parked, clearW_eq_exited, clearW_eq_parked, srW, lgW, clAllW, clPreW, St.bg, onOk, onErr, selNext, afterSetErr, srAllW, nextC, roSets] <;> (try omega) <;> (try (cases hk : s.ehTok <;> cases hk2 : s.cwl <;> simp_all [b2n_true, b2n_false] <;> omega))
  | srPerErr _ i hi he =>
    clear h4
    have l0 := le_tot srW _ _ _ hi
    have l1 := le_tot lgW _ _ _ hi
    have l2 := le_tot clAllW _ _ _ hi
    have l3 := le_tot clPreW _ _ _ hi
    (try simp only [St.setDone, St.setBg, ↓reduceIte, Bool.false_eq_true, Bool.and_false, Bool.and_true, Bool.false_and, Bool.true_and]) <;> (repeat' split) <;> simp_all [tot_set_eq _ _ _ _ _ hi, tot_ackWs_srw', tot_ackWs_lgw, tot_ackWs_clall, tot_ackWs_clpre, b2n_true, b2n_false, clearW_idle, clearW_exited, clearW_parked, clearW_eq_exited, clearW_eq_parked, srW, lgW, clAllW, clPreW, St.bg, onOk, onErr, selNext, afterSetErr, srAllW, nextC, roSets] <;> (try omega) <;> (try (cases hk : s.ehTok <;> cases hk2 : s.cwl <;> simp_all [b2n_true, b2n_false] <;> omega))
  | srClosed _ i hi hc =>
    have l0 := le_tot srW _ _ _ hi
    have l1 := le_tot lgW _ _ _ hi
    have l2 := le_tot clAllW _ _ _ hi
    have l3 := le_tot clPreW _ _ _ hi
    have ls := le_tot srAllW _ _ _ hi
    rcases h4 with h4 | ⟨_, h4⟩ <;> (try simp only [St.setDone, St.setBg, ↓reduceIte, Bool.false_eq_true, Bool.and_false, Bool.and_true, Bool.false_and, Bool.true_and]) <;> (repeat' split) <;> simp_all [tot_set_eq _ _ _ _ _ hi, tot_ackWs_srw', tot_ackWs_lgw, tot_ackWs_clall, tot_ackWs_clpre, b2n_true, b2n_false, clearW_idle, clearW_exited, clearW_parked, clearW_eq_exited, clearW_eq_parked, srW, lgW, clAllW, clPreW, St.bg, onOk, onErr, selNext, afterSetErr, srAllW, nextC, roSets] <;> (try omega) <;> (try (cases hk : s.ehTok <;> cases hk2 : s.cwl <;> simp_all [b2n_true, b2n_false] <;> omega))
  | clCheckTr _ i hi =>
    clear h4
    have l0 := le_tot srW _ _ _ hi
    have l1 := le_tot lgW _ _ _ hi
    have l2 := le_tot clAllW _ _ _ hi
    have l3 := le_tot clPreW _ _ _ hi
    (try simp only [St.setDone, St.setBg, ↓reduceIte, Bool.false_eq_true, Bool.and_false, Bool.and_true, Bool.false_and, Bool.true_and]) <;> (repeat' split) <;> simp_all [tot_set_eq _ _ _ _ _ hi, tot_ackWs_srw', tot_ackWs_lgw, tot_ackWs_clall, tot_ackWs_clpre, b2n_true, b2n_false, clearW_idle, clearW_exited, clearW_parked, clearW_eq_exited, clearW_eq_parked, srW, lgW, clAllW, clPreW, St.bg, onOk, onErr, selNext, afterSetErr, srAllW, nextC, roSets] <;> (try omega) <;> (try (cases hk : s.ehTok <;> cases hk2 : s.cwl <;> simp_all [b2n_true, b2n_false] <;> omega))
  | clLockTr _ i hi hl =>
    clear h4
    have l0 := le_tot srW _ _ _ hi
    have l1 := le_tot lgW _ _ _ hi
    have l2 := le_tot clAllW _ _ _ hi
    have l3 := le_tot clPreW _ _ _ hi
    (try simp only [St.setDone, St.setBg, ↓reduceIte, Bool.false_eq_true, Bool.and_false, Bool.and_true, Bool.false_and, Bool.true_and]) <;> (repeat' split) <;> simp_all [tot_set_eq _ _ _ _ _ hi, tot_ackWs_srw', tot_ackWs_lgw, tot_ackWs_clall, tot_ackWs_clpre, b2n_true, b2n_false, clearW_idle, clearW_exited, clearW_parked, clearW_eq_exited, clearW_eq_parked, srW, lgW, clAllW, clPreW, St.bg, onOk, onErr, selNext, afterSetErr, srAllW, nextC, roSets] <;> (try omega) <;> (try (cases hk : s.ehTok <;> cases hk2 : s.cwl <;> simp_all [b2n_true, b2n_false] <;> omega))
  | clBody _ i hi =>
    clear h4
    have l0 := le_tot srW _ _ _ hi
    have l1 := le_tot lgW _ _ _ hi
    have l2 := le_tot clAllW _ _ _ hi
    have l3 := le_tot clPreW _ _ _ hi
    (try simp only [St.setDone, St.setBg, ↓reduceIte, Bool.false_eq_true, Bool.and_false, Bool.and_true, Bool.false_and, Bool.true_and]) <;> (repeat' split) <;> simp_all [tot_set_eq _ _ _ _ _ hi, tot_ackWs_srw', tot_ackWs_lgw, tot_ackWs_clall, tot_ackWs_clpre, b2n_true, b2n_false, clearW_idle, clearW_exited, clearW_parked, clearW_eq_exited, clearW_eq_parked, srW, lgW, clAllW, clPreW, St.bg, onOk, onErr, selNext, afterSetErr, srAllW, nextC, roSets] <;> (try omega) <;> (try (cases hk : s.ehTok <;> cases hk2 : s.cwl <;> simp_all [b2n_true, b2n_false] <;> omega))
  | clAcq _ i hi ht =>
    clear h4
    have l0 := le_tot srW _ _ _ hi
    have l1 := le_tot lgW _ _ _ hi
    have l2 := le_tot clAllW _ _ _ hi
    have l3 := le_tot clPreW _ _ _ hi
    (try simp only [St.setDone, St.setBg, ↓reduceIte, Bool.false_eq_true, Bool.and_false, Bool.and_true, Bool.false_and, Bool.true_and]) <;> (repeat' split) <;> simp_all [tot_set_eq _ _ _ _ _ hi, tot_ackWs_srw', tot_ackWs_lgw, tot_ackWs_clall, tot_ackWs_clpre, b2n_true, b2n_false, clearW_idle, clearW_exited, clearW_parked, clearW_eq_exited, clearW_eq_parked, srW, lgW, clAllW, clPreW, St.bg, onOk, onErr, selNext, afterSetErr, srAllW, nextC, roSets] <;> (try omega) <;> (try (cases hk : s.ehTok <;> cases hk2 : s.cwl <;> simp_all [b2n_true, b2n_false] <;> omega))
  | clAcqKept _ i hi he hk hs =>
    clear h4
    have l0 := le_tot srW _ _ _ hi
    have l1 := le_tot lgW _ _ _ hi
    have l2 := le_tot clAllW _ _ _ hi
    have l3 := le_tot clPreW _ _ _ hi
    (try simp only [St.setDone, St.setBg, ↓reduceIte, Bool.false_eq_true, Bool.and_false, Bool.and_true, Bool.false_and, Bool.true_and]) <;> (repeat' split) <;> simp_all [tot_set_eq _ _ _ _ _ hi, tot_ackWs_srw', tot_ackWs_lgw, tot_ackWs_clall, tot_ackWs_clpre, b2n_true, b2n_false, clearW_idle, clearW_exited, clearW_parked, clearW_eq_exited, clearW_eq_parked, srW, lgW, clAllW, clPreW, St.bg, onOk, onErr, selNext, afterSetErr, srAllW, nextC, roSets] <;> (try omega) <;> (try (cases hk : s.ehTok <;> cases hk2 : s.cwl <;> simp_all [b2n_true, b2n_false] <;> omega))
  | clWait _ i hi hm ht =>
    clear h4
    have l0 := le_tot srW _ _ _ hi
    have l1 := le_tot lgW _ _ _ hi
    have l2 := le_tot clAllW _ _ _ hi
    have l3 := le_tot clPreW _ _ _ hi
    (try simp only [St.setDone, St.setBg, ↓reduceIte, Bool.false_eq_true, Bool.and_false, Bool.and_true, Bool.false_and, Bool.true_and]) <;> (repeat' split) <;> simp_all [tot_set_eq _ _ _ _ _ hi, tot_ackWs_srw', tot_ackWs_lgw, tot_ackWs_clall, tot_ackWs_clpre, b2n_true, b2n_false, clearW_idle, clearW_exited, clearW_parked, clearW_eq_exited, clearW_eq_parked, srW, lgW, clAllW, clPreW, St.bg, onOk, onErr, selNext, afterSetErr, srAllW, nextC, roSets] <;> (try omega) <;> (try (cases hk : s.ehTok <;> cases hk2 : s.cwl <;> simp_all [b2n_true, b2n_false] <;> omega))
  | ehAcquire _ he ht =>
    clear h4
    (try simp only [St.setDone, St.setBg, ↓reduceIte, Bool.false_eq_true, Bool.and_false, Bool.and_true, Bool.false_and, Bool.true_and]) <;> (repeat' split) <;> simp_all [tot_ackWs_srw', tot_ackWs_lgw, tot_ackWs_clall, tot_ackWs_clpre, b2n_true, b2n_false, clearW_idle, clearW_exited, clearW_parked, clearW_eq_exited, clearW_eq_parked, srW, lgW, clAllW, clPreW, St.bg, onOk, onErr, selNext, afterSetErr, srAllW, nextC, roSets] <;> (try omega) <;> (try (cases hk : s.ehTok <;> cases hk2 : s.cwl <;> simp_all [b2n_true, b2n_false] <;> omega))
  | ehClose _ he hc =>
    clear h4
    simp only [hm, closes_asCoded] at he
    rcases he with he | he | he <;> (try simp only [St.setDone, St.setBg, ↓reduceIte, Bool.false_eq_true, Bool.and_false, Bool.and_true, Bool.false_and, Bool.true_and]) <;> (repeat' split) <;> simp_all [tot_ackWs_srw', tot_ackWs_lgw, tot_ackWs_clall, tot_ackWs_clpre, b2n_true, b2n_false, clearW_idle, clearW_exited, clearW_parked, clearW_eq_exited, clearW_eq_parked, srW, lgW, clAllW, clPreW, St.bg, onOk, onErr, selNext, afterSetErr, srAllW, nextC, roSets] <;> (try omega) <;> (try (split <;> cases hk : s.ehTok <;> simp_all [b2n_true, b2n_false] <;> omega))
  | ehTake _ he ht =>
    clear h4
    (try simp only [St.setDone, St.setBg, ↓reduceIte, Bool.false_eq_true, Bool.and_false, Bool.and_true, Bool.false_and, Bool.true_and]) <;> (repeat' split) <;> simp_all [tot_ackWs_srw', tot_ackWs_lgw, tot_ackWs_clall, tot_ackWs_clpre, b2n_true, b2n_false, clearW_idle, clearW_exited, clearW_parked, clearW_eq_exited, clearW_eq_parked, srW, lgW, clAllW, clPreW, St.bg, onOk, onErr, selNext, afterSetErr, srAllW, nextC, roSets] <;> (try omega) <;> (try (cases hk : s.ehTok <;> cases hk2 : s.cwl <;> simp_all [b2n_true, b2n_false] <;> omega))
  | bgExitIdle _ b hb hc =>
    clear h4
    cases b <;> (try simp only [St.setDone, St.setBg, ↓reduceIte, Bool.false_eq_true, Bool.and_false, Bool.and_true, Bool.false_and, Bool.true_and]) <;> (repeat' split) <;> simp_all [tot_ackWs_srw', tot_ackWs_lgw, tot_ackWs_clall, tot_ackWs_clpre, b2n_true, b2n_false, clearW_idle, clearW_exited, clearW_parked, clearW_eq_exited, clearW_eq_parked, srW, lgW, clAllW, clPreW, St.bg, onOk, onErr, selNext, afterSetErr, srAllW, nextC, roSets] <;> (try omega) <;> (try (cases hk : s.ehTok <;> cases hk2 : s.cwl <;> simp_all [b2n_true, b2n_false] <;> omega))
  | bgExitParked _ hb hc =>
    clear h4
    (try simp only [St.setDone, St.setBg, ↓reduceIte, Bool.false_eq_true, Bool.and_false, Bool.and_true, Bool.false_and, Bool.true_and]) <;> (repeat' split) <;> simp_all [tot_ackWs_srw', tot_ackWs_lgw, tot_ackWs_clall, tot_ackWs_clpre, b2n_true, b2n_false, clearW_idle, clearW_exited, clearW_parked, clearW_eq_exited, clearW_eq_parked, srW, lgW, clAllW, clPreW, St.bg, onOk, onErr, selNext, afterSetErr, srAllW, nextC, roSets] <;> (try omega) <;> (try (cases hk : s.ehTok <;> cases hk2 : s.cwl <;> simp_all [b2n_true, b2n_false] <;> omega))
  | bgWorkCorrupt _ b w hb hk =>
    clear h4
    cases b <;> (try simp only [St.setDone, St.setBg, ↓reduceIte, Bool.false_eq_true, Bool.and_false, Bool.and_true, Bool.false_and, Bool.true_and]) <;> (repeat' split) <;> simp_all [tot_ackWs_srw', tot_ackWs_lgw, tot_ackWs_clall, tot_ackWs_clpre, b2n_true, b2n_false, clearW_idle, clearW_exited, clearW_parked, clearW_eq_exited, clearW_eq_parked, srW, lgW, clAllW, clPreW, St.bg, onOk, onErr, selNext, afterSetErr, srAllW, nextC, roSets] <;> (try omega) <;> (try (cases hk : s.ehTok <;> cases hk2 : s.cwl <;> simp_all [b2n_true, b2n_false] <;> omega))
  | bgCommitCorrupt _ b w hb hk =>
    clear h4
    cases b <;> (try simp only [St.setDone, St.setBg, ↓reduceIte, Bool.false_eq_true, Bool.and_false, Bool.and_true, Bool.false_and, Bool.true_and]) <;> (repeat' split) <;> simp_all [tot_ackWs_srw', tot_ackWs_lgw, tot_ackWs_clall, tot_ackWs_clpre, b2n_true, b2n_false, clearW_idle, clearW_exited, clearW_parked, clearW_eq_exited, clearW_eq_parked, srW, lgW, clAllW, clPreW, St.bg, onOk, onErr, selNext, afterSetErr, srAllW, nextC, roSets] <;> (try omega) <;> (try (cases hk : s.ehTok <;> cases hk2 : s.cwl <;> simp_all [b2n_true, b2n_false] <;> omega))
  | bgSetErrCorrupt _ b w c hb he =>
    clear h4
    simp only [hm, recvs_asCoded] at he
    rcases he with he | he <;> cases b <;> cases c <;> (try simp only [St.setDone, St.setBg, ↓reduceIte, Bool.false_eq_true, Bool.and_false, Bool.and_true, Bool.false_and, Bool.true_and]) <;> (repeat' split) <;> simp_all [tot_ackWs_srw', tot_ackWs_lgw, tot_ackWs_clall, tot_ackWs_clpre, b2n_true, b2n_false, clearW_idle, clearW_exited, clearW_parked, clearW_eq_exited, clearW_eq_parked, srW, lgW, clAllW, clPreW, St.bg, onOk, onErr, selNext, afterSetErr, srAllW, nextC, roSets] <;> (try omega) <;> (try (cases hk : s.ehTok <;> cases hk2 : s.cwl <;> simp_all [b2n_true, b2n_false] <;> omega))
  | bgWorkOk _ b w hb =>
    clear h4
    cases b <;> (try simp only [St.setDone, St.setBg, ↓reduceIte, Bool.false_eq_true, Bool.and_false, Bool.and_true, Bool.false_and, Bool.true_and]) <;> (repeat' split) <;> simp_all [tot_ackWs_srw', tot_ackWs_lgw, tot_ackWs_clall, tot_ackWs_clpre, b2n_true, b2n_false, clearW_idle, clearW_exited, clearW_parked, clearW_eq_exited, clearW_eq_parked, srW, lgW, clAllW, clPreW, St.bg, onOk, onErr, selNext, afterSetErr, srAllW, nextC, roSets] <;> (try omega) <;> (try (cases hk : s.ehTok <;> cases hk2 : s.cwl <;> simp_all [b2n_true, b2n_false] <;> omega))
  | bgWorkFail _ b w hb =>
    clear h4
    cases b <;> (try simp only [St.setDone, St.setBg, ↓reduceIte, Bool.false_eq_true, Bool.and_false, Bool.and_true, Bool.false_and, Bool.true_and]) <;> (repeat' split) <;> simp_all [tot_ackWs_srw', tot_ackWs_lgw, tot_ackWs_clall, tot_ackWs_clpre, b2n_true, b2n_false, clearW_idle, clearW_exited, clearW_parked, clearW_eq_exited, clearW_eq_parked, srW, lgW, clAllW, clPreW, St.bg, onOk, onErr, selNext, afterSetErr, srAllW, nextC, roSets] <;> (try omega) <;> (try (cases hk : s.ehTok <;> cases hk2 : s.cwl <;> simp_all [b2n_true, b2n_false] <;> omega))
  | bgCommitOk _ b w hb =>
    clear h4
    cases b <;> (try simp only [St.setDone, St.setBg, ↓reduceIte, Bool.false_eq_true, Bool.and_false, Bool.and_true, Bool.false_and, Bool.true_and]) <;> (repeat' split) <;> simp_all [tot_ackWs_srw', tot_ackWs_lgw, tot_ackWs_clall, tot_ackWs_clpre, b2n_true, b2n_false, clearW_idle, clearW_exited, clearW_parked, clearW_eq_exited, clearW_eq_parked, srW, lgW, clAllW, clPreW, St.bg, onOk, onErr, selNext, afterSetErr, srAllW, nextC, roSets] <;> (try omega) <;> (try (cases hk : s.ehTok <;> cases hk2 : s.cwl <;> simp_all [b2n_true, b2n_false] <;> omega))
  | bgCommitFail _ b w hb =>
    clear h4
    cases b <;> (try simp only [St.setDone, St.setBg, ↓reduceIte, Bool.false_eq_true, Bool.and_false, Bool.and_true, Bool.false_and, Bool.true_and]) <;> (repeat' split) <;> simp_all [tot_ackWs_srw', tot_ackWs_lgw, tot_ackWs_clall, tot_ackWs_clpre, b2n_true, b2n_false, clearW_idle, clearW_exited, clearW_parked, clearW_eq_exited, clearW_eq_parked, srW, lgW, clAllW, clPreW, St.bg, onOk, onErr, selNext, afterSetErr, srAllW, nextC, roSets] <;> (try omega) <;> (try (cases hk : s.ehTok <;> cases hk2 : s.cwl <;> simp_all [b2n_true, b2n_false] <;> omega))
  | bgSetErr _ b w ok c hb he =>
    clear h4
    simp only [hm, recvs_asCoded] at he
    rcases he with he | he <;> cases b <;> cases ok <;> cases c <;> (try simp only [St.setDone, St.setBg, ↓reduceIte, Bool.false_eq_true, Bool.and_false, Bool.and_true, Bool.false_and, Bool.true_and]) <;> (repeat' split) <;> simp_all [tot_ackWs_srw', tot_ackWs_lgw, tot_ackWs_clall, tot_ackWs_clpre, b2n_true, b2n_false, clearW_idle, clearW_exited, clearW_parked, clearW_eq_exited, clearW_eq_parked, srW, lgW, clAllW, clPreW, St.bg, onOk, onErr, selNext, afterSetErr, srAllW, nextC, roSets] <;> (try omega) <;> (try (cases hk : s.ehTok <;> cases hk2 : s.cwl <;> simp_all [b2n_true, b2n_false] <;> omega))
  | bgSetErrPer _ b w c hb he =>
    clear h4
    cases b <;> cases c <;> (try simp only [St.setDone, St.setBg, ↓reduceIte, Bool.false_eq_true, Bool.and_false, Bool.and_true, Bool.false_and, Bool.true_and]) <;> (repeat' split) <;> simp_all [tot_ackWs_srw', tot_ackWs_lgw, tot_ackWs_clall, tot_ackWs_clpre, b2n_true, b2n_false, clearW_idle, clearW_exited, clearW_parked, clearW_eq_exited, clearW_eq_parked, srW, lgW, clAllW, clPreW, St.bg, onOk, onErr, selNext, afterSetErr, srAllW, nextC, roSets] <;> (try omega) <;> (try (cases hk : s.ehTok <;> cases hk2 : s.cwl <;> simp_all [b2n_true, b2n_false] <;> omega))
  | bgBackoff _ b w c hb =>
    clear h4
    cases b <;> cases c <;> (try simp only [St.setDone, St.setBg, ↓reduceIte, Bool.false_eq_true, Bool.and_false, Bool.and_true, Bool.false_and, Bool.true_and]) <;> (repeat' split) <;> simp_all [tot_ackWs_srw', tot_ackWs_lgw, tot_ackWs_clall, tot_ackWs_clpre, b2n_true, b2n_false, clearW_idle, clearW_exited, clearW_parked, clearW_eq_exited, clearW_eq_parked, srW, lgW, clAllW, clPreW, St.bg, onOk, onErr, selNext, afterSetErr, srAllW, nextC, roSets] <;> (try omega) <;> (try (cases hk : s.ehTok <;> cases hk2 : s.cwl <;> simp_all [b2n_true, b2n_false] <;> omega))
  | bgLockClk _ b w hb hl =>
    clear h4
    cases b <;> (try simp only [St.setDone, St.setBg, ↓reduceIte, Bool.false_eq_true, Bool.and_false, Bool.and_true, Bool.false_and, Bool.true_and]) <;> (repeat' split) <;> simp_all [tot_ackWs_srw', tot_ackWs_lgw, tot_ackWs_clall, tot_ackWs_clpre, b2n_true, b2n_false, clearW_idle, clearW_exited, clearW_parked, clearW_eq_exited, clearW_eq_parked, srW, lgW, clAllW, clPreW, St.bg, onOk, onErr, selNext, afterSetErr, srAllW, nextC, roSets] <;> (try omega) <;> (try (cases hk : s.ehTok <;> cases hk2 : s.cwl <;> simp_all [b2n_true, b2n_false] <;> omega))
  | bgAck _ b w hb =>
    clear h4
    have hp := afterCmd_parked cfg s b
    rcases afterCmd_cases cfg s b with hac | hac <;> rw [hac] at hp ⊢ <;> cases b <;> (try simp only [St.setDone, St.setBg]) <;> simp_all [tot_ackWs_srw', tot_ackWs_lgw, tot_ackWs_clall, tot_ackWs_clpre, b2n_true, b2n_false, clearW_idle, clearW_exited, clearW_parked, clearW_eq_exited, clearW_eq_parked, srW, lgW, clAllW, clPreW, St.bg, onOk, onErr, selNext, afterSetErr, srAllW, nextC, roSets] <;> (try omega) <;> (try (cases hk : s.ehTok <;> cases hk2 : s.cwl <;> simp_all [b2n_true, b2n_false] <;> omega))
  | bgExit _ b w ph hb hx =>
    clear h4
    cases b <;> cases ph <;> (try simp only [St.setDone, St.setBg, ↓reduceIte, Bool.false_eq_true, Bool.and_false, Bool.and_true, Bool.false_and, Bool.true_and]) <;> (repeat' split) <;> simp_all [tot_ackWs_srw', tot_ackWs_lgw, tot_ackWs_clall, tot_ackWs_clpre, b2n_true, b2n_false, clearW_idle, clearW_exited, clearW_parked, clearW_eq_exited, clearW_eq_parked, srW, lgW, clAllW, clPreW, St.bg, onOk, onErr, selNext, afterSetErr, srAllW, nextC, roSets] <;> (try omega) <;> (try (rcases hx with hx | hx <;> simp_all))

theorem step_pinvB_b (s t : St) (f : Bool) (cfg : Cfg) (hfx : Fixed3 cfg) (hm : cfg.m = .asCoded cfg.closeSel)
    (h4 : cfg.setReadOnlyReleasesOnClose = true ∨ NoSR s) (hsh : cfg.Blind) (hw : CwlOk cfg s) (h : Step cfg f s t)
    (inv : PInvB s) : PInvB t := by
  unfold PInvB CwlOk at *
  have c3 := b2n_le s.ehTok
  obtain ⟨hb1, hb2⟩ := inv
  obtain ⟨f1, f2, f3⟩ := hfx
  obtain ⟨s1, s2, s3, s4⟩ := hsh
  cases h with
  | startPut _ i hi =>
    clear h4
    have l0 := le_tot srW _ _ _ hi
    have l1 := le_tot lgW _ _ _ hi
    have l2 := le_tot clAllW _ _ _ hi
    have l3 := le_tot clPreW _ _ _ hi
    (try simp only [St.setDone, St.setBg, ↓reduceIte, Bool.false_eq_true, Bool.and_false, Bool.and_true, Bool.false_and, Bool.true_and]) <;> (repeat' split) <;> simp_all [tot_set_eq _ _ _ _ _ hi, tot_ackWs_srw', tot_ackWs_lgw, tot_ackWs_clall, tot_ackWs_clpre, b2n_true, b2n_false, clearW_idle, clearW_exited, clearW_parked, clearW_eq_exited, clearW_eq_parked, srW, lgW, clAllW, clPreW, St.bg, onOk, onErr, selNext, afterSetErr, srAllW, nextC, roSets] <;> (try omega) <;> (try (cases hk : s.ehTok <;> cases hk2 : s.cwl <;> simp_all [b2n_true, b2n_false] <;> omega))
  | startWrite _ i hi =>
    clear h4
    have l0 := le_tot srW _ _ _ hi
    have l1 := le_tot lgW _ _ _ hi
    have l2 := le_tot clAllW _ _ _ hi
    have l3 := le_tot clPreW _ _ _ hi
    (try simp only [St.setDone, St.setBg, ↓reduceIte, Bool.false_eq_true, Bool.and_false, Bool.and_true, Bool.false_and, Bool.true_and]) <;> (repeat' split) <;> simp_all [tot_set_eq _ _ _ _ _ hi, tot_ackWs_srw', tot_ackWs_lgw, tot_ackWs_clall, tot_ackWs_clpre, b2n_true, b2n_false, clearW_idle, clearW_exited, clearW_parked, clearW_eq_exited, clearW_eq_parked, srW, lgW, clAllW, clPreW, St.bg, onOk, onErr, selNext, afterSetErr, srAllW, nextC, roSets] <;> (try omega) <;> (try (cases hk : s.ehTok <;> cases hk2 : s.cwl <;> simp_all [b2n_true, b2n_false] <;> omega))
  | startOtx _ i hi =>
    clear h4
    have l0 := le_tot srW _ _ _ hi
    have l1 := le_tot lgW _ _ _ hi
    have l2 := le_tot clAllW _ _ _ hi
    have l3 := le_tot clPreW _ _ _ hi
    (try simp only [St.setDone, St.setBg, ↓reduceIte, Bool.false_eq_true, Bool.and_false, Bool.and_true, Bool.false_and, Bool.true_and]) <;> (repeat' split) <;> simp_all [tot_set_eq _ _ _ _ _ hi, tot_ackWs_srw', tot_ackWs_lgw, tot_ackWs_clall, tot_ackWs_clpre, b2n_true, b2n_false, clearW_idle, clearW_exited, clearW_parked, clearW_eq_exited, clearW_eq_parked, srW, lgW, clAllW, clPreW, St.bg, onOk, onErr, selNext, afterSetErr, srAllW, nextC, roSets] <;> (try omega) <;> (try (cases hk : s.ehTok <;> cases hk2 : s.cwl <;> simp_all [b2n_true, b2n_false] <;> omega))
  | startCommit _ i hi hu =>
    clear h4
    have l0 := le_tot srW _ _ _ hi
    have l1 := le_tot lgW _ _ _ hi
    have l2 := le_tot clAllW _ _ _ hi
    have l3 := le_tot clPreW _ _ _ hi
    (try simp only [St.setDone, St.setBg, ↓reduceIte, Bool.false_eq_true, Bool.and_false, Bool.and_true, Bool.false_and, Bool.true_and]) <;> (repeat' split) <;> simp_all [tot_set_eq _ _ _ _ _ hi, tot_ackWs_srw', tot_ackWs_lgw, tot_ackWs_clall, tot_ackWs_clpre, b2n_true, b2n_false, clearW_idle, clearW_exited, clearW_parked, clearW_eq_exited, clearW_eq_parked, srW, lgW, clAllW, clPreW, St.bg, onOk, onErr, selNext, afterSetErr, srAllW, nextC, roSets] <;> (try omega) <;> (try (cases hk : s.ehTok <;> cases hk2 : s.cwl <;> simp_all [b2n_true, b2n_false] <;> omega))
  | startDiscard _ i hi hu =>
    clear h4
    have l0 := le_tot srW _ _ _ hi
    have l1 := le_tot lgW _ _ _ hi
    have l2 := le_tot clAllW _ _ _ hi
    have l3 := le_tot clPreW _ _ _ hi
    (try simp only [St.setDone, St.setBg, ↓reduceIte, Bool.false_eq_true, Bool.and_false, Bool.and_true, Bool.false_and, Bool.true_and]) <;> (repeat' split) <;> simp_all [tot_set_eq _ _ _ _ _ hi, tot_ackWs_srw', tot_ackWs_lgw, tot_ackWs_clall, tot_ackWs_clpre, b2n_true, b2n_false, clearW_idle, clearW_exited, clearW_parked, clearW_eq_exited, clearW_eq_parked, srW, lgW, clAllW, clPreW, St.bg, onOk, onErr, selNext, afterSetErr, srAllW, nextC, roSets] <;> (try omega) <;> (try (cases hk : s.ehTok <;> cases hk2 : s.cwl <;> simp_all [b2n_true, b2n_false] <;> omega))
  | startCR _ i hi =>
    clear h4
    have l0 := le_tot srW _ _ _ hi
    have l1 := le_tot lgW _ _ _ hi
    have l2 := le_tot clAllW _ _ _ hi
    have l3 := le_tot clPreW _ _ _ hi
    (try simp only [St.setDone, St.setBg, ↓reduceIte, Bool.false_eq_true, Bool.and_false, Bool.and_true, Bool.false_and, Bool.true_and]) <;> (repeat' split) <;> simp_all [tot_set_eq _ _ _ _ _ hi, tot_ackWs_srw', tot_ackWs_lgw, tot_ackWs_clall, tot_ackWs_clpre, b2n_true, b2n_false, clearW_idle, clearW_exited, clearW_parked, clearW_eq_exited, clearW_eq_parked, srW, lgW, clAllW, clPreW, St.bg, onOk, onErr, selNext, afterSetErr, srAllW, nextC, roSets] <;> (try omega) <;> (try (cases hk : s.ehTok <;> cases hk2 : s.cwl <;> simp_all [b2n_true, b2n_false] <;> omega))
  | startSR _ i hi ha =>
    clear h4
    have l0 := le_tot srW _ _ _ hi
    have l1 := le_tot lgW _ _ _ hi
    have l2 := le_tot clAllW _ _ _ hi
    have l3 := le_tot clPreW _ _ _ hi
    (try simp only [St.setDone, St.setBg, ↓reduceIte, Bool.false_eq_true, Bool.and_false, Bool.and_true, Bool.false_and, Bool.true_and]) <;> (repeat' split) <;> simp_all [tot_set_eq _ _ _ _ _ hi, tot_ackWs_srw', tot_ackWs_lgw, tot_ackWs_clall, tot_ackWs_clpre, b2n_true, b2n_false, clearW_idle, clearW_exited, clearW_parked, clearW_eq_exited, clearW_eq_parked, srW, lgW, clAllW, clPreW, St.bg, onOk, onErr, selNext, afterSetErr, srAllW, nextC, roSets] <;> (try omega) <;> (try (cases hk : s.ehTok <;> cases hk2 : s.cwl <;> simp_all [b2n_true, b2n_false] <;> omega))
  | startClose _ i hi =>
    clear h4
    have l0 := le_tot srW _ _ _ hi
    have l1 := le_tot lgW _ _ _ hi
    have l2 := le_tot clAllW _ _ _ hi
    have l3 := le_tot clPreW _ _ _ hi
    (try simp only [St.setDone, St.setBg, ↓reduceIte, Bool.false_eq_true, Bool.and_false, Bool.and_true, Bool.false_and, Bool.true_and]) <;> (repeat' split) <;> simp_all [tot_set_eq _ _ _ _ _ hi, tot_ackWs_srw', tot_ackWs_lgw, tot_ackWs_clall, tot_ackWs_clpre, b2n_true, b2n_false, clearW_idle, clearW_exited, clearW_parked, clearW_eq_exited, clearW_eq_parked, srW, lgW, clAllW, clPreW, St.bg, onOk, onErr, selNext, afterSetErr, srAllW, nextC, roSets] <;> (try omega) <;> (try (cases hk : s.ehTok <;> cases hk2 : s.cwl <;> simp_all [b2n_true, b2n_false] <;> omega))
  | selTok _ i p q hi hq ht =>
    clear h4
    have l0 := le_tot srW _ _ _ hi
    have l1 := le_tot lgW _ _ _ hi
    have l2 := le_tot clAllW _ _ _ hi
    have l3 := le_tot clPreW _ _ _ hi
    cases p <;> simp only [selNext] at hq <;> (try contradiction) <;> cases hq <;> simp_all [tot_set_eq _ _ _ _ _ hi, tot_ackWs_srw', tot_ackWs_lgw, tot_ackWs_clall, tot_ackWs_clpre, b2n_true, b2n_false, clearW_idle, clearW_exited, clearW_parked, clearW_eq_exited, clearW_eq_parked, srW, lgW, clAllW, clPreW, St.bg, onOk, onErr, selNext, afterSetErr, srAllW, nextC, roSets] <;> (try omega) <;> (try (cases hk : s.ehTok <;> cases hk2 : s.cwl <;> simp_all [b2n_true, b2n_false] <;> omega))
  | selPerErr _ i p q hi hq he =>
    clear h4
    have l0 := le_tot srW _ _ _ hi
    have l1 := le_tot lgW _ _ _ hi
    have l2 := le_tot clAllW _ _ _ hi
    have l3 := le_tot clPreW _ _ _ hi
    cases p <;> simp only [selNext] at hq <;> (try contradiction) <;> cases hq <;> simp_all [tot_set_eq _ _ _ _ _ hi, tot_ackWs_srw', tot_ackWs_lgw, tot_ackWs_clall, tot_ackWs_clpre, b2n_true, b2n_false, clearW_idle, clearW_exited, clearW_parked, clearW_eq_exited, clearW_eq_parked, srW, lgW, clAllW, clPreW, St.bg, onOk, onErr, selNext, afterSetErr, srAllW, nextC, roSets] <;> (try omega) <;> (try (cases hk : s.ehTok <;> cases hk2 : s.cwl <;> simp_all [b2n_true, b2n_false] <;> omega))
  | selClosed _ i p q hi hq hc =>
    clear h4
    have l0 := le_tot srW _ _ _ hi
    have l1 := le_tot lgW _ _ _ hi
    have l2 := le_tot clAllW _ _ _ hi
    have l3 := le_tot clPreW _ _ _ hi
    cases p <;> simp only [selNext] at hq <;> (try contradiction) <;> cases hq <;> simp_all [tot_set_eq _ _ _ _ _ hi, tot_ackWs_srw', tot_ackWs_lgw, tot_ackWs_clall, tot_ackWs_clpre, b2n_true, b2n_false, clearW_idle, clearW_exited, clearW_parked, clearW_eq_exited, clearW_eq_parked, srW, lgW, clAllW, clPreW, St.bg, onOk, onErr, selNext, afterSetErr, srAllW, nextC, roSets] <;> (try omega) <;> (try (cases hk : s.ehTok <;> cases hk2 : s.cwl <;> simp_all [b2n_true, b2n_false] <;> omega))
  | putNoWait _ i hi =>
    clear h4
    have l0 := le_tot srW _ _ _ hi
    have l1 := le_tot lgW _ _ _ hi
    have l2 := le_tot clAllW _ _ _ hi
    have l3 := le_tot clPreW _ _ _ hi
    (try simp only [St.setDone, St.setBg, ↓reduceIte, Bool.false_eq_true, Bool.and_false, Bool.and_true, Bool.false_and, Bool.true_and]) <;> (repeat' split) <;> simp_all [tot_set_eq _ _ _ _ _ hi, tot_ackWs_srw', tot_ackWs_lgw, tot_ackWs_clall, tot_ackWs_clpre, b2n_true, b2n_false, clearW_idle, clearW_exited, clearW_parked, clearW_eq_exited, clearW_eq_parked, srW, lgW, clAllW, clPreW, St.bg, onOk, onErr, selNext, afterSetErr, srAllW, nextC, roSets] <;> (try omega) <;> (try (cases hk : s.ehTok <;> cases hk2 : s.cwl <;> simp_all [b2n_true, b2n_false] <;> omega))
  | putWait _ i b hi =>
    clear h4
    have l0 := le_tot srW _ _ _ hi
    have l1 := le_tot lgW _ _ _ hi
    have l2 := le_tot clAllW _ _ _ hi
    have l3 := le_tot clPreW _ _ _ hi
    cases b <;> (try simp only [St.setDone, St.setBg, ↓reduceIte, Bool.false_eq_true, Bool.and_false, Bool.and_true, Bool.false_and, Bool.true_and]) <;> (repeat' split) <;> simp_all [tot_set_eq _ _ _ _ _ hi, tot_ackWs_srw', tot_ackWs_lgw, tot_ackWs_clall, tot_ackWs_clpre, b2n_true, b2n_false, clearW_idle, clearW_exited, clearW_parked, clearW_eq_exited, clearW_eq_parked, srW, lgW, clAllW, clPreW, St.bg, onOk, onErr, selNext, afterSetErr, srAllW, nextC, roSets] <;> (try omega) <;> (try (cases hk : s.ehTok <;> cases hk2 : s.cwl <;> simp_all [b2n_true, b2n_false] <;> omega))
  | putJournalOk _ i hi =>
    clear h4
    have l0 := le_tot srW _ _ _ hi
    have l1 := le_tot lgW _ _ _ hi
    have l2 := le_tot clAllW _ _ _ hi
    have l3 := le_tot clPreW _ _ _ hi
    (try simp only [St.setDone, St.setBg, ↓reduceIte, Bool.false_eq_true, Bool.and_false, Bool.and_true, Bool.false_and, Bool.true_and]) <;> (repeat' split) <;> simp_all [tot_set_eq _ _ _ _ _ hi, tot_ackWs_srw', tot_ackWs_lgw, tot_ackWs_clall, tot_ackWs_clpre, b2n_true, b2n_false, clearW_idle, clearW_exited, clearW_parked, clearW_eq_exited, clearW_eq_parked, srW, lgW, clAllW, clPreW, St.bg, onOk, onErr, selNext, afterSetErr, srAllW, nextC, roSets] <;> (try omega) <;> (try (cases hk : s.ehTok <;> cases hk2 : s.cwl <;> simp_all [b2n_true, b2n_false] <;> omega))
  | putJournalFail _ i hi =>
    clear h4
    have l0 := le_tot srW _ _ _ hi
    have l1 := le_tot lgW _ _ _ hi
    have l2 := le_tot clAllW _ _ _ hi
    have l3 := le_tot clPreW _ _ _ hi
    (try simp only [St.setDone, St.setBg, ↓reduceIte, Bool.false_eq_true, Bool.and_false, Bool.and_true, Bool.false_and, Bool.true_and]) <;> (repeat' split) <;> simp_all [tot_set_eq _ _ _ _ _ hi, tot_ackWs_srw', tot_ackWs_lgw, tot_ackWs_clall, tot_ackWs_clpre, b2n_true, b2n_false, clearW_idle, clearW_exited, clearW_parked, clearW_eq_exited, clearW_eq_parked, srW, lgW, clAllW, clPreW, St.bg, onOk, onErr, selNext, afterSetErr, srAllW, nextC, roSets] <;> (try omega) <;> (try (cases hk : s.ehTok <;> cases hk2 : s.cwl <;> simp_all [b2n_true, b2n_false] <;> omega))
  | putUnlock _ i r hi =>
    clear h4
    have l0 := le_tot srW _ _ _ hi
    have l1 := le_tot lgW _ _ _ hi
    have l2 := le_tot clAllW _ _ _ hi
    have l3 := le_tot clPreW _ _ _ hi
    cases r <;> (try simp only [St.setDone, St.setBg, ↓reduceIte, Bool.false_eq_true, Bool.and_false, Bool.and_true, Bool.false_and, Bool.true_and]) <;> (repeat' split) <;> simp_all [tot_set_eq _ _ _ _ _ hi, tot_ackWs_srw', tot_ackWs_lgw, tot_ackWs_clall, tot_ackWs_clpre, b2n_true, b2n_false, clearW_idle, clearW_exited, clearW_parked, clearW_eq_exited, clearW_eq_parked, srW, lgW, clAllW, clPreW, St.bg, onOk, onErr, selNext, afterSetErr, srAllW, nextC, roSets] <;> (try omega) <;> (try (cases hk : s.ehTok <;> cases hk2 : s.cwl <;> simp_all [b2n_true, b2n_false] <;> omega))
  | cwSendGo _ i b site lg hi hb hro =>
    clear h4
    have l0 := le_tot srW _ _ _ hi
    have l1 := le_tot lgW _ _ _ hi
    have l2 := le_tot clAllW _ _ _ hi
    have l3 := le_tot clPreW _ _ _ hi
    cases site <;> cases b <;> cases lg <;> (try simp only [St.setDone, St.setBg, ↓reduceIte, Bool.false_eq_true, Bool.and_false, Bool.and_true, Bool.false_and, Bool.true_and]) <;> (repeat' split) <;> simp_all [tot_set_eq _ _ _ _ _ hi, tot_ackWs_srw', tot_ackWs_lgw, tot_ackWs_clall, tot_ackWs_clpre, b2n_true, b2n_false, clearW_idle, clearW_exited, clearW_parked, clearW_eq_exited, clearW_eq_parked, srW, lgW, clAllW, clPreW, St.bg, onOk, onErr, selNext, afterSetErr, srAllW, nextC, roSets] <;> (try omega) <;> (try (cases hk : s.ehTok <;> cases hk2 : s.cwl <;> simp_all [b2n_true, b2n_false] <;> omega))
  | cwSendRO _ i site lg hi hb hp hro =>
    clear h4
    have l0 := le_tot srW _ _ _ hi
    have l1 := le_tot lgW _ _ _ hi
    have l2 := le_tot clAllW _ _ _ hi
    have l3 := le_tot clPreW _ _ _ hi
    cases site <;> cases lg <;> (try simp only [St.setDone, St.setBg, ↓reduceIte, Bool.false_eq_true, Bool.and_false, Bool.and_true, Bool.false_and, Bool.true_and]) <;> (repeat' split) <;> simp_all [tot_set_eq _ _ _ _ _ hi, tot_ackWs_srw', tot_ackWs_lgw, tot_ackWs_clall, tot_ackWs_clpre, b2n_true, b2n_false, clearW_idle, clearW_exited, clearW_parked, clearW_eq_exited, clearW_eq_parked, srW, lgW, clAllW, clPreW, St.bg, onOk, onErr, selNext, afterSetErr, srAllW, nextC, roSets] <;> (try omega) <;> (try (cases hk : s.ehTok <;> cases hk2 : s.cwl <;> simp_all [b2n_true, b2n_false] <;> omega))
  | cwSendErr _ i b site lg hi he =>
    clear h4
    have l0 := le_tot srW _ _ _ hi
    have l1 := le_tot lgW _ _ _ hi
    have l2 := le_tot clAllW _ _ _ hi
    have l3 := le_tot clPreW _ _ _ hi
    cases site <;> cases b <;> cases lg <;> (try simp only [St.setDone, St.setBg, ↓reduceIte, Bool.false_eq_true, Bool.and_false, Bool.and_true, Bool.false_and, Bool.true_and]) <;> (repeat' split) <;> simp_all [tot_set_eq _ _ _ _ _ hi, tot_ackWs_srw', tot_ackWs_lgw, tot_ackWs_clall, tot_ackWs_clpre, b2n_true, b2n_false, clearW_idle, clearW_exited, clearW_parked, clearW_eq_exited, clearW_eq_parked, srW, lgW, clAllW, clPreW, St.bg, onOk, onErr, selNext, afterSetErr, srAllW, nextC, roSets] <;> (try omega) <;> (try (cases hk : s.ehTok <;> cases hk2 : s.cwl <;> simp_all [b2n_true, b2n_false] <;> omega))
  | cwAckErr _ i b site lg hi he =>
    clear h4
    have l0 := le_tot srW _ _ _ hi
    have l1 := le_tot lgW _ _ _ hi
    have l2 := le_tot clAllW _ _ _ hi
    have l3 := le_tot clPreW _ _ _ hi
    cases site <;> cases b <;> cases lg <;> (try simp only [St.setDone, St.setBg, ↓reduceIte, Bool.false_eq_true, Bool.and_false, Bool.and_true, Bool.false_and, Bool.true_and]) <;> (repeat' split) <;> simp_all [tot_set_eq _ _ _ _ _ hi, tot_ackWs_srw', tot_ackWs_lgw, tot_ackWs_clall, tot_ackWs_clpre, b2n_true, b2n_false, clearW_idle, clearW_exited, clearW_parked, clearW_eq_exited, clearW_eq_parked, srW, lgW, clAllW, clPreW, St.bg, onOk, onErr, selNext, afterSetErr, srAllW, nextC, roSets] <;> (try omega) <;> (try (cases hk : s.ehTok <;> cases hk2 : s.cwl <;> simp_all [b2n_true, b2n_false] <;> omega))
  | otxRotate _ i lg hi =>
    clear h4
    have l0 := le_tot srW _ _ _ hi
    have l1 := le_tot lgW _ _ _ hi
    have l2 := le_tot clAllW _ _ _ hi
    have l3 := le_tot clPreW _ _ _ hi
    cases lg <;> (try simp only [St.setDone, St.setBg, ↓reduceIte, Bool.false_eq_true, Bool.and_false, Bool.and_true, Bool.false_and, Bool.true_and]) <;> (repeat' split) <;> simp_all [tot_set_eq _ _ _ _ _ hi, tot_ackWs_srw', tot_ackWs_lgw, tot_ackWs_clall, tot_ackWs_clpre, b2n_true, b2n_false, clearW_idle, clearW_exited, clearW_parked, clearW_eq_exited, clearW_eq_parked, srW, lgW, clAllW, clPreW, St.bg, onOk, onErr, selNext, afterSetErr, srAllW, nextC, roSets] <;> (try omega) <;> (try (cases hk : s.ehTok <;> cases hk2 : s.cwl <;> simp_all [b2n_true, b2n_false] <;> omega))
  | otxNoRotate _ i lg hi =>
    clear h4
    have l0 := le_tot srW _ _ _ hi
    have l1 := le_tot lgW _ _ _ hi
    have l2 := le_tot clAllW _ _ _ hi
    have l3 := le_tot clPreW _ _ _ hi
    cases lg <;> (try simp only [St.setDone, St.setBg, ↓reduceIte, Bool.false_eq_true, Bool.and_false, Bool.and_true, Bool.false_and, Bool.true_and]) <;> (repeat' split) <;> simp_all [tot_set_eq _ _ _ _ _ hi, tot_ackWs_srw', tot_ackWs_lgw, tot_ackWs_clall, tot_ackWs_clpre, b2n_true, b2n_false, clearW_idle, clearW_exited, clearW_parked, clearW_eq_exited, clearW_eq_parked, srW, lgW, clAllW, clPreW, St.bg, onOk, onErr, selNext, afterSetErr, srAllW, nextC, roSets] <;> (try omega) <;> (try (cases hk : s.ehTok <;> cases hk2 : s.cwl <;> simp_all [b2n_true, b2n_false] <;> omega))
  | otxNewMemOk _ i lg hi =>
    clear h4
    have l0 := le_tot srW _ _ _ hi
    have l1 := le_tot lgW _ _ _ hi
    have l2 := le_tot clAllW _ _ _ hi
    have l3 := le_tot clPreW _ _ _ hi
    cases lg <;> (try simp only [St.setDone, St.setBg, ↓reduceIte, Bool.false_eq_true, Bool.and_false, Bool.and_true, Bool.false_and, Bool.true_and]) <;> (repeat' split) <;> simp_all [tot_set_eq _ _ _ _ _ hi, tot_ackWs_srw', tot_ackWs_lgw, tot_ackWs_clall, tot_ackWs_clpre, b2n_true, b2n_false, clearW_idle, clearW_exited, clearW_parked, clearW_eq_exited, clearW_eq_parked, srW, lgW, clAllW, clPreW, St.bg, onOk, onErr, selNext, afterSetErr, srAllW, nextC, roSets] <;> (try omega) <;> (try (cases hk : s.ehTok <;> cases hk2 : s.cwl <;> simp_all [b2n_true, b2n_false] <;> omega))
  | otxNewMemFail _ i lg hi =>
    clear h4
    have l0 := le_tot srW _ _ _ hi
    have l1 := le_tot lgW _ _ _ hi
    have l2 := le_tot clAllW _ _ _ hi
    have l3 := le_tot clPreW _ _ _ hi
    cases lg <;> (try simp only [St.setDone, St.setBg, ↓reduceIte, Bool.false_eq_true, Bool.and_false, Bool.and_true, Bool.false_and, Bool.true_and]) <;> (repeat' split) <;> simp_all [tot_set_eq _ _ _ _ _ hi, tot_ackWs_srw', tot_ackWs_lgw, tot_ackWs_clall, tot_ackWs_clpre, b2n_true, b2n_false, clearW_idle, clearW_exited, clearW_parked, clearW_eq_exited, clearW_eq_parked, srW, lgW, clAllW, clPreW, St.bg, onOk, onErr, selNext, afterSetErr, srAllW, nextC, roSets] <;> (try omega) <;> (try (cases hk : s.ehTok <;> cases hk2 : s.cwl <;> simp_all [b2n_true, b2n_false] <;> omega))
  | otxNoWaitComp _ i lg hi =>
    clear h4
    have l0 := le_tot srW _ _ _ hi
    have l1 := le_tot lgW _ _ _ hi
    have l2 := le_tot clAllW _ _ _ hi
    have l3 := le_tot clPreW _ _ _ hi
    cases lg <;> (try simp only [St.setDone, St.setBg, ↓reduceIte, Bool.false_eq_true, Bool.and_false, Bool.and_true, Bool.false_and, Bool.true_and]) <;> (repeat' split) <;> simp_all [tot_set_eq _ _ _ _ _ hi, tot_ackWs_srw', tot_ackWs_lgw, tot_ackWs_clall, tot_ackWs_clpre, b2n_true, b2n_false, clearW_idle, clearW_exited, clearW_parked, clearW_eq_exited, clearW_eq_parked, srW, lgW, clAllW, clPreW, St.bg, onOk, onErr, selNext, afterSetErr, srAllW, nextC, roSets] <;> (try omega) <;> (try (cases hk : s.ehTok <;> cases hk2 : s.cwl <;> simp_all [b2n_true, b2n_false] <;> omega))
  | otxWaitComp _ i lg hi =>
    clear h4
    have l0 := le_tot srW _ _ _ hi
    have l1 := le_tot lgW _ _ _ hi
    have l2 := le_tot clAllW _ _ _ hi
    have l3 := le_tot clPreW _ _ _ hi
    cases lg <;> (try simp only [St.setDone, St.setBg, ↓reduceIte, Bool.false_eq_true, Bool.and_false, Bool.and_true, Bool.false_and, Bool.true_and]) <;> (repeat' split) <;> simp_all [tot_set_eq _ _ _ _ _ hi, tot_ackWs_srw', tot_ackWs_lgw, tot_ackWs_clall, tot_ackWs_clpre, b2n_true, b2n_false, clearW_idle, clearW_exited, clearW_parked, clearW_eq_exited, clearW_eq_parked, srW, lgW, clAllW, clPreW, St.bg, onOk, onErr, selNext, afterSetErr, srAllW, nextC, roSets] <;> (try omega) <;> (try (cases hk : s.ehTok <;> cases hk2 : s.cwl <;> simp_all [b2n_true, b2n_false] <;> omega))
  | otxFail _ i lg hi =>
    clear h4
    have l0 := le_tot srW _ _ _ hi
    have l1 := le_tot lgW _ _ _ hi
    have l2 := le_tot clAllW _ _ _ hi
    have l3 := le_tot clPreW _ _ _ hi
    cases lg <;> (try simp only [St.setDone, St.setBg, ↓reduceIte, Bool.false_eq_true, Bool.and_false, Bool.and_true, Bool.false_and, Bool.true_and]) <;> (repeat' split) <;> simp_all [tot_set_eq _ _ _ _ _ hi, tot_ackWs_srw', tot_ackWs_lgw, tot_ackWs_clall, tot_ackWs_clpre, b2n_true, b2n_false, clearW_idle, clearW_exited, clearW_parked, clearW_eq_exited, clearW_eq_parked, srW, lgW, clAllW, clPreW, St.bg, onOk, onErr, selNext, afterSetErr, srAllW, nextC, roSets] <;> (try omega) <;> (try (cases hk : s.ehTok <;> cases hk2 : s.cwl <;> simp_all [b2n_true, b2n_false] <;> omega))
  | otxRel _ i lg hi =>
    clear h4
    have l0 := le_tot srW _ _ _ hi
    have l1 := le_tot lgW _ _ _ hi
    have l2 := le_tot clAllW _ _ _ hi
    have l3 := le_tot clPreW _ _ _ hi
    cases lg <;> (try simp only [St.setDone, St.setBg, ↓reduceIte, Bool.false_eq_true, Bool.and_false, Bool.and_true, Bool.false_and, Bool.true_and]) <;> (repeat' split) <;> simp_all [tot_set_eq _ _ _ _ _ hi, tot_ackWs_srw', tot_ackWs_lgw, tot_ackWs_clall, tot_ackWs_clpre, b2n_true, b2n_false, clearW_idle, clearW_exited, clearW_parked, clearW_eq_exited, clearW_eq_parked, srW, lgW, clAllW, clPreW, St.bg, onOk, onErr, selNext, afterSetErr, srAllW, nextC, roSets] <;> (try omega) <;> (try (cases hk : s.ehTok <;> cases hk2 : s.cwl <;> simp_all [b2n_true, b2n_false] <;> omega))
  | otxDone _ i lg hi =>
    clear h4
    have l0 := le_tot srW _ _ _ hi
    have l1 := le_tot lgW _ _ _ hi
    have l2 := le_tot clAllW _ _ _ hi
    have l3 := le_tot clPreW _ _ _ hi
    cases lg <;> (try simp only [St.setDone, St.setBg, ↓reduceIte, Bool.false_eq_true, Bool.and_false, Bool.and_true, Bool.false_and, Bool.true_and]) <;> (repeat' split) <;> simp_all [tot_set_eq _ _ _ _ _ hi, tot_ackWs_srw', tot_ackWs_lgw, tot_ackWs_clall, tot_ackWs_clpre, b2n_true, b2n_false, clearW_idle, clearW_exited, clearW_parked, clearW_eq_exited, clearW_eq_parked, srW, lgW, clAllW, clPreW, St.bg, onOk, onErr, selNext, afterSetErr, srAllW, nextC, roSets] <;> (try omega) <;> (try (cases hk : s.ehTok <;> cases hk2 : s.cwl <;> simp_all [b2n_true, b2n_false] <;> omega))
  | lgWriteOk _ i hi =>
    clear h4
    have l0 := le_tot srW _ _ _ hi
    have l1 := le_tot lgW _ _ _ hi
    have l2 := le_tot clAllW _ _ _ hi
    have l3 := le_tot clPreW _ _ _ hi
    (try simp only [St.setDone, St.setBg, ↓reduceIte, Bool.false_eq_true, Bool.and_false, Bool.and_true, Bool.false_and, Bool.true_and]) <;> (repeat' split) <;> simp_all [tot_set_eq _ _ _ _ _ hi, tot_ackWs_srw', tot_ackWs_lgw, tot_ackWs_clall, tot_ackWs_clpre, b2n_true, b2n_false, clearW_idle, clearW_exited, clearW_parked, clearW_eq_exited, clearW_eq_parked, srW, lgW, clAllW, clPreW, St.bg, onOk, onErr, selNext, afterSetErr, srAllW, nextC, roSets] <;> (try omega) <;> (try (cases hk : s.ehTok <;> cases hk2 : s.cwl <;> simp_all [b2n_true, b2n_false] <;> omega))
  | lgWriteFail _ i hi =>
    clear h4
    have l0 := le_tot srW _ _ _ hi
    have l1 := le_tot lgW _ _ _ hi
    have l2 := le_tot clAllW _ _ _ hi
    have l3 := le_tot clPreW _ _ _ hi
    (try simp only [St.setDone, St.setBg, ↓reduceIte, Bool.false_eq_true, Bool.and_false, Bool.and_true, Bool.false_and, Bool.true_and]) <;> (repeat' split) <;> simp_all [tot_set_eq _ _ _ _ _ hi, tot_ackWs_srw', tot_ackWs_lgw, tot_ackWs_clall, tot_ackWs_clpre, b2n_true, b2n_false, clearW_idle, clearW_exited, clearW_parked, clearW_eq_exited, clearW_eq_parked, srW, lgW, clAllW, clPreW, St.bg, onOk, onErr, selNext, afterSetErr, srAllW, nextC, roSets] <;> (try omega) <;> (try (cases hk : s.ehTok <;> cases hk2 : s.cwl <;> simp_all [b2n_true, b2n_false] <;> omega))
  | cmLockTr _ i lg hi hl =>
    clear h4
    have l0 := le_tot srW _ _ _ hi
    have l1 := le_tot lgW _ _ _ hi
    have l2 := le_tot clAllW _ _ _ hi
    have l3 := le_tot clPreW _ _ _ hi
    cases lg <;> (try simp only [St.setDone, St.setBg, ↓reduceIte, Bool.false_eq_true, Bool.and_false, Bool.and_true, Bool.false_and, Bool.true_and]) <;> (repeat' split) <;> simp_all [tot_set_eq _ _ _ _ _ hi, tot_ackWs_srw', tot_ackWs_lgw, tot_ackWs_clall, tot_ackWs_clpre, b2n_true, b2n_false, clearW_idle, clearW_exited, clearW_parked, clearW_eq_exited, clearW_eq_parked, srW, lgW, clAllW, clPreW, St.bg, onOk, onErr, selNext, afterSetErr, srAllW, nextC, roSets] <;> (try omega) <;> (try (cases hk : s.ehTok <;> cases hk2 : s.cwl <;> simp_all [b2n_true, b2n_false] <;> omega))
  | cmFlushOk _ i lg hi =>
    clear h4
    have l0 := le_tot srW _ _ _ hi
    have l1 := le_tot lgW _ _ _ hi
    have l2 := le_tot clAllW _ _ _ hi
    have l3 := le_tot clPreW _ _ _ hi
    cases lg <;> (try simp only [St.setDone, St.setBg, ↓reduceIte, Bool.false_eq_true, Bool.and_false, Bool.and_true, Bool.false_and, Bool.true_and]) <;> (repeat' split) <;> simp_all [tot_set_eq _ _ _ _ _ hi, tot_ackWs_srw', tot_ackWs_lgw, tot_ackWs_clall, tot_ackWs_clpre, b2n_true, b2n_false, clearW_idle, clearW_exited, clearW_parked, clearW_eq_exited, clearW_eq_parked, srW, lgW, clAllW, clPreW, St.bg, onOk, onErr, selNext, afterSetErr, srAllW, nextC, roSets] <;> (try omega) <;> (try (cases hk : s.ehTok <;> cases hk2 : s.cwl <;> simp_all [b2n_true, b2n_false] <;> omega))
  | cmFlushEmpty _ i lg hi =>
    clear h4
    have l0 := le_tot srW _ _ _ hi
    have l1 := le_tot lgW _ _ _ hi
    have l2 := le_tot clAllW _ _ _ hi
    have l3 := le_tot clPreW _ _ _ hi
    cases lg <;> (try simp only [St.setDone, St.setBg, ↓reduceIte, Bool.false_eq_true, Bool.and_false, Bool.and_true, Bool.false_and, Bool.true_and]) <;> (repeat' split) <;> simp_all [tot_set_eq _ _ _ _ _ hi, tot_ackWs_srw', tot_ackWs_lgw, tot_ackWs_clall, tot_ackWs_clpre, b2n_true, b2n_false, clearW_idle, clearW_exited, clearW_parked, clearW_eq_exited, clearW_eq_parked, srW, lgW, clAllW, clPreW, St.bg, onOk, onErr, selNext, afterSetErr, srAllW, nextC, roSets] <;> (try omega) <;> (try (cases hk : s.ehTok <;> cases hk2 : s.cwl <;> simp_all [b2n_true, b2n_false] <;> omega))
  | cmFlushFail _ i lg hi =>
    clear h4
    have l0 := le_tot srW _ _ _ hi
    have l1 := le_tot lgW _ _ _ hi
    have l2 := le_tot clAllW _ _ _ hi
    have l3 := le_tot clPreW _ _ _ hi
    cases lg <;> (try simp only [St.setDone, St.setBg, ↓reduceIte, Bool.false_eq_true, Bool.and_false, Bool.and_true, Bool.false_and, Bool.true_and]) <;> (repeat' split) <;> simp_all [tot_set_eq _ _ _ _ _ hi, tot_ackWs_srw', tot_ackWs_lgw, tot_ackWs_clall, tot_ackWs_clpre, b2n_true, b2n_false, clearW_idle, clearW_exited, clearW_parked, clearW_eq_exited, clearW_eq_parked, srW, lgW, clAllW, clPreW, St.bg, onOk, onErr, selNext, afterSetErr, srAllW, nextC, roSets] <;> (try omega) <;> (try (cases hk : s.ehTok <;> cases hk2 : s.cwl <;> simp_all [b2n_true, b2n_false] <;> omega))
  | cmLockClk _ i lg hi hl =>
    clear h4
    have l0 := le_tot srW _ _ _ hi
    have l1 := le_tot lgW _ _ _ hi
    have l2 := le_tot clAllW _ _ _ hi
    have l3 := le_tot clPreW _ _ _ hi
    cases lg <;> (try simp only [St.setDone, St.setBg, ↓reduceIte, Bool.false_eq_true, Bool.and_false, Bool.and_true, Bool.false_and, Bool.true_and]) <;> (repeat' split) <;> simp_all [tot_set_eq _ _ _ _ _ hi, tot_ackWs_srw', tot_ackWs_lgw, tot_ackWs_clall, tot_ackWs_clpre, b2n_true, b2n_false, clearW_idle, clearW_exited, clearW_parked, clearW_eq_exited, clearW_eq_parked, srW, lgW, clAllW, clPreW, St.bg, onOk, onErr, selNext, afterSetErr, srAllW, nextC, roSets] <;> (try omega) <;> (try (cases hk : s.ehTok <;> cases hk2 : s.cwl <;> simp_all [b2n_true, b2n_false] <;> omega))
  | cmTryOk _ i k lg hi =>
    clear h4
    have l0 := le_tot srW _ _ _ hi
    have l1 := le_tot lgW _ _ _ hi
    have l2 := le_tot clAllW _ _ _ hi
    have l3 := le_tot clPreW _ _ _ hi
    cases lg <;> (try simp only [St.setDone, St.setBg, ↓reduceIte, Bool.false_eq_true, Bool.and_false, Bool.and_true, Bool.false_and, Bool.true_and]) <;> (repeat' split) <;> simp_all [tot_set_eq _ _ _ _ _ hi, tot_ackWs_srw', tot_ackWs_lgw, tot_ackWs_clall, tot_ackWs_clpre, b2n_true, b2n_false, clearW_idle, clearW_exited, clearW_parked, clearW_eq_exited, clearW_eq_parked, srW, lgW, clAllW, clPreW, St.bg, onOk, onErr, selNext, afterSetErr, srAllW, nextC, roSets] <;> (try omega) <;> (try (cases hk : s.ehTok <;> cases hk2 : s.cwl <;> simp_all [b2n_true, b2n_false] <;> omega))
  | cmTryFail _ i k lg hi =>
    clear h4
    have l0 := le_tot srW _ _ _ hi
    have l1 := le_tot lgW _ _ _ hi
    have l2 := le_tot clAllW _ _ _ hi
    have l3 := le_tot clPreW _ _ _ hi
    cases lg <;> (try simp only [St.setDone, St.setBg, ↓reduceIte, Bool.false_eq_true, Bool.and_false, Bool.and_true, Bool.false_and, Bool.true_and]) <;> (repeat' split) <;> simp_all [tot_set_eq _ _ _ _ _ hi, tot_ackWs_srw', tot_ackWs_lgw, tot_ackWs_clall, tot_ackWs_clpre, b2n_true, b2n_false, clearW_idle, clearW_exited, clearW_parked, clearW_eq_exited, clearW_eq_parked, srW, lgW, clAllW, clPreW, St.bg, onOk, onErr, selNext, afterSetErr, srAllW, nextC, roSets] <;> (try omega) <;> (try (cases hk : s.ehTok <;> cases hk2 : s.cwl <;> simp_all [b2n_true, b2n_false] <;> omega))
  | cmSleepTimer _ i k lg hi =>
    clear h4
    have l0 := le_tot srW _ _ _ hi
    have l1 := le_tot lgW _ _ _ hi
    have l2 := le_tot clAllW _ _ _ hi
    have l3 := le_tot clPreW _ _ _ hi
    cases lg <;> (try simp only [St.setDone, St.setBg, ↓reduceIte, Bool.false_eq_true, Bool.and_false, Bool.and_true, Bool.false_and, Bool.true_and]) <;> (repeat' split) <;> simp_all [tot_set_eq _ _ _ _ _ hi, tot_ackWs_srw', tot_ackWs_lgw, tot_ackWs_clall, tot_ackWs_clpre, b2n_true, b2n_false, clearW_idle, clearW_exited, clearW_parked, clearW_eq_exited, clearW_eq_parked, srW, lgW, clAllW, clPreW, St.bg, onOk, onErr, selNext, afterSetErr, srAllW, nextC, roSets] <;> (try omega) <;> (try (cases hk : s.ehTok <;> cases hk2 : s.cwl <;> simp_all [b2n_true, b2n_false] <;> omega))
  | cmSleepClosed _ i k lg hi hc =>
    clear h4
    have l0 := le_tot srW _ _ _ hi
    have l1 := le_tot lgW _ _ _ hi
    have l2 := le_tot clAllW _ _ _ hi
    have l3 := le_tot clPreW _ _ _ hi
    cases lg <;> (try simp only [St.setDone, St.setBg, ↓reduceIte, Bool.false_eq_true, Bool.and_false, Bool.and_true, Bool.false_and, Bool.true_and]) <;> (repeat' split) <;> simp_all [tot_set_eq _ _ _ _ _ hi, tot_ackWs_srw', tot_ackWs_lgw, tot_ackWs_clall, tot_ackWs_clpre, b2n_true, b2n_false, clearW_idle, clearW_exited, clearW_parked, clearW_eq_exited, clearW_eq_parked, srW, lgW, clAllW, clPreW, St.bg, onOk, onErr, selNext, afterSetErr, srAllW, nextC, roSets] <;> (try omega) <;> (try (cases hk : s.ehTok <;> cases hk2 : s.cwl <;> simp_all [b2n_true, b2n_false] <;> omega))
  | cmFail3 _ i lg hi =>
    clear h4
    have l0 := le_tot srW _ _ _ hi
    have l1 := le_tot lgW _ _ _ hi
    have l2 := le_tot clAllW _ _ _ hi
    have l3 := le_tot clPreW _ _ _ hi
    cases lg <;> (try simp only [St.setDone, St.setBg, ↓reduceIte, Bool.false_eq_true, Bool.and_false, Bool.and_true, Bool.false_and, Bool.true_and]) <;> (repeat' split) <;> simp_all [tot_set_eq _ _ _ _ _ hi, tot_ackWs_srw', tot_ackWs_lgw, tot_ackWs_clall, tot_ackWs_clpre, b2n_true, b2n_false, clearW_idle, clearW_exited, clearW_parked, clearW_eq_exited, clearW_eq_parked, srW, lgW, clAllW, clPreW, St.bg, onOk, onErr, selNext, afterSetErr, srAllW, nextC, roSets] <;> (try omega) <;> (try (cases hk : s.ehTok <;> cases hk2 : s.cwl <;> simp_all [b2n_true, b2n_false] <;> omega))
  | cmAfterOk _ i lg hi =>
    clear h4
    have l0 := le_tot srW _ _ _ hi
    have l1 := le_tot lgW _ _ _ hi
    have l2 := le_tot clAllW _ _ _ hi
    have l3 := le_tot clPreW _ _ _ hi
    cases lg <;> (try simp only [St.setDone, St.setBg, ↓reduceIte, Bool.false_eq_true, Bool.and_false, Bool.and_true, Bool.false_and, Bool.true_and]) <;> (repeat' split) <;> simp_all [tot_set_eq _ _ _ _ _ hi, tot_ackWs_srw', tot_ackWs_lgw, tot_ackWs_clall, tot_ackWs_clpre, b2n_true, b2n_false, clearW_idle, clearW_exited, clearW_parked, clearW_eq_exited, clearW_eq_parked, srW, lgW, clAllW, clPreW, St.bg, onOk, onErr, selNext, afterSetErr, srAllW, nextC, roSets] <;> (try omega) <;> (try (cases hk : s.ehTok <;> cases hk2 : s.cwl <;> simp_all [b2n_true, b2n_false] <;> omega))
  | cmNoWaitComp _ i lg hi =>
    clear h4
    have l0 := le_tot srW _ _ _ hi
    have l1 := le_tot lgW _ _ _ hi
    have l2 := le_tot clAllW _ _ _ hi
    have l3 := le_tot clPreW _ _ _ hi
    cases lg <;> (try simp only [St.setDone, St.setBg, ↓reduceIte, Bool.false_eq_true, Bool.and_false, Bool.and_true, Bool.false_and, Bool.true_and]) <;> (repeat' split) <;> simp_all [tot_set_eq _ _ _ _ _ hi, tot_ackWs_srw', tot_ackWs_lgw, tot_ackWs_clall, tot_ackWs_clpre, b2n_true, b2n_false, clearW_idle, clearW_exited, clearW_parked, clearW_eq_exited, clearW_eq_parked, srW, lgW, clAllW, clPreW, St.bg, onOk, onErr, selNext, afterSetErr, srAllW, nextC, roSets] <;> (try omega) <;> (try (cases hk : s.ehTok <;> cases hk2 : s.cwl <;> simp_all [b2n_true, b2n_false] <;> omega))
  | cmWaitComp _ i lg hi =>
    clear h4
    have l0 := le_tot srW _ _ _ hi
    have l1 := le_tot lgW _ _ _ hi
    have l2 := le_tot clAllW _ _ _ hi
    have l3 := le_tot clPreW _ _ _ hi
    cases lg <;> (try simp only [St.setDone, St.setBg, ↓reduceIte, Bool.false_eq_true, Bool.and_false, Bool.and_true, Bool.false_and, Bool.true_and]) <;> (repeat' split) <;> simp_all [tot_set_eq _ _ _ _ _ hi, tot_ackWs_srw', tot_ackWs_lgw, tot_ackWs_clall, tot_ackWs_clpre, b2n_true, b2n_false, clearW_idle, clearW_exited, clearW_parked, clearW_eq_exited, clearW_eq_parked, srW, lgW, clAllW, clPreW, St.bg, onOk, onErr, selNext, afterSetErr, srAllW, nextC, roSets] <;> (try omega) <;> (try (cases hk : s.ehTok <;> cases hk2 : s.cwl <;> simp_all [b2n_true, b2n_false] <;> omega))
  | cmDone _ i lg hi =>
    clear h4
    have l0 := le_tot srW _ _ _ hi
    have l1 := le_tot lgW _ _ _ hi
    have l2 := le_tot clAllW _ _ _ hi
    have l3 := le_tot clPreW _ _ _ hi
    cases lg <;> (try simp only [St.setDone, St.setBg, ↓reduceIte, Bool.false_eq_true, Bool.and_false, Bool.and_true, Bool.false_and, Bool.true_and]) <;> (repeat' split) <;> simp_all [tot_set_eq _ _ _ _ _ hi, tot_ackWs_srw', tot_ackWs_lgw, tot_ackWs_clall, tot_ackWs_clpre, b2n_true, b2n_false, clearW_idle, clearW_exited, clearW_parked, clearW_eq_exited, clearW_eq_parked, srW, lgW, clAllW, clPreW, St.bg, onOk, onErr, selNext, afterSetErr, srAllW, nextC, roSets] <;> (try omega) <;> (try (cases hk : s.ehTok <;> cases hk2 : s.cwl <;> simp_all [b2n_true, b2n_false] <;> omega))
  | cmRet _ i ok lg hi =>
    clear h4
    have l0 := le_tot srW _ _ _ hi
    have l1 := le_tot lgW _ _ _ hi
    have l2 := le_tot clAllW _ _ _ hi
    have l3 := le_tot clPreW _ _ _ hi
    cases ok <;> cases lg <;> (try simp only [St.setDone, St.setBg, ↓reduceIte, Bool.false_eq_true, Bool.and_false, Bool.and_true, Bool.false_and, Bool.true_and]) <;> (repeat' split) <;> simp_all [tot_set_eq _ _ _ _ _ hi, tot_ackWs_srw', tot_ackWs_lgw, tot_ackWs_clall, tot_ackWs_clpre, b2n_true, b2n_false, clearW_idle, clearW_exited, clearW_parked, clearW_eq_exited, clearW_eq_parked, srW, lgW, clAllW, clPreW, St.bg, onOk, onErr, selNext, afterSetErr, srAllW, nextC, roSets] <;> (try omega) <;> (try (cases hk : s.ehTok <;> cases hk2 : s.cwl <;> simp_all [b2n_true, b2n_false] <;> omega))
  | dcLockTr _ i lg hi hl =>
    clear h4
    have l0 := le_tot srW _ _ _ hi
    have l1 := le_tot lgW _ _ _ hi
    have l2 := le_tot clAllW _ _ _ hi
    have l3 := le_tot clPreW _ _ _ hi
    cases lg <;> (try simp only [St.setDone, St.setBg, ↓reduceIte, Bool.false_eq_true, Bool.and_false, Bool.and_true, Bool.false_and, Bool.true_and]) <;> (repeat' split) <;> simp_all [tot_set_eq _ _ _ _ _ hi, tot_ackWs_srw', tot_ackWs_lgw, tot_ackWs_clall, tot_ackWs_clpre, b2n_true, b2n_false, clearW_idle, clearW_exited, clearW_parked, clearW_eq_exited, clearW_eq_parked, srW, lgW, clAllW, clPreW, St.bg, onOk, onErr, selNext, afterSetErr, srAllW, nextC, roSets] <;> (try omega) <;> (try (cases hk : s.ehTok <;> cases hk2 : s.cwl <;> simp_all [b2n_true, b2n_false] <;> omega))
  | dcBody _ i lg hi =>
    clear h4
    have l0 := le_tot srW _ _ _ hi
    have l1 := le_tot lgW _ _ _ hi
    have l2 := le_tot clAllW _ _ _ hi
    have l3 := le_tot clPreW _ _ _ hi
    cases lg <;> (try simp only [St.setDone, St.setBg, ↓reduceIte, Bool.false_eq_true, Bool.and_false, Bool.and_true, Bool.false_and, Bool.true_and]) <;> (repeat' split) <;> simp_all [tot_set_eq _ _ _ _ _ hi, tot_ackWs_srw', tot_ackWs_lgw, tot_ackWs_clall, tot_ackWs_clpre, b2n_true, b2n_false, clearW_idle, clearW_exited, clearW_parked, clearW_eq_exited, clearW_eq_parked, srW, lgW, clAllW, clPreW, St.bg, onOk, onErr, selNext, afterSetErr, srAllW, nextC, roSets] <;> (try omega) <;> (try (cases hk : s.ehTok <;> cases hk2 : s.cwl <;> simp_all [b2n_true, b2n_false] <;> omega))
  | crNoOverlap _ i hi =>
    clear h4
    have l0 := le_tot srW _ _ _ hi
    have l1 := le_tot lgW _ _ _ hi
    have l2 := le_tot clAllW _ _ _ hi
    have l3 := le_tot clPreW _ _ _ hi
    (try simp only [St.setDone, St.setBg, ↓reduceIte, Bool.false_eq_true, Bool.and_false, Bool.and_true, Bool.false_and, Bool.true_and]) <;> (repeat' split) <;> simp_all [tot_set_eq _ _ _ _ _ hi, tot_ackWs_srw', tot_ackWs_lgw, tot_ackWs_clall, tot_ackWs_clpre, b2n_true, b2n_false, clearW_idle, clearW_exited, clearW_parked, clearW_eq_exited, clearW_eq_parked, srW, lgW, clAllW, clPreW, St.bg, onOk, onErr, selNext, afterSetErr, srAllW, nextC, roSets] <;> (try omega) <;> (try (cases hk : s.ehTok <;> cases hk2 : s.cwl <;> simp_all [b2n_true, b2n_false] <;> omega))
  | crOverlap _ i hi =>
    clear h4
    have l0 := le_tot srW _ _ _ hi
    have l1 := le_tot lgW _ _ _ hi
    have l2 := le_tot clAllW _ _ _ hi
    have l3 := le_tot clPreW _ _ _ hi
    (try simp only [St.setDone, St.setBg, ↓reduceIte, Bool.false_eq_true, Bool.and_false, Bool.and_true, Bool.false_and, Bool.true_and]) <;> (repeat' split) <;> simp_all [tot_set_eq _ _ _ _ _ hi, tot_ackWs_srw', tot_ackWs_lgw, tot_ackWs_clall, tot_ackWs_clpre, b2n_true, b2n_false, clearW_idle, clearW_exited, clearW_parked, clearW_eq_exited, clearW_eq_parked, srW, lgW, clAllW, clPreW, St.bg, onOk, onErr, selNext, afterSetErr, srAllW, nextC, roSets] <;> (try omega) <;> (try (cases hk : s.ehTok <;> cases hk2 : s.cwl <;> simp_all [b2n_true, b2n_false] <;> omega))
  | crNewMemOk _ i hi =>
    clear h4
    have l0 := le_tot srW _ _ _ hi
    have l1 := le_tot lgW _ _ _ hi
    have l2 := le_tot clAllW _ _ _ hi
    have l3 := le_tot clPreW _ _ _ hi
    (try simp only [St.setDone, St.setBg, ↓reduceIte, Bool.false_eq_true, Bool.and_false, Bool.and_true, Bool.false_and, Bool.true_and]) <;> (repeat' split) <;> simp_all [tot_set_eq _ _ _ _ _ hi, tot_ackWs_srw', tot_ackWs_lgw, tot_ackWs_clall, tot_ackWs_clpre, b2n_true, b2n_false, clearW_idle, clearW_exited, clearW_parked, clearW_eq_exited, clearW_eq_parked, srW, lgW, clAllW, clPreW, St.bg, onOk, onErr, selNext, afterSetErr, srAllW, nextC, roSets] <;> (try omega) <;> (try (cases hk : s.ehTok <;> cases hk2 : s.cwl <;> simp_all [b2n_true, b2n_false] <;> omega))
  | crNewMemFail _ i hi =>
    clear h4
    have l0 := le_tot srW _ _ _ hi
    have l1 := le_tot lgW _ _ _ hi
    have l2 := le_tot clAllW _ _ _ hi
    have l3 := le_tot clPreW _ _ _ hi
    (try simp only [St.setDone, St.setBg, ↓reduceIte, Bool.false_eq_true, Bool.and_false, Bool.and_true, Bool.false_and, Bool.true_and]) <;> (repeat' split) <;> simp_all [tot_set_eq _ _ _ _ _ hi, tot_ackWs_srw', tot_ackWs_lgw, tot_ackWs_clall, tot_ackWs_clpre, b2n_true, b2n_false, clearW_idle, clearW_exited, clearW_parked, clearW_eq_exited, clearW_eq_parked, srW, lgW, clAllW, clPreW, St.bg, onOk, onErr, selNext, afterSetErr, srAllW, nextC, roSets] <;> (try omega) <;> (try (cases hk : s.ehTok <;> cases hk2 : s.cwl <;> simp_all [b2n_true, b2n_false] <;> omega))
  | crRelM _ i hi =>
    clear h4
    have l0 := le_tot srW _ _ _ hi
    have l1 := le_tot lgW _ _ _ hi
    have l2 := le_tot clAllW _ _ _ hi
    have l3 := le_tot clPreW _ _ _ hi
    (try simp only [St.setDone, St.setBg, ↓reduceIte, Bool.false_eq_true, Bool.and_false, Bool.and_true, Bool.false_and, Bool.true_and]) <;> (repeat' split) <;> simp_all [tot_set_eq _ _ _ _ _ hi, tot_ackWs_srw', tot_ackWs_lgw, tot_ackWs_clall, tot_ackWs_clpre, b2n_true, b2n_false, clearW_idle, clearW_exited, clearW_parked, clearW_eq_exited, clearW_eq_parked, srW, lgW, clAllW, clPreW, St.bg, onOk, onErr, selNext, afterSetErr, srAllW, nextC, roSets] <;> (try omega) <;> (try (cases hk : s.ehTok <;> cases hk2 : s.cwl <;> simp_all [b2n_true, b2n_false] <;> omega))
  | crRelOk _ i hi =>
    clear h4
    have l0 := le_tot srW _ _ _ hi
    have l1 := le_tot lgW _ _ _ hi
    have l2 := le_tot clAllW _ _ _ hi
    have l3 := le_tot clPreW _ _ _ hi
    (try simp only [St.setDone, St.setBg, ↓reduceIte, Bool.false_eq_true, Bool.and_false, Bool.and_true, Bool.false_and, Bool.true_and]) <;> (repeat' split) <;> simp_all [tot_set_eq _ _ _ _ _ hi, tot_ackWs_srw', tot_ackWs_lgw, tot_ackWs_clall, tot_ackWs_clpre, b2n_true, b2n_false, clearW_idle, clearW_exited, clearW_parked, clearW_eq_exited, clearW_eq_parked, srW, lgW, clAllW, clPreW, St.bg, onOk, onErr, selNext, afterSetErr, srAllW, nextC, roSets] <;> (try omega) <;> (try (cases hk : s.ehTok <;> cases hk2 : s.cwl <;> simp_all [b2n_true, b2n_false] <;> omega))
  | crRelFail _ i hi =>
    clear h4
    have l0 := le_tot srW _ _ _ hi
    have l1 := le_tot lgW _ _ _ hi
    have l2 := le_tot clAllW _ _ _ hi
    have l3 := le_tot clPreW _ _ _ hi
    (try simp only [St.setDone, St.setBg, ↓reduceIte, Bool.false_eq_true, Bool.and_false, Bool.and_true, Bool.false_and, Bool.true_and]) <;> (repeat' split) <;> simp_all [tot_set_eq _ _ _ _ _ hi, tot_ackWs_srw', tot_ackWs_lgw, tot_ackWs_clall, tot_ackWs_clpre, b2n_true, b2n_false, clearW_idle, clearW_exited, clearW_parked, clearW_eq_exited, clearW_eq_parked, srW, lgW, clAllW, clPreW, St.bg, onOk, onErr, selNext, afterSetErr, srAllW, nextC, roSets] <;> (try omega) <;> (try (cases hk : s.ehTok <;> cases hk2 : s.cwl <;> simp_all [b2n_true, b2n_false] <;> omega))
  | srSend _ i hi he =>
    clear h4
    have l0 := le_tot srW _ _ _ hi
    have l1 := le_tot lgW _ _ _ hi
    have l2 := le_tot clAllW _ _ _ hi
    have l3 := le_tot clPreW _ _ _ hi
    simp only [hm, recvs_asCoded] at he
    rcases he with he | he <;> (try simp only [St.setDone, St.setBg, ↓reduceIte, Bool.false_eq_true, Bool.and_false, Bool.and_true, Bool.false_and, Bool.true_and]) <;> (repeat' split) <;> simp_all [tot_set_eq _ _ _ _ _ hi, tot_ackWs_srw', tot_ackWs_lgw, tot_ackWs_clall, tot_ackWs_clpre, b2n_true, b2n_false, clearW_idle, clearW_exited, clearW_parked, clearW_eq_exited, clearW_eq_parked, srW, lgW, clAllW, clPreW, St.bg, onOk, onErr, selNext, afterSetErr, srAllW, nextC, roSets] <;> (try omega) <;> (try (cases hk : s.ehTok <;> cases hk2 : s.cwl <;> simp_all [b2n_true, b2n_false] <;> omega))
  | srPerErr _ i hi he =>
    clear h4
    have l0 := le_tot srW _ _ _ hi
    have l1 := le_tot lgW _ _ _ hi
    have l2 := le_tot clAllW _ _ _ hi
    have l3 := le_tot clPreW _ _ _ hi
    (try simp only [St.setDone, St.setBg, ↓reduceIte, Bool.false_eq_true, Bool.and_false, Bool.and_true, Bool.false_and, Bool.true_and]) <;> (repeat' split) <;> simp_all [tot_set_eq _ _ _ _ _ hi, tot_ackWs_srw', tot_ackWs_lgw, tot_ackWs_clall, tot_ackWs_clpre, b2n_true, b2n_false, clearW_idle, clearW_exited, clearW_parked, clearW_eq_exited, clearW_eq_parked, srW, lgW, clAllW, clPreW, St.bg, onOk, onErr, selNext, afterSetErr, srAllW, nextC, roSets] <;> (try omega) <;> (try (cases hk : s.ehTok <;> cases hk2 : s.cwl <;> simp_all [b2n_true, b2n_false] <;> omega))
  | srClosed _ i hi hc =>
    have l0 := le_tot srW _ _ _ hi
    have l1 := le_tot lgW _ _ _ hi
    have l2 := le_tot clAllW _ _ _ hi
    have l3 := le_tot clPreW _ _ _ hi
    have ls := le_tot srAllW _ _ _ hi
    rcases h4 with h4 | ⟨_, h4⟩ <;> (try simp only [St.setDone, St.setBg, ↓reduceIte, Bool.false_eq_true, Bool.and_false, Bool.and_true, Bool.false_and, Bool.true_and]) <;> (repeat' split) <;> simp_all [tot_set_eq _ _ _ _ _ hi, tot_ackWs_srw', tot_ackWs_lgw, tot_ackWs_clall, tot_ackWs_clpre, b2n_true, b2n_false, clearW_idle, clearW_exited, clearW_parked, clearW_eq_exited, clearW_eq_parked, srW, lgW, clAllW, clPreW, St.bg, onOk, onErr, selNext, afterSetErr, srAllW, nextC, roSets] <;> (try omega) <;> (try (cases hk : s.ehTok <;> cases hk2 : s.cwl <;> simp_all [b2n_true, b2n_false] <;> omega))
  | clCheckTr _ i hi =>
    clear h4
    have l0 := le_tot srW _ _ _ hi
    have l1 := le_tot lgW _ _ _ hi
    have l2 := le_tot clAllW _ _ _ hi
    have l3 := le_tot clPreW _ _ _ hi
    (try simp only [St.setDone, St.setBg, ↓reduceIte, Bool.false_eq_true, Bool.and_false, Bool.and_true, Bool.false_and, Bool.true_and]) <;> (repeat' split) <;> simp_all [tot_set_eq _ _ _ _ _ hi, tot_ackWs_srw', tot_ackWs_lgw, tot_ackWs_clall, tot_ackWs_clpre, b2n_true, b2n_false, clearW_idle, clearW_exited, clearW_parked, clearW_eq_exited, clearW_eq_parked, srW, lgW, clAllW, clPreW, St.bg, onOk, onErr, selNext, afterSetErr, srAllW, nextC, roSets] <;> (try omega) <;> (try (cases hk : s.ehTok <;> cases hk2 : s.cwl <;> simp_all [b2n_true, b2n_false] <;> omega))
  | clLockTr _ i hi hl =>
    clear h4
    have l0 := le_tot srW _ _ _ hi
    have l1 := le_tot lgW _ _ _ hi
    have l2 := le_tot clAllW _ _ _ hi
    have l3 := le_tot clPreW _ _ _ hi
    (try simp only [St.setDone, St.setBg, ↓reduceIte, Bool.false_eq_true, Bool.and_false, Bool.and_true, Bool.false_and, Bool.true_and]) <;> (repeat' split) <;> simp_all [tot_set_eq _ _ _ _ _ hi, tot_ackWs_srw', tot_ackWs_lgw, tot_ackWs_clall, tot_ackWs_clpre, b2n_true, b2n_false, clearW_idle, clearW_exited, clearW_parked, clearW_eq_exited, clearW_eq_parked, srW, lgW, clAllW, clPreW, St.bg, onOk, onErr, selNext, afterSetErr, srAllW, nextC, roSets] <;> (try omega) <;> (try (cases hk : s.ehTok <;> cases hk2 : s.cwl <;> simp_all [b2n_true, b2n_false] <;> omega))
  | clBody _ i hi =>
    clear h4
    have l0 := le_tot srW _ _ _ hi
    have l1 := le_tot lgW _ _ _ hi
    have l2 := le_tot clAllW _ _ _ hi
    have l3 := le_tot clPreW _ _ _ hi
    (try simp only [St.setDone, St.setBg, ↓reduceIte, Bool.false_eq_true, Bool.and_false, Bool.and_true, Bool.false_and, Bool.true_and]) <;> (repeat' split) <;> simp_all [tot_set_eq _ _ _ _ _ hi, tot_ackWs_srw', tot_ackWs_lgw, tot_ackWs_clall, tot_ackWs_clpre, b2n_true, b2n_false, clearW_idle, clearW_exited, clearW_parked, clearW_eq_exited, clearW_eq_parked, srW, lgW, clAllW, clPreW, St.bg, onOk, onErr, selNext, afterSetErr, srAllW, nextC, roSets] <;> (try omega) <;> (try (cases hk : s.ehTok <;> cases hk2 : s.cwl <;> simp_all [b2n_true, b2n_false] <;> omega))
  | clAcq _ i hi ht =>
    clear h4
    have l0 := le_tot srW _ _ _ hi
    have l1 := le_tot lgW _ _ _ hi
    have l2 := le_tot clAllW _ _ _ hi
    have l3 := le_tot clPreW _ _ _ hi
    (try simp only [St.setDone, St.setBg, ↓reduceIte, Bool.false_eq_true, Bool.and_false, Bool.and_true, Bool.false_and, Bool.true_and]) <;> (repeat' split) <;> simp_all [tot_set_eq _ _ _ _ _ hi, tot_ackWs_srw', tot_ackWs_lgw, tot_ackWs_clall, tot_ackWs_clpre, b2n_true, b2n_false, clearW_idle, clearW_exited, clearW_parked, clearW_eq_exited, clearW_eq_parked, srW, lgW, clAllW, clPreW, St.bg, onOk, onErr, selNext, afterSetErr, srAllW, nextC, roSets] <;> (try omega) <;> (try (cases hk : s.ehTok <;> cases hk2 : s.cwl <;> simp_all [b2n_true, b2n_false] <;> omega))
  | clAcqKept _ i hi he hk hs =>
    clear h4
    have l0 := le_tot srW _ _ _ hi
    have l1 := le_tot lgW _ _ _ hi
    have l2 := le_tot clAllW _ _ _ hi
    have l3 := le_tot clPreW _ _ _ hi
    (try simp only [St.setDone, St.setBg, ↓reduceIte, Bool.false_eq_true, Bool.and_false, Bool.and_true, Bool.false_and, Bool.true_and]) <;> (repeat' split) <;> simp_all [tot_set_eq _ _ _ _ _ hi, tot_ackWs_srw', tot_ackWs_lgw, tot_ackWs_clall, tot_ackWs_clpre, b2n_true, b2n_false, clearW_idle, clearW_exited, clearW_parked, clearW_eq_exited, clearW_eq_parked, srW, lgW, clAllW, clPreW, St.bg, onOk, onErr, selNext, afterSetErr, srAllW, nextC, roSets] <;> (try omega) <;> (try (cases hk : s.ehTok <;> cases hk2 : s.cwl <;> simp_all [b2n_true, b2n_false] <;> omega))
  | clWait _ i hi hm ht =>
    clear h4
    have l0 := le_tot srW _ _ _ hi
    have l1 := le_tot lgW _ _ _ hi
    have l2 := le_tot clAllW _ _ _ hi
    have l3 := le_tot clPreW _ _ _ hi
    (try simp only [St.setDone, St.setBg, ↓reduceIte, Bool.false_eq_true, Bool.and_false, Bool.and_true, Bool.false_and, Bool.true_and]) <;> (repeat' split) <;> simp_all [tot_set_eq _ _ _ _ _ hi, tot_ackWs_srw', tot_ackWs_lgw, tot_ackWs_clall, tot_ackWs_clpre, b2n_true, b2n_false, clearW_idle, clearW_exited, clearW_parked, clearW_eq_exited, clearW_eq_parked, srW, lgW, clAllW, clPreW, St.bg, onOk, onErr, selNext, afterSetErr, srAllW, nextC, roSets] <;> (try omega) <;> (try (cases hk : s.ehTok <;> cases hk2 : s.cwl <;> simp_all [b2n_true, b2n_false] <;> omega))
  | ehAcquire _ he ht =>
    clear h4
    (try simp only [St.setDone, St.setBg, ↓reduceIte, Bool.false_eq_true, Bool.and_false, Bool.and_true, Bool.false_and, Bool.true_and]) <;> (repeat' split) <;> simp_all [tot_ackWs_srw', tot_ackWs_lgw, tot_ackWs_clall, tot_ackWs_clpre, b2n_true, b2n_false, clearW_idle, clearW_exited, clearW_parked, clearW_eq_exited, clearW_eq_parked, srW, lgW, clAllW, clPreW, St.bg, onOk, onErr, selNext, afterSetErr, srAllW, nextC, roSets] <;> (try omega) <;> (try (cases hk : s.ehTok <;> cases hk2 : s.cwl <;> simp_all [b2n_true, b2n_false] <;> omega))
  | ehClose _ he hc =>
    clear h4
    simp only [hm, closes_asCoded] at he
    rcases he with he | he | he <;> (try simp only [St.setDone, St.setBg, ↓reduceIte, Bool.false_eq_true, Bool.and_false, Bool.and_true, Bool.false_and, Bool.true_and]) <;> (repeat' split) <;> simp_all [tot_ackWs_srw', tot_ackWs_lgw, tot_ackWs_clall, tot_ackWs_clpre, b2n_true, b2n_false, clearW_idle, clearW_exited, clearW_parked, clearW_eq_exited, clearW_eq_parked, srW, lgW, clAllW, clPreW, St.bg, onOk, onErr, selNext, afterSetErr, srAllW, nextC, roSets] <;> (try omega) <;> (try (split <;> cases hk : s.ehTok <;> simp_all [b2n_true, b2n_false] <;> omega))
  | ehTake _ he ht =>
    clear h4
    (try simp only [St.setDone, St.setBg, ↓reduceIte, Bool.false_eq_true, Bool.and_false, Bool.and_true, Bool.false_and, Bool.true_and]) <;> (repeat' split) <;> simp_all [tot_ackWs_srw', tot_ackWs_lgw, tot_ackWs_clall, tot_ackWs_clpre, b2n_true, b2n_false, clearW_idle, clearW_exited, clearW_parked, clearW_eq_exited, clearW_eq_parked, srW, lgW, clAllW, clPreW, St.bg, onOk, onErr, selNext, afterSetErr, srAllW, nextC, roSets] <;> (try omega) <;> (try (cases hk : s.ehTok <;> cases hk2 : s.cwl <;> simp_all [b2n_true, b2n_false] <;> omega))
  | bgExitIdle _ b hb hc =>
    clear h4
    cases b <;> (try simp only [St.setDone, St.setBg, ↓reduceIte, Bool.false_eq_true, Bool.and_false, Bool.and_true, Bool.false_and, Bool.true_and]) <;> (repeat' split) <;> simp_all [tot_ackWs_srw', tot_ackWs_lgw, tot_ackWs_clall, tot_ackWs_clpre, b2n_true, b2n_false, clearW_idle, clearW_exited, clearW_parked, clearW_eq_exited, clearW_eq_parked, srW, lgW, clAllW, clPreW, St.bg, onOk, onErr, selNext, afterSetErr, srAllW, nextC, roSets] <;> (try omega) <;> (try (cases hk : s.ehTok <;> cases hk2 : s.cwl <;> simp_all [b2n_true, b2n_false] <;> omega))
  | bgExitParked _ hb hc =>
    clear h4
    (try simp only [St.setDone, St.setBg, ↓reduceIte, Bool.false_eq_true, Bool.and_false, Bool.and_true, Bool.false_and, Bool.true_and]) <;> (repeat' split) <;> simp_all [tot_ackWs_srw', tot_ackWs_lgw, tot_ackWs_clall, tot_ackWs_clpre, b2n_true, b2n_false, clearW_idle, clearW_exited, clearW_parked, clearW_eq_exited, clearW_eq_parked, srW, lgW, clAllW, clPreW, St.bg, onOk, onErr, selNext, afterSetErr, srAllW, nextC, roSets] <;> (try omega) <;> (try (cases hk : s.ehTok <;> cases hk2 : s.cwl <;> simp_all [b2n_true, b2n_false] <;> omega))
  | bgWorkCorrupt _ b w hb hk =>
    clear h4
    cases b <;> (try simp only [St.setDone, St.setBg, ↓reduceIte, Bool.false_eq_true, Bool.and_false, Bool.and_true, Bool.false_and, Bool.true_and]) <;> (repeat' split) <;> simp_all [tot_ackWs_srw', tot_ackWs_lgw, tot_ackWs_clall, tot_ackWs_clpre, b2n_true, b2n_false, clearW_idle, clearW_exited, clearW_parked, clearW_eq_exited, clearW_eq_parked, srW, lgW, clAllW, clPreW, St.bg, onOk, onErr, selNext, afterSetErr, srAllW, nextC, roSets] <;> (try omega) <;> (try (cases hk : s.ehTok <;> cases hk2 : s.cwl <;> simp_all [b2n_true, b2n_false] <;> omega))
  | bgCommitCorrupt _ b w hb hk =>
    clear h4
    cases b <;> (try simp only [St.setDone, St.setBg, ↓reduceIte, Bool.false_eq_true, Bool.and_false, Bool.and_true, Bool.false_and, Bool.true_and]) <;> (repeat' split) <;> simp_all [tot_ackWs_srw', tot_ackWs_lgw, tot_ackWs_clall, tot_ackWs_clpre, b2n_true, b2n_false, clearW_idle, clearW_exited, clearW_parked, clearW_eq_exited, clearW_eq_parked, srW, lgW, clAllW, clPreW, St.bg, onOk, onErr, selNext, afterSetErr, srAllW, nextC, roSets] <;> (try omega) <;> (try (cases hk : s.ehTok <;> cases hk2 : s.cwl <;> simp_all [b2n_true, b2n_false] <;> omega))
  | bgSetErrCorrupt _ b w c hb he =>
    clear h4
    simp only [hm, recvs_asCoded] at he
    rcases he with he | he <;> cases b <;> cases c <;> (try simp only [St.setDone, St.setBg, ↓reduceIte, Bool.false_eq_true, Bool.and_false, Bool.and_true, Bool.false_and, Bool.true_and]) <;> (repeat' split) <;> simp_all [tot_ackWs_srw', tot_ackWs_lgw, tot_ackWs_clall, tot_ackWs_clpre, b2n_true, b2n_false, clearW_idle, clearW_exited, clearW_parked, clearW_eq_exited, clearW_eq_parked, srW, lgW, clAllW, clPreW, St.bg, onOk, onErr, selNext, afterSetErr, srAllW, nextC, roSets] <;> (try omega) <;> (try (cases hk : s.ehTok <;> cases hk2 : s.cwl <;> simp_all [b2n_true, b2n_false] <;> omega))
  | bgWorkOk _ b w hb =>
    clear h4
    cases b <;> (try simp only [St.setDone, St.setBg, ↓reduceIte, Bool.false_eq_true, Bool.and_false, Bool.and_true, Bool.false_and, Bool.true_and]) <;> (repeat' split) <;> simp_all [tot_ackWs_srw', tot_ackWs_lgw, tot_ackWs_clall, tot_ackWs_clpre, b2n_true, b2n_false, clearW_idle, clearW_exited, clearW_parked, clearW_eq_exited, clearW_eq_parked, srW, lgW, clAllW, clPreW, St.bg, onOk, onErr, selNext, afterSetErr, srAllW, nextC, roSets] <;> (try omega) <;> (try (cases hk : s.ehTok <;> cases hk2 : s.cwl <;> simp_all [b2n_true, b2n_false] <;> omega))
  | bgWorkFail _ b w hb =>
    clear h4
    cases b <;> (try simp only [St.setDone, St.setBg, ↓reduceIte, Bool.false_eq_true, Bool.and_false, Bool.and_true, Bool.false_and, Bool.true_and]) <;> (repeat' split) <;> simp_all [tot_ackWs_srw', tot_ackWs_lgw, tot_ackWs_clall, tot_ackWs_clpre, b2n_true, b2n_false, clearW_idle, clearW_exited, clearW_parked, clearW_eq_exited, clearW_eq_parked, srW, lgW, clAllW, clPreW, St.bg, onOk, onErr, selNext, afterSetErr, srAllW, nextC, roSets] <;> (try omega) <;> (try (cases hk : s.ehTok <;> cases hk2 : s.cwl <;> simp_all [b2n_true, b2n_false] <;> omega))
  | bgCommitOk _ b w hb =>
    clear h4
    cases b <;> (try simp only [St.setDone, St.setBg, ↓reduceIte, Bool.false_eq_true, Bool.and_false, Bool.and_true, Bool.false_and, Bool.true_and]) <;> (repeat' split) <;> simp_all [tot_ackWs_srw', tot_ackWs_lgw, tot_ackWs_clall, tot_ackWs_clpre, b2n_true, b2n_false, clearW_idle, clearW_exited, clearW_parked, clearW_eq_exited, clearW_eq_parked, srW, lgW, clAllW, clPreW, St.bg, onOk, onErr, selNext, afterSetErr, srAllW, nextC, roSets] <;> (try omega) <;> (try (cases hk : s.ehTok <;> cases hk2 : s.cwl <;> simp_all [b2n_true, b2n_false] <;> omega))
  | bgCommitFail _ b w hb =>
    clear h4
    cases b <;> (try simp only [St.setDone, St.setBg, ↓reduceIte, Bool.false_eq_true, Bool.and_false, Bool.and_true, Bool.false_and, Bool.true_and]) <;> (repeat' split) <;> simp_all [tot_ackWs_srw', tot_ackWs_lgw, tot_ackWs_clall, tot_ackWs_clpre, b2n_true, b2n_false, clearW_idle, clearW_exited, clearW_parked, clearW_eq_exited, clearW_eq_parked, srW, lgW, clAllW, clPreW, St.bg, onOk, onErr, selNext, afterSetErr, srAllW, nextC, roSets] <;> (try omega) <;> (try (cases hk : s.ehTok <;> cases hk2 : s.cwl <;> simp_all [b2n_true, b2n_false] <;> omega))
  | bgSetErr _ b w ok c hb he =>
    clear h4
    simp only [hm, recvs_asCoded] at he
    rcases he with he | he <;> cases b <;> cases ok <;> cases c <;> (try simp only [St.setDone, St.setBg, ↓reduceIte, Bool.false_eq_true, Bool.and_false, Bool.and_true, Bool.false_and, Bool.true_and]) <;> (repeat' split) <;> simp_all [tot_ackWs_srw', tot_ackWs_lgw, tot_ackWs_clall, tot_ackWs_clpre, b2n_true, b2n_false, clearW_idle, clearW_exited, clearW_parked, clearW_eq_exited, clearW_eq_parked, srW, lgW, clAllW, clPreW, St.bg, onOk, onErr, selNext, afterSetErr, srAllW, nextC, roSets] <;> (try omega) <;> (try (cases hk : s.ehTok <;> cases hk2 : s.cwl <;> simp_all [b2n_true, b2n_false] <;> omega))
  | bgSetErrPer _ b w c hb he =>
    clear h4
    cases b <;> cases c <;> (try simp only [St.setDone, St.setBg, ↓reduceIte, Bool.false_eq_true, Bool.and_false, Bool.and_true, Bool.false_and, Bool.true_and]) <;> (repeat' split) <;> simp_all [tot_ackWs_srw', tot_ackWs_lgw, tot_ackWs_clall, tot_ackWs_clpre, b2n_true, b2n_false, clearW_idle, clearW_exited, clearW_parked, clearW_eq_exited, clearW_eq_parked, srW, lgW, clAllW, clPreW, St.bg, onOk, onErr, selNext, afterSetErr, srAllW, nextC, roSets] <;> (try omega) <;> (try (cases hk : s.ehTok <;> cases hk2 : s.cwl <;> simp_all [b2n_true, b2n_false] <;> omega))
  | bgBackoff _ b w c hb =>
    clear h4
    cases b <;> cases c <;> (try simp only [St.setDone, St.setBg, ↓reduceIte, Bool.false_eq_true, Bool.and_false, Bool.and_true, Bool.false_and, Bool.true_and]) <;> (repeat' split) <;> simp_all [tot_ackWs_srw', tot_ackWs_lgw, tot_ackWs_clall, tot_ackWs_clpre, b2n_true, b2n_false, clearW_idle, clearW_exited, clearW_parked, clearW_eq_exited, clearW_eq_parked, srW, lgW, clAllW, clPreW, St.bg, onOk, onErr, selNext, afterSetErr, srAllW, nextC, roSets] <;> (try omega) <;> (try (cases hk : s.ehTok <;> cases hk2 : s.cwl <;> simp_all [b2n_true, b2n_false] <;> omega))
  | bgLockClk _ b w hb hl =>
    clear h4
    cases b <;> (try simp only [St.setDone, St.setBg, ↓reduceIte, Bool.false_eq_true, Bool.and_false, Bool.and_true, Bool.false_and, Bool.true_and]) <;> (repeat' split) <;> simp_all [tot_ackWs_srw', tot_ackWs_lgw, tot_ackWs_clall, tot_ackWs_clpre, b2n_true, b2n_false, clearW_idle, clearW_exited, clearW_parked, clearW_eq_exited, clearW_eq_parked, srW, lgW, clAllW, clPreW, St.bg, onOk, onErr, selNext, afterSetErr, srAllW, nextC, roSets] <;> (try omega) <;> (try (cases hk : s.ehTok <;> cases hk2 : s.cwl <;> simp_all [b2n_true, b2n_false] <;> omega))
  | bgAck _ b w hb =>
    clear h4
    have hp := afterCmd_parked cfg s b
    rcases afterCmd_cases cfg s b with hac | hac <;> rw [hac] at hp ⊢ <;> cases b <;> (try simp only [St.setDone, St.setBg]) <;> simp_all [tot_ackWs_srw', tot_ackWs_lgw, tot_ackWs_clall, tot_ackWs_clpre, b2n_true, b2n_false, clearW_idle, clearW_exited, clearW_parked, clearW_eq_exited, clearW_eq_parked, srW, lgW, clAllW, clPreW, St.bg, onOk, onErr, selNext, afterSetErr, srAllW, nextC, roSets] <;> (try omega) <;> (try (cases hk : s.ehTok <;> cases hk2 : s.cwl <;> simp_all [b2n_true, b2n_false] <;> omega))
  | bgExit _ b w ph hb hx =>
    clear h4
    cases b <;> cases ph <;> (try simp only [St.setDone, St.setBg, ↓reduceIte, Bool.false_eq_true, Bool.and_false, Bool.and_true, Bool.false_and, Bool.true_and]) <;> (repeat' split) <;> simp_all [tot_ackWs_srw', tot_ackWs_lgw, tot_ackWs_clall, tot_ackWs_clpre, b2n_true, b2n_false, clearW_idle, clearW_exited, clearW_parked, clearW_eq_exited, clearW_eq_parked, srW, lgW, clAllW, clPreW, St.bg, onOk, onErr, selNext, afterSetErr, srAllW, nextC, roSets] <;> (try omega) <;> (try (rcases hx with hx | hx <;> simp_all))

theorem step_pinvB (s t : St) (f : Bool) (cfg : Cfg) (hfx : Fixed3 cfg) (hm : cfg.m = .asCoded cfg.closeSel)
    (h4 : cfg.setReadOnlyReleasesOnClose = true ∨ NoSR s) (hsh : cfg.Shape) (hw : CwlOk cfg s) (h : Step cfg f s t)
    (inv : PInvB s) : PInvB t :=
  hsh.elim (fun hh => step_pinvB_h s t f cfg hfx hm h4 hh hw h inv) (fun hb => step_pinvB_b s t f cfg hfx hm h4 hb hw h inv)

end GoLevel.Locks
