import GoLevel.Proofs.MemDBFind
/-! The searches on a table that satisfies the invariant; relinking of the towers by `Put`/`Delete` (C14). -/
set_option linter.unusedSectionVars false
set_option linter.unusedSimpArgs false
namespace GoLevel.MemDB

variable {cmp : Cmp}

/-! ## the invariant seen from the top level down -/

theorem level0_eq (db : DB) : db.level0 = bottom db.levels.reverse := by
  simp [DB.level0, bottom, List.getLast?_reverse, List.headD_eq_head?_getD]

theorem Inv.topS {db : DB} (h : Inv cmp db) : ∀ l ∈ db.levels.reverse, Sorted cmp l :=
  fun l hl => h.sorted l (List.mem_reverse.1 hl)

theorem Inv.topT {db : DB} (h : Inv cmp db) :
    db.levels.reverse.Pairwise (fun hi lo => ∀ x ∈ hi, x ∈ lo) := by
  rw [List.pairwise_reverse]
  refine List.Pairwise.imp ?_ h.towers
  intro a b hsub x hx
  exact hsub.subset hx

theorem Inv.topNe {db : DB} (h : Inv cmp db) : db.levels.reverse ≠ [] := by
  simpa using h.ne

theorem Inv.sorted0 {db : DB} (h : Inv cmp db) : Sorted cmp db.level0 := by
  rw [level0_eq]; exact h.topS _ (bottom_mem h.topNe)

theorem entry_none (l : List Bytes) (key : Bytes) : Entry cmp l key none := .inl rfl

section
variable (hc : LawfulCmp cmp)
include hc

theorem findGE_prev {db : DB} (h : Inv cmp db) (key : Bytes) :
    findGE cmp db key true =
      ⟨succ cmp db.level0 key, decide (key ∈ db.level0), db.levels.map (pred cmp · key)⟩ := by
  unfold findGE
  rw [findGEFrom_prev hc key _ none [] h.topS h.topT h.topNe (entry_none _ _), ← level0_eq,
    succ_eq_iff hc h.sorted0]
  simp [List.map_reverse]

theorem findGE_noprev {db : DB} (h : Inv cmp db) (key : Bytes) :
    (findGE cmp db key false).node = succ cmp db.level0 key ∧
    (findGE cmp db key false).exact = decide (key ∈ db.level0) := by
  unfold findGE
  have := findGEFrom_noprev hc key _ none [] h.topS h.topT h.topNe (entry_none _ _)
  rw [← level0_eq, succ_eq_iff hc h.sorted0] at this
  exact this

theorem findLT_eq {db : DB} (h : Inv cmp db) (key : Bytes) : findLT cmp db key = pred cmp db.level0 key := by
  unfold findLT
  rw [findLTFrom_eq hc key _ none h.topS h.topT h.topNe (entry_none _ _), ← level0_eq]

theorem findLast_eq {db : DB} (h : Inv cmp db) : findLast db = db.level0.getLast? := by
  unfold findLast
  rw [findLastFrom_eq hc _ none h.topS h.topT h.topNe (.inl rfl), ← level0_eq]

end

/-! ## relinking one level -/

/-- the level after linking a node carrying `key` behind its predecessor -/
def ins (cmp : Cmp) (key : Bytes) (l : List Bytes) : List Bytes :=
  l.takeWhile (below cmp key) ++ key :: l.dropWhile (below cmp key)

theorem insertAfter_append {key p : Bytes} {init rest : List Bytes} (h : ∀ x ∈ init, x ≠ p) :
    insertAfter key (init ++ p :: rest) (some p) = init ++ p :: key :: rest := by
  induction init with
  | nil => simp [insertAfter]
  | cons x xs ih =>
    have hx : x ≠ p := h x (by simp)
    have := ih (fun y hy => h y (by simp [hy]))
    simp [insertAfter, hx, this]

theorem removeAfter_append {p k : Bytes} {init rest : List Bytes} (h : ∀ x ∈ init, x ≠ p) :
    removeAfter (init ++ p :: k :: rest) (some p) = init ++ p :: rest := by
  induction init with
  | nil => simp [removeAfter]
  | cons x xs ih =>
    have hx : x ≠ p := h x (by simp)
    have := ih (fun y hy => h y (by simp [hy]))
    simp [removeAfter, hx, this]

section
variable (hc : LawfulCmp cmp)
include hc

theorem sorted_concat_ne {init rest : List Bytes} {p : Bytes} (hs : Sorted cmp (init ++ p :: rest)) :
    ∀ x ∈ init, x ≠ p := by
  intro x hx
  exact hc.ne_of_lt ((List.pairwise_append.1 hs).2.2 x hx p (by simp))

theorem insertAfter_pred {l : List Bytes} (hs : Sorted cmp l) (key : Bytes) :
    insertAfter key l (pred cmp l key) = ins cmp key l := by
  unfold pred ins
  cases hl : (l.takeWhile (below cmp key)).getLast? with
  | none =>
    have ht : l.takeWhile (below cmp key) = [] := List.getLast?_eq_none_iff.1 hl
    have hd : l.dropWhile (below cmp key) = l := by
      have := List.takeWhile_append_dropWhile (p := below cmp key) (l := l)
      rw [ht] at this; simpa using this
    cases l <;> simp [insertAfter, ht, hd]
  | some p =>
    obtain ⟨init, hinit⟩ := List.getLast?_eq_some_iff.1 hl
    have hsplit : l = init ++ p :: l.dropWhile (below cmp key) := by
      have := List.takeWhile_append_dropWhile (p := below cmp key) (l := l)
      rw [hinit] at this; simpa using this.symm
    have hne := sorted_concat_ne hc (hsplit ▸ hs)
    conv => lhs; rw [hsplit]
    rw [insertAfter_append hne, hinit]
    simp

theorem removeAfter_pred {l : List Bytes} (hs : Sorted cmp l) {key : Bytes} (hk : key ∈ l) :
    removeAfter l (pred cmp l key) = l.filter (· != key) := by
  obtain ⟨pre, post, hl, h1, h2, htw, hdw⟩ := split_mem hc hs hk
  have hf : l.filter (· != key) = pre ++ post := by
    rw [hl, List.filter_append, List.filter_cons]
    have e1 : pre.filter (· != key) = pre :=
      List.filter_eq_self.2 (fun x hx => by simpa using hc.ne_of_lt (h1 x hx))
    have e2 : post.filter (· != key) = post :=
      List.filter_eq_self.2 (fun x hx => by simpa using (hc.ne_of_lt (h2 x hx)).symm)
    simp [e1, e2]
  rw [hf]
  unfold pred
  rw [htw]
  cases hp : pre.getLast? with
  | none =>
    have : pre = [] := List.getLast?_eq_none_iff.1 hp
    subst this
    simp [hl, removeAfter]
  | some p =>
    obtain ⟨init, rfl⟩ := List.getLast?_eq_some_iff.1 hp
    have hne : ∀ x ∈ init, x ≠ p := by
      have hs' : Sorted cmp ((init ++ [p]) ++ key :: post) := hl ▸ hs
      have hs2 := (List.pairwise_append.1 hs').1
      intro x hx
      exact hc.ne_of_lt ((List.pairwise_append.1 hs2).2.2 x hx p (by simp))
    have : l = init ++ p :: key :: post := by simp [hl]
    rw [this, removeAfter_append hne]
    simp

theorem mem_ins {key x : Bytes} {l : List Bytes} : x ∈ ins cmp key l ↔ x = key ∨ x ∈ l := by
  unfold ins
  constructor
  · intro h
    simp only [List.mem_append, List.mem_cons] at h
    rcases h with h | rfl | h
    · exact .inr ((List.takeWhile_sublist _).subset h)
    · exact .inl rfl
    · exact .inr ((List.dropWhile_sublist _).subset h)
  · intro h
    rcases h with rfl | h
    · simp
    · have : x ∈ l.takeWhile (below cmp key) ++ l.dropWhile (below cmp key) := by
        rw [List.takeWhile_append_dropWhile]; exact h
      simp only [List.mem_append, List.mem_cons] at this ⊢
      rcases this with h | h
      · exact .inl h
      · exact .inr (.inr h)

theorem ins_sorted {l : List Bytes} (hs : Sorted cmp l) {key : Bytes} (hk : key ∉ l) :
    Sorted cmp (ins cmp key l) := by
  unfold ins
  have hsplit := List.takeWhile_append_dropWhile (p := below cmp key) (l := l)
  have hs' : Sorted cmp (l.takeWhile (below cmp key) ++ l.dropWhile (below cmp key)) := by
    rw [hsplit]; exact hs
  obtain ⟨s1, s2, s12⟩ := List.pairwise_append.1 hs'
  have hgt : ∀ x ∈ l.dropWhile (below cmp key), cmp key x = .lt := by
    intro x hx
    have hnl := not_below_of_mem_dropWhile hc hs key x hx
    rcases hc.total x key with h | h | h
    · exact absurd h hnl
    · exact absurd (h ▸ (List.dropWhile_sublist _).subset hx) hk
    · exact h
  refine List.pairwise_append.2 ⟨s1, List.pairwise_cons.2 ⟨hgt, s2⟩, ?_⟩
  intro a ha b hb
  simp only [List.mem_cons] at hb
  rcases hb with rfl | hb
  · exact below_of_mem_takeWhile _ a ha
  · exact s12 a ha b hb

theorem ins_length (key : Bytes) (l : List Bytes) : (ins cmp key l).length = l.length + 1 := by
  unfold ins
  have := congrArg List.length (List.takeWhile_append_dropWhile (p := below cmp key) (l := l))
  simp only [List.length_append, List.length_cons] at this ⊢
  omega

/-- strictly sorted lists: containment of the elements is containment as a sublist -/
theorem sublist_of_subset_sorted : ∀ (b a : List Bytes), Sorted cmp a → Sorted cmp b →
    (∀ x ∈ a, x ∈ b) → a.Sublist b := by
  intro b
  induction b with
  | nil =>
    intro a _ _ h
    cases a with
    | nil => exact List.Sublist.slnil
    | cons x xs => exact absurd (h x (by simp)) (by simp)
  | cons y ys ih =>
    intro a ha hb h
    cases a with
    | nil => exact List.nil_sublist _
    | cons x xs =>
      have ha' := List.pairwise_cons.1 ha
      have hb' := List.pairwise_cons.1 hb
      by_cases hxy : x = y
      · subst hxy
        refine List.Sublist.cons_cons x (ih xs ha'.2 hb'.2 ?_)
        intro z hz
        have := h z (by simp [hz])
        simp only [List.mem_cons] at this
        rcases this with rfl | this
        · exact absurd (ha'.1 z hz) (hc.irrefl z)
        · exact this
      · have hx : x ∈ ys := by
          have := h x (by simp)
          simp only [List.mem_cons] at this
          rcases this with e | this
          · exact absurd e hxy
          · exact this
        have hyx : cmp y x = .lt := hb'.1 x hx
        refine List.Sublist.cons y (ih (x :: xs) ha hb'.2 ?_)
        intro z hz
        have hzb := h z hz
        simp only [List.mem_cons] at hz hzb
        rcases hzb with rfl | hzb
        · rcases hz with rfl | hz
          · exact absurd hyx (hc.irrefl _)
          · exact absurd (hc.trans _ _ _ hyx (ha'.1 z hz)) (hc.irrefl _)
        · exact hzb

end

/-! ## relinking all levels -/

def linkIdeal (cmp : Cmp) (key : Bytes) : Nat → List (List Bytes) → List (List Bytes)
  | 0, ls => ls
  | h + 1, [] => [key] :: linkIdeal cmp key h []
  | h + 1, l :: ls => ins cmp key l :: linkIdeal cmp key h ls

theorem ins_nil (key : Bytes) : ins cmp key [] = [key] := by simp [ins]

section
variable (hc : LawfulCmp cmp)
include hc

theorem linkLevels_eq (key : Bytes) : ∀ (h : Nat) (ls : List (List Bytes)), (∀ l ∈ ls, Sorted cmp l) →
    linkLevels key h ls (ls.map (pred cmp · key)) = linkIdeal cmp key h ls := by
  intro h
  induction h with
  | zero => intro ls _; simp [linkLevels, linkIdeal]
  | succ h ih =>
    intro ls hS
    cases ls with
    | nil =>
      have := ih [] (by simp)
      simp only [List.map_nil] at this
      simp [linkLevels, linkIdeal, insertAfter, this]
    | cons l ls =>
      have := ih ls (fun x hx => hS x (by simp [hx]))
      simp only [linkLevels, linkIdeal, List.map_cons, List.headD_cons, List.tail_cons]
      rw [insertAfter_pred hc (hS l (by simp)), this]

theorem linkIdeal_mem (key : Bytes) : ∀ (h : Nat) (ls : List (List Bytes)),
    ∀ l' ∈ linkIdeal cmp key h ls, ∀ x ∈ l', x = key ∨ ∃ l ∈ ls, x ∈ l := by
  intro h
  induction h with
  | zero => intro ls l' hl' x hx; exact .inr ⟨l', hl', hx⟩
  | succ h ih =>
    intro ls l' hl' x hx
    cases ls with
    | nil =>
      simp only [linkIdeal, List.mem_cons] at hl'
      rcases hl' with rfl | hl'
      · simp at hx; exact .inl hx
      · exact ih [] l' hl' x hx
    | cons l ls =>
      simp only [linkIdeal, List.mem_cons] at hl'
      rcases hl' with rfl | hl'
      · rcases (mem_ins hc).1 hx with e | e
        · exact .inl e
        · exact .inr ⟨l, by simp, e⟩
      · rcases ih ls l' hl' x hx with e | ⟨l2, hl2, e⟩
        · exact .inl e
        · exact .inr ⟨l2, by simp [hl2], e⟩

theorem linkIdeal_sorted (key : Bytes) : ∀ (h : Nat) (ls : List (List Bytes)),
    (∀ l ∈ ls, Sorted cmp l) → (∀ l ∈ ls, key ∉ l) → ∀ l' ∈ linkIdeal cmp key h ls, Sorted cmp l' := by
  intro h
  induction h with
  | zero => intro ls hS _ l' hl'; exact hS l' hl'
  | succ h ih =>
    intro ls hS hK l' hl'
    cases ls with
    | nil =>
      simp only [linkIdeal, List.mem_cons] at hl'
      rcases hl' with rfl | hl'
      · simp [Sorted]
      · exact ih [] (by simp) (by simp) l' hl'
    | cons l ls =>
      simp only [linkIdeal, List.mem_cons] at hl'
      rcases hl' with rfl | hl'
      · exact ins_sorted hc (hS l (by simp)) (hK l (by simp))
      · exact ih ls (fun x hx => hS x (by simp [hx])) (fun x hx => hK x (by simp [hx])) l' hl'

theorem linkIdeal_towers (key : Bytes) : ∀ (h : Nat) (ls : List (List Bytes)),
    ls.Pairwise (fun lo hi => ∀ x ∈ hi, x ∈ lo) →
    (linkIdeal cmp key h ls).Pairwise (fun lo hi => ∀ x ∈ hi, x ∈ lo) := by
  intro h
  induction h with
  | zero => intro ls hT; exact hT
  | succ h ih =>
    intro ls hT
    cases ls with
    | nil =>
      simp only [linkIdeal]
      refine List.pairwise_cons.2 ⟨?_, ih [] List.Pairwise.nil⟩
      intro hi hhi x hx
      rcases linkIdeal_mem hc key h [] hi hhi x hx with e | ⟨l, hl, _⟩
      · simp [e]
      · simp at hl
    | cons l ls =>
      have hT' := List.pairwise_cons.1 hT
      simp only [linkIdeal]
      refine List.pairwise_cons.2 ⟨?_, ih ls hT'.2⟩
      intro hi hhi x hx
      rcases linkIdeal_mem hc key h ls hi hhi x hx with e | ⟨l2, hl2, e⟩
      · exact (mem_ins hc).2 (.inl e)
      · exact (mem_ins hc).2 (.inr (hT'.1 l2 hl2 x e))

theorem linkIdeal_length (key : Bytes) : ∀ (h : Nat) (ls : List (List Bytes)),
    (linkIdeal cmp key h ls).length = max h ls.length := by
  intro h
  induction h with
  | zero => intro ls; simp [linkIdeal]
  | succ h ih =>
    intro ls
    cases ls with
    | nil => simp [linkIdeal, ih []]
    | cons l ls => simp [linkIdeal, ih ls]

theorem linkIdeal_head (key : Bytes) (h : Nat) (ls : List (List Bytes)) :
    (linkIdeal cmp key (h + 1) ls).headD [] = ins cmp key (ls.headD []) := by
  cases ls <;> simp [linkIdeal, ins_nil]

/-- `Delete` unlinks the node from exactly the levels it is on -/
theorem unlinkLevels_eq (k : Bytes) : ∀ (ls : List (List Bytes)), (∀ l ∈ ls, Sorted cmp l) →
    ls.Pairwise (fun lo hi => ∀ x ∈ hi, x ∈ lo) →
    unlinkLevels (ls.takeWhile (·.contains k)).length ls (ls.map (pred cmp · k)) =
      ls.map (·.filter (· != k)) := by
  intro ls
  induction ls with
  | nil => intro _ _; simp [unlinkLevels]
  | cons l ls ih =>
    intro hS hT
    have hT' := List.pairwise_cons.1 hT
    by_cases hk : l.contains k = true
    · have hmem : k ∈ l := by simpa using hk
      simp only [List.takeWhile_cons, hk, if_true, List.length_cons, unlinkLevels, List.map_cons,
        List.headD_cons, List.tail_cons]
      rw [removeAfter_pred hc (hS l (by simp)) hmem, ih (fun x hx => hS x (by simp [hx])) hT'.2]
    · have hmem : k ∉ l := by simpa using hk
      have hk' : l.contains k = false := by simpa using hk
      simp only [List.takeWhile_cons, hk', List.length_nil, unlinkLevels, List.map_cons]
      have e1 : l.filter (· != k) = l := List.filter_eq_self.2 (fun x hx => by
        have : x ≠ k := fun e => hmem (e ▸ hx)
        simpa using this)
      have e2 : ls.map (·.filter (· != k)) = ls := by
        conv => rhs; rw [← List.map_id ls]
        apply List.map_congr_left
        intro l2 hl2
        exact List.filter_eq_self.2 (fun x hx => by
          have : x ≠ k := fun e => hmem (hT'.1 l2 hl2 k (e ▸ hx))
          simpa using this)
      rw [e1, e2]; cases ls <;> simp [unlinkLevels]

end

end GoLevel.MemDB
