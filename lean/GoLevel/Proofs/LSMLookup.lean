import GoLevel.Proofs.LSMOrder
/-!
# Lookup lemmas: every search of `Model/LSM.lean` computes `newest` of the source it searches

* `probeList` (seek + user-key test) on a sorted list is `newest`,
* well-formed tables: bounds, the `overlapsKey` pre-filter,
* `l0Get` (the `fseq >= zseq` rule), `levelGet` (`searchMax` + `imin` test),
* `deeperGet`, `versionGet`, `dbGet` against `newest` of all entries.
Core Lean only.
-/
namespace GoLevel

/-- seek to the probe and keep the entry found if it has the wanted user key -/
def probeList (c : UCmp) (es : List Entry) (k : Bytes) (s : Nat) : Option Entry :=
  match seekEntry c es (probe k s) with
  | some e => if c.cmp k e.ukey = .eq then some e else none
  | none => none

theorem tableProbe_eq (c : UCmp) (t : Table) (k : Bytes) (s : Nat) :
    tableProbe c t k s = probeList c t.entries k s := rfl

/-- what a lookup reports for the entry it settles on -/
def hitOf : Option Entry → Hit
  | some e => e.hit
  | none => .miss

theorem Entry.hit_ne_miss (e : Entry) : e.hit ≠ .miss := by
  unfold Entry.hit; split <;> simp

theorem hitOf_eq_miss_iff (o : Option Entry) : hitOf o = .miss ↔ o = none := by
  cases o with
  | none => simp [hitOf]
  | some e => simp [hitOf, Entry.hit_ne_miss]

theorem hitOf_toOption (c : UCmp) (es : List Entry) (k : Bytes) (s : Nat) :
    (hitOf (newest c es k s)).toOption = view c es k s := by
  unfold view hitOf
  cases newest c es k s <;> rfl

theorem hitOf_or (a b : Option Entry) :
    hitOf (a.or b) = match a with | some e => e.hit | none => hitOf b := by
  cases a <;> rfl

/-- the "try this buffer, else go on" step of `DB.get` -/
def Hit.orElse (h next : Hit) : Hit :=
  match h with
  | .miss => next
  | h => h

/-- a buffer that may be absent -/
def optMemGet (c : UCmp) (m : Option (List Entry)) (k : Bytes) (s : Nat) : Hit :=
  match m with
  | some es => memGet c es k s
  | none => .miss

theorem dbGet_eq_orElse (c : UCmp) (auxm : Option (List Entry)) (aux : Level) (mem : List Entry)
    (frozen : Option (List Entry)) (v : Version) (k : Bytes) (s : Nat) :
    dbGet c auxm aux mem frozen v k s =
      (optMemGet c auxm k s).orElse ((memGet c mem k s).orElse ((optMemGet c frozen k s).orElse
        (versionGet c aux v k s))) := by
  unfold dbGet
  cases auxm <;> cases frozen <;> rfl

theorem orElse_hitOf (o : Option Entry) (next : Hit) :
    (hitOf o).orElse next = match o with | some e => e.hit | none => next := by
  cases o with
  | none => rfl
  | some e =>
    simp only [hitOf]
    have := e.hit_ne_miss
    cases h : e.hit <;> simp_all [Hit.orElse]

section lookup
variable {c : UCmp} (hl : LawfulUCmp c)
include hl

/-! ## one sorted list -/

theorem probeList_eq_newest (es : List Entry) (hs : ESorted c es) (hk : KindsOK es) (k : Bytes) (s : Nat) :
    probeList c es k s = newest c es k s := by
  induction es with
  | nil => rfl
  | cons x xs ih =>
    obtain ⟨hx, hxs⟩ := List.pairwise_cons.1 hs
    have hkx : x.kind ≤ Gen.keyTypeVal := hk x (by simp)
    have ih' := ih hxs (fun e he => hk e (List.mem_cons_of_mem _ he))
    rw [newest_cons]
    by_cases hp : (icmp c x.key (probe k s) != .lt) = true
    · have hseek : seekEntry c (x :: xs) (probe k s) = some x := by
        simp only [seekEntry, List.find?_cons, hp]
      rcases (not_lt_probe_iff hl x hkx k s).1 hp with hgt | ⟨hxk, hxs'⟩
      · -- landed on a larger user key: nothing of `k` here or later
        have hne : c.cmp k x.ukey ≠ .eq := by
          intro h; rw [(ucmp_eq_iff hl _ _).1 h] at hgt; exact ult_irrefl hl _ hgt
        have hnx : ¬ Matches c k s x := by
          intro hm; rw [((matches_iff hl k s x).1 hm).1] at hgt; exact ult_irrefl hl _ hgt
        have hrest : newest c xs k s = none := by
          rw [newest_eq_none_iff]
          intro e he hm
          have h1 := ecmp_ule hl (hx e he)
          rw [((matches_iff hl k s e).1 hm).1] at h1
          exact ult_irrefl hl _ (ult_of_ult_of_ule hl hgt h1)
        simp only [probeList, hseek, if_neg hne, cand_of_not_matches hnx, hrest, pickNewer_none_left]
      · have hm : Matches c k s x := (matches_iff hl k s x).2 ⟨hxk, hxs'⟩
        have heq : c.cmp k x.ukey = .eq := (ucmp_eq_iff hl _ _).2 hxk.symm
        simp only [probeList, hseek, if_pos heq, cand_of_matches hm]
        cases hn : newest c xs k s with
        | none => rfl
        | some y =>
          have hy := hx y (newest_mem hn)
          have hyk := ((matches_iff hl k s y).1 (newest_matches hn)).1
          rcases (ecmp_lt_iff hl x y).1 hy with h | ⟨_, h⟩
          · rw [hxk, hyk] at h; exact absurd h (ult_irrefl hl _)
          · show some x = if _ then _ else _
            rw [if_neg (by omega)]
    · have hp' : (icmp c x.key (probe k s) != .lt) = false := by simpa using hp
      have hlt : icmp c x.key (probe k s) = .lt := by simpa using hp
      have hnx : ¬ Matches c k s x := by
        intro hm
        obtain ⟨h1, h2⟩ := (matches_iff hl k s x).1 hm
        rcases (lt_probe_iff hl x hkx k s).1 hlt with h | ⟨_, h⟩
        · rw [h1] at h; exact ult_irrefl hl _ h
        · omega
      have hseek : seekEntry c (x :: xs) (probe k s) = seekEntry c xs (probe k s) := by
        simp only [seekEntry, List.find?_cons, hp']
      rw [cand_of_not_matches hnx, pickNewer_none_left, ← ih']
      simp only [probeList, hseek]

/-- `db.memGet` reports the newest entry of `k` at or below `s` -/
theorem memGet_eq (mem : List Entry) (hs : ESorted c mem) (hk : KindsOK mem) (k : Bytes) (s : Nat) :
    memGet c mem k s = hitOf (newest c mem k s) := by
  rw [← probeList_eq_newest hl mem hs hk]
  unfold memGet probeList
  cases seekEntry c mem (probe k s) with
  | none => rfl
  | some e =>
    by_cases h : c.cmp e.ukey k = .eq
    · have h' := (cmp_eq_comm hl _ _).1 h
      simp [h, h', hitOf]
    · have h' : ¬ c.cmp k e.ukey = .eq := fun h' => h ((cmp_eq_comm hl _ _).1 h')
      simp [h, h', hitOf]

/-! ## well-formed tables -/

omit hl in
theorem Table.wfB_parts {t : Table} (h : t.wfB c = true) :
    sortedB c t.entries = true ∧
    (∃ f l, t.entries.head? = some f ∧ t.entries.getLast? = some l ∧ f.key = t.imin ∧ l.key = t.imax) ∧
    KindsOK t.entries := by
  simp only [Table.wfB, Bool.and_eq_true, List.all_eq_true, decide_eq_true_eq] at h
  obtain ⟨⟨h1, h2⟩, h3⟩ := h
  refine ⟨h1, ?_, h3⟩
  cases hf : t.entries.head? with
  | none => simp [hf] at h2
  | some f =>
    cases hla : t.entries.getLast? with
    | none => simp [hf, hla] at h2
    | some l =>
      simp only [hf, hla, Bool.and_eq_true, decide_eq_true_eq] at h2
      exact ⟨f, l, rfl, rfl, h2.1, h2.2⟩

theorem Table.wf_sorted {t : Table} (h : t.wfB c = true) : ESorted c t.entries :=
  (sortedB_iff hl _).1 (Table.wfB_parts h).1

omit hl in
theorem Table.wf_kinds {t : Table} (h : t.wfB c = true) : KindsOK t.entries := (Table.wfB_parts h).2.2

omit hl in
theorem Table.wf_ne_nil {t : Table} (h : t.wfB c = true) : t.entries ≠ [] := by
  obtain ⟨f, l, hf, -⟩ := (Table.wfB_parts h).2.1
  intro h'; rw [h'] at hf; cases hf

/-- every entry of a well-formed table has its user key within the recorded bounds -/
theorem Table.wf_bounds {t : Table} (h : t.wfB c = true) :
    ∀ e ∈ t.entries, c.le t.imin.ukey e.ukey ∧ c.le e.ukey t.imax.ukey := by
  obtain ⟨f, l, hf, hla, hfk, hlk⟩ := (Table.wfB_parts h).2.1
  have hs := Table.wf_sorted hl h
  intro e he
  constructor
  · cases hte : t.entries with
    | nil => rw [hte] at he; cases he
    | cons x xs =>
      rw [hte] at hs he hf
      have : x = f := by simpa using hf
      subst this
      rw [← hfk]; exact ESorted.head_ule hl hs e he
  · rw [← hlk]; exact ESorted.ule_getLast hl hs hla e he

theorem Table.wf_imin_le_imax {t : Table} (h : t.wfB c = true) : c.le t.imin.ukey t.imax.ukey := by
  obtain ⟨f, l, hf, -⟩ := (Table.wfB_parts h).2.1
  have hmem : f ∈ t.entries := List.mem_of_head? hf
  have := Table.wf_bounds hl h f hmem
  exact ule_trans hl this.1 this.2

/-- the recorded `imax` is the key of a member, and every member is at or below it under `icmp` -/
theorem Table.wf_imax {t : Table} (h : t.wfB c = true) :
    (∃ l ∈ t.entries, l.key = t.imax) ∧ ∀ e ∈ t.entries, icmp c e.key t.imax ≠ .gt := by
  obtain ⟨f, l, hf, hla, hfk, hlk⟩ := (Table.wfB_parts h).2.1
  have hs := Table.wf_sorted hl h
  refine ⟨⟨l, List.mem_of_getLast? hla, hlk⟩, ?_⟩
  obtain ⟨ys, hys⟩ := List.getLast?_eq_some_iff.1 hla
  intro e he
  rw [hys] at he hs
  rw [← hlk]
  rcases List.mem_append.1 he with h1 | h1
  · have : icmp c e.key l.key = .lt := (List.pairwise_append.1 hs).2.2 e h1 l (by simp)
    rw [this]; exact fun h => Ordering.noConfusion h
  · have : e = l := by simpa using h1
    subst this
    rw [(icmp_eq_iff hl e.key e.key).2 rfl]; exact fun h => Ordering.noConfusion h

omit hl in
theorem Table.wf_imin_mem {t : Table} (h : t.wfB c = true) : ∃ f ∈ t.entries, f.key = t.imin := by
  obtain ⟨f, l, hf, hla, hfk, hlk⟩ := (Table.wfB_parts h).2.1
  exact ⟨f, List.mem_of_head? hf, hfk⟩

/-- the pre-filter `t.overlaps(icmp, ukey, ukey)` never hides a table that holds the key -/
theorem Table.overlapsKey_of_mem {t : Table} (h : t.wfB c = true) {e : Entry} (he : e ∈ t.entries) :
    t.overlapsKey c e.ukey = true := by
  have := Table.wf_bounds hl h e he
  simp only [Table.overlapsKey, Bool.and_eq_true]
  exact ⟨(bne_gt_iff _ _).2 this.2, (bne_lt_iff hl _ _).2 this.1⟩

/-- one table of level 0 / aux as `walkOverlapping` + `get` treat it -/
theorem l0_table {t : Table} (h : t.wfB c = true) (k : Bytes) (s : Nat) :
    (if t.overlapsKey c k then tableProbe c t k s else none) = newest c t.entries k s := by
  split
  · rw [tableProbe_eq, probeList_eq_newest hl _ (Table.wf_sorted hl h) (Table.wf_kinds h)]
  · rename_i hov
    symm
    rw [newest_eq_none_iff]
    intro e he hm
    have := Table.overlapsKey_of_mem hl h he
    rw [((matches_iff hl k s e).1 hm).1] at this
    exact hov this

/-! ## level 0 and auxiliary tables -/

/-- the `fseq >= zseq` rule -/
def pickLater (best r : Option Entry) : Option Entry :=
  match r with
  | some e =>
    match best with
    | some b => if e.seq ≥ b.seq then some e else best
    | none => some e
  | none => best

omit hl in
theorem l0Get_eq_foldl (tables : Level) (k : Bytes) (s : Nat) :
    l0Get c tables k s =
      tables.foldl (fun best t => pickLater best (if t.overlapsKey c k then tableProbe c t k s else none)) none := by
  unfold l0Get
  congr 1
  funext best t
  by_cases hov : t.overlapsKey c k = true
  · simp only [hov, if_true]
    cases tableProbe c t k s <;> cases best <;> rfl
  · simp only [hov]
    cases best <;> rfl

omit hl in
theorem pickLater_eq_pickNewer (a b : Option Entry)
    (h : ∀ x y, a = some x → b = some y → (x.seq = y.seq → x = y)) : pickLater a b = pickNewer a b := by
  cases a with
  | none => cases b <;> rfl
  | some x =>
    cases b with
    | none => rfl
    | some y =>
      simp only [pickLater, pickNewer]
      have h' := h x y rfl rfl
      by_cases hxy : x.seq = y.seq
      · have := h' hxy; subst this
        simp
      · by_cases hge : y.seq ≥ x.seq
        · have : x.seq < y.seq := by omega
          have := Entry.num_lt_of_seq_lt this
          rw [if_pos hge, if_pos (by omega)]
        · have : y.seq < x.seq := by omega
          have := Entry.num_lt_of_seq_lt this
          rw [if_neg hge, if_neg (by omega)]

theorem l0_foldl (E : List Entry) (hu : UniqSeq E) (k : Bytes) (s : Nat) (tables : Level)
    (hwf : ∀ t ∈ tables, t.wfB c = true) (hsub : ∀ e ∈ Level.entries tables, e ∈ E)
    (best : Option Entry) (hbest : ∀ b, best = some b → b ∈ E ∧ Matches c k s b) :
    tables.foldl (fun best t => pickLater best (if t.overlapsKey c k then tableProbe c t k s else none)) best
      = pickNewer best (newest c (Level.entries tables) k s) := by
  induction tables generalizing best with
  | nil => simp [Level.entries, newest_nil]
  | cons t ts ih =>
    have hsubt : ∀ e ∈ t.entries, e ∈ E := fun e he => hsub e (by simp [Level.entries, he])
    have hsubts : ∀ e ∈ Level.entries ts, e ∈ E := fun e he => hsub e (by
      simp only [Level.entries, List.flatMap_cons, List.mem_append] at he ⊢; exact .inr he)
    rw [List.foldl_cons, l0_table hl (hwf t (by simp))]
    have hpl : pickLater best (newest c t.entries k s) = pickNewer best (newest c t.entries k s) := by
      apply pickLater_eq_pickNewer
      intro x y hx hy hseq
      obtain ⟨hxE, hxm⟩ := hbest x hx
      have hym := newest_matches hy
      have hyE := hsubt y (newest_mem hy)
      exact hu x hxE y hyE
        (((matches_iff hl k s x).1 hxm).1.trans ((matches_iff hl k s y).1 hym).1.symm) hseq
    rw [hpl, ih (fun t' ht' => hwf t' (List.mem_cons_of_mem _ ht')) hsubts, pickNewer_assoc]
    · congr 1
      show _ = newest c (Level.entries (t :: ts)) k s
      simp only [Level.entries, List.flatMap_cons]
      rw [newest_append]
    · intro b hb
      rcases pickNewer_some hb with ⟨h1, _⟩ | ⟨h1, _⟩
      · exact hbest b h1
      · exact ⟨hsubt b (newest_mem h1), newest_matches h1⟩

/-- level-0 / aux rule = newest over all the tables' entries -/
theorem l0Get_eq (tables : Level) (hwf : ∀ t ∈ tables, t.wfB c = true)
    (hu : UniqSeq (Level.entries tables)) (k : Bytes) (s : Nat) :
    l0Get c tables k s = newest c (Level.entries tables) k s := by
  rw [l0Get_eq_foldl, l0_foldl hl _ hu k s tables hwf (fun _ h => h) none (by simp)]
  rfl

/-! ## levels ≥ 1 -/

/-- table `a` lies entirely before table `b` in user-key order -/
def tlt (c : UCmp) (a b : Table) : Prop := c.lt a.imax.ukey b.imin.ukey

theorem levelDisjoint_pairwise (l : Level) (hwf : ∀ t ∈ l, c.le t.imin.ukey t.imax.ukey) :
    levelDisjointB c l = true ↔ l.Pairwise (tlt c) := by
  induction l with
  | nil => simp [levelDisjointB]
  | cons a rest ih =>
    cases rest with
    | nil => simp [levelDisjointB]
    | cons b rest =>
      have ih' := ih (fun t ht => hwf t (List.mem_cons_of_mem _ ht))
      simp only [levelDisjointB, Bool.and_eq_true, decide_eq_true_eq, ih']
      constructor
      · rintro ⟨hab, hbr⟩
        refine List.pairwise_cons.2 ⟨?_, hbr⟩
        intro x hx
        rcases List.mem_cons.1 hx with rfl | hx
        · exact hab
        · have hbx : tlt c b x := (List.pairwise_cons.1 hbr).1 x hx
          exact ult_trans hl hab (ult_of_ule_of_ult hl (hwf b (by simp)) hbx)
      · intro h
        obtain ⟨ha, hbr⟩ := List.pairwise_cons.1 h
        exact ⟨ha b (by simp), hbr⟩

/-- the concatenated entries of a disjoint level of well-formed tables are sorted -/
theorem Level.entries_sorted (l : Level) (hwf : ∀ t ∈ l, t.wfB c = true) (hd : levelDisjointB c l = true) :
    ESorted c (Level.entries l) := by
  have hp := (levelDisjoint_pairwise hl l (fun t ht => Table.wf_imin_le_imax hl (hwf t ht))).1 hd
  clear hd
  induction l with
  | nil => exact List.Pairwise.nil
  | cons t ts ih =>
    obtain ⟨ht, hts⟩ := List.pairwise_cons.1 hp
    simp only [Level.entries, List.flatMap_cons]
    refine List.pairwise_append.2 ⟨Table.wf_sorted hl (hwf t (by simp)),
      ih (fun t' ht' => hwf t' (List.mem_cons_of_mem _ ht')) hts, ?_⟩
    intro a ha b hb
    obtain ⟨t', ht', hbt'⟩ := List.mem_flatMap.1 hb
    have h1 := (Table.wf_bounds hl (hwf t (by simp)) a ha).2
    have h2 := (Table.wf_bounds hl (hwf t' (List.mem_cons_of_mem _ ht')) b hbt').1
    have h3 : tlt c t t' := ht t' ht'
    exact (ecmp_lt_iff hl a b).2 (.inl (ult_of_ult_of_ule hl (ult_of_ule_of_ult hl h1 h3) h2))

omit hl in
theorem Level.entries_kinds (l : Level) (hwf : ∀ t ∈ l, t.wfB c = true) : KindsOK (Level.entries l) := by
  intro e he
  obtain ⟨t, ht, het⟩ := List.mem_flatMap.1 he
  exact Table.wf_kinds (hwf t ht) e het

/-- `searchMax` + the `imin` test + the table seek = one seek over the whole level -/
theorem levelGet_eq_probeList (l : Level) (hwf : ∀ t ∈ l, t.wfB c = true) (k : Bytes) (s : Nat) :
    levelGet c l k s = probeList c (Level.entries l) k s := by
  induction l with
  | nil => rfl
  | cons t ts ih =>
    have hwt := hwf t (by simp)
    have ih' := ih (fun t' ht' => hwf t' (List.mem_cons_of_mem _ ht'))
    obtain ⟨⟨la, hla, hlk⟩, hle⟩ := Table.wf_imax hl hwt
    by_cases hp : (icmp c t.imax (probe k s) != .lt) = true
    · have hsm : searchMax c (t :: ts) (probe k s) = some t := by
        simp only [searchMax, List.find?_cons, hp]
      -- the seek over the level ends inside `t`
      have hfind : ∃ e, seekEntry c t.entries (probe k s) = some e := by
        cases hf : seekEntry c t.entries (probe k s) with
        | some e => exact ⟨e, rfl⟩
        | none =>
          simp only [seekEntry, List.find?_eq_none] at hf
          have := hf la hla
          rw [hlk] at this; exact absurd hp this
      obtain ⟨e, he⟩ := hfind
      have hseek : seekEntry c (Level.entries (t :: ts)) (probe k s) = some e := by
        simp only [Level.entries, List.flatMap_cons, seekEntry, List.find?_append] at he ⊢
        rw [he]; rfl
      have hemem : e ∈ t.entries := by
        simp only [seekEntry] at he; exact List.mem_of_find?_eq_some he
      simp only [levelGet, hsm, tableProbe_eq, probeList, hseek, he]
      by_cases hmin : (c.cmp k t.imin.ukey != .lt) = true
      · simp only [hmin, if_true]
      · simp only [hmin]
        have hlt : c.lt k t.imin.ukey := by simpa [UCmp.lt] using hmin
        have := ult_of_ult_of_ule hl hlt (Table.wf_bounds hl hwt e hemem).1
        have hne : ¬ c.cmp k e.ukey = .eq := by
          intro h; rw [(ucmp_eq_iff hl _ _).1 h] at this; exact ult_irrefl hl _ this
        simp [hne]
    · have hp' : (icmp c t.imax (probe k s) != .lt) = false := by simpa using hp
      have hlt : icmp c t.imax (probe k s) = .lt := by simpa using hp
      have hsm : searchMax c (t :: ts) (probe k s) = searchMax c ts (probe k s) := by
        simp only [searchMax, List.find?_cons, hp']
      have hnone : seekEntry c t.entries (probe k s) = none := by
        simp only [seekEntry, List.find?_eq_none]
        intro e he
        have := icmp_lt_of_le_of_lt hl _ _ _ (hle e he) hlt
        simp [this]
      have hseek : seekEntry c (Level.entries (t :: ts)) (probe k s)
          = seekEntry c (Level.entries ts) (probe k s) := by
        simp only [Level.entries, List.flatMap_cons, seekEntry, List.find?_append] at hnone ⊢
        rw [hnone]; rfl
      have : levelGet c (t :: ts) k s = levelGet c ts k s := by
        simp only [levelGet, hsm]
      rw [this, ih']
      simp only [probeList, hseek]

/-- level ≥ 1 rule = newest over the level's entries -/
theorem levelGet_eq (l : Level) (hwf : ∀ t ∈ l, t.wfB c = true) (hd : levelDisjointB c l = true)
    (k : Bytes) (s : Nat) : levelGet c l k s = newest c (Level.entries l) k s := by
  rw [levelGet_eq_probeList hl l hwf,
    probeList_eq_newest hl _ (Level.entries_sorted hl l hwf hd) (Level.entries_kinds l hwf)]

/-! ## the version -/

omit hl in
theorem deeperGet_eq_findSome (ls : List Level) (k : Bytes) (s : Nat) :
    deeperGet c ls k s = hitOf (ls.findSome? (fun l => levelGet c l k s)) := by
  induction ls with
  | nil => rfl
  | cons l ls ih =>
    simp only [deeperGet, List.findSome?_cons]
    cases levelGet c l k s with
    | none => exact ih
    | some e => rfl

/-- all entries of a version, shallowest level first -/
def Version.entries (v : Version) : List Entry := v.levels.flatMap Level.entries

omit hl in
theorem Version.wfB_parts {v : Version} (h : v.wfB c = true) :
    (∀ l ∈ v.levels, ∀ t ∈ l, t.wfB c = true) ∧ (∀ l ∈ v.levels.drop 1, levelDisjointB c l = true) ∧
    levelsOrderedB c v.levels = true := by
  simp only [Version.wfB, Bool.and_eq_true, List.all_eq_true] at h
  exact ⟨h.1.1, h.1.2, h.2⟩

theorem levelsOrdered_pairwise (ls : List Level) :
    levelsOrderedB c ls = true ↔ (ls.map Level.entries).Pairwise NewerThan := by
  induction ls with
  | nil => simp [levelsOrderedB]
  | cons l ls ih =>
    simp only [levelsOrderedB, Bool.and_eq_true, List.all_eq_true, ih, List.map_cons, List.pairwise_cons,
      List.mem_map, forall_exists_index, and_imp, forall_apply_eq_imp_iff₂, newerThanB_iff hl]

theorem deeper_eq (ls : List Level) (hwf : ∀ l ∈ ls, ∀ t ∈ l, t.wfB c = true)
    (hd : ∀ l ∈ ls, levelDisjointB c l = true) (k : Bytes) (s : Nat) :
    ls.findSome? (fun l => levelGet c l k s) = (ls.map Level.entries).findSome? (fun S => newest c S k s) := by
  induction ls with
  | nil => rfl
  | cons l ls ih =>
    rw [List.map_cons, List.findSome?_cons, List.findSome?_cons,
      levelGet_eq hl l (hwf l (by simp)) (hd l (by simp)),
      ih (fun l' hl' => hwf l' (List.mem_cons_of_mem _ hl')) (fun l' hl' => hd l' (List.mem_cons_of_mem _ hl'))]

/-- `version.get` without auxiliary tables, as an `Option Entry` -/
theorem version_levels_eq (v : Version) (hwf : v.wfB c = true)
    (hu0 : UniqSeq (Level.entries (v.levels.headD []))) (k : Bytes) (s : Nat) :
    (match v.levels with
      | [] => none
      | l0 :: rest => (l0Get c l0 k s).or (rest.findSome? (fun l => levelGet c l k s)))
      = newest c v.entries k s := by
  obtain ⟨h1, h2, h3⟩ := Version.wfB_parts hwf
  have hp := (levelsOrdered_pairwise hl v.levels).1 h3
  have : v.entries = (v.levels.map Level.entries).flatten := by
    simp [Version.entries, List.flatMap_def]
  rw [this, newest_flatten_of_newer hl _ hp]
  cases hv : v.levels with
  | nil => rfl
  | cons l0 rest =>
    rw [hv] at h1 h2 hu0
    simp only [List.drop_succ_cons, List.drop_zero] at h2
    simp only [List.headD_cons] at hu0
    show (l0Get c l0 k s).or _ = _
    rw [List.map_cons, List.findSome?_cons, l0Get_eq hl l0 (h1 l0 (by simp)) hu0,
      deeper_eq hl rest (fun l hl' => h1 l (List.mem_cons_of_mem _ hl')) h2]
    cases newest c (Level.entries l0) k s <;> rfl

/-- **`version.get`** returns the newest entry among the auxiliary tables and the version -/
theorem versionGet_eq (aux : Level) (v : Version) (hauxwf : ∀ t ∈ aux, t.wfB c = true)
    (hauxu : UniqSeq (Level.entries aux)) (hwf : v.wfB c = true)
    (hu0 : UniqSeq (Level.entries (v.levels.headD [])))
    (hord : NewerThan (Level.entries aux) v.entries) (k : Bytes) (s : Nat) :
    versionGet c aux v k s = hitOf (newest c (Level.entries aux ++ v.entries) k s) := by
  rw [newest_append_of_newer hl _ _ hord, ← version_levels_eq hl v hwf hu0, ← l0Get_eq hl aux hauxwf hauxu,
    hitOf_or]
  unfold versionGet
  cases l0Get c aux k s with
  | some e => rfl
  | none =>
    cases v.levels with
    | nil => rfl
    | cons l0 rest =>
      simp only [hitOf_or, deeperGet_eq_findSome]
      rfl

/-- everything `DB.get` searches, in search order -/
def dbEntries (auxm : Option (List Entry)) (aux : Level) (mem : List Entry) (frozen : Option (List Entry))
    (v : Version) : List Entry :=
  auxm.getD [] ++ (mem ++ (frozen.getD [] ++ (Level.entries aux ++ v.entries)))

/-- **`DB.get`** returns the newest entry of everything it searches -/
theorem dbGet_eq (auxm : Option (List Entry)) (aux : Level) (mem : List Entry) (frozen : Option (List Entry))
    (v : Version)
    (hauxm : ESorted c (auxm.getD []) ∧ KindsOK (auxm.getD []))
    (hmem : ESorted c mem ∧ KindsOK mem)
    (hfrozen : ESorted c (frozen.getD []) ∧ KindsOK (frozen.getD []))
    (hauxwf : ∀ t ∈ aux, t.wfB c = true) (hauxu : UniqSeq (Level.entries aux))
    (hwf : v.wfB c = true) (hu0 : UniqSeq (Level.entries (v.levels.headD [])))
    (ho1 : NewerThan (auxm.getD []) (mem ++ (frozen.getD [] ++ (Level.entries aux ++ v.entries))))
    (ho2 : NewerThan mem (frozen.getD [] ++ (Level.entries aux ++ v.entries)))
    (ho3 : NewerThan (frozen.getD []) (Level.entries aux ++ v.entries))
    (ho4 : NewerThan (Level.entries aux) v.entries) (k : Bytes) (s : Nat) :
    dbGet c auxm aux mem frozen v k s = hitOf (newest c (dbEntries auxm aux mem frozen v) k s) := by
  unfold dbEntries
  rw [newest_append_of_newer hl _ _ ho1, newest_append_of_newer hl _ _ ho2,
    newest_append_of_newer hl _ _ ho3, hitOf_or, hitOf_or, hitOf_or,
    ← versionGet_eq hl aux v hauxwf hauxu hwf hu0 ho4]
  rw [dbGet_eq_orElse]
  have hopt : ∀ m : Option (List Entry), ESorted c (m.getD []) ∧ KindsOK (m.getD []) →
      optMemGet c m k s = hitOf (newest c (m.getD []) k s) := by
    intro m hm
    cases m with
    | none => rfl
    | some es => exact memGet_eq hl es hm.1 hm.2 k s
  rw [hopt auxm hauxm, hopt frozen hfrozen, memGet_eq hl mem hmem.1 hmem.2, orElse_hitOf, orElse_hitOf,
    orElse_hitOf]

end lookup

end GoLevel
