import GoLevel.Proofs.CacheLocksMeasure
/-! The lock-level cache system (C17), part 8: the readers a pending `Close` waits for DRAIN.  `Phi l ls` is the
total weight of the instructions the threads that hold read lock `l` still have to execute.  While a writer is
announced on `mu` (and on `l`), no step of any thread increases it, every holder can move, and a holder's step
decreases it: under weak fairness the readers leave and `Close` gets its lock. -/
namespace GoLevel.CacheL
open GoLevel.CacheM

set_option linter.unusedSimpArgs false

/-- A thread that holds a read lock can move, provided `unrefMu` has no writer or the thread holds `unrefMu`. -/
theorem holder_enabled {ls : LSys} (hr : LReachable ls) (huum : ls.unrefUsesMu = false) {l : LockId} {t : Nat}
    {th : LThread} (hth : ls.tl[t]? = some th) (hl : l ∈ th.held)
    (hun : ls.un.writer = none ∨ LockId.un ∈ th.held) :
    ∃ i rest b', ls.base.threads[t]? = some (i :: rest) ∧ isCloseLock i = false ∧ isEnter i = false ∧
      th.phase = .idle ∧ sysStep false ls.base (.step t) = some b' ∧
      lstepThread ls t = some (afterBase ls t th i b') := by
  have hI := linv_reachable hr huum
  have hb := lreachable_base hr
  have hwc2 := wc2_reachable hb
  have hlt := (List.getElem?_eq_some_iff.mp hth).1
  rw [hI.len] at hlt
  have hT : ls.base.threads[t]? = some ls.base.threads[t] := List.getElem?_eq_getElem hlt
  generalize ls.base.threads[t] = T at hT
  have hp : th.phase = .idle := by
    cases hph : th.phase <;> first | rfl | (
      have := (hI.k3 t th T hth hT (by rw [hph]; simp)).1
      rw [this] at hl; cases hl)
  have hk1 := hI.k1 t th T hth hT
  have hlen : 0 < th.held.length := List.length_pos_of_mem hl
  cases T with
  | nil => simp at hk1; simp [hk1] at hlen
  | cons i rest =>
    have hTm : (i :: rest) ∈ ls.base.threads := List.mem_of_getElem? hT
    have hplain : ∀ j ∈ i :: rest, isCloseLock j = false ∧ isEnter j = false := by
      rcases hwc2 _ hTm with ⟨f, hf⟩ | ⟨c, hc⟩ | hpl
      · rw [hf] at hk1; simp at hk1; simp [hk1] at hlen
      · rw [hc] at hk1; simp at hk1; simp [hk1] at hlen
      · exact hpl
    have hi := hplain i List.mem_cons_self
    have hen : enterOK i = true := by cases i <;> simp_all [isEnter, enterOK]
    have hfree : ∀ l', rlockOf ls i = some l' → (ls.lock l').writer = none := by
      intro l' hl'
      rcases rlockOf_cases (i := i) huum with ⟨h1, _⟩ | ⟨_, h1, _⟩ | ⟨h1, hex, _⟩
      · rw [h1] at hl'; cases hl'
      · rw [hi.2] at h1; cases h1
      · rw [h1] at hl'; injection hl' with hl'; subst hl'
        rcases hun with hun | hun
        · exact hun
        · exfalso
          obtain ⟨_, hsh⟩ := hI.k6 t th _ hth hT hun
          rcases unShape_head hsh with h2 | ⟨h2, _⟩
          · cases i <;> simp_all [isRunlock, isExtz]
          · rcases h2 with ⟨k, rfl⟩ | ⟨id, f, rfl⟩ <;> simp [isExtz] at hex
    obtain ⟨b', hb'⟩ := sysStep_enabled hT (exec_total ls.base.sh hi.1 hen)
    refine ⟨i, rest, b', hT, hi.1, hi.2, hp, hb', ?_⟩
    unfold lstepThread
    simp only [hth, hT, hp]
    have hnb : ¬ blocked ls i = true := by
      unfold blocked
      cases hro : rlockOf ls i with
      | none => simp
      | some l => simp [hfree l hro]
    cases i <;> first | (simp [isCloseLock] at hi; done) | (simp only []; rw [if_neg hnb, hb'])

/-- Bound on the length of the LRU list plus the `Promote`s still to come. -/
def bnd (b : Sys) : Nat := b.sh.lru.recent.length + (pending b).countP promoteLike

/-- Work left for thread `t` if it holds read lock `l`. -/
def phiAt (l : LockId) (ls : LSys) (B : Nat) (t : Nat) : Nat :=
  if l ∈ (ls.tl[t]?.getD { held := [], phase := .idle }).held then tw B (ls.base.threads[t]?.getD []) else 0

theorem phiAt_eq {l : LockId} {ls : LSys} {B t : Nat} {th : LThread} {T : List Instr}
    (hth : ls.tl[t]? = some th) (hT : ls.base.threads[t]? = some T) :
    phiAt l ls B t = if l ∈ th.held then tw B T else 0 := by
  simp [phiAt, hth, hT]

theorem phiAt_congr {l : LockId} {ls ls' : LSys} {B j : Nat} (h1 : ls'.tl[j]? = ls.tl[j]?)
    (h2 : ls'.base.threads[j]? = ls.base.threads[j]?) : phiAt l ls' B j = phiAt l ls B j := by
  simp [phiAt, h1, h2]

theorem phiAt_mono {l : LockId} {ls : LSys} {B' B : Nat} (h : B' ≤ B) (j : Nat) :
    phiAt l ls B' j ≤ phiAt l ls B j := by
  unfold phiAt; split
  · exact tw_mono h _
  · exact Nat.le_refl _

/-- Total work left for the holders of read lock `l`. -/
def Phi (l : LockId) (ls : LSys) : Nat := ((List.range ls.tl.length).map (phiAt l ls (bnd ls.base))).sum

theorem sum_le_pointwise {L : List Nat} {f g : Nat → Nat} (h : ∀ j ∈ L, f j ≤ g j) :
    (L.map f).sum ≤ (L.map g).sum := by
  induction L with
  | nil => simp
  | cons a L ih =>
    simp only [List.map_cons, List.sum_cons]
    have := h a List.mem_cons_self
    have := ih (fun j hj => h j (List.mem_cons_of_mem _ hj))
    omega

theorem sum_lt_pointwise {L : List Nat} {f g : Nat → Nat} (h : ∀ j ∈ L, f j ≤ g j) {t : Nat} (ht : t ∈ L)
    (hlt : f t < g t) : (L.map f).sum < (L.map g).sum := by
  induction L with
  | nil => cases ht
  | cons a L ih =>
    simp only [List.map_cons, List.sum_cons]
    have h1 := h a List.mem_cons_self
    have h2 := sum_le_pointwise (fun j hj => h j (List.mem_cons_of_mem _ hj))
    rcases List.mem_cons.mp ht with rfl | ht'
    · omega
    · have := ih (fun j hj => h j (List.mem_cons_of_mem _ hj)) ht'
      omega

theorem countP_set_flatten {ts : List (List Instr)} {t : Nat} {old new : List Instr} (p : Instr → Bool)
    (h : ts[t]? = some old) :
    (ts.set t new).flatten.countP p + old.countP p = ts.flatten.countP p + new.countP p := by
  have := (flatten_set_perm' ts t old new h).countP_eq p
  simp only [List.countP_append] at this
  omega

end GoLevel.CacheL
