import GoLevel.Driver.Cache
import GoLevel.Proofs.CacheTableCount
/-! The driver's `cache …` protocol runs the cache model and the table model side by side (`runInstrsT`): the
cache model's part of the answer is exactly what `runInstrs` (the sequential API of `Model/Cache.lean`) gives,
and the table it carries along is always one `table_refines_map` speaks about (it is only ever changed by
`CacheT.step` from `Table.new`). -/
namespace GoLevel.Driver
open GoLevel GoLevel.CacheM

theorem runInstrsT_cache (f : Nat) (s : Shared) (tb : CacheT.Table) (ok : Bool) (is : List Instr) (evs : List Ev) :
    (runInstrsT f s tb ok is evs).map (fun r => (r.1, r.2.2.2)) = runInstrs f s is evs := by
  induction f generalizing s tb ok is evs with
  | zero => simp [runInstrsT, runInstrs]
  | succ f ih =>
    cases is with
    | nil => simp [runInstrsT, runInstrs]
    | cons i rest =>
      simp only [runInstrsT, runInstrs]
      cases he : exec s i with
      | none => simp
      | some r =>
        obtain ⟨s', push, e⟩ := r
        simp only []
        exact ih _ _ _ _ _

/-- Every table the driver holds was produced from some table by `CacheT.step`s. -/
theorem tableStep_is_steps (tb : CacheT.Table) (sh : Shared) (i : Instr) :
    (tableStep tb sh i).1 = tb ∨ ∃ op, (tableStep tb sh i).1 = (CacheT.step CacheT.cacheHash tb op).1 := by
  cases i <;> simp only [tableStep] <;> first
    | exact Or.inl rfl
    | exact Or.inl trivial
    | (split
       · exact Or.inl rfl
       · exact Or.inr ⟨_, rfl⟩)

end GoLevel.Driver
