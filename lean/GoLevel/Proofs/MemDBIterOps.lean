import GoLevel.Proofs.MemDBIter
/-! Closed forms of the five `dbIter` moves on a table that satisfies the invariant (C14). -/
set_option linter.unusedSectionVars false
set_option linter.unusedSimpArgs false
namespace GoLevel.MemDB

variable {cmp : Cmp}

/-- the keys an iterator over `[start, limit)` ranges over -/
def DB.sliceKeys (cmp : Cmp) (db : DB) (start limit : Option Bytes) : List Bytes :=
  db.level0.filter (inR cmp start limit)

theorem head?_takeWhile' (p : Bytes → Bool) (l : List Bytes) : (l.takeWhile p).head? = l.head?.filter p := by
  cases l with
  | nil => simp
  | cons a as => by_cases h : p a = true <;> simp [List.takeWhile_cons, h, Option.filter]

theorem dropWhile_false (l : List Bytes) : l.dropWhile (fun _ => false) = l := by
  cases l <;> simp [List.dropWhile_cons]

theorem takeWhile_true (l : List Bytes) : l.takeWhile (fun _ => true) = l := by
  induction l with
  | nil => rfl
  | cons a as ih => simp [List.takeWhile_cons, ih]

theorem ps_none : ps cmp none = fun _ => false := rfl
theorem pl_none : pl cmp none = fun _ => true := rfl
theorem ps_some (s : Bytes) : ps cmp (some s) = below cmp s := rfl
theorem pl_some (l : Bytes) : pl cmp (some l) = below cmp l := rfl

theorem dropWhile_eq_self_of_head {p : Bytes → Bool} {l : List Bytes} (h : ∀ x ∈ l, p x = false) :
    l.dropWhile p = l := by
  cases l with
  | nil => rfl
  | cons a as => simp [List.dropWhile_cons, h a (by simp)]

theorem dropWhile_dropWhile_of_imp {p q : Bytes → Bool} (h : ∀ x, p x = true → q x = true) (l : List Bytes) :
    (l.dropWhile p).dropWhile q = l.dropWhile q := by
  induction l with
  | nil => rfl
  | cons a as ih =>
    by_cases ha : p a = true
    · simp [List.dropWhile_cons, ha, h a ha, ih]
    · have : p a = false := by simpa using ha
      simp [List.dropWhile_cons, this]

section
variable (hc : LawfulCmp cmp)
include hc

theorem getLast?_dropWhile_dc {p : Bytes → Bool} (hdc : DC cmp p) {l : List Bytes} (hs : Sorted cmp l) :
    (l.dropWhile p).getLast? = l.getLast?.filter (fun x => !p x) := by
  have hsplit := List.takeWhile_append_dropWhile (p := p) (l := l)
  cases hd : l.dropWhile p with
  | nil =>
    rw [hd, List.append_nil] at hsplit
    cases hl : l.getLast? with
    | none => simp
    | some z =>
      have : z ∈ l.takeWhile p := by rw [hsplit]; exact List.mem_of_getLast? hl
      simp [Option.filter, mem_takeWhile_imp z this]
  | cons y ys =>
    have hz : l.getLast? = (y :: ys).getLast? := by
      conv => lhs; rw [← hsplit, hd]
      rw [List.getLast?_append]
      simp [List.getLast?_cons]
    rw [hz]
    cases hl : (y :: ys).getLast? with
    | none => simp
    | some z =>
      have : z ∈ l.dropWhile p := by rw [hd]; exact List.mem_of_getLast? hl
      simp [Option.filter, dc_not_of_mem_dropWhile hdc hs z this]

theorem takeWhile_below_split {P Q : List Bytes} {k : Bytes} (hs : Sorted cmp (P ++ k :: Q)) :
    (P ++ k :: Q).takeWhile (below cmp k) = P := by
  have hP : ∀ x ∈ P, below cmp k x = true := by
    intro x hx
    simp [below, (List.pairwise_append.1 hs).2.2 x hx k (by simp)]
  rw [List.takeWhile_append_of_pos hP]
  simp [List.takeWhile_cons, below, hc.refl]

/-- decomposition of level 0 around the slice, cut from the left -/
theorem level0_left {db : DB} (h : Inv cmp db) (start limit : Option Bytes) :
    ∃ A C, db.level0 = A ++ db.sliceKeys cmp start limit ++ C ∧
      db.level0.dropWhile (ps cmp start) = db.sliceKeys cmp start limit ++ C ∧
      (∀ x ∈ db.sliceKeys cmp start limit, pl cmp limit x = true) ∧ (∀ x ∈ C, pl cmp limit x = false) := by
  refine ⟨db.level0.takeWhile (ps cmp start), (db.level0.dropWhile (ps cmp start)).dropWhile (pl cmp limit), ?_, ?_, ?_, ?_⟩
  · unfold DB.sliceKeys
    rw [slice_eq_left hc start limit h.sorted0, List.append_assoc, List.takeWhile_append_dropWhile,
      List.takeWhile_append_dropWhile]
  · unfold DB.sliceKeys
    rw [slice_eq_left hc start limit h.sorted0, List.takeWhile_append_dropWhile]
  · unfold DB.sliceKeys
    rw [slice_eq_left hc start limit h.sorted0]
    exact fun x hx => mem_takeWhile_imp x hx
  · exact dc_not_of_mem_dropWhile (dc_pl hc limit) (sorted_dropWhile h.sorted0)

/-- decomposition of level 0 around the slice, cut from the right -/
theorem level0_right {db : DB} (h : Inv cmp db) (start limit : Option Bytes) :
    ∃ A C, db.level0 = A ++ db.sliceKeys cmp start limit ++ C ∧
      db.level0.takeWhile (pl cmp limit) = A ++ db.sliceKeys cmp start limit ∧
      (∀ x ∈ A, ps cmp start x = true) ∧ (∀ x ∈ db.sliceKeys cmp start limit, ps cmp start x = false) := by
  refine ⟨(db.level0.takeWhile (pl cmp limit)).takeWhile (ps cmp start), db.level0.dropWhile (pl cmp limit), ?_, ?_, ?_, ?_⟩
  · unfold DB.sliceKeys
    rw [slice_eq_right hc start limit h.sorted0, List.takeWhile_append_dropWhile,
      List.takeWhile_append_dropWhile]
  · unfold DB.sliceKeys
    rw [slice_eq_right hc start limit h.sorted0, List.takeWhile_append_dropWhile]
  · exact fun x hx => mem_takeWhile_imp x hx
  · unfold DB.sliceKeys
    rw [slice_eq_right hc start limit h.sorted0]
    exact dc_not_of_mem_dropWhile (dc_ps hc start) (sorted_takeWhile h.sorted0)

/-! ## the moves -/

theorem iter_first {db : DB} (h : Inv cmp db) (st lm : Option Bytes) (nd : Node) (fw : Bool) :
    (Iter.mk st lm nd fw).first cmp db = Iter.mk st lm (db.sliceKeys cmp st lm).head? true := by
  unfold DB.sliceKeys
  rw [slice_eq_left hc st lm h.sorted0, head?_takeWhile']
  cases st with
  | none => simp [Iter.first, fill_limit, after, ps_none, dropWhile_false]
  | some s => simp [Iter.first, fill_limit, (findGE_noprev hc h s).1, succ, ps_some]

theorem iter_last {db : DB} (h : Inv cmp db) (st lm : Option Bytes) (nd : Node) (fw : Bool) :
    (Iter.mk st lm nd fw).last cmp db = Iter.mk st lm (db.sliceKeys cmp st lm).getLast? false := by
  unfold DB.sliceKeys
  rw [slice_eq_right hc st lm h.sorted0, getLast?_dropWhile_dc hc (dc_ps hc st) (sorted_takeWhile h.sorted0)]
  cases lm with
  | none => simp [Iter.last, fill_start, findLast_eq hc h, pl_none, takeWhile_true]
  | some l => simp [Iter.last, fill_start, findLT_eq hc h l, pred, pl_some]

/-- the node `Seek` starts from, after clamping the key to the start of the slice -/
theorem seek_cand {db : DB} (h : Inv cmp db) (st : Option Bytes) (key : Bytes) :
    (findGE cmp db (match st with
      | some s => if cmp key s == .lt then s else key
      | none => key) false).node = ((db.level0.dropWhile (ps cmp st)).dropWhile (below cmp key)).head? := by
  cases st with
  | none => simp only [(findGE_noprev hc h key).1, succ, ps_none, dropWhile_false]
  | some s =>
    by_cases hks : cmp key s = .lt
    · simp only [hks, beq_self_eq_true, if_true, (findGE_noprev hc h s).1, succ, ps_some]
      rw [dropWhile_eq_self_of_head (p := below cmp key) (l := db.level0.dropWhile (below cmp s))]
      intro x hx
      have hx' := not_below_of_mem_dropWhile hc h.sorted0 s x hx
      cases hb : below cmp key x with
      | false => rfl
      | true => exact absurd (hc.trans _ _ _ (by simpa [below] using hb) hks) hx'
    · have hks' : (cmp key s == .lt) = false := by simpa using hks
      simp only [hks', ps_some]
      rw [dropWhile_dropWhile_of_imp (p := below cmp s) (q := below cmp key)]
      · simp [(findGE_noprev hc h key).1, succ]
      · intro x hx
        have hxs : cmp x s = .lt := by simpa [below] using hx
        rcases hc.total key s with e | e | e
        · exact absurd e hks
        · subst e; exact hx
        · simp [below, hc.trans _ _ _ hxs e]

theorem iter_seek {db : DB} (h : Inv cmp db) (st lm : Option Bytes) (nd : Node) (fw : Bool) (key : Bytes) :
    (Iter.mk st lm nd fw).seek cmp db key =
      Iter.mk st lm ((db.sliceKeys cmp st lm).find? (fun x => !below cmp key x)) true := by
  obtain ⟨A, C, hL, hR, hS, hC⟩ := level0_left hc h st lm
  have hcand := seek_cand hc h st key
  rw [hR] at hcand
  have hnode : ((db.sliceKeys cmp st lm ++ C).dropWhile (below cmp key)).head?.filter (pl cmp lm) =
      (db.sliceKeys cmp st lm).find? (fun x => !below cmp key x) := by
    rw [← head?_dropWhile_eq_find?, List.dropWhile_append]
    cases hd : (db.sliceKeys cmp st lm).dropWhile (below cmp key) with
    | nil =>
      simp only [List.isEmpty_nil, if_true, List.head?_nil]
      cases hh : (C.dropWhile (below cmp key)).head? with
      | none => rfl
      | some y =>
        have : y ∈ C := (List.dropWhile_sublist _).subset (List.mem_of_mem_head? hh)
        simp [Option.filter, hC y this]
    | cons y ys =>
      have : y ∈ db.sliceKeys cmp st lm := (List.dropWhile_sublist _).subset (hd ▸ List.mem_cons_self)
      simp [Option.filter, hS y this]
  rw [← hnode, ← hcand]
  cases st <;> simp [Iter.seek, fill_limit]

theorem iter_next_at {db : DB} (h : Inv cmp db) (st lm : Option Bytes) (fw : Bool) {k : Bytes} {S1 S2 : List Bytes}
    (hS : db.sliceKeys cmp st lm = S1 ++ k :: S2) :
    (Iter.mk st lm (some k) fw).next cmp db = Iter.mk st lm S2.head? true := by
  obtain ⟨A, C, hL, _, hpl, hC⟩ := level0_left hc h st lm
  have hL' : db.level0 = (A ++ S1) ++ k :: (S2 ++ C) := by rw [hL, hS]; simp
  have hne := sorted_concat_ne hc (hL' ▸ h.sorted0)
  unfold Iter.next
  simp only [fill_limit]
  rw [hL', after_append hne]
  congr 1
  cases S2 with
  | nil =>
    cases C with
    | nil => rfl
    | cons c cs => simp [Option.filter, hC c (by simp)]
  | cons y ys =>
    have : y ∈ db.sliceKeys cmp st lm := by rw [hS]; simp
    simp [Option.filter, hpl y this]

theorem iter_prev_at {db : DB} (h : Inv cmp db) (st lm : Option Bytes) (fw : Bool) {k : Bytes} {S1 S2 : List Bytes}
    (hS : db.sliceKeys cmp st lm = S1 ++ k :: S2) :
    (Iter.mk st lm (some k) fw).prev cmp db = Iter.mk st lm S1.getLast? false := by
  obtain ⟨A, C, hL, _, hA, hps⟩ := level0_right hc h st lm
  have hL' : db.level0 = (A ++ S1) ++ k :: (S2 ++ C) := by rw [hL, hS]; simp
  unfold Iter.prev
  simp only [fill_start, findLT_eq hc h k, pred]
  rw [hL', takeWhile_below_split hc (hL' ▸ h.sorted0)]
  congr 1
  rw [List.getLast?_append]
  cases hl : S1.getLast? with
  | none =>
    cases ha : A.getLast? with
    | none => rfl
    | some a => simp [Option.filter, hA a (List.mem_of_getLast? ha)]
  | some z =>
    have : z ∈ db.sliceKeys cmp st lm := by rw [hS]; simp [List.mem_of_getLast? hl]
    simp [Option.filter, hps z this]

end

end GoLevel.MemDB
