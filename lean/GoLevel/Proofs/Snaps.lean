import GoLevel.Model.Snaps
/-!
# The snapshot list represents the multiset of live acquisitions; it never panics; `minSeq` is their minimum
-/
namespace GoLevel.Snaps

theorem refOf_zero_of_lt : ∀ (r : SList) (s : Nat), (∀ x ∈ r, s < x.seq) → refOf r s = 0 := by
  intro r
  induction r with
  | nil => intro s _; rfl
  | cons e r ih =>
    intro s h
    have h1 := h e List.mem_cons_self
    simp only [refOf]
    rw [if_neg (by omega)]
    exact ih s (fun x hx => h x (List.mem_cons_of_mem _ hx))

theorem refOf_pos_mem : ∀ (l : SList) (s : Nat), 0 < refOf l s → ∃ x ∈ l, x.seq = s := by
  intro l
  induction l with
  | nil => intro s h; simp [refOf] at h
  | cons e r ih =>
    intro s h
    simp only [refOf] at h
    by_cases he : e.seq = s
    · exact ⟨e, List.mem_cons_self, he⟩
    · rw [if_neg he] at h
      obtain ⟨x, hx, hs⟩ := ih s h
      exact ⟨x, List.mem_cons_of_mem _ hx, hs⟩

theorem Wf.tail {e : Elem} {r : SList} (h : Wf (e :: r)) : Wf r :=
  ⟨(List.pairwise_cons.1 h.1).2, fun x hx => h.2 x (List.mem_cons_of_mem _ hx)⟩

theorem Wf.head_lt {e : Elem} {r : SList} (h : Wf (e :: r)) : ∀ x ∈ r, e.seq < x.seq :=
  (List.pairwise_cons.1 h.1).1

theorem refOf_mem : ∀ (l : SList), Wf l → ∀ e ∈ l, refOf l e.seq = e.ref := by
  intro l
  induction l with
  | nil => intro _ e he; cases he
  | cons a r ih =>
    intro hw e he
    simp only [refOf]
    rcases List.mem_cons.1 he with rfl | he
    · simp
    · have := hw.head_lt e he
      rw [if_neg (by omega)]
      exact ih hw.tail e he

/-- `acquireSnapshot` with a sequence number that is at least every one in the list does not panic -/
theorem acquire_spec : ∀ (l : SList) (seq : Nat), Wf l → (∀ e ∈ l, e.seq ≤ seq) →
    ∃ l', acquire l seq = some l' ∧ Wf l' ∧ (∀ x ∈ l', (∃ y ∈ l, y.seq = x.seq) ∨ x.seq = seq)
      ∧ ∀ s, refOf l' s = refOf l s + (if seq = s then 1 else 0) := by
  intro l
  induction l with
  | nil =>
    intro seq _ _
    refine ⟨_, rfl, ⟨by simp, by simp⟩, by simp, ?_⟩
    intro s; simp [refOf]
  | cons e r ih =>
    intro seq hw hb
    have hle := hb e List.mem_cons_self
    cases r with
    | nil =>
      by_cases heq : e.seq = seq
      · refine ⟨[⟨e.seq, e.ref + 1⟩], by simp [acquire, heq], ⟨by simp, by simp⟩, ?_, ?_⟩
        · intro x hx; simp at hx; subst hx; exact Or.inr heq
        · intro s; simp only [refOf]
          by_cases h : e.seq = s
          · have : seq = s := by omega
            simp [h, this]
          · have : ¬ seq = s := by omega
            simp [h, this]
      · have hnlt : ¬ seq < e.seq := by omega
        refine ⟨[e, ⟨seq, 1⟩], by simp [acquire, heq, hnlt], ⟨?_, ?_⟩, ?_, ?_⟩
        · simp; omega
        · intro x hx; simp at hx
          rcases hx with rfl | rfl
          · exact hw.2 _ List.mem_cons_self
          · simp
        · intro x hx; simp at hx
          rcases hx with rfl | rfl
          · exact Or.inl ⟨_, List.mem_cons_self, rfl⟩
          · exact Or.inr rfl
        · intro s; simp only [refOf]
          by_cases h : e.seq = s
          · have : ¬ seq = s := by omega
            simp [h, this]
          · simp [h]
    | cons e' r =>
      obtain ⟨l', h1, h2, h3, h4⟩ := ih seq hw.tail (fun x hx => hb x (List.mem_cons_of_mem _ hx))
      have hlt := hw.head_lt
      have he' := hb e' (List.mem_cons_of_mem _ List.mem_cons_self)
      have hee' := hlt e' List.mem_cons_self
      refine ⟨e :: l', by simp [acquire, h1], ⟨?_, ?_⟩, ?_, ?_⟩
      · refine List.pairwise_cons.2 ⟨?_, h2.1⟩
        intro x hx
        rcases h3 x hx with ⟨y, hy, hs⟩ | hs
        · have := hlt y hy; omega
        · omega
      · intro x hx
        rcases List.mem_cons.1 hx with rfl | hx
        · exact hw.2 _ List.mem_cons_self
        · exact h2.2 x hx
      · intro x hx
        rcases List.mem_cons.1 hx with rfl | hx
        · exact Or.inl ⟨_, List.mem_cons_self, rfl⟩
        · rcases h3 x hx with ⟨y, hy, hs⟩ | hs
          · exact Or.inl ⟨y, List.mem_cons_of_mem _ hy, hs⟩
          · exact Or.inr hs
      · intro s
        show (if e.seq = s then e.ref else refOf l' s) = (if e.seq = s then e.ref else refOf (e' :: r) s) + _
        by_cases h : e.seq = s
        · have : ¬ seq = s := by omega
          simp [h, this]
        · simp only [h, if_false]; exact h4 s

/-- `releaseSnapshot` of an element that holds a reference does not panic -/
theorem release_spec : ∀ (l : SList) (seq : Nat), Wf l → 0 < refOf l seq →
    ∃ l', release l seq = some l' ∧ Wf l' ∧ (∀ x ∈ l', ∃ y ∈ l, y.seq = x.seq)
      ∧ ∀ s, refOf l' s = refOf l s - (if seq = s then 1 else 0) := by
  intro l
  induction l with
  | nil => intro seq _ h; simp [refOf] at h
  | cons e r ih =>
    intro seq hw hp
    have hpos := hw.2 e List.mem_cons_self
    by_cases he : e.seq = seq
    · by_cases h1 : e.ref ≤ 1
      · refine ⟨r, by simp [release, he, h1], hw.tail, fun x hx => ⟨x, List.mem_cons_of_mem _ hx, rfl⟩, ?_⟩
        intro s
        simp only [refOf]
        by_cases hs : e.seq = s
        · have : seq = s := by omega
          rw [if_pos hs, if_pos this]
          rw [refOf_zero_of_lt r s (fun x hx => by have := hw.head_lt x hx; omega)]
          omega
        · have : ¬ seq = s := by omega
          rw [if_neg hs, if_neg this]; rfl
      · refine ⟨⟨e.seq, e.ref - 1⟩ :: r, by simp [release, he, h1], ⟨?_, ?_⟩, ?_, ?_⟩
        · exact List.pairwise_cons.2 ⟨fun x hx => hw.head_lt x hx, hw.tail.1⟩
        · intro x hx
          rcases List.mem_cons.1 hx with rfl | hx
          · show 0 < e.ref - 1; omega
          · exact hw.2 x (List.mem_cons_of_mem _ hx)
        · intro x hx
          rcases List.mem_cons.1 hx with rfl | hx
          · exact ⟨e, List.mem_cons_self, rfl⟩
          · exact ⟨x, List.mem_cons_of_mem _ hx, rfl⟩
        · intro s
          simp only [refOf]
          by_cases hs : e.seq = s
          · have : seq = s := by omega
            rw [if_pos hs, if_pos hs, if_pos this]
          · have : ¬ seq = s := by omega
            rw [if_neg hs, if_neg hs, if_neg this]; rfl
    · have hp' : 0 < refOf r seq := by simpa [refOf, he] using hp
      obtain ⟨l', h1, h2, h3, h4⟩ := ih seq hw.tail hp'
      refine ⟨e :: l', by simp [release, he, h1], ⟨?_, ?_⟩, ?_, ?_⟩
      · refine List.pairwise_cons.2 ⟨?_, h2.1⟩
        intro x hx
        obtain ⟨y, hy, hs⟩ := h3 x hx
        have := hw.head_lt y hy; omega
      · intro x hx
        rcases List.mem_cons.1 hx with rfl | hx
        · exact hpos
        · exact h2.2 x hx
      · intro x hx
        rcases List.mem_cons.1 hx with rfl | hx
        · exact ⟨_, List.mem_cons_self, rfl⟩
        · obtain ⟨y, hy, hs⟩ := h3 x hx
          exact ⟨y, List.mem_cons_of_mem _ hy, hs⟩
      · intro s
        simp only [refOf]
        by_cases hs : e.seq = s
        · have : ¬ seq = s := by omega
          rw [if_pos hs, if_pos hs, if_neg this]; rfl
        · rw [if_neg hs, if_neg hs]; exact h4 s

theorem Rep.le_of_mem {l : SList} {live : List Nat} (h : Rep l live) (hi : Nat) (hb : ∀ s ∈ live, s ≤ hi) :
    ∀ e ∈ l, e.seq ≤ hi := by
  intro e he
  have h1 := refOf_mem l h.1 e he
  have h2 := h.1.2 e he
  have h3 : 0 < live.count e.seq := by rw [← h.2]; omega
  exact hb _ (List.count_pos_iff.1 h3)

theorem rep_nil : Rep [] [] := ⟨⟨List.Pairwise.nil, by simp⟩, fun s => by simp [refOf]⟩

/-- an acquisition at or above every live one: no panic, and the list represents the enlarged multiset -/
theorem rep_acquire {l : SList} {live : List Nat} (h : Rep l live) (seq : Nat) (hb : ∀ s ∈ live, s ≤ seq) :
    ∃ l', acquire l seq = some l' ∧ Rep l' (live ++ [seq]) := by
  obtain ⟨l', h1, h2, _, h4⟩ := acquire_spec l seq h.1 (h.le_of_mem seq hb)
  refine ⟨l', h1, h2, ?_⟩
  intro s
  rw [h4, h.2, List.count_append, List.count_singleton]
  by_cases hs : seq = s <;> simp [hs]

/-- releasing a live acquisition: no panic, and the list represents the reduced multiset -/
theorem rep_release {l : SList} {live : List Nat} (h : Rep l live) (seq : Nat) (hm : seq ∈ live) :
    ∃ l', release l seq = some l' ∧ Rep l' (live.erase seq) := by
  have hp : 0 < refOf l seq := by rw [h.2]; exact List.count_pos_iff.2 hm
  obtain ⟨l', h1, h2, _, h4⟩ := release_spec l seq h.1 hp
  refine ⟨l', h1, h2, ?_⟩
  intro s
  rw [h4, h.2, List.count_erase]
  by_cases hs : seq = s <;> simp [hs]

/-- the front of the list is the smallest live acquisition -/
theorem rep_minSeq {l : SList} {live : List Nat} (h : Rep l live) (dbSeq : Nat) :
    (live = [] → minSeq l dbSeq = dbSeq)
    ∧ (live ≠ [] → minSeq l dbSeq ∈ live ∧ ∀ s ∈ live, minSeq l dbSeq ≤ s) := by
  cases l with
  | nil =>
    refine ⟨fun _ => rfl, ?_⟩
    intro hne
    cases live with
    | nil => exact absurd rfl hne
    | cons a t =>
      have := h.2 a
      simp [refOf] at this
  | cons e r =>
    have he : refOf (e :: r) e.seq = e.ref := by simp [refOf]
    have hpos := h.1.2 e List.mem_cons_self
    have hmem : e.seq ∈ live := by
      apply List.count_pos_iff.1; rw [← h.2, he]; exact hpos
    refine ⟨?_, ?_⟩
    · intro hl; rw [hl] at hmem; cases hmem
    · intro _
      refine ⟨hmem, ?_⟩
      intro s hs
      show e.seq ≤ s
      have h3 : 0 < refOf (e :: r) s := by rw [h.2]; exact List.count_pos_iff.2 hs
      obtain ⟨x, hx, hxs⟩ := refOf_pos_mem _ s h3
      rcases List.mem_cons.1 hx with rfl | hx
      · omega
      · have := h.1.head_lt x hx; omega

/-- a history as the DB produces it never panics, and the list keeps representing the live acquisitions -/
theorem run_legal : ∀ (ops : List Op) (l : SList) (live : List Nat) (hi : Nat), Rep l live →
    (∀ s ∈ live, s ≤ hi) → Legal hi live ops →
    ∃ l', run l ops = some l' ∧ Rep l' (liveRun live ops) := by
  intro ops
  induction ops with
  | nil => intro l live hi h _ _; exact ⟨l, rfl, h⟩
  | cons o os ih =>
    intro l live hi h hb hl
    cases o with
    | acquire s =>
      obtain ⟨h1, h2⟩ := hl
      obtain ⟨l1, g1, g2⟩ := rep_acquire h s (fun x hx => Nat.le_trans (hb x hx) h1)
      have hb' : ∀ x ∈ live ++ [s], x ≤ s := by
        intro x hx
        rcases List.mem_append.1 hx with hx | hx
        · exact Nat.le_trans (hb x hx) h1
        · simp at hx; omega
      obtain ⟨l', g3, g4⟩ := ih l1 _ s g2 hb' h2
      exact ⟨l', by simp [run, apply, g1, g3], g4⟩
    | release s =>
      obtain ⟨h1, h2⟩ := hl
      obtain ⟨l1, g1, g2⟩ := rep_release h s h1
      have hb' : ∀ x ∈ live.erase s, x ≤ hi := fun x hx => hb x (List.mem_of_mem_erase hx)
      obtain ⟨l', g3, g4⟩ := ih l1 _ hi g2 hb' h2
      exact ⟨l', by simp [run, apply, g1, g3], g4⟩

end GoLevel.Snaps
