import GoLevel.Proofs.CacheQuiesce
/-! Invariant of the cache system, part 9: the `zc` step — after `Close(false)` a node whose counter is zero has
been finalised or a thread is about to finalise it. -/
namespace GoLevel.CacheM

set_option linter.unusedSimpArgs false

theorem zc_step {g sh Q log sh' i push evs} (h : InvP g sh (i :: Q) log) (hq : InvQ sh (i :: Q) log)
    (he : exec sh i = some (sh', push, evs))
    (hwb : sh.rlock = 0 → ∀ j ∈ i :: Q, openOnly j = false) :
    sh'.closed = true → sh'.forced = false → ∀ n ∈ sh'.nodes, n.ref = 0 →
      (n.value = none ∧ n.delFuncs = []) ∨ Instr.extz n.id n.key ∈ push ++ Q ∨
        Instr.fin n.id false ∈ push ++ Q := by
  intro hc' hf'
  by_cases hsc : sh.closed = true
  · have hf : sh.forced = false := by
      cases hff : sh.forced with
      | false => rfl
      | true => rw [forced_mono he hsc hff] at hf'; cases hf'
    have hzc := hq.zc hsc hf
    have hi := h.cl hsc i List.mem_cons_self
    have hfo := h.fo hf i List.mem_cons_self
    simp only [List.mem_cons] at hzc
    cases i <;> simp only [openOnly, reduceCtorEq] at hi
    case setcap c =>
      simp only [exec, execSetcap, Option.some.injEq, Prod.mk.injEq] at he
      obtain ⟨rfl, rfl, rfl⟩ := he
      intro n hn hz
      obtain ⟨m, hm, hid1, href1, hk1, hv1, _, hd1, _⟩ := mem_clearLru_proj hn
      rw [hk1, hid1, hv1, hd1]
      rcases hzc m hm (by omega) with h1 | (h1 | h1) | (h1 | h1)
      · exact Or.inl h1
      · cases h1
      · exact Or.inr (Or.inl (List.mem_append_right _ h1))
      · cases h1
      · exact Or.inr (Or.inr (List.mem_append_right _ h1))
    case extz eid k =>
      simp only [exec, hsc, if_true] at he
      intro n hn hz
      by_cases hre : (sh.recheck && refNonZero sh.nodes eid) = true
      · rw [if_pos hre] at he
        simp only [Option.some.injEq, Prod.mk.injEq] at he; obtain ⟨rfl, rfl, rfl⟩ := he
        rcases hzc n hn hz with h1 | (h1 | h1) | (h1 | h1)
        · exact Or.inl h1
        · -- the re-check found a non-zero counter: it is not this node
          exfalso
          injection h1 with h1 _
          subst h1
          simp only [refNonZero, findId_of_mem h.ids.1 hn, Bool.and_eq_true, decide_eq_true_eq] at hre
          exact hre.2 hz
        · exact Or.inr (Or.inl (List.mem_append_right _ h1))
        · cases h1
        · exact Or.inr (Or.inr (List.mem_append_right _ h1))
      · rw [if_neg hre] at he
        simp only [Option.some.injEq, Prod.mk.injEq] at he; obtain ⟨rfl, rfl, rfl⟩ := he
        rcases hzc n hn hz with h1 | (h1 | h1) | (h1 | h1)
        · exact Or.inl h1
        · injection h1 with h1 _
          subst h1
          exact Or.inr (Or.inr (by simp))
        · exact Or.inr (Or.inl (List.mem_append_right _ h1))
        · cases h1
        · exact Or.inr (Or.inr (List.mem_append_right _ h1))
    case fin fid ff =>
      have hff : ff = false := by cases ff <;> simp_all [forcedOnly]
      subst hff
      simp only [exec, execFin] at he
      cases hfind : findId sh.nodes fid with
      | none =>
        simp only [hfind] at he; obtain ⟨st, dd, rfl, rfl⟩ := execFinStale_cases he
        intro n hn hz
        have hne := findId_none hfind n hn
        rcases hzc n hn hz with h1 | (h1 | h1) | (h1 | h1)
        · exact Or.inl h1
        · cases h1
        · exact Or.inr (Or.inl (by simpa using h1))
        · injection h1 with h1; exact absurd h1 hne
        · exact Or.inr (Or.inr (by simpa using h1))
      | some n0 =>
        simp [hfind] at he; obtain ⟨rfl, rfl, rfl⟩ := he
        intro n hn hz
        obtain ⟨m, hm, rfl⟩ := mem_upd.mp hn
        by_cases hmf : m.id = fid
        · left; rw [if_pos hmf]; exact ⟨rfl, rfl⟩
        · rw [if_neg hmf] at hz ⊢
          rcases hzc m hm hz with h1 | (h1 | h1) | (h1 | h1)
          · exact Or.inl h1
          · cases h1
          · exact Or.inr (Or.inl (by simpa using h1))
          · injection h1 with h1; exact absurd h1 hmf
          · exact Or.inr (Or.inr (by simpa using h1))
    all_goals exec_split he
    all_goals (intro n hn hz)
    all_goals (try simp only [] at hc' hf' hn)
    all_goals (simp only [List.mem_append, List.mem_cons, List.mem_map, List.mem_flatMap, List.not_mem_nil,
      or_false, false_or, reduceCtorEq, Instr.fin.injEq, Instr.extz.injEq])
    all_goals first
      | (simp [forcedOnly] at hfo; done)
      | (have := hzc n hn hz; grind)
      | (rw [mem_upd] at hn; obtain ⟨m, hm, rfl⟩ := hn
         have h1 := hzc m hm
         have hfs := findId_some (by assumption)
         have hu := found_unique h.ids.1 (by assumption) hm
         grind)
      | (rw [mem_upd] at hn; obtain ⟨m, hm, rfl⟩ := hn
         have h1 := hzc m hm
         grind)
      | skip
  · have hso : sh.closed = false := by simpa using hsc
    have hzo := hq.zo hso
    simp only [List.mem_cons] at hzo
    cases i
    case closeLock force =>
      simp only [exec, execCloseLock] at he
      by_cases hr : sh.rlock = 0
      · have hno := hwb hr
        simp only [hr, ne_eq, not_true_eq_false, if_false, hso, Bool.false_eq_true, Option.some.injEq,
          Prod.mk.injEq] at he
        obtain ⟨rfl, rfl, rfl⟩ := he
        intro n hn hz
        simp only [] at hn
        rcases hzo n hn hz with (h1 | h1) | (h1 | h1)
        · cases h1
        · have := hno _ (List.mem_cons_of_mem _ h1); simp [openOnly] at this
        · cases h1
        · exact Or.inr (Or.inl (List.mem_append_right _ h1))
      · simp [hr] at he
    all_goals (exfalso; exec_split he)
    all_goals (try simp only [] at hc')
    all_goals first
      | (rw [hso] at hc'; cases hc'; done)
      | skip

end GoLevel.CacheM
