import GoLevel.Proofs.CacheLocks
/-! The lock-level cache system (C17), part 2: base-level facts the lock invariant needs (shape of a thread's
instruction list, how an instruction changes the reader count) and the lock invariant `LInv` itself. -/
namespace GoLevel.CacheL
open GoLevel.CacheM

set_option linter.unusedSimpArgs false

def isEnter : Instr → Bool
  | .enter _ => true
  | _ => false

/-- A thread is about to start `Close` or one of the calls that begin with `r.mu.RLock()` (and has nothing else to
do), or contains neither `closeLock` nor `enter`. -/
def WC2 (T : List Instr) : Prop :=
  (∃ f, T = [Instr.closeLock f]) ∨ (∃ c, T = [Instr.enter c]) ∨ ∀ j ∈ T, isCloseLock j = false ∧ isEnter j = false

theorem exec_push_noenter {sh sh' : Shared} {i push evs} (he : exec sh i = some (sh', push, evs)) :
    ∀ j ∈ push, isCloseLock j = false ∧ isEnter j = false := by
  cases i <;> exec_split he
  all_goals (intro j hj)
  all_goals (simp only [List.mem_append, List.mem_cons, List.mem_map, List.mem_flatMap, List.not_mem_nil,
    or_false, false_or] at hj)
  all_goals first
    | (cases hj; done)
    | grind [isCloseLock, isEnter]

theorem wc2_reachable {g : Bool} {s : Sys} (hr : Reachable g s) : ∀ T ∈ s.threads, WC2 T := by
  induction hr with
  | init cfg c n =>
    intro T hT
    simp only [Sys.initCfg, List.mem_replicate] at hT
    rw [hT.2]; exact Or.inr (Or.inr (fun j hj => by cases hj))
  | @step s s' a hr hs ih =>
    rcases sysStep_cases hs with ⟨t, c, rfl, ht, _, rfl⟩ | ⟨t, i, rest, sh', push, evs, rfl, ht, he, _, rfl⟩
    · intro T hT
      rcases List.mem_or_eq_of_mem_set hT with h1 | h1
      · exact ih T h1
      · rw [h1]
        cases c <;> simp [startCall, WC2, isCloseLock, isEnter]
    · intro T hT
      rcases List.mem_or_eq_of_mem_set hT with h1 | h1
      · exact ih T h1
      · rw [h1]
        right; right
        have hp := exec_push_noenter he
        rcases ih _ (List.mem_of_getElem? ht) with ⟨f, hf⟩ | ⟨c, hc⟩ | hpl
        · injection hf with h2 h3; subst h3; simpa using hp
        · injection hc with h2 h3; subst h3; simpa using hp
        · intro j hj
          rcases List.mem_append.mp hj with hj | hj
          · exact hp j hj
          · exact hpl j (List.mem_cons_of_mem _ hj)

/-- How an instruction changes the reader count, and how many `RUnlock`s it schedules. -/
theorem rlock_frame {sh sh' : Shared} {i push evs} (he : exec sh i = some (sh', push, evs)) :
    (isRunlock i = true → sh'.rlock = sh.rlock - 1 ∧ push = []) ∧
    (isRunlock i = false → sh'.rlock = sh.rlock + push.count .runlock ∧ push.count .runlock ≤ 1) ∧
    (isRunlock i = false → isEnter i = false → isExtz i = false → push.count .runlock = 0) := by
  cases i <;> exec_split he
  all_goals (simp [isRunlock, isEnter, isExtz, List.count_append, List.count_cons])
  all_goals first
    | (rw [List.count_eq_zero.mpr (by simp)]; simp; done)
    | (simp; done)
    | skip

/-- Where `unrefMu` is read-locked: the rest of `unRefExternal` follows, then its `RUnlock`. -/
def unShape (T : List Instr) : Prop :=
  (∃ r, T = .runlock :: r) ∨ (∃ k r, T = .delz k :: .runlock :: r) ∨ (∃ id f r, T = .fin id f :: .runlock :: r)

def preBody : Phase → Bool
  | .annMu | .hasMu | .annUn | .hasBoth => true
  | _ => false

def unPhase : Phase → Bool
  | .annUn | .hasBoth | .relUn => true
  | _ => false

def muHeld : Phase → Bool
  | .hasMu | .annUn | .hasBoth | .relUn | .relMu => true
  | _ => false

def unHeld : Phase → Bool
  | .hasBoth | .relUn => true
  | _ => false

/-- Read locks of kind `l` held by all threads. -/
def cnt (l : LockId) (tl : List LThread) : Nat := (tl.map fun th => th.held.count l).sum

/-- The invariant of the lock-level system (for the code as it is: `unRefExternal` uses `unrefMu`). -/
structure LInv (ls : LSys) : Prop where
  len : ls.tl.length = ls.base.threads.length
  k1 : ∀ (t : Nat) (th : LThread) (T : List Instr), ls.tl[t]? = some th → ls.base.threads[t]? = some T → th.held.length = T.count .runlock
  k2m : ls.mu.readers = cnt .mu ls.tl
  k2u : ls.un.readers = cnt .un ls.tl
  k3 : ∀ (t : Nat) (th : LThread) (T : List Instr), ls.tl[t]? = some th → ls.base.threads[t]? = some T → th.phase ≠ Phase.idle →
        th.held = [] ∧ (preBody th.phase = true → ∃ f, T = [Instr.closeLock f])
  k5a : ∀ (t : Nat) (th : LThread), ls.tl[t]? = some th → th.phase ≠ Phase.idle → ls.mu.writer = some t
  k5b : ∀ t, ls.mu.writer = some t → ∃ th : LThread, ls.tl[t]? = some th ∧ th.phase ≠ Phase.idle
  k5c : ∀ (t : Nat) (th : LThread), ls.tl[t]? = some th → unPhase th.phase = true → ls.un.writer = some t
  k5d : ∀ t, ls.un.writer = some t → ∃ th : LThread, ls.tl[t]? = some th ∧ unPhase th.phase = true
  k5e : ∀ (t : Nat) (th : LThread), ls.tl[t]? = some th → muHeld th.phase = true → ls.mu.readers = 0
  k5f : ∀ (t : Nat) (th : LThread), ls.tl[t]? = some th → unHeld th.phase = true → ls.un.readers = 0
  k6 : ∀ (t : Nat) (th : LThread) (T : List Instr), ls.tl[t]? = some th → ls.base.threads[t]? = some T → LockId.un ∈ th.held →
        (∃ hs, th.held = LockId.un :: hs ∧ LockId.un ∉ hs) ∧ unShape T
  k7 : ls.base.sh.rlock = ls.mu.readers + ls.un.readers

theorem set_cases {α : Type} {l : List α} {t t2 : Nat} {a x : α} (h : (l.set t a)[t2]? = some x) :
    (t2 = t ∧ x = a) ∨ (t2 ≠ t ∧ l[t2]? = some x) := by
  rw [List.getElem?_set] at h
  by_cases ht : t = t2
  · subst ht
    simp only [if_true] at h
    split at h
    · exact Or.inl ⟨rfl, (Option.some.inj h).symm⟩
    · cases h
  · rw [if_neg ht] at h
    exact Or.inr ⟨fun h' => ht h'.symm, h⟩

theorem get_set_self {α : Type} {l : List α} {t : Nat} {a b : α} (h : l[t]? = some a) :
    (l.set t b)[t]? = some b := by
  rw [List.getElem?_set]; simp [(List.getElem?_eq_some_iff.mp h).1]

theorem get_set_ne {α : Type} {l : List α} {t t2 : Nat} {b : α} (hne : t2 ≠ t) : (l.set t b)[t2]? = l[t2]? := by
  rw [List.getElem?_set]; simp [Ne.symm hne]

theorem sum_set {l : List Nat} {i a b : Nat} (h : l[i]? = some a) : (l.set i b).sum + a = l.sum + b := by
  induction l generalizing i with
  | nil => simp at h
  | cons x l ih =>
    cases i with
    | zero => simp at h; subst h; simp; omega
    | succ i =>
      simp at h
      have := ih h
      simp only [List.set_cons_succ, List.sum_cons]
      omega

theorem cnt_set {l : LockId} {tl : List LThread} {t : Nat} {th th' : LThread} (h : tl[t]? = some th) :
    cnt l (tl.set t th') + th.held.count l = cnt l tl + th'.held.count l := by
  unfold cnt
  rw [List.map_set]
  exact sum_set (by rw [List.getElem?_map, h]; rfl)

theorem cnt_set_same {l : LockId} {tl : List LThread} {t : Nat} {th th' : LThread} (h : tl[t]? = some th)
    (hh : th'.held = th.held) : cnt l (tl.set t th') = cnt l tl := by
  have := cnt_set (l := l) (th' := th') h
  rw [hh] at this; omega

theorem cnt_pos {l : LockId} {tl : List LThread} (h : 0 < cnt l tl) :
    ∃ (t : Nat) (th : LThread), tl[t]? = some th ∧ l ∈ th.held := by
  unfold cnt at h
  induction tl with
  | nil => simp at h
  | cons a tl ih =>
    simp only [List.map_cons, List.sum_cons] at h
    by_cases ha : 0 < a.held.count l
    · exact ⟨0, a, rfl, List.count_pos_iff.mp ha⟩
    · obtain ⟨t, th, h1, h2⟩ := ih (by omega)
      exact ⟨t + 1, th, by simpa using h1, h2⟩

end GoLevel.CacheL
