import GoLevel.Proofs.WriteProtoGInv4b
import GoLevel.Proofs.WriteProtoTerm
import GoLevel.Proofs.WriteProtoAppend
set_option linter.unusedSimpArgs false
/-! The group invariant in every reachable state; what it says about a group whose journal write has
happened; the run of `unlockWrite` (every merged writer is acked, the overflowed one gets the lock, whatever
the result); states in which a writer waits for a reply nobody will send. -/
namespace GoLevel.WP

structure GInv (s : St) : Prop where
  gloc : ∀ (i : Nat) (w : Thread), s.ws[i]? = some w → GLoc s.cfg w
  tie : Tie s
  nd : Nd s
  rm : RM s
  am : AM s
  sq : Sq s
  pe : PubEq s
  macc : MAcc s

theorem Init.any {s : St} (h : Init s) : InitAny s := ⟨h.2.1, h.2.2.1, h.2.2.2⟩

theorem init_gloc (s : St) (h : InitAny s) : ∀ (i : Nat) (w : Thread), s.ws[i]? = some w → GLoc s.cfg w := by
  intro i w hi
  have := h.2.2 w (List.mem_of_getElem? hi)
  obtain ⟨h1, _, _, _, _, h6, h7, h8, _⟩ := this
  simp only [GLoc, h1, Unled]
  exact ⟨h7, h8, h6⟩

theorem init_ginv (s : St) (h : Init s) : GInv s :=
  ⟨init_gloc s h.any, init_tie s h.any, init_nd s h.any, init_rm s h, init_am s h, init_sq s h,
   init_pubeq s h.any, init_macc s h.any⟩

theorem step_ginv (s t : St) (h : Step s t) (c : CInv s) (p : PInv s) (g : GInv s) : GInv t :=
  ⟨step_gloc s t h p.loc g.gloc, step_tie s t h g.tie, step_nd s t h g.tie g.nd, step_rm s t h c g.rm,
   step_am s t h g.rm g.am, step_sq s t h c g.sq, step_pubeq s t h p.loc g.sq g.pe,
   step_macc s t h c p.loc g.tie g.macc⟩

theorem steps_all (s t : St) (h : Steps s t) (c : CInv s) (p : PInv s) (g : GInv s) :
    CInv t ∧ PInv t ∧ GInv t := by
  induction h with
  | refl => exact ⟨c, p, g⟩
  | tail _ h ih => exact ⟨step_cinv _ _ h ih.1, step_pinv _ _ h ih.1 ih.2.1, step_ginv _ _ h ih.1 ih.2.1 ih.2.2⟩

theorem reachable_ginv (s : St) (h : Reachable s) : GInv s := by
  obtain ⟨s0, h0, hs⟩ := h
  exact (steps_all s0 s hs (init_cinv s0 h0) (init_pinv s0 h0) (init_ginv s0 h0)).2.2

/-! ## reading the thread-local invariant -/

/-- once `writeJournal` has been called, the group record is complete -/
theorem shape_of_jout (c : Cfg) (w : Thread) (hL : Loc w) (hG : GLoc c w) (hj : w.jout ≠ none) :
    Shape c w ∧ w.gn = w.flat.length ∧ w.jrecs = w.flat ∧ w.jsync = some w.gsync ∧
      (w.pub ≠ none → w.arecs = w.flat) := by
  cases hpc : w.pc with
  | lead ph m o =>
    cases ph <;> simp only [GLoc, Loc, hpc, Blank, Out, Post, Unled] at hG hL <;> grind
  | _ => simp only [GLoc, Loc, hpc, Blank, Out, Post, Unled] at hG hL <;> grind

/-- a thread with accepted messages is (or was) a leader past `db.flush` -/
theorem shape_of_members (c : Cfg) (w : Thread) (hG : GLoc c w) (hm : w.members ≠ []) : Shape c w := by
  cases hpc : w.pc with
  | lead ph m o =>
    cases ph <;> simp only [GLoc, hpc, Unled, FlushShape] at hG <;> grind
  | _ => simp only [GLoc, hpc, Unled] at hG <;> grind

/-- in `unlockWrite` the number of acks is the number of accepted messages -/
theorem members_of_acking (c : Cfg) (w : Thread) (hG : GLoc c w) (k m : Nat) (r : Res) (o : Bool)
    (hp : w.pc = .lead (.acking k r) m o) : w.members.length = m := by
  simp only [GLoc, hp, Unled] at hG
  rcases hG with h | h
  · rw [h.1.2.1, h.2.2]; rfl
  · exact h.2.1

/-! ## the run of `unlockWrite` -/

theorem no_wa_acking0 (s : St) (c : CInv s) (j : Nat) (l : Thread) (r : Res) (m : Nat) (o : Bool)
    (hj : s.ws[j]? = some l) (hp : l.pc = .lead (.acking 0 r) m o) (a : Nat) (x : Thread)
    (ha : s.ws[a]? = some x) : x.pc ≠ .waitAck := by
  apply no_wa s c _ a x ha
  intro b y hb
  by_cases hh : 0 < holds y.pc
  · have := holder_unique s c b j y l hb hj hh (by simp [hp, holds])
    subst this; rw [hj] at hb; cases hb; simp [hp, owed]
  · have := holds_of_owed y.pc; omega

/-- From the entry of `unlockWrite(o, m, r)` — whatever `r` — the leader's own steps lead to a state in which
every writer that waited for an ack has returned `r`, the leader has returned `r`, and the write lock is free
(`o = false`) or belongs to the writer that waited on `writeMergedC`, now starting `writeLocked` (`o = true`). -/
theorem unlock_run (k : Nat) : ∀ (s : St), Reachable s → ∀ (j : Nat) (l : Thread) (r : Res) (m : Nat) (o : Bool),
    s.ws[j]? = some l → l.pc = .lead (.acking k r) m o →
    ∃ t, Steps s t ∧ (∃ l', t.ws[j]? = some l' ∧ l'.pc = .returned r) ∧
      (∀ (i : Nat) (w : Thread), s.ws[i]? = some w → w.pc = .waitAck → t.ws[i]? = some (w.setPc (.returned r))) ∧
      (o = false → t.token = false) ∧
      (o = true → ∃ (i : Nat) (w : Thread), s.ws[i]? = some w ∧ w.pc = .waitMerged ∧
          t.ws[i]? = some w.asLeader ∧ t.cur = some i ∧ t.token = true) := by
  induction k with
  | zero =>
    intro s hr j l r m o hj hp
    have c := reachable_cinv s hr
    have nowa := no_wa_acking0 s c j l r m o hj hp
    have hjl := (List.getElem?_eq_some_iff.mp hj).1
    cases o with
    | false =>
      refine ⟨_, Steps.single (Step.release s j l m r hj hp), ?_, ?_, ?_, ?_⟩
      · exact ⟨l.setPc (.returned r), by simp [hjl], rfl⟩
      · intro i w hi hw; exact absurd hw (nowa i w hi)
      · intro _; rfl
      · intro h; cases h
    | true =>
      obtain ⟨i, w, hi, hw⟩ := exists_wm s c j l hj (by simp [hp, pendReply])
      have hij : i ≠ j := by intro h; subst h; rw [hi] at hj; cases hj; rw [hp] at hw; cases hw
      have hil := (List.getElem?_eq_some_iff.mp hi).1
      have htok := token_of_holder s c j l hj (by simp [hp, holds])
      refine ⟨_, Steps.single (Step.handoff s i j w l m r none hj hi hp hw (Or.inl c.cfgH)), ?_, ?_, ?_, ?_⟩
      · refine ⟨l.setPc (.returned r), ?_, rfl⟩
        simp [set2, List.getElem?_set, hij, hjl]
      · intro a x ha hx; exact absurd hx (nowa a x ha)
      · intro h; cases h
      · intro _
        exact ⟨i, w, hi, hw, by simp [set2, hil], rfl, htok⟩
  | succ k ih =>
    intro s hr j l r m o hj hp
    have c := reachable_cinv s hr
    obtain ⟨i, w, hi, hw⟩ := exists_wa s c j l hj (by simp [hp, owed])
    have hij : i ≠ j := by intro h; subst h; rw [hi] at hj; cases hj; rw [hp] at hw; cases hw
    have hil := (List.getElem?_eq_some_iff.mp hi).1
    have hjl := (List.getElem?_eq_some_iff.mp hj).1
    have hstep := Step.ack s i j w l k m o r hj hi hp hw
    have hr1 : Reachable _ := reachable_steps s _ hr (Steps.single hstep)
    have hj1 : (set2 s.ws j (l.setPc (.lead (.acking k r) m o)) i (w.setPc (.returned r)))[j]? =
        some (l.setPc (.lead (.acking k r) m o)) := by
      simp [set2, List.getElem?_set, hij, hjl]
    obtain ⟨t, hst, hlt, hwa, hof, hot⟩ := ih _ hr1 j _ r m o hj1 rfl
    refine ⟨t, Steps.trans (Steps.single hstep) hst, hlt, ?_, hof, ?_⟩
    · intro a x ha hx
      by_cases hai : a = i
      · subst hai
        have hxw : x = w := by rw [hi] at ha; exact (Option.some.inj ha).symm
        subst hxw
        have : (set2 s.ws j (l.setPc (.lead (.acking k r) m o)) a (x.setPc (.returned r)))[a]? =
            some (x.setPc (.returned r)) := by simp [set2, hil]
        exact result_once _ t hst a _ r this rfl
      · have haj : a ≠ j := by intro h; subst h; rw [ha] at hj; cases hj; rw [hp] at hx; cases hx
        apply hwa a x _ hx
        simp only [set2, List.getElem?_set]
        rw [if_neg (Ne.symm hai), if_neg (Ne.symm haj)]; exact ha
    · intro ho
      obtain ⟨a, x, ha, hx, h3, h4, h5⟩ := hot ho
      refine ⟨a, x, ?_, hx, h3, h4, h5⟩
      simp only [set2, List.getElem?_set] at ha
      grind [Thread.setPc]

/-! ## a writer nobody will answer -/

/-- if every thread has returned or waits on `writeMergedC`, no step is enabled -/
theorem stuck_of_waiting (t : St)
    (h : ∀ (i : Nat) (w : Thread), t.ws[i]? = some w → (∃ r, w.pc = .returned r) ∨ w.pc = .waitMerged) :
    ¬ ∃ u, Step t u := by
  rintro ⟨u, hs⟩
  cases hs <;> grind

end GoLevel.WP
