import GoLevel.Proofs.LocksOrphanClk
/-! `Close` leaves `db.closeW.Wait()` only when both compaction goroutines have exited (any configuration). -/
namespace GoLevel.Locks
set_option linter.unusedSimpArgs false

theorem ackWs_clWait (ws : List Pc) (w : Option Nat) (b : Bool) (i : Nat) (hi : ws[i]? = some .clWait) :
    (ackWs ws w b)[i]? = some .clWait := by
  unfold ackWs
  split
  · rename_i j
    split
    · rename_i b' site lg hj
      split
      · rw [List.getElem?_set]
        split
        · rename_i hji; subst hji; rw [hj] at hi; cases hi
        · exact hi
      · exact hi
    · exact hi
  · exact hi

theorem clWait_step (cfg : Cfg) (s t : St) (f : Bool) (h : Step cfg f s t) (i' : Nat)
    (hi' : s.ws[i']? = some .clWait) :
    t.ws[i']? = some .clWait ∨ (s.mc = .exited ∧ s.tc = .exited) := by
  cases h with
  | startPut _ i hi =>
    (try simp only [St.setDone, St.setBg]) <;> (repeat' split) <;> (try simp only [List.getElem?_set]) <;> grind [St.setBg, St.setDone, St.bg, clearW, onOk, onErr, selNext, afterSetErr]
  | startWrite _ i hi =>
    (try simp only [St.setDone, St.setBg]) <;> (repeat' split) <;> (try simp only [List.getElem?_set]) <;> grind [St.setBg, St.setDone, St.bg, clearW, onOk, onErr, selNext, afterSetErr]
  | startOtx _ i hi =>
    (try simp only [St.setDone, St.setBg]) <;> (repeat' split) <;> (try simp only [List.getElem?_set]) <;> grind [St.setBg, St.setDone, St.bg, clearW, onOk, onErr, selNext, afterSetErr]
  | startCommit _ i hi hu =>
    (try simp only [St.setDone, St.setBg]) <;> (repeat' split) <;> (try simp only [List.getElem?_set]) <;> grind [St.setBg, St.setDone, St.bg, clearW, onOk, onErr, selNext, afterSetErr]
  | startDiscard _ i hi hu =>
    (try simp only [St.setDone, St.setBg]) <;> (repeat' split) <;> (try simp only [List.getElem?_set]) <;> grind [St.setBg, St.setDone, St.bg, clearW, onOk, onErr, selNext, afterSetErr]
  | startCR _ i hi =>
    (try simp only [St.setDone, St.setBg]) <;> (repeat' split) <;> (try simp only [List.getElem?_set]) <;> grind [St.setBg, St.setDone, St.bg, clearW, onOk, onErr, selNext, afterSetErr]
  | startSR _ i hi ha =>
    (try simp only [St.setDone, St.setBg]) <;> (repeat' split) <;> (try simp only [List.getElem?_set]) <;> grind [St.setBg, St.setDone, St.bg, clearW, onOk, onErr, selNext, afterSetErr]
  | startClose _ i hi =>
    (try simp only [St.setDone, St.setBg]) <;> (repeat' split) <;> (try simp only [List.getElem?_set]) <;> grind [St.setBg, St.setDone, St.bg, clearW, onOk, onErr, selNext, afterSetErr]
  | selTok _ i p q hi hq ht =>
    cases p <;> simp only [selNext] at hq <;> (try contradiction) <;> cases hq <;> (try simp only [List.getElem?_set]) <;> grind [St.setBg, St.setDone, St.bg, clearW, onOk, onErr, selNext, afterSetErr]
  | selPerErr _ i p q hi hq he =>
    cases p <;> simp only [selNext] at hq <;> (try contradiction) <;> cases hq <;> (try simp only [List.getElem?_set]) <;> grind [St.setBg, St.setDone, St.bg, clearW, onOk, onErr, selNext, afterSetErr]
  | selClosed _ i p q hi hq hc =>
    cases p <;> simp only [selNext] at hq <;> (try contradiction) <;> cases hq <;> (try simp only [List.getElem?_set]) <;> grind [St.setBg, St.setDone, St.bg, clearW, onOk, onErr, selNext, afterSetErr]
  | putNoWait _ i hi =>
    (try simp only [St.setDone, St.setBg]) <;> (repeat' split) <;> (try simp only [List.getElem?_set]) <;> grind [St.setBg, St.setDone, St.bg, clearW, onOk, onErr, selNext, afterSetErr]
  | putWait _ i b hi =>
    (try simp only [St.setDone, St.setBg]) <;> (repeat' split) <;> (try simp only [List.getElem?_set]) <;> grind [St.setBg, St.setDone, St.bg, clearW, onOk, onErr, selNext, afterSetErr]
  | putJournalOk _ i hi =>
    (try simp only [St.setDone, St.setBg]) <;> (repeat' split) <;> (try simp only [List.getElem?_set]) <;> grind [St.setBg, St.setDone, St.bg, clearW, onOk, onErr, selNext, afterSetErr]
  | putJournalFail _ i hi =>
    (try simp only [St.setDone, St.setBg]) <;> (repeat' split) <;> (try simp only [List.getElem?_set]) <;> grind [St.setBg, St.setDone, St.bg, clearW, onOk, onErr, selNext, afterSetErr]
  | putUnlock _ i r hi =>
    (try simp only [St.setDone, St.setBg]) <;> (repeat' split) <;> (try simp only [List.getElem?_set]) <;> grind [St.setBg, St.setDone, St.bg, clearW, onOk, onErr, selNext, afterSetErr]
  | cwSendGo _ i b site lg hi hb =>
    cases site <;> (try simp only [St.setDone, St.setBg]) <;> (repeat' split) <;> (try simp only [List.getElem?_set]) <;> grind [St.setBg, St.setDone, St.bg, clearW, onOk, onErr, selNext, afterSetErr]
  | cwSendErr _ i b site lg hi he =>
    cases site <;> (try simp only [St.setDone, St.setBg]) <;> (repeat' split) <;> (try simp only [List.getElem?_set]) <;> grind [St.setBg, St.setDone, St.bg, clearW, onOk, onErr, selNext, afterSetErr]
  | cwAckErr _ i b site lg hi he =>
    cases site <;> (try simp only [St.setDone, St.setBg]) <;> (repeat' split) <;> (try simp only [List.getElem?_set]) <;> grind [St.setBg, St.setDone, St.bg, clearW, onOk, onErr, selNext, afterSetErr]
  | otxRotate _ i lg hi =>
    (try simp only [St.setDone, St.setBg]) <;> (repeat' split) <;> (try simp only [List.getElem?_set]) <;> grind [St.setBg, St.setDone, St.bg, clearW, onOk, onErr, selNext, afterSetErr]
  | otxNoRotate _ i lg hi =>
    (try simp only [St.setDone, St.setBg]) <;> (repeat' split) <;> (try simp only [List.getElem?_set]) <;> grind [St.setBg, St.setDone, St.bg, clearW, onOk, onErr, selNext, afterSetErr]
  | otxNewMemOk _ i lg hi =>
    (try simp only [St.setDone, St.setBg]) <;> (repeat' split) <;> (try simp only [List.getElem?_set]) <;> grind [St.setBg, St.setDone, St.bg, clearW, onOk, onErr, selNext, afterSetErr]
  | otxNewMemFail _ i lg hi =>
    (try simp only [St.setDone, St.setBg]) <;> (repeat' split) <;> (try simp only [List.getElem?_set]) <;> grind [St.setBg, St.setDone, St.bg, clearW, onOk, onErr, selNext, afterSetErr]
  | otxNoWaitComp _ i lg hi =>
    (try simp only [St.setDone, St.setBg]) <;> (repeat' split) <;> (try simp only [List.getElem?_set]) <;> grind [St.setBg, St.setDone, St.bg, clearW, onOk, onErr, selNext, afterSetErr]
  | otxWaitComp _ i lg hi =>
    (try simp only [St.setDone, St.setBg]) <;> (repeat' split) <;> (try simp only [List.getElem?_set]) <;> grind [St.setBg, St.setDone, St.bg, clearW, onOk, onErr, selNext, afterSetErr]
  | otxFail _ i lg hi =>
    (try simp only [St.setDone, St.setBg]) <;> (repeat' split) <;> (try simp only [List.getElem?_set]) <;> grind [St.setBg, St.setDone, St.bg, clearW, onOk, onErr, selNext, afterSetErr]
  | otxRel _ i lg hi =>
    (try simp only [St.setDone, St.setBg]) <;> (repeat' split) <;> (try simp only [List.getElem?_set]) <;> grind [St.setBg, St.setDone, St.bg, clearW, onOk, onErr, selNext, afterSetErr]
  | otxDone _ i lg hi =>
    (try simp only [St.setDone, St.setBg]) <;> (repeat' split) <;> (try simp only [List.getElem?_set]) <;> grind [St.setBg, St.setDone, St.bg, clearW, onOk, onErr, selNext, afterSetErr]
  | lgWriteOk _ i hi =>
    (try simp only [St.setDone, St.setBg]) <;> (repeat' split) <;> (try simp only [List.getElem?_set]) <;> grind [St.setBg, St.setDone, St.bg, clearW, onOk, onErr, selNext, afterSetErr]
  | lgWriteFail _ i hi =>
    (try simp only [St.setDone, St.setBg]) <;> (repeat' split) <;> (try simp only [List.getElem?_set]) <;> grind [St.setBg, St.setDone, St.bg, clearW, onOk, onErr, selNext, afterSetErr]
  | cmLockTr _ i lg hi hl =>
    (try simp only [St.setDone, St.setBg]) <;> (repeat' split) <;> (try simp only [List.getElem?_set]) <;> grind [St.setBg, St.setDone, St.bg, clearW, onOk, onErr, selNext, afterSetErr]
  | cmFlushOk _ i lg hi =>
    (try simp only [St.setDone, St.setBg]) <;> (repeat' split) <;> (try simp only [List.getElem?_set]) <;> grind [St.setBg, St.setDone, St.bg, clearW, onOk, onErr, selNext, afterSetErr]
  | cmFlushEmpty _ i lg hi =>
    (try simp only [St.setDone, St.setBg]) <;> (repeat' split) <;> (try simp only [List.getElem?_set]) <;> grind [St.setBg, St.setDone, St.bg, clearW, onOk, onErr, selNext, afterSetErr]
  | cmFlushFail _ i lg hi =>
    (try simp only [St.setDone, St.setBg]) <;> (repeat' split) <;> (try simp only [List.getElem?_set]) <;> grind [St.setBg, St.setDone, St.bg, clearW, onOk, onErr, selNext, afterSetErr]
  | cmLockClk _ i lg hi hl =>
    (try simp only [St.setDone, St.setBg]) <;> (repeat' split) <;> (try simp only [List.getElem?_set]) <;> grind [St.setBg, St.setDone, St.bg, clearW, onOk, onErr, selNext, afterSetErr]
  | cmTryOk _ i k lg hi =>
    (try simp only [St.setDone, St.setBg]) <;> (repeat' split) <;> (try simp only [List.getElem?_set]) <;> grind [St.setBg, St.setDone, St.bg, clearW, onOk, onErr, selNext, afterSetErr]
  | cmTryFail _ i k lg hi =>
    (try simp only [St.setDone, St.setBg]) <;> (repeat' split) <;> (try simp only [List.getElem?_set]) <;> grind [St.setBg, St.setDone, St.bg, clearW, onOk, onErr, selNext, afterSetErr]
  | cmSleepTimer _ i k lg hi =>
    (try simp only [St.setDone, St.setBg]) <;> (repeat' split) <;> (try simp only [List.getElem?_set]) <;> grind [St.setBg, St.setDone, St.bg, clearW, onOk, onErr, selNext, afterSetErr]
  | cmSleepClosed _ i k lg hi hc =>
    (try simp only [St.setDone, St.setBg]) <;> (repeat' split) <;> (try simp only [List.getElem?_set]) <;> grind [St.setBg, St.setDone, St.bg, clearW, onOk, onErr, selNext, afterSetErr]
  | cmFail3 _ i lg hi =>
    (try simp only [St.setDone, St.setBg]) <;> (repeat' split) <;> (try simp only [List.getElem?_set]) <;> grind [St.setBg, St.setDone, St.bg, clearW, onOk, onErr, selNext, afterSetErr]
  | cmAfterOk _ i lg hi =>
    (try simp only [St.setDone, St.setBg]) <;> (repeat' split) <;> (try simp only [List.getElem?_set]) <;> grind [St.setBg, St.setDone, St.bg, clearW, onOk, onErr, selNext, afterSetErr]
  | cmNoWaitComp _ i lg hi =>
    (try simp only [St.setDone, St.setBg]) <;> (repeat' split) <;> (try simp only [List.getElem?_set]) <;> grind [St.setBg, St.setDone, St.bg, clearW, onOk, onErr, selNext, afterSetErr]
  | cmWaitComp _ i lg hi =>
    (try simp only [St.setDone, St.setBg]) <;> (repeat' split) <;> (try simp only [List.getElem?_set]) <;> grind [St.setBg, St.setDone, St.bg, clearW, onOk, onErr, selNext, afterSetErr]
  | cmDone _ i lg hi =>
    (try simp only [St.setDone, St.setBg]) <;> (repeat' split) <;> (try simp only [List.getElem?_set]) <;> grind [St.setBg, St.setDone, St.bg, clearW, onOk, onErr, selNext, afterSetErr]
  | cmRet _ i ok lg hi =>
    (try simp only [St.setDone, St.setBg]) <;> (repeat' split) <;> (try simp only [List.getElem?_set]) <;> grind [St.setBg, St.setDone, St.bg, clearW, onOk, onErr, selNext, afterSetErr]
  | dcLockTr _ i lg hi hl =>
    (try simp only [St.setDone, St.setBg]) <;> (repeat' split) <;> (try simp only [List.getElem?_set]) <;> grind [St.setBg, St.setDone, St.bg, clearW, onOk, onErr, selNext, afterSetErr]
  | dcBody _ i lg hi =>
    (try simp only [St.setDone, St.setBg]) <;> (repeat' split) <;> (try simp only [List.getElem?_set]) <;> grind [St.setBg, St.setDone, St.bg, clearW, onOk, onErr, selNext, afterSetErr]
  | crNoOverlap _ i hi =>
    (try simp only [St.setDone, St.setBg]) <;> (repeat' split) <;> (try simp only [List.getElem?_set]) <;> grind [St.setBg, St.setDone, St.bg, clearW, onOk, onErr, selNext, afterSetErr]
  | crOverlap _ i hi =>
    (try simp only [St.setDone, St.setBg]) <;> (repeat' split) <;> (try simp only [List.getElem?_set]) <;> grind [St.setBg, St.setDone, St.bg, clearW, onOk, onErr, selNext, afterSetErr]
  | crNewMemOk _ i hi =>
    (try simp only [St.setDone, St.setBg]) <;> (repeat' split) <;> (try simp only [List.getElem?_set]) <;> grind [St.setBg, St.setDone, St.bg, clearW, onOk, onErr, selNext, afterSetErr]
  | crNewMemFail _ i hi =>
    (try simp only [St.setDone, St.setBg]) <;> (repeat' split) <;> (try simp only [List.getElem?_set]) <;> grind [St.setBg, St.setDone, St.bg, clearW, onOk, onErr, selNext, afterSetErr]
  | crRelM _ i hi =>
    (try simp only [St.setDone, St.setBg]) <;> (repeat' split) <;> (try simp only [List.getElem?_set]) <;> grind [St.setBg, St.setDone, St.bg, clearW, onOk, onErr, selNext, afterSetErr]
  | crRelOk _ i hi =>
    (try simp only [St.setDone, St.setBg]) <;> (repeat' split) <;> (try simp only [List.getElem?_set]) <;> grind [St.setBg, St.setDone, St.bg, clearW, onOk, onErr, selNext, afterSetErr]
  | crRelFail _ i hi =>
    (try simp only [St.setDone, St.setBg]) <;> (repeat' split) <;> (try simp only [List.getElem?_set]) <;> grind [St.setBg, St.setDone, St.bg, clearW, onOk, onErr, selNext, afterSetErr]
  | srSend _ i hi he =>
    (try simp only [St.setDone, St.setBg]) <;> (repeat' split) <;> (try simp only [List.getElem?_set]) <;> grind [St.setBg, St.setDone, St.bg, clearW, onOk, onErr, selNext, afterSetErr]
  | srPerErr _ i hi he =>
    (try simp only [St.setDone, St.setBg]) <;> (repeat' split) <;> (try simp only [List.getElem?_set]) <;> grind [St.setBg, St.setDone, St.bg, clearW, onOk, onErr, selNext, afterSetErr]
  | srClosed _ i hi hc =>
    (try simp only [St.setDone, St.setBg]) <;> (repeat' split) <;> (try simp only [List.getElem?_set]) <;> grind [St.setBg, St.setDone, St.bg, clearW, onOk, onErr, selNext, afterSetErr]
  | clCheckTr _ i hi =>
    (try simp only [St.setDone, St.setBg]) <;> (repeat' split) <;> (try simp only [List.getElem?_set]) <;> grind [St.setBg, St.setDone, St.bg, clearW, onOk, onErr, selNext, afterSetErr]
  | clLockTr _ i hi hl =>
    (try simp only [St.setDone, St.setBg]) <;> (repeat' split) <;> (try simp only [List.getElem?_set]) <;> grind [St.setBg, St.setDone, St.bg, clearW, onOk, onErr, selNext, afterSetErr]
  | clBody _ i hi =>
    (try simp only [St.setDone, St.setBg]) <;> (repeat' split) <;> (try simp only [List.getElem?_set]) <;> grind [St.setBg, St.setDone, St.bg, clearW, onOk, onErr, selNext, afterSetErr]
  | clAcq _ i hi ht =>
    (try simp only [St.setDone, St.setBg]) <;> (repeat' split) <;> (try simp only [List.getElem?_set]) <;> grind [St.setBg, St.setDone, St.bg, clearW, onOk, onErr, selNext, afterSetErr]
  | clWait _ i hi hm ht =>
    (try simp only [St.setDone, St.setBg]) <;> (repeat' split) <;> (try simp only [List.getElem?_set]) <;> grind [St.setBg, St.setDone, St.bg, clearW, onOk, onErr, selNext, afterSetErr]
  | ehAcquire _ he ht hn =>
    (try simp only [St.setDone, St.setBg]) <;> (repeat' split) <;> (try simp only [List.getElem?_set]) <;> grind [St.setBg, St.setDone, St.bg, clearW, onOk, onErr, selNext, afterSetErr]
  | ehExit _ he hc =>
    (try simp only [St.setDone, St.setBg]) <;> (repeat' split) <;> (try simp only [List.getElem?_set]) <;> grind [St.setBg, St.setDone, St.bg, clearW, onOk, onErr, selNext, afterSetErr]
  | bgExitIdle _ b hb hc =>
    (try simp only [St.setDone, St.setBg]) <;> (repeat' split) <;> (try simp only [List.getElem?_set]) <;> grind [St.setBg, St.setDone, St.bg, clearW, onOk, onErr, selNext, afterSetErr]
  | bgWorkOk _ b w hb =>
    (try simp only [St.setDone, St.setBg]) <;> (repeat' split) <;> (try simp only [List.getElem?_set]) <;> grind [St.setBg, St.setDone, St.bg, clearW, onOk, onErr, selNext, afterSetErr]
  | bgWorkFail _ b w hb =>
    (try simp only [St.setDone, St.setBg]) <;> (repeat' split) <;> (try simp only [List.getElem?_set]) <;> grind [St.setBg, St.setDone, St.bg, clearW, onOk, onErr, selNext, afterSetErr]
  | bgCommitOk _ b w hb =>
    (try simp only [St.setDone, St.setBg]) <;> (repeat' split) <;> (try simp only [List.getElem?_set]) <;> grind [St.setBg, St.setDone, St.bg, clearW, onOk, onErr, selNext, afterSetErr]
  | bgCommitFail _ b w hb =>
    (try simp only [St.setDone, St.setBg]) <;> (repeat' split) <;> (try simp only [List.getElem?_set]) <;> grind [St.setBg, St.setDone, St.bg, clearW, onOk, onErr, selNext, afterSetErr]
  | bgSetErr _ b w ok c hb he =>
    (try simp only [St.setDone, St.setBg]) <;> (repeat' split) <;> (try simp only [List.getElem?_set]) <;> grind [St.setBg, St.setDone, St.bg, clearW, onOk, onErr, selNext, afterSetErr]
  | bgSetErrPer _ b w c hb he =>
    (try simp only [St.setDone, St.setBg]) <;> (repeat' split) <;> (try simp only [List.getElem?_set]) <;> grind [St.setBg, St.setDone, St.bg, clearW, onOk, onErr, selNext, afterSetErr]
  | bgBackoff _ b w c hb =>
    (try simp only [St.setDone, St.setBg]) <;> (repeat' split) <;> (try simp only [List.getElem?_set]) <;> grind [St.setBg, St.setDone, St.bg, clearW, onOk, onErr, selNext, afterSetErr]
  | bgLockClk _ b w hb hl =>
    (try simp only [St.setDone, St.setBg]) <;> (repeat' split) <;> (try simp only [List.getElem?_set]) <;> grind [St.setBg, St.setDone, St.bg, clearW, onOk, onErr, selNext, afterSetErr]
  | bgAck _ b w hb =>
    left
    have := ackWs_clWait s.ws w b i' hi'
    cases b <;> simpa [St.setBg] using this
  | bgExit _ b w ph hb hx =>
    (try simp only [St.setDone, St.setBg]) <;> (repeat' split) <;> (try simp only [List.getElem?_set]) <;> grind [St.setBg, St.setDone, St.bg, clearW, onOk, onErr, selNext, afterSetErr]

/-- with `compCommitLk` leaked and `mCompaction` blocked on it, a `Close` in `closeW.Wait()` stays there -/
theorem clkOrphan_close_stuck (cfg : Cfg) (s t : St) (h : Steps cfg s t) (ho : ClkOrphan s) (i : Nat)
    (hi : s.ws[i]? = some .clWait) : ClkOrphan t ∧ t.ws[i]? = some .clWait := by
  induction h with
  | refl => exact ⟨ho, hi⟩
  | tail _ h2 ih =>
    obtain ⟨ho', hi'⟩ := ih
    refine ⟨step_clkOrphan cfg _ _ _ h2 ho', ?_⟩
    rcases clWait_step cfg _ _ _ h2 i hi' with h | ⟨h, _⟩
    · exact h
    · obtain ⟨_, _, _, w, hw⟩ := ho'
      rw [hw] at h; cases h

end GoLevel.Locks
