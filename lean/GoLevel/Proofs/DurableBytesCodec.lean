import GoLevel.Model.DurableBytes
import GoLevel.Proofs.Manifest
import GoLevel.Proofs.Batch
/-!
Record codecs of the byte-level disk (`Model/DurableBytes.lean`): what the writers encode, the readers decode.
-/
namespace GoLevel.Dur
open GoLevel GoLevel.Manifest

theorem decGrp_enc (g : Grp) (h : g.Encodable) : decGrp (encGrpBytes g) = some g.onDisk := by
  obtain ⟨h1, h2, h3⟩ := h
  simp only [decGrp, encGrpBytes, Batch.decode_encode g.seq g.recs h1 h2 h3, Option.map_some, Grp.onDisk]

theorem encMRec_valid (x : EncCtx) (hx : x.Valid) (r : MRec) (hr : r.Encodable) : (encMRec x r).valid := by
  obtain ⟨hc, hm⟩ := hx
  obtain ⟨hj, hs, hn, ha, hd⟩ := hr
  refine ⟨rfl, ?_⟩
  intro f hf
  simp only [SessionRecord.fields, encMRec, List.mem_append, List.mem_map, Option.mem_toList, Option.map_eq_some_iff,
    List.map_nil, List.not_mem_nil, or_false, List.map_map] at hf
  rcases hf with ((((⟨c, hc', rfl⟩ | ⟨j, hj', rfl⟩) | ⟨n, hn', rfl⟩) | ⟨s, hs', rfl⟩) | ⟨n, hn', rfl⟩) | ⟨n, hn', rfl⟩
  · split at hc'
    · cases hc'; exact hc
    · cases hc'
  · exact hj j hj'
  · cases hn'; exact hn
  · exact hs s hs'
  · exact ⟨(hm n).1, hd n hn'⟩
  · exact ⟨(hm n).1, ha n hn', (hm n).2.1, (hm n).2.2.1, (hm n).2.2.2⟩

theorem toMRec_encMRec (x : EncCtx) (r : MRec) (ht : r.torn = false) : toMRec (encMRec x r) = r := by
  obtain ⟨sn, jn, sq, nf, ad, de, tn⟩ := r
  simp only at ht
  subst ht
  simp only [toMRec, encMRec, List.map_map, Option.getD_some]
  congr 1
  · cases sn <;> simp
  · simp [Function.comp_def]
  · simp [Function.comp_def]

theorem decMRec_enc (x : EncCtx) (hx : x.Valid) (r : MRec) (hr : r.Encodable) (ht : r.torn = false) :
    decMRec (encMRecBytes x r) = some r := by
  simp only [decMRec, encMRecBytes, Manifest.decode_encode _ (encMRec_valid x hx r hr), Option.map_some,
    toMRec_encMRec x r ht]

/-- a list of payloads decoded one by one -/
theorem filterMap_dec_map {α : Type} (dec : Bytes → Option α) (enc : α → Bytes) (f : α → α) (l : List α)
    (h : ∀ a ∈ l, dec (enc a) = some (f a)) : (l.map enc).filterMap dec = l.map f := by
  induction l with
  | nil => rfl
  | cons a l ih =>
    simp only [List.map_cons, List.filterMap_cons, h a List.mem_cons_self]
    rw [ih fun b hb => h b (List.mem_cons_of_mem _ hb)]

end GoLevel.Dur
