import GoLevel.Proofs.LocksInv
import GoLevel.Proofs.LocksW1
import GoLevel.Proofs.LocksPInvA
import GoLevel.Proofs.LocksPInvB
import GoLevel.Proofs.LocksPInvC
import GoLevel.Proofs.LocksPInvD
import GoLevel.Proofs.LocksPInvE
import GoLevel.Proofs.LocksPInvF
/-! Progress (`compactionError` as coded, given the invariants `Good`): while a call is pending some fault-free step is enabled, unless
the only thing everybody waits for is the user's open transaction. -/
namespace GoLevel.Locks

open CompErr

/-- all invariants (they hold with the three fixes, `compactionError` as coded, and the fourth fix or no
`SetReadOnly`) -/
structure Good (s : St) : Prop where
  r : RInvW s
  a : PInvA s
  b : PInvB s
  c : PInvC s
  d : PInvD s
  e : PInvE s
  w : W1 s

variable {R : Cfg}

theorem recvs_of (hm : R.m = .asCoded R.closeSel) {e : Eh} (h : e = .noerr ∨ e = .haserr) : recvs R.m e = true := by
  rw [hm]; exact (recvs_asCoded _ e).mpr h
theorem offPer_of (hm : R.m = .asCoded R.closeSel) {e : Eh} (h : e = .hasperr) : offPer R.m e = true := by
  rw [hm]; exact (offPer_asCoded _ e).mpr h
theorem offErr_of (hm : R.m = .asCoded R.closeSel) {e : Eh} (h : e = .hasperr) : offErr R.m e = true := by
  rw [hm]; exact (offErr_asCoded _ e).mpr (Or.inr h)
theorem closes_of (hm : R.m = .asCoded R.closeSel) {e : Eh} (h : e = .hasperr) : closes R.m e = true := by
  rw [hm]; exact (closes_asCoded _ e).mpr (Or.inr (Or.inr h))

/-- a thread at a program counter that never blocks has a fault-free step -/
macro "nb_step" hi:ident : tactic => `(tactic| first
  | exact ⟨_, Step.putNoWait _ _ $hi⟩ | exact ⟨_, Step.putJournalOk _ _ $hi⟩
  | exact ⟨_, Step.putUnlock _ _ _ $hi⟩ | exact ⟨_, Step.otxRotate _ _ _ $hi⟩
  | exact ⟨_, Step.otxNewMemOk _ _ _ $hi⟩ | exact ⟨_, Step.otxNoWaitComp _ _ _ $hi⟩
  | exact ⟨_, Step.otxFail _ _ _ $hi⟩ | exact ⟨_, Step.otxRel _ _ _ $hi⟩ | exact ⟨_, Step.otxDone _ _ _ $hi⟩
  | exact ⟨_, Step.lgWriteOk _ _ $hi⟩ | exact ⟨_, Step.cmFlushOk _ _ _ $hi⟩ | exact ⟨_, Step.cmTryOk _ _ _ _ $hi⟩
  | exact ⟨_, Step.cmSleepTimer _ _ _ _ $hi⟩ | exact ⟨_, Step.cmFail3 _ _ _ $hi⟩
  | exact ⟨_, Step.cmAfterOk _ _ _ $hi⟩ | exact ⟨_, Step.cmNoWaitComp _ _ _ $hi⟩
  | exact ⟨_, Step.cmDone _ _ _ $hi⟩ | exact ⟨_, Step.cmRet _ _ _ _ $hi⟩ | exact ⟨_, Step.dcBody _ _ _ $hi⟩
  | exact ⟨_, Step.crNoOverlap _ _ $hi⟩ | exact ⟨_, Step.crNewMemOk _ _ $hi⟩ | exact ⟨_, Step.crRelM _ _ $hi⟩
  | exact ⟨_, Step.crRelOk _ _ $hi⟩ | exact ⟨_, Step.crRelFail _ _ $hi⟩ | exact ⟨_, Step.clCheckTr _ _ $hi⟩
  | exact ⟨_, Step.clBody _ _ $hi⟩)

/-- the `select` after a compaction's storage action always has an enabled arm -/
theorem setErr_step (hm : R.m = .asCoded R.closeSel) (s : St) (g : Good s) (b : Bool) (w : Option Nat) (ok c : Bool)
    (hb : s.bg b = .run w (.setErr ok c)) : ∃ t, Step R false s t := by
  cases he : s.eh with
  | noerr => exact ⟨_, Step.bgSetErr s b w ok c hb (recvs_of hm (Or.inl he))⟩
  | haserr => exact ⟨_, Step.bgSetErr s b w ok c hb (recvs_of hm (Or.inr he))⟩
  | hasperr =>
    cases ok with
    | true => exact ⟨_, Step.bgSetErrPer s b w c hb (offPer_of hm he)⟩
    | false => exact ⟨_, Step.bgExit s b w _ hb (Or.inr ⟨offPer_of hm he, c, Or.inl rfl⟩)⟩
  | closing =>
    have hc := g.a.2.2.2.1 he
    exact ⟨_, Step.bgExit s b w _ hb (Or.inl ⟨hc, by simp, by simp⟩)⟩
  | exited =>
    have hc := g.a.2.2.1 he
    exact ⟨_, Step.bgExit s b w _ hb (Or.inl ⟨hc, by simp, by simp⟩)⟩

/-- … also with a corruption error in hand -/
theorem setErrC_step (hm : R.m = .asCoded R.closeSel) (s : St) (g : Good s) (b : Bool) (w : Option Nat) (c : Bool)
    (hb : s.bg b = .run w (.setErrC c)) : ∃ t, Step R false s t := by
  cases he : s.eh with
  | noerr => exact ⟨_, Step.bgSetErrCorrupt s b w c hb (recvs_of hm (Or.inl he))⟩
  | haserr => exact ⟨_, Step.bgSetErrCorrupt s b w c hb (recvs_of hm (Or.inr he))⟩
  | hasperr => exact ⟨_, Step.bgExit s b w _ hb (Or.inr ⟨offPer_of hm he, c, Or.inr rfl⟩)⟩
  | closing =>
    have hc := g.a.2.2.2.1 he
    exact ⟨_, Step.bgExit s b w _ hb (Or.inl ⟨hc, by simp, by simp⟩)⟩
  | exited =>
    have hc := g.a.2.2.1 he
    exact ⟨_, Step.bgExit s b w _ hb (Or.inl ⟨hc, by simp, by simp⟩)⟩

/-- whoever holds `compCommitLk` can move -/
theorem clk_step (hm : R.m = .asCoded R.closeSel) (s : St) (g : Good s) (hc : s.clk = true) : ∃ t, Step R false s t := by
  have h := g.r.clkI
  rw [hc] at h; simp only [b2n_true] at h
  by_cases h1 : 0 < tot clkW s.ws
  · obtain ⟨i, p, hi, hp⟩ := exists_of_tot_pos clkW s.ws h1
    cases p <;> simp [clkW] at hp <;> nb_step hi
  · by_cases h2 : 0 < bgClk s.mc
    · cases hmc : s.mc with
      | run w ph =>
        have hb : s.bg false = .run w ph := by simp [St.bg, hmc]
        rw [hmc] at h2
        cases ph with
        | commit => exact ⟨_, Step.bgCommitOk s false w hb⟩
        | setErr ok c => exact setErr_step hm s g false w ok c hb
        | setErrC c => exact setErrC_step hm s g false w c hb
        | backoff c => exact ⟨_, Step.bgBackoff s false w c hb⟩
        | _ => simp [bphClk] at h2
      | _ => simp [hmc] at h2
    · have h3 : 0 < bgClk s.tc := by omega
      cases hmc : s.tc with
      | run w ph =>
        have hb : s.bg true = .run w ph := by simp [St.bg, hmc]
        rw [hmc] at h3
        cases ph with
        | commit => exact ⟨_, Step.bgCommitOk s true w hb⟩
        | setErr ok c => exact setErr_step hm s g true w ok c hb
        | setErrC c => exact setErrC_step hm s g true w c hb
        | backoff c => exact ⟨_, Step.bgBackoff s true w c hb⟩
        | _ => simp [bphClk] at h3
      | _ => simp [hmc] at h3

/-- a compaction in progress can move -/
theorem bg_run_step (hm : R.m = .asCoded R.closeSel) (s : St) (g : Good s) (b : Bool) (w : Option Nat) (ph : BPh)
    (hb : s.bg b = .run w ph) :
    ∃ t, Step R false s t := by
  cases ph with
  | work => exact ⟨_, Step.bgWorkOk s b w hb⟩
  | setErr ok c => exact setErr_step hm s g b w ok c hb
  | setErrC c => exact setErrC_step hm s g b w c hb
  | backoff c => exact ⟨_, Step.bgBackoff s b w c hb⟩
  | lockClk =>
    cases hc : s.clk with
    | false => exact ⟨_, Step.bgLockClk s b w hb hc⟩
    | true => exact clk_step hm s g hc
  | commit => exact ⟨_, Step.bgCommitOk s b w hb⟩
  | ackW => exact ⟨_, Step.bgAck s b w hb⟩

theorem alt_he (hm : R.m = .asCoded R.closeSel) (s : St) (h : Alt s) : offErr R.m s.eh = true ∨ s.closed = true := by
  rcases h with h | h
  · exact Or.inr h
  · exact Or.inl (offErr_of hm h)

theorem bg_exited_alt (s : St) (g : Good s) (b : Bool) (hb : s.bg b = .exited) : Alt s := by
  cases b with
  | false => exact g.a.1 (by simpa [St.bg] using hb)
  | true => exact g.a.2.1 (by simpa [St.bg] using hb)

theorem bg_parked_alt (s : St) (g : Good s) (b : Bool) (hb : s.bg b = .parked) : Alt s := by
  cases b with
  | false => exact absurd (by simpa [St.bg] using hb) g.a.2.2.2.2.2.2
  | true => exact g.a.2.2.2.2.2.1 (g.a.2.2.2.2.1 (by simpa [St.bg] using hb))

/-- a thread sending a compaction command can move, or the goroutine it talks to can -/
theorem cwSend_step (hm : R.m = .asCoded R.closeSel) (s : St) (g : Good s) (i : Nat) (b : Bool) (site : Site) (lg : Bool)
    (hi : s.ws[i]? = some (.cwSend b site lg)) : ∃ t, Step R false s t := by
  cases hb : s.bg b with
  | idle =>
    cases hro : (b && R.roParks && s.ro) with
    | false => exact ⟨_, Step.cwSendGo s i b site lg hi hb hro⟩
    | true =>
      simp only [Bool.and_eq_true] at hro
      obtain ⟨⟨h1, h2⟩, h3⟩ := hro
      subst h1
      exact ⟨_, Step.cwSendRO s i site lg hi (by simpa [St.bg] using hb) h2 h3⟩
  | run w ph => exact bg_run_step hm s g b w ph hb
  | exited => exact ⟨_, Step.cwSendErr s i b site lg hi (alt_he hm s (bg_exited_alt s g b hb))⟩
  | parked => exact ⟨_, Step.cwSendErr s i b site lg hi (alt_he hm s (bg_parked_alt s g b hb))⟩

theorem cwAck_step (hm : R.m = .asCoded R.closeSel) (s : St) (g : Good s) (i : Nat) (b : Bool) (site : Site) (lg : Bool)
    (hi : s.ws[i]? = some (.cwAck b site lg)) : ∃ t, Step R false s t := by
  rcases g.w i b site lg hi with ⟨ph, hb⟩ | ha
  · exact bg_run_step hm s g b (some i) ph hb
  · exact ⟨_, Step.cwAckErr s i b site lg hi (alt_he hm s ha)⟩

/-- whoever holds `tr.lk` can move -/
theorem trlk_step (hm : R.m = .asCoded R.closeSel) (s : St) (g : Good s) (hl : s.trlk = true) : ∃ t, Step R false s t := by
  have h := g.r.trlkI
  rw [hl] at h; simp only [b2n_true] at h
  obtain ⟨i, p, hi, hp⟩ := exists_of_tot_pos trlkW s.ws (by omega)
  cases p with
  | cmLockClk lg =>
    cases hc : s.clk with
    | false => exact ⟨_, Step.cmLockClk s i lg hi hc⟩
    | true => exact clk_step hm s g hc
  | cwSend b site lg => exact cwSend_step hm s g i b site lg hi
  | cwAck b site lg => exact cwAck_step hm s g i b site lg hi
  | _ => first | (simp [trlkW] at hp; done) | nb_step hi

theorem srSet_step (hm : R.m = .asCoded R.closeSel) (s : St) (g : Good s) (i : Nat) (hi : s.ws[i]? = some .srSet) :
    ∃ t, Step R false s t := by
  cases he : s.eh with
  | noerr => exact ⟨_, Step.srSend s i hi (recvs_of hm (Or.inl he))⟩
  | haserr => exact ⟨_, Step.srSend s i hi (recvs_of hm (Or.inr he))⟩
  | hasperr => exact ⟨_, Step.srPerErr s i hi (offPer_of hm he)⟩
  | closing => exact ⟨_, Step.srClosed s i hi (g.a.2.2.2.1 he)⟩
  | exited => exact ⟨_, Step.srClosed s i hi (g.a.2.2.1 he)⟩

theorem b2n_pos (b : Bool) (h : 0 < b2n b) : b = true := by cases b <;> simp [b2n] at h ⊢

theorem lockTr_or (hm : R.m = .asCoded R.closeSel) (s : St) (g : Good s) (hstep : s.trlk = false → ∃ t, Step R false s t) :
    ∃ t, Step R false s t := by
  cases hl : s.trlk with
  | false => exact hstep hl
  | true => exact trlk_step hm s g hl

/-- whoever holds the token can move — or it is the user's transaction, `compactionError` in its
persistent-error loop, or `Close` -/
theorem tok_step (hm : R.m = .asCoded R.closeSel) (s : St) (g : Good s) (ht : s.tok = true) :
    (∃ t, Step R false s t) ∨ (s.trOpen = true ∧ s.trUser = true) ∨
    (s.ehTok = true ∧ (s.eh = .hasperr ∨ s.eh = .closing)) ∨ s.closeTok = true := by
  have h := g.r.tokI
  rw [ht] at h; simp only [b2n_true] at h
  by_cases h1 : 0 < tot tokW s.ws
  · left
    obtain ⟨i, p, hi, hp⟩ := exists_of_tot_pos tokW s.ws h1
    cases p with
    | cwSend b site lg => exact cwSend_step hm s g i b site lg hi
    | cwAck b site lg => exact cwAck_step hm s g i b site lg hi
    | _ => first | (simp [tokW] at hp; done) | nb_step hi
  · by_cases h2 : 0 < b2n s.trOpen
    · have hto := b2n_pos _ h2
      by_cases hu' : s.trUser = true
      · exact Or.inr (Or.inl ⟨hto, hu'⟩)
      · have hu : s.trUser = false := by cases h : s.trUser <;> simp_all
        left
        have hd := g.d
        unfold PInvD at hd
        rw [hto, hu] at hd
        simp only [Bool.not_false, Bool.and_self, b2n_true] at hd
        obtain ⟨i, p, hi, hp⟩ := exists_of_tot_pos lgW s.ws (by omega)
        cases p with
        | cmLockTr lg => exact lockTr_or hm s g (fun hl => ⟨_, Step.cmLockTr s i lg hi hl⟩)
        | dcLockTr lg => exact lockTr_or hm s g (fun hl => ⟨_, Step.dcLockTr s i lg hi hl⟩)
        | cmLockClk lg =>
          cases hc : s.clk with
          | false => exact ⟨_, Step.cmLockClk s i lg hi hc⟩
          | true => exact clk_step hm s g hc
        | cwSend b site lg => exact cwSend_step hm s g i b site lg hi
        | cwAck b site lg => exact cwAck_step hm s g i b site lg hi
        | _ => first | (simp [lgW] at hp; done) | nb_step hi
    · by_cases h3 : 0 < b2n s.ehTok
      · have hb := g.b.1
        by_cases hper : s.eh = .hasperr ∨ s.eh = .closing
        · exact Or.inr (Or.inr (Or.inl ⟨b2n_pos _ h3, hper⟩))
        · left
          have : perW s.eh = 0 := by cases he : s.eh <;> simp_all
          obtain ⟨i, p, hi, hp⟩ := exists_of_tot_pos srW s.ws (by omega)
          cases p <;> simp [srW] at hp
          exact srSet_step hm s g i hi
      · exact Or.inr (Or.inr (Or.inr (b2n_pos _ (by omega))))

/-- the `select` on `writeLockC`: some arm is enabled, or the token holder can move -/
theorem sel_step (hm : R.m = .asCoded R.closeSel) (s : St) (g : Good s) (i : Nat) (p q : Pc) (hi : s.ws[i]? = some p)
    (hq : selNext p = some q) :
    (∃ t, Step R false s t) ∨ (s.trOpen = true ∧ s.trUser = true) := by
  cases ht : s.tok with
  | false => exact Or.inl ⟨_, Step.selTok s i p q hi hq ht⟩
  | true =>
    rcases tok_step hm s g ht with h | h | ⟨_, h | h⟩ | h
    · exact Or.inl h
    · exact Or.inr h
    · exact Or.inl ⟨_, Step.selPerErr s i p q hi hq (offPer_of hm h)⟩
    · exact Or.inl ⟨_, Step.selClosed s i p q hi hq (g.a.2.2.2.1 h)⟩
    · have := g.c.2.1
      rw [h] at this
      simp only [b2n_true] at this
      exact Or.inl ⟨_, Step.selClosed s i p q hi hq (b2n_pos _ (by omega))⟩

theorem close_closed (s : St) (g : Good s) (i : Nat) (p : Pc) (hi : s.ws[i]? = some p) (hp : 0 < clAllW p) :
    s.closed = true := by
  have := le_tot clAllW s.ws i p hi
  have := g.c.1
  exact b2n_pos _ (by omega)

/-- **progress**: while a call is pending, a fault-free step is enabled, unless everybody waits for the
user to commit or discard the open transaction -/
theorem progress (hm : R.m = .asCoded R.closeSel) (s : St) (g : Good s) (i : Nat) (p : Pc) (hi : s.ws[i]? = some p)
    (hp : pending p = true) :
    (∃ t, Step R false s t) ∨ (s.trOpen = true ∧ s.trUser = true) := by
  cases p with
  | idle => simp [pending] at hp
  | ret ok => simp [pending] at hp
  | retE e => simp [pending] at hp
  | putSel => exact sel_step hm s g i _ _ hi rfl
  | otxSel lg => exact sel_step hm s g i _ _ hi rfl
  | crSel => exact sel_step hm s g i _ _ hi rfl
  | srSel => exact sel_step hm s g i _ _ hi rfl
  | cwSend b site lg => exact Or.inl (cwSend_step hm s g i b site lg hi)
  | cwAck b site lg => exact Or.inl (cwAck_step hm s g i b site lg hi)
  | cmLockTr lg => exact Or.inl (lockTr_or hm s g (fun hl => ⟨_, Step.cmLockTr s i lg hi hl⟩))
  | dcLockTr lg => exact Or.inl (lockTr_or hm s g (fun hl => ⟨_, Step.dcLockTr s i lg hi hl⟩))
  | clLockTr => exact Or.inl (lockTr_or hm s g (fun hl => ⟨_, Step.clLockTr s i hi hl⟩))
  | cmLockClk lg =>
    cases hc : s.clk with
    | false => exact Or.inl ⟨_, Step.cmLockClk s i lg hi hc⟩
    | true => exact Or.inl (clk_step hm s g hc)
  | srSet => exact Or.inl (srSet_step hm s g i hi)
  | clAcq =>
    have hcl := close_closed s g i _ hi (by simp [clAllW])
    cases ht : s.tok with
    | false => exact Or.inl ⟨_, Step.clAcq s i hi ht⟩
    | true =>
      rcases tok_step hm s g ht with h | h | ⟨_, h | h⟩ | h
      · exact Or.inl h
      · exact Or.inr h
      · exact Or.inl ⟨_, Step.ehClose s (closes_of hm h) hcl⟩
      · cases hk : R.closeSel with
        | false => exact Or.inl ⟨_, Step.ehTake s h ht (by rw [hm, hk]; rfl)⟩
        | true => exact Or.inl ⟨_, Step.clAcqKept s i hi h (by rw [hm, hk]; rfl) hk⟩
      · exfalso
        have h1 := le_tot clPreW s.ws i _ hi
        have h2 := g.c.2.2
        rw [h] at h2
        simp [clPreW] at h1 h2
        omega
  | clWait =>
    have hcl := close_closed s g i _ hi (by simp [clAllW])
    left
    cases hmc : s.mc with
    | idle => exact ⟨_, Step.bgExitIdle s false (by simp [St.bg, hmc]) hcl⟩
    | run w ph => exact bg_run_step hm s g false w ph (by simp [St.bg, hmc])
    | parked => exact absurd hmc g.a.2.2.2.2.2.2
    | exited =>
      cases htc : s.tc with
      | idle => exact ⟨_, Step.bgExitIdle s true (by simp [St.bg, htc]) hcl⟩
      | run w ph => exact bg_run_step hm s g true w ph (by simp [St.bg, htc])
      | parked => exact ⟨_, Step.bgExitParked s htc hcl⟩
      | exited => exact ⟨_, Step.clWait s i hi hmc htc⟩
  | _ => left; nb_step hi

end GoLevel.Locks
