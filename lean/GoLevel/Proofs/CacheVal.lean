import GoLevel.Proofs.CacheCharge
/-! Invariant of the cache system, part 6: whoever holds a handle sees a value (`vl`). -/
namespace GoLevel.CacheM

set_option linter.unusedSimpArgs false

/-- Somebody relies on the value of `n`: a caller's handle, the LRU list, or a thread about to hand out /
release a handle. -/
def Holds (sh : Shared) (P : List Instr) (n : Node) : Prop :=
  n.id ∈ sh.handles ∨ n.lru = .inList ∨ ∃ j ∈ P, holdsVal n.id j = true

theorem holds_congr {sh sh' : Shared} {P : List Instr} {n n' : Node} (h : Holds sh' P n')
    (hh : sh'.handles = sh.handles) (hid : n'.id = n.id) (hl : n'.lru = n.lru) : Holds sh P n := by
  unfold Holds at *; rw [hh, hid, hl] at h; exact h

theorem holdsVal_owns {id : Nat} {j : Instr} (h : holdsVal id j = true) : owns id j = true := by
  cases j <;> simp_all [holdsVal, owns]

/-- Nobody holds a node that nothing references. -/
theorem not_holds_of_refs_zero {g sh P log} (h : InvP g sh P log) {n : Node} (hn : n ∈ sh.nodes)
    (h0 : refsP sh P n.id = 0) : ¬ Holds sh P n := by
  simp only [refsP] at h0
  rintro (hh | hl | ⟨j, hj, hv⟩)
  · have := List.count_pos_iff.mpr hh; omega
  · have := List.count_pos_iff.mpr ((h.lr.2 n.id).mpr ⟨n, hn, rfl, hl⟩); omega
  · have : 0 < P.countP (owns n.id) := List.countP_pos_iff.mpr ⟨j, hj, holdsVal_owns hv⟩
    omega

theorem vl_setv {g sh Q log sh' id sf push evs} (h : InvP g sh (Instr.setv id sf :: Q) log)
    (he : execSetv sh id sf = some (sh', push, evs)) :
    (Eff g sh' = true ∨ sh'.closed = false) → sh'.forced = false → ∀ n ∈ sh'.nodes,
      Holds sh' (push ++ Q) n → n.value.isSome = true := by
  have hvl := h.vl
  unfold execSetv at he
  cases hfind : findId sh.nodes id with
  | none =>
    simp [hfind] at he; obtain ⟨rfl, rfl, rfl⟩ := he
    intro hg hf n hn hold
    refine hvl hg hf n hn ?_
    rcases hold with hh | hl | ⟨j, hj, hv⟩
    · exact Or.inl hh
    · exact Or.inr (Or.inl hl)
    · exact Or.inr (Or.inr ⟨j, List.mem_cons_of_mem _ (by simpa using hj), hv⟩)
  | some n0 =>
    have hfs := findId_some hfind
    -- holders other than the new `promote id` were holders before
    have hold_old : ∀ {sh'' : Shared} {n m : Node} {p : List Instr}, sh''.handles = sh.handles →
        n.id = m.id → n.lru = m.lru → (∀ j ∈ p, holdsVal m.id j = true → False) →
        Holds sh'' (p ++ Q) n → Holds sh (Instr.setv id sf :: Q) m := by
      intro sh'' n m p hh hid hlru hp hold
      rcases hold with h1 | h1 | ⟨j, hj, hv⟩
      · exact Or.inl (by rw [← hid, ← hh]; exact h1)
      · exact Or.inr (Or.inl (by rw [← hlru]; exact h1))
      · rw [hid] at hv
        rcases List.mem_append.mp hj with hj | hj
        · exact (hp j hj hv).elim
        · exact Or.inr (Or.inr ⟨j, List.mem_cons_of_mem _ hj, hv⟩)
    cases hval : n0.value with
    | some v =>
      simp [hfind, hval] at he; obtain ⟨rfl, rfl, rfl⟩ := he
      intro hg hf n hn hold
      by_cases hid : n.id = id
      · have := found_unique h.ids.1 hfind hn hid
        subst this; simp [hval]
      · refine hvl hg hf n hn (hold_old (p := [.promote id]) rfl rfl rfl ?_ hold)
        intro j hj hv
        simp only [List.mem_singleton] at hj; subst hj
        simp [holdsVal] at hv; omega
    | none =>
      cases sf with
      | none =>
        simp [hfind, hval] at he; obtain ⟨rfl, rfl, rfl⟩ := he
        intro hg hf n hn hold
        refine hvl hg hf n hn (hold_old (p := [.unrefInt id, .retNil]) rfl rfl rfl ?_ hold)
        intro j hj hv
        simp only [List.mem_cons, List.not_mem_nil, or_false] at hj
        rcases hj with rfl | rfl <;> simp [holdsVal] at hv
      | nilv sz =>
        simp [hfind, hval] at he; obtain ⟨rfl, rfl, rfl⟩ := he
        intro hg hf n hn hold
        obtain ⟨m, hm, rfl⟩ := mem_upd.mp hn
        have hm' := hvl hg hf m hm (hold_old (p := [.unrefInt id, .retNil]) (m := m) rfl (by split <;> rfl)
          (by split <;> rfl) (by
            intro j hj hv
            simp only [List.mem_cons, List.not_mem_nil, or_false] at hj
            rcases hj with rfl | rfl <;> simp [holdsVal] at hv) hold)
        split <;> simpa using hm'
      | val sz =>
        simp [hfind, hval] at he; obtain ⟨rfl, rfl, rfl⟩ := he
        intro hg hf n hn hold
        obtain ⟨m, hm, rfl⟩ := mem_upd.mp hn
        by_cases hid : m.id = id
        · simp [hid]
        · simp only [hid, if_false] at hold ⊢
          refine hvl hg hf m hm (hold_old (p := [.promote id]) rfl rfl rfl ?_ hold)
          intro j hj hv
          simp only [List.mem_singleton] at hj; subst hj
          simp [holdsVal] at hv; omega

theorem vl_ban {g sh Q log sh' id push evs} (h : InvP g sh (Instr.ban id :: Q) log)
    (he : execBan sh id = some (sh', push, evs)) :
    (Eff g sh' = true ∨ sh'.closed = false) → sh'.forced = false → ∀ n ∈ sh'.nodes,
      Holds sh' (push ++ Q) n → n.value.isSome = true := by
  have hvl := h.vl
  have keep : ∀ {n : Node}, (∃ j ∈ Q, holdsVal n.id j = true) → Holds sh (Instr.ban id :: Q) n :=
    fun ⟨j, hj, hv⟩ => Or.inr (Or.inr ⟨j, List.mem_cons_of_mem _ hj, hv⟩)
  unfold execBan at he
  cases hfind : findId sh.nodes id with
  | none =>
    simp [hfind] at he; obtain ⟨rfl, rfl, rfl⟩ := he
    intro hg hf n hn hold
    refine hvl hg hf n hn ?_
    rcases hold with h1 | h1 | h1
    · exact Or.inl h1
    · exact Or.inr (Or.inl h1)
    · exact keep (by simpa using h1)
  | some n0 =>
    cases hl : n0.lru with
    | none =>
      simp [hfind, hl] at he; obtain ⟨rfl, rfl, rfl⟩ := he
      intro hg hf n hn hold
      obtain ⟨m, hm, rfl⟩ := mem_upd.mp hn
      have hv : (if m.id = id then { m with lru := LruSt.banned } else m).value = m.value := by split <;> rfl
      rw [hv]
      refine hvl hg hf m hm ?_
      rcases hold with h1 | h1 | h1
      · exact Or.inl (by split at h1 <;> exact h1)
      · refine Or.inr (Or.inl ?_); split at h1
        · cases h1
        · exact h1
      · refine keep ?_
        obtain ⟨j, hj, hv⟩ := h1
        exact ⟨j, by simpa using hj, by split at hv <;> exact hv⟩
    | inList =>
      simp [hfind, hl] at he; obtain ⟨rfl, rfl, rfl⟩ := he
      intro hg hf n hn hold
      obtain ⟨m, hm, rfl⟩ := mem_upd.mp hn
      have hv : (if m.id = id then { m with lru := LruSt.banned } else m).value = m.value := by split <;> rfl
      rw [hv]
      by_cases hid : m.id = id
      · have := found_unique h.ids.1 hfind hm hid
        subst this
        exact hvl hg hf m hm (Or.inr (Or.inl hl))
      · simp only [hid, if_false] at hold
        refine hvl hg hf m hm ?_
        rcases hold with h1 | h1 | ⟨j, hj, hv⟩
        · exact Or.inl h1
        · exact Or.inr (Or.inl h1)
        · simp only [List.cons_append, List.nil_append, List.mem_cons] at hj
          rcases hj with rfl | hj
          · simp [holdsVal] at hv; omega
          · exact keep ⟨j, hj, hv⟩
    | banned =>
      simp [hfind, hl] at he; obtain ⟨rfl, rfl, rfl⟩ := he
      intro hg hf n hn hold
      refine hvl hg hf n hn ?_
      rcases hold with h1 | h1 | h1
      · exact Or.inl h1
      · exact Or.inr (Or.inl h1)
      · exact keep (by simpa using h1)

theorem vl_levict {g sh Q log sh' id push evs} (h : InvP g sh (Instr.levict id :: Q) log)
    (he : execLevict sh id = some (sh', push, evs)) :
    (Eff g sh' = true ∨ sh'.closed = false) → sh'.forced = false → ∀ n ∈ sh'.nodes,
      Holds sh' (push ++ Q) n → n.value.isSome = true := by
  have hvl := h.vl
  have keep : ∀ {n : Node}, (∃ j ∈ Q, holdsVal n.id j = true) → Holds sh (Instr.levict id :: Q) n :=
    fun ⟨j, hj, hv⟩ => Or.inr (Or.inr ⟨j, List.mem_cons_of_mem _ hj, hv⟩)
  have same : (Eff g sh = true ∨ sh.closed = false) → sh.forced = false → ∀ n ∈ sh.nodes,
      Holds sh ([] ++ Q) n → n.value.isSome = true := by
    intro hg hf n hn hold
    refine hvl hg hf n hn ?_
    rcases hold with h1 | h1 | h1
    · exact Or.inl h1
    · exact Or.inr (Or.inl h1)
    · exact keep (by simpa using h1)
  unfold execLevict at he
  cases hfind : findId sh.nodes id with
  | none => simp [hfind] at he; obtain ⟨rfl, rfl, rfl⟩ := he; exact same
  | some n0 =>
    cases hl : n0.lru with
    | none => simp [hfind, hl] at he; obtain ⟨rfl, rfl, rfl⟩ := he; exact same
    | banned => simp [hfind, hl] at he; obtain ⟨rfl, rfl, rfl⟩ := he; exact same
    | inList =>
      simp [hfind, hl] at he; obtain ⟨rfl, rfl, rfl⟩ := he
      intro hg hf n hn hold
      obtain ⟨m, hm, rfl⟩ := mem_upd.mp hn
      have hv : (if m.id = id then { m with lru := LruSt.none } else m).value = m.value := by split <;> rfl
      rw [hv]
      by_cases hid : m.id = id
      · have := found_unique h.ids.1 hfind hm hid
        subst this
        exact hvl hg hf m hm (Or.inr (Or.inl hl))
      · simp only [hid, if_false] at hold
        refine hvl hg hf m hm ?_
        rcases hold with h1 | h1 | ⟨j, hj, hv⟩
        · exact Or.inl h1
        · exact Or.inr (Or.inl h1)
        · simp only [List.cons_append, List.nil_append, List.mem_cons] at hj
          rcases hj with rfl | hj
          · simp [holdsVal] at hv; omega
          · exact keep ⟨j, hj, hv⟩

theorem evicted_mem {ns : List Node} {cap : Nat} {l : List Nat} {used e : Nat}
    (he : e ∈ (evictTail ns cap l used).2.2.1) : e ∈ l := by
  rw [← evictTail_split ns cap l used]; exact List.mem_append_left _ he

theorem vl_promote {g sh Q log sh' pid push evs} (h : InvP g sh (Instr.promote pid :: Q) log)
    (he : execPromote sh pid = some (sh', push, evs)) :
    (Eff g sh' = true ∨ sh'.closed = false) → sh'.forced = false → ∀ n ∈ sh'.nodes,
      Holds sh' (push ++ Q) n → n.value.isSome = true := by
  have hvl := h.vl
  have hlr := h.lr.2
  have keep : ∀ {n : Node}, (∃ j ∈ Q, holdsVal n.id j = true) → Holds sh (Instr.promote pid :: Q) n :=
    fun ⟨j, hj, hv⟩ => Or.inr (Or.inr ⟨j, List.mem_cons_of_mem _ hj, hv⟩)
  have self : ∀ {n : Node}, n.id = pid → Holds sh (Instr.promote pid :: Q) n :=
    fun hid => Or.inr (Or.inr ⟨_, List.mem_cons_self, by simp [holdsVal, hid]⟩)
  -- the cases that only push `retHandle pid`
  have same : ∀ recent', (Eff g sh = true ∨ sh.closed = false) → sh.forced = false → ∀ n ∈ sh.nodes,
      Holds { sh with lru := { sh.lru with recent := recent' } } ([Instr.retHandle pid] ++ Q) n →
      n.value.isSome = true := by
    intro recent' hg hf n hn hold
    refine hvl hg hf n hn ?_
    rcases hold with h1 | h1 | ⟨j, hj, hv⟩
    · exact Or.inl h1
    · exact Or.inr (Or.inl h1)
    · simp only [List.cons_append, List.nil_append, List.mem_cons] at hj
      rcases hj with rfl | hj
      · exact self (by simp [holdsVal] at hv; omega)
      · exact keep ⟨j, hj, hv⟩
  unfold execPromote at he
  cases hfind : findId sh.nodes pid with
  | none =>
    simp [hfind] at he; obtain ⟨rfl, rfl, rfl⟩ := he
    intro hg hf n hn hold
    refine hvl hg hf n hn ?_
    rcases hold with h1 | h1 | h1
    · exact Or.inl h1
    · exact Or.inr (Or.inl h1)
    · exact keep (by simpa using h1)
  | some n0 =>
    cases hl : n0.lru with
    | none =>
      by_cases hfit : n0.size ≤ sh.lru.capacity
      · simp only [hfind, hl, hfit, if_true, Option.some.injEq, Prod.mk.injEq] at he
        obtain ⟨rfl, rfl, rfl⟩ := he
        intro hg hf n hn hold
        simp only [] at hg hf hn hold
        obtain ⟨m1, hm1, hid1, _, _, hval1, _, _, hlru1⟩ := mem_clearLru_proj hn
        obtain ⟨m, hm, rfl⟩ := mem_upd.mp hm1
        have hidm : n.id = m.id := by rw [hid1]; split <;> rfl
        have hvalm : n.value = m.value := by rw [hval1]; split <;> rfl
        rw [hvalm]
        refine hvl hg hf m hm ?_
        by_cases hmp : m.id = pid
        · exact self hmp
        · simp only [hmp, if_false] at hlru1
          rcases hold with h1 | h1 | ⟨j, hj, hv⟩
          · exact Or.inl (by rw [← hidm]; exact h1)
          · rcases hlru1 with ⟨h2, _⟩ | ⟨h2, _⟩
            · exact Or.inr (Or.inl (by rw [← h2]; exact h1))
            · rw [h2] at h1; cases h1
          · rw [hidm] at hv
            simp only [List.append_assoc, List.mem_append, List.mem_map, List.mem_singleton] at hj
            rcases hj with ⟨e, hev, rfl⟩ | rfl | hj
            · have hme : e = m.id := by simp [holdsVal] at hv; exact hv
              have := evicted_mem hev
              simp only [List.mem_reverse, List.mem_cons] at this
              rcases this with h3 | h3
              · omega
              · obtain ⟨m2, hm2, hm2id, hm2l⟩ := (hlr e).mp h3
                have : m2 = m := by
                  have h4 := findId_of_mem h.ids.1 hm2
                  have h5 := findId_of_mem h.ids.1 hm
                  rw [hm2id, hme] at h4
                  rw [h5] at h4; exact (Option.some.inj h4).symm
                subst this
                exact Or.inr (Or.inl hm2l)
            · simp [holdsVal] at hv; omega
            · exact keep ⟨j, hj, hv⟩
      · simp only [hfind, hl, hfit, if_false, Option.some.injEq, Prod.mk.injEq] at he
        obtain ⟨rfl, rfl, rfl⟩ := he
        exact same sh.lru.recent
    | inList =>
      simp only [hfind, hl, Option.some.injEq, Prod.mk.injEq] at he
      obtain ⟨rfl, rfl, rfl⟩ := he
      exact same _
    | banned =>
      simp only [hfind, hl, Option.some.injEq, Prod.mk.injEq] at he
      obtain ⟨rfl, rfl, rfl⟩ := he
      exact same sh.lru.recent

theorem vl_setcap {g sh Q log sh' c push evs} (h : InvP g sh (Instr.setcap c :: Q) log)
    (he : execSetcap sh c = some (sh', push, evs)) :
    (Eff g sh' = true ∨ sh'.closed = false) → sh'.forced = false → ∀ n ∈ sh'.nodes,
      Holds sh' (push ++ Q) n → n.value.isSome = true := by
  have hvl := h.vl
  have hlr := h.lr.2
  unfold execSetcap at he
  simp only [Option.some.injEq, Prod.mk.injEq] at he
  obtain ⟨rfl, rfl, rfl⟩ := he
  intro hg hf n hn hold
  simp only [] at hg hf hn hold
  obtain ⟨m, hm, hid1, _, _, hval1, _, _, hlru1⟩ := mem_clearLru_proj hn
  rw [hval1]
  refine hvl hg hf m hm ?_
  rcases hold with h1 | h1 | ⟨j, hj, hv⟩
  · exact Or.inl (by rw [← hid1]; exact h1)
  · rcases hlru1 with ⟨h2, _⟩ | ⟨h2, _⟩
    · exact Or.inr (Or.inl (by rw [← h2]; exact h1))
    · rw [h2] at h1; cases h1
  · rw [hid1] at hv
    simp only [List.mem_append, List.mem_map] at hj
    rcases hj with ⟨e, hev, rfl⟩ | hj
    · have hme : e = m.id := by simp [holdsVal] at hv; exact hv
      have := evicted_mem hev
      simp only [List.mem_reverse] at this
      obtain ⟨m2, hm2, hm2id, hm2l⟩ := (hlr e).mp this
      have : m2 = m := by
        have h4 := findId_of_mem h.ids.1 hm2
        have h5 := findId_of_mem h.ids.1 hm
        rw [hm2id, hme] at h4
        rw [h5] at h4; exact (Option.some.inj h4).symm
      subst this
      exact Or.inr (Or.inl hm2l)
    · exact Or.inr (Or.inr ⟨j, List.mem_cons_of_mem _ hj, hv⟩)

theorem vl_fin {g sh Q log sh' id f push evs} (h : InvP g sh (Instr.fin id f :: Q) log)
    (he : execFin sh id f = some (sh', push, evs)) :
    (Eff g sh' = true ∨ sh'.closed = false) → sh'.forced = false → ∀ n ∈ sh'.nodes,
      Holds sh' (push ++ Q) n → n.value.isSome = true := by
  have hvl := h.vl
  have hclosed : sh.closed = true := by
    cases hc : sh.closed with
    | true => rfl
    | false => have := (h.op hc).1 _ List.mem_cons_self; simp [closedOnly] at this
  have keep : ∀ {n : Node}, Holds sh Q n → Holds sh (Instr.fin id f :: Q) n := by
    rintro n (h1 | h1 | ⟨j, hj, hv⟩)
    · exact Or.inl h1
    · exact Or.inr (Or.inl h1)
    · exact Or.inr (Or.inr ⟨j, List.mem_cons_of_mem _ hj, hv⟩)
  unfold execFin at he
  cases hfind : findId sh.nodes id with
  | none =>
    simp only [hfind] at he; obtain ⟨st, dd, rfl, rfl⟩ := execFinStale_cases he
    intro hg hf n hn hold
    exact hvl hg hf n hn (keep (by simpa [Holds] using hold))
  | some n0 =>
    simp [hfind] at he; obtain ⟨rfl, rfl, rfl⟩ := he
    intro hg hf n hn hold
    simp only [] at hg hf hn hold
    have hgt : Eff g sh = true := by
      rcases hg with hg | hg
      · exact hg
      · rw [hclosed] at hg; cases hg
    obtain ⟨m, hm, rfl⟩ := mem_upd.mp hn
    by_cases hid : m.id = id
    · -- the finalised node: nobody holds it
      exfalso
      have hff : f = false := by
        cases f with
        | false => rfl
        | true => have := h.fo hf _ List.mem_cons_self; simp [forcedOnly] at this
      subst hff
      have hz := h.zr hgt hclosed hf _ List.mem_cons_self id (by simp [zeroRef]) m hm hid
      have hr := h.rc hf m hm
      have h0 : refsP sh (Instr.fin id false :: Q) m.id = 0 := by omega
      refine not_holds_of_refs_zero h hm h0 (keep ?_)
      simp only [hid, if_true, List.nil_append] at hold
      exact holds_congr hold rfl (by simp [hid]) rfl
    · simp only [hid, if_false, List.nil_append] at hold ⊢
      exact hvl (Or.inl hgt) hf m hm (keep (holds_congr hold rfl rfl rfl))

theorem vl_step {g sh Q log sh' i push evs} (h : InvP g sh (i :: Q) log)
    (he : exec sh i = some (sh', push, evs)) :
    (Eff g sh' = true ∨ sh'.closed = false) → sh'.forced = false → ∀ n ∈ sh'.nodes,
      (n.id ∈ sh'.handles ∨ n.lru = .inList ∨ ∃ j ∈ push ++ Q, holdsVal n.id j = true) → n.value.isSome = true := by
  have hvl := h.vl
  have hopf : sh.closed = false → sh.forced = false := fun hc => (h.op hc).2
  have hfresh := refs_fresh h
  cases i
  case promote id => exact vl_promote h he
  case setcap c => exact vl_setcap h he
  case fin id f => exact vl_fin h he
  case setv id sf => exact vl_setv h he
  case ban id => exact vl_ban h he
  case levict id => exact vl_levict h he
  all_goals exec_split he
  all_goals (intro hg hf n hn hold)
  all_goals (try simp only [] at hg hf hn hold ⊢)
  all_goals (simp only [List.mem_append, List.mem_cons, List.mem_map, List.mem_flatMap, List.not_mem_nil,
    exists_eq_or_imp, or_false, false_or, exists_false] at hold hvl)
  all_goals first
    | (exact hvl hg hf n hn (by grind [holdsVal]))
    | (rw [mem_upd] at hn; obtain ⟨m, hm, rfl⟩ := hn; have := hvl hg hf m hm; grind [holdsVal])
    | (exact hvl hg hf n (mem_eraseId.mp hn).1 (by grind [holdsVal]))
    | (have hc : sh.closed = false := by simpa using ‹¬sh.closed = true›
       exact hvl (Or.inr hc) (hopf hc) n hn (by grind [holdsVal]))
    | (-- a node is created: nothing holds the fresh id
       rcases List.mem_cons.mp hn with rfl | hn
       · exfalso
         simp only [refsP, List.countP_cons, owns] at hfresh
         simp only [holdsVal] at hold
         rcases hold with h1 | h1 | h1 | ⟨j, hj, hv⟩
         · have := List.count_pos_iff.mpr h1; omega
         · cases h1
         · cases h1
         · have : 0 < Q.countP (owns sh.nextId) := List.countP_pos_iff.mpr ⟨j, hj, holdsVal_owns hv⟩
           omega
       · exact hvl hg hf n hn (by grind [holdsVal]))
end GoLevel.CacheM
