import GoLevel.Proofs.ConcReaderStep
/-!
# Facts about single steps and executions: `pub` and `hist` only grow, what a reader may change,
and the publication groups (ghost) for batch atomicity
-/
namespace GoLevel.Conc

variable {c : UCmp}

/-- how one step may change reader `i` -/
structure RChange (σ : State) (r r' : Reader) : Prop where
  seqKeep : ∀ s, r.seq? = some s → r'.seq? = some s ∧ r'.live = r.live
  seqNew : r.seq? = none → ∀ s, r'.seq? = some s →
    (r'.live = true ∧ s = σ.pub) ∨ (r'.live = false ∧ ∃ id, (Owner.user id, s) ∈ σ.snaps)
  memsKeep : ∀ mf, r.mems? = some mf → r'.mems? = some mf
  verKeep : ∀ v, r.ver? = some v → r'.ver? = some v
  resKeep : ∃ more, r'.results = r.results ++ more

theorem RChange.rfl' (σ : State) (r : Reader) : RChange σ r r :=
  ⟨fun _ h => ⟨h, rfl⟩, fun h s hs => (by rw [h] at hs; cases hs), fun _ h => h, fun _ h => h, ⟨[], by simp⟩⟩

structure StepSum (σ σ' : State) : Prop where
  pubLe : σ.pub ≤ σ'.pub
  histGrow : ∃ ext, σ'.hist = σ.hist ++ ext ∧ ∀ e ∈ ext, σ.pub < e.seq
  rdOld : ∀ (i : Nat) r, σ.readers[i]? = some r → ∃ r', σ'.readers[i]? = some r' ∧ RChange σ r r'
  rdNew : ∀ (i : Nat) r', σ'.readers[i]? = some r' → σ.readers[i]? = none → r' = {}
  snapNew : ∀ p ∈ σ'.snaps, p ∈ σ.snaps ∨ p.2 = σ.pub ∨ ∃ id, (Owner.user id, p.2) ∈ σ.snaps
  grp : (σ'.groups = σ.groups ∧ σ'.pub = σ.pub) ∨ ∃ g, σ'.groups = g :: σ.groups ∧ g.lo = σ.pub ∧ g.hi = σ'.pub ∧
    (∀ e, e ∈ g.es ↔ e ∈ σ'.hist ∧ σ.pub < e.seq) ∧ (∀ e ∈ g.es, e.seq ≤ σ'.pub)

/-- summary for steps that leave readers alone -/
theorem stepSum_noReaders {σ σ' : State} (hp : σ.pub ≤ σ'.pub)
    (hh : ∃ ext, σ'.hist = σ.hist ++ ext ∧ ∀ e ∈ ext, σ.pub < e.seq)
    (hr : σ'.readers = σ.readers)
    (hs : ∀ p ∈ σ'.snaps, p ∈ σ.snaps ∨ p.2 = σ.pub ∨ ∃ id, (Owner.user id, p.2) ∈ σ.snaps)
    (hg : (σ'.groups = σ.groups ∧ σ'.pub = σ.pub) ∨ ∃ g, σ'.groups = g :: σ.groups ∧ g.lo = σ.pub ∧ g.hi = σ'.pub ∧
      (∀ e, e ∈ g.es ↔ e ∈ σ'.hist ∧ σ.pub < e.seq) ∧ (∀ e ∈ g.es, e.seq ≤ σ'.pub)) :
    StepSum σ σ' :=
  ⟨hp, hh, fun i r h => ⟨r, by rw [hr]; exact h, RChange.rfl' σ r⟩,
   fun i r' h h0 => (by rw [hr, h0] at h; cases h), hs, hg⟩

/-- summary for a step of reader `i` -/
theorem stepSum_reader {σ σ' : State} {i : Nat} {r0 rn : Reader}
    (hp : σ'.pub = σ.pub) (hh : σ'.hist = σ.hist)
    (hi : σ.readers[i]? = some r0) (hr : σ'.readers = σ.readers.set i rn) (hch : RChange σ r0 rn)
    (hs : ∀ p ∈ σ'.snaps, p ∈ σ.snaps ∨ p.2 = σ.pub ∨ ∃ id, (Owner.user id, p.2) ∈ σ.snaps)
    (hg : σ'.groups = σ.groups) :
    StepSum σ σ' := by
  refine ⟨by rw [hp]; exact Nat.le_refl _, ⟨[], by rw [hh, List.append_nil], by simp⟩, ?_, ?_, hs, Or.inl ⟨hg, hp⟩⟩
  · intro j r hj
    by_cases hij : i = j
    · subst hij
      rw [hi] at hj; cases hj
      refine ⟨rn, ?_, hch⟩
      rw [hr, List.getElem?_set]
      have : i < σ.readers.length := by
        apply Nat.lt_of_not_le; intro hle
        rw [List.getElem?_eq_none hle] at hi; cases hi
      simp [this]
    · exact ⟨r, by rw [hr, List.getElem?_set_ne hij]; exact hj, RChange.rfl' σ r⟩
  · intro j r' hj h0
    rw [hr] at hj
    rcases getElem?_set_cases hj with ⟨rfl, _⟩ | ⟨_, hj'⟩
    · rw [hi] at h0; cases h0
    · rw [h0] at hj'; cases hj'

theorem stepSum {σ σ' : State} {a : Action} (hb : Basic σ) (h : Step Cfg.real c σ a σ') : StepSum σ σ' := by
  obtain ⟨h, _⟩ := h
  have same : ∀ p ∈ σ.snaps, p ∈ σ.snaps ∨ p.2 = σ.pub ∨ ∃ id, (Owner.user id, p.2) ∈ σ.snaps :=
    fun p hp => Or.inl hp
  have hist0 : ∃ ext, σ.hist = σ.hist ++ ext ∧ ∀ e ∈ ext, σ.pub < e.seq := ⟨[], by simp, by simp⟩
  cases a with
  | writeInsert es =>
    obtain ⟨g1, g2, rfl⟩ := doWriteInsert_some h
    obtain ⟨hc1, _⟩ := consec_spec _ _ g2
    exact stepSum_noReaders (Nat.le_refl _)
      ⟨es, rfl, fun e he => by have := (hc1 e he).1; omega⟩ rfl same (Or.inl ⟨rfl, rfl⟩)
  | publish =>
    obtain ⟨g1, rfl⟩ := doPublish_some h
    refine stepSum_noReaders (Nat.le_add_right _ _) hist0 rfl same (Or.inr ⟨_, rfl, rfl, rfl, ?_, ?_⟩)
    · intro e
      exact ⟨fun he => ⟨(hb.pendSeq e he).2, (hb.pendSeq e he).1⟩, fun he => hb.histPub e he.1 he.2⟩
    · intro e he
      have := hb.bound e (List.mem_append_left _ (hb.pendSeq e he).2)
      rw [g1] at this
      simp only [privOf, List.length_nil] at this
      show e.seq ≤ σ.pub + σ.pending.length
      omega
  | seqSkip n =>
    obtain ⟨g1, g2, rfl⟩ := doSeqSkip_some h
    have hhist := hb.hist_le g2
    refine stepSum_noReaders (Nat.le_add_right _ _) hist0 rfl same (Or.inr ⟨_, rfl, rfl, rfl, ?_, ?_⟩)
    · intro e
      constructor
      · intro he; cases he
      · intro he; have := hhist e he.1; omega
    · intro e he; cases he
  | rotate =>
    obtain ⟨g1, g2, g3, rfl⟩ := doRotate_some h
    exact stepSum_noReaders (Nat.le_refl _) hist0 rfl same (Or.inl ⟨rfl, rfl⟩)
  | flushInstall =>
    obtain ⟨f, g1, g2, rfl⟩ := doFlushInstall_some h
    exact stepSum_noReaders (Nat.le_refl _) hist0 rfl same (Or.inl ⟨rfl, rfl⟩)
  | flushDrop =>
    obtain ⟨g1, g2, rfl⟩ := doFlushDrop_some h
    exact stepSum_noReaders (Nat.le_refl _) hist0 rfl same (Or.inl ⟨rfl, rfl⟩)
  | compStart =>
    obtain ⟨g1, rfl⟩ := doCompStart_some h
    exact stepSum_noReaders (Nat.le_refl _) hist0 rfl same (Or.inl ⟨rfl, rfl⟩)
  | compCommit nt =>
    obtain ⟨m, g1, g2, rfl⟩ := doCompCommit_some h
    exact stepSum_noReaders (Nat.le_refl _) hist0 rfl same (Or.inl ⟨rfl, rfl⟩)
  | snapAcquire =>
    have := doSnapAcquire_some h
    subst this
    refine stepSum_noReaders (Nat.le_refl _) hist0 rfl ?_ (Or.inl ⟨rfl, rfl⟩)
    intro p hp
    rcases List.mem_append.1 (show p ∈ σ.snaps ++ [(Owner.user σ.nextId, σ.pub)] from hp) with hp | hp
    · exact Or.inl hp
    · simp only [List.mem_singleton] at hp; subst hp; exact Or.inr (Or.inl rfl)
  | snapRelease id =>
    have := doSnapRelease_some h
    subst this
    exact stepSum_noReaders (Nat.le_refl _) hist0 rfl (fun p hp => Or.inl (List.mem_filter.1 hp).1) (Or.inl ⟨rfl, rfl⟩)
  | rNew =>
    have := doRNew_some h
    subst this
    refine ⟨Nat.le_refl _, hist0, ?_, ?_, same, Or.inl ⟨rfl, rfl⟩⟩
    · intro i r hi
      refine ⟨r, ?_, RChange.rfl' σ r⟩
      show (σ.readers ++ [({} : Reader)])[i]? = some r
      have : i < σ.readers.length := by
        apply Nat.lt_of_not_le; intro hle
        rw [List.getElem?_eq_none hle] at hi; cases hi
      rw [List.getElem?_append_left this]; exact hi
    · intro i r' hi h0
      have hi' : (σ.readers ++ [({} : Reader)])[i]? = some r' := hi
      have hle : σ.readers.length ≤ i := by
        apply Nat.le_of_not_lt; intro hlt
        rw [List.getElem?_eq_getElem hlt] at h0; cases h0
      rw [List.getElem?_append_right hle] at hi'
      cases hk : i - σ.readers.length with
      | zero => rw [hk] at hi'; simpa using hi'.symm
      | succ n => rw [hk] at hi'; simp at hi'
  | rSeq i =>
    obtain ⟨r0, g1, g2, rfl⟩ := doRSeq_some h
    refine stepSum_reader rfl rfl g1 rfl ?_ ?_ rfl
    · exact ⟨fun s hs => (by rw [g2] at hs; cases hs),
        fun _ s hs => Or.inl ⟨rfl, (by have : some σ.pub = some s := hs; cases this; rfl)⟩,
        fun _ h => h, fun _ h => h, ⟨[], by simp⟩⟩
    · intro p hp
      rcases List.mem_append.1 (show p ∈ σ.snaps ++ [(Owner.reader i, σ.pub)] from hp) with hp | hp
      · exact Or.inl hp
      · simp only [List.mem_singleton] at hp; subst hp; exact Or.inr (Or.inl rfl)
  | rSeqSnap i id =>
    obtain ⟨r0, s, g1, g2, g3, rfl⟩ := doRSeqSnap_some h
    have hm := mem_of_lookup _ _ _ g2
    refine stepSum_reader rfl rfl g1 rfl ?_ ?_ rfl
    · exact ⟨fun s hs => (by rw [g3] at hs; cases hs),
        fun _ s' hs => Or.inr ⟨rfl, id, (by have : some s = some s' := hs; cases this; exact hm)⟩,
        fun _ h => h, fun _ h => h, ⟨[], by simp⟩⟩
    · intro p hp
      rcases List.mem_append.1 (show p ∈ σ.snaps ++ [(Owner.reader i, s)] from hp) with hp | hp
      · exact Or.inl hp
      · simp only [List.mem_singleton] at hp; subst hp; exact Or.inr (Or.inr ⟨id, hm⟩)
  | rMems i =>
    obtain ⟨r0, g1, g2, g3, g4, rfl⟩ := doRMems_some h
    refine stepSum_reader rfl rfl g1 rfl ?_ same rfl
    exact ⟨fun s hs => ⟨hs, rfl⟩, fun h0 => absurd h0 g2,
      fun mf h => (by rw [g3] at h; cases h), fun _ h => h, ⟨[], by simp⟩⟩
  | rVer i =>
    obtain ⟨r0, g1, g2, g3, g4, rfl⟩ := doRVer_some h
    refine stepSum_reader rfl rfl g1 rfl ?_ same rfl
    exact ⟨fun s hs => ⟨hs, rfl⟩, fun h0 => absurd h0 g2,
      fun _ h => h, fun v h => (by rw [g3] at h; cases h), ⟨[], by simp⟩⟩
  | rLookup i k =>
    obtain ⟨r0, s, mf, v, g1, g2, g3, g4, rfl⟩ := doRLookup_some h
    refine stepSum_reader rfl rfl g1 rfl ?_ same rfl
    exact ⟨fun s hs => ⟨hs, rfl⟩, fun h0 => (by rw [h0] at g2; cases g2),
      fun _ h => h, fun _ h => h, ⟨_, rfl⟩⟩
  | rRelease i =>
    obtain ⟨r0, g1, g2, g3, g4, rfl⟩ := doRRelease_some h
    refine stepSum_reader rfl rfl g1 rfl ?_ (fun p hp => Or.inl (List.mem_filter.1 hp).1) rfl
    exact ⟨fun s hs => ⟨hs, rfl⟩, fun h0 s hs => (by
        have : r0.seq? = some s := hs
        rw [h0] at this; cases this),
      fun _ h => h, fun _ h => h, ⟨[], by simp⟩⟩
  | trOpen =>
    obtain ⟨g1, g2, g3, g4, rfl⟩ := doTrOpen_some h
    exact stepSum_noReaders (Nat.le_refl _) hist0 rfl same (Or.inl ⟨rfl, rfl⟩)
  | trPut e =>
    obtain ⟨t, g1, g2, g3, rfl⟩ := doTrPut_some h
    exact stepSum_noReaders (Nat.le_refl _) hist0 rfl same (Or.inl ⟨rfl, rfl⟩)
  | trGet k =>
    obtain ⟨t, g1, g2, rfl⟩ := doTrGet_some h
    exact stepSum_noReaders (Nat.le_refl _) hist0 rfl same (Or.inl ⟨rfl, rfl⟩)
  | trInstall =>
    obtain ⟨t, g1, g2, rfl⟩ := doTrInstall_some h
    exact stepSum_noReaders (Nat.le_refl _) hist0 rfl same (Or.inl ⟨rfl, rfl⟩)
  | trPublish =>
    obtain ⟨t, g1, g2, rfl⟩ := doTrPublish_some h
    obtain ⟨x1, x2, x3, x4⟩ := hb.trExcl t g1
    have hps : ∀ e ∈ t.priv, σ.pub < e.seq := fun e he => hb.privSeq e (by rw [g1]; exact he)
    refine stepSum_noReaders (by show σ.pub ≤ t.base + t.priv.length; omega)
      ⟨t.priv, rfl, hps⟩ rfl same (Or.inr ⟨_, rfl, x4, rfl, ?_, ?_⟩)
    · intro e
      constructor
      · intro he; exact ⟨List.mem_append_right _ he, hps e he⟩
      · intro he
        rcases List.mem_append.1 he.1 with h1 | h1
        · have := hb.hist_le x1 e h1; omega
        · exact h1
    · intro e he
      have := hb.bound e (List.mem_append_right _ (by rw [g1]; exact he))
      simp only [g1, privOf, x1, List.length_nil] at this
      show e.seq ≤ t.base + t.priv.length
      omega
  | trDiscard =>
    obtain ⟨t, g1, g2, rfl⟩ := doTrDiscard_some h
    obtain ⟨x1, x2, x3, x4⟩ := hb.trExcl t g1
    have hhist := hb.hist_le x1
    refine stepSum_noReaders (Nat.le_max_left _ _) hist0 rfl same (Or.inr ⟨_, rfl, rfl, rfl, ?_, ?_⟩)
    · intro e
      constructor
      · intro he; cases he
      · intro he; have := hhist e he.1; omega
    · intro e he; cases he


/-! ## executions -/

theorem steps_pub_le {σ σ' : State} (hb : Basic σ) (h : Steps Cfg.real c σ σ') : σ.pub ≤ σ'.pub := by
  induction h with
  | refl => exact Nat.le_refl _
  | tail a hs hstep ih => exact Nat.le_trans ih (stepSum (basic_steps hb hs) hstep).pubLe

theorem steps_hist {σ σ' : State} (hb : Basic σ) (h : Steps Cfg.real c σ σ') :
    ∃ ext, σ'.hist = σ.hist ++ ext ∧ ∀ e ∈ ext, σ.pub < e.seq := by
  induction h with
  | refl => exact ⟨[], by simp, by simp⟩
  | tail a hs hstep ih =>
    obtain ⟨e1, h1, h1'⟩ := ih
    obtain ⟨e2, h2, h2'⟩ := (stepSum (basic_steps hb hs) hstep).histGrow
    refine ⟨e1 ++ e2, by rw [h2, h1, List.append_assoc], ?_⟩
    intro e he
    rcases List.mem_append.1 he with he | he
    · exact h1' e he
    · have := h2' e he; have := steps_pub_le hb hs; omega

/-- the history at or below a published position never changes again -/
theorem steps_view_stable {σ σ' : State} (hb : Basic σ) (h : Steps Cfg.real c σ σ') (k : Bytes) (s : Nat)
    (hs : s ≤ σ.pub) : view c σ'.hist k s = view c σ.hist k s := by
  obtain ⟨ext, h1, h2⟩ := steps_hist hb h
  rw [h1]
  exact view_eq_of_leF (leF_append_above (fun e he => by have := h2 e he; omega))

/-- what an execution may do to a reader that exists at its start -/
structure RKeep (r r' : Reader) : Prop where
  seqKeep : ∀ s, r.seq? = some s → r'.seq? = some s ∧ r'.live = r.live
  memsKeep : ∀ mf, r.mems? = some mf → r'.mems? = some mf
  verKeep : ∀ v, r.ver? = some v → r'.ver? = some v
  resKeep : ∃ more, r'.results = r.results ++ more

theorem steps_reader_keep {σ σ' : State} (hb : Basic σ) (h : Steps Cfg.real c σ σ') (i : Nat) (r : Reader)
    (hi : σ.readers[i]? = some r) : ∃ r', σ'.readers[i]? = some r' ∧ RKeep r r' := by
  induction h with
  | refl => exact ⟨r, hi, ⟨fun _ h => ⟨h, rfl⟩, fun _ h => h, fun _ h => h, ⟨[], by simp⟩⟩⟩
  | tail a hs hstep ih =>
    obtain ⟨r1, h1, k1⟩ := ih
    obtain ⟨r2, h2, k2⟩ := (stepSum (basic_steps hb hs) hstep).rdOld i r1 h1
    refine ⟨r2, h2, ?_, ?_, ?_, ?_⟩
    · intro s hs'
      obtain ⟨a1, a2⟩ := k1.seqKeep s hs'
      obtain ⟨b1, b2⟩ := k2.seqKeep s a1
      exact ⟨b1, by rw [b2, a2]⟩
    · intro mf hm; exact k2.memsKeep mf (k1.memsKeep mf hm)
    · intro v hv; exact k2.verKeep v (k1.verKeep v hv)
    · obtain ⟨m1, e1⟩ := k1.resKeep
      obtain ⟨m2, e2⟩ := k2.resKeep
      exact ⟨m1 ++ m2, by rw [e2, e1, List.append_assoc]⟩

/-- a reader that takes its sequence number from `db.seq` during an execution gets at least the `pub`
of the execution's start -/
theorem steps_reader_new {σ σ' : State} (hb : Basic σ) (h : Steps Cfg.real c σ σ') (i : Nat)
    (hi : σ.readers[i]? = none ∨ ∃ r, σ.readers[i]? = some r ∧ r.seq? = none)
    (r' : Reader) (hi' : σ'.readers[i]? = some r') (s : Nat) (hs : r'.seq? = some s)
    (hl : r'.live = true) : σ.pub ≤ s := by
  induction h generalizing r' s with
  | refl =>
    rcases hi with hi | ⟨r, hi, hn⟩
    · rw [hi] at hi'; cases hi'
    · rw [hi] at hi'; cases hi'; rw [hn] at hs; cases hs
  | tail a hst hstep ih =>
    rename_i σ1 σ2
    have hb1 := basic_steps hb hst
    have sm := stepSum hb1 hstep
    have hp := steps_pub_le hb hst
    cases h1 : σ1.readers[i]? with
    | none =>
      have := sm.rdNew i r' hi' h1
      subst this; cases hs
    | some r1 =>
      obtain ⟨r2, h2, ch⟩ := sm.rdOld i r1 h1
      rw [hi'] at h2; cases h2
      cases hs1 : r1.seq? with
      | some s1 =>
        obtain ⟨a1, a2⟩ := ch.seqKeep s1 hs1
        rw [hs] at a1; cases a1
        exact ih r1 h1 s hs1 (by rw [← a2]; exact hl)
      | none =>
        rcases ch.seqNew hs1 s hs with ⟨_, rfl⟩ | ⟨hl', _⟩
        · exact hp
        · rw [hl] at hl'; cases hl'

/-! ## publication groups (ghost): batch atomicity -/

def GProp (σ : State) (g : Group) : Prop :=
  g.hi ≤ σ.pub ∧ g.lo ≤ g.hi ∧ (∀ e ∈ g.es, g.lo < e.seq ∧ e.seq ≤ g.hi ∧ e ∈ σ.hist) ∧
  (∀ e ∈ σ.hist, g.lo < e.seq → e.seq ≤ g.hi → e ∈ g.es) ∧
  (∀ p ∈ σ.snaps, p.2 ≤ g.lo ∨ g.hi ≤ p.2) ∧
  (∀ r ∈ σ.readers, ∀ s, r.seq? = some s → s ≤ g.lo ∨ g.hi ≤ s)

def GInv (σ : State) : Prop := ∀ g ∈ σ.groups, GProp σ g

theorem ginv_init : GInv init := by intro g hg; simp [init] at hg

/-- what a step may give a reader as sequence number: one it or a snapshot had, or the current `pub` -/
theorem step_reader_seq {σ σ' : State} (sm : StepSum σ σ') (r' : Reader) (hr' : r' ∈ σ'.readers)
    (s : Nat) (hs : r'.seq? = some s) :
    (∃ r ∈ σ.readers, r.seq? = some s) ∨ s = σ.pub ∨ ∃ p ∈ σ.snaps, p.2 = s := by
  obtain ⟨i, hi⟩ := List.getElem?_of_mem hr'
  cases h1 : σ.readers[i]? with
  | none =>
    have := sm.rdNew i r' hi h1
    subst this; cases hs
  | some r1 =>
    obtain ⟨r2, h2, ch⟩ := sm.rdOld i r1 h1
    rw [hi] at h2; cases h2
    cases hs1 : r1.seq? with
    | some s1 =>
      obtain ⟨a1, _⟩ := ch.seqKeep s1 hs1
      rw [hs] at a1; cases a1
      exact Or.inl ⟨r1, List.mem_of_getElem? h1, hs1⟩
    | none =>
      rcases ch.seqNew hs1 s hs with ⟨_, rfl⟩ | ⟨_, id, hm⟩
      · exact Or.inr (Or.inl rfl)
      · exact Or.inr (Or.inr ⟨_, hm, rfl⟩)

theorem gprop_step {σ σ' : State} (sm : StepSum σ σ') (g : Group) (hg : GProp σ g) : GProp σ' g := by
  obtain ⟨g1, g2, g3, g4, g5, g6⟩ := hg
  obtain ⟨ext, he1, he2⟩ := sm.histGrow
  have hp := sm.pubLe
  refine ⟨Nat.le_trans g1 hp, g2, ?_, ?_, ?_, ?_⟩
  · intro e he
    obtain ⟨a, b, c'⟩ := g3 e he
    exact ⟨a, b, by rw [he1]; exact List.mem_append_left _ c'⟩
  · intro e he hlo hhi
    rw [he1] at he
    rcases List.mem_append.1 he with he | he
    · exact g4 e he hlo hhi
    · have := he2 e he; omega
  · intro p hp'
    rcases sm.snapNew p hp' with h | h | ⟨id, h⟩
    · exact g5 p h
    · exact Or.inr (by omega)
    · exact g5 (Owner.user id, p.2) h
  · intro r' hr' s hs
    rcases step_reader_seq sm r' hr' s hs with ⟨r, hr, hrs⟩ | rfl | ⟨p, hp', rfl⟩
    · exact g6 r hr s hrs
    · exact Or.inr g1
    · exact g5 p hp'

theorem ginv_step {σ σ' : State} {a : Action} (hb : Basic σ) (hR : Readers c σ) (hG : GInv σ)
    (h : Step Cfg.real c σ a σ') : GInv σ' := by
  have sm := stepSum hb h
  intro g hg
  rcases sm.grp with ⟨hgr, _⟩ | ⟨g0, hgr, hlo, hhi, hes, hle⟩
  · rw [hgr] at hg; exact gprop_step sm g (hG g hg)
  · rw [hgr] at hg
    rcases List.mem_cons.1 hg with rfl | hg
    · refine ⟨by rw [hhi]; exact Nat.le_refl _, by rw [hlo, hhi]; exact sm.pubLe, ?_, ?_, ?_, ?_⟩
      · intro e he
        have := (hes e).1 he
        exact ⟨by rw [hlo]; exact this.2, by rw [hhi]; exact hle e he, this.1⟩
      · intro e he h1 _
        exact (hes e).2 ⟨he, by rw [← hlo]; exact h1⟩
      · intro p hp
        left
        rw [hlo]
        rcases sm.snapNew p hp with h | h | ⟨id, h⟩
        · exact hb.snapsLe p h
        · rw [h]; exact Nat.le_refl _
        · exact hb.snapsLe (Owner.user id, p.2) h
      · intro r' hr' s hs
        left
        rw [hlo]
        rcases step_reader_seq sm r' hr' s hs with ⟨r, hr, hrs⟩ | rfl | ⟨p, hp', rfl⟩
        · obtain ⟨i, hi⟩ := List.getElem?_of_mem hr
          exact (hR i r hi).seqLe s hrs
        · exact Nat.le_refl _
        · exact hb.snapsLe p hp'
    · exact gprop_step sm g (hG g hg)

theorem ginv_reachable {σ : State} (h : Reachable Cfg.real c σ) : GInv σ := by
  have : ∀ σ', Steps Cfg.real c init σ' → Inv c σ' ∧ GInv σ' := by
    intro σ' h
    induction h with
    | refl => exact ⟨inv_init, ginv_init⟩
    | tail a _ hs ih => exact ⟨inv_step ih.1 hs, ginv_step ih.1.basic ih.1.readers ih.2 hs⟩
  exact (this σ h).2

end GoLevel.Conc
