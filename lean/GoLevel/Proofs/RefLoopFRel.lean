import GoLevel.Proofs.RefLoopFDelta
import GoLevel.Proofs.RefLoopStep
/-! The `rel` message over the full history, including the release of the current version by
`session.close` (C07). -/
namespace GoLevel.RefLoop

/-- a live version at or above `next` is at or above the base version -/
theorem cb_le_liveF (G : EnvF) {next j : Nat} (hj : next ≤ j) (hi : G.inst j) : G.cb next ≤ j :=
  Nat.le_trans (G.up_mono (Nat.min_le_right _ _)) (EnvF.up_le_of_inst hj hi)

/-- `rel k` of a version that was converted to full references. -/
theorem handle_rel_referencedF {S : State} {G : EnvF} {R : List Nat} {k : Nat} (hI : InvF S G)
    (hG : GL G S.next) (hH : HistC S G R) (hik : G.inst k) (hnot : k ∉ G.rel)
    (hkd : k < G.dn ∨ (G.closing = true ∧ k = G.dn))
    (hw : ({ G with rel := k :: G.rel } : EnvF).WF) (hkn : k < S.next) :
    ∃ S1 rm, handle S (.rel k (G.T k)) = some (S1, rm) ∧ InvF S1 { G with rel := k :: G.rel } ∧
      SafeF { G with rel := k :: G.rel } S.next rm ∧ HistC S1 { G with rel := k :: G.rel } (R ++ rm) := by
  have hmem : k ∈ S.referenced := (hI.rfd.2 _).mpr ⟨hkn, hik, hnot⟩
  have hcnt : ∀ f, S.fileRef.count f = ind (f ∈ G.L (G.cb S.next)) +
      ((S.referenced.filter (· != k)).filter (fun j => decide (f ∈ G.T j))).length +
      (if f ∈ G.T k then 1 else 0) := by
    intro f
    rw [hI.cnt f, filter_length_remove hI.rfd.1 hmem]
    simp only [decide_eq_true_eq]; omega
  obtain ⟨m', rm, h1, h2, h3⟩ := release_refs (hI.wf.nodupT k) hcnt
  have hrm := release_refs_rm (hI.wf.nodupT k) (by
    intro t ht
    have := hcnt t
    simp only [ht, if_true] at this
    exact List.count_pos_iff.mp (by omega)) h1
  have hI' : InvF { S with fileRef := m', referenced := S.referenced.filter (· != k) }
      { G with rel := k :: G.rel } := by
    refine ⟨hw, hI.nx, hI.ab, ?_, ?_, ?_, ⟨hI.rfd.1.filter _, ?_⟩, h2⟩
    · intro j; rw [hI.ref j]
      by_cases hj : j = k
      · subst hj; simp; omega
      · simp only [List.mem_cons, hj, false_or]; rfl
    · intro j; rw [hI.rld j]
      by_cases hj : j = k
      · subst hj
        have : ¬ S.next ≤ j := by omega
        simp [this]
      · simp only [List.mem_cons, hj, false_or]; rfl
    · intro j; rw [hI.dl j]
      by_cases hj : j = k
      · subst hj
        have : ¬ S.next ≤ j := by omega
        simp [this]
      · simp only [List.mem_cons, hj, false_or]; rfl
    · intro j
      simp only [List.mem_filter, hI.rfd.2 j, List.mem_cons, bne_iff_ne, ne_eq]
      constructor
      · rintro ⟨⟨h1, h2, h3⟩, h4⟩; exact ⟨h1, h2, fun h => by rcases h with h | h; exact h4 h; exact h3 h⟩
      · rintro ⟨h1, h2, h3⟩; exact ⟨⟨h1, h2, fun h => h3 (Or.inr h)⟩, fun h => h3 (Or.inl h)⟩
  refine ⟨_, rm, by simp [handle, hmem, h1], hI', ?_, ?_⟩
  · -- safety
    intro r hr j hij hal hrj
    obtain ⟨hrk, hb0, he0⟩ := h3 r hr
    have hij' : G.inst j := hij
    have hrj' : r ∈ G.T j := hrj
    have hb : r ∉ G.L (G.cb S.next) := ind_eq_zero.mp hb0
    have hN : 0 < G.N := by have := EnvF.inst_lt hik; omega
    obtain ⟨hcb1, hcb2⟩ := hI.wf.cb_le hN S.next
    -- an unreleased version below `next` is counted
    have hlow : j ∉ k :: G.rel → ¬ j < S.next := by
      intro hjrel hjn
      have hjrel' : j ≠ k ∧ j ∉ G.rel := by
        constructor
        · intro h; exact hjrel (by rw [h]; exact List.mem_cons_self)
        · intro h; exact hjrel (List.mem_cons_of_mem _ h)
      have hm : j ∈ S.referenced.filter (· != k) :=
        List.mem_filter.mpr ⟨(hI.rfd.2 j).mpr ⟨hjn, hij', hjrel'.2⟩, by simp [hjrel'.1]⟩
      have : j ∈ (S.referenced.filter (· != k)).filter (fun j => decide (r ∈ G.T j)) :=
        List.mem_filter.mpr ⟨hm, by simpa using hrj'⟩
      have := List.length_pos_of_mem this
      omega
    rcases hkd with hkd | ⟨hcl, hkd⟩
    · have hcbj : G.cb S.next ≤ j := by
        rcases hal with hjrel | ⟨_, hal⟩
        · exact cb_le_liveF G (next := S.next) (by have := hlow hjrel; omega) hij'
        · exact hal
      have hkcb : k < G.cb S.next := by
        have := G.up_ge_self (min G.dn S.next); unfold EnvF.cb; omega
      have h4 := hG.left r k _ hkcb hcb2 (Or.inl hnot) hrk hb
      by_cases hjb : j = G.cb S.next
      · subst hjb; exact h4 hrj'
      · exact hG.gone r k _ j hkcb (by omega) hcb2 (Or.inl hnot) hrk h4 hrj'
    · -- the current version at close: only the (empty) closing version is above it
      obtain ⟨_, _, hT, _, hup⟩ := hI.wf.cls hcl
      rcases hal with hjrel | ⟨h0, _⟩
      · have hjn := hlow hjrel
        have h5 : G.up (G.dn + 1) ≤ j := EnvF.up_le_of_inst (by omega) hij'
        have h6 := EnvF.inst_lt hij'
        have : j = G.N - 1 := by omega
        rw [this, hT] at hrj'; cases hrj'
      · have : G.closing = false := h0
        rw [hcl] at this; cases this
  · intro hc hnu'
    have hnu : NoReuse G := noReuse_congr (G := G) (G' := { G with rel := k :: G.rel }) rfl hnu'
    exact hist_stepF hI hI' (hH hc hnu) hnu hc rfl (Nat.le_refl _) (Nat.le_refl _)
      (fun _ h => List.mem_cons_of_mem _ h) (fun h => absurd h (Nat.lt_irrefl _)) hrm.1 hrm.2

/-- `rel k` of a version whose task is still cached: the release is remembered with the delta (if it came). -/
theorem handle_rel_cachedF {S : State} {G : EnvF} {R : List Nat} {k : Nat} (hI : InvF S G)
    (hH : HistC S G R) (hik : G.inst k) (hnot : k ∉ G.rel)
    (hw : ({ G with rel := k :: G.rel } : EnvF).WF) (hge : S.next ≤ k) :
    ∃ S1, handle S (.rel k (G.T k)) = some (S1, []) ∧ InvF S1 { G with rel := k :: G.rel } ∧
      HistC S1 { G with rel := k :: G.rel } R := by
  have hlook : (S.ref.lookup k).isSome = true := by
    rw [hI.ref]; simp [hge, hik, hnot]
  have hnm : k ∉ S.referenced := fun h => by have := ((hI.rfd.2 k).mp h).1; omega
  have hdl : S.deltas.lookup k = if k < G.dn then some (G.din (G.up (k + 1))) else none := by
    rw [hI.dl]
    by_cases hkd : k < G.dn
    · simp [hge, hkd, hik, hnot]
    · simp [hkd]
  have hI' : InvF { S with
      released := (k, S.deltas.lookup k) :: S.released.filter (fun p => p.1 != k),
      deltas := S.deltas.filter (fun p => p.1 != k),
      ref := S.ref.filter (fun p => p.1 != k) } { G with rel := k :: G.rel } := by
    refine ⟨hw, hI.nx, hI.ab, ?_, ?_, ?_, ⟨hI.rfd.1, ?_⟩, hI.cnt⟩
    · intro j
      show (S.ref.filter (fun p => p.1 != k)).lookup j = _
      rw [lookup_filter_ne, hI.ref j]
      by_cases hj : j = k
      · subst hj; simp
      · simp only [hj, if_false, List.mem_cons, false_or]; rfl
    · intro j
      show ((k, S.deltas.lookup k) :: S.released.filter (fun p => p.1 != k)).lookup j = _
      rw [lookup_cons_eq, lookup_filter_ne, hI.rld j, hdl]
      by_cases hj : j = k
      · subst hj; simp [hge]; rfl
      · simp only [hj, if_false, List.mem_cons, false_or]; rfl
    · intro j
      show (S.deltas.filter (fun p => p.1 != k)).lookup j = _
      rw [lookup_filter_ne, hI.dl j]
      by_cases hj : j = k
      · subst hj; simp
      · simp only [hj, if_false, List.mem_cons, false_or]; rfl
    · intro j
      rw [hI.rfd.2 j]
      show _ ↔ j < S.next ∧ G.inst j ∧ j ∉ k :: G.rel
      simp only [List.mem_cons, not_or]
      constructor
      · rintro ⟨h1, h2, h3⟩; exact ⟨h1, h2, by omega, h3⟩
      · rintro ⟨h1, h2, _, h3⟩; exact ⟨h1, h2, h3⟩
  refine ⟨_, by simp [handle, hnm, hlook], hI', fun hc hnu' => ?_⟩
  have hnu : NoReuse G := noReuse_congr (G := G) (G' := { G with rel := k :: G.rel }) rfl hnu'
  have := hist_stepF hI hI' (hH hc hnu) hnu hc rfl (Nat.le_refl _) (Nat.le_refl _)
    (fun _ h => List.mem_cons_of_mem _ h) (fun h => absurd h (Nat.lt_irrefl _)) List.nodup_nil (fun f => by
      simp only [List.not_mem_nil, false_iff, not_and]
      intro h1 h2; omega)
  simpa using this

/-- The `rel` message (either kind). -/
theorem handle_relF {S : State} {G : EnvF} {R : List Nat} {k : Nat} (hI : InvF S G) (hG : GL G S.next)
    (hH : HistC S G R) (hik : G.inst k) (hnot : k ∉ G.rel)
    (hkd : k < G.dn ∨ (G.closing = true ∧ k = G.dn))
    (hw : ({ G with rel := k :: G.rel } : EnvF).WF) :
    ∃ S1 rm, handle S (.rel k (G.T k)) = some (S1, rm) ∧ InvF S1 { G with rel := k :: G.rel } ∧
      SafeF { G with rel := k :: G.rel } S.next rm ∧ HistC S1 { G with rel := k :: G.rel } (R ++ rm) := by
  by_cases hkn : k < S.next
  · exact handle_rel_referencedF hI hG hH hik hnot hkd hw hkn
  · obtain ⟨S1, h1, h2, h3⟩ := handle_rel_cachedF hI hH hik hnot hw (by omega)
    exact ⟨S1, [], h1, h2, safeF_nil _ _, by simpa using h3⟩

end GoLevel.RefLoop
