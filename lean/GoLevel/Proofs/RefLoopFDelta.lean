import GoLevel.Proofs.RefLoopFPush
/-! The `delta` message over the full history (C07). -/
namespace GoLevel.RefLoop

/-- The safety argument: a table that left the loop's view at `b → up (b+1)`, that no converted version
holds, is in no version that still matters as soon as every version up to `b` is either converted or released
and the base has moved to `up (b+1)`. -/
theorem safe_of_leftF {G : EnvF} (wf : G.WF) {nx0 : Nat} (hG : GL G nx0) {referenced : List Nat} {next b : Nat}
    {rm : List Nat} (hb : G.alive nx0 b)
    (hrfd : ∀ k, k ∈ referenced ↔ k < next ∧ G.inst k ∧ k ∉ G.rel) (hbn : b < next)
    (hcb : G.up (b + 1) ≤ G.cb next)
    (hw : G.inst (G.up (b + 1)))
    (hrm : ∀ r ∈ rm, r ∈ G.L b ∧ r ∉ G.L (G.up (b + 1)) ∧
      (referenced.filter (fun k => decide (r ∈ G.T k))).length = 0) : SafeF G next rm := by
  intro r hr k hik hal hrk
  obtain ⟨h1, h2, h3⟩ := hrm r hr
  have hge : G.up (b + 1) ≤ k := by
    rcases hal with hrel | ⟨_, hal⟩
    · by_cases hk : k < next
      · exfalso
        have hmem : k ∈ referenced := (hrfd k).mpr ⟨hk, hik, hrel⟩
        have : k ∈ referenced.filter (fun k => decide (r ∈ G.T k)) :=
          List.mem_filter.mpr ⟨hmem, by simpa using hrk⟩
        have := List.length_pos_of_mem this
        omega
      · exact EnvF.up_le_of_inst (by omega) hik
    · omega
  have hlt : b < G.up (b + 1) := by have := G.up_ge_self (b + 1); omega
  have hT := wf.sub b r h1
  have h4 := hG.left r b _ hlt hw hb hT h2
  by_cases hk1 : k = G.up (b + 1)
  · subst hk1; exact h4 hrk
  · exact hG.gone r b _ k hlt (by omega) hw hb hT h4 hrk

/-- facts shared by the two cases of the delta message -/
theorem delta_factsF {S : State} {G : EnvF} (hI : InvF S G) (hc : G.closing = false)
    (hlt : G.up (G.dn + 1) < G.N) :
    G.inst G.dn ∧ G.dn ∉ G.rel ∧ G.dn < G.up (G.dn + 1) ∧ G.inst (G.up (G.dn + 1)) ∧
    (∀ k, k ∈ G.rel → k < G.dn) ∧ (∀ k, G.dn < k → k < G.up (G.dn + 1) → ¬ G.inst k) := by
  have hdi : G.inst G.dn := by
    rcases hI.wf.dn with h1 | h1
    · omega
    · exact h1
  have hrl : ∀ k, k ∈ G.rel → k < G.dn := by
    intro k hk
    rcases (hI.wf.rel k hk).2 with h | ⟨h, _⟩
    · exact h
    · rw [hc] at h; cases h
  refine ⟨hdi, fun h => by have := hrl _ h; omega, by have := G.up_ge_self (G.dn + 1); omega,
    G.up_inst_of_lt _ hlt, hrl, fun k h1 h2 => G.not_inst_below_up (G.dn + 1) k (by omega) h2⟩

/-- `delta dn d` while version `dn` is still cached: the delta is stored. -/
theorem handle_delta_cachedF {S : State} {G : EnvF} {R : List Nat} (hI : InvF S G)
    (hH : HistC S G R) (hc : G.closing = false) (hlt : G.up (G.dn + 1) < G.N)
    (hw : ({ G with dn := G.up (G.dn + 1) } : EnvF).WF) (hle : S.next ≤ G.dn) :
    ∃ S1, handle S (.delta G.dn (G.din (G.up (G.dn + 1)))) = some (S1, []) ∧
      InvF S1 { G with dn := G.up (G.dn + 1) } ∧ HistC S1 { G with dn := G.up (G.dn + 1) } R := by
  obtain ⟨hdi, hnr, hdw, hwi, hrl, hgap⟩ := delta_factsF hI hc hlt
  have hlook : (S.ref.lookup G.dn).isSome = true := by
    rw [hI.ref]; simp [hle, hnr, hdi]
  have hI' : InvF { S with deltas := (G.dn, G.din (G.up (G.dn + 1))) :: S.deltas.filter (fun p => p.1 != G.dn) }
      { G with dn := G.up (G.dn + 1) } := by
    refine ⟨hw, hI.nx, hI.ab, hI.ref, ?_, ?_, hI.rfd, ?_⟩
    · intro k
      rw [hI.rld k]
      by_cases hk : k ∈ G.rel
      · have h1 := hrl k hk
        have h2 : k < G.up (G.dn + 1) := by omega
        simp only [h1, h2]; rfl
      · simp [hk]
    · intro k
      show ((G.dn, _) :: S.deltas.filter (fun p => p.1 != G.dn)).lookup k = _
      rw [lookup_cons_eq, lookup_filter_ne]
      by_cases hk : k = G.dn
      · subst hk
        rw [if_pos rfl, if_pos ⟨hle, hdw, hdi, hnr⟩]; rfl
      · simp only [hk, if_false, hI.dl k]
        by_cases hkd : k < G.dn
        · have : k < G.up (G.dn + 1) := by omega
          simp only [hkd, this]; rfl
        · by_cases hku : k < G.up (G.dn + 1)
          · have hni : ¬ G.inst k := hgap k (by omega) hku
            have hni' : ¬ ({ G with dn := G.up (G.dn + 1) } : EnvF).inst k := hni
            simp [hkd, hni']
          · have : ¬ k < ({ G with dn := G.up (G.dn + 1) } : EnvF).dn := hku
            simp [hkd, this]
    · intro f
      rw [hI.cnt f]
      have : ({ G with dn := G.up (G.dn + 1) } : EnvF).cb S.next = G.cb S.next := by
        show G.up (min (G.up (G.dn + 1)) S.next) = G.up (min G.dn S.next)
        rw [Nat.min_eq_right (by omega), Nat.min_eq_right hle]
      rw [this]; rfl
  refine ⟨_, by simp [handle, hlook], hI', fun _ hnu' => ?_⟩
  have hnu : NoReuse G := noReuse_congr (G := G) (G' := { G with dn := G.up (G.dn + 1) }) rfl hnu'
  have := hist_stepF hI hI' (hH hc hnu) hnu hc rfl (Nat.le_refl _) (show G.dn ≤ G.up (G.dn + 1) by omega)
    (fun _ h => h) (fun h => absurd h (Nat.lt_irrefl _)) List.nodup_nil (fun f => by
      simp only [List.not_mem_nil, false_iff, not_and]
      intro h1 h2; omega)
  simpa using this

/-- `delta dn d` after version `dn` was converted to full references: the delta is applied at once. -/
theorem handle_delta_appliedF {S : State} {G : EnvF} {R : List Nat} (hI : InvF S G) (hG : GL G S.next)
    (hH : HistC S G R) (hc : G.closing = false) (hlt : G.up (G.dn + 1) < G.N)
    (hex : NetExact (G.L G.dn) (G.din (G.up (G.dn + 1))) (G.L (G.up (G.dn + 1))))
    (hw : ({ G with dn := G.up (G.dn + 1) } : EnvF).WF) (hgt : G.dn < S.next) :
    ∃ S1 rm, handle S (.delta G.dn (G.din (G.up (G.dn + 1)))) = some (S1, rm) ∧
      InvF S1 { G with dn := G.up (G.dn + 1) } ∧ SafeF { G with dn := G.up (G.dn + 1) } S.next rm ∧
      HistC S1 { G with dn := G.up (G.dn + 1) } (R ++ rm) := by
  obtain ⟨hdi, hnr, hdw, hwi, hrl, hgap⟩ := delta_factsF hI hc hlt
  have hlook : (S.ref.lookup G.dn).isSome = false := by
    rw [hI.ref]; simp; omega
  have hmem : G.dn ∈ S.referenced := (hI.rfd.2 _).mpr ⟨hgt, hdi, hnr⟩
  have hcb : G.cb S.next = G.dn := by
    unfold EnvF.cb; rw [Nat.min_eq_left (Nat.le_of_lt hgt)]; exact EnvF.up_inst hdi
  have hcb' : ({ G with dn := G.up (G.dn + 1) } : EnvF).cb S.next = G.up (G.dn + 1) := by
    show G.up (min (G.up (G.dn + 1)) S.next) = G.up (G.dn + 1)
    exact EnvF.up_eq_of_between (by omega) (Nat.min_le_left _ _)
  have hcnt : ∀ f, S.fileRef.count f = ind (f ∈ G.L G.dn) +
      (S.referenced.filter (fun k => decide (f ∈ G.T k))).length := by
    intro f; rw [hI.cnt f, hcb]
  obtain ⟨m', rm, h1, h2, h3, h4, h5⟩ := apply_netF hex hcnt
  have hI' : InvF { S with fileRef := m' } { G with dn := G.up (G.dn + 1) } := by
    refine ⟨hw, hI.nx, hI.ab, hI.ref, ?_, ?_, hI.rfd, ?_⟩
    · intro k
      rw [hI.rld k]
      by_cases hk : k ∈ G.rel
      · have h1 := hrl k hk
        have h2 : k < G.up (G.dn + 1) := by omega
        simp only [h1, h2]; rfl
      · simp [hk]
    · intro k
      rw [hI.dl k]
      by_cases hkd : k < G.dn
      · have : k < G.up (G.dn + 1) := by omega
        simp only [hkd, this]; rfl
      · by_cases hk : S.next ≤ k
        · by_cases hku : k < G.up (G.dn + 1)
          · have hni' : ¬ ({ G with dn := G.up (G.dn + 1) } : EnvF).inst k := hgap k (by omega) hku
            simp [hkd, hni']
          · have : ¬ k < ({ G with dn := G.up (G.dn + 1) } : EnvF).dn := hku
            simp [hkd, this]
        · simp [hk]
    · intro f
      rw [hcb']; exact h2 f
  have hG' : GL { G with dn := G.up (G.dn + 1) } S.next :=
    gl_shrink hG rfl (fun _ h => h) (by rw [hcb, hcb']; omega)
  refine ⟨_, rm, by simp [handle, hlook, hmem, h1], hI', ?_, ?_⟩
  · exact safe_of_leftF hw hG' (Or.inl hnr) hI.rfd.2 hgt (by rw [hcb']; exact Nat.le_refl _) hwi h3
  · intro hc' hnu'
    have hnu : NoReuse G := noReuse_congr (G := G) (G' := { G with dn := G.up (G.dn + 1) }) rfl hnu'
    exact hist_stepF hI hI' (hH hc hnu) hnu hc rfl (Nat.le_refl _) (show G.dn ≤ G.up (G.dn + 1) by omega)
      (fun _ h => h) (fun h => absurd h (Nat.lt_irrefl _)) h4 h5

/-- The `delta` message. -/
theorem handle_deltaF {S : State} {G : EnvF} {R : List Nat} (hI : InvF S G) (hG : GL G S.next)
    (hH : HistC S G R) (hc : G.closing = false) (hlt : G.up (G.dn + 1) < G.N)
    (hex : NetExact (G.L G.dn) (G.din (G.up (G.dn + 1))) (G.L (G.up (G.dn + 1))))
    (hw : ({ G with dn := G.up (G.dn + 1) } : EnvF).WF) :
    ∃ S1 rm, handle S (.delta G.dn (G.din (G.up (G.dn + 1)))) = some (S1, rm) ∧
      InvF S1 { G with dn := G.up (G.dn + 1) } ∧ SafeF { G with dn := G.up (G.dn + 1) } S.next rm ∧
      HistC S1 { G with dn := G.up (G.dn + 1) } (R ++ rm) := by
  by_cases hle : S.next ≤ G.dn
  · obtain ⟨S1, h1, h2, h3⟩ := handle_delta_cachedF hI hH hc hlt hw hle
    exact ⟨S1, [], h1, h2, safeF_nil _ _, by simpa using h3⟩
  · exact handle_delta_appliedF hI hG hH hc hlt hex hw (by omega)

end GoLevel.RefLoop
