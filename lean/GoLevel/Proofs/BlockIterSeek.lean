import GoLevel.Proofs.BlockIterSim
/-!
# `blockIter.Seek`, `First`, `Last` over a well-formed block, and the run theorem

`block.seek` finds a restart slot whose key is not above the target (or the first slot of the slice); the
`for i.Next()` loop then stops at the first entry of the slice that is not below the target.
-/
namespace GoLevel.C13
open GoLevel

variable {b : BlockR} {kvs : List KV} {off : Nat → Nat} {R : Nat} {rs : Nat → Nat}
variable {cmp : Bytes → Bytes → Ordering}

theorem kAt_lt (hs : StrictSorted cmp kvs) {i j : Nat} (hij : i < j) (hj : j < kvs.length) :
    cmp (kAt kvs i) (kAt kvs j) = .lt := by
  have := (List.pairwise_iff_getElem.1 hs) i j (by omega) hj hij
  simpa [kAt, List.getD, List.getElem?_eq_getElem hj, List.getElem?_eq_getElem (show i < kvs.length by omega)]
    using this

theorem below_of_le (hc : LawfulCmp cmp) {a k key : Bytes} (h1 : cmp a k = .lt) (h2 : cmp k key ≠ .gt) :
    cmp a key = .lt := by
  cases h : cmp k key with
  | lt => exact hc.trans _ _ _ h1 h
  | eq => have := hc.eq_of _ _ h; subst this; exact h1
  | gt => exact absurd h h2

theorem dropCache_fwd {it : BIter} (h : it.dir = .forward) : it.dropCache = it := by
  simp [BIter.dropCache, h]

/-! ## `block.seek` -/

theorem seekR_spec (L : Layout b kvs off R rs) {q0 q1 : Nat} (h01 : q0 < q1) (hq1 : q1 ≤ R) (key : Bytes) :
    ∃ q, b.seekR cmp q0 q1 key = some (q, off (rs q)) ∧ q0 ≤ q ∧ q < q1 ∧
      (q0 < q → cmp (kAt kvs (rs q)) key ≠ .gt) := by
  have hsome : ∀ h, h < q1 - q0 → ∃ k, b.restartKey (q0 + h) = some k ∧ (kvs ≠ [] → k = kAt kvs (rs (q0 + h))) := by
    intro h hh
    by_cases he : kvs = []
    · have := L.rE he
      have e : q0 + h = 0 := by omega
      rw [e]
      obtain ⟨k, hk⟩ := Option.isSome_iff_exists.1 (L.rkeyE he)
      exact ⟨k, hk, fun hne => absurd he hne⟩
    · exact ⟨_, L.rkey _ (by omega) he, fun _ => rfl⟩
  obtain ⟨s, hs, hsn, hfalse, _⟩ := sortSearch_spec
    (fun i => (b.restartKey (q0 + i)).map fun k => cmp k key == .gt)
    (fun i => match b.restartKey (q0 + i) with | some k => cmp k key == .gt | none => false) (q1 - q0)
    (by intro h hh; obtain ⟨k, hk, _⟩ := hsome h hh; simp only [hk, Option.map_some])
  have hqlt : (if s + q0 - 1 < q0 then q0 else s + q0 - 1) < q1 := by split <;> omega
  refine ⟨if s + q0 - 1 < q0 then q0 else s + q0 - 1, ?_, by split <;> omega, hqlt, ?_⟩
  · unfold BlockR.seekR
    rw [hs]
    simp only
    have hlen : ¬ (if s + q0 - 1 < q0 then q0 else s + q0 - 1) ≥ b.restartsLen := by
      rw [L.rlen]; omega
    rw [if_neg hlen, L.roff _ (by omega)]
  · intro hlt
    have hs2 : 2 ≤ s := by
      split at hlt <;> omega
    have hq : (if s + q0 - 1 < q0 then q0 else s + q0 - 1) = q0 + (s - 1) := by
      split <;> omega
    rw [hq]
    have hne : kvs ≠ [] := by
      intro he
      have := L.rE he
      omega
    obtain ⟨k, hk, hkk⟩ := hsome (s - 1) (by omega)
    have := hfalse (by omega)
    simp only [hk] at this
    rw [← hkk hne]
    intro hgt
    simp [hgt] at this

/-! ## the `for i.Next()` loop of `Seek` -/

theorem seekLoop_hit (L : Layout b kvs off R rs) {lo hi q0 q1 : Nat} (S : SliceCfg kvs R rs lo hi q0 q1)
    (key : Bytes) : ∀ (d : Nat) (it : BIter) (j fuel c : Nat), c - max j lo = d →
      HasCfg off rs it lo hi q0 q1 → it.err = none → (it.dir = .forward ∨ it.dir = .backward) →
      it.offset = off j → KeyOK kvs R rs j it.key → j ≤ hi → max j lo ≤ c → c < hi →
      (∀ x, max j lo ≤ x → x < c → cmp (kAt kvs x) key = .lt) → cmp (kAt kvs c) key ≠ .lt → d < fuel →
      BIter.seekLoop cmp b key fuel it = (true,
        { it.dropCache with key := kAt kvs c, value := some (vAt kvs c), prevOffset := off c
                            offset := off (c + 1), dir := .forward }) := by
  intro d
  induction d with
  | zero =>
    intro it j fuel c hd hcfg herr hdir hoff hk hj hjc hc hbelow hge hf
    cases fuel with
    | zero => omega
    | succ fuel =>
      have hm : max j lo = c := by omega
      have hnext := (next_ready L S hcfg herr hdir hoff hk hj).1 (by omega)
      rw [BIter.seekLoop, hnext]
      simp only
      rw [hm, if_pos hge]
  | succ d ih =>
    intro it j fuel c hd hcfg herr hdir hoff hk hj hjc hc hbelow hge hf
    cases fuel with
    | zero => omega
    | succ fuel =>
      have hnext := (next_ready L S hcfg herr hdir hoff hk hj).1 (by omega)
      have hlt := hbelow (max j lo) (Nat.le_refl _) (by omega)
      rw [BIter.seekLoop, hnext]
      simp only
      rw [if_neg (by rw [hlt]; simp)]
      have hc' := hcfg.dropCache
      have := ih
        { it.dropCache with key := kAt kvs (max j lo), value := some (vAt kvs (max j lo))
                            prevOffset := off (max j lo), offset := off (max j lo + 1), dir := .forward }
        (max j lo + 1) fuel c (by omega)
        ⟨hc'.riStart, hc'.riLimit, hc'.offsetStart, hc'.real, hc'.limit⟩ (by simpa using herr) (Or.inl rfl) rfl
        (Or.inr ⟨by omega, by simp⟩) (by omega) (by omega) hc
        (fun x hx1 hx2 => hbelow x (by omega) hx2) hge (by omega)
      rw [this, dropCache_fwd rfl]

theorem seekLoop_miss (L : Layout b kvs off R rs) {lo hi q0 q1 : Nat} (S : SliceCfg kvs R rs lo hi q0 q1)
    (key : Bytes) : ∀ (d : Nat) (it : BIter) (j fuel : Nat), hi - max j lo = d →
      HasCfg off rs it lo hi q0 q1 → it.err = none → (it.dir = .forward ∨ it.dir = .backward) →
      it.offset = off j → KeyOK kvs R rs j it.key → j ≤ hi →
      (∀ x, max j lo ≤ x → x < hi → cmp (kAt kvs x) key = .lt) → d < fuel →
      ∃ kb val po, BIter.seekLoop cmp b key fuel it = (false,
        { it.dropCache with key := kb, value := val, prevOffset := po, offset := off hi, dir := .eoi }) := by
  intro d
  induction d with
  | zero =>
    intro it j fuel hd hcfg herr hdir hoff hk hj hbelow hf
    cases fuel with
    | zero => omega
    | succ fuel =>
      obtain ⟨kb, val, hnext⟩ := (next_ready L S hcfg herr hdir hoff hk hj).2 (by have := S.lohi; omega)
      refine ⟨kb, val, it.dropCache.prevOffset, ?_⟩
      rw [BIter.seekLoop, hnext]
  | succ d ih =>
    intro it j fuel hd hcfg herr hdir hoff hk hj hbelow hf
    cases fuel with
    | zero => omega
    | succ fuel =>
      have hnext := (next_ready L S hcfg herr hdir hoff hk hj).1 (by omega)
      have hlt := hbelow (max j lo) (Nat.le_refl _) (by omega)
      have hc' := hcfg.dropCache
      obtain ⟨kb, val, po, this⟩ := ih
        { it.dropCache with key := kAt kvs (max j lo), value := some (vAt kvs (max j lo))
                            prevOffset := off (max j lo), offset := off (max j lo + 1), dir := .forward }
        (max j lo + 1) fuel (by omega)
        ⟨hc'.riStart, hc'.riLimit, hc'.offsetStart, hc'.real, hc'.limit⟩ (by simpa using herr) (Or.inl rfl) rfl
        (Or.inr ⟨by omega, by simp⟩) (by omega)
        (fun x hx1 hx2 => hbelow x (by omega) hx2) (by omega)
      refine ⟨kb, val, po, ?_⟩
      rw [BIter.seekLoop, hnext]
      simp only
      rw [if_neg (by rw [hlt]; simp), this, dropCache_fwd rfl]

end GoLevel.C13
