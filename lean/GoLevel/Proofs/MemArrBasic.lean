import GoLevel.Model.MemArr
import GoLevel.Proofs.MemDBStep
/-! The array encoding of the skip list (C14): elementary facts about the checked reads/writes and about
`kvData` slices, the pointer chains `Chain`, and the representation relation `Rep` between the arrays
(`GoLevel.MemArr.DB`) and the ideal skip list (`GoLevel.MemDB.DB`). -/
set_option linter.unusedSectionVars false
set_option linter.unusedSimpArgs false
set_option linter.unusedVariables false
namespace GoLevel.MemArr
open GoLevel.Gen (nKV nKey nVal nHeight nNext tMaxHeight)
open GoLevel.MemDB (Node)

/-! ## constants (side conditions on the generated values, decided) -/

theorem nKV_eq : nKV = 0 := by decide
theorem nKey_eq : nKey = 1 := by decide
theorem nVal_eq : nVal = 2 := by decide
theorem nHeight_eq : nHeight = 3 := by decide
theorem nNext_eq : nNext = 4 := by decide
theorem tMaxHeight_pos : 0 < tMaxHeight := by decide

/-! ## checked writes -/

theorem wr_eq_some {a a' : Array Nat} {i v : Nat} (h : wr a i v = some a') :
    i < a.size ∧ a'.size = a.size ∧ ∀ x, a'[x]? = if x = i then some v else a[x]? := by
  unfold wr at h
  split at h
  · rename_i hi
    have := Option.some.inj h
    subst this
    refine ⟨hi, by simp, ?_⟩
    intro x
    rw [Array.getElem?_set]
    by_cases hx : x = i
    · subst hx; simp
    · have : ¬ i = x := fun e => hx e.symm
      simp [hx, this]
  · exact absurd h (by simp)

theorem wr_some {a : Array Nat} {i : Nat} (v : Nat) (h : i < a.size) : ∃ a', wr a i v = some a' := by
  unfold wr; simp [h]

theorem setAt_some {pn : List Nat} {i : Nat} (v : Nat) (h : i < pn.length) : setAt pn i v = some (pn.set i v) := by
  unfold setAt; simp [h]

/-! ## slices of `kvData` -/

theorem slice_eq_some {kv : Array UInt8} {lo hi : Nat} {b : Bytes} :
    slice kv lo hi = some b ↔ lo ≤ hi ∧ hi ≤ kv.size ∧ b = (kv.toList.take hi).drop lo := by
  unfold slice
  by_cases h : lo ≤ hi ∧ hi ≤ kv.size
  · simp only [h, and_self, if_true, Option.some.injEq, true_and]
    rw [Array.toList_extract, List.extract_eq_take_drop, List.drop_take]
    constructor <;> intro e <;> exact e.symm
  · simp only [h, if_false]
    constructor
    · intro e; exact absurd e (by simp)
    · intro e; exact absurd ⟨e.1, e.2.1⟩ h

/-- appending to `kvData` does not change the slices already cut -/
theorem slice_append {kv : Array UInt8} {lo hi : Nat} {b : Bytes} (ext : Array UInt8) (h : slice kv lo hi = some b) :
    slice (kv ++ ext) lo hi = some b := by
  rw [slice_eq_some] at h ⊢
  obtain ⟨h1, h2, h3⟩ := h
  refine ⟨h1, by rw [Array.size_append]; omega, ?_⟩
  rw [h3, Array.toList_append, List.take_append_of_le_length (by simpa using h2)]

/-- the key bytes `Put` appends -/
theorem slice_put_key (kv : Array UInt8) (key value : Bytes) :
    slice (kv ++ key.toArray ++ value.toArray) kv.size (kv.size + key.length) = some key := by
  rw [slice_eq_some]
  refine ⟨by omega, by simp only [Array.size_append, List.size_toArray]; omega, ?_⟩
  simp only [Array.toList_append, List.toList_toArray, List.append_assoc]
  have h1 : kv.size = kv.toList.length := by simp
  rw [h1, List.take_append, List.drop_append]
  simp

/-- the value bytes `Put` appends -/
theorem slice_put_val (kv : Array UInt8) (key value : Bytes) :
    slice (kv ++ key.toArray ++ value.toArray) (kv.size + key.length) (kv.size + key.length + value.length) =
      some value := by
  rw [slice_eq_some]
  refine ⟨by omega, by simp only [Array.size_append, List.size_toArray]; omega, ?_⟩
  simp only [Array.toList_append, List.toList_toArray]
  have h1 : kv.size + key.length = (kv.toList ++ key).length := by simp
  have h2 : kv.size + key.length + value.length = (kv.toList ++ key ++ value).length := by
    simp [Nat.add_assoc]
  rw [h2, List.take_length, h1, List.drop_left]

/-! ## node references and pointer chains -/

/-- node index of an ideal node reference (`none` = node 0) -/
def nix (ix : Bytes → Nat) : Node → Nat
  | none => 0
  | some k => ix k

@[simp] theorem nix_none (ix : Bytes → Nat) : nix ix none = 0 := rfl
@[simp] theorem nix_some (ix : Bytes → Nat) (k : Bytes) : nix ix (some k) = ix k := rfl

/-- following the level-`h` pointers from node `from` visits exactly the nodes carrying `ks`; the last one (or
`from` itself) points to `stop` -/
def Chain (nd : Array Nat) (ix : Bytes → Nat) (h stop : Nat) : Nat → List Bytes → Prop
  | frm, [] => nd[frm + nNext + h]? = some stop
  | frm, k :: ks => nd[frm + nNext + h]? = some (ix k) ∧ Chain nd ix h stop (ix k) ks

/-- the slot read first -/
theorem Chain.head {nd : Array Nat} {ix : Bytes → Nat} {h stop frm : Nat} {l : List Bytes}
    (c : Chain nd ix h stop frm l) : nd[frm + nNext + h]? = some ((l.head?.map ix).getD stop) := by
  cases l with
  | nil => exact c
  | cons k ks => exact c.1

theorem nix_head (ix : Bytes → Nat) (l : List Bytes) : (l.head?.map ix).getD 0 = nix ix l.head? := by
  cases l <;> rfl

theorem chain_append {nd : Array Nat} {ix : Bytes → Nat} {h stop : Nat} {k : Bytes} {b : List Bytes} :
    ∀ {a : List Bytes} {frm : Nat},
      Chain nd ix h stop frm (a ++ k :: b) ↔ Chain nd ix h (ix k) frm a ∧ Chain nd ix h stop (ix k) b := by
  intro a
  induction a with
  | nil => intro frm; simp [Chain]
  | cons x xs ih =>
    intro frm
    simp only [List.cons_append, Chain, ih, and_assoc]

/-- the chain as seen from a node on it -/
theorem Chain.after {nd : Array Nat} {ix : Bytes → Nat} {h stop : Nat} :
    ∀ {l : List Bytes} {frm : Nat} {x : Bytes}, Chain nd ix h stop frm l → x ∈ l →
      Chain nd ix h stop (ix x) (MemDB.after l (some x)) := by
  intro l
  induction l with
  | nil => intro _ _ _ hx; exact absurd hx (by simp)
  | cons y ys ih =>
    intro frm x c hx
    by_cases hyx : y = x
    · subst hyx
      have : MemDB.after (y :: ys) (some y) = ys := by simp [MemDB.after, List.dropWhile_cons]
      rw [this]; exact c.2
    · have hx' : x ∈ ys := by
        simp only [List.mem_cons] at hx
        rcases hx with e | e
        · exact absurd e.symm hyx
        · exact e
      have : MemDB.after (y :: ys) (some x) = MemDB.after ys (some x) := by
        simp [MemDB.after, List.dropWhile_cons, hyx]
      rw [this]; exact ih c.2 hx'

/-- a chain only depends on the slots of the nodes on it and on their indices -/
theorem Chain.frame {nd nd' : Array Nat} {ix ix' : Bytes → Nat} {h stop : Nat} :
    ∀ {l : List Bytes} {frm : Nat}, Chain nd ix h stop frm l →
      nd'[frm + nNext + h]? = nd[frm + nNext + h]? →
      (∀ k ∈ l, ix' k = ix k ∧ nd'[ix k + nNext + h]? = nd[ix k + nNext + h]?) →
      Chain nd' ix' h stop frm l := by
  intro l
  induction l with
  | nil => intro frm c h0 _; exact h0.trans c
  | cons y ys ih =>
    intro frm c h0 hall
    have hy := hall y (by simp)
    refine ⟨by rw [h0, hy.1]; exact c.1, ?_⟩
    rw [hy.1]
    exact ih c.2 hy.2 (fun k hk => hall k (by simp [hk]))

/-- the same chain with the last pointer redirected -/
theorem Chain.redirect {nd nd' : Array Nat} {ix ix' : Bytes → Nat} {h stop stop' : Nat} :
    ∀ {l : List Bytes} {frm : Nat}, Chain nd ix h stop frm l →
      (∀ k ∈ l, ix' k = ix k) →
      nd'[(match l.getLast? with | none => frm | some k => ix k) + nNext + h]? = some stop' →
      (∀ z ∈ (frm :: l.map ix).dropLast, nd'[z + nNext + h]? = nd[z + nNext + h]?) →
      Chain nd' ix' h stop' frm l := by
  intro l
  induction l with
  | nil => intro frm _ _ hl _; simpa [Chain] using hl
  | cons y ys ih =>
    intro frm c hix hl hfr
    have hy := hix y (by simp)
    have h0 : nd'[frm + nNext + h]? = nd[frm + nNext + h]? := by
      apply hfr
      cases ys <;> simp [List.dropLast]
    refine ⟨by rw [h0, hy]; exact c.1, ?_⟩
    rw [hy]
    apply ih c.2 (fun k hk => hix k (by simp [hk]))
    · cases ys with
      | nil => simpa using hl
      | cons z zs =>
        rw [List.getLast?_cons_cons] at hl
        cases hg : (z :: zs).getLast? with
        | none => simp at hg
        | some w => rw [hg] at hl; exact hl
    · intro z hz
      apply hfr
      cases ys with
      | nil => simp [List.dropLast] at hz
      | cons w ws =>
        simp only [List.map_cons, List.dropLast_cons_cons] at hz ⊢
        exact List.mem_cons_of_mem _ hz

/-! ## tower heights of the ideal list -/

theorem mem_level_of_lt_height {L : List (List Bytes)} {k : Bytes} :
    ∀ {i : Nat} (hi : i < L.length), i < (L.takeWhile (·.contains k)).length → k ∈ L[i] := by
  induction L with
  | nil => intro i hi; exact absurd hi (by simp)
  | cons l ls ih =>
    intro i hi hlt
    by_cases hk : l.contains k = true
    · cases i with
      | zero => simpa using hk
      | succ i =>
        simp only [List.takeWhile_cons, hk, if_true, List.length_cons] at hlt
        simpa using ih (by simpa using hi) (by omega)
    · have hk' : k ∉ l := by simpa using hk
      simp [List.takeWhile_cons, hk'] at hlt

theorem lt_height_of_mem_level {L : List (List Bytes)} {k : Bytes}
    (hT : L.Pairwise (fun lo hi => ∀ x ∈ hi, x ∈ lo)) :
    ∀ {i : Nat} (hi : i < L.length), k ∈ L[i] → i < (L.takeWhile (·.contains k)).length := by
  induction L with
  | nil => intro i hi; exact absurd hi (by simp)
  | cons l ls ih =>
    intro i hi hm
    have hT' := List.pairwise_cons.1 hT
    cases i with
    | zero =>
      have : k ∈ l := by simpa using hm
      simp [List.takeWhile_cons, this]
    | succ i =>
      have hm' : k ∈ ls[i]'(by simpa using hi) := by simpa using hm
      have hl : l.contains k = true := by
        have := hT'.1 _ (List.getElem_mem (by simpa using hi)) k hm'
        simpa using this
      have := ih hT'.2 (by simpa using hi) hm'
      simp only [List.takeWhile_cons, hl, if_true, List.length_cons]
      omega

theorem height_le_length (d : MemDB.DB) (k : Bytes) : d.height k ≤ d.levels.length := by
  unfold MemDB.DB.height
  exact (List.takeWhile_sublist _).length_le

/-! ## the representation relation -/

/-- node `i` of the arrays carries key `k`, value `v` and a tower of `ht` pointers -/
structure NodeAt (a : DB) (i : Nat) (k v : Bytes) (ht : Nat) : Prop where
  lo : nNext + tMaxHeight ≤ i
  hi : i + nNext + ht ≤ a.nodeData.size
  off : ∃ o, a.nodeData[i]? = some o ∧ slice a.kvData o (o + k.length) = some k ∧
          slice a.kvData (o + k.length) (o + k.length + v.length) = some v
  klen : a.nodeData[i + nKey]? = some k.length
  vlen : a.nodeData[i + nVal]? = some v.length
  height : a.nodeData[i + nHeight]? = some ht

/-- `Rep cmp a d ix`: the arrays `a` represent the ideal skip list `d`, the live node carrying key `k` sits at index
`ix k`.
* the ideal list satisfies its invariant; `maxHeight`, `n`, `kvSize`, `len(kvData)` are the ideal counters;
* `chain`: every ideal level is the chain of keys reached by following the next pointers of that level from the head;
* `top`: the head's pointers above `maxHeight` are 0 (what `Put` relies on when it raises `maxHeight`);
* `node`: the fields of every live node (offset/lengths/height, the bytes at the offsets are key and value), all
  indices inside `nodeData` — no dangling index;
* `sep`: the index ranges of distinct live nodes are disjoint (and disjoint from the head's, by `NodeAt.lo`);
* `fuel`: `nodeData` is at least as long as the head plus all the live pointers (the fuel bound of the searches).
Nothing is said about `prevNode` beyond its length: it is scratch space. -/
structure Rep (cmp : Cmp) (a : DB) (d : MemDB.DB) (ix : Bytes → Nat) : Prop where
  inv : MemDB.Inv cmp d
  mh : a.maxHeight = d.levels.length
  n : a.n = d.n
  kvSize : a.kvSize = d.kvSize
  used : a.kvData.size = d.used
  pn : a.prevNode.length = tMaxHeight
  fuel : (d.levels.map List.length).sum + (nNext + tMaxHeight) ≤ a.nodeData.size
  top : ∀ h, d.levels.length ≤ h → h < tMaxHeight → a.nodeData[nNext + h]? = some 0
  chain : ∀ h (hh : h < d.levels.length), Chain a.nodeData ix h 0 0 d.levels[h]
  node : ∀ k ∈ d.level0, NodeAt a (ix k) k (d.value k) (d.height k)
  sep : ∀ k ∈ d.level0, ∀ k' ∈ d.level0, k ≠ k' →
    ix k + nNext + d.height k ≤ ix k' ∨ ix k' + nNext + d.height k' ≤ ix k

/-- what the search loops need: the chains, the keys of the nodes on them, and that towers have no gaps -/
structure Links (a : DB) (L : List (List Bytes)) (ix : Bytes → Nat) : Prop where
  chain : ∀ h (hh : h < L.length), Chain a.nodeData ix h 0 0 L[h]
  key : ∀ h (hh : h < L.length), ∀ k ∈ L[h], ix k ≠ 0 ∧ a.nodeKey (ix k) = some k
  down : ∀ h (hh : h + 1 < L.length), ∀ k ∈ L[h + 1], k ∈ L[h]

variable {cmp : Cmp}

theorem NodeAt.nodeKey {a : DB} {i : Nat} {k v : Bytes} {ht : Nat} (h : NodeAt a i k v ht) :
    a.nodeKey i = some k := by
  obtain ⟨o, h1, h2, _⟩ := h.off
  simp [DB.nodeKey, h1, h.klen, h2]

theorem NodeAt.nodeVal {a : DB} {i : Nat} {k v : Bytes} {ht : Nat} (h : NodeAt a i k v ht) :
    a.nodeVal i = some v := by
  obtain ⟨o, h1, _, h3⟩ := h.off
  simp [DB.nodeVal, h1, h.klen, h.vlen, h3]

theorem headD_eq_getElem {α : Type} (L : List α) (dflt : α) (h : 0 < L.length) : L.headD dflt = L[0] := by
  cases L with
  | nil => exact absurd h (by simp)
  | cons x xs => simp

theorem level0_eq_getElem (d : MemDB.DB) (h : 0 < d.levels.length) : d.level0 = d.levels[0] :=
  headD_eq_getElem _ _ h

theorem Rep.level_sub0 {a : DB} {d : MemDB.DB} {ix : Bytes → Nat} (r : Rep cmp a d ix)
    {h : Nat} (hh : h < d.levels.length) : ∀ k ∈ d.levels[h], k ∈ d.level0 := by
  intro k hk
  have hT := r.inv.towersSub
  have h0 : 0 < d.levels.length := by omega
  rw [level0_eq_getElem d h0]
  cases h with
  | zero => exact hk
  | succ h => exact (List.pairwise_iff_getElem.1 hT) 0 (h + 1) h0 hh (by omega) k hk

theorem Rep.links {a : DB} {d : MemDB.DB} {ix : Bytes → Nat} (r : Rep cmp a d ix) : Links a d.levels ix where
  chain := r.chain
  key := by
    intro h hh k hk
    have hn := r.node k (r.level_sub0 hh k hk)
    have := hn.lo
    have h4 := nNext_eq
    exact ⟨by omega, hn.nodeKey⟩
  down := by
    intro h hh k hk
    exact (List.pairwise_iff_getElem.1 r.inv.towersSub) h (h + 1) (by omega) hh (by omega) k hk

/-- a key on level `i` has a tower higher than `i` -/
theorem Rep.lt_height {a : DB} {d : MemDB.DB} {ix : Bytes → Nat} (r : Rep cmp a d ix)
    {i : Nat} (hi : i < d.levels.length) {k : Bytes} (hk : k ∈ d.levels[i]) : i < d.height k :=
  lt_height_of_mem_level r.inv.towersSub hi hk

end GoLevel.MemArr
