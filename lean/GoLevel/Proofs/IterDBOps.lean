import GoLevel.Proofs.IterDB
/-!
# The five calls of `DBIter` preserve the simulation relation `DBRel`

Core Lean only.
-/
namespace GoLevel

section
variable {σ : Type} {o : IterOps σ} {c : UCmp} {es : List Entry} {R : σ → Pos → Prop}
variable (hsim : Sim o c es R) (hl : LawfulUCmp c) (hs : SortedEntries c es)
  (hk : ∀ e ∈ es, e.kind ≤ Gen.keyTypeVal)
include hsim hl hs hk

omit hsim hk in
theorem cursor_first_of_rk0 (seq j : Nat) (e : Entry) (he : es[j]? = some e) (hv : Vis es seq j e)
    (h0 : rk c es seq j = 0) : Cursor.first (visList c es seq) = .at (rk c es seq j) := by
  have := rk_lt hl hs seq j e he hv
  rw [h0] at this ⊢
  cases hvl : visList c es seq with
  | nil => rw [hvl] at this; simp at this
  | cons x xs => simp [Cursor.first]

/-- the scan that `First` and `Next`-at-`soi` run from raw index 0 -/
theorem scan_from_start {seq : Nat} (d : DBIter σ) (hseq : d.seq = seq) (hfuel : es.length < d.fuel)
    (hd : d.dir = .soi) (hR : R d.raw (.at 0)) (hne : 0 < es.length) :
    DBRel c R es seq (DBIter.nextLoop o c d.fuel d).1 (Cursor.first (visList c es seq)) := by
  have he0 : es[0]? = some es[0] := List.getElem?_eq_getElem hne
  have hNI : NI c es d.seq 0 d.dir d.key := by
    intro i e _ _ _
    constructor
    · intro _; exact .inl hd
    · intro _ i' e' hi'; omega
  have hout := nextLoop_spec hsim hl hs hk d.fuel 0 d es[0] (by omega) hR he0 hNI
  rw [hseq] at hout
  refine NextOut.rel hfuel hout ?_ ?_
  · intro j' e _ he hv hgap
    have h0 : rk c es seq j' = 0 := rk_begin hl hs seq j' (fun i e' hi he' => hgap i e' (Nat.zero_le _) hi he')
    exact cursor_first_of_rk0 hl hs seq j' e he hv h0
  · intro hgap
    rw [visList_nil hl hs seq (fun i e he => hgap i e (Nat.zero_le _) he)]
    rfl

theorem first_rel {seq : Nat} {d : DBIter σ} {p : Pos} (h : DBRel c R es seq d p) :
    DBRel c R es seq (DBIter.first o c d) (Cursor.first (visList c es seq)) := by
  obtain ⟨q, hq⟩ := h.rawR
  have hnr := h.not_released
  obtain ⟨hseq, hfuel, _⟩ := h
  have hRf := hsim.first _ _ hq
  simp only [DBIter.first, if_neg hnr]
  by_cases hne : 0 < es.length
  · have hf : Cursor.first es = .at 0 := by
      cases es with
      | nil => simp at hne
      | cons x xs => simp [Cursor.first]
    rw [hf] at hRf
    have hok : o.ok (o.first d.raw) = true := by
      rw [hsim.ok_eq _ _ hRf]; simp [Cursor.get, hne]
    rw [if_pos hok]
    exact scan_from_start hsim hl hs hk { d with raw := o.first d.raw, dir := .soi } hseq hfuel rfl hRf hne
  · have hnil : es = [] := by cases es with | nil => rfl | cons x xs => simp at hne
    subst hnil
    have hok : o.ok (o.first d.raw) = false := by
      rw [hsim.ok_eq _ _ hRf]; simp [Cursor.get, Cursor.first]
    rw [hok]
    exact ⟨hseq, hfuel, rfl, ⟨_, hRf⟩⟩

omit hsim hl hs hk in
theorem prevScan_eq (d : DBIter σ) : DBIter.prevScan o c d =
    (let d1 : DBIter σ := { d with dir := .backward }
     let r := if o.ok d1.raw then DBIter.prevLoop o c d1.fuel true d1 else (d1, true)
     if r.2 then { r.1 with dir := .soi } else r.1) := rfl

/-- `prev()` from a raw iterator standing at `q` (`soi`, or the top index `t` of the part to scan) -/
theorem prevScan_rel {seq : Nat} (d : DBIter σ) (hseq : d.seq = seq) (hfuel : es.length < d.fuel) (q : Pos)
    (hq : R d.raw q) (hq' : q ≠ .eoi) (p' : Pos)
    (hsoi : q = .soi → p' = .soi)
    (hnone : ∀ t, q = .at t → (∀ (i : Nat) (e : Entry), i ≤ t → es[i]? = some e → ¬ Vis es seq i e) → p' = .soi)
    (hfound : ∀ t m em, q = .at t → m ≤ t → es[m]? = some em → Vis es seq m em →
      (∀ (i : Nat) (e : Entry), m < i → i ≤ t → es[i]? = some e → ¬ Vis es seq i e) → p' = .at (rk c es seq m)) :
    DBRel c R es seq (DBIter.prevScan o c d) p' := by
  subst hseq
  rw [prevScan_eq]
  simp only
  cases q with
  | eoi => exact absurd rfl hq'
  | soi =>
    have hok : o.ok d.raw = false := by rw [hsim.ok_eq _ _ hq]; rfl
    simp only [hok]
    exact ⟨rfl, hfuel, hsoi rfl, hq⟩
  | «at» t =>
    have hwf : t < es.length := hsim.wf _ _ hq
    have het : es[t]? = some es[t] := List.getElem?_eq_getElem hwf
    have hok : o.ok d.raw = true := by rw [hsim.ok_eq _ _ hq]; simp [Cursor.get, hwf]
    simp only [hok, if_true]
    have hPI : PI es d.seq (t + 1) t true d.key d.value :=
      ⟨fun _ i e h1 h2 => by omega, fun h => by simp at h⟩
    have hout := prevLoop_spec hsim hl hs hk ({ d with dir := .backward } : DBIter σ) t d.fuel t true
      { d with dir := .backward } es[t] (by omega) hq het (Nat.le_refl _) rfl rfl rfl hPI
    obtain ⟨h1, h2, h3, h4, h5⟩ := hout
    simp only at h1 h2 h3 h4 h5
    cases hr : (DBIter.prevLoop o c d.fuel true { d with dir := .backward }).2 with
    | true =>
      simp only [if_true]
      obtain ⟨hR, hno⟩ := h4 hr
      exact ⟨h1, by simp only; omega, hnone t rfl hno, hR⟩
    | false =>
      simp only [Bool.false_eq_true, if_false]
      obtain ⟨m, em, hmt, hem, hv, hkey, hval, habove, hback⟩ := h5 hr
      refine ⟨h1, by omega, ?_⟩
      rw [h3]
      exact ⟨m, em, hem, hv, hkey, hval, hfound t m em rfl hmt hem hv habove, hback⟩

omit hsim hk in
theorem cursor_last_of_rk (seq m : Nat) (em : Entry) (hem : es[m]? = some em) (hv : Vis es seq m em)
    (habove : ∀ (i : Nat) (e : Entry), m < i → es[i]? = some e → ¬ Vis es seq i e) :
    Cursor.last (visList c es seq) = .at (rk c es seq m) := by
  have h1 := rk_succ hl hs seq m em hem hv
  have h2 := rk_end hl hs seq (m + 1) (fun i e hi he => habove i e (by omega) he)
  cases hvl : visList c es seq with
  | nil => rw [hvl] at h2; simp at h2; omega
  | cons x xs =>
    rw [hvl] at h2
    simp only [Cursor.last, List.isEmpty_cons, Bool.false_eq_true, if_false, List.length_cons] at h2 ⊢
    congr 1; omega

theorem last_rel {seq : Nat} {d : DBIter σ} {p : Pos} (h : DBRel c R es seq d p) :
    DBRel c R es seq (DBIter.last o c d) (Cursor.last (visList c es seq)) := by
  obtain ⟨q, hq⟩ := h.rawR
  have hnr := h.not_released
  obtain ⟨hseq, hfuel, _⟩ := h
  have hRl := hsim.last _ _ hq
  simp only [DBIter.last, if_neg hnr]
  by_cases hne : 0 < es.length
  · have hf : Cursor.last es = .at (es.length - 1) := by
      cases es with
      | nil => simp at hne
      | cons x xs => simp [Cursor.last]
    rw [hf] at hRl
    have hok : o.ok (o.last d.raw) = true := by
      rw [hsim.ok_eq _ _ hRl]; simp [Cursor.get]; omega
    rw [if_pos hok]
    refine prevScan_rel hsim hl hs hk { d with raw := o.last d.raw } hseq hfuel _ hRl (by simp) _
      (fun h => by simp at h) ?_ ?_
    · intro t ht hno
      cases ht
      rw [visList_nil hl hs seq (fun i e he => hno i e (by have := getElem?_lt he; omega) he)]
      rfl
    · intro t m em ht hmt hem hv habove
      cases ht
      exact cursor_last_of_rk hl hs seq m em hem hv
        (fun i e hi he => habove i e hi (by have := getElem?_lt he; omega) he)
  · have hnil : es = [] := by cases es with | nil => rfl | cons x xs => simp at hne
    subst hnil
    have hok : o.ok (o.last d.raw) = false := by
      rw [hsim.ok_eq _ _ hRl]; simp [Cursor.get, Cursor.last]
    rw [hok]
    exact ⟨hseq, hfuel, rfl, hRl⟩

/-! ### `Seek` -/

omit hsim hs hk in
theorem geKey_probe_true (e : Entry) (k : Bytes) (s : Nat) (h : geKey c (probe k s) e = true) :
    c.cmp e.ukey k ≠ .lt := by
  intro hlt
  have : icmp c e.key (probe k s) = .lt := (icmp_order hl _ _).2 (.inl (by simpa [probe, Entry.ukey] using hlt))
  simp [geKey, this] at h

omit hsim hs hk in
theorem geKey_probe_false (e : Entry) (k : Bytes) (s : Nat) (hkind : e.kind ≤ Gen.keyTypeVal)
    (h : geKey c (probe k s) e = false) : c.cmp e.ukey k = .lt ∨ (e.ukey = k ∧ s < e.seq) := by
  cases hc : c.cmp e.ukey k with
  | lt => exact .inl rfl
  | eq =>
    have hu := hl.eq_of _ _ hc
    refine .inr ⟨hu, ?_⟩
    have := ge_probe_same_key hl e.key k s hu hkind
    rcases Nat.lt_or_ge s e.seq with hlt | hge
    · exact hlt
    · have := this.2 hge
      simp only [geKey] at h
      rw [h] at this; exact absurd this (by simp)
  | gt =>
    exfalso
    have : icmp c e.key (probe k s) = .gt := by
      have hc' : c.cmp e.key.ukey (probe k s).ukey = .gt := by simpa [probe, Entry.ukey] using hc
      simp [icmp, hc']
    simp [geKey, this] at h

omit hsim hk in
theorem geKey_mono (p : IKey) (i i' : Nat) (e e' : Entry) (hii : i ≤ i') (he : es[i]? = some e)
    (he' : es[i']? = some e') (h : geKey c p e = true) : geKey c p e' = true := by
  rcases Nat.lt_or_ge i i' with hlt | hge
  · have h1 := sorted_idx hs i i' e e' hlt he he'
    have h2 : icmp c e.key p ≠ .lt := by simpa [geKey] using h
    have h3 : icmp c p e.key ≠ .gt := (icmp_not_lt_iff hl _ _).1 h2
    have h4 := icmp_lt_of_le_of_lt hl p e.key e'.key h3 h1
    have h5 := icmp_asymm hl _ _ h4
    simpa [geKey] using h5
  · have : i = i' := by omega
    subst this; rw [he] at he'; cases he'; exact h

omit hsim hl hs hk in
theorem isVisible_seq (c : UCmp) (es : List Entry) (seq : Nat) (e : Entry) (h : isVisible c es seq e = true) :
    e.seq ≤ seq := by
  simp only [isVisible, Bool.and_eq_true, decide_eq_true_eq] at h
  exact h.1.1

omit hsim hs in
/-- entries before the landing point of the raw seek are below the sought user key as far as a reader at
`seq` can see them -/
theorem below_probe (seq : Nat) (k : Bytes) (e : Entry) (hmem : e ∈ es)
    (hge : geKey c (probe k seq) e = false) (hv : isVisible c es seq e = true) :
    (geUser c k ∘ pairOf) e = false := by
  rcases geKey_probe_false hl e k seq (hk e hmem) hge with h | ⟨_, h⟩
  · simp [geUser, pairOf, h]
  · have := isVisible_seq c es seq e hv; omega

theorem seek_rel {seq : Nat} {d : DBIter σ} {p : Pos} (k : Bytes) (h : DBRel c R es seq d p) :
    DBRel c R es seq (DBIter.seek o c k d) (Cursor.seek (visList c es seq) (geUser c k ∘ pairOf)) := by
  obtain ⟨q, hq⟩ := h.rawR
  have hnr := h.not_released
  obtain ⟨hseq, hfuel, _⟩ := h
  subst hseq
  have hRs := hsim.seek _ _ (probe k d.seq) hq
  simp only [DBIter.seek, if_neg hnr]
  change DBRel c R es d.seq
    (if o.ok (o.seek (probe k d.seq) d.raw) = true then
      (DBIter.nextLoop o c d.fuel { d with raw := o.seek (probe k d.seq) d.raw, dir := .soi }).1
     else { d with raw := o.seek (probe k d.seq) d.raw, dir := .eoi }) _
  simp only [Cursor.seek] at hRs ⊢
  cases hfi : es.findIdx? (geKey c (probe k d.seq)) with
  | none =>
    rw [hfi] at hRs
    have hok : o.ok (o.seek (probe k d.seq) d.raw) = false := by
      rw [hsim.ok_eq _ _ hRs]; rfl
    rw [hok]
    have hall : ∀ e ∈ es, geKey c (probe k d.seq) e = false := by
      have := List.findIdx?_eq_none_iff.1 hfi
      intro e he; simpa using this e he
    have : (visList c es d.seq).findIdx? (geUser c k ∘ pairOf) = none :=
      findIdx_filter_none _ _ es (fun i e he hv =>
        below_probe hl hk d.seq k e (List.mem_of_getElem? he) (hall e (List.mem_of_getElem? he)) hv)
    rw [this]
    exact ⟨rfl, hfuel, rfl, ⟨_, hRs⟩⟩
  | some j0 =>
    rw [hfi] at hRs
    obtain ⟨hj0, hge0, hbefore⟩ := List.findIdx?_eq_some_iff_getElem.1 hfi
    have he0 : es[j0]? = some es[j0] := List.getElem?_eq_getElem hj0
    have hok : o.ok (o.seek (probe k d.seq) d.raw) = true := by
      rw [hsim.ok_eq _ _ hRs]; simp [Cursor.get, hj0]
    rw [if_pos hok]
    have hlow : ∀ (i : Nat) (e : Entry), i < j0 → es[i]? = some e → geKey c (probe k d.seq) e = false := by
      intro i e hi he
      have hlt := getElem?_lt he
      have := hbefore i hi
      rw [List.getElem?_eq_getElem hlt] at he
      cases he
      simpa using this
    have hNI : NI c es d.seq j0 .soi d.key := by
      intro i e hi he hce
      constructor
      · intro _; exact .inl rfl
      · intro _ i' e' hi' he' hu
        rcases geKey_probe_false hl e' k d.seq (hk e' (List.mem_of_getElem? he')) (hlow i' e' hi' he') with
          h | ⟨_, h⟩
        · exfalso
          have hge := geKey_mono hl hs (probe k d.seq) j0 i _ e hi he0 he hge0
          have := geKey_probe_true hl e k d.seq hge
          rw [← hu] at this; exact this h
        · exact h
    have hout := nextLoop_spec hsim hl hs hk d.fuel j0
      { d with raw := o.seek (probe k d.seq) d.raw, dir := .soi } es[j0] (by omega) hRs he0 hNI
    refine NextOut.rel hfuel hout ?_ ?_
    · intro j' e hj' he hv hgap
      have hfr := findIdx_filter_rank (isVisible c es d.seq) (geUser c k ∘ pairOf) es j' e he
        (vis_true hl hs d.seq j' e he hv)
        (by
          have hge := geKey_mono hl hs (probe k d.seq) j0 j' _ e hj' he0 he hge0
          have := geKey_probe_true hl e k d.seq hge
          simpa [geUser, pairOf] using this)
        (by
          intro i e' hi he' hv'
          rcases Nat.lt_or_ge i j0 with hlt | hge
          · exact below_probe hl hk d.seq k e' (List.mem_of_getElem? he') (hlow i e' hlt he') hv'
          · exact absurd ((isVisible_iff hl hs d.seq i e' he').1 hv') (hgap i e' hge hi he'))
      show (match (visList c es d.seq).findIdx? (geUser c k ∘ pairOf) with
        | some i => Pos.at i | none => Pos.eoi) = _
      rw [show visList c es d.seq = es.filter (isVisible c es d.seq) from rfl, hfr]
      rfl
    · intro hgap
      have : (visList c es d.seq).findIdx? (geUser c k ∘ pairOf) = none :=
        findIdx_filter_none _ _ es (fun i e he hv => by
          rcases Nat.lt_or_ge i j0 with hlt | hge
          · exact below_probe hl hk d.seq k e (List.mem_of_getElem? he) (hlow i e hlt he) hv
          · exact absurd ((isVisible_iff hl hs d.seq i e he).1 hv) (hgap i e hge he))
      rw [this]

/-! ### `Next` -/

omit hsim hk in
/-- from the scan result "first visible entry after `j`" to the cursor's `next` -/
theorem NextOut.after {seq fuel j : Nat} {r : DBIter σ × Bool} (e : Entry) (he : es[j]? = some e)
    (hv : Vis es seq j e) (hfuel : es.length < fuel) (h : NextOut R es seq fuel (j + 1) r) :
    DBRel c R es seq r.1 (Cursor.next (visList c es seq) (.at (rk c es seq j))) := by
  have hsucc := rk_succ hl hs seq j e he hv
  refine NextOut.rel hfuel h ?_ ?_
  · intro j' e' hj' he' hv' hgap
    have h1 := rk_gap hl hs seq (j + 1) j' hj' hgap
    have h2 := rk_lt hl hs seq j' e' he' hv'
    simp only [Cursor.next]
    rw [if_pos (by omega)]
    congr 1; omega
  · intro hgap
    have h2 := rk_end hl hs seq (j + 1) hgap
    simp only [Cursor.next]
    rw [if_neg (by omega)]

theorem next_rel {seq : Nat} {d : DBIter σ} {p : Pos} (h : DBRel c R es seq d p) :
    DBRel c R es seq (DBIter.next o c d) (Cursor.next (visList c es seq) p) := by
  have hnr := h.not_released
  obtain ⟨hseq, hfuel, hm⟩ := h
  subst hseq
  cases hd : d.dir with
  | released => exact absurd hd hnr
  | eoi =>
    rw [hd] at hm
    have : DBIter.next o c d = d := by simp [DBIter.next, hd]
    rw [this, hm.1]
    refine ⟨rfl, hfuel, ?_⟩
    rw [hd]; exact ⟨rfl, hm.2⟩
  | soi =>
    rw [hd] at hm
    obtain ⟨hp, hR⟩ := hm
    subst hp
    have hRn := hsim.next _ _ hR
    simp only [Cursor.next] at hRn ⊢
    simp only [DBIter.next, hd]
    simp only [reduceCtorEq, or_self, if_false]
    by_cases hne : 0 < es.length
    · have hf : Cursor.first es = .at 0 := by
        cases es with
        | nil => simp at hne
        | cons x xs => simp [Cursor.first]
      rw [hf] at hRn
      have hok : o.ok (o.next d.raw) = true := by
        rw [hsim.ok_eq _ _ hRn]; simp [Cursor.get, hne]
      simp only [hok, Bool.not_true, Bool.false_eq_true, if_false]
      exact scan_from_start hsim hl hs hk { d with raw := o.next d.raw, dir := .soi } rfl hfuel rfl hRn hne
    · have hnil : es = [] := by cases es with | nil => rfl | cons x xs => simp at hne
      subst hnil
      have hok : o.ok (o.next d.raw) = false := by
        rw [hsim.ok_eq _ _ hRn]; simp [Cursor.get, Cursor.first]
      simp only [hok, Bool.not_false, if_true]
      exact ⟨rfl, hfuel, rfl, ⟨_, hRn⟩⟩
  | forward =>
    rw [hd] at hm
    obtain ⟨j, e, hR, he, hv, hkey, hval, hp⟩ := hm
    subst hp
    have hlen := getElem?_lt he
    have hRn := hsim.next _ _ hR
    simp only [Cursor.next] at hRn
    simp only [DBIter.next, hd]
    simp only [reduceCtorEq, or_self, if_false]
    by_cases hj : j + 1 < es.length
    · rw [if_pos hj] at hRn
      have hok : o.ok (o.next d.raw) = true := by
        rw [hsim.ok_eq _ _ hRn]; simp [Cursor.get, hj]
      simp only [hok, Bool.not_true, Bool.false_eq_true, if_false]
      have he1 : es[j + 1]? = some es[j + 1] := List.getElem?_eq_getElem hj
      have hNI : NI c es d.seq (j + 1) .forward d.key := by
        rw [hkey]; exact NI_after hl hs d.seq j e .forward he hv.1 (by simp)
      have hout := nextLoop_spec hsim hl hs hk d.fuel (j + 1) { d with raw := o.next d.raw, dir := .forward } es[j + 1]
        (by omega) hRn he1 hNI
      exact NextOut.after hl hs e he hv hfuel hout
    · rw [if_neg hj] at hRn
      have hok : o.ok (o.next d.raw) = false := by
        rw [hsim.ok_eq _ _ hRn]; simp [Cursor.get]
      simp only [hok, Bool.not_false, if_true]
      have h2 := rk_end hl hs d.seq (j + 1) (fun i e' hi he' => by have := getElem?_lt he'; omega)
      have hsucc := rk_succ hl hs d.seq j e he hv
      refine ⟨rfl, hfuel, ?_, ⟨_, hRn⟩⟩
      simp only [Cursor.next]
      rw [if_neg (by omega)]
  | backward =>
    rw [hd] at hm
    obtain ⟨j, e, he, hv, hkey, hval, hp, hback⟩ := hm
    subst hp
    have hlen := getElem?_lt he
    simp only [DBIter.next, hd]
    simp only [reduceCtorEq, or_self, if_false, if_true]
    -- after the first raw `Next` the raw iterator stands at some `a ≤ j` with only newer entries in `[a, j)`
    have hfirst : ∃ a, a ≤ j ∧ R (o.next d.raw) (.at a) ∧
        ∀ (i : Nat) (e' : Entry), a ≤ i → i < j → es[i]? = some e' → d.seq < e'.seq := by
      rcases hback with ⟨hR, hgap⟩ | ⟨j', e', hj', hR, _, _, _, hgap⟩
      · have hRn := hsim.next _ _ hR
        have hf : Cursor.first es = .at 0 := by
          cases es with
          | nil => simp at hlen
          | cons x xs => simp [Cursor.first]
        simp only [Cursor.next, hf] at hRn
        exact ⟨0, Nat.zero_le _, hRn, fun i e' _ hi he' => hgap i e' hi he'⟩
      · have hRn := hsim.next _ _ hR
        simp only [Cursor.next] at hRn
        rw [if_pos (by omega)] at hRn
        exact ⟨j' + 1, by omega, hRn, fun i e' hi1 hi2 he' => hgap i e' (by omega) hi2 he'⟩
    obtain ⟨a, haj, hRa, hgap⟩ := hfirst
    have hok : o.ok (o.next d.raw) = true := by
      rw [hsim.ok_eq _ _ hRa]; simp [Cursor.get]; omega
    simp only [hok, Bool.not_true, Bool.false_eq_true, if_false]
    have hRn2 := hsim.next _ _ hRa
    simp only [Cursor.next] at hRn2
    by_cases ha1 : a + 1 < es.length
    · rw [if_pos ha1] at hRn2
      have hok2 : o.ok (o.next (o.next d.raw)) = true := by
        rw [hsim.ok_eq _ _ hRn2]; simp [Cursor.get, ha1]
      simp only [hok2, Bool.not_true, Bool.false_eq_true, if_false]
      have hout : NextOut R es d.seq d.fuel (j + 1)
          (DBIter.nextLoop o c d.fuel { d with raw := o.next (o.next d.raw), dir := .backward }) := by
        rcases Nat.lt_or_ge a j with hlt | hge
        · exact nextLoop_skip hsim hl hs hk d.fuel (a + 1) j { d with raw := o.next (o.next d.raw), dir := .backward } e
            (by omega) (by omega) hRn2 he hv.1 hkey (by simp)
            (fun i e' hi1 hi2 he' => hgap i e' (by omega) hi2 he')
        · have haj' : a = j := by omega
          subst haj'
          have he1 : es[a + 1]? = some es[a + 1] := List.getElem?_eq_getElem ha1
          have hNI : NI c es d.seq (a + 1) .backward d.key := by
            rw [hkey]; exact NI_after hl hs d.seq a e .backward he hv.1 (by simp)
          exact nextLoop_spec hsim hl hs hk d.fuel (a + 1) { d with raw := o.next (o.next d.raw), dir := .backward } es[a + 1]
            (by omega) hRn2 he1 hNI
      exact NextOut.after hl hs e he hv hfuel hout
    · rw [if_neg ha1] at hRn2
      have hok2 : o.ok (o.next (o.next d.raw)) = false := by
        rw [hsim.ok_eq _ _ hRn2]; simp [Cursor.get]
      simp only [hok2, Bool.not_false, if_true]
      have h2 := rk_end hl hs d.seq (j + 1) (fun i e' hi he' => by have := getElem?_lt he'; omega)
      have hsucc := rk_succ hl hs d.seq j e he hv
      refine ⟨rfl, hfuel, ?_, ⟨_, hRn2⟩⟩
      simp only [Cursor.next]
      rw [if_neg (by omega)]

/-! ### `Prev` -/

omit hsim hk in
theorem prev_pos_none (seq j : Nat)
    (h : ∀ (i : Nat) (e : Entry), i < j → es[i]? = some e → ¬ Vis es seq i e) :
    Cursor.prev (visList c es seq) (.at (rk c es seq j)) = .soi := by
  rw [rk_begin hl hs seq j h]; rfl

omit hsim hk in
theorem prev_pos_found (seq j m : Nat) (em : Entry) (hmj : m < j) (hem : es[m]? = some em)
    (hv : Vis es seq m em)
    (h : ∀ (i : Nat) (e : Entry), m < i → i < j → es[i]? = some e → ¬ Vis es seq i e) :
    Cursor.prev (visList c es seq) (.at (rk c es seq j)) = .at (rk c es seq m) := by
  have h1 := rk_gap hl hs seq (m + 1) j hmj (fun i e hi1 hi2 he => h i e (by omega) hi2 he)
  have h2 := rk_succ hl hs seq m em hem hv
  simp only [Cursor.prev]
  rw [if_neg (by omega)]
  congr 1; omega

omit hsim hl hs hk in
theorem prev_forward_eq (d : DBIter σ) (hd : d.dir = .forward) : DBIter.prev o c d =
    (let r := DBIter.backLoop o c d.fuel d
     if r.2 then DBIter.prevScan o c r.1 else { r.1 with dir := .soi }) := by
  simp only [DBIter.prev, hd]

theorem prev_rel {seq : Nat} {d : DBIter σ} {p : Pos} (h : DBRel c R es seq d p) :
    DBRel c R es seq (DBIter.prev o c d) (Cursor.prev (visList c es seq) p) := by
  have hnr := h.not_released
  have h0 := h
  obtain ⟨hseq, hfuel, hm⟩ := h
  subst hseq
  cases hd : d.dir with
  | released => exact absurd hd hnr
  | soi =>
    rw [hd] at hm
    have : DBIter.prev o c d = d := by simp [DBIter.prev, hd]
    rw [this, hm.1]
    refine ⟨rfl, hfuel, ?_⟩
    rw [hd]; exact ⟨rfl, hm.2⟩
  | eoi =>
    rw [hd] at hm
    have : DBIter.prev o c d = DBIter.last o c d := by simp [DBIter.prev, hd]
    rw [this, hm.1]
    exact last_rel hsim hl hs hk h0
  | forward =>
    rw [hd] at hm
    obtain ⟨j, e, hR, he, hv, hkey, hval, hp⟩ := hm
    subst hp
    have hlen := getElem?_lt he
    rw [prev_forward_eq d hd]
    have hb := backLoop_spec hsim j d.fuel j d (by omega) hR (Nat.le_refl _) hlen (by
      intro i e' hi1 hi2 he'
      have : i = j := by omega
      subst this; rw [he] at he'; cases he'
      rw [hkey, hl.refl]; exact fun h => Ordering.noConfusion h)
    simp only at hb ⊢
    obtain ⟨b1, b2, b3, b4, b5, b6, b7⟩ := hb
    -- entries passed by the loop lie in the user-key group of `e` before `j`: newer than `seq`
    have hgroup : ∀ (i : Nat) (e' : Entry), i < j → es[i]? = some e' → c.cmp e'.ukey d.key ≠ .lt →
        ¬ Vis es d.seq i e' := by
      intro i e' hi he' hnlt hv'
      have hle := ukey_le_idx hl hs i j e' e (by omega) he' he
      rw [hkey] at hnlt
      have hu : e'.ukey = e.ukey := by
        cases hc : c.cmp e'.ukey e.ukey with
        | lt => exact absurd hc hnlt
        | eq => exact hl.eq_of _ _ hc
        | gt => exact absurd hc hle
      have := hv.2.2 i e' hi he' hu
      exact absurd hv'.1 (by omega)
    cases hr : (DBIter.backLoop o c d.fuel d).2 with
    | false =>
      simp only [Bool.false_eq_true, if_false]
      obtain ⟨hRs, hall⟩ := b6 hr
      refine ⟨b1, by simp only; omega, ?_, hRs⟩
      exact prev_pos_none hl hs d.seq j (fun i e' hi he' => hgroup i e' hi he' (hall i e' (by omega) he'))
    | true =>
      simp only [if_true]
      obtain ⟨j', e', hj', hR', he', hlt', hall⟩ := b7 hr
      refine prevScan_rel hsim hl hs hk _ b1 (by omega) _ hR' (by simp) _ (fun h => by simp at h) ?_ ?_
      · intro t ht hno
        cases ht
        refine prev_pos_none hl hs d.seq j (fun i e'' hi he'' => ?_)
        rcases Nat.lt_or_ge j' i with h1 | h1
        · exact hgroup i e'' hi he'' (hall i e'' h1 (by omega) he'')
        · exact hno i e'' h1 he''
      · intro t m em ht hmt hem hvm habove
        cases ht
        refine prev_pos_found hl hs d.seq j m em (by omega) hem hvm (fun i e'' hi1 hi2 he'' => ?_)
        rcases Nat.lt_or_ge j' i with h1 | h1
        · exact hgroup i e'' hi2 he'' (hall i e'' h1 (by omega) he'')
        · exact habove i e'' hi1 h1 he''
  | backward =>
    rw [hd] at hm
    obtain ⟨j, e, he, hv, hkey, hval, hp, hback⟩ := hm
    subst hp
    have : DBIter.prev o c d = DBIter.prevScan o c d := by simp [DBIter.prev, hd]
    rw [this]
    have hnewer : ∀ (i : Nat) (e' : Entry), es[i]? = some e' → d.seq < e'.seq → ¬ Vis es d.seq i e' :=
      fun i e' _ hlt hv' => absurd hv'.1 (by omega)
    rcases hback with ⟨hR, hgap⟩ | ⟨j', e', hj', hR, he', hc', hlt', hgap⟩
    · refine prevScan_rel hsim hl hs hk d rfl hfuel _ hR (by simp) _ (fun _ => ?_) (fun t ht => by simp at ht)
        (fun t m em ht => by simp at ht)
      exact prev_pos_none hl hs d.seq j (fun i e'' hi he'' => hnewer i e'' he'' (hgap i e'' hi he''))
    · refine prevScan_rel hsim hl hs hk d rfl hfuel _ hR (by simp) _ (fun h => by simp at h) ?_ ?_
      · intro t ht hno
        cases ht
        refine prev_pos_none hl hs d.seq j (fun i e'' hi he'' => ?_)
        rcases Nat.lt_or_ge j' i with h1 | h1
        · exact hnewer i e'' he'' (hgap i e'' h1 hi he'')
        · exact hno i e'' h1 he''
      · intro t m em ht hmt hem hvm habove
        cases ht
        refine prev_pos_found hl hs d.seq j m em (by omega) hem hvm (fun i e'' hi1 hi2 he'' => ?_)
        rcases Nat.lt_or_ge j' i with h1 | h1
        · exact hnewer i e'' he'' (hgap i e'' h1 hi2 he'')
        · exact habove i e'' hi1 h1 he''

/-- one call keeps the relation, with the specification cursor making the same call -/
theorem step_rel {seq : Nat} {d : DBIter σ} {p : Pos} (cl : Call Bytes) (h : DBRel c R es seq d p) :
    DBRel c R es seq (DBIter.step o c cl d)
      (Cursor.step (visList c es seq) (fun k => geUser c k ∘ pairOf) cl p) := by
  cases cl with
  | first => exact first_rel hsim hl hs hk h
  | last => exact last_rel hsim hl hs hk h
  | seek k => exact seek_rel hsim hl hs hk k h
  | next => exact next_rel hsim hl hs hk h
  | prev => exact prev_rel hsim hl hs hk h

/-- **every finite sequence of calls**: what the DB iterator shows after each call is what the
specification cursor over the visible pairs shows -/
theorem run_rel {seq : Nat} (cs : List (Call Bytes)) {d : DBIter σ} {p : Pos} (h : DBRel c R es seq d p) :
    DBIter.run o c d cs = Cursor.run (visible c es seq) (geUser c) p cs := by
  rw [visible_eq, Cursor.run_map]
  induction cs generalizing d p with
  | nil => rfl
  | cons cl cs ih =>
    have h1 := step_rel hsim hl hs hk cl h
    simp only [DBIter.run, Cursor.run, List.map_cons]
    rw [DBRel.out hl hs h1, ih h1]

end
end GoLevel
