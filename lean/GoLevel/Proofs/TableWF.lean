import GoLevel.Proofs.TableW
import GoLevel.Proofs.FilterP
/-! Writer side of C13(f): the filter writer inside the table writer is fed the data blocks with their offsets. -/
namespace GoLevel.C13
open GoLevel GoLevel.TableAux BlockWriter TableWriter

def keysOf (c : List KV) : List Bytes := c.map (·.1)

/-- the data blocks as the filter writer sees them: (end offset, keys) -/
def fblocks (cfg : TableCfg) : Nat → List (List KV) → List (Nat × List Bytes)
  | _, [] => []
  | off, c :: rest =>
    (off + (blockBytes cfg c).length, keysOf c) :: fblocks cfg (off + (blockBytes cfg c).length) rest

theorem feedAll_append (pol : FilterPolicy) (lg : Nat) (a b : List (Nat × List Bytes)) : ∀ w,
    feedAll pol lg w (a ++ b) = feedAll pol lg (feedAll pol lg w a) b := by
  induction a with
  | nil => intro w; rfl
  | cons x t ih => intro w; obtain ⟨e, ks⟩ := x; simp [feedAll, ih]

theorem fblocks_snoc (cfg : TableCfg) (cs : List (List KV)) (c : List KV) : ∀ off,
    fblocks cfg off (cs ++ [c]) = fblocks cfg off cs ++ [(off + (dataBytes cfg (cs ++ [c])).length, keysOf c)] := by
  induction cs with
  | nil => intro off; simp [fblocks, dataBytes]
  | cons a t ih =>
    intro off
    simp only [List.cons_append, fblocks, ih, dataBytes_snoc]
    simp [dataBytes, Nat.add_assoc]

/-- the filter writer inside the table writer between two `Append`s -/
def FInv (cfg : TableCfg) (pol : FilterPolicy) (w : TableWriter) (cs : List (List KV)) (cur : List KV) : Prop :=
  w.filt = (keysOf cur).foldl FilterWriter.add (feedAll pol cfg.filterBaseLg {} (fblocks cfg 0 cs))

theorem flushPendingBH_filt (cfg : TableCfg) (w : TableWriter) (k : Bytes) : (flushPendingBH cfg w k).filt = w.filt := by
  unfold flushPendingBH; split <;> rfl

theorem append_filt_cut {cfg : TableCfg} {pol : FilterPolicy} (hf : cfg.filter = some pol) (w : TableWriter)
    (k v : Bytes) (hc : cutAfter cfg w k v) :
    (w.append cfg k v).filt = (w.filt.add k).flush pol cfg.filterBaseLg (w.append cfg k v).out.length := by
  unfold cutAfter at hc
  unfold TableWriter.append
  simp only [hc, if_true, hf, TableWriter.finishBlock, writeBlock, flushPendingBH_filt]

theorem append_filt_nocut {cfg : TableCfg} {pol : FilterPolicy} (hf : cfg.filter = some pol) (w : TableWriter)
    (k v : Bytes) (hc : ¬ cutAfter cfg w k v) : (w.append cfg k v).filt = w.filt.add k := by
  unfold cutAfter at hc
  unfold TableWriter.append
  simp only [hc, if_false, hf, flushPendingBH_filt]

theorem FInv.new (cfg : TableCfg) (pol : FilterPolicy) : FInv cfg pol (TableWriter.new cfg) [] [] := rfl

theorem keysOf_snoc (cur : List KV) (k v : Bytes) : keysOf (cur ++ [(k, v)]) = keysOf cur ++ [k] := by
  simp [keysOf]

/-- one `Append`, both invariants -/
theorem TFInv.append {cfg : TableCfg} {pol : FilterPolicy} (hf : cfg.filter = some pol) {w : TableWriter}
    {cs : List (List KV)} {cur : List KV} (h : TInv cfg w cs cur) (hfi : FInv cfg pol w cs cur) (k v : Bytes) :
    ∃ cs' cur', TInv cfg (w.append cfg k v) cs' cur' ∧ FInv cfg pol (w.append cfg k v) cs' cur' ∧
      cs'.flatten ++ cur' = cs.flatten ++ cur ++ [(k, v)] := by
  rcases h.append' k v with ⟨hc, h1⟩ | ⟨hc, h1⟩
  · refine ⟨_, _, h1, ?_, by simp⟩
    unfold FInv at hfi ⊢
    rw [append_filt_cut hf w k v hc, h1.out, fblocks_snoc, feedAll_append, hfi, Nat.zero_add]
    simp only [keysOf, List.map_nil, List.foldl_nil, feedAll, feedBlock, List.map_append, List.map_cons,
      List.foldl_append, List.foldl_cons]
  · refine ⟨_, _, h1, ?_, by simp⟩
    unfold FInv at hfi ⊢
    rw [append_filt_nocut hf w k v hc, hfi, keysOf_snoc, List.foldl_append]
    rfl

theorem TFInv.foldl {cfg : TableCfg} {pol : FilterPolicy} (hf : cfg.filter = some pol) (kvs : List KV) :
    ∀ {w : TableWriter} {cs : List (List KV)} {cur : List KV}, TInv cfg w cs cur → FInv cfg pol w cs cur →
    ∃ cs' cur', TInv cfg (kvs.foldl (fun w kv => w.append cfg kv.1 kv.2) w) cs' cur' ∧
      FInv cfg pol (kvs.foldl (fun w kv => w.append cfg kv.1 kv.2) w) cs' cur' ∧
      cs'.flatten ++ cur' = cs.flatten ++ cur ++ kvs := by
  induction kvs with
  | nil => intro w cs cur h hfi; exact ⟨cs, cur, h, hfi, by simp⟩
  | cons a t ih =>
    intro w cs cur h hfi
    obtain ⟨cs1, cur1, h1, hf1, e1⟩ := TFInv.append hf h hfi a.1 a.2
    obtain ⟨cs2, cur2, h2, hf2, e2⟩ := ih h1 hf1
    exact ⟨cs2, cur2, h2, hf2, by rw [e2, e1]; simp⟩

theorem finishBlock_filt {cfg : TableCfg} {pol : FilterPolicy} (hf : cfg.filter = some pol) (w : TableWriter) :
    (TableWriter.finishBlock cfg w).filt = w.filt.flush pol cfg.filterBaseLg (TableWriter.finishBlock cfg w).out.length := by
  simp only [TableWriter.finishBlock, writeBlock, hf]

theorem closeData_filt {cfg : TableCfg} {pol : FilterPolicy} (hf : cfg.filter = some pol) {w : TableWriter}
    {cs : List (List KV)} {cur : List KV} (h : TInv cfg w cs cur) (hfi : FInv cfg pol w cs cur)
    (hne : cs.flatten ++ cur ≠ []) :
    ∃ cs1, MidInv cfg (closeData cfg w) cs1 [] [] ∧ cs1.flatten = cs.flatten ++ cur ∧
      (closeData cfg w).filt = feedAll pol cfg.filterBaseLg {} (fblocks cfg 0 cs1) := by
  unfold TableWriter.closeData
  by_cases hcur : cur = []
  · subst hcur
    have hn0 : w.data.nEntries = 0 := by rw [h.data.n]; rfl
    have hn1 : w.nEntries ≠ 0 := by
      rw [h.n]
      have : cs.flatten ≠ [] := by simpa using hne
      have := List.length_pos_iff.mpr this
      simp only [List.length_nil, Nat.add_zero]; omega
    have : ¬ (w.data.nEntries > 0 ∨ w.nEntries = 0) := by omega
    simp only [this, if_false]
    refine ⟨cs, by simpa [firstKeyD] using h.flush [], by simp, ?_⟩
    rw [flushPendingBH_filt, hfi]; rfl
  · have hn0 : w.data.nEntries > 0 := by
      rw [h.data.n]; exact List.length_pos_iff.mpr hcur
    simp only [hn0, true_or, if_true]
    have hfb := h.finishBlock hcur
    refine ⟨cs ++ [cur], by simpa [firstKeyD] using hfb.flush [], by simp, ?_⟩
    rw [flushPendingBH_filt, finishBlock_filt hf, hfb.out, fblocks_snoc, feedAll_append, hfi, Nat.zero_add]
    rfl

theorem closeData_filt_empty {cfg : TableCfg} {pol : FilterPolicy} (hf : cfg.filter = some pol) :
    (closeData cfg (TableWriter.new cfg)).filt = feedAll pol cfg.filterBaseLg {} (fblocks cfg 0 [[]]) := by
  have hfin : ({ restartInterval := cfg.restartInterval } : BlockWriter).finish = Block.build cfg.restartInterval [] :=
    (WState.fresh cfg.restartInterval []).finish
  unfold TableWriter.closeData
  rw [flushPendingBH_filt]
  simp only [TableWriter.new, Nat.lt_irrefl, false_or, if_true]
  rw [finishBlock_filt hf]
  simp [TableWriter.finishBlock, writeBlock, hfin, fblocks, feedAll, feedBlock, blockBytes, keysOf]

/-- shape of a written table with a filter policy: the filter block is what `finish` emits after the data blocks
were fed to the filter writer with their offsets -/
theorem write_shape_f (cfg : TableCfg) (pol : FilterPolicy) (hf : cfg.filter = some pol) (kvs : List KV) :
    ∃ cs, Table.write cfg kvs = tableFile cfg cs
        (some ((feedAll pol cfg.filterBaseLg {} (fblocks cfg 0 cs)).finish pol cfg.filterBaseLg)) ∧
      cs.flatten = kvs ∧ ((kvs = [] ∧ cs = [[]]) ∨ (cs ≠ [] ∧ ∀ c ∈ cs, c ≠ [])) := by
  by_cases hk : kvs = []
  · subst hk
    refine ⟨[[]], ?_, rfl, Or.inl ⟨rfl, rfl⟩⟩
    have := close_eq (closed_empty cfg)
    simp only [closeFilter, hf, Option.map_some, closeData_filt_empty hf] at this
    exact this
  · obtain ⟨cs, cur, h, hfi, e⟩ := TFInv.foldl hf kvs (TInv.new cfg) (FInv.new cfg pol)
    simp only [List.flatten_nil, List.nil_append] at e
    obtain ⟨cs1, h1, e1, hfilt⟩ := closeData_filt hf h hfi (by rw [e]; exact hk)
    refine ⟨cs1, ?_, by rw [e1, e], Or.inr ⟨?_, h1.ne⟩⟩
    · have := close_eq h1.closed
      simp only [closeFilter, hf, Option.map_some, hfilt] at this
      exact this
    · intro hc; subst hc
      simp only [List.flatten_nil] at e1
      rw [← e1] at e; exact hk e.symm

end GoLevel.C13
