import GoLevel.Proofs.DurableStepJ12
/-!
Job steps, part 13: `done` (`finishJob`) for the three kinds.
-/
namespace GoLevel.Dur

/-- at `done` the manifest is settled, mirrored, and the session's journal number is the edit's -/
theorem Inv.done_facts {cfg : Cfg} {s : St} {d : Disk} (h : Inv cfg s d) {j : Job} (hj : s.job = some j)
    (hpc : j.pc = .done) (hl : s.limbo = none) :
    ∃ mf v, curManifest d = some mf ∧ mf.unsynced = [] ∧ lastView cfg d = some v ∧ viewAt cfg mf 0 = some v ∧
      Mirror s v ∧ s.manifestOpen = true ∧ s.manifestFd = d.current ∧
      (∀ e, j.edit = some e → ∀ x, e.jn = some x → v.jn = x) := by
  have hok := h.job
  rw [hj] at hok
  have hok : JobOK cfg s d j := hok
  have hpost : j.pc.post = true := by rw [hpc]; rfl
  have hopen := h.post_open hj hpost
  obtain ⟨mf, v, hcur, hun, hlv, hv0, hmir⟩ := hok.post_settled hpost hopen hl
  have hnr : ∀ m, j.pc ≠ .rotRemove m := by rw [hpc]; intro m hm; cases hm
  refine ⟨mf, v, hcur, hun, hlv, hv0, hmir, hopen, (h.mfd hj).fd hj hnr hl, fun e he x hx => ?_⟩
  rw [hmir.2.1]
  exact ((hok.post_facts hpost).2 e he).2 x hx

theorem MfdOK.nojob {s : St} {d : Disk} (hj : s.job = none) (h : s.manifestFd = d.current) : MfdOK s d := by
  unfold MfdOK; rw [hj]; exact Or.inl h

/-- behind the commit only the job that drops an empty frozen buffer can run beside a storage that is ahead -/
theorem Inv.done_limbo_none {cfg : Cfg} {s : St} {d : Disk} (h : Inv cfg s d) {j : Job} (hj : s.job = some j)
    (hpc : j.pc = .done) (hk : j.kind ≠ .flush) : s.limbo = none := by
  rcases h.post_cases hj (by rw [hpc]; rfl) with ⟨hl, _⟩ | ⟨_, hkf, _⟩
  · exact hl
  · exact absurd hkf hk

/-- the limbo facts when a job that is not retrying its commit ends -/
theorem LimboOK.finish {s s' : St} {d : Disk} (h : LimboOK s d) {j : Job} (hj : s.job = some j)
    (hnret : j.pc.retry = false) (hj' : s'.job = none) (el : s'.limbo = s.limbo)
    (ef : s'.manifestFailed = s.manifestFailed) (ejn : s'.stJn = s.stJn) (esq : s'.stSq = s.stSq)
    (elive : s'.live = s.live) (eseq : s'.seq = s.seq) (hm : ∀ g ∈ must s', g ∈ must s)
    (enf : s'.nextFile = s.nextFile) : LimboOK s' d := by
  unfold LimboOK at h ⊢
  rw [el]
  refine Holds'.imp (o := s.limbo) h (fun u hu => ?_)
  obtain ⟨a, b, c, e, f, g, k0, k⟩ := hu
  refine ⟨by rw [ef]; exact a, b, c, by rw [ejn]; exact e, by rw [esq]; exact f, ?_, by rw [hj']; trivial, Or.inr ?_⟩
  · intro t ht
    rw [elive] at ht
    rw [esq]
    exact g t ht
  · rcases k with k | k
    · rw [hj] at k
      obtain ⟨_, k2⟩ : j.edit = some u ∧ j.pc.retry = true := k
      rw [hnret] at k2; cases k2
    · obtain ⟨k1, k2, k3⟩ := k
      refine ⟨k1, k2, k3.imp (fun t ht => ⟨ht.1, by rw [enf]; exact ht.2.1, ?_⟩)⟩
      refine ht.2.2.imp (fun tf htf => ⟨htf.1, htf.2.1, htf.2.2.imp (fun g0 hg0 => ?_)⟩)
      obtain ⟨m1, m2, m4, m5, m6, m7⟩ := hg0
      exact ⟨m1, m2, fun hx => m4 (hm g0 hx), m5, by rw [eseq]; exact m6, by rw [hj']; trivial⟩

theorem inv_done_flush_settled {cfg : Cfg} {s : St} {d : Disk} (h : Inv cfg s d) {j : Job} (hj : s.job = some j)
    (hpc : j.pc = .done) (hk : j.kind = .flush) (hl : s.limbo = none) : Inv cfg (finishJob s j) d := by
  have hok := h.job
  rw [hj] at hok
  have hok : JobOK cfg s d j := hok
  obtain ⟨mf, v, hcur, hun, hlv, hv0, hmir, hopen, hfd, hjn⟩ := h.done_facts hj hpc hl
  have hkind := hok.kind
  unfold JobKindOK at hkind
  rw [hk] at hkind
  simp only at hkind
  obtain ⟨hph, hkind⟩ := hkind
  have hrun := h.run hph
  have hb := h.bounds (by rw [hph]; decide)
  unfold finishJob
  rw [hk]
  simp only
  constructor
  · exact h.disk
  · exact h.mm
  · intro _
    exact hb.of_same rfl (seqHi_le_of_not_window (not_trWindow_of_kind hj (by rw [hk]; exact fun hx => nomatch hx))
      (not_trWindow_of_nojob rfl) (Nat.le_refl _)) (Nat.le_refl _) (fun hr => ⟨hr, Nat.le_refl _⟩)
  · intro _
    obtain ⟨r1, r2, r3, r4, r5, r6, r7, r8, r9, _⟩ := hrun
    refine ⟨⟨r1.1, Holds'.imp (o := s.tr) r1.2 (fun g hg => ⟨hg.1, hg.2.1, rfl, hg.2.2.2⟩)⟩,
      ⟨MfdOK.nojob rfl hfd, r2.2⟩, r3, r4, r5, r6, frozenOK_iff.2 (Or.inl ⟨rfl, rfl⟩), ?_, fun _ => ?_,
      LimboOK.of_none hl⟩
    · apply holds_of_some hcur
      apply holds_of_some hv0
      intro p hp hjn0
      have q1 := holds_some r8 hcur
      have q2 := holds_some q1 hv0
      rcases q2 p hp hjn0 with h1 | h1 | h1
      · exact Or.inl h1
      · -- the frozen journal: irrelevant after the commit, or empty
        rcases frozenOK_iff.1 r7 with ⟨_, h3⟩ | ⟨fz, jf, h2, h3, f1, f2, _, _, f5, _⟩
        · rw [h3] at h1; cases h1
        rw [h3] at h1; cases h1
        rw [h2, h3] at hkind
        cases he : j.edit with
        | none =>
          rw [he] at hkind
          simp only at hkind
          obtain ⟨_, b5, c5, e6⟩ := f5 p hp rfl
          rw [hkind.1] at b5 c5 e6
          refine Or.inr (Or.inr ⟨fun x hx => ⟨fun hm => (by cases b5 x hx hm), ?_⟩, fun hx => ?_⟩)
          rotate_left
          · apply List.eq_nil_iff_forall_not_mem.2
            intro x hxa
            cases e6 hx x hxa
          show x.fin ≤ s.seq + 1
          rcases c5 x hx with h4 | h4
          · cases h4
          · omega
        | some e =>
          rw [he] at hkind
          simp only at hkind
          have := hjn e he s.jcur hkind.2.1
          omega
      · exact Or.inr (Or.inr h1)
    · unfold Settled
      rw [hcur]
      exact ⟨fun _ _ => hun, by rw [hlv]; exact (MirrorL.of_none hl).2 hmir⟩
  · intro hc; rw [hph] at hc; cases hc
  · intro hc; rw [hph] at hc; cases hc
  · trivial


/-- the job that only drops an empty frozen buffer ends; the storage may be one edit ahead of the session -/
theorem inv_done_flush_noedit {cfg : Cfg} {s : St} {d : Disk} (h : Inv cfg s d) {j : Job} (hj : s.job = some j)
    (hpc : j.pc = .done) (hk : j.kind = .flush) (he : j.edit = none) : Inv cfg (finishJob s j) d := by
  have hok := h.job
  rw [hj] at hok
  have hok : JobOK cfg s d j := hok
  have hpost : j.pc.post = true := by rw [hpc]; rfl
  have hsett : Settled cfg s d (MirrorL s) := (hok.post_facts hpost).1
  obtain ⟨mf, v0, hparts⟩ := h.disk.parts
  have hcur := hparts.cur
  have hv0 := hparts.hv0
  have hkind := hok.kind
  unfold JobKindOK at hkind
  rw [hk] at hkind
  simp only at hkind
  obtain ⟨hph, hkind⟩ := hkind
  have hrun := h.run hph
  have hb := h.bounds (by rw [hph]; decide)
  have hnr : ∀ m, j.pc ≠ .rotRemove m := by rw [hpc]; intro m hm; cases hm
  unfold finishJob
  rw [hk]
  simp only
  constructor
  · exact h.disk
  · exact h.mm
  · intro _
    exact hb.of_same rfl (seqHi_le_of_not_window (not_trWindow_of_kind hj (by rw [hk]; exact fun hx => nomatch hx))
      (not_trWindow_of_nojob rfl) (Nat.le_refl _)) (Nat.le_refl _) (fun hr => ⟨hr, Nat.le_refl _⟩)
  · intro _
    obtain ⟨r1, r2, r3, r4, r5, r6, r7, r8, r9, r10⟩ := hrun
    refine ⟨⟨r1.1, Holds'.imp (o := s.tr) r1.2 (fun g hg => ⟨hg.1, hg.2.1, rfl, hg.2.2.2⟩)⟩,
      ⟨r2.1.transport (by rw [hj]; intro m hm; exact hnr m (Option.some.inj hm)) (by intro m hm; cases hm) rfl rfl rfl,
        r2.2⟩, r3, r4, r5, r6, frozenOK_iff.2 (Or.inl ⟨rfl, rfl⟩), ?_, fun _ => hsett,
      r10.finish hj (by rw [hpc]; rfl) rfl rfl rfl rfl rfl rfl rfl (fun _ hx => hx) rfl⟩
    apply holds_of_some hcur
    apply holds_of_some hv0
    intro p hp hjn0
    have q1 := holds_some r8 hcur
    have q2 := holds_some q1 hv0
    rcases q2 p hp hjn0 with h1 | h1 | h1
    · exact Or.inl h1
    · -- the frozen journal: empty
      rcases frozenOK_iff.1 r7 with ⟨_, h3⟩ | ⟨fz, jf, h2, h3, f1, f2, _, _, f5, _⟩
      · rw [h3] at h1; cases h1
      rw [h3] at h1; cases h1
      rw [h2, h3, he] at hkind
      simp only at hkind
      obtain ⟨_, b5, c5, e6⟩ := f5 p hp rfl
      rw [hkind.1] at b5 c5 e6
      refine Or.inr (Or.inr ⟨fun x hx => ⟨fun hm => (by cases b5 x hx hm), ?_⟩, fun hx => ?_⟩)
      rotate_left
      · apply List.eq_nil_iff_forall_not_mem.2
        intro x hxa
        cases e6 hx x hxa
      show x.fin ≤ s.seq + 1
      rcases c5 x hx with h4 | h4
      · cases h4
      · omega
    · exact Or.inr (Or.inr h1)
  · intro hc; rw [hph] at hc; cases hc
  · intro hc; rw [hph] at hc; cases hc
  · trivial

theorem inv_done_flush {cfg : Cfg} {s : St} {d : Disk} (h : Inv cfg s d) {j : Job} (hj : s.job = some j)
    (hpc : j.pc = .done) (hk : j.kind = .flush) : Inv cfg (finishJob s j) d := by
  rcases h.post_cases hj (by rw [hpc]; rfl) with ⟨hl, _⟩ | ⟨he, _⟩
  · exact inv_done_flush_settled h hj hpc hk hl
  · exact inv_done_flush_noedit h hj hpc hk he

theorem inv_done_recovMid {cfg : Cfg} {s : St} {d : Disk} (h : Inv cfg s d) {j : Job} (hj : s.job = some j)
    (hpc : j.pc = .done) (hk : j.kind = .recovMid) : Inv cfg (finishJob s j) d := by
  have hok := h.job
  rw [hj] at hok
  have hok : JobOK cfg s d j := hok
  have hl : s.limbo = none := h.done_limbo_none hj hpc (by rw [hk]; exact fun hx => nomatch hx)
  obtain ⟨mf, v, hcur, hun, hlv, hv0, hmir, hopen, hfd, hjn⟩ := h.done_facts hj hpc hl
  have hkind := hok.kind
  unfold JobKindOK at hkind
  rw [hk] at hkind
  simp only at hkind
  obtain ⟨hph, _, hkind⟩ := hkind
  have hrec := h.recov hph
  have hb := h.bounds (by rw [hph]; decide)
  rw [holds_iff] at hrec hkind
  obtain ⟨r, hr, hrec⟩ := hrec
  obtain ⟨r', hr', hkind⟩ := hkind
  rw [hr] at hr'; cases hr'
  rw [holds_iff] at hkind
  obtain ⟨o, ho, _, _, hkind⟩ := hkind
  rw [holds_iff] at hkind
  obtain ⟨n, hn, hkind⟩ := hkind
  rw [holds_iff] at hkind
  obtain ⟨e, he, hejn, _⟩ := hkind
  have hvjn : v.jn = n := hjn e he n hejn
  have hon : o < n := by
    apply hrec.ofdLt o ho n
    cases ht : r.todo with
    | nil => rw [ht] at hn; cases hn
    | cons y ys => rw [ht] at hn; cases hn; exact List.mem_cons_self
  unfold finishJob
  rw [hk]
  simp only
  constructor
  · exact h.disk
  · exact h.mm
  · intro _
    exact hb.of_same rfl (seqHi_le_of_not_window (not_trWindow_of_kind hj (by rw [hk]; exact fun hx => nomatch hx))
      (not_trWindow_of_nojob rfl) (Nat.le_refl _)) (Nat.le_refl _) (fun hr' => ⟨hr', Nat.le_refl _⟩)
  · intro hc; rw [hph] at hc; cases hc
  · intro _
    rw [hr]
    simp only [Option.map_some, Holds]
    obtain ⟨r1, r2, r3, r4, r5, r6, r7, r8, r9, r10⟩ := hrec
    refine ⟨MfdOK.nojob rfl hfd, r2, r3, (fun o' ho' => by cases ho'), r5, r6, ?_, fun _ => ?_, ?_,
      (fun o' ho' => by cases ho')⟩
    · show MdbOK _ d { r with ofd := none, mdb := [] }
      unfold MdbOK
      rfl
    · unfold Settled
      rw [hcur]
      exact ⟨fun _ _ => hun, by rw [hlv]; exact ⟨hmir, (fun o' ho' => by cases ho')⟩⟩
    · rw [hlv] at r9 ⊢
      refine ⟨fun p hp hge => ?_, r9.2⟩
      rcases r9.1 p hp hge with h1 | h1 | h1
      · exact Or.inl h1
      · rw [ho] at h1; cases h1
        have : v.jn ≤ p.1 := hge
        omega
      · exact Or.inr (Or.inr h1)
  · intro hc; rw [hph] at hc; cases hc
  · trivial

theorem inv_done_recovFinal {cfg : Cfg} {s : St} {d : Disk} (h : Inv cfg s d) {j : Job} (hj : s.job = some j)
    (hpc : j.pc = .done) (hk : j.kind = .recovFinal) : Inv cfg (finishJob s j) d := by
  have hok := h.job
  rw [hj] at hok
  have hok : JobOK cfg s d j := hok
  have hl : s.limbo = none := h.done_limbo_none hj hpc (by rw [hk]; exact fun hx => nomatch hx)
  obtain ⟨mf, v, hcur, hun, hlv, hv0, hmir, hopen, hfd, hjn⟩ := h.done_facts hj hpc hl
  have hkind := hok.kind
  unfold JobKindOK at hkind
  rw [hk] at hkind
  simp only at hkind
  obtain ⟨hph, hkind⟩ := hkind
  have hrec := h.recov hph
  have hb := h.bounds (by rw [hph]; decide)
  rw [holds_iff] at hrec hkind
  obtain ⟨r, hr, hrec⟩ := hrec
  obtain ⟨r', hr', _, _, _, hkind⟩ := hkind
  rw [hr] at hr'; cases hr'
  rw [holds_iff] at hkind
  obtain ⟨n, hn, hkind⟩ := hkind
  rw [holds_iff] at hkind
  obtain ⟨e, he, hejn, _⟩ := hkind
  have hvjn : v.jn = n := hjn e he n hejn
  have hmk := hok.mkj
  unfold MkJournalOK at hmk
  rw [hn] at hmk
  simp only at hmk
  rw [if_neg (by rw [hpc]; rintro (h3 | h3) <;> cases h3)] at hmk
  obtain ⟨hnlt, hjc, ⟨pn, hpn, hpnn⟩, hall⟩ := hmk
  have hnd := sorted_nodup h.disk.jsorted
  have hbv := hb.all mf hcur 0 (Nat.zero_le _) v hv0
  unfold finishJob
  rw [hk]
  simp only
  constructor
  · apply h.disk.mono _ (fun _ hx => hx)
    intro x hx
    rw [must_eq] at hx ⊢
    rw [hrec.idle.1]
    exact hx
  · exact h.mm
  · intro _
    apply ViewBounds.single hcur hun hv0
    rw [seqHi_eq (not_trWindow_of_kind hj (by rw [hk]; exact fun hx => nomatch hx))] at hbv
    rw [seqHi_eq (not_trWindow_of_nojob rfl)]
    exact ⟨hbv.1, hbv.2.1, fun _ => by rw [hvjn, hjc]; exact Nat.le_refl _⟩
  · intro _
    refine ⟨⟨rfl, by unfold TrOK; show Holds' s.tr _; rw [hrec.idle.2.2.1]; trivial⟩,
      ⟨MfdOK.nojob rfl hfd, hopen⟩, ?_, ?_, ⟨fun p hp => Or.inl (hrec.nums.1 p hp), hrec.nums.2.1⟩, ?_,
      frozenOK_iff.2 (Or.inl ⟨rfl, rfl⟩), ?_, fun _ => ?_, LimboOK.of_none hl⟩
    · show Holds (lookup d.journals s.jcur) _
      have hl : lookup d.journals pn.1 = some pn.2 := lookup_of_mem hnd (by cases pn; exact hpn)
      rw [hjc, ← hpnn, hl]
      have hemp : pn.2.all = [] := by
        rcases hall pn hpn with h1 | ⟨_, h1⟩
        · omega
        · exact h1
      show JournalHolds _ pn.2 ([] ++ inflight .idle) s.seq
      refine ⟨fun x hx => (by cases hx), fun x hx _ => ?_, fun x hx => ?_, fun _ x hx => ?_⟩
      · rw [hemp] at hx; cases hx
      · rw [hemp] at hx; cases hx
      · rw [hemp] at hx; cases hx
    · refine ⟨by show s.jcur < s.nextFile; rw [hjc]; exact hnlt, fun p hp => Or.inl ?_⟩
      show p.1 ≤ s.jcur
      rw [hjc]
      rcases hall p hp with h1 | ⟨h1, _⟩
      · exact Nat.le_of_lt h1
      · exact Nat.le_of_eq h1
    · show WSeqOK _
      unfold WSeqOK
      intro x hx; cases hx
    · apply holds_of_some hcur
      apply holds_of_some hv0
      intro p hp hge
      rcases hall p hp with h1 | ⟨h1, _⟩
      · omega
      · exact Or.inl (by rw [hjc]; exact h1)
    · unfold Settled
      rw [hcur]
      exact ⟨fun _ _ => hun, by rw [hlv]; exact (MirrorL.of_none hl).2 hmir⟩
  · intro hc; cases hc
  · intro hc; cases hc
  · trivial

theorem inv_done_compaction {cfg : Cfg} {s : St} {d : Disk} (h : Inv cfg s d) {j : Job} (hj : s.job = some j)
    (hpc : j.pc = .done) (hk : j.kind = .compaction) : Inv cfg (finishJob s j) d := by
  have hok := h.job
  rw [hj] at hok
  have hok : JobOK cfg s d j := hok
  have hl : s.limbo = none := h.done_limbo_none hj hpc (by rw [hk]; exact fun hx => nomatch hx)
  obtain ⟨mf, v, hcur, hun, hlv, hv0, hmir, hopen, hfd, hjn⟩ := h.done_facts hj hpc hl
  have hkind := hok.kind
  unfold JobKindOK at hkind
  rw [hk] at hkind
  simp only at hkind
  obtain ⟨hph, _⟩ := hkind
  have hrun := h.run hph
  have hb := h.bounds (by rw [hph]; decide)
  have hfp : FlushPending s := by
    unfold FlushPending; rw [hj]; intro hf; rw [hk] at hf; cases hf
  unfold finishJob
  rw [hk]
  simp only
  constructor
  · exact h.disk
  · exact h.mm
  · intro _
    exact hb.of_same rfl (seqHi_le_of_not_window (not_trWindow_of_kind hj (by rw [hk]; exact fun hx => nomatch hx))
      (not_trWindow_of_nojob rfl) (Nat.le_refl _)) (Nat.le_refl _) (fun hr => ⟨hr, Nat.le_refl _⟩)
  · intro _
    obtain ⟨r1, r2, r3, r4, r5, r6, r7, r8, r9, _⟩ := hrun
    refine ⟨r1, ⟨MfdOK.nojob rfl hfd, r2.2⟩, r3, r4, r5, r6, ?_, r8, fun _ => ?_, LimboOK.of_none hl⟩
    · rcases frozenOK_iff.1 r7 with ⟨h1, h2⟩ | ⟨fz, jf, h1, h2, f1, f2, f3, f4, f5, f6⟩
      · exact frozenOK_iff.2 (Or.inl ⟨h1, h2⟩)
      · exact frozenOK_iff.2 (Or.inr ⟨fz, jf, h1, h2, f1, f2, f3, f4, f5, fun _ => f6 hfp⟩)
    · unfold Settled
      rw [hcur]
      exact ⟨fun _ _ => hun, by rw [hlv]; exact (MirrorL.of_none hl).2 hmir⟩
  · intro hc; rw [hph] at hc; cases hc
  · intro hc; rw [hph] at hc; cases hc
  · trivial

/-- `db.setSeq(tr.seq)`: the transaction is acknowledged -/
theorem inv_done_tr {cfg : Cfg} {s : St} {d : Disk} (h : Inv cfg s d) {j : Job} (hj : s.job = some j)
    (hpc : j.pc = .done) (hk : j.kind = .tr) : Inv cfg (finishJob s j) d := by
  have hok := h.job
  rw [hj] at hok
  have hok : JobOK cfg s d j := hok
  have hl : s.limbo = none := h.done_limbo_none hj hpc (by rw [hk]; exact fun hx => nomatch hx)
  obtain ⟨mf, v, hcur, hun, hlv, hv0, hmir, hopen, hfd, hjn⟩ := h.done_facts hj hpc hl
  have hkind := hok.kind
  unfold JobKindOK at hkind
  rw [hk] at hkind
  simp only at hkind
  obtain ⟨hph, _, _, _, hkind⟩ := hkind
  rw [holds_iff] at hkind
  obtain ⟨g, hg, hkind⟩ := hkind
  rw [holds_iff] at hkind
  obtain ⟨e, he, _, hesq, houts, hgne, hgi⟩ := hkind
  have hrun := h.run hph
  have hb := h.bounds (by rw [hph]; decide)
  have htr := hrun.norecov.2
  unfold TrOK at htr
  rw [hg] at htr
  obtain ⟨hw, hmem, hfz, hgs, hgsync⟩ : s.w = .idle ∧ s.mem = [] ∧ s.frozen = none ∧ g.seq = s.seq + 1 ∧ g.sync = true := htr
  have hfin := Grp.seq_lt_fin hgne
  have hbv := hb.all mf hcur 0 (Nat.zero_le _) v hv0
  rw [seqHi_post hj (by rw [hpc]; rfl)] at hbv
  have hcap : sqCap s j = g.fin - 1 := by unfold sqCap; rw [if_pos hk, hg]
  rw [hcap] at hbv
  -- the transaction's table is live in the (only) view
  have hcom := hok.committed (by rw [hpc]; rfl)
  rw [hlv] at hcom
  have hcom : ∀ o ∈ j.outs, o.1 ∈ v.live ∧ lookup d.tables o.1 = some ⟨o.2, true, false⟩ := hcom
  have hglive : g ∈ liveGrps d v := by
    obtain ⟨h1, h2⟩ := hcom (e.added.headD 0, [g]) (by rw [houts]; exact List.mem_singleton.2 rfl)
    refine List.mem_flatMap.2 ⟨_, h1, ?_⟩
    simp only [tableGrpsOf, h2, Option.map_some, Option.getD_some, List.mem_singleton]
  have hold := rel_groups_old h.disk hrun (by rw [hw]; rfl) (by rw [hmem]; intro x hx; cases hx)
  have hmust' : ∀ s' : St, s'.w = .idle → s'.issued = setStatus g .acked s.issued → ∀ x ∈ must s', x ∈ must s ∨ x = g := by
    intro s' hw' hi' x hx
    rw [must_eq] at hx ⊢
    simp only [hw, hw', hi', List.append_nil] at hx ⊢
    rcases mem_ackedSync_setStatus hx with h1 | ⟨rfl, _⟩
    · exact Or.inl h1
    · exact Or.inr rfl
  unfold finishJob
  rw [hk]
  simp only [hg]
  constructor
  · apply h.disk.mono_cover
    · intro x hx
      rw [must_eq] at hx ⊢
      simp only [hw, List.append_nil] at hx ⊢
      rcases mem_ackedSync_setStatus hx with h1 | ⟨rfl, _⟩
      · exact Or.inl h1
      · right
        intro mf1 hc1 k hk1 v1 hv1
        rw [hcur] at hc1; cases hc1
        have : k = 0 := by simpa [hun] using hk1
        subst this
        rw [hv0] at hv1; cases hv1
        refine ⟨Or.inl hglive, fun p hp hxp => ?_⟩
        have := hold mf hcur 0 (Nat.zero_le _) v hv0 p hp x hxp
        omega
    · intro x hx
      simp only [issuedGrps, issuedGrps_setStatus] at hx ⊢
      exact hx
  · exact h.mm
  · intro _
    apply ViewBounds.single hcur hun hv0
    rw [seqHi_eq (not_trWindow_of_nojob rfl)]
    exact ⟨hbv.1, hbv.2.1, hbv.2.2⟩
  · intro _
    obtain ⟨r1, r2, r3, r4, r5, r6, r7, r8, r9, _⟩ := hrun
    refine ⟨⟨r1.1, trivial⟩, ⟨MfdOK.nojob rfl hfd, r2.2⟩, ?_, r4, r5, ?_, ?_, ?_, fun _ => ?_, LimboOK.of_none hl⟩
    · refine r3.imp (fun jf hjf => ?_)
      rw [hmem, hw] at hjf
      have hbound : ∀ x ∈ jf.all, x.fin ≤ s.seq + 1 := by
        intro x hx
        rcases hjf.2.2.1 x hx with h4 | h4
        · simp [inflight] at h4
        · exact h4
      rw [hmem, hw]
      refine ⟨fun x hx => (by cases hx), fun x hx hxm => ?_, fun x hx => ?_, fun hef x hx => ?_⟩
      · rcases hmust' _ rfl rfl x hxm with h4 | rfl
        · exact hjf.2.1 x hx h4
        · have := hbound x hx; omega
      · right; show x.fin ≤ g.fin - 1 + 1; have := hbound x hx; omega
      · exact hjf.2.2.2 hef x hx
    rotate_left 2
    · refine r8.imp (fun mf1 hmf1 => hmf1.imp (fun v1 hv1 p hp hge => ?_))
      rcases hv1 p hp hge with h1 | h1 | h1
      · exact Or.inl h1
      · exact Or.inr (Or.inl h1)
      · refine Or.inr (Or.inr ⟨fun x hx => ⟨fun hxm => ?_, ?_⟩, h1.2⟩)
        · rcases hmust' { s with job := none, tr := none, seq := g.fin - 1, hi := g.fin, issued := setStatus g .acked s.issued } hw rfl x hxm with h4 | rfl
          · exact (h1.1 x hx).1 h4
          · have := (h1.1 x hx).2; omega
        · show x.fin ≤ g.fin - 1 + 1; have := (h1.1 x hx).2; omega
    rotate_left 1
    · show WSeqOK _
      unfold WSeqOK
      rw [hw]
      simp only [hmem]
      intro x hx; cases hx
    · rcases frozenOK_iff.1 r7 with ⟨h1, h2⟩ | ⟨fz, jf, h1, _⟩
      · exact frozenOK_iff.2 (Or.inl ⟨h1, h2⟩)
      · rw [hfz] at h1; cases h1
    · unfold Settled
      rw [hcur]
      exact ⟨fun _ _ => hun, by rw [hlv]; exact (MirrorL.of_none hl).2 hmir⟩
  · intro hc; rw [hph] at hc; cases hc
  · intro hc; rw [hph] at hc; cases hc
  · trivial

theorem inv_job_done {cfg : Cfg} {s : St} {d : Disk} (h : Inv cfg s d) {j : Job}
    (hj : s.job = some j) (hpc : j.pc = .done) {rot : Bool}
    {s' : St} {d' : Disk} (hs : stepJob cfg s d j rot .ok = some (s', d')) : Inv cfg s' d' := by
  have hok := h.job
  rw [hj] at hok
  have hok : JobOK cfg s d j := hok
  rw [stepJob_done hpc] at hs
  simp only [Option.some.injEq, Prod.mk.injEq] at hs
  obtain ⟨rfl, rfl⟩ := hs
  rcases hok.kinds with hk | hk | hk | hk | hk
  · exact inv_done_flush h hj hpc hk
  · exact inv_done_recovMid h hj hpc hk
  · exact inv_done_recovFinal h hj hpc hk
  · exact inv_done_compaction h hj hpc hk
  · exact inv_done_tr h hj hpc hk

end GoLevel.Dur
